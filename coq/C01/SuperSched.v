(* C01 / C02 - superset (sc_notify_payload_superset: Isend of the items to the receivers on the TRUE tag, Isend of an empty message to the
   extra receivers computed by the callback on the EXTRA tag, then the loop  Iprobe (TRUE) / Iprobe (EXTRA)  until as many messages were
   received as the callback announced super senders) under EVERY SCHEDULE of the interleaving semantics with polls MPI/SemPoll.v.

   The callback compute_superset is a PARAMETER, as in C01/SupersetProofs.v: `extra q` = the ranks it adds to the receivers of q,
   `supers r` = the ranks it announces to r.  CONTRACT of the callback (hypothesis Hcontract): it announces to r as many ranks as will
   contact it: |supers r| = |ranks that list r| + |ranks whose extra receivers contain r|  (SupersetProofs states it as a permutation;
   the program only uses the length).  The extra receivers of a rank are distinct ranks of the communicator (HX).

   System super_sys: rank r, 0 <= r < P, runs  super_core fuel (R r) ep (extra r) (supers r) sorted (fun s g => Ret (result s g)).
   Ghost state of a rank: sending on the TRUE tag / sending on the EXTRA tag / in the loop (iterations left, TRUE messages received,
   EXTRA senders received, at the TRUE poll or at the EXTRA poll) / returned.  Invariant SInv: channel (a, b, TRUE) = [item a b] iff a has
   sent it and b has not received it, channel (a, b, EXTRA) = [[]] likewise, all other channels empty; what b received was sent to it,
   once; a rank in the loop still waits for queue = |supers| - received > 0 messages, a returned rank for none.
   Theorems: super_safety (SInv in every reachable state), super_final (final states: transposed lists - a permutation if unsorted -,
   extra contacts not reported, every channel of both tags empty), super_every_schedule (+ no rank blocked, a final state reachable by
   at most super_bound further steps, for every run of n steps with n + super_bound < fuel), super_fair_termination. *)
From Coq Require Import ZArith Lia List Bool Permutation.
From ScV Require Import Base.CInt MPI.Prog MPI.Sem MPI.SemPoll Gen.Consts Gen.NotifyC01
     C01.MergeModel C01.MergeProofs C01.NotifyProgs C01.NotifyProgProofs C01.RecordOps C01.NaryRound C01.NarySched C01.CensusSched C01.NbxSched.
Import ListNotations.
Local Open Scope Z_scope.

Definition TT : Z := c_SC_TAG_NOTIFY_SUPER_TRUE.
Definition TE : Z := c_SC_TAG_NOTIFY_SUPER_EXTRA.
Definition super_poll (t : Z) : bool := (t =? TT) || (t =? TE).
Definition super_stags : list Z := [].

Inductive spos := AtTrue | AtExtra.
Inductive sstate :=
| SSend1 (j : nat)                                                 (* j items sent on the TRUE tag *)
| SSend2 (j : nat)                                                 (* all items sent, j messages on the EXTRA tag *)
| SLoop (f : nat) (acc : list (Z * payload)) (xacc : list Z) (p : spos)
| SDone (acc : list (Z * payload)) (xacc : list Z)
| SOut.

(* generic list lemmas (as in NbxSched.v, where they live inside the section) *)
Lemma l_skipn_nth {A} (d : A) : forall (l : list A) j, (j < length l)%nat -> skipn j l = nth j l d :: skipn (S j) l.
Proof.
  induction l as [|x l IH]; intros j Hj; [cbn in Hj; lia|]. destruct j as [|j]; [reflexivity|]. cbn [length] in Hj.
  change (skipn (S j) (x :: l)) with (skipn j l). change (skipn (S (S j)) (x :: l)) with (skipn (S j) l). cbn [nth]. apply IH. lia.
Qed.

Lemma l_pick_missing (A B : list Z) : NoDup A -> (length B < length A)%nat -> exists a, In a A /\ ~ In a B.
Proof.
  intros Hnd Hlen. destruct (existsb (fun a => negb (memz a B)) A) eqn:E.
  - apply existsb_exists in E. destruct E as [a [Ha Hn]]. exists a. split; [exact Ha|]. intros Hin. apply memz_In in Hin. rewrite Hin in Hn. discriminate.
  - exfalso. assert (Hincl : incl A B).
    { intros a Ha. destruct (memz a B) eqn:Em; [apply memz_In; exact Em|]. exfalso.
      assert (existsb (fun a0 => negb (memz a0 B)) A = true) by (apply existsb_exists; exists a; rewrite Em; auto). congruence. }
    pose proof (NoDup_incl_length Hnd Hincl). lia.
Qed.

Lemma l_sum_upd_eq (g h : Z -> nat) : forall l r, NoDup l -> In r l -> (forall y, y <> r -> h y = g y) ->
  (list_sum (map h l) + g r = list_sum (map g l) + h r)%nat.
Proof.
  induction l as [|x l IH]; intros r Hnd Hin Heq; [contradiction|]. inversion Hnd as [|? ? Hx Hnd']; subst. cbn [map list_sum fold_right].
  change (fold_right Nat.add 0%nat (map h l)) with (list_sum (map h l)). change (fold_right Nat.add 0%nat (map g l)) with (list_sum (map g l)).
  destruct Hin as [->|Hin].
  - assert (E : map h l = map g l) by (apply map_ext_in; intros y Hy; apply Heq; intros ->; contradiction). rewrite E. lia.
  - assert (x <> r) by (intros ->; contradiction). rewrite (Heq x H). specialize (IH r Hnd' Hin Heq). lia.
Qed.

Section SuperSched.
  Variable P : Z.
  Variable R : Z -> list Z.
  Variable hp : bool.
  Variable pay : Z -> Z -> payload.
  Variable extra : Z -> list Z.                      (* the callback: extra receivers of every rank *)
  Variable supers : Z -> list Z.                     (* the callback: announced super senders of every rank *)
  Variable sorted : bool.
  Variable fuel : nat.
  Hypothesis HR : forall f, 0 <= f < P -> ssorted (fun x => x) (R f) /\ forall t, In t (R f) -> 0 <= t < P.
  Hypothesis HX : forall f, 0 <= f < P -> NoDup (extra f) /\ forall t, In t (extra f) -> 0 <= t < P.

  Definition T (r : Z) : list Z := transpose P R r.
  Definition X (r : Z) : list Z := filter (fun q => memz r (extra q)) (ranks P).      (* the ranks that contact r as an extra receiver *)
  Hypothesis Hcontract : forall r, 0 <= r < P -> length (supers r) = (length (T r) + length (X r))%nat.

  Definition sep (r : Z) : option (list payload) := if hp then Some (map (pay r) (R r)) else None.
  Definition sitem (q r : Z) : payload := if hp then pay q r else [].
  Definition super_prog (r : Z) : prog :=
    if inr P r then super_core fuel (R r) (sep r) (extra r) (supers r) sorted (fun s g => Ret (result s g)) else Ret [].
  Definition super_sys : pst := mkpst super_prog (fun _ _ _ => []) (fun _ => false).

  Definition SK (r : Z) : list (Z * payload) -> prog := fun got =>
    let got' := if sorted then sort_by_src got else got in
    (fun s g => Ret (result s g)) (map fst got') (match sep r with None => [] | Some _ => map snd got' end).
  Definition msgs1 (r : Z) : list (Z * Z * payload) := map (fun d => (d, TT, sitem r d)) (R r).
  Definition msgs2 (r : Z) : list (Z * Z * payload) := map (fun q => (q, TE, @nil Z)) (extra r).
  Definition queue (r : Z) (acc : list (Z * payload)) (xacc : list Z) : Z :=
    Z.of_nat (length (supers r)) - Z.of_nat (length acc) - Z.of_nat (length xacc).
  Definition loop0 (r : Z) : prog := super_loop fuel (queue r [] []) [] (SK r).

  Lemma super_core_eq r : super_core fuel (R r) (sep r) (extra r) (supers r) sorted (fun s g => Ret (result s g))
                          = do_sends (msgs1 r) (do_sends (msgs2 r) (loop0 r)).
  Proof.
    unfold super_core, msgs1, msgs2, loop0, SK. f_equal; [unfold sep, sitem; destruct hp; rewrite zip_map_l, map_map; reflexivity|].
    f_equal. f_equal. unfold queue. cbn [length]. lia.
  Qed.

  Definition prog_of (r : Z) (st : sstate) : prog :=
    match st with
    | SSend1 j => do_sends (skipn j (msgs1 r)) (do_sends (msgs2 r) (loop0 r))
    | SSend2 j => do_sends (skipn j (msgs2 r)) (loop0 r)
    | SLoop f acc xacc AtTrue => super_loop f (queue r acc xacc) acc (SK r)
    | SLoop f acc xacc AtExtra =>
      Do (Recv ANY TE) (fun e => if hd 0 e <? 0 then super_loop f (queue r acc xacc) acc (SK r)
                                 else super_loop f (queue r acc xacc - 1) acc (SK r))
    | SDone acc xacc => SK r (rev acc)
    | SOut => Ret []
    end.

  (* the state after the loop is (re-)entered with f iterations left *)
  Definition mkloop (r : Z) (f : nat) (acc : list (Z * payload)) (xacc : list Z) : sstate :=
    match f with
    | O => SLoop 0 acc xacc AtTrue
    | S _ => if queue r acc xacc <=? 0 then SDone acc xacc else SLoop f acc xacc AtTrue
    end.
  Definition enter2 (r : Z) : sstate := if (0 <? length (extra r))%nat then SSend2 0 else mkloop r fuel [] [].
  Definition next1 (r : Z) (j : nat) : sstate := if (j <? length (R r))%nat then SSend1 j else enter2 r.
  Definition next2 (r : Z) (j : nat) : sstate := if (j <? length (extra r))%nat then SSend2 j else mkloop r fuel [] [].
  Definition sst0 (r : Z) : sstate := if inr P r then next1 r 0 else SOut.

  Lemma prog_mkloop r f acc xacc : prog_of r (mkloop r f acc xacc) = super_loop f (queue r acc xacc) acc (SK r).
  Proof. unfold mkloop. destruct f as [|f]; [reflexivity|]. destruct (queue r acc xacc <=? 0) eqn:E; cbn [prog_of super_loop]; rewrite E; reflexivity. Qed.

  Lemma prog_next2 r j : (j <= length (extra r))%nat -> prog_of r (next2 r j) = do_sends (skipn j (msgs2 r)) (loop0 r).
  Proof.
    intros Hj. unfold next2. destruct (Nat.ltb_spec j (length (extra r))); [reflexivity|]. rewrite prog_mkloop.
    rewrite skipn_all2 by (unfold msgs2; rewrite map_length; lia). reflexivity.
  Qed.

  Lemma prog_enter2 r : prog_of r (enter2 r) = do_sends (msgs2 r) (loop0 r).
  Proof.
    unfold enter2. destruct (Nat.ltb_spec 0 (length (extra r))); [reflexivity|]. rewrite prog_mkloop.
    assert (E : msgs2 r = []) by (unfold msgs2; destruct (extra r); [reflexivity|cbn in *; lia]). rewrite E. reflexivity.
  Qed.

  Lemma prog_next1 r j : (j <= length (R r))%nat -> prog_of r (next1 r j) = do_sends (skipn j (msgs1 r)) (do_sends (msgs2 r) (loop0 r)).
  Proof.
    intros Hj. unfold next1. destruct (Nat.ltb_spec j (length (R r))); [reflexivity|]. rewrite prog_enter2.
    rewrite skipn_all2 by (unfold msgs1; rewrite map_length; lia). reflexivity.
  Qed.

  Definition sent1 (st : sstate) (r d : Z) : bool :=
    match st with SSend1 j => memz d (firstn j (R r)) | SOut => false | _ => memz d (R r) end.
  Definition sent2 (st : sstate) (r d : Z) : bool :=
    match st with SSend1 _ => false | SSend2 j => memz d (firstn j (extra r)) | SOut => false | _ => memz d (extra r) end.
  Definition acc_of (st : sstate) : list (Z * payload) := match st with SLoop _ acc _ _ => acc | SDone acc _ => acc | _ => [] end.
  Definition xacc_of (st : sstate) : list Z := match st with SLoop _ _ xacc _ => xacc | SDone _ xacc => xacc | _ => [] end.
  Definition rcvd1 (st : sstate) (a : Z) : bool := memz a (map fst (acc_of st)).
  Definition rcvd2 (st : sstate) (a : Z) : bool := memz a (xacc_of st).

  Record SInv (s : pst) (st : Z -> sstate) : Prop := {
    s_out : forall r, st r = SOut <-> ~ (0 <= r < P);
    s_prog : forall r, ppr s r = prog_of r (st r);
    s_ch : forall a b t, pch s a b t =
             if (t =? TT) && sent1 (st a) a b && negb (rcvd1 (st b) a) then [sitem a b]
             else if (t =? TE) && sent2 (st a) a b && negb (rcvd2 (st b) a) then [[]] else [];
    s_acc : forall b, NoDup (map fst (acc_of (st b))) /\ forall a m, In (a, m) (acc_of (st b)) -> sent1 (st a) a b = true /\ m = sitem a b;
    s_xacc : forall b, NoDup (xacc_of (st b)) /\ forall a, In a (xacc_of (st b)) -> sent2 (st a) a b = true;
    s_q : forall r f acc xacc p, st r = SLoop f acc xacc p -> p = AtExtra \/ f <> 0%nat -> 0 < queue r acc xacc;
    s_done : forall r acc xacc, st r = SDone acc xacc -> queue r acc xacc <= 0;
    s_send1 : forall r j, st r = SSend1 j -> (j < length (R r))%nat;
    s_send2 : forall r j, st r = SSend2 j -> (j < length (extra r))%nat
  }.

  Lemma R_nodup r : 0 <= r < P -> NoDup (R r).
  Proof. intros Hr. apply (ssorted_NoDup (fun x => x)). apply (HR r Hr). Qed.

  (* the shapes of the states after the sends *)
  Lemma mkloop_cases r f acc xacc :
    (mkloop r f acc xacc = SLoop f acc xacc AtTrue /\ (f <> 0%nat -> 0 < queue r acc xacc)) \/
    (mkloop r f acc xacc = SDone acc xacc /\ queue r acc xacc <= 0).
  Proof.
    unfold mkloop. destruct f as [|f]; [left; split; [reflexivity|intros H; contradiction]|].
    destruct (Z.leb_spec (queue r acc xacc) 0); [right; auto|left; split; [reflexivity|intros _; lia]].
  Qed.

  Lemma mkloop_attrs r f acc xacc : acc_of (mkloop r f acc xacc) = acc /\ xacc_of (mkloop r f acc xacc) = xacc /\
    (forall d, sent1 (mkloop r f acc xacc) r d = memz d (R r)) /\ (forall d, sent2 (mkloop r f acc xacc) r d = memz d (extra r)) /\
    mkloop r f acc xacc <> SOut /\ (forall j, mkloop r f acc xacc <> SSend1 j) /\ (forall j, mkloop r f acc xacc <> SSend2 j).
  Proof. destruct (mkloop_cases r f acc xacc) as [[-> _]|[-> _]]; repeat split; intros; discriminate. Qed.
  (* ---- preservation ------------------------------------------------------------------------------------------------------------------- *)
  Definition upds (st : Z -> sstate) (r : Z) (v : sstate) : Z -> sstate := fun y => if y =? r then v else st y.
  Lemma upds_same st r v : upds st r v r = v.
  Proof. unfold upds. rewrite Z.eqb_refl. reflexivity. Qed.
  Lemma upds_other st r v y : y <> r -> upds st r v y = st y.
  Proof. intros H. unfold upds. destruct (Z.eqb_spec y r); [contradiction|reflexivity]. Qed.

  Definition chf (st : Z -> sstate) (a b t : Z) : list payload :=
    if (t =? TT) && sent1 (st a) a b && negb (rcvd1 (st b) a) then [sitem a b]
    else if (t =? TE) && sent2 (st a) a b && negb (rcvd2 (st b) a) then [[]] else [].

  Lemma TT_TE : TT <> TE.
  Proof. unfold TT, TE. vm_compute. discriminate. Qed.

  Lemma in_range_of s st r : SInv s st -> st r <> SOut -> 0 <= r < P.
  Proof.
    intros I H. destruct (Z_le_dec 0 r); [destruct (Z_lt_dec r P); [lia|]|]; exfalso; apply H; apply (s_out s st I); lia.
  Qed.

  (* the master lemma: rank r moves to the ghost state `new`, the channels become c' *)
  Lemma SInv_upd s st r new c' : SInv s st -> 0 <= r < P -> new <> SOut ->
    (forall a b t, c' a b t = chf (upds st r new) a b t) ->
    (forall d, sent1 (st r) r d = true -> sent1 new r d = true) -> (forall d, sent2 (st r) r d = true -> sent2 new r d = true) ->
    (NoDup (map fst (acc_of new)) /\ forall a m, In (a, m) (acc_of new) -> sent1 (upds st r new a) a r = true /\ m = sitem a r) ->
    (NoDup (xacc_of new) /\ forall a, In a (xacc_of new) -> sent2 (upds st r new a) a r = true) ->
    (forall f acc xacc p, new = SLoop f acc xacc p -> p = AtExtra \/ f <> 0%nat -> 0 < queue r acc xacc) ->
    (forall acc xacc, new = SDone acc xacc -> queue r acc xacc <= 0) ->
    (forall j, new = SSend1 j -> (j < length (R r))%nat) -> (forall j, new = SSend2 j -> (j < length (extra r))%nat) ->
    SInv (mkpst (updp (ppr s) r (prog_of r new)) c' (pbar s)) (upds st r new).
  Proof.
    intros I Hr Hno Hc Hm1 Hm2 Ha Hx Hq Hd H1 H2.
    assert (M1 : forall a b, sent1 (st a) a b = true -> sent1 (upds st r new a) a b = true).
    { intros a b H. unfold upds. destruct (Z.eqb_spec a r) as [E|E]; [subst a; apply Hm1; exact H|exact H]. }
    assert (M2 : forall a b, sent2 (st a) a b = true -> sent2 (upds st r new a) a b = true).
    { intros a b H. unfold upds. destruct (Z.eqb_spec a r) as [E|E]; [subst a; apply Hm2; exact H|exact H]. }
    constructor.
    - intros y. unfold upds. destruct (Z.eqb_spec y r) as [Ey|Ey]; [subst y; split; [intros E; contradiction|intros E; contradiction]|apply (s_out s st I)].
    - intros y. cbn [ppr]. unfold upds, updp. destruct (Z.eqb_spec y r) as [Ey|Ey]; [subst y; reflexivity|apply (s_prog s st I)].
    - intros a b t. cbn [pch]. apply Hc.
    - intros b. unfold upds at 1 2. destruct (Z.eqb_spec b r) as [Eb|Eb]; [subst b; exact Ha|].
      destruct (s_acc s st I b) as [A B]. split; [exact A|]. intros a m Hin. destruct (B a m Hin) as [B1 B2]. split; [apply M1; exact B1|exact B2].
    - intros b. unfold upds at 1 2. destruct (Z.eqb_spec b r) as [Eb|Eb]; [subst b; exact Hx|].
      destruct (s_xacc s st I b) as [A B]. split; [exact A|]. intros a Hin. apply M2. apply B. exact Hin.
    - intros y f acc xacc p Hy. unfold upds in Hy. destruct (Z.eqb_spec y r) as [Ey|Ey]; [subst y; apply (Hq f acc xacc p Hy)|apply (s_q s st I y f acc xacc p Hy)].
    - intros y acc xacc Hy. unfold upds in Hy. destruct (Z.eqb_spec y r) as [Ey|Ey]; [subst y; apply (Hd acc xacc Hy)|apply (s_done s st I y acc xacc Hy)].
    - intros y j Hy. unfold upds in Hy. destruct (Z.eqb_spec y r) as [Ey|Ey]; [subst y; apply (H1 j Hy)|apply (s_send1 s st I y j Hy)].
    - intros y j Hy. unfold upds in Hy. destruct (Z.eqb_spec y r) as [Ey|Ey]; [subst y; apply (H2 j Hy)|apply (s_send2 s st I y j Hy)].
  Qed.

  Lemma ch_upd (c : chans) a0 b0 t0 v (g : Z -> Z -> Z -> list payload) (f : Z -> Z -> Z -> list payload) :
    (forall a b t, c a b t = f a b t) -> g a0 b0 t0 = v -> (forall a b t, (a, b, t) <> (a0, b0, t0) -> g a b t = f a b t) ->
    forall a b t, updc c a0 b0 t0 v a b t = g a b t.
  Proof.
    intros Hc Hv Ho a b t. destruct (Z.eq_dec a a0) as [Ea|Ea]; [destruct (Z.eq_dec b b0) as [Eb|Eb]; [destruct (Z.eq_dec t t0) as [Et|Et]|]|].
    - subst a b t. rewrite updc_same. symmetry. exact Hv.
    - rewrite updc_other by congruence. rewrite Hc. symmetry. apply Ho. congruence.
    - rewrite updc_other by congruence. rewrite Hc. symmetry. apply Ho. congruence.
    - rewrite updc_other by congruence. rewrite Hc. symmetry. apply Ho. congruence.
  Qed.

  (* attributes of the states between the phases *)
  Lemma enter2_attrs r : acc_of (enter2 r) = [] /\ xacc_of (enter2 r) = [] /\ (forall d, sent1 (enter2 r) r d = memz d (R r)) /\
    (forall d, sent2 (enter2 r) r d = false) /\ enter2 r <> SOut /\ (forall j, enter2 r <> SSend1 j).
  Proof.
    unfold enter2. destruct (Nat.ltb_spec 0 (length (extra r))) as [H|H].
    - repeat split; intros; try discriminate.
    - destruct (mkloop_attrs r fuel [] []) as [A [B [C [D [E [F G]]]]]]. repeat split; try assumption.
      intros d. rewrite D. destruct (extra r); [reflexivity|cbn in H; lia].
  Qed.

  Lemma next1_attrs r j : (j <= length (R r))%nat -> acc_of (next1 r j) = [] /\ xacc_of (next1 r j) = [] /\
    (forall d, sent1 (next1 r j) r d = memz d (firstn j (R r))) /\ (forall d, sent2 (next1 r j) r d = false) /\ next1 r j <> SOut.
  Proof.
    intros Hj. unfold next1. destruct (Nat.ltb_spec j (length (R r))) as [H|H].
    - repeat split; intros; try discriminate.
    - destruct (enter2_attrs r) as [A [B [C [D [E F]]]]]. repeat split; try assumption. intros d. rewrite C, firstn_all2 by lia. reflexivity.
  Qed.

  Lemma next2_attrs r j : (j <= length (extra r))%nat -> acc_of (next2 r j) = [] /\ xacc_of (next2 r j) = [] /\
    (forall d, sent1 (next2 r j) r d = memz d (R r)) /\ (forall d, sent2 (next2 r j) r d = memz d (firstn j (extra r))) /\
    next2 r j <> SOut /\ (forall i, next2 r j <> SSend1 i).
  Proof.
    intros Hj. unfold next2. destruct (Nat.ltb_spec j (length (extra r))) as [H|H].
    - repeat split; intros; try discriminate.
    - destruct (mkloop_attrs r fuel [] []) as [A [B [C [D [E [F G]]]]]]. repeat split; try assumption. intros d. rewrite D, firstn_all2 by lia. reflexivity.
  Qed.

  Lemma queue_pos0 r : 0 <= queue r [] [].
  Proof. unfold queue. cbn [length]. lia. Qed.

  (* the loop-entry conditions of mkloop *)
  Lemma mkloop_q r f acc xacc f' acc' xacc' p : mkloop r f acc xacc = SLoop f' acc' xacc' p -> p = AtExtra \/ f' <> 0%nat -> 0 < queue r acc' xacc'.
  Proof.
    intros E Hp. destruct (mkloop_cases r f acc xacc) as [[E1 Hq]|[E1 _]]; rewrite E1 in E; [|discriminate]. injection E as <- <- <- <-.
    destruct Hp as [Hp|Hp]; [discriminate|apply Hq; exact Hp].
  Qed.
  Lemma mkloop_d r f acc xacc acc' xacc' : mkloop r f acc xacc = SDone acc' xacc' -> queue r acc' xacc' <= 0.
  Proof. intros E. destruct (mkloop_cases r f acc xacc) as [[E1 _]|[E1 Hq]]; rewrite E1 in E; [discriminate|]. injection E as <- <-. exact Hq. Qed.
  Lemma rcvd1_In st a : rcvd1 st a = true <-> In a (map fst (acc_of st)).
  Proof. unfold rcvd1. apply memz_In. Qed.
  Lemma rcvd2_In st a : rcvd2 st a = true <-> In a (xacc_of st).
  Proof. unfold rcvd2. apply memz_In. Qed.

  Lemma chf_eq s st : SInv s st -> forall a b t, pch s a b t = chf st a b t.
  Proof. intros I a b t. apply (s_ch s st I). Qed.

  (* the j-th item *)
  Lemma SInv_send1 s st r j : SInv s st -> st r = SSend1 j ->
    let d := nth j (R r) 0 in
    SInv (mkpst (updp (ppr s) r (prog_of r (next1 r (S j)))) (updc (pch s) r d TT (pch s r d TT ++ [sitem r d])) (pbar s)) (upds st r (next1 r (S j))).
  Proof.
    intros I Est d.
    assert (Hr : 0 <= r < P) by (apply (in_range_of s st r I); rewrite Est; discriminate).
    pose proof (s_send1 s st I r j Est) as Hj.
    destruct (next1_attrs r (S j) ltac:(lia)) as [A1 [A2 [A3 [A4 A5]]]].
    assert (Hold : sent1 (st r) r d = false) by (rewrite Est; cbn [sent1]; apply memz_false_nth; [apply R_nodup; exact Hr|exact Hj]).
    assert (Ea : forall y, acc_of (upds st r (next1 r (S j)) y) = acc_of (st y)).
    { intros y. unfold upds. destruct (Z.eqb_spec y r) as [Ey|Ey]; [subst y; rewrite A1, Est; reflexivity|reflexivity]. }
    assert (Ex : forall y, xacc_of (upds st r (next1 r (S j)) y) = xacc_of (st y)).
    { intros y. unfold upds. destruct (Z.eqb_spec y r) as [Ey|Ey]; [subst y; rewrite A2, Est; reflexivity|reflexivity]. }
    assert (E1 : forall a b, sent1 (upds st r (next1 r (S j)) a) a b = sent1 (st a) a b || ((a =? r) && (d =? b))).
    { intros a b. unfold upds. destruct (Z.eqb_spec a r) as [Ey|Ey]; [subst a; cbn [andb]; rewrite A3, Est; cbn [sent1]; apply memz_firstn_S; exact Hj|cbn [andb]; rewrite orb_false_r; reflexivity]. }
    assert (E2 : forall a b, sent2 (upds st r (next1 r (S j)) a) a b = sent2 (st a) a b).
    { intros a b. unfold upds. destruct (Z.eqb_spec a r) as [Ey|Ey]; [subst a; rewrite A4, Est; reflexivity|reflexivity]. }
    assert (Hnr : rcvd1 (st d) r = false).
    { destruct (rcvd1 (st d) r) eqn:E; [|reflexivity]. apply rcvd1_In in E. apply in_map_iff in E. destruct E as [[a m] [Ea' Hin]]. cbn [fst] in Ea'. subst a.
      destruct (proj2 (s_acc s st I d) r m Hin) as [Hs _]. congruence. }
    apply SInv_upd; try assumption.
    - apply (ch_upd (pch s) r d TT _ (chf (upds st r (next1 r (S j)))) (chf st) (chf_eq s st I)).
      + rewrite (chf_eq s st I). unfold chf, rcvd1, rcvd2. rewrite E1, E2, Ea, Ex. fold (rcvd1 (st d) r) (rcvd2 (st d) r). rewrite Hold, Hnr, !Z.eqb_refl.
        cbn [andb orb negb app]. destruct (Z.eqb_spec TT TE) as [E|E]; [destruct (TT_TE E)|]. reflexivity.
      + intros a b t Hne. unfold chf, rcvd1, rcvd2. rewrite E1, E2, !Ea, !Ex.
        destruct (Z.eqb_spec a r) as [Ha|Ha]; [destruct (Z.eqb_spec d b) as [Hb|Hb]|]; cbn [andb]; rewrite ?orb_false_r; try reflexivity.
        subst a b. destruct (Z.eqb_spec t TT) as [Ht|Ht]; [exfalso; apply Hne; congruence|reflexivity].
    - intros x Hx. rewrite A3. rewrite Est in Hx. cbn [sent1] in Hx. rewrite memz_firstn_S by exact Hj. rewrite Hx. reflexivity.
    - intros x Hx. rewrite Est in Hx. discriminate.
    - rewrite A1. split; [constructor|intros a m []].
    - rewrite A2. split; [constructor|intros a []].
    - intros f acc xacc p E. unfold next1 in E. destruct (_ <? _)%nat; [discriminate|]. unfold enter2 in E. destruct (_ <? _)%nat; [discriminate|]. apply (mkloop_q _ _ _ _ _ _ _ _ E).
    - intros acc xacc E. unfold next1 in E. destruct (_ <? _)%nat; [discriminate|]. unfold enter2 in E. destruct (_ <? _)%nat; [discriminate|]. apply (mkloop_d _ _ _ _ _ _ E).
    - intros i E. unfold next1 in E. destruct (Nat.ltb_spec (S j) (length (R r))); [injection E as <-; assumption|]. exfalso. exact (proj2 (proj2 (proj2 (proj2 (proj2 (enter2_attrs r))))) i E).
    - intros i E. unfold next1 in E. destruct (_ <? _)%nat; [discriminate|]. unfold enter2 in E. destruct (Nat.ltb_spec 0 (length (extra r))); [injection E as <-; assumption|].
      exfalso. exact (proj2 (proj2 (proj2 (proj2 (proj2 (proj2 (mkloop_attrs r fuel [] [])))))) i E).
  Qed.

  (* the j-th message to an extra receiver *)
  Lemma SInv_send2 s st r j : SInv s st -> st r = SSend2 j ->
    let d := nth j (extra r) 0 in
    SInv (mkpst (updp (ppr s) r (prog_of r (next2 r (S j)))) (updc (pch s) r d TE (pch s r d TE ++ [[]])) (pbar s)) (upds st r (next2 r (S j))).
  Proof.
    intros I Est d.
    assert (Hr : 0 <= r < P) by (apply (in_range_of s st r I); rewrite Est; discriminate).
    pose proof (s_send2 s st I r j Est) as Hj.
    destruct (next2_attrs r (S j) ltac:(lia)) as [A1 [A2 [A3 [A4 [A5 A6]]]]].
    assert (Hold : sent2 (st r) r d = false) by (rewrite Est; cbn [sent2]; apply memz_false_nth; [apply (HX r Hr)|exact Hj]).
    assert (Ea : forall y, acc_of (upds st r (next2 r (S j)) y) = acc_of (st y)).
    { intros y. unfold upds. destruct (Z.eqb_spec y r) as [Ey|Ey]; [subst y; rewrite A1, Est; reflexivity|reflexivity]. }
    assert (Ex : forall y, xacc_of (upds st r (next2 r (S j)) y) = xacc_of (st y)).
    { intros y. unfold upds. destruct (Z.eqb_spec y r) as [Ey|Ey]; [subst y; rewrite A2, Est; reflexivity|reflexivity]. }
    assert (E1 : forall a b, sent1 (upds st r (next2 r (S j)) a) a b = sent1 (st a) a b).
    { intros a b. unfold upds. destruct (Z.eqb_spec a r) as [Ey|Ey]; [subst a; rewrite A3, Est; reflexivity|reflexivity]. }
    assert (E2 : forall a b, sent2 (upds st r (next2 r (S j)) a) a b = sent2 (st a) a b || ((a =? r) && (d =? b))).
    { intros a b. unfold upds. destruct (Z.eqb_spec a r) as [Ey|Ey]; [subst a; cbn [andb]; rewrite A4, Est; cbn [sent2]; apply memz_firstn_S; exact Hj|cbn [andb]; rewrite orb_false_r; reflexivity]. }
    assert (Hnr : rcvd2 (st d) r = false).
    { destruct (rcvd2 (st d) r) eqn:E; [|reflexivity]. apply rcvd2_In in E. pose proof (proj2 (s_xacc s st I d) r E) as Hs. congruence. }
    apply SInv_upd; try assumption.
    - apply (ch_upd (pch s) r d TE _ (chf (upds st r (next2 r (S j)))) (chf st) (chf_eq s st I)).
      + rewrite (chf_eq s st I). unfold chf, rcvd1, rcvd2. rewrite E1, E2, Ea, Ex. fold (rcvd1 (st d) r) (rcvd2 (st d) r). rewrite Hold, Hnr, !Z.eqb_refl.
        destruct (Z.eqb_spec TE TT) as [E|E]; [destruct (TT_TE (eq_sym E))|]. reflexivity.
      + intros a b t Hne. unfold chf, rcvd1, rcvd2. rewrite E1, E2, !Ea, !Ex.
        destruct (Z.eqb_spec a r) as [Ha|Ha]; [destruct (Z.eqb_spec d b) as [Hb|Hb]|]; cbn [andb]; rewrite ?orb_false_r; try reflexivity.
        subst a b. destruct (Z.eqb_spec t TE) as [Ht|Ht]; [exfalso; apply Hne; congruence|reflexivity].
    - intros x Hx. rewrite A3. rewrite Est in Hx. exact Hx.
    - intros x Hx. rewrite A4. rewrite Est in Hx. cbn [sent2] in Hx. rewrite memz_firstn_S by exact Hj. rewrite Hx. reflexivity.
    - rewrite A1. split; [constructor|intros a m []].
    - rewrite A2. split; [constructor|intros a []].
    - intros f acc xacc p E. unfold next2 in E. destruct (_ <? _)%nat; [discriminate|]. apply (mkloop_q _ _ _ _ _ _ _ _ E).
    - intros acc xacc E. unfold next2 in E. destruct (_ <? _)%nat; [discriminate|]. apply (mkloop_d _ _ _ _ _ _ E).
    - intros i E. exfalso. exact (A6 i E).
    - intros i E. unfold next2 in E. destruct (Nat.ltb_spec (S j) (length (extra r))); [injection E as <-; assumption|].
      exfalso. exact (proj2 (proj2 (proj2 (proj2 (proj2 (proj2 (mkloop_attrs r fuel [] [])))))) i E).
  Qed.

  (* a step that changes neither the channels nor what the rank has sent / received (an empty poll) *)
  Lemma SInv_keep s st r new : SInv s st -> 0 <= r < P -> new <> SOut ->
    acc_of new = acc_of (st r) -> xacc_of new = xacc_of (st r) ->
    (forall d, sent1 new r d = sent1 (st r) r d) -> (forall d, sent2 new r d = sent2 (st r) r d) ->
    (forall f acc xacc p, new = SLoop f acc xacc p -> p = AtExtra \/ f <> 0%nat -> 0 < queue r acc xacc) ->
    (forall acc xacc, new = SDone acc xacc -> queue r acc xacc <= 0) ->
    (forall j, new <> SSend1 j) -> (forall j, new <> SSend2 j) ->
    SInv (mkpst (updp (ppr s) r (prog_of r new)) (pch s) (pbar s)) (upds st r new).
  Proof.
    intros I Hr Hno Ha Hx H1 H2 Hq Hd N1 N2.
    assert (Ea : forall y, acc_of (upds st r new y) = acc_of (st y)) by (intros y; unfold upds; destruct (Z.eqb_spec y r) as [Ey|Ey]; [subst y; exact Ha|reflexivity]).
    assert (Ex : forall y, xacc_of (upds st r new y) = xacc_of (st y)) by (intros y; unfold upds; destruct (Z.eqb_spec y r) as [Ey|Ey]; [subst y; exact Hx|reflexivity]).
    assert (E1 : forall a b, sent1 (upds st r new a) a b = sent1 (st a) a b) by (intros a b; unfold upds; destruct (Z.eqb_spec a r) as [Ey|Ey]; [subst a; apply H1|reflexivity]).
    assert (E2 : forall a b, sent2 (upds st r new a) a b = sent2 (st a) a b) by (intros a b; unfold upds; destruct (Z.eqb_spec a r) as [Ey|Ey]; [subst a; apply H2|reflexivity]).
    apply SInv_upd; try assumption.
    - intros a b t. rewrite (chf_eq s st I). unfold chf, rcvd1, rcvd2. rewrite E1, E2, !Ea, !Ex. reflexivity.
    - intros d Hd'. rewrite H1. exact Hd'.
    - intros d Hd'. rewrite H2. exact Hd'.
    - rewrite Ha. destruct (s_acc s st I r) as [A B]. split; [exact A|]. intros a m Hin. rewrite E1. apply B. exact Hin.
    - rewrite Hx. destruct (s_xacc s st I r) as [A B]. split; [exact A|]. intros a Hin. rewrite E2. apply B. exact Hin.
    - intros j E. destruct (N1 j E).
    - intros j E. destruct (N2 j E).
  Qed.

  Lemma memz_cons a x l : memz a (x :: l) = (x =? a) || memz a l.
  Proof. reflexivity. Qed.

  (* a TRUE poll that finds the item of src *)
  Lemma SInv_hit1 s st r f acc xacc src m q : SInv s st -> st r = SLoop (S f) acc xacc AtTrue -> pch s src r TT = m :: q ->
    0 <= src /\ m = sitem src r /\
    SInv (mkpst (updp (ppr s) r (prog_of r (mkloop r f ((src, m) :: acc) xacc))) (updc (pch s) src r TT q) (pbar s))
         (upds st r (mkloop r f ((src, m) :: acc) xacc)).
  Proof.
    intros I Est Hch.
    assert (Hr : 0 <= r < P) by (apply (in_range_of s st r I); rewrite Est; discriminate).
    pose proof (chf_eq s st I src r TT) as Hc. rewrite Hch in Hc. unfold chf in Hc. rewrite Z.eqb_refl in Hc. cbn [andb] in Hc.
    destruct (Z.eqb_spec TT TE) as [E|_]; [destruct (TT_TE E)|]. cbn [andb] in Hc.
    destruct (sent1 (st src) src r) eqn:Hsent; [|discriminate]. destruct (rcvd1 (st r) src) eqn:Hrc; [discriminate|]. cbn [andb negb] in Hc.
    injection Hc as -> ->.
    assert (Hsrc : 0 <= src < P) by (apply (in_range_of s st src I); intros E; rewrite E in Hsent; discriminate).
    split; [lia|]. split; [reflexivity|].
    set (new := mkloop r f ((src, sitem src r) :: acc) xacc).
    destruct (mkloop_attrs r f ((src, sitem src r) :: acc) xacc) as [A1 [A2 [A3 [A4 [A5 [A6 A7]]]]]]. fold new in A1, A2, A3, A4, A5, A6, A7.
    assert (Ea : forall y, acc_of (upds st r new y) = if y =? r then (src, sitem src r) :: acc_of (st r) else acc_of (st y)).
    { intros y. unfold upds. destruct (Z.eqb_spec y r) as [Ey|Ey]; [subst y; rewrite A1, Est; reflexivity|reflexivity]. }
    assert (Ex : forall y, xacc_of (upds st r new y) = xacc_of (st y)).
    { intros y. unfold upds. destruct (Z.eqb_spec y r) as [Ey|Ey]; [subst y; rewrite A2, Est; reflexivity|reflexivity]. }
    assert (Er : forall y a, rcvd1 (upds st r new y) a = ((y =? r) && (src =? a)) || rcvd1 (st y) a).
    { intros y a. unfold rcvd1. rewrite Ea. destruct (Z.eqb_spec y r) as [Ey|Ey]; [subst y; cbn [map fst andb]; apply memz_cons|reflexivity]. }
    assert (E1 : forall a b, sent1 (upds st r new a) a b = sent1 (st a) a b).
    { intros a b. unfold upds. destruct (Z.eqb_spec a r) as [Ey|Ey]; [subst a; rewrite A3, Est; reflexivity|reflexivity]. }
    assert (E2 : forall a b, sent2 (upds st r new a) a b = sent2 (st a) a b).
    { intros a b. unfold upds. destruct (Z.eqb_spec a r) as [Ey|Ey]; [subst a; rewrite A4, Est; reflexivity|reflexivity]. }
    apply SInv_upd; try assumption.
    - apply (ch_upd (pch s) src r TT _ (chf (upds st r new)) (chf st) (chf_eq s st I)).
      + unfold chf. rewrite Er, !Z.eqb_refl. cbn [andb orb negb]. rewrite andb_false_r. destruct (Z.eqb_spec TT TE) as [E|_]; [destruct (TT_TE E)|]. reflexivity.
      + intros a b t Hne. unfold chf. rewrite E1, E2, Er. unfold rcvd2. rewrite Ex.
        destruct (Z.eqb_spec b r) as [Hb|Hb]; [destruct (Z.eqb_spec src a) as [Ha|Ha]|]; cbn [andb orb]; try reflexivity.
        subst a b. destruct (Z.eqb_spec t TT) as [Ht|Ht]; [exfalso; apply Hne; congruence|reflexivity].
    - intros d Hd. rewrite A3. rewrite Est in Hd. exact Hd.
    - intros d Hd. rewrite A4. rewrite Est in Hd. exact Hd.
    - rewrite A1. destruct (s_acc s st I r) as [A B]. rewrite Est in A, B. cbn [acc_of] in A, B. split.
      + cbn [map fst]. constructor; [|exact A]. intros Hin. rewrite Est in Hrc. unfold rcvd1 in Hrc. cbn [acc_of] in Hrc. apply memz_In in Hin. congruence.
      + intros a m [Hin|Hin]; [injection Hin as <- <-; rewrite E1; auto|rewrite E1; apply B; exact Hin].
    - rewrite A2. destruct (s_xacc s st I r) as [A B]. rewrite Est in A, B. cbn [xacc_of] in A, B. split; [exact A|]. intros a Hin. rewrite E2. apply B. exact Hin.
    - intros f' acc' xacc' p E. apply (mkloop_q _ _ _ _ _ _ _ _ E).
    - intros acc' xacc' E. apply (mkloop_d _ _ _ _ _ _ E).
    - intros j E. destruct (A6 j E).
    - intros j E. destruct (A7 j E).
  Qed.

  (* an EXTRA poll that finds the message of src *)
  Lemma SInv_hit2 s st r f acc xacc src m q : SInv s st -> st r = SLoop f acc xacc AtExtra -> pch s src r TE = m :: q ->
    0 <= src /\
    SInv (mkpst (updp (ppr s) r (prog_of r (mkloop r f acc (src :: xacc)))) (updc (pch s) src r TE q) (pbar s))
         (upds st r (mkloop r f acc (src :: xacc))).
  Proof.
    intros I Est Hch.
    assert (Hr : 0 <= r < P) by (apply (in_range_of s st r I); rewrite Est; discriminate).
    pose proof (chf_eq s st I src r TE) as Hc. rewrite Hch in Hc. unfold chf in Hc. rewrite Z.eqb_refl in Hc.
    destruct (Z.eqb_spec TE TT) as [E|_]; [destruct (TT_TE (eq_sym E))|]. cbn [andb] in Hc.
    destruct (sent2 (st src) src r) eqn:Hsent; [|discriminate]. destruct (rcvd2 (st r) src) eqn:Hrc; [discriminate|]. cbn [andb negb] in Hc.
    injection Hc as -> ->.
    assert (Hsrc : 0 <= src < P) by (apply (in_range_of s st src I); intros E; rewrite E in Hsent; discriminate).
    split; [lia|].
    set (new := mkloop r f acc (src :: xacc)).
    destruct (mkloop_attrs r f acc (src :: xacc)) as [A1 [A2 [A3 [A4 [A5 [A6 A7]]]]]]. fold new in A1, A2, A3, A4, A5, A6, A7.
    assert (Ea : forall y, acc_of (upds st r new y) = acc_of (st y)).
    { intros y. unfold upds. destruct (Z.eqb_spec y r) as [Ey|Ey]; [subst y; rewrite A1, Est; reflexivity|reflexivity]. }
    assert (Ex : forall y, xacc_of (upds st r new y) = if y =? r then src :: xacc_of (st r) else xacc_of (st y)).
    { intros y. unfold upds. destruct (Z.eqb_spec y r) as [Ey|Ey]; [subst y; rewrite A2, Est; reflexivity|reflexivity]. }
    assert (Er : forall y a, rcvd2 (upds st r new y) a = ((y =? r) && (src =? a)) || rcvd2 (st y) a).
    { intros y a. unfold rcvd2. rewrite Ex. destruct (Z.eqb_spec y r) as [Ey|Ey]; [subst y; cbn [andb]; apply memz_cons|reflexivity]. }
    assert (E1 : forall a b, sent1 (upds st r new a) a b = sent1 (st a) a b).
    { intros a b. unfold upds. destruct (Z.eqb_spec a r) as [Ey|Ey]; [subst a; rewrite A3, Est; reflexivity|reflexivity]. }
    assert (E2 : forall a b, sent2 (upds st r new a) a b = sent2 (st a) a b).
    { intros a b. unfold upds. destruct (Z.eqb_spec a r) as [Ey|Ey]; [subst a; rewrite A4, Est; reflexivity|reflexivity]. }
    apply SInv_upd; try assumption.
    - apply (ch_upd (pch s) src r TE _ (chf (upds st r new)) (chf st) (chf_eq s st I)).
      + unfold chf. rewrite Er, !Z.eqb_refl. destruct (Z.eqb_spec TE TT) as [E|_]; [destruct (TT_TE (eq_sym E))|]. cbn [andb orb negb]. rewrite andb_false_r. reflexivity.
      + intros a b t Hne. unfold chf. rewrite E1, E2, Er. unfold rcvd1. rewrite Ea.
        destruct (Z.eqb_spec b r) as [Hb|Hb]; [destruct (Z.eqb_spec src a) as [Ha|Ha]|]; cbn [andb orb]; try reflexivity.
        subst a b. destruct (Z.eqb_spec t TE) as [Ht|Ht]; [exfalso; apply Hne; congruence|]. cbn [andb]. reflexivity.
    - intros d Hd. rewrite A3. rewrite Est in Hd. exact Hd.
    - intros d Hd. rewrite A4. rewrite Est in Hd. exact Hd.
    - rewrite A1. destruct (s_acc s st I r) as [A B]. rewrite Est in A, B. cbn [acc_of] in A, B. split; [exact A|]. intros a m Hin. rewrite E1. apply B. exact Hin.
    - rewrite A2. destruct (s_xacc s st I r) as [A B]. rewrite Est in A, B. cbn [xacc_of] in A, B. split.
      + constructor; [|exact A]. intros Hin. rewrite Est in Hrc. unfold rcvd2 in Hrc. cbn [xacc_of] in Hrc. apply memz_In in Hin. congruence.
      + intros a [Hin|Hin]; [subst a; rewrite E2; exact Hsent|rewrite E2; apply B; exact Hin].
    - intros f' acc' xacc' p E. apply (mkloop_q _ _ _ _ _ _ _ _ E).
    - intros acc' xacc' E. apply (mkloop_d _ _ _ _ _ _ E).
    - intros j E. destruct (A6 j E).
    - intros j E. destruct (A7 j E).
  Qed.
  (* ---- the initial state, the step lemma, safety ------------------------------------------------------------------------------------------ *)
  Lemma enter2_q r f acc xacc p : enter2 r = SLoop f acc xacc p -> p = AtExtra \/ f <> 0%nat -> 0 < queue r acc xacc.
  Proof. unfold enter2. destruct (_ <? _)%nat; [discriminate|]. apply mkloop_q. Qed.
  Lemma enter2_d r acc xacc : enter2 r = SDone acc xacc -> queue r acc xacc <= 0.
  Proof. unfold enter2. destruct (_ <? _)%nat; [discriminate|]. apply mkloop_d. Qed.
  Lemma enter2_s2 r j : enter2 r = SSend2 j -> (j < length (extra r))%nat.
  Proof.
    unfold enter2. destruct (Nat.ltb_spec 0 (length (extra r))); [intros E; injection E as <-; assumption|].
    intros E. exfalso. exact (proj2 (proj2 (proj2 (proj2 (proj2 (proj2 (mkloop_attrs r fuel [] [])))))) j E).
  Qed.
  Lemma next1_q r j f acc xacc p : next1 r j = SLoop f acc xacc p -> p = AtExtra \/ f <> 0%nat -> 0 < queue r acc xacc.
  Proof. unfold next1. destruct (_ <? _)%nat; [discriminate|]. apply enter2_q. Qed.
  Lemma next1_d r j acc xacc : next1 r j = SDone acc xacc -> queue r acc xacc <= 0.
  Proof. unfold next1. destruct (_ <? _)%nat; [discriminate|]. apply enter2_d. Qed.
  Lemma next1_s1 r j i : next1 r j = SSend1 i -> (i < length (R r))%nat.
  Proof.
    unfold next1. destruct (Nat.ltb_spec j (length (R r))); [intros E; injection E as <-; assumption|].
    intros E. exfalso. exact (proj2 (proj2 (proj2 (proj2 (proj2 (enter2_attrs r))))) i E).
  Qed.
  Lemma next1_s2 r j i : next1 r j = SSend2 i -> (i < length (extra r))%nat.
  Proof. unfold next1. destruct (_ <? _)%nat; [discriminate|]. apply enter2_s2. Qed.

  Lemma SInv_init : SInv super_sys sst0.
  Proof.
    constructor.
    - intros r. unfold sst0. destruct (inr P r) eqn:E.
      + apply inr_spec in E. destruct (next1_attrs r 0 ltac:(lia)) as [_ [_ [_ [_ A]]]]. split; [intros H; contradiction|intros H; contradiction].
      + split; [intros _ H; apply inr_spec in H; congruence|reflexivity].
    - intros r. cbn [super_sys ppr]. unfold super_prog, sst0. destruct (inr P r); [|reflexivity]. rewrite super_core_eq, prog_next1 by lia. reflexivity.
    - intros a b t. cbn [super_sys pch]. unfold sst0. destruct (inr P a).
      + destruct (next1_attrs a 0 ltac:(lia)) as [_ [_ [A3 [A4 _]]]]. rewrite A3, A4. cbn [firstn]. unfold memz. cbn [existsb]. rewrite !andb_false_r. reflexivity.
      + cbn [sent1 sent2]. rewrite !andb_false_r. reflexivity.
    - intros b. assert (E : acc_of (sst0 b) = []) by (unfold sst0; destruct (inr P b); [apply (next1_attrs b 0); lia|reflexivity]).
      rewrite E. split; [constructor|intros a m []].
    - intros b. assert (E : xacc_of (sst0 b) = []) by (unfold sst0; destruct (inr P b); [apply (next1_attrs b 0); lia|reflexivity]).
      rewrite E. split; [constructor|intros a []].
    - intros r f acc xacc p E. unfold sst0 in E. destruct (inr P r); [apply (next1_q r 0 _ _ _ _ E)|discriminate].
    - intros r acc xacc E. unfold sst0 in E. destruct (inr P r); [apply (next1_d r 0 _ _ E)|discriminate].
    - intros r j E. unfold sst0 in E. destruct (inr P r); [apply (next1_s1 r 0 j E)|discriminate].
    - intros r j E. unfold sst0 in E. destruct (inr P r); [apply (next1_s2 r 0 j E)|discriminate].
  Qed.

  (* the transitions of a rank's ghost state; the flag: productive (false: an empty poll) *)
  Inductive sgstep (r : Z) : sstate -> sstate -> bool -> Prop :=
  | sg_send1 j : sgstep r (SSend1 j) (next1 r (S j)) true
  | sg_send2 j : sgstep r (SSend2 j) (next2 r (S j)) true
  | sg_hit1 f acc xacc x : sgstep r (SLoop (S f) acc xacc AtTrue) (mkloop r f (x :: acc) xacc) true
  | sg_miss1 f acc xacc : sgstep r (SLoop (S f) acc xacc AtTrue) (SLoop f acc xacc AtExtra) false
  | sg_hit2 f acc xacc x : sgstep r (SLoop f acc xacc AtExtra) (mkloop r f acc (x :: xacc)) true
  | sg_miss2 f acc xacc : sgstep r (SLoop f acc xacc AtExtra) (SLoop f acc xacc AtTrue) false.

  Definition sidle_ok (s : pst) (r : Z) (old : sstate) (pb : bool) : Prop :=
    pb = false -> match old with SLoop _ _ _ p => nothing P (pch s) r (match p with AtTrue => TT | AtExtra => TE end) = true | _ => False end.

  Lemma super_loop_S f q acc k : super_loop (S f) q acc k =
    if q <=? 0 then k (rev acc)
    else Do (Recv ANY TT) (fun x => if hd 0 x <? 0 then
                                       Do (Recv ANY TE) (fun e => if hd 0 e <? 0 then super_loop f q acc k else super_loop f (q - 1) acc k)
                                     else super_loop f (q - 1) ((hd 0 x, tl x) :: acc) k).
  Proof. reflexivity. Qed.

  Lemma SK_ret r got : exists o, SK r got = Ret o.
  Proof. unfold SK. eauto. Qed.
  Lemma poll_TT : super_poll TT = true.
  Proof. unfold super_poll. rewrite Z.eqb_refl. reflexivity. Qed.
  Lemma poll_TE : super_poll TE = true.
  Proof. unfold super_poll. rewrite Z.eqb_refl. apply orb_true_r. Qed.
  Lemma queue_cons1 r x acc xacc : queue r (x :: acc) xacc = queue r acc xacc - 1.
  Proof. unfold queue. cbn [length]. lia. Qed.
  Lemma queue_cons2 r x acc xacc : queue r acc (x :: xacc) = queue r acc xacc - 1.
  Proof. unfold queue. cbn [length]. lia. Qed.

  (* the program of a rank in each ghost state *)
  Lemma shape_send1 s st r j : SInv s st -> st r = SSend1 j ->
    ppr s r = Do (Send (nth j (R r) 0) TT (sitem r (nth j (R r) 0))) (fun _ => prog_of r (next1 r (S j))).
  Proof.
    intros I Est. rewrite (s_prog s st I r), Est. cbn [prog_of]. pose proof (s_send1 s st I r j Est) as Hj.
    rewrite (l_skipn_nth (0, TT, sitem r 0)) by (unfold msgs1; rewrite map_length; exact Hj).
    unfold msgs1 at 1. rewrite (map_nth (fun d => (d, TT, sitem r d))). cbn [do_sends]. unfold send. rewrite prog_next1 by lia. reflexivity.
  Qed.
  Lemma shape_send2 s st r j : SInv s st -> st r = SSend2 j ->
    ppr s r = Do (Send (nth j (extra r) 0) TE []) (fun _ => prog_of r (next2 r (S j))).
  Proof.
    intros I Est. rewrite (s_prog s st I r), Est. cbn [prog_of]. pose proof (s_send2 s st I r j Est) as Hj.
    rewrite (l_skipn_nth (0, TE, @nil Z)) by (unfold msgs2; rewrite map_length; exact Hj).
    unfold msgs2 at 1. rewrite (map_nth (fun q => (q, TE, @nil Z))). cbn [do_sends]. unfold send. rewrite prog_next2 by lia. reflexivity.
  Qed.
  Lemma shape_true s st r f acc xacc : SInv s st -> st r = SLoop (S f) acc xacc AtTrue ->
    ppr s r = Do (Recv ANY TT) (fun x => if hd 0 x <? 0 then prog_of r (SLoop f acc xacc AtExtra)
                                         else super_loop f (queue r acc xacc - 1) ((hd 0 x, tl x) :: acc) (SK r)).
  Proof.
    intros I Est. rewrite (s_prog s st I r), Est. cbn [prog_of]. rewrite super_loop_S.
    assert (Hq : 0 < queue r acc xacc) by (apply (s_q s st I r (S f) acc xacc AtTrue Est); right; discriminate).
    replace (queue r acc xacc <=? 0) with false by (symmetry; apply Z.leb_gt; exact Hq). reflexivity.
  Qed.

  Theorem SInv_step s st r s' : SInv s st -> step_p P super_poll super_stags s r s' ->
    exists new pb, sgstep r (st r) new pb /\ sidle_ok s r (st r) pb /\ SInv s' (upds st r new).
  Proof.
    intros I Hs. destruct (st r) as [j|j|f acc xacc p|acc xacc|] eqn:Est.
    - pose proof (shape_send1 s st r j I Est) as Hp.
      inversion Hs as [? ? d t m k E|? ? src t k m q S0 E C|? ? src t k m q E Ep C|? ? src t k m q E Ep C|? ? t k E Ep En
                      |? ? root c k E|? ? root c k E|? ? root c k E]; subst; rewrite Hp in E; try discriminate.
      injection E as <- <- <- <-. exists (next1 r (S j)), true. split; [constructor|]. split; [discriminate|]. exact (SInv_send1 s st r j I Est).
    - pose proof (shape_send2 s st r j I Est) as Hp.
      inversion Hs as [? ? d t m k E|? ? src t k m q S0 E C|? ? src t k m q E Ep C|? ? src t k m q E Ep C|? ? t k E Ep En
                      |? ? root c k E|? ? root c k E|? ? root c k E]; subst; rewrite Hp in E; try discriminate.
      injection E as <- <- <- <-. exists (next2 r (S j)), true. split; [constructor|]. split; [discriminate|]. exact (SInv_send2 s st r j I Est).
    - destruct p.
      + destruct f as [|f].
        * exfalso. pose proof (s_prog s st I r) as Hp. rewrite Est in Hp. cbn [prog_of super_loop] in Hp.
          inversion Hs; subst; match goal with E : ppr s r = _ |- _ => rewrite Hp in E; try discriminate end.
          all: match goal with E : Do _ _ = Do _ _ |- _ => injection E; intros; match goal with H : K_FUEL = _ |- _ => vm_compute in H; discriminate H end end.
        * pose proof (shape_true s st r f acc xacc I Est) as Hp.
          inversion Hs as [? ? d t m k E|? ? src t k m q S0 E C|? ? src t k m q E Ep C|? ? src t k m q E Ep C|? ? t k E Ep En
                          |? ? root c k E|? ? root c k E|? ? root c k E]; subst; rewrite Hp in E; try discriminate.
          -- injection E as E1 E2 E3. unfold ANY in E1. lia.
          -- injection E as <- <-. rewrite poll_TT in Ep. discriminate.
          -- injection E as <- <-. destruct (SInv_hit1 s st r f acc xacc src m q I Est C) as [H0 [-> Hinv]].
             exists (mkloop r f ((src, sitem src r) :: acc) xacc), true. split; [constructor|]. split; [discriminate|].
             cbn [hd tl]. replace (src <? 0) with false by lia. rewrite prog_mkloop, queue_cons1 in Hinv. exact Hinv.
          -- injection E as <- <-. exists (SLoop f acc xacc AtExtra), false. split; [constructor|]. split; [intros _; exact En|].
             cbn [hd]. change (-1 <? 0) with true. cbv iota.
             apply (SInv_keep s st r (SLoop f acc xacc AtExtra)); try assumption; try (rewrite Est; reflexivity); try discriminate; try (intros; discriminate).
             ++ apply (in_range_of s st r I). rewrite Est. discriminate.
             ++ intros f' acc' xacc' p' E _. injection E as <- <- <- <-. apply (s_q s st I r (S f) acc xacc AtTrue Est). right. discriminate.
      + pose proof (s_prog s st I r) as Hp. rewrite Est in Hp. cbn [prog_of] in Hp.
        inversion Hs as [? ? d t m k E|? ? src t k m q S0 E C|? ? src t k m q E Ep C|? ? src t k m q E Ep C|? ? t k E Ep En
                        |? ? root c k E|? ? root c k E|? ? root c k E]; subst; rewrite Hp in E; try discriminate.
        * injection E as E1 E2 E3. unfold ANY in E1. lia.
        * injection E as <- <-. rewrite poll_TE in Ep. discriminate.
        * injection E as <- <-. destruct (SInv_hit2 s st r f acc xacc src m q I Est C) as [H0 Hinv].
          exists (mkloop r f acc (src :: xacc)), true. split; [constructor|]. split; [discriminate|].
          cbn [hd]. replace (src <? 0) with false by lia. rewrite prog_mkloop, queue_cons2 in Hinv. exact Hinv.
        * injection E as <- <-. exists (SLoop f acc xacc AtTrue), false. split; [constructor|]. split; [intros _; exact En|].
          cbn [hd]. change (-1 <? 0) with true. cbv iota.
          apply (SInv_keep s st r (SLoop f acc xacc AtTrue)); try assumption; try (rewrite Est; reflexivity); try discriminate; try (intros; discriminate).
          -- apply (in_range_of s st r I). rewrite Est. discriminate.
          -- intros f' acc' xacc' p' E _. injection E as <- <- <- <-. apply (s_q s st I r f acc xacc AtExtra Est). left. reflexivity.
    - exfalso. pose proof (s_prog s st I r) as Hp. rewrite Est in Hp. cbn [prog_of] in Hp. destruct (SK_ret r (rev acc)) as [o Ho]. rewrite Ho in Hp.
      inversion Hs; subst; congruence.
    - exfalso. pose proof (s_prog s st I r) as Hp. rewrite Est in Hp. cbn [prog_of] in Hp. inversion Hs; subst; congruence.
  Qed.

  Lemma SInv_run : forall n s0 s st, SInv s0 st -> run_p P super_poll super_stags n s0 s -> exists st', SInv s st'.
  Proof.
    induction n as [|n IH]; intros s0 s st I Hr; inversion Hr as [|? ? r s1 ? Hs Hrest]; subst; [eauto|].
    destruct (SInv_step s0 st r s1 I Hs) as [new [pb [_ [_ I1]]]]. exact (IH s1 s _ I1 Hrest).
  Qed.

  Theorem super_safety n s : run_p P super_poll super_stags n super_sys s -> exists st, SInv s st.
  Proof. exact (SInv_run n super_sys s sst0 SInv_init). Qed.
  (* ---- counting: what a rank has received was addressed to it ------------------------------------------------------------------------------- *)
  Lemma sent1_In st r d : sent1 st r d = true -> st <> SOut /\ In d (R r).
  Proof.
    destruct st as [j|j|f a x p|a x|]; cbn [sent1]; intros H; try discriminate; (split; [discriminate|]); apply memz_In in H; try exact H.
    rewrite <- (firstn_skipn j (R r)). apply in_app_iff. left. exact H.
  Qed.
  Lemma sent2_In st r d : sent2 st r d = true -> st <> SOut /\ In d (extra r).
  Proof.
    destruct st as [j|j|f a x p|a x|]; cbn [sent2]; intros H; try discriminate; (split; [discriminate|]); apply memz_In in H; try exact H.
    rewrite <- (firstn_skipn j (extra r)). apply in_app_iff. left. exact H.
  Qed.

  Lemma X_In r q : In q (X r) <-> 0 <= q < P /\ In r (extra q).
  Proof. unfold X. rewrite filter_In, in_ranks, memz_In. tauto. Qed.
  Lemma X_NoDup r : NoDup (X r).
  Proof. unfold X. apply NoDup_filter. apply ranks_NoDup. Qed.

  Lemma acc_incl s st b : SInv s st -> incl (map fst (acc_of (st b))) (T b).
  Proof.
    intros I a Ha. apply in_map_iff in Ha. destruct Ha as [[a' m] [E Hin]]. cbn [fst] in E. subst a'.
    destruct (proj2 (s_acc s st I b) a m Hin) as [Hs _]. apply sent1_In in Hs. destruct Hs as [Hno Hin'].
    apply transpose_In. split; [apply (in_range_of s st a I Hno)|exact Hin'].
  Qed.
  Lemma xacc_incl s st b : SInv s st -> incl (xacc_of (st b)) (X b).
  Proof.
    intros I a Ha. pose proof (proj2 (s_xacc s st I b) a Ha) as Hs. apply sent2_In in Hs. destruct Hs as [Hno Hin'].
    apply X_In. split; [apply (in_range_of s st a I Hno)|exact Hin'].
  Qed.
  Lemma acc_len s st b : SInv s st -> (length (acc_of (st b)) <= length (T b))%nat.
  Proof. intros I. rewrite <- (map_length fst). apply NoDup_incl_length; [apply (s_acc s st I b)|apply (acc_incl s st b I)]. Qed.
  Lemma xacc_len s st b : SInv s st -> (length (xacc_of (st b)) <= length (X b))%nat.
  Proof. intros I. apply NoDup_incl_length; [apply (s_xacc s st I b)|apply (xacc_incl s st b I)]. Qed.

  Definition need1 (r : Z) (st : sstate) : nat := length (T r) - length (acc_of st).
  Definition need2 (r : Z) (st : sstate) : nat := length (X r) - length (xacc_of st).

  Lemma queue_need s st r : SInv s st -> 0 <= r < P -> queue r (acc_of (st r)) (xacc_of (st r)) = Z.of_nat (need1 r (st r) + need2 r (st r)).
  Proof. intros I Hr. unfold queue, need1, need2. rewrite (Hcontract r Hr). pose proof (acc_len s st r I). pose proof (xacc_len s st r I). lia. Qed.

  Lemma need1_all s st b : SInv s st -> need1 b (st b) = 0%nat -> incl (T b) (map fst (acc_of (st b))).
  Proof. intros I Hn. apply NoDup_length_incl; [apply (s_acc s st I b)|unfold need1 in Hn; rewrite map_length; lia|apply (acc_incl s st b I)]. Qed.
  Lemma need2_all s st b : SInv s st -> need2 b (st b) = 0%nat -> incl (X b) (xacc_of (st b)).
  Proof. intros I Hn. apply NoDup_length_incl; [apply (s_xacc s st I b)|unfold need2 in Hn; lia|apply (xacc_incl s st b I)]. Qed.

  Lemma done_needs s st r acc xacc : SInv s st -> 0 <= r < P -> st r = SDone acc xacc -> need1 r (st r) = 0%nat /\ need2 r (st r) = 0%nat.
  Proof.
    intros I Hr Est. pose proof (s_done s st I r acc xacc Est) as Hq. pose proof (queue_need s st r I Hr) as Hqn. rewrite Est in Hqn |- *. cbn [acc_of xacc_of] in Hqn. lia.
  Qed.

  (* a message on the TRUE tag is pending for b iff b has not yet received from all ranks that list it (once they have sent) *)
  Lemma nothing_TT s st b : SInv s st -> need1 b (st b) = 0%nat -> nothing P (pch s) b TT = true.
  Proof.
    intros I Hn. apply nothing_spec. intros a Ha. rewrite (chf_eq s st I). unfold chf. rewrite Z.eqb_refl. cbn [andb].
    destruct (Z.eqb_spec TT TE) as [E|_]; [destruct (TT_TE E)|]. cbn [andb].
    destruct (sent1 (st a) a b) eqn:Hs; [|reflexivity]. cbn [andb]. apply sent1_In in Hs. destruct Hs as [_ Hin].
    assert (Hrc : rcvd1 (st b) a = true) by (apply rcvd1_In; apply (need1_all s st b I Hn); apply transpose_In; auto). rewrite Hrc. reflexivity.
  Qed.
  Lemma nothing_TE s st b : SInv s st -> need2 b (st b) = 0%nat -> nothing P (pch s) b TE = true.
  Proof.
    intros I Hn. apply nothing_spec. intros a Ha. rewrite (chf_eq s st I). unfold chf. rewrite Z.eqb_refl.
    destruct (Z.eqb_spec TE TT) as [E|_]; [destruct (TT_TE (eq_sym E))|]. cbn [andb].
    destruct (sent2 (st a) a b) eqn:Hs; [|reflexivity]. cbn [andb]. apply sent2_In in Hs. destruct Hs as [_ Hin].
    assert (Hrc : rcvd2 (st b) a = true) by (apply rcvd2_In; apply (need2_all s st b I Hn); apply X_In; auto). rewrite Hrc. reflexivity.
  Qed.

  Definition is_send (st : sstate) : bool := match st with SSend1 _ | SSend2 _ => true | _ => false end.
  Definition is_done (st : sstate) : bool := match st with SDone _ _ => true | _ => false end.
  Definition nosend (st : Z -> sstate) : Prop := forall y, 0 <= y < P -> is_send (st y) = false.

  Lemma pending_TT s st b : SInv s st -> nosend st -> 0 <= b < P -> need1 b (st b) <> 0%nat -> exists a, 0 <= a < P /\ pch s a b TT = [sitem a b].
  Proof.
    intros I Hns Hb Hn.
    destruct (l_pick_missing (T b) (map fst (acc_of (st b))) (transpose_NoDup P R b)) as [a [Ha Hna]]; [unfold need1 in Hn; rewrite map_length; lia|].
    apply transpose_In in Ha. destruct Ha as [Ha Hba]. exists a. split; [exact Ha|]. rewrite (chf_eq s st I). unfold chf. rewrite Z.eqb_refl. cbn [andb].
    assert (Hs : sent1 (st a) a b = true).
    { specialize (Hns a Ha). destruct (st a) as [?|?|? ? ? ?|? ?|] eqn:Ea; cbn [is_send sent1] in *; try discriminate; try (apply memz_In; exact Hba).
      exfalso. apply (proj1 (s_out s st I a) Ea). exact Ha. }
    assert (Hr : rcvd1 (st b) a = false) by (destruct (rcvd1 (st b) a) eqn:Erc; [apply rcvd1_In in Erc; contradiction|reflexivity]).
    rewrite Hs, Hr. reflexivity.
  Qed.
  Lemma pending_TE s st b : SInv s st -> nosend st -> 0 <= b < P -> need2 b (st b) <> 0%nat -> exists a, 0 <= a < P /\ pch s a b TE = [[]].
  Proof.
    intros I Hns Hb Hn.
    destruct (l_pick_missing (X b) (xacc_of (st b)) (X_NoDup b)) as [a [Ha Hna]]; [unfold need2 in Hn; lia|].
    apply X_In in Ha. destruct Ha as [Ha Hba]. exists a. split; [exact Ha|]. rewrite (chf_eq s st I). unfold chf. rewrite Z.eqb_refl.
    destruct (Z.eqb_spec TE TT) as [E|_]; [destruct (TT_TE (eq_sym E))|]. cbn [andb].
    assert (Hs : sent2 (st a) a b = true).
    { specialize (Hns a Ha). destruct (st a) as [?|?|? ? ? ?|? ?|] eqn:Ea; cbn [is_send sent2] in *; try discriminate; try (apply memz_In; exact Hba).
      exfalso. apply (proj1 (s_out s st I a) Ea). exact Ha. }
    assert (Hr : rcvd2 (st b) a = false) by (destruct (rcvd2 (st b) a) eqn:Erc; [apply rcvd2_In in Erc; contradiction|reflexivity]).
    rewrite Hs, Hr. reflexivity.
  Qed.

  (* ---- final states ------------------------------------------------------------------------------------------------------------------------- *)
  Lemma not_ret s st r : SInv s st -> 0 <= r < P -> is_done (st r) = false -> (exists k a, ppr s r = Do a k).
  Proof.
    intros I Hr Hnd. destruct (st r) as [j|j|f acc xacc p|acc xacc|] eqn:Est; try discriminate.
    - rewrite (shape_send1 s st r j I Est). eauto.
    - rewrite (shape_send2 s st r j I Est). eauto.
    - destruct p; [destruct f as [|f]|].
      + rewrite (s_prog s st I r), Est. cbn [prog_of super_loop]. eauto.
      + rewrite (shape_true s st r f acc xacc I Est). eauto.
      + rewrite (s_prog s st I r), Est. cbn [prog_of]. eauto.
    - exfalso. apply (proj1 (s_out s st I r) Est). exact Hr.
  Qed.

  Lemma done_result s st r acc xacc : SInv s st -> 0 <= r < P -> st r = SDone acc xacc ->
    exists o, Permutation o (transpose P R r) /\ (sorted = true -> o = transpose P R r) /\
              ppr s r = Ret (result o (if hp then map (fun q => pay q r) o else [])).
  Proof.
    intros I Hr Est. pose proof (s_prog s st I r) as Hp. rewrite Est in Hp. cbn [prog_of] in Hp.
    destruct (s_acc s st I r) as [Hnd Hacc]. rewrite Est in Hnd, Hacc. cbn [acc_of] in Hnd, Hacc.
    destruct (done_needs s st r acc xacc I Hr Est) as [Hn1 _].
    set (arr := map fst (rev acc)).
    assert (Hperm : Permutation arr (transpose P R r)).
    { apply NoDup_Permutation.
      - unfold arr. rewrite map_rev. apply NoDup_rev. exact Hnd.
      - apply transpose_NoDup.
      - intros a. unfold arr. rewrite map_rev, <- in_rev. split.
        + intros Ha. pose proof (acc_incl s st r I a) as Hi. rewrite Est in Hi. apply Hi. exact Ha.
        + intros Ha. pose proof (need1_all s st r I Hn1 a Ha) as Hi. rewrite Est in Hi. exact Hi. }
    assert (Hgot : rev acc = map (fun a => (a, sitem a r)) arr).
    { unfold arr. rewrite map_map. rewrite <- (map_id (rev acc)) at 1. apply map_ext_in. intros [a m] Hin. apply in_rev in Hin.
      destruct (Hacc a m Hin) as [_ ->]. reflexivity. }
    set (final := if sorted then transpose P R r else arr).
    assert (Hsorted : (if sorted then sort_by_src (rev acc) else rev acc) = map (fun a => (a, sitem a r)) final).
    { unfold final. rewrite Hgot. destruct sorted; [|reflexivity]. apply (sort_arrivals (fun a => sitem a r)); [apply transpose_ssorted|exact Hperm]. }
    exists final. split; [unfold final; destruct sorted; [apply Permutation_refl|exact Hperm]|]. split; [intros ->; reflexivity|].
    rewrite Hp. unfold SK. rewrite Hsorted. rewrite !map_map. cbn [fst snd]. rewrite map_id. unfold sep, sitem. destruct hp; reflexivity.
  Qed.

  Lemma all_done s st : SInv s st -> pfinal s -> forall r, 0 <= r < P -> exists acc xacc, st r = SDone acc xacc.
  Proof.
    intros I Hf r Hr. destruct (is_done (st r)) eqn:E; [destruct (st r); try discriminate; eauto|].
    exfalso. destruct (not_ret s st r I Hr E) as [k [a Hk]]. destruct (Hf r) as [o Ho]. congruence.
  Qed.

  (* FINAL STATES: the transposed lists (a permutation if unsorted; the extra contacts are not reported), every channel empty *)
  Theorem super_final n s : run_p P super_poll super_stags n super_sys s -> pfinal s ->
    (forall r, 0 <= r < P -> exists o, Permutation o (transpose P R r) /\ (sorted = true -> o = transpose P R r) /\
                                      ppr s r = Ret (result o (if hp then map (fun q => pay q r) o else []))) /\
    (forall a b t, pch s a b t = []).
  Proof.
    intros Hr Hf. destruct (super_safety n s Hr) as [st I]. pose proof (all_done s st I Hf) as Hdone. split.
    - intros r Hrr. destruct (Hdone r Hrr) as [acc [xacc Est]]. exact (done_result s st r acc xacc I Hrr Est).
    - intros a b t. rewrite (chf_eq s st I). unfold chf.
      destruct (sent1 (st a) a b) eqn:H1.
      + pose proof H1 as H1'. apply sent1_In in H1'. destruct H1' as [Hno Hin]. pose proof (in_range_of s st a I Hno) as Ha.
        pose proof (proj2 (HR a Ha) b Hin) as Hb. destruct (Hdone b Hb) as [acc [xacc Est]]. destruct (done_needs s st b acc xacc I Hb Est) as [Hn1 Hn2].
        assert (Hrc : rcvd1 (st b) a = true) by (apply rcvd1_In; apply (need1_all s st b I Hn1); apply transpose_In; auto). rewrite Hrc.
        rewrite andb_false_r. destruct (sent2 (st a) a b) eqn:H2; [|rewrite andb_false_r; reflexivity].
        apply sent2_In in H2. destruct H2 as [_ Hin2].
        assert (Hrc2 : rcvd2 (st b) a = true) by (apply rcvd2_In; apply (need2_all s st b I Hn2); apply X_In; auto). rewrite Hrc2. rewrite andb_false_r. reflexivity.
      + rewrite andb_false_r. cbn [andb]. destruct (sent2 (st a) a b) eqn:H2; [|rewrite andb_false_r; reflexivity].
        pose proof H2 as H2'. apply sent2_In in H2'. destruct H2' as [Hno Hin2]. pose proof (in_range_of s st a I Hno) as Ha.
        pose proof (proj2 (HX a Ha) b Hin2) as Hb. destruct (Hdone b Hb) as [acc [xacc Est]]. destruct (done_needs s st b acc xacc I Hb Est) as [Hn1 Hn2].
        assert (Hrc2 : rcvd2 (st b) a = true) by (apply rcvd2_In; apply (need2_all s st b I Hn2); apply X_In; auto). rewrite Hrc2. rewrite andb_false_r. reflexivity.
  Qed.
  (* ---- a decreasing step always exists: reachability of a final state --------------------------------------------------------------------------- *)
  Definition at_fuel_mark (s : pst) (r : Z) : Prop := exists k, ppr s r = Do (Coll K_FUEL (-1) []) k.

  Definition sphi (r : Z) (st : sstate) : nat :=
    match st with
    | SSend1 j => 3 * (length (R r) - j) + 3 * length (extra r) + 2 * (length (T r) + length (X r)) + 2
    | SSend2 j => 3 * (length (extra r) - j) + 2 * (length (T r) + length (X r)) + 2
    | SLoop _ _ _ AtTrue => 2 * (need1 r st + need2 r st) + (if (need1 r st =? 0)%nat then 1 else 0)
    | SLoop _ _ _ AtExtra => 2 * (need1 r st + need2 r st) + (if (need2 r st =? 0)%nat then 1 else 0)
    | SDone _ _ => 0
    | SOut => 0
    end%nat.
  Definition SPhi (st : Z -> sstate) : nat := list_sum (map (fun r => sphi r (st r)) (ranks P)).
  Definition super_bound : nat := list_sum (map (fun r => 3 * length (R r) + 3 * length (extra r) + 2 * (length (T r) + length (X r)) + 2)%nat (ranks P)).

  Lemma SPhi_upd st r new : 0 <= r < P -> (SPhi (upds st r new) + sphi r (st r) = SPhi st + sphi r new)%nat.
  Proof.
    intros Hr. unfold SPhi.
    pose proof (l_sum_upd_eq (fun y => sphi y (st y)) (fun y => sphi y (upds st r new y)) (ranks P) r (ranks_NoDup P) (proj2 (in_ranks P r) Hr)) as H.
    cbv beta in H. rewrite upds_same in H. apply H. intros y Hy. rewrite upds_other by exact Hy. reflexivity.
  Qed.

  Lemma sphi_le r st : (sphi r st <= 3 * length (R r) + 3 * length (extra r) + 2 * (length (T r) + length (X r)) + 2)%nat.
  Proof.
    destruct st as [j|j|f acc xacc p|acc xacc|]; cbn [sphi]; try lia. unfold need1, need2. cbn [acc_of xacc_of].
    destruct p; [destruct (Nat.eqb_spec (length (T r) - length acc) 0)|destruct (Nat.eqb_spec (length (X r) - length xacc) 0)]; lia.
  Qed.
  Lemma SPhi_le st : (SPhi st <= super_bound)%nat.
  Proof. unfold SPhi, super_bound. apply SemRounds.list_sum_le. intros r _. apply sphi_le. Qed.

  Lemma sphi_mkloop r f acc xacc : (sphi r (mkloop r f acc xacc) <= 2 * ((length (T r) - length acc) + (length (X r) - length xacc)) + 1)%nat.
  Proof.
    destruct (mkloop_cases r f acc xacc) as [[-> _]|[-> _]]; cbn [sphi]; [|lia]. unfold need1, need2. cbn [acc_of xacc_of].
    destruct (Nat.eqb_spec (length (T r) - length acc) 0); lia.
  Qed.

  Lemma super_move s st : SInv s st ->
    pfinal s \/ (exists r, 0 <= r < P /\ at_fuel_mark s r) \/
    (exists r s' new pb, 0 <= r < P /\ step_p P super_poll super_stags s r s' /\ sgstep r (st r) new pb /\ SInv s' (upds st r new) /\
                         (sphi r new < sphi r (st r))%nat).
  Proof.
    intros I.
    destruct (find_rank P (fun r => is_send (st r))) as [[r [Hr Hp]]|Hnosend].
    { right. right. destruct (st r) as [j|j| | |] eqn:Est; try discriminate.
      - pose proof (s_send1 s st I r j Est) as Hj. exists r. eexists. exists (next1 r (S j)), true. split; [exact Hr|].
        split; [eapply stepp_send; apply (shape_send1 s st r j I Est)|]. split; [rewrite Est; constructor|]. split; [exact (SInv_send1 s st r j I Est)|].
        rewrite Est. cbn [sphi]. unfold next1. destruct (Nat.ltb_spec (S j) (length (R r))); [cbn [sphi]; lia|].
        unfold enter2. destruct (Nat.ltb_spec 0 (length (extra r))); [cbn [sphi]; lia|]. pose proof (sphi_mkloop r fuel [] []) as H1. cbn [length] in H1. lia.
      - pose proof (s_send2 s st I r j Est) as Hj. exists r. eexists. exists (next2 r (S j)), true. split; [exact Hr|].
        split; [eapply stepp_send; apply (shape_send2 s st r j I Est)|]. split; [rewrite Est; constructor|]. split; [exact (SInv_send2 s st r j I Est)|].
        rewrite Est. cbn [sphi]. unfold next2. destruct (Nat.ltb_spec (S j) (length (extra r))); [cbn [sphi]; lia|].
        pose proof (sphi_mkloop r fuel [] []) as H1. cbn [length] in H1. lia. }
    destruct (find_rank P (fun r => negb (is_done (st r)))) as [[b [Hb Hp]]|Hall].
    2:{ left. intros r. rewrite (s_prog s st I r). destruct (Z_le_dec 0 r) as [H0|H0]; [destruct (Z_lt_dec r P) as [H1|H1]|].
        - specialize (Hall r (conj H0 H1)). destruct (st r) as [?|?|? ? ? ?|acc xacc|]; try discriminate. cbn [prog_of]. apply SK_ret.
        - rewrite (proj2 (s_out s st I r)) by lia. cbn [prog_of]. eauto.
        - rewrite (proj2 (s_out s st I r)) by lia. cbn [prog_of]. eauto. }
    apply negb_true_iff in Hp. destruct (st b) as [j|j|f acc xacc p|acc xacc|] eqn:Est; try discriminate.
    - specialize (Hnosend b Hb). rewrite Est in Hnosend. discriminate.
    - specialize (Hnosend b Hb). rewrite Est in Hnosend. discriminate.
    - pose proof (queue_need s st b I Hb) as Hqn. rewrite Est in Hqn. cbn [acc_of xacc_of] in Hqn.
      destruct p.
      + destruct f as [|f]; [right; left; exists b; split; [exact Hb|]; pose proof (s_prog s st I b) as Hk; rewrite Est in Hk; cbn [prog_of super_loop] in Hk; eexists; exact Hk|].
        right. right. pose proof (shape_true s st b f acc xacc I Est) as Hprog.
        assert (Hq : 0 < queue b acc xacc) by (apply (s_q s st I b (S f) acc xacc AtTrue Est); right; discriminate).
        destruct (Nat.eq_dec (need1 b (st b)) 0) as [Hn|Hn].
        * (* all items received: the TRUE poll is empty, on to the EXTRA poll, where a message is pending *)
          exists b. eexists. exists (SLoop f acc xacc AtExtra), false. split; [exact Hb|].
          split; [eapply stepp_miss; [exact Hprog|apply poll_TT|apply (nothing_TT s st b I Hn)]|]. split; [rewrite Est; constructor|].
          cbn [hd]. change (-1 <? 0) with true. cbv iota. split.
          -- apply (SInv_keep s st b (SLoop f acc xacc AtExtra)); try assumption; try (rewrite Est; reflexivity); try discriminate; try (intros; discriminate).
             intros f' acc' xacc' p' E _. injection E as <- <- <- <-. exact Hq.
          -- rewrite Est in Hn |- *. cbn [sphi]. rewrite Hn. cbn [Nat.eqb]. destruct (Nat.eqb_spec (need2 b (SLoop (S f) acc xacc AtTrue)) 0) as [E|E]; [lia|].
             unfold need1, need2 in *. cbn [acc_of xacc_of] in *. destruct (Nat.eqb_spec (length (X b) - length xacc) 0); lia.
        * destruct (pending_TT s st b I Hnosend Hb Hn) as [a [Ha Hch]].
          destruct (SInv_hit1 s st b f acc xacc a (sitem a b) [] I Est Hch) as [H0 [_ Hinv]].
          exists b. eexists. exists (mkloop b f ((a, sitem a b) :: acc) xacc), true. split; [exact Hb|].
          split; [eapply stepp_hit; [exact Hprog|apply poll_TT|exact Hch]|]. split; [rewrite Est; constructor|].
          cbn [hd tl]. replace (a <? 0) with false by lia. rewrite prog_mkloop, queue_cons1 in Hinv. split; [exact Hinv|].
          pose proof (sphi_mkloop b f ((a, sitem a b) :: acc) xacc) as H1. rewrite Est in Hn |- *. cbn [sphi]. unfold need1, need2 in *. cbn [acc_of xacc_of length] in *.
          destruct (Nat.eqb_spec (length (T b) - length acc) 0); lia.
      + right. right. pose proof (s_prog s st I b) as Hprog. rewrite Est in Hprog. cbn [prog_of] in Hprog.
        pose proof (s_q s st I b f acc xacc AtExtra Est (or_introl eq_refl)) as Hq.
        destruct (Nat.eq_dec (need2 b (st b)) 0) as [Hn|Hn].
        * exists b. eexists. exists (SLoop f acc xacc AtTrue), false. split; [exact Hb|].
          split; [eapply stepp_miss; [exact Hprog|apply poll_TE|apply (nothing_TE s st b I Hn)]|]. split; [rewrite Est; constructor|].
          cbn [hd]. change (-1 <? 0) with true. cbv iota. split.
          -- apply (SInv_keep s st b (SLoop f acc xacc AtTrue)); try assumption; try (rewrite Est; reflexivity); try discriminate; try (intros; discriminate).
             intros f' acc' xacc' p' E _. injection E as <- <- <- <-. exact Hq.
          -- rewrite Est in Hn |- *. cbn [sphi]. rewrite Hn. cbn [Nat.eqb]. unfold need1, need2 in *. cbn [acc_of xacc_of] in *.
             destruct (Nat.eqb_spec (length (T b) - length acc) 0); lia.
        * destruct (pending_TE s st b I Hnosend Hb Hn) as [a [Ha Hch]].
          destruct (SInv_hit2 s st b f acc xacc a [] [] I Est Hch) as [H0 Hinv].
          exists b. eexists. exists (mkloop b f acc (a :: xacc)), true. split; [exact Hb|].
          split; [eapply stepp_hit; [exact Hprog|apply poll_TE|exact Hch]|]. split; [rewrite Est; constructor|].
          cbn [hd]. replace (a <? 0) with false by lia. rewrite prog_mkloop, queue_cons2 in Hinv. split; [exact Hinv|].
          pose proof (sphi_mkloop b f acc (a :: xacc)) as H1. rewrite Est in Hn |- *. cbn [sphi]. unfold need1, need2 in *. cbn [acc_of xacc_of length] in *.
          destruct (Nat.eqb_spec (length (X b) - length xacc) 0); lia.
    - exfalso. apply (proj1 (s_out s st I b) Est). exact Hb.
  Qed.

  (* ---- the fuel -------------------------------------------------------------------------------------------------------------------------------- *)
  Definition floor (st : sstate) : nat := match st with SLoop f _ _ _ => f | _ => fuel end.
  Definition fuel_inv (n : nat) (st : Z -> sstate) : Prop := forall r, (fuel <= floor (st r) + n)%nat.

  Lemma floor_mkloop r f acc xacc : floor (mkloop r f acc xacc) = fuel \/ floor (mkloop r f acc xacc) = f.
  Proof. destruct (mkloop_cases r f acc xacc) as [[-> _]|[-> _]]; cbn [floor]; auto. Qed.

  Lemma sgstep_floor r old new pb : sgstep r old new pb -> (floor new = fuel \/ floor old <= S (floor new))%nat.
  Proof.
    intros H. inversion H; subst; cbn [floor].
    - unfold next1, enter2. destruct (_ <? _)%nat; [cbn [floor]; lia|]. destruct (_ <? _)%nat; [cbn [floor]; lia|]. destruct (floor_mkloop r fuel [] []); lia.
    - unfold next2. destruct (_ <? _)%nat; [cbn [floor]; lia|]. destruct (floor_mkloop r fuel [] []); lia.
    - destruct (floor_mkloop r f (x :: acc) xacc); lia.
    - lia.
    - destruct (floor_mkloop r f acc (x :: xacc)); lia.
    - lia.
  Qed.

  Lemma fuel_inv_init : fuel_inv 0 sst0.
  Proof.
    intros r. unfold sst0. destruct (inr P r); [|cbn [floor]; lia]. unfold next1, enter2.
    destruct (_ <? _)%nat; [cbn [floor]; lia|]. destruct (_ <? _)%nat; [cbn [floor]; lia|]. destruct (floor_mkloop r fuel [] []); lia.
  Qed.

  Lemma fuel_inv_step n st r new pb : fuel_inv n st -> sgstep r (st r) new pb -> fuel_inv (S n) (upds st r new).
  Proof.
    intros Hf Hg y. unfold upds. destruct (Z.eqb_spec y r) as [Ey|Ey]; [subst y|specialize (Hf y); lia].
    pose proof (sgstep_floor r _ _ _ Hg). specialize (Hf r). lia.
  Qed.

  Lemma SInv_run_fuel : forall n s0 s st k, SInv s0 st -> fuel_inv k st -> run_p P super_poll super_stags n s0 s ->
    exists st', SInv s st' /\ fuel_inv (k + n) st'.
  Proof.
    induction n as [|n IH]; intros s0 s st k I Hf Hr; inversion Hr as [|? ? r s1 ? Hs Hrest]; subst.
    - exists st. rewrite Nat.add_0_r. auto.
    - destruct (SInv_step s0 st r s1 I Hs) as [new [pb [Hg [_ I1]]]].
      destruct (IH s1 s _ (S k) I1 (fuel_inv_step k st r new pb Hf Hg) Hrest) as [st' [I' Hf']]. exists st'. split; [exact I'|].
      replace (k + S n)%nat with (S k + n)%nat by lia. exact Hf'.
  Qed.

  Lemma fuel_mark_floor s st r : SInv s st -> 0 <= r < P -> at_fuel_mark s r -> floor (st r) = 0%nat.
  Proof.
    intros I Hr [k Hk]. destruct (st r) as [j|j|f acc xacc p|acc xacc|] eqn:Est.
    - rewrite (shape_send1 s st r j I Est) in Hk. discriminate.
    - rewrite (shape_send2 s st r j I Est) in Hk. discriminate.
    - destruct p; [destruct f as [|f]; [reflexivity|]|].
      + rewrite (shape_true s st r f acc xacc I Est) in Hk. discriminate.
      + rewrite (s_prog s st I r), Est in Hk. cbn [prog_of] in Hk. discriminate.
    - exfalso. rewrite (s_prog s st I r), Est in Hk. cbn [prog_of] in Hk. destruct (SK_ret r (rev acc)) as [o Ho]. rewrite Ho in Hk. discriminate.
    - exfalso. apply (proj1 (s_out s st I r) Est). exact Hr.
  Qed.

  Theorem super_reach_final : forall k s st n, SInv s st -> fuel_inv n st -> SPhi st = k -> (n + k < fuel)%nat ->
    exists m s', run_p P super_poll super_stags m s s' /\ (m <= k)%nat /\ pfinal s'.
  Proof.
    induction k as [k IH] using lt_wf_ind. intros s st n I Hf Hk Hfuel.
    destruct (super_move s st I) as [Hfin|[[r [Hr Hm]]|[r [s1 [new [pb [Hrr [Hs [Hg [I1 Hlt0]]]]]]]]]].
    - exists 0%nat, s. split; [constructor|]. split; [lia|exact Hfin].
    - exfalso. pose proof (fuel_mark_floor s st r I Hr Hm) as H0. specialize (Hf r). lia.
    - pose proof (SPhi_upd st r new Hrr) as Hu.
      destruct (IH (SPhi (upds st r new)) ltac:(lia) s1 _ (S n) I1 (fuel_inv_step n st r new pb Hf Hg) eq_refl ltac:(lia)) as [m [s' [Hr [Hle Hend]]]].
      exists (S m), s'. split; [econstructor; eassumption|]. split; [lia|exact Hend].
  Qed.

  (* SUPERSET, EVERY SCHEDULE (no fairness assumed): for every run of n steps with n + super_bound < fuel (a) a final state is correct,
     (b) no rank is blocked, (c) a final state is reachable by at most super_bound further steps *)
  Theorem super_every_schedule n s : run_p P super_poll super_stags n super_sys s -> (n + super_bound < fuel)%nat ->
    (pfinal s ->
       (forall r, 0 <= r < P -> exists o, Permutation o (transpose P R r) /\ (sorted = true -> o = transpose P R r) /\
                                         ppr s r = Ret (result o (if hp then map (fun q => pay q r) o else []))) /\
       (forall a b t, pch s a b t = [])) /\
    (forall r, 0 <= r < P -> (exists o, ppr s r = Ret o) \/ exists s', step_p P super_poll super_stags s r s') /\
    (exists m s', run_p P super_poll super_stags m s s' /\ (m <= super_bound)%nat /\ pfinal s').
  Proof.
    intros Hr Hfuel. destruct (SInv_run_fuel n super_sys s sst0 0 SInv_init fuel_inv_init Hr) as [st [I Hf]]. cbn [Nat.add] in Hf.
    split; [exact (super_final n s Hr)|]. split.
    - intros r Hrr. destruct (st r) as [j|j|f acc xacc p|acc xacc|] eqn:Est.
      + right. eexists. eapply stepp_send. apply (shape_send1 s st r j I Est).
      + right. eexists. eapply stepp_send. apply (shape_send2 s st r j I Est).
      + right. destruct p.
        * destruct f as [|f]; [exfalso; specialize (Hf r); rewrite Est in Hf; cbn [floor] in Hf; lia|].
          pose proof (shape_true s st r f acc xacc I Est) as Hp.
          destruct (nothing P (pch s) r TT) eqn:En; [eexists; eapply stepp_miss; [exact Hp|apply poll_TT|exact En]|].
          assert (Hex : exists src m q, pch s src r TT = m :: q).
          { unfold nothing in En. destruct (existsb (fun src => negb (isnil (pch s src r TT))) (pranks P)) eqn:Ee.
            - apply existsb_exists in Ee. destruct Ee as [src [_ Hsrc]]. destruct (pch s src r TT) as [|m q] eqn:Ec; [discriminate|exists src, m, q; exact Ec].
            - exfalso. assert (forallb (fun src => isnil (pch s src r TT)) (pranks P) = true); [|congruence]. apply forallb_forall. intros src Hsrc.
              destruct (isnil (pch s src r TT)) eqn:Ei; [reflexivity|]. exfalso.
              assert (Ht : existsb (fun src0 => negb (isnil (pch s src0 r TT))) (pranks P) = true) by (apply existsb_exists; exists src; rewrite Ei; auto). congruence. }
          destruct Hex as [src [m [q Hc]]]. eexists. eapply stepp_hit; [exact Hp|apply poll_TT|exact Hc].
        * pose proof (s_prog s st I r) as Hp. rewrite Est in Hp. cbn [prog_of] in Hp.
          destruct (nothing P (pch s) r TE) eqn:En; [eexists; eapply stepp_miss; [exact Hp|apply poll_TE|exact En]|].
          assert (Hex : exists src m q, pch s src r TE = m :: q).
          { unfold nothing in En. destruct (existsb (fun src => negb (isnil (pch s src r TE))) (pranks P)) eqn:Ee.
            - apply existsb_exists in Ee. destruct Ee as [src [_ Hsrc]]. destruct (pch s src r TE) as [|m q] eqn:Ec; [discriminate|exists src, m, q; exact Ec].
            - exfalso. assert (forallb (fun src => isnil (pch s src r TE)) (pranks P) = true); [|congruence]. apply forallb_forall. intros src Hsrc.
              destruct (isnil (pch s src r TE)) eqn:Ei; [reflexivity|]. exfalso.
              assert (Ht : existsb (fun src0 => negb (isnil (pch s src0 r TE))) (pranks P) = true) by (apply existsb_exists; exists src; rewrite Ei; auto). congruence. }
          destruct Hex as [src [m [q Hc]]]. eexists. eapply stepp_hit; [exact Hp|apply poll_TE|exact Hc].
      + left. rewrite (s_prog s st I r), Est. cbn [prog_of]. apply SK_ret.
      + exfalso. apply (proj1 (s_out s st I r) Est). exact Hrr.
    - pose proof (SPhi_le st) as Hle.
      destruct (super_reach_final (SPhi st) s st n I Hf eq_refl ltac:(lia)) as [m [s' [H1 [H2 H3]]]]. exists m, s'. split; [exact H1|]. split; [lia|exact H3].
  Qed.
  (* ---- FAIRNESS: every weakly fair run terminates (as for nbx) ------------------------------------------------------------------------------------ *)
  Definition unsent (r : Z) (st : sstate) : nat :=
    match st with SSend1 j => (length (R r) - j) + length (extra r) | SSend2 j => length (extra r) - j | _ => 0 end%nat.
  Definition srho (r : Z) (st : sstate) : nat :=
    (unsent r st + need1 r st + need2 r st + match st with SDone _ _ | SOut => 0 | _ => 1 end)%nat.
  Definition SRho (st : Z -> sstate) : nat := list_sum (map (fun r => srho r (st r)) (ranks P)).
  Definition super_rounds : nat := list_sum (map (fun r => length (R r) + length (extra r) + length (T r) + length (X r) + 1)%nat (ranks P)).

  Lemma SRho_upd st r new : 0 <= r < P -> (SRho (upds st r new) + srho r (st r) = SRho st + srho r new)%nat.
  Proof.
    intros Hr. unfold SRho.
    pose proof (l_sum_upd_eq (fun y => srho y (st y)) (fun y => srho y (upds st r new y)) (ranks P) r (ranks_NoDup P) (proj2 (in_ranks P r) Hr)) as H.
    cbv beta in H. rewrite upds_same in H. apply H. intros y Hy. rewrite upds_other by exact Hy. reflexivity.
  Qed.

  Lemma srho_mkloop r f acc xacc : (srho r (mkloop r f acc xacc) <= (length (T r) - length acc) + (length (X r) - length xacc) + 1)%nat.
  Proof. destruct (mkloop_cases r f acc xacc) as [[-> _]|[-> _]]; unfold srho, need1, need2; cbn [unsent acc_of xacc_of]; lia. Qed.

  Lemma sgstep_rho s st r new pb s' : SInv s st -> SInv s' (upds st r new) -> sgstep r (st r) new pb ->
    if pb then (srho r new < srho r (st r))%nat else srho r new = srho r (st r).
  Proof.
    intros I I' Hg.
    pose proof (acc_len s' _ r I') as Hl1. pose proof (xacc_len s' _ r I') as Hl2. rewrite upds_same in Hl1, Hl2.
    remember (st r) as old eqn:Eo. destruct Hg.
    - pose proof (s_send1 s st I r j (eq_sym Eo)) as Hj. unfold next1. destruct (Nat.ltb_spec (S j) (length (R r))); [unfold srho, need1, need2; cbn [unsent acc_of xacc_of length]; lia|].
      unfold enter2. destruct (Nat.ltb_spec 0 (length (extra r))); [unfold srho, need1, need2; cbn [unsent acc_of xacc_of length]; lia|].
      pose proof (srho_mkloop r fuel [] []) as H1. cbn [length] in H1. unfold srho at 2, need1, need2. cbn [unsent acc_of xacc_of length]. lia.
    - pose proof (s_send2 s st I r j (eq_sym Eo)) as Hj. unfold next2. destruct (Nat.ltb_spec (S j) (length (extra r))); [unfold srho, need1, need2; cbn [unsent acc_of xacc_of length]; lia|].
      pose proof (srho_mkloop r fuel [] []) as H1. cbn [length] in H1. unfold srho at 2, need1, need2. cbn [unsent acc_of xacc_of length]. lia.
    - destruct (mkloop_attrs r f (x :: acc) xacc) as [A1 [A2 _]]. rewrite A1 in Hl1. rewrite A2 in Hl2. cbn [length] in Hl1.
      pose proof (srho_mkloop r f (x :: acc) xacc) as H1. cbn [length] in H1. unfold srho at 2, need1, need2. cbn [unsent acc_of xacc_of length]. lia.
    - reflexivity.
    - destruct (mkloop_attrs r f acc (x :: xacc)) as [A1 [A2 _]]. rewrite A1 in Hl1. rewrite A2 in Hl2. cbn [length] in Hl2.
      pose proof (srho_mkloop r f acc (x :: xacc)) as H1. cbn [length] in H1. unfold srho at 2, need1, need2. cbn [unsent acc_of xacc_of length]. lia.
    - reflexivity.
  Qed.

  Lemma SRho_step s st r new pb s' : SInv s st -> SInv s' (upds st r new) -> 0 <= r < P -> sgstep r (st r) new pb ->
    if pb then (SRho (upds st r new) < SRho st)%nat else SRho (upds st r new) = SRho st.
  Proof. intros I I' Hr Hg. pose proof (sgstep_rho s st r new pb s' I I' Hg). pose proof (SRho_upd st r new Hr). destruct pb; lia. Qed.

  Inductive srunl : list Z -> pst -> pst -> Prop :=
  | srunl_nil s : srunl [] s s
  | srunl_cons r ls s s1 s2 : step_p P super_poll super_stags s r s1 -> srunl ls s1 s2 -> srunl (r :: ls) s s2.

  Lemma step_in_range s st r s' : SInv s st -> step_p P super_poll super_stags s r s' -> 0 <= r < P.
  Proof.
    intros I Hs. apply (in_range_of s st r I). intros E. pose proof (s_prog s st I r) as Hp. rewrite E in Hp. cbn [prog_of] in Hp.
    inversion Hs; subst; congruence.
  Qed.

  Lemma srho_run_le : forall ls s st s', SInv s st -> srunl ls s s' -> exists st', SInv s' st' /\ (SRho st' <= SRho st)%nat.
  Proof.
    induction ls as [|y ls IH]; intros s st s' I Hr; inversion Hr as [|? ? ? s1 ? Hs Hrest]; subst; [exists st; split; [exact I|lia]|].
    destruct (SInv_step s st y s1 I Hs) as [new [pb [Hg [_ I1]]]]. pose proof (SRho_step s st y new pb s1 I I1 (step_in_range s st y s1 I Hs) Hg) as HRho.
    destruct (IH s1 _ s' I1 Hrest) as [st' [I' Hle]]. exists st'. split; [exact I'|]. destruct pb; lia.
  Qed.

  (* scrit st c k: the k-th step of c from now (k = 1 or 2) is productive if only unproductive steps happen before *)
  Inductive scrit (st : Z -> sstate) (c : Z) : nat -> Prop :=
  | sc_send : 0 <= c < P -> is_send (st c) = true -> scrit st c 1
  | sc_loop f acc xacc p : 0 <= c < P -> nosend st -> st c = SLoop f acc xacc p ->
      scrit st c (match p with AtTrue => if (need1 c (st c) =? 0)%nat then 2 else 1 | AtExtra => if (need2 c (st c) =? 0)%nat then 2 else 1 end).

  Lemma scrit_pos st c k : scrit st c k -> (1 <= k <= 2)%nat /\ 0 <= c < P /\ is_done (st c) = false /\ st c <> SOut.
  Proof.
    intros H. destruct H as [Hc E|f acc xacc p Hc _ E].
    - split; [lia|]. split; [exact Hc|]. destruct (st c); try discriminate; (split; [reflexivity|discriminate]).
    - rewrite E. split; [destruct p; destruct (_ =? _)%nat; lia|]. split; [exact Hc|]. split; [reflexivity|discriminate].
  Qed.

  Lemma scrit_exists s st : SInv s st -> (exists r, 0 <= r < P /\ is_done (st r) = false) -> exists c k, scrit st c k.
  Proof.
    intros I [r0 [Hr0 Hnd0]].
    destruct (find_rank P (fun r => is_send (st r))) as [[r [Hr Hp]]|Hnosend]; [exists r, 1%nat; apply sc_send; assumption|].
    destruct (st r0) as [j|j|f acc xacc p|acc xacc|] eqn:Est; try discriminate.
    - specialize (Hnosend r0 Hr0). rewrite Est in Hnosend. discriminate.
    - specialize (Hnosend r0 Hr0). rewrite Est in Hnosend. discriminate.
    - exists r0. eexists. eapply (sc_loop st r0 f acc xacc p); eassumption.
    - exfalso. apply (proj1 (s_out s st I r0) Est). exact Hr0.
  Qed.

  Lemma sidle_attrs y old new : sgstep y old new false -> is_send new = false /\ is_send old = false /\ acc_of new = acc_of old /\ xacc_of new = xacc_of old.
  Proof. intros H. inversion H; subst; cbn; auto. Qed.

  Lemma scrit_other st c k y new : scrit st c k -> y <> c -> sgstep y (st y) new false -> scrit (upds st y new) c k.
  Proof.
    intros Hc Hy Hg. destruct (sidle_attrs y _ _ Hg) as [A [B _]]. destruct Hc as [Hcr E|f acc xacc p Hcr Hns E].
    - apply sc_send; [exact Hcr|rewrite upds_other by (intros X0; apply Hy; auto); exact E].
    - assert (E' : upds st y new c = SLoop f acc xacc p) by (rewrite upds_other by (intros X0; apply Hy; auto); exact E).
      assert (Ec : upds st y new c = st c) by (apply upds_other; intros X0; apply Hy; auto). rewrite <- Ec. eapply sc_loop; [exact Hcr| |exact E'].
      intros z Hz. unfold upds. destruct (Z.eqb_spec z y) as [Ez|Ez]; [exact A|apply Hns; exact Hz].
  Qed.

  Lemma sc_loop' st c f acc xacc p k : 0 <= c < P -> nosend st -> st c = SLoop f acc xacc p ->
    k = (match p with AtTrue => if (need1 c (SLoop f acc xacc p) =? 0)%nat then 2 else 1 | AtExtra => if (need2 c (SLoop f acc xacc p) =? 0)%nat then 2 else 1 end)%nat ->
    scrit st c k.
  Proof. intros Hc Hns E ->. rewrite <- E. eapply sc_loop; eassumption. Qed.

  Lemma scrit_self s st c k new pb : SInv s st -> scrit st c k -> sgstep c (st c) new pb -> sidle_ok s c (st c) pb ->
    pb = true \/ (k = 2%nat /\ scrit (upds st c new) c 1).
  Proof.
    intros I Hc Hg Hi. destruct pb; [left; reflexivity|right]. specialize (Hi eq_refl). destruct (sidle_attrs c _ _ Hg) as [A [B _]].
    destruct Hc as [Hcr E|f acc xacc p Hcr Hns E]; [congruence|].
    assert (Hns' : nosend (upds st c new)) by (intros z Hz; unfold upds; destruct (Z.eqb_spec z c) as [Ez|Ez]; [exact A|apply Hns; exact Hz]).
    pose proof (queue_need s st c I Hcr) as Hqn. rewrite E in Hg, Hi, Hqn. cbn [acc_of xacc_of] in Hqn. inversion Hg; subst.
    - (* empty TRUE poll *)
      cbn in Hi. pose proof (s_q s st I c (S f0) acc xacc AtTrue E) as Hq. assert (Hq' : 0 < queue c acc xacc) by (apply Hq; right; discriminate).
      destruct (Nat.eqb_spec (need1 c (st c)) 0) as [Hn|Hn].
      + split; [reflexivity|]. rewrite E in Hn.
        assert (Hn2 : (need2 c (SLoop f0 acc xacc AtExtra) =? 0)%nat = false) by (apply Nat.eqb_neq; unfold need1, need2 in *; cbn [acc_of xacc_of] in *; lia).
        apply (sc_loop' _ c f0 acc xacc AtExtra 1%nat Hcr Hns' (upds_same _ _ _)). rewrite Hn2. reflexivity.
      + exfalso. destruct (pending_TT s st c I Hns Hcr Hn) as [a [Ha Hch]]. rewrite nothing_spec in Hi. rewrite (Hi a Ha) in Hch. discriminate.
    - (* empty EXTRA poll *)
      cbn in Hi. assert (Hq' : 0 < queue c acc xacc) by (apply (s_q s st I c f acc xacc AtExtra E); left; reflexivity).
      destruct (Nat.eqb_spec (need2 c (st c)) 0) as [Hn|Hn].
      + split; [reflexivity|]. rewrite E in Hn.
        assert (Hn1 : (need1 c (SLoop f acc xacc AtTrue) =? 0)%nat = false) by (apply Nat.eqb_neq; unfold need1, need2 in *; cbn [acc_of xacc_of] in *; lia).
        apply (sc_loop' _ c f acc xacc AtTrue 1%nat Hcr Hns' (upds_same _ _ _)). rewrite Hn1. reflexivity.
      + exfalso. destruct (pending_TE s st c I Hns Hcr Hn) as [a [Ha Hch]]. rewrite nothing_spec in Hi. rewrite (Hi a Ha) in Hch. discriminate.
  Qed.
  Definition scnt (r : Z) (ls : list Z) : nat := count_occ Z.eq_dec ls r.

  Lemma sidle_run : forall ls s st s' c k, SInv s st -> scrit st c k -> srunl ls s s' ->
    (exists st', SInv s' st' /\ (SRho st' < SRho st)%nat) \/
    (exists st' k', SInv s' st' /\ SRho st' = SRho st /\ scrit st' c k' /\ (scnt c ls + k' = k)%nat).
  Proof.
    induction ls as [|y ls IH]; intros s st s' c k I Hc Hr; inversion Hr as [|? ? ? s1 ? Hs Hrest]; subst.
    - right. exists st, k. cbn. auto.
    - destruct (SInv_step s st y s1 I Hs) as [new [pb [Hg [Hi I1]]]].
      pose proof (SRho_step s st y new pb s1 I I1 (step_in_range s st y s1 I Hs) Hg) as HRho.
      destruct pb.
      + left. destruct (srho_run_le ls s1 _ s' I1 Hrest) as [st' [I' Hle]]. exists st'. split; [exact I'|lia].
      + destruct (Z.eq_dec y c) as [->|Hy].
        * destruct (scrit_self s st c k new false I Hc Hg Hi) as [E|[-> Hc1]]; [discriminate|].
          destruct (IH s1 _ s' c 1%nat I1 Hc1 Hrest) as [[st' [I' Hlt]]|[st' [k' [I' [E' [Hc' Hcnt]]]]]].
          -- left. exists st'. split; [exact I'|lia].
          -- right. exists st', k'. split; [exact I'|]. split; [lia|]. split; [exact Hc'|]. unfold scnt in *. cbn [count_occ]. destruct (Z.eq_dec c c); [lia|contradiction].
        * pose proof (scrit_other st c k y new Hc Hy Hg) as Hc1.
          destruct (IH s1 _ s' c k I1 Hc1 Hrest) as [[st' [I' Hlt]]|[st' [k' [I' [E' [Hc' Hcnt]]]]]].
          -- left. exists st'. split; [exact I'|lia].
          -- right. exists st', k'. split; [exact I'|]. split; [lia|]. split; [exact Hc'|]. unfold scnt in *. cbn [count_occ]. destruct (Z.eq_dec y c); [contradiction|exact Hcnt].
  Qed.

  (* a FAIR SEGMENT: every rank of the communicator has returned at its end or has moved at least twice in it *)
  Definition sfair_seg (ls : list Z) (s1 : pst) : Prop := forall r, 0 <= r < P -> (exists o, ppr s1 r = Ret o) \/ (2 <= scnt r ls)%nat.

  Lemma ssegment_productive ls s st s' : SInv s st -> srunl ls s s' -> (exists r, 0 <= r < P /\ is_done (st r) = false) -> sfair_seg ls s' ->
    exists st', SInv s' st' /\ (SRho st' < SRho st)%nat.
  Proof.
    intros I Hr Hnd Hfair. destruct (scrit_exists s st I Hnd) as [c [k Hc]].
    destruct (sidle_run ls s st s' c k I Hc Hr) as [H|[st' [k' [I' [_ [Hc' Hcnt]]]]]]; [exact H|exfalso].
    destruct (scrit_pos st c k Hc) as [Hk _]. destruct (scrit_pos st' c k' Hc') as [Hk' [Hcr [Hnd' Hno']]].
    destruct (Hfair c Hcr) as [[o Ho]|H2]; [|lia]. destruct (not_ret s' st' c I' Hcr Hnd') as [k0 [a Hk0]]. congruence.
  Qed.

  Inductive sfair_segs : nat -> pst -> pst -> Prop :=
  | sfs_nil s : sfair_segs 0 s s
  | sfs_cons k ls s s1 s2 : srunl ls s s1 -> sfair_seg ls s1 -> sfair_segs k s1 s2 -> sfair_segs (S k) s s2.

  Lemma all_done_final s st : SInv s st -> (forall r, 0 <= r < P -> is_done (st r) = true) -> pfinal s.
  Proof.
    intros I Hall r. rewrite (s_prog s st I r). destruct (Z_le_dec 0 r) as [H0|H0]; [destruct (Z_lt_dec r P) as [H1|H1]|].
    - specialize (Hall r (conj H0 H1)). destruct (st r) as [?|?|? ? ? ?|acc xacc|]; try discriminate. cbn [prog_of]. apply SK_ret.
    - rewrite (proj2 (s_out s st I r)) by lia. cbn [prog_of]. eauto.
    - rewrite (proj2 (s_out s st I r)) by lia. cbn [prog_of]. eauto.
  Qed.

  Lemma srunl_final ls s s' : pfinal s -> srunl ls s s' -> s' = s.
  Proof. intros Hf Hr. inversion Hr as [|? ? ? s1 ? Hs Hrest]; subst; [reflexivity|]. exfalso. eapply pfinal_no_step; eauto. Qed.
  Lemma sfair_segs_final k s s' : pfinal s -> sfair_segs k s s' -> s' = s.
  Proof. intros Hf H. induction H as [|k ls s s1 s2 Hr _ _ IH]; [reflexivity|]. rewrite (srunl_final ls s s1 Hf Hr) in IH. apply IH. exact Hf. Qed.

  Theorem sfair_final : forall k s st s', SInv s st -> sfair_segs k s s' -> (SRho st <= k)%nat -> pfinal s'.
  Proof.
    induction k as [|k IH]; intros s st s' I Hfs Hle.
    - inversion Hfs; subst. destruct (find_rank P (fun r => negb (is_done (st r)))) as [[r [Hr Hp]]|Hall].
      + exfalso. apply negb_true_iff in Hp.
        assert (H1 : (1 <= srho r (st r))%nat) by (unfold srho; destruct (st r) as [?|?|? ? ? ?|? ?|] eqn:E; try lia; try discriminate; exfalso; apply (proj1 (s_out s' st I r) E); exact Hr).
        assert (H2 : (srho r (st r) <= SRho st)%nat).
        { unfold SRho. pose proof (proj2 (in_ranks P r) Hr) as Hin. induction (ranks P) as [|x l IHl]; [contradiction|]. cbn [map list_sum fold_right].
          change (fold_right Nat.add 0%nat (map (fun r0 => srho r0 (st r0)) l)) with (list_sum (map (fun r0 => srho r0 (st r0)) l)).
          destruct Hin as [->|Hin]; [lia|specialize (IHl Hin); lia]. }
        lia.
      + apply (all_done_final s' st I). intros r Hr. specialize (Hall r Hr). apply negb_false_iff. exact Hall.
    - inversion Hfs as [|? ls ? s1 ? Hr Hfair Hrest]; subst.
      destruct (find_rank P (fun r => negb (is_done (st r)))) as [[r [Hr0 Hp]]|Hall].
      + apply negb_true_iff in Hp. destruct (ssegment_productive ls s st s1 I Hr (ex_intro _ r (conj Hr0 Hp)) Hfair) as [st1 [I1 Hlt]].
        apply (IH s1 st1 s' I1 Hrest). lia.
      + assert (Hf : pfinal s) by (apply (all_done_final s st I); intros r Hr0; specialize (Hall r Hr0); apply negb_false_iff; exact Hall).
        rewrite (sfair_segs_final (S k) s s' Hf Hfs). exact Hf.
  Qed.

  Lemma SRho_init : (SRho sst0 <= super_rounds)%nat.
  Proof.
    unfold SRho, super_rounds. apply SemRounds.list_sum_le. intros r Hr. apply in_ranks in Hr. unfold sst0. rewrite (proj2 (inr_spec P r) Hr).
    unfold next1. destruct (Nat.ltb_spec 0 (length (R r))); [unfold srho, need1, need2; cbn [unsent acc_of xacc_of length]; lia|].
    unfold enter2. destruct (Nat.ltb_spec 0 (length (extra r))); [unfold srho, need1, need2; cbn [unsent acc_of xacc_of length]; lia|].
    pose proof (srho_mkloop r fuel [] []) as H1. cbn [length] in H1. lia.
  Qed.

  (* NO ENDLESS POLLING UNDER FAIRNESS: a run from the initial state that consists of super_rounds fair segments - or more - ends final *)
  Theorem super_fair_termination k s : sfair_segs k super_sys s -> (super_rounds <= k)%nat -> pfinal s.
  Proof. intros H Hk. apply (sfair_final k super_sys sst0 s SInv_init H). pose proof SRho_init. lia. Qed.
End SuperSched.

(* the contract of the callback in the form of C01/SupersetProofs.v: its super senders are the ranks that list r together with the ranks
   whose extra receivers contain r, each once *)
Lemma contract_length P (R extra supers : Z -> list Z) :
  (forall r, 0 <= r < P -> Permutation (supers r) (transpose P R r ++ X P extra r)) ->
  forall r, 0 <= r < P -> length (supers r) = (length (T P R r) + length (X P extra r))%nat.
Proof. intros H r Hr. rewrite (Permutation_length (H r Hr)), app_length. reflexivity. Qed.

(* the system runs the program notify_prog gives for typ = 8 (superset) without payload *)
Lemma super_is_notify_prog fuel P me ntop nint nbot sorted (R : list Z) sz eager extra supers :
  notify_prog fuel 8 P me ntop nint nbot sorted R None sz eager extra supers = super_core fuel R None extra supers sorted (fun s g => Ret (result s g)).
Proof. destruct eager; reflexivity. Qed.
