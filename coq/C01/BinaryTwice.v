(* C01 - BACK-TO-BACK CALLS of the BINARY notify recursion ARE correct under every schedule (in contrast to the n-ary recursion,
   C01/BackToBack.v): every rank runs binary_core twice in sequence, with the same tags, on two arbitrary patterns R1, R2; in
   every run of the interleaving semantics with wildcard receives nothing deadlocks, every maximal run is finite, and in every
   final state every rank has returned the transposed list of R1 followed by the transposed list of R2; no message is left.

   Why the binary recursion composes: a level receives at most two messages, the first by a wildcard, the second from a NAMED
   source.  When the wildcard of call 1 is posted nothing of the level has been received, so the head of either source's FIFO
   channel is that source's message of call 1; the second receive names its source.  (The n-ary recursion posts several wildcards
   per level: after the first one, the head of the same source's channel may be a message of the NEXT call.)

   Instance of MPI/SemRounds.all_schedules with 2 n levels - level p < n is level p of call 1, level n + j is level j of call 2 -
   and the tag of level j in both calls; hypothesis Hcompat (shared tags) holds because the sources of a level depend only on
   (G, j, rank) and only the first receive of a level is a wildcard. *)
From Coq Require Import ZArith Lia List Bool Permutation.
From ScV Require Import Base.CInt MPI.Prog MPI.Sem MPI.SemAny MPI.SemRounds Gen.Consts Gen.NotifyC01 C01.NaryArith C01.BinaryArith
     C01.MergeModel C01.MergeProofs C01.NotifyProgs C01.NotifyProgProofs C01.RecordOps C01.BinaryRound C01.NaryRound C01.NarySched C01.BinarySched
     C01.BackToBack.
Import ListNotations.
Local Open Scope Z_scope.

(* feeding replies to two programs in sequence *)
Lemma feed_bind : forall p rs1 a1 o1 rs2 f, feed rs1 p = (a1, Some o1) -> length a1 = length rs1 ->
  feed (rs1 ++ rs2) (bind p f) = let '(a2, o2) := feed rs2 (f o1) in (a1 ++ a2, o2).
Proof.
  induction p as [o|a k IH]; intros rs1 a1 o1 rs2 f H Hlen.
  - assert (E : a1 = [] /\ o1 = o) by (destruct rs1; cbn in H; inversion H; auto). destruct E as [-> ->].
    destruct rs1; [|cbn [length] in Hlen; lia]. cbn [app bind]. destruct (feed rs2 (f o)). reflexivity.
  - destruct rs1 as [|r rs1]; cbn [feed] in H; [discriminate|]. destruct (feed rs1 (k r)) as [acts o'] eqn:E. inversion H; subst.
    cbn [length] in Hlen. cbn [app bind feed]. rewrite (IH r rs1 acts o1 rs2 f E ltac:(lia)). destruct (feed rs2 (f o1)). reflexivity.
Qed.

Lemma seq_add_map n : forall m s, seq (n + s) m = map (fun j => (n + j)%nat) (seq s m).
Proof. induction m as [|m IH]; intros s; [reflexivity|]. cbn [seq map]. f_equal. rewrite <- IH. f_equal. lia. Qed.

Lemma flat_map_map {A B C} (f : B -> list C) (g : A -> B) l : flat_map f (map g l) = flat_map (fun x => f (g x)) l.
Proof. induction l as [|x l IH]; [reflexivity|]. cbn [map flat_map]. rewrite IH. reflexivity. Qed.

Section BinaryTwice.
  Variable G : Z.
  Variables R1 R2 : Z -> list Z.
  Variable n : nat.                                 (* levels of one call: binary_pow2length G = 2 ^ n *)
  Hypothesis HG : 0 < G <= BIG.
  Hypothesis HnB : 2 ^ Z.of_nat n <= BIG.

  Definition jof (p : nat) : nat := if Nat.ltb p n then p else (p - n)%nat.
  Definition Rof (p : nat) : Z -> list Z := if Nat.ltb p n then R1 else R2.
  Definition tsendsI (r : Z) (p : nat) : list (Z * payload) := bsendsI G (Rof p) r (jof p).
  Definition tsrcsI (r : Z) (p : nat) : list Z := bsrcsI G r (jof p).
  Definition twireI (p : nat) (q r : Z) : payload := bwireI G (Rof p) (jof p) q r.
  Definition ttagI (p : nat) : Z := ltag (jof p).
  Definition twice_steps : nat := total_len (n + n) tsendsI tsrcsI (ranks G).

  Definition twice_prog (r : Z) : prog :=
    if inr G r then twice (binary_core G r (R1 r) None (fun s g => Ret (result s g))) (binary_core G r (R2 r) None (fun s g => Ret (result s g)))
    else Ret [].
  Definition twice_out (r : Z) : payload := if inr G r then result (transpose G R1 r) [] ++ result (transpose G R2 r) [] else [].

  Lemma jof_lt p : (p < n + n)%nat -> (jof p < n)%nat.
  Proof. intros Hp. unfold jof. destruct (Nat.ltb_spec p n); lia. Qed.

  Lemma T_out r l : ~ In r (ranks G) -> tsendsI r l = [] /\ tsrcsI r l = [].
  Proof. intros Hr. apply B_out. exact Hr. Qed.

  Lemma T_compat r p p' : (p < p')%nat -> (p' < n + n)%nat -> ttagI p = ttagI p' ->
    (forall q, In q (tsrcsI r p') -> In q (tsrcsI r p)) /\ (forall i, bnamedI r p i = false -> i = 0%nat).
  Proof.
    intros _ _ E. apply ltag_inj in E. split.
    - unfold tsrcsI. rewrite E. auto.
    - intros i Hi. unfold bnamedI in Hi. destruct (Nat.eqb_spec i 0); [assumption|discriminate].
  Qed.

  Lemma T_dst r l : NoDup (map fst (tsendsI r l)).   Proof. apply B_dst. Qed.
  Lemma T_src r l : (l < n + n)%nat -> NoDup (tsrcsI r l).   Proof. intros Hl. apply (B_src G n HG HnB). apply jof_lt. exact Hl. Qed.
  Lemma T_src0 r l q : (l < n + n)%nat -> In q (tsrcsI r l) -> 0 <= q.   Proof. intros Hl. apply (B_src0 G n HG HnB). apply jof_lt. exact Hl. Qed.
  Lemma T_match1 q l d m : (l < n + n)%nat -> In (d, m) (tsendsI q l) -> In q (tsrcsI d l) /\ m = twireI l q d.
  Proof. intros Hl. apply (B_match1 G (Rof l) n HG HnB). apply jof_lt. exact Hl. Qed.
  Lemma T_match2 r l q : (l < n + n)%nat -> In q (tsrcsI r l) -> In (r, twireI l q r) (tsendsI q l).
  Proof. intros Hl. apply (B_match2 G (Rof l) n HG HnB). apply jof_lt. exact Hl. Qed.

  (* the two halves of a script are the histories of the two calls *)
  Definition f2 (ord : nat -> list Z) (c : nat) (j : nat) (me : Z) : bool := negb (hd 0 (ord (c + j)%nat) =? bpeer (Z.of_nat j) G me).

  Lemma tsrcs_perm r ord p : 0 <= r < G -> (p < n + n)%nat -> valid (n + n) tsrcsI r ord -> Permutation (ord p) (lvl_srcs G (jof p) r false).
  Proof. intros Hr Hp Hv. pose proof (Hv p Hp) as H. unfold tsrcsI, bsrcsI in H. apply inr_spec in Hr. rewrite Hr in H. exact H. Qed.

  Lemma script_halves r ord :
    script (n + n) tsendsI bnamedI r ord =
    flat_map (lvl_items tsendsI bnamedI r ord) (seq 0 n) ++ flat_map (fun j => lvl_items tsendsI bnamedI r ord (n + j)) (seq 0 n).
  Proof.
    unfold script. rewrite seq_app, flat_map_app. cbn [Nat.add]. f_equal.
    replace (seq n n) with (seq (n + 0) n) by (rewrite Nat.add_0_r; reflexivity). rewrite seq_add_map, flat_map_map. reflexivity.
  Qed.

  Lemma jof1 j : (j < n)%nat -> jof j = j /\ Rof j = R1.
  Proof. intros Hj. unfold jof, Rof. destruct (Nat.ltb_spec j n); [auto|lia]. Qed.
  Lemma jof2 j : jof (n + j) = j /\ Rof (n + j) = R2.
  Proof. unfold jof, Rof. destruct (Nat.ltb_spec (n + j) n); [lia|]. split; [lia|reflexivity]. Qed.

  Lemma half1_replies r ord : 0 <= r < G -> valid (n + n) tsrcsI r ord ->
    map (reply_of twireI r) (flat_map (lvl_items tsendsI bnamedI r ord) (seq 0 n)) = levels_replies G R1 (f2 ord 0) 0 n r.
  Proof.
    intros Hr Hv. rewrite map_flat_map, levels_replies_flat. apply flat_map_ext_in. intros j Hj. apply in_seq in Hj.
    destruct (jof1 j ltac:(lia)) as [E1 E2]. unfold lvl_items, f2, tsendsI. rewrite E1, E2. cbn [Nat.add].
    apply (blevel_replies G R1 n HG HnB); [exact Hr|lia|intros q; unfold twireI; rewrite E1, E2; reflexivity|].
    rewrite <- E1 at 2. apply tsrcs_perm; [exact Hr|lia|exact Hv].
  Qed.
  Lemma half1_acts r ord : 0 <= r < G -> valid (n + n) tsrcsI r ord ->
    map (act_of ttagI) (flat_map (lvl_items tsendsI bnamedI r ord) (seq 0 n)) = levels_acts G R1 (f2 ord 0) 0 n r.
  Proof.
    intros Hr Hv. rewrite map_flat_map, levels_acts_flat. apply flat_map_ext_in. intros j Hj. apply in_seq in Hj.
    destruct (jof1 j ltac:(lia)) as [E1 E2]. unfold lvl_items, f2, tsendsI. rewrite E1, E2. cbn [Nat.add].
    apply (blevel_acts G R1 n HG HnB); [exact Hr|lia|unfold ttagI; rewrite E1; reflexivity|reflexivity|reflexivity|].
    rewrite <- E1 at 2. apply tsrcs_perm; [exact Hr|lia|exact Hv].
  Qed.
  Lemma half2_replies r ord : 0 <= r < G -> valid (n + n) tsrcsI r ord ->
    map (reply_of twireI r) (flat_map (fun j => lvl_items tsendsI bnamedI r ord (n + j)) (seq 0 n)) = levels_replies G R2 (f2 ord n) 0 n r.
  Proof.
    intros Hr Hv. rewrite map_flat_map, levels_replies_flat. apply flat_map_ext_in. intros j Hj. apply in_seq in Hj.
    destruct (jof2 j) as [E1 E2]. unfold lvl_items, f2, tsendsI. rewrite E1, E2.
    apply (blevel_replies G R2 n HG HnB); [exact Hr|lia|intros q; unfold twireI; rewrite E1, E2; reflexivity|].
    rewrite <- E1 at 2. apply tsrcs_perm; [exact Hr|lia|exact Hv].
  Qed.
  Lemma half2_acts r ord : 0 <= r < G -> valid (n + n) tsrcsI r ord ->
    map (act_of ttagI) (flat_map (fun j => lvl_items tsendsI bnamedI r ord (n + j)) (seq 0 n)) = levels_acts G R2 (f2 ord n) 0 n r.
  Proof.
    intros Hr Hv. rewrite map_flat_map, levels_acts_flat. apply flat_map_ext_in. intros j Hj. apply in_seq in Hj.
    destruct (jof2 j) as [E1 E2]. unfold lvl_items, f2, tsendsI. rewrite E1, E2.
    apply (blevel_acts G R2 n HG HnB); [exact Hr|lia|unfold ttagI; rewrite E1; reflexivity|reflexivity|reflexivity|].
    rewrite <- E1 at 2. apply tsrcs_perm; [exact Hr|lia|exact Hv].
  Qed.

  Lemma twice_steps_le : (twice_steps <= Z.to_nat G * (3 * (n + n)))%nat.
  Proof.
    unfold twice_steps. rewrite <- (ranks_length G). rewrite <- (list_sum_const 3 (n + n) 0).
    apply total_len_bound. intros r l _ _. cbv beta. unfold tsendsI, tsrcsI, bsendsI, bsrcsI. destruct (inr G r); [|cbn; lia].
    assert (H1 : (length (if (0 <=? bpeer (Z.of_nat (jof l)) G r)%Z then [(bpeer (Z.of_nat (jof l)) G r, wire G (Rof l) (jof l) r)] else []) <= 1)%nat)
      by (destruct (0 <=? _)%Z; cbn; lia).
    assert (H2 : (length (lvl_srcs G (jof l) r false) <= 2)%nat)
      by (unfold lvl_srcs; cbv zeta; destruct (bstart _ _ <=? _)%Z; [destruct (0 <=? bpeer2 _ _ _)%Z|]; cbn; lia).
    exact (Nat.add_le_mono _ _ _ _ H1 H2).
  Qed.
End BinaryTwice.

Theorem binary_back_to_back G (R1 R2 : Z -> list Z) :
  0 < G <= BIG ->
  (forall f, 0 <= f < G -> ssorted (fun x => x) (R1 f) /\ forall t, In t (R1 f) -> 0 <= t < G) ->
  (forall f, 0 <= f < G -> ssorted (fun x => x) (R2 f) /\ forall t, In t (R2 f) -> 0 <= t < G) ->
  exists n : nat, binary_pow2length G = 2 ^ Z.of_nat n /\
  forall k s, run_a k (binary_sys2 G R1 R2) s ->
    ~ stuck s /\
    (k <= twice_steps G R1 R2 n)%nat /\
    (final s <-> k = twice_steps G R1 R2 n) /\
    (final s -> (forall r, 0 <= r < G -> pr s r = Ret (result (transpose G R1 r) [] ++ result (transpose G R2 r) [])) /\
                (forall a b t, ch s a b t = [])).
Proof.
  intros HG HR1 HR2. destruct (pow2length_levels G HG) as [n [Hn [HB [HP H29]]]]. exists n. split; [exact Hn|].
  assert (HroundI : forall r ord, valid (n + n) (tsrcsI G n) r ord ->
            feed (map (reply_of (twireI G R1 R2 n) r) (script (n + n) (tsendsI G R1 R2 n) bnamedI r ord)) (twice_prog G R1 R2 r) =
            (map (act_of (ttagI n)) (script (n + n) (tsendsI G R1 R2 n) bnamedI r ord), Some (twice_out G R1 R2 r))).
  { intros r ord Hv. unfold twice_prog, twice_out. destruct (inr G r) eqn:E.
    - apply inr_spec in E. rewrite script_halves, !map_app.
      rewrite (half1_replies G R1 R2 n HG HB r ord E Hv), (half2_replies G R1 R2 n HG HB r ord E Hv).
      rewrite (half1_acts G R1 R2 n HG HB r ord E Hv), (half2_acts G R1 R2 n HG HB r ord E Hv).
      pose proof (binary_round_semantics G R1 HG HR1 (f2 G ord 0) n Hn HB HP ltac:(lia) r E) as H1.
      pose proof (binary_round_semantics G R2 HG HR2 (f2 G ord n) n Hn HB HP ltac:(lia) r E) as H2.
      rewrite <- feed_run in H1, H2.
      assert (L1 : length (levels_acts G R1 (f2 G ord 0) 0 n r) = length (levels_replies G R1 (f2 G ord 0) 0 n r)).
      { rewrite <- (half1_replies G R1 R2 n HG HB r ord E Hv), <- (half1_acts G R1 R2 n HG HB r ord E Hv), !map_length. reflexivity. }
      assert (L2 : length (levels_acts G R2 (f2 G ord n) 0 n r) = length (levels_replies G R2 (f2 G ord n) 0 n r)).
      { rewrite <- (half2_replies G R1 R2 n HG HB r ord E Hv), <- (half2_acts G R1 R2 n HG HB r ord E Hv), !map_length. reflexivity. }
      unfold twice. rewrite (feed_bind _ _ _ _ _ _ H1 L1).
      rewrite <- (app_nil_r (levels_replies G R2 (f2 G ord n) 0 n r)). rewrite (feed_bind _ _ _ _ _ _ H2 L2). cbn [feed].
      rewrite app_nil_r. reflexivity.
    - assert (Hs : script (n + n) (tsendsI G R1 R2 n) bnamedI r ord = []).
      { apply (script_out (n + n) (tsendsI G R1 R2 n) (tsrcsI G n) bnamedI (ranks G) (T_out G R1 R2 n) r ord); [|exact Hv].
        intros Hin. apply inr_ranks in Hin. congruence. }
      rewrite Hs. reflexivity. }
  intros k s Hrun.
  pose proof (all_schedules (n + n) (ttagI n) (tsendsI G R1 R2 n) (tsrcsI G n) (twireI G R1 R2 n) bnamedI (twice_prog G R1 R2) (twice_out G R1 R2)
                (ranks G) (ranks_NoDup G) (T_out G R1 R2 n) (T_compat G n) (fun r l _ => T_dst G R1 R2 n r l) (T_src G n HG HB) (T_src0 G n HG HB)
                (T_match1 G R1 R2 n HG HB) (T_match2 G R1 R2 n HG HB) HroundI k s Hrun) as [A [B [C E]]].
  split; [exact A|]. split; [exact B|]. split; [exact C|]. intros Hf. destruct (E Hf) as [E1 E2]. split; [|exact E2].
  intros r Hr. rewrite E1. unfold twice_out. apply inr_spec in Hr. rewrite Hr. reflexivity.
Qed.
