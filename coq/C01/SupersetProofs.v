(* C01/C02 - the superset program (sc_notify_payload_superset), NotifyProgs.super_core / super_loop, the program co-simulated
   with the real code.  The callback compute_superset is a parameter of the program (extra receivers, super senders).
   (1) exit condition: the polling loop returns only after as many successful polls (TRUE or EXTRA tag) as the callback
       announced super senders;
   (2) round semantics under the contract of the callback (its super senders are exactly the ranks that list me plus the
       ranks whose extra receivers contain me): if the polls deliver the TRUE messages of the ranks that listed me and
       the EXTRA messages of the others, each once, in any order and with any number of empty polls in between, the
       result is the transposed pattern with the items. *)
From Coq Require Import ZArith Lia List Bool Permutation.
From ScV Require Import Base.CInt MPI.Prog Gen.Consts C01.MergeModel C01.MergeProofs C01.NotifyProgs C01.NotifyProgProofs C01.NbxProofs.
Import ListNotations.
Local Open Scope Z_scope.

(* ---- (1) exit condition ----------------------------------------------------------------------------------------------------- *)
Inductive sexits : Z -> list payload -> Prop :=
| sx_done q rest : q <= 0 -> sexits q rest
| sx_true q r rs : 0 < q -> 0 <= hd 0 r -> sexits (q - 1) rs -> sexits q (r :: rs)
| sx_extra q r e rs : 0 < q -> hd 0 r < 0 -> 0 <= hd 0 e -> sexits (q - 1) rs -> sexits q (r :: e :: rs)
| sx_none q r e rs : 0 < q -> hd 0 r < 0 -> hd 0 e < 0 -> sexits q rs -> sexits q (r :: e :: rs).

Theorem super_exit_skeleton (g : list (Z * payload) -> payload) : forall fuel rs queue acc out,
  snd (run rs (super_loop fuel queue acc (fun got => Ret (g got)))) = Some out ->
  sexits queue rs \/ In fuel_mark (fst (run rs (super_loop fuel queue acc (fun got => Ret (g got))))).
Proof.
  induction fuel as [|f IH]; intros rs queue acc out H.
  - right. destruct rs as [|r [|r' rs]]; cbn [super_loop run fst In]; left; reflexivity.
  - cbn [super_loop] in *. destruct (queue <=? 0) eqn:Eq; [left; apply sx_done; lia|].
    destruct rs as [|r rs]; [discriminate|]. cbn [run] in *.
    destruct (hd 0 r <? 0) eqn:Er.
    + destruct rs as [|e rs]; [discriminate|]. cbn [run] in *. destruct (hd 0 e <? 0) eqn:Ee.
      * destruct (run rs (super_loop f queue acc (fun got => Ret (g got)))) as [a o] eqn:E. cbn [snd fst] in *.
        specialize (IH rs queue acc out). rewrite E in IH. cbn [snd fst] in IH. destruct (IH H) as [Hx|Hm].
        -- left. apply sx_none; try lia. exact Hx.
        -- right. cbn [In]. auto.
      * destruct (run rs (super_loop f (queue - 1) acc (fun got => Ret (g got)))) as [a o] eqn:E. cbn [snd fst] in *.
        specialize (IH rs (queue - 1) acc out). rewrite E in IH. cbn [snd fst] in IH. destruct (IH H) as [Hx|Hm].
        -- left. apply sx_extra; try lia. exact Hx.
        -- right. cbn [In]. auto.
    + destruct (run rs (super_loop f (queue - 1) ((hd 0 r, tl r) :: acc) (fun got => Ret (g got)))) as [a o] eqn:E. cbn [snd fst] in *.
      specialize (IH rs (queue - 1) ((hd 0 r, tl r) :: acc) out). rewrite E in IH. cbn [snd fst] in IH. destruct (IH H) as [Hx|Hm].
      * left. apply sx_true; try lia. exact Hx.
      * right. cbn [In]. auto.
Qed.

(* ---- (2) round semantics ------------------------------------------------------------------------------------------------------ *)
(* outcome of one pass of the loop body *)
Inductive outcome := OTrue (s : Z) (d : payload) | OExtra (s : Z) | ONone.

Definition o_replies (o : outcome) : list payload :=
  match o with OTrue s d => [s :: d] | OExtra s => [[-1]; [s]] | ONone => [[-1]; [-1]] end.
Definition o_acts (o : outcome) : list act :=
  match o with
  | OTrue _ _ => [Recv ANY c_SC_TAG_NOTIFY_SUPER_TRUE]
  | _ => [Recv ANY c_SC_TAG_NOTIFY_SUPER_TRUE; Recv ANY c_SC_TAG_NOTIFY_SUPER_EXTRA]
  end.
Definition o_true (o : outcome) : list (Z * payload) := match o with OTrue s d => [(s, d)] | _ => [] end.
Definition o_extra (o : outcome) : list Z := match o with OExtra s => [s] | _ => [] end.
Definition o_succ (o : outcome) : Z := match o with ONone => 0 | _ => 1 end.
Definition o_nonneg (o : outcome) : Prop := match o with OTrue s _ => 0 <= s | OExtra s => 0 <= s | ONone => True end.

Fixpoint succ_total (its : list outcome) : Z := match its with [] => 0 | o :: r => o_succ o + succ_total r end.
(* the loop stops right after the last successful poll *)
Fixpoint no_trailing_none (its : list outcome) : Prop :=
  match its with [] => True | [ONone] => False | _ :: r => no_trailing_none r end.

Lemma succ_total_nonneg its : 0 <= succ_total its.
Proof. induction its as [|o r IH]; cbn [succ_total]; [lia|]. destruct o; cbn [o_succ]; lia. Qed.

Lemma trailing_succ o r : no_trailing_none (o :: r) -> o = ONone -> 0 < succ_total r.
Proof.
  intros H ->. destruct r as [|o' r']; [exact (False_ind _ H)|].
  revert o' H. induction r' as [|o'' r'' IH]; intros o' H.
  - destruct o'; cbn [succ_total o_succ]; try lia. exact (False_ind _ H).
  - cbn [succ_total]. pose proof (succ_total_nonneg (o'' :: r'')) as Hs. cbn [succ_total] in Hs.
    destruct o'; cbn [o_succ]; try lia. specialize (IH o'' H). cbn [succ_total] in IH. lia.
Qed.

Lemma run_super_loop (k : list (Z * payload) -> prog) : forall its fuel acc rest,
  (length its < fuel)%nat -> Forall o_nonneg its -> no_trailing_none its ->
  run (flat_map o_replies its ++ rest) (super_loop fuel (succ_total its) acc k) =
  let '(a, o) := run rest (k (rev acc ++ flat_map o_true its)) in (flat_map o_acts its ++ a, o).
Proof.
  induction its as [|o its IH]; intros fuel acc rest Hf Hn Ht.
  - destruct fuel as [|f]; [simpl in Hf; lia|]. cbn [succ_total flat_map app super_loop]. change (0 <=? 0) with true. cbv iota. rewrite app_nil_r.
    destruct (run rest (k (rev acc))). reflexivity.
  - destruct fuel as [|f]; [simpl in Hf; lia|]. inversion Hn as [|? ? Ho Hn']; subst.
    assert (Htr : no_trailing_none its) by (destruct o, its as [|o' r']; simpl in *; auto; contradiction).
    pose proof (succ_total_nonneg its) as Hs.
    destruct o as [s d|s|]; cbn [succ_total o_succ flat_map o_replies o_acts o_true app super_loop].
    + replace (1 + succ_total its <=? 0) with false by lia. cbn [run hd tl]. simpl in Ho. replace (s <? 0) with false by lia.
      replace (1 + succ_total its - 1) with (succ_total its) by lia.
      rewrite IH by (try assumption; simpl in Hf; lia). cbn [rev]. rewrite <- app_assoc. cbn [app].
      unfold payload in *. match goal with |- context [run rest ?X] => destruct (run rest X) end. reflexivity.
    + replace (1 + succ_total its <=? 0) with false by lia. cbn [run hd]. change (-1 <? 0) with true. cbn [run hd]. simpl in Ho. replace (s <? 0) with false by lia.
      replace (1 + succ_total its - 1) with (succ_total its) by lia.
      rewrite IH by (try assumption; simpl in Hf; lia).
      unfold payload in *. match goal with |- context [run rest ?X] => destruct (run rest X) end. reflexivity.
    + pose proof (trailing_succ ONone its Ht eq_refl) as Hpos.
      replace (0 + succ_total its <=? 0) with false by lia. cbn [run hd]. change (-1 <? 0) with true. cbn [run hd]. change (-1 <? 0) with true.
      replace (0 + succ_total its) with (succ_total its) by lia.
      rewrite IH by (try assumption; simpl in Hf; lia).
      unfold payload in *. match goal with |- context [run rest ?X] => destruct (run rest X) end. reflexivity.
Qed.

Section SupersetRound.
  Variable P : Z.
  Variable R : Z -> list Z.
  Variable pay : Z -> Z -> payload.
  (* the callback: extra receivers of every rank and the announced super senders of me *)
  Variable extra : Z -> list Z.
  Variable supers : list Z.
  Variable me : Z.
  Hypothesis Hme : 0 <= me < P.
  (* the ranks that contact me only because of the callback *)
  Variable xs : list Z.
  (* CONTRACT of compute_superset: its super senders are the ranks that list me together with the ranks whose extra
     receivers contain me, each once *)
  Hypothesis Hcontract : Permutation supers (transpose P R me ++ xs).

  Variable its : list outcome.
  Variable order xorder : list Z.

  Theorem superset_round (sorted : bool) fuel :
    Permutation order (transpose P R me) -> Permutation xorder xs ->
    flat_map o_true its = map (fun s => (s, pay s me)) order -> flat_map o_extra its = xorder ->
    Forall o_nonneg its -> no_trailing_none its -> (length its < fuel)%nat ->
    let final := if sorted then transpose P R me else order in
    run (repeat [] (length (R me)) ++ repeat [] (length (extra me)) ++ flat_map o_replies its)
        (super_core fuel (R me) (Some (map (pay me) (R me))) (extra me) supers sorted (fun s g => Ret (result s g)))
    = (map (fun r => Send r c_SC_TAG_NOTIFY_SUPER_TRUE (pay me r)) (R me)
         ++ map (fun q => Send q c_SC_TAG_NOTIFY_SUPER_EXTRA []) (extra me) ++ flat_map o_acts its,
       Some (result final (map (fun s => pay s me) final))).
  Proof.
    intros Hperm Hxperm Htrue Hextra Hnn Htr Hfuel final. unfold super_core. rewrite zip_map_l.
    set (S1 := map (fun rp : Z * payload => (fst rp, c_SC_TAG_NOTIFY_SUPER_TRUE, snd rp)) (map (fun x => (x, pay me x)) (R me))).
    set (S2 := map (fun q : Z => (q, c_SC_TAG_NOTIFY_SUPER_EXTRA, @nil Z)) (extra me)).
    assert (H1 : length S1 = length (R me)) by (unfold S1; rewrite !map_length; reflexivity).
    assert (H2 : length S2 = length (extra me)) by (unfold S2; rewrite map_length; reflexivity).
    rewrite <- H1, run_do_sends. rewrite <- H2, run_do_sends.
    (* the queue length announced by the callback = number of successful polls of the schedule *)
    assert (Hq : Z.of_nat (length supers) = succ_total its).
    { rewrite (Permutation_length Hcontract), app_length, <- (Permutation_length Hperm), <- (Permutation_length Hxperm), <- Hextra.
      replace (length order) with (length (flat_map o_true its)) by (rewrite Htrue, map_length; reflexivity).
      clear. induction its as [|o r IH]; [reflexivity|]. cbn [flat_map succ_total]. rewrite !app_length.
      destruct o; cbn [o_true o_extra o_succ length]; lia. }
    rewrite Hq. rewrite <- (app_nil_r (flat_map o_replies its)).
    rewrite (run_super_loop _ its fuel [] [] Hfuel Hnn Htr). cbn [rev app]. rewrite Htrue.
    assert (Hgot : (if sorted then sort_by_src (map (fun s => (s, pay s me)) order) else map (fun s => (s, pay s me)) order)
                   = map (fun s => (s, pay s me)) final).
    { unfold final. destruct sorted; [|reflexivity]. apply (sort_arrivals (fun s => pay s me)); [apply transpose_ssorted|assumption]. }
    rewrite Hgot. cbn [run]. rewrite !app_nil_r. unfold S1, S2. rewrite !map_map. cbn [fst snd]. rewrite map_id. reflexivity.
  Qed.
End SupersetRound.
