(* C01/C02 - HISTORIES ON ONE NOTIFY OBJECT.  State model of sc_notify_t under reconfiguration between rounds
   (sc_notify_new, sc_notify_set_type, sc_notify_nary_set_widths, sc_notify_ranges_set_num_ranges,
   sc_notify_set_eager_threshold, sc_notify_superset_set_callback) and the round a call of sc_notify_payload executes in a
   given state.  The transitions are BUILT FROM THE GENERATED DEFINITIONS of Gen/NotifyCfgC01.v (whole bodies of the setters,
   of sc_notify_set_type, sc_notify_nary_init, sc_notify_ranges_init; the parameter reads of sc_notify_payload_nary; the
   eager test of sc_notify_payload), so an edit of those functions changes this model.

   Statement: a round depends only on the parameters in force - for every legal history h on one object, the round after h
   is the round of a FRESH object that was configured once with the parameters h left in force (reconfig_round_fresh); the
   object has no other state a round could see (footprint_frame: the round functions write no field of the object).

   Not modelled: the union `data` overlays the n-ary / ranges / superset fields (they are separate fields here; a legal
   history reads a type's fields only while the object has that type, and a type change to n-ary / ranges initialises
   them); statistics (stats, flop).  The extracted obj_run / obj_obs are compared with the getters of the real object after
   every prefix of every generated history, and obj_round is co-simulated against every round (checks/notify_common.py,
   history_tie). *)
From Coq Require Import ZArith List Bool Lia String.
From ScV Require Import Base.CInt MPI.Prog Gen.NotifyCfgC01 C01.NotifyProgs.
Import ListNotations.
Local Open Scope Z_scope.

(* what the object does not own: communicator (size, own rank) and the global defaults at the time of the calls *)
Record nenv := mk_nenv { e_P : Z; e_me : Z; e_type_default : Z; e_thresh_default : Z;
                         e_ntop_default : Z; e_nint_default : Z; e_nbot_default : Z; e_nranges_default : Z }.

Record nobj := mk_nobj { o_type : Z; o_thresh : Z; o_mpisize : Z; o_mpirank : Z; o_ntop : Z; o_nint : Z; o_nbot : Z;
                         o_nranges : Z; o_cb : Z; o_ctx : Z }.

Inductive nop :=
| OpType (t : Z)                    (* sc_notify_set_type *)
| OpWidths (a b c : Z)              (* sc_notify_nary_set_widths *)
| OpRanges (n : Z)                  (* sc_notify_ranges_set_num_ranges *)
| OpThresh (n : Z)                  (* sc_notify_set_eager_threshold *)
| OpCallback (f ctx : Z)            (* sc_notify_superset_set_callback *)
| OpNew.                            (* sc_notify_destroy; sc_notify_new *)

Definition with_widths (o : nobj) (w : Z * Z * Z) : nobj :=
  let '(a, b, c) := w in
  mk_nobj (o_type o) (o_thresh o) (o_mpisize o) (o_mpirank o) a b c (o_nranges o) (o_cb o) (o_ctx o).

(* sc_notify_nary_init: generated; the call of sc_notify_nary_set_widths inside it is the generated setter again *)
Definition obj_nary_init (e : nenv) (o : nobj) : nobj :=
  let '(_, sz, rk, called, a1, a2, a3) := cfg_nary_init 0 (e_P e) (e_me e) (e_ntop_default e) (e_nint_default e) (e_nbot_default e) in
  let o1 := mk_nobj (o_type o) (o_thresh o) sz rk (o_ntop o) (o_nint o) (o_nbot o) (o_nranges o) (o_cb o) (o_ctx o) in
  if called =? 1 then with_widths o1 (cfg_set_widths a1 a2 a3) else o1.

Definition obj_ranges_init (e : nenv) (o : nobj) : nobj :=
  let '(n, _) := cfg_ranges_init (e_nranges_default e) 0 in
  mk_nobj (o_type o) (o_thresh o) (o_mpisize o) (o_mpirank o) (o_ntop o) (o_nint o) (o_nbot o) n (o_cb o) (o_ctx o).

Definition obj_set_type (e : nenv) (o : nobj) (t : Z) : nobj :=
  let '(ty, cn, cr, _) := cfg_set_type (o_type o) t (e_type_default e) in
  let o1 := mk_nobj ty (o_thresh o) (o_mpisize o) (o_mpirank o) (o_ntop o) (o_nint o) (o_nbot o) (o_nranges o) (o_cb o) (o_ctx o) in
  let o2 := if cn =? 1 then obj_nary_init e o1 else o1 in
  if cr =? 1 then obj_ranges_init e o2 else o2.

(* sc_notify_new: zeroed memory, type = SC_NOTIFY_DEFAULT, the default threshold, then set_type (default type) *)
Definition obj_new (e : nenv) : nobj :=
  obj_set_type e (mk_nobj cfg_SC_NOTIFY_DEFAULT (e_thresh_default e) 0 0 0 0 0 0 0 0) (e_type_default e).

Definition obj_step (e : nenv) (o : nobj) (op : nop) : nobj :=
  match op with
  | OpType t => obj_set_type e o t
  | OpWidths a b c => with_widths o (cfg_set_widths a b c)
  | OpRanges n => mk_nobj (o_type o) (o_thresh o) (o_mpisize o) (o_mpirank o) (o_ntop o) (o_nint o) (o_nbot o) (cfg_set_num_ranges n) (o_cb o) (o_ctx o)
  | OpThresh n => mk_nobj (o_type o) (cfg_set_eager_threshold n) (o_mpisize o) (o_mpirank o) (o_ntop o) (o_nint o) (o_nbot o) (o_nranges o) (o_cb o) (o_ctx o)
  | OpCallback f c => let '(f', c') := cfg_set_callback f c in
                      mk_nobj (o_type o) (o_thresh o) (o_mpisize o) (o_mpirank o) (o_ntop o) (o_nint o) (o_nbot o) (o_nranges o) f' c'
  | OpNew => obj_new e
  end.

Definition obj_run (e : nenv) (h : list nop) : nobj := fold_left (obj_step e) h (obj_new e).

(* what the getters show: type, threshold, the parameters of the current type (n-ary: widths; ranges: number of ranges;
   superset: the callback's context; -1 in the last place otherwise) *)
Definition obj_obs (o : nobj) : list Z :=
  [o_type o; o_thresh o] ++
  (if o_type o =? 2 then [o_ntop o; o_nint o; o_nbot o] else if o_type o =? 7 then [o_nranges o; 0; 0] else [0; 0; 0]) ++
  [if o_type o =? 8 then o_ctx o else -1].

(* THE ROUND executed by sc_notify_payload in state o: the n-ary algorithm takes size, rank and widths from the object's
   n-ary data (generated reads), ranges its number of ranges; the eager decision is the generated test of the dispatcher *)
Definition obj_round (fuel : nat) (e : nenv) (o : nobj) (sorted : bool) (R : list Z) (pays : option (list payload)) (sz : Z)
           (extra supers : list Z) : prog :=
  let eager := match pays with None => false | Some _ => z2b (cfg_eager 1 sz (o_thresh o)) end in
  if o_type o =? 2 then
    let '(ms, mr, a, b, c) := cfg_nary_read (o_mpisize o) (o_mpirank o) (o_ntop o) (o_nint o) (o_nbot o) in
    notify_prog fuel 2 ms mr a b c sorted R pays sz eager extra supers
  else if o_type o =? 7 then notify_prog fuel 7 (e_P e) (e_me e) (o_nranges o) 0 0 sorted R pays sz eager extra supers
  else notify_prog fuel (o_type o) (e_P e) (e_me e) 0 0 0 sorted R pays sz eager extra supers.

Definition obj_round_hist (fuel : nat) (e : nenv) (h : list nop) := obj_round fuel e (obj_run e h).

(* ---- the generated definitions are what the hand-written reading of the code says ------------------------------------ *)
Lemma gen_set_widths a b c : cfg_set_widths a b c = (a, b, c).  Proof. reflexivity. Qed.
Lemma gen_set_num_ranges n : cfg_set_num_ranges n = n.  Proof. reflexivity. Qed.
Lemma gen_set_eager_threshold n : cfg_set_eager_threshold n = n.  Proof. reflexivity. Qed.
Lemma gen_set_callback f c : cfg_set_callback f c = (f, c).  Proof. reflexivity. Qed.
Lemma gen_nary_init comm P me a b c : cfg_nary_init comm P me a b c = (comm, P, me, 1, a, b, c).  Proof. reflexivity. Qed.
Lemma gen_ranges_init d pk : cfg_ranges_init d pk = (d, pk).  Proof. reflexivity. Qed.
Lemma gen_nary_read ms mr a b c : cfg_nary_read ms mr a b c = (ms, mr, a, b, c).  Proof. reflexivity. Qed.
Lemma gen_eager p sz thr : cfg_eager p sz thr = b2z (z2b p && (sz <=? thr)).  Proof. reflexivity. Qed.
Lemma gen_enumerators :
  [cfg_SC_NOTIFY_DEFAULT; cfg_SC_NOTIFY_ALLGATHER; cfg_SC_NOTIFY_BINARY; cfg_SC_NOTIFY_NARY; cfg_SC_NOTIFY_PEX; cfg_SC_NOTIFY_PCX;
   cfg_SC_NOTIFY_RSX; cfg_SC_NOTIFY_NBX; cfg_SC_NOTIFY_RANGES; cfg_SC_NOTIFY_SUPERSET; cfg_SC_NOTIFY_NUM_TYPES] = [-1; 0; 1; 2; 3; 4; 5; 6; 7; 8; 9].
Proof. reflexivity. Qed.

(* sc_notify_set_type: nothing happens when the type stays; a CHANGE stores the type and runs exactly the initialisation of the
   new type (n-ary, ranges), none for the others; SC_NOTIFY_DEFAULT stands for the global default *)
Lemma gen_set_type cur t d : 0 <= t < 9 ->
  cfg_set_type cur t d = if cur =? t then (cur, 0, 0, 0) else (t, b2z (t =? 2), b2z (t =? 7), 0).
Proof.
  intros H. unfold cfg_set_type. replace (t =? -1) with false by lia. destruct (cur =? t) eqn:E; cbn [negb]; [reflexivity|].
  assert (C : t = 0 \/ t = 1 \/ t = 2 \/ t = 3 \/ t = 4 \/ t = 5 \/ t = 6 \/ t = 7 \/ t = 8) by lia.
  destruct C as [->|[->|[->|[->|[->|[->|[->|[->| ->]]]]]]]]; reflexivity.
Qed.
Lemma gen_set_type_default cur d : cfg_set_type cur (-1) d = cfg_set_type cur d d \/ d = -1.
Proof. destruct (Z.eq_dec d (-1)) as [->|N]; [right; reflexivity|left]. unfold cfg_set_type. replace (d =? -1) with false by lia. reflexivity. Qed.

(* FRAME: the two entry points of a round (with everything they call inside sc_notify.c) read these fields of the notify
   object, write NONE, and the object leaves sc_notify.c only as the argument of the user's callbacks; the n-ary round keeps
   depth and npay in a local copy of the n-ary data *)
Definition footprint_expected : list (string * (list string * list string * list string)) :=
  let reads := ["notify_data_nary"; "notify_data_ranges_num_ranges"; "notify_data_ranges_package_id"; "notify_data_superset_compute_superset";
                "notify_data_superset_ctx"; "notify_eager_threshold"; "notify_mpicomm"; "notify_type"]%string in
  [("sc_notify_payload", (reads, [], ["notify passed to a function pointer"]));
   ("sc_notify_payloadv", (reads, [], ["notify passed to a function pointer"]));
   ("sc_notify_payload_nary (local copy)",
    (["copy_depth"; "copy_mpicomm"; "copy_mpirank"; "copy_mpisize"; "copy_nbot"; "copy_nint"; "copy_npay"; "copy_ntop"], ["copy_depth"; "copy_npay"], []))]%string.
Lemma footprint_frame : cfg_footprints = footprint_expected.  Proof. reflexivity. Qed.

(* ---- the state machine in closed form ------------------------------------------------------------------------------- *)
Definition mset_type (e : nenv) (o : nobj) (t : Z) : nobj :=
  if o_type o =? t then o
  else if t =? 2 then mk_nobj 2 (o_thresh o) (e_P e) (e_me e) (e_ntop_default e) (e_nint_default e) (e_nbot_default e) (o_nranges o) (o_cb o) (o_ctx o)
  else if t =? 7 then mk_nobj 7 (o_thresh o) (o_mpisize o) (o_mpirank o) (o_ntop o) (o_nint o) (o_nbot o) (e_nranges_default e) (o_cb o) (o_ctx o)
  else mk_nobj t (o_thresh o) (o_mpisize o) (o_mpirank o) (o_ntop o) (o_nint o) (o_nbot o) (o_nranges o) (o_cb o) (o_ctx o).

Lemma nobj_eta o : mk_nobj (o_type o) (o_thresh o) (o_mpisize o) (o_mpirank o) (o_ntop o) (o_nint o) (o_nbot o) (o_nranges o) (o_cb o) (o_ctx o) = o.
Proof. destruct o; reflexivity. Qed.

Lemma obj_set_type_spec e o t : 0 <= t < 9 -> obj_set_type e o t = mset_type e o t.
Proof.
  intros H. unfold obj_set_type, mset_type. rewrite gen_set_type by exact H. destruct (o_type o =? t) eqn:E.
  - cbn. apply nobj_eta.
  - destruct (t =? 2) eqn:E2; [assert (t = 2) by lia; subst; reflexivity|].
    destruct (t =? 7) eqn:E7; [assert (t = 7) by lia; subst; reflexivity|]. reflexivity.
Qed.

Definition legal_op (o : nobj) (op : nop) : Prop :=
  match op with
  | OpType t => 0 <= t < 9
  | OpWidths _ _ _ => o_type o = 2
  | OpRanges _ => o_type o = 7
  | OpCallback _ _ => o_type o = 8
  | OpThresh _ | OpNew => True
  end.
Fixpoint legal_from (e : nenv) (o : nobj) (h : list nop) : Prop :=
  match h with [] => True | op :: r => legal_op o op /\ legal_from e (obj_step e o op) r end.
Definition legal (e : nenv) (h : list nop) : Prop := 0 <= e_type_default e < 9 /\ legal_from e (obj_new e) h.

(* invariant of every reachable state: a valid type; while the type is n-ary, size and rank are the communicator's *)
Definition obj_ok (e : nenv) (o : nobj) : Prop := 0 <= o_type o < 9 /\ (o_type o = 2 -> o_mpisize o = e_P e /\ o_mpirank o = e_me e).

Lemma obj_new_spec e : 0 <= e_type_default e < 9 ->
  obj_new e = mset_type e (mk_nobj (-1) (e_thresh_default e) 0 0 0 0 0 0 0 0) (e_type_default e).
Proof. intros H. unfold obj_new. rewrite obj_set_type_spec by exact H. reflexivity. Qed.

Lemma mset_type_ok e o t : 0 <= t < 9 -> (0 <= o_type o < 9 -> obj_ok e o) -> obj_ok e (mset_type e o t).
Proof.
  intros Ht Ho. unfold mset_type. destruct (o_type o =? t) eqn:E; [apply Ho; lia|].
  destruct (t =? 2) eqn:E2; [split; cbn; [lia|auto]|]. destruct (t =? 7) eqn:E7; (split; cbn; [lia|intros; lia]).
Qed.

Lemma obj_new_ok e : 0 <= e_type_default e < 9 -> obj_ok e (obj_new e).
Proof. intros H. rewrite obj_new_spec by exact H. apply mset_type_ok; [exact H|]. cbn. lia. Qed.

Lemma obj_step_ok e o op : 0 <= e_type_default e < 9 -> obj_ok e o -> legal_op o op -> obj_ok e (obj_step e o op).
Proof.
  intros He Ho Hl. destruct op; cbn [obj_step legal_op] in *.
  - rewrite obj_set_type_spec by exact Hl. apply mset_type_ok; auto.
  - destruct Ho as [H1 H2]. split; cbn; auto.
  - destruct Ho as [H1 H2]. split; cbn; auto.
  - destruct Ho as [H1 H2]. split; cbn; auto.
  - destruct Ho as [H1 H2]. split; cbn; auto.
  - apply obj_new_ok; exact He.
Qed.

Lemma run_from_ok e : 0 <= e_type_default e < 9 -> forall h o, obj_ok e o -> legal_from e o h -> obj_ok e (fold_left (obj_step e) h o).
Proof.
  intros He. induction h as [|op r IH]; intros o Ho Hl; [exact Ho|]. cbn [fold_left]. destruct Hl as [H1 H2].
  apply IH; [apply obj_step_ok; assumption|exact H2].
Qed.
Lemma obj_run_ok e h : legal e h -> obj_ok e (obj_run e h).
Proof. intros [He Hl]. apply run_from_ok; [exact He|apply obj_new_ok; exact He|exact Hl]. Qed.

(* ---- the parameters in force and the round ---------------------------------------------------------------------------- *)
(* the parameters a round can see: type, threshold, and the data of the CURRENT type only *)
Definition params (o : nobj) : list Z :=
  [o_type o; o_thresh o] ++
  (if o_type o =? 2 then [o_mpisize o; o_mpirank o; o_ntop o; o_nint o; o_nbot o] else []) ++
  (if o_type o =? 7 then [o_nranges o] else []) ++
  (if o_type o =? 8 then [o_cb o; o_ctx o] else []).

(* A ROUND DEPENDS ONLY ON THE PARAMETERS IN FORCE *)
Theorem round_depends_on_params fuel e o1 o2 sorted R pays sz extra supers :
  params o1 = params o2 -> obj_round fuel e o1 sorted R pays sz extra supers = obj_round fuel e o2 sorted R pays sz extra supers.
Proof.
  unfold params, obj_round. intros H. cbn [app] in H. injection H as Ht Hth Hrest. rewrite <- Ht in *. rewrite Hth.
  destruct (o_type o1 =? 2) eqn:E2.
  - cbn [app] in Hrest. injection Hrest as -> -> -> -> -> _. reflexivity.
  - destruct (o_type o1 =? 7) eqn:E7; [|reflexivity]. cbn [app] in Hrest. injection Hrest as -> _. reflexivity.
Qed.

(* configuring a fresh object ONCE with the parameters in force: new; set_type; the setter of that type; set_eager_threshold *)
Definition setup (o : nobj) : list nop :=
  [OpNew; OpType (o_type o)] ++
  (if o_type o =? 2 then [OpWidths (o_ntop o) (o_nint o) (o_nbot o)] else
   if o_type o =? 7 then [OpRanges (o_nranges o)] else
   if o_type o =? 8 then [OpCallback (o_cb o) (o_ctx o)] else []) ++
  [OpThresh (o_thresh o)].

Lemma fold_left_app_step e a b o : fold_left (obj_step e) (a ++ b) o = fold_left (obj_step e) b (fold_left (obj_step e) a o).
Proof. apply fold_left_app. Qed.

Lemma mset_type_type e o t : o_type (mset_type e o t) = t.
Proof. unfold mset_type. destruct (o_type o =? t) eqn:E; [lia|]. destruct (t =? 2) eqn:E2; [cbn; lia|]. destruct (t =? 7) eqn:E7; [cbn; lia|reflexivity]. Qed.

Lemma setup_params e o : 0 <= e_type_default e < 9 -> obj_ok e o -> params (obj_run e (setup o)) = params o.
Proof.
  intros He [Ht Hn]. unfold obj_run, setup. rewrite fold_left_app_step. cbn [fold_left obj_step].
  rewrite (obj_set_type_spec e (obj_new e) (o_type o) Ht). rewrite fold_left_app_step.
  set (o1 := mset_type e (obj_new e) (o_type o)). assert (T1 : o_type o1 = o_type o) by apply mset_type_type.
  assert (S1 : o_type o = 2 -> o_mpisize o1 = e_P e /\ o_mpirank o1 = e_me e).
  { intros E. assert (K : obj_ok e o1) by (apply mset_type_ok; [exact Ht|intros _; apply obj_new_ok; exact He]). apply K. lia. }
  destruct (o_type o =? 2) eqn:E2.
  - cbn [fold_left obj_step]. rewrite gen_set_widths, gen_set_eager_threshold. unfold params, with_widths. cbn.
    rewrite T1, E2. destruct (S1 ltac:(lia)) as [-> ->]. destruct (Hn ltac:(lia)) as [-> ->].
    replace (o_type o =? 7) with false by lia. replace (o_type o =? 8) with false by lia. reflexivity.
  - destruct (o_type o =? 7) eqn:E7.
    + cbn [fold_left obj_step]. rewrite gen_set_num_ranges, gen_set_eager_threshold. unfold params. cbn. rewrite T1, E2, E7.
      replace (o_type o =? 8) with false by lia. reflexivity.
    + destruct (o_type o =? 8) eqn:E8.
      * cbn [fold_left obj_step]. rewrite gen_set_callback, gen_set_eager_threshold. unfold params. cbn. rewrite T1, E2, E7, E8. reflexivity.
      * cbn [fold_left obj_step]. rewrite gen_set_eager_threshold. unfold params. cbn. rewrite T1, E2, E7, E8. reflexivity.
Qed.

Lemma setup_legal e o : 0 <= e_type_default e < 9 -> 0 <= o_type o < 9 -> legal e (setup o).
Proof.
  intros He Ht. split; [exact He|]. unfold setup. cbn [app legal_from legal_op obj_step]. split; [exact I|]. split; [exact Ht|].
  rewrite (obj_set_type_spec e (obj_new e) (o_type o) Ht). set (o1 := mset_type e (obj_new e) (o_type o)).
  assert (T1 : o_type o1 = o_type o) by apply mset_type_type.
  destruct (o_type o =? 2) eqn:E2; [cbn; repeat split; lia|]. destruct (o_type o =? 7) eqn:E7; [cbn; repeat split; lia|].
  destruct (o_type o =? 8) eqn:E8; cbn; repeat split; lia.
Qed.

(* RECONFIGURATION THEN ROUND = ROUND OF A FRESH OBJECT WITH THESE PARAMETERS, for every legal history *)
Theorem reconfig_round_fresh fuel e h sorted R pays sz extra supers : legal e h ->
  legal e (setup (obj_run e h)) /\
  obj_round_hist fuel e h sorted R pays sz extra supers = obj_round_hist fuel e (setup (obj_run e h)) sorted R pays sz extra supers.
Proof.
  intros Hl. pose proof (obj_run_ok e h Hl) as Ho. destruct Hl as [He Hl]. split; [apply setup_legal; [exact He|apply Ho]|].
  unfold obj_round_hist. apply round_depends_on_params. symmetry. apply setup_params; assumption.
Qed.

(* the round of a history is the single call with the parameters the object shows *)
Theorem round_is_single_call fuel e h sorted R pays sz extra supers : legal e h ->
  let o := obj_run e h in
  let eager := match pays with None => false | Some _ => sz <=? o_thresh o end in
  obj_round_hist fuel e h sorted R pays sz extra supers =
  notify_prog fuel (o_type o) (e_P e) (e_me e) (if o_type o =? 2 then o_ntop o else if o_type o =? 7 then o_nranges o else 0)
              (if o_type o =? 2 then o_nint o else 0) (if o_type o =? 2 then o_nbot o else 0) sorted R pays sz eager extra supers.
Proof.
  intros Hl. pose proof (obj_run_ok e h Hl) as [Ht Hn]. cbv zeta. unfold obj_round_hist, obj_round. rewrite gen_nary_read, gen_eager.
  assert (EG : z2b (b2z (z2b 1 && (sz <=? o_thresh (obj_run e h)))) = (sz <=? o_thresh (obj_run e h))) by (cbn; destruct (sz <=? _); reflexivity).
  rewrite EG. destruct (o_type (obj_run e h) =? 2) eqn:E2.
  - destruct (Hn ltac:(lia)) as [-> ->]. replace (o_type (obj_run e h)) with 2 by lia. reflexivity.
  - destruct (o_type (obj_run e h) =? 7) eqn:E7; [replace (o_type (obj_run e h)) with 7 by lia|]; reflexivity.
Qed.

(* what a single step does to the parameters in force (the oracle's state model, checks/notify_common.py obj_apply) *)
Theorem step_spec e o op : legal_op o op ->
  obj_step e o op =
  match op with
  | OpType t => mset_type e o t
  | OpWidths a b c => mk_nobj (o_type o) (o_thresh o) (o_mpisize o) (o_mpirank o) a b c (o_nranges o) (o_cb o) (o_ctx o)
  | OpRanges n => mk_nobj (o_type o) (o_thresh o) (o_mpisize o) (o_mpirank o) (o_ntop o) (o_nint o) (o_nbot o) n (o_cb o) (o_ctx o)
  | OpThresh n => mk_nobj (o_type o) n (o_mpisize o) (o_mpirank o) (o_ntop o) (o_nint o) (o_nbot o) (o_nranges o) (o_cb o) (o_ctx o)
  | OpCallback f c => mk_nobj (o_type o) (o_thresh o) (o_mpisize o) (o_mpirank o) (o_ntop o) (o_nint o) (o_nbot o) (o_nranges o) f c
  | OpNew => obj_new e
  end.
Proof. intros H. destruct op; cbn [obj_step legal_op] in *; try reflexivity. apply obj_set_type_spec; exact H. Qed.

(* set_type to the type the object already has keeps every parameter; a change to n-ary / ranges puts the defaults in force *)
Corollary set_type_same e o : 0 <= o_type o < 9 -> obj_step e o (OpType (o_type o)) = o.
Proof. intros H. cbn [obj_step]. rewrite obj_set_type_spec by exact H. unfold mset_type. rewrite Z.eqb_refl. reflexivity. Qed.
Corollary set_type_change_defaults e o t : 0 <= t < 9 -> o_type o <> t ->
  let o' := obj_step e o (OpType t) in
  o_type o' = t /\ o_thresh o' = o_thresh o /\
  (t = 2 -> (o_mpisize o', o_mpirank o', o_ntop o', o_nint o', o_nbot o') = (e_P e, e_me e, e_ntop_default e, e_nint_default e, e_nbot_default e)) /\
  (t = 7 -> o_nranges o' = e_nranges_default e).
Proof.
  intros Ht Hne. cbv zeta. cbn [obj_step]. rewrite obj_set_type_spec by exact Ht. unfold mset_type. replace (o_type o =? t) with false by lia.
  destruct (t =? 2) eqn:E2; [cbn; repeat split; try lia; intros; reflexivity|].
  destruct (t =? 7) eqn:E7; cbn; repeat split; try lia; intros; try reflexivity.
Qed.
