(* C01 / C02 - pcx and rsx (sc_notify_payload_census) under EVERY SCHEDULE of the interleaving semantics with wildcard receives and
   synchronising collectives (MPI/SemColl.v; contract of MPI_Reduce_scatter_block / of the accumulate epoch = SemColl.coll_reply
   4 / 5): the hypotheses of NotifyProgProofs.census_round - the census contract and the round abstraction "the wildcard receives
   after the census return exactly the messages addressed to the rank, each once, in some order" - are DISCHARGED.

   System census_sys kind P R hp pay sorted: rank r, 0 <= r < P, runs the co-simulated program
       census_core kind P (R r) ep sorted (fun s g => Ret (result s g)),      ep = Some (items pay r d for d in R r) if hp, else None;
   every other rank has returned; all channels are empty.  Theorem census_every_schedule (kind = K_RSB: pcx, K_RMA: rsx): in EVERY
   run (i) a reachable state is final or can step (no deadlock); (ii) a run has at most census_steps = 1 + (sends + receives of all
   ranks) steps and is final exactly after that many; (iii) in every final state every rank r has returned result o (items of o),
   o a permutation of transpose P R r - THE transposed list when sorted output was requested, the arrival order (some permutation)
   otherwise - and every channel is empty.
   The census count of r = number of messages addressed to r: the invariant of MPI/SemRoundsOrd.v (channel contents = sent and not
   yet received, script prefix) says at every moment: in flight to r + received by r + still to be sent to r = |transpose P R r|.

   Proof: SemColl.es_coll (the collective fires first: every rank is at it) + SemRoundsOrd.es_rounds with ONE level (tag
   SC_TAG_NOTIFY_CENSUS, sends = the listed receivers, sources = transpose, all receives wildcards); round property =
   census_round / census_round_nopay with the census value computed by coll_reply. *)
From Coq Require Import ZArith Lia List Bool Permutation.
From ScV Require Import Base.CInt MPI.Prog MPI.Sem MPI.SemAny MPI.SemRounds MPI.SemColl MPI.SemRoundsOrd Gen.Consts Gen.NotifyC01
     C01.MergeModel C01.MergeProofs C01.NotifyProgs C01.NotifyProgProofs C01.RecordOps C01.NaryRound C01.NarySched C01.CollSched.
Import ListNotations.
Local Open Scope Z_scope.

(* the census contract in the form census_round uses it, and its agreement with coll_reply on contributions of one int per rank *)
Definition csum : Z -> list payload -> Z -> payload :=
  fun _ cs r => [fold_right Z.add 0 (map (fun c => nth (Z.to_nat r) c 0) cs)].

Lemma coll_reply_census kind root cs r : kind = K_RSB \/ kind = K_RMA -> cs <> [] -> (forall c, In c cs -> length c = length cs) ->
  coll_reply kind root cs r = csum kind cs r.
Proof.
  intros Hk Hne Hlen. unfold coll_reply, csum.
  replace ((kind =? 1) || (kind =? 2)) with false by (destruct Hk as [-> | ->]; reflexivity).
  replace (kind =? 3) with false by (destruct Hk as [-> | ->]; reflexivity).
  replace ((kind =? 4) || (kind =? 5)) with true by (destruct Hk as [-> | ->]; reflexivity).
  rewrite (blk_uniform 1 cs Hne) by (intros c Hc; rewrite (Hlen c Hc); lia).
  cbn [seq map]. rewrite Nat.mul_1_r, Nat.add_0_r. reflexivity.
Qed.

Lemma indicator_length P l : length (indicator P l) = Z.to_nat P.
Proof. unfold indicator. rewrite map_length, ranks_length. reflexivity. Qed.

Lemma zip_length_eq {A B} : forall (a : list A) (b : list B), length a = length b -> map fst (zip a b) = a.
Proof. induction a as [|x a IH]; intros [|y b] H; cbn in *; try discriminate; [reflexivity|]. f_equal. apply IH. lia. Qed.

Lemma transpose_NoDup P R me : NoDup (transpose P R me).
Proof. unfold transpose. apply NoDup_filter. apply ranks_NoDup. Qed.

Lemma transpose_length_le P R me : (length (transpose P R me) <= Z.to_nat P)%nat.
Proof.
  unfold transpose. rewrite <- (ranks_length P). generalize (ranks P). intros l.
  induction l as [|x l IH]; [apply Nat.le_refl|]. cbn [filter]. destruct (memz me (R x)); cbn [length]; lia.
Qed.

Section CensusSched.
  Variable kind : Z.
  Hypothesis Hkind : kind = K_RSB \/ kind = K_RMA.
  Variable P : Z.
  Variable R : Z -> list Z.
  Variable hp : bool.                                (* items travel with the call (C02) *)
  Variable pay : Z -> Z -> payload.
  Variable sorted : bool.
  Hypothesis HP : 0 < P.
  Hypothesis HR : forall f, 0 <= f < P -> ssorted (fun x => x) (R f) /\ forall t, In t (R f) -> 0 <= t < P.

  Definition cep (r : Z) : option (list payload) := if hp then Some (map (pay r) (R r)) else None.
  Definition citem (q r : Z) : payload := if hp then pay q r else [].
  Definition census_prog : Z -> prog := only P (fun r => census_core kind P (R r) (cep r) sorted (fun s g => Ret (result s g))).
  Definition census_sys : gs := sys census_prog.

  (* the instance of SemRoundsOrd: one level *)
  Definition csends (r : Z) (l : nat) : list (Z * payload) := if inr P r then map (fun d => (d, citem r d)) (R r) else [].
  Definition csrcs (r : Z) (l : nat) : list Z := if inr P r then transpose P R r else [].
  Definition cwire (l : nat) (q r : Z) : payload := citem q r.
  Definition ctag (l : nat) : Z := c_SC_TAG_NOTIFY_CENSUS.
  Definition cnamed : Z -> nat -> nat -> bool := fun _ _ _ => false.
  Definition cfixed : Z -> nat -> bool := fun _ _ => false.
  Definition cfinal (r : Z) (o : list Z) : list Z := if sorted then transpose P R r else o.
  Definition cout (r : Z) (ord : nat -> list Z) : payload :=
    if inr P r then result (cfinal r (ord 0%nat)) (if hp then map (fun q => pay q r) (cfinal r (ord 0%nat)) else []) else [].
  (* number of steps of every maximal run: the collective, and every send and receive *)
  Definition census_steps : nat := S (total_len 1 csends csrcs (ranks P)).

  Let s1 : gs := mkgs (advance P coll_reply census_sys kind (-1)) (ch census_sys).

  Lemma census_contribs0 : contribs P census_sys = map (fun q => indicator P (R q)) (ranks P).
  Proof. apply contribs_eq. intros r Hr. cbn [census_sys sys pr]. unfold census_prog. rewrite only_in by exact Hr. reflexivity. Qed.

  Lemma census_reply r : coll_reply kind (-1) (map (fun q => indicator P (R q)) (ranks P)) r = csum kind (map (fun q => indicator P (R q)) (ranks P)) r.
  Proof.
    apply coll_reply_census; [exact Hkind| |].
    - intros E. apply (f_equal (@length _)) in E. rewrite map_length, ranks_length in E. cbn in E. lia.
    - intros c Hc. apply in_map_iff in Hc. destruct Hc as [q [<- _]]. rewrite indicator_length, map_length, ranks_length. reflexivity.
  Qed.

  Lemma R_NoDup r : 0 <= r < P -> NoDup (R r).
  Proof. intros Hr. apply (ssorted_NoDup (fun x => x)). apply (HR r Hr). Qed.

  Lemma C_out r l : ~ In r (ranks P) -> csends r l = [] /\ csrcs r l = [].
  Proof. intros Hr. unfold csends, csrcs. destruct (inr P r) eqn:E; [apply inr_ranks in E; contradiction|auto]. Qed.

  Lemma C_dst r l : NoDup (map fst (csends r l)).
  Proof.
    unfold csends. destruct (inr P r) eqn:E; [|constructor]. apply inr_spec in E. rewrite map_map. cbn [fst]. rewrite map_id. apply R_NoDup. exact E.
  Qed.

  Lemma C_src r l : NoDup (csrcs r l).
  Proof. unfold csrcs. destruct (inr P r); [apply transpose_NoDup|constructor]. Qed.

  Lemma C_src0 r l q : In q (csrcs r l) -> 0 <= q.
  Proof. unfold csrcs. destruct (inr P r); [|intros []]. intros Hq. apply transpose_In in Hq. lia. Qed.

  Lemma C_match1 q l d m : In (d, m) (csends q l) -> In q (csrcs d l) /\ m = cwire l q d.
  Proof.
    unfold csends, csrcs, cwire. destruct (inr P q) eqn:E; [|intros []]. apply inr_spec in E. intros Hin.
    apply in_map_iff in Hin. destruct Hin as [d' [Ed Hd]]. injection Ed as -> <-.
    pose proof (proj2 (HR q E) d Hd) as Hdr. apply inr_spec in Hdr. rewrite Hdr. split; [|reflexivity]. apply transpose_In. auto.
  Qed.

  Lemma C_match2 r l q : In q (csrcs r l) -> In (r, cwire l q r) (csends q l).
  Proof.
    unfold csends, csrcs, cwire. destruct (inr P r) eqn:E; [|intros []]. intros Hq. apply transpose_In in Hq. destruct Hq as [Hq Hr].
    pose proof Hq as Hq'. apply inr_spec in Hq'. rewrite Hq'. apply in_map_iff. exists r. auto.
  Qed.

  (* the program of rank r after the census, and its round property *)
  Lemma census_s1 r : 0 <= r < P -> exists k,
    census_core kind P (R r) (cep r) sorted (fun s g => Ret (result s g)) = Do (Coll kind (-1) (indicator P (R r))) k /\
    pr s1 r = k (csum kind (map (fun q => indicator P (R q)) (ranks P)) r).
  Proof.
    intros Hr. eexists. split; [unfold census_core; reflexivity|]. unfold s1. cbn [pr].
    erewrite advance_in; [|exact Hr|cbn [census_sys sys pr]; unfold census_prog; rewrite only_in by exact Hr; unfold census_core; reflexivity].
    rewrite census_contribs0, census_reply. reflexivity.
  Qed.

  Lemma census_hround r ord : valid 1 csrcs cfixed r ord ->
    feed (map (reply_of cwire r) (script 1 csends cnamed r ord)) (pr s1 r) = (map (act_of ctag) (script 1 csends cnamed r ord), Some (cout r ord)).
  Proof.
    intros Hv. destruct (inr P r) eqn:E.
    - apply inr_spec in E. destruct (census_s1 r E) as [k [Ek ->]]. rewrite feed_run.
      pose proof (proj1 (Hv 0%nat ltac:(lia))) as Hperm. unfold csrcs in Hperm. rewrite (proj2 (inr_spec P r) E) in Hperm.
      unfold script. cbn [seq flat_map]. rewrite app_nil_r. unfold lvl_items. rewrite !map_app, replies_sends, replies_recvs, acts_sends.
      rewrite (acts_recvs_wild ctag cnamed r 0 (fun _ => eq_refl)).
      unfold csends, cout, cwire, ctag. rewrite (proj2 (inr_spec P r) E). rewrite !map_map, map_length. cbn [fst snd].
      unfold cep, citem, cfinal in *. destruct hp.
      + pose proof (census_round csum kind (fun cs r0 => eq_refl) P R pay HP r sorted (ord 0%nat) E Hperm) as H. cbv zeta in H.
        unfold census_replies, census_actions in H. rewrite Ek in H. apply run_cons_do in H. exact H.
      + pose proof (census_round_nopay csum kind (fun cs r0 => eq_refl) P R pay HP r sorted (ord 0%nat) E Hperm) as H. cbv zeta in H.
        rewrite Ek in H. apply run_cons_do in H. exact H.
    - assert (Hnr : ~ (0 <= r < P)) by (intros H; apply inr_spec in H; congruence).
      assert (Hs : script 1 csends cnamed r ord = []).
      { apply (script_out 1 csends csrcs cnamed cfixed (ranks P) C_out r ord); [|exact Hv]. intros Hin. apply inr_ranks in Hin. congruence. }
      rewrite Hs. unfold s1, cout. cbn [pr]. rewrite advance_out by exact Hnr. cbn [census_sys sys pr]. unfold census_prog. rewrite only_out by exact Hnr.
      rewrite E. reflexivity.
  Qed.

  (* what holds in the final states *)
  Definition census_good (s : gs) : Prop :=
    (forall r, 0 <= r < P -> exists o, Permutation o (transpose P R r) /\ (sorted = true -> o = transpose P R r) /\
                                      pr s r = Ret (result o (if hp then map (fun q => pay q r) o else []))) /\
    (forall a b t, ch s a b t = []).

  Theorem census_every_schedule : every_schedule P coll_reply census_sys census_steps census_good.
  Proof.
    apply (es_coll P coll_reply census_sys kind (-1)); [exact HP| |apply outside_only|].
    { intros r Hr. cbn [census_sys sys pr]. unfold census_prog. rewrite only_in by exact Hr. unfold census_core. eauto. }
    fold s1. apply (es_weaken P coll_reply s1 _ (fun s => (forall r, exists ord, valid 1 csrcs cfixed r ord /\ pr s r = Ret (cout r ord)) /\ (forall a b t, ch s a b t = []))).
    - intros s [H1 H2]. split; [|exact H2]. intros r Hr. destruct (H1 r) as [ord [Hv Ho]].
      pose proof (proj1 (Hv 0%nat ltac:(lia))) as Hperm. unfold csrcs in Hperm. rewrite (proj2 (inr_spec P r) Hr) in Hperm.
      unfold cout in Ho. rewrite (proj2 (inr_spec P r) Hr) in Ho. exists (cfinal r (ord 0%nat)). unfold cfinal in *.
      destruct sorted; [split; [apply Permutation_refl|split; [reflexivity|exact Ho]]|split; [exact Hperm|split; [discriminate|exact Ho]]].
    - apply (es_rounds P coll_reply 1 ctag csends csrcs cwire cnamed cfixed (pr s1) cout (ranks P) HP (ranks_NoDup P) C_out).
      + intros r p p' H1 H2. lia.
      + intros r l i _ H. discriminate.
      + intros r l _. apply C_dst.
      + intros r l _. apply C_src.
      + intros r l q _. apply C_src0.
      + intros q l d m _. apply C_match1.
      + intros r l q _. apply C_match2.
      + exact census_hround.
  Qed.

  (* closed bound: a rank sends at most P and receives at most P messages *)
  Lemma census_steps_le : (census_steps <= 1 + Z.to_nat P * (2 * Z.to_nat P))%nat.
  Proof.
    unfold census_steps. apply le_n_S. rewrite <- (ranks_length P) at 1.
    replace (2 * Z.to_nat P)%nat with (list_sum (map (fun _ : nat => (2 * Z.to_nat P)%nat) (seq 0 1))) by (cbn; lia).
    apply total_len_bound. intros r l Hr _. apply in_ranks in Hr. unfold csends, csrcs. rewrite (proj2 (inr_spec P r) Hr). rewrite map_length.
    pose proof (transpose_length_le P R r).
    assert ((length (R r) <= Z.to_nat P)%nat).
    { rewrite <- (ranks_length P). apply NoDup_incl_length; [apply R_NoDup; exact Hr|]. intros t Ht. apply in_ranks. apply (HR r Hr). exact Ht. }
    lia.
  Qed.
End CensusSched.
