(* C01/C02 - theorems about the per-rank programs of NotifyProgs.v (the programs that are co-simulated against the
   real code).  A program is run against the list of replies the MPI library hands back, one per action
   (`run`); the theorems state, for every receiver family, every payload family and every order of arrival, that
   the history in which
     - every collective returns what its specification says for the contributions the ranks really make, and
     - the wildcard receives of a rank return exactly the messages the other ranks' programs address to it on
       that tag, each once, in an arbitrary order (round abstraction),
   is a history of the programs, and ends on every rank with the ascending list of the ranks that listed it
   (in arrival order if unsorted output was requested), every payload at the position of its sender. *)
From Coq Require Import ZArith Lia List Bool Permutation Sorting.Sorted.
From ScV Require Import Base.CInt MPI.Prog Gen.Consts Gen.NotifyC01 C01.MergeModel C01.MergeProofs C01.NotifyProgs.
Import ListNotations.
Local Open Scope Z_scope.

(* feeding replies to a program: the actions it issues and its result (None: it waits for more replies) *)
Fixpoint run (rs : list payload) (p : prog) : list act * option payload :=
  match p with
  | Ret o => ([], Some o)
  | Do a k => match rs with
              | [] => ([a], None)
              | r :: rs' => let '(acts, o) := run rs' (k r) in (a :: acts, o)
              end
  end.

Definition transpose (P : Z) (R : Z -> list Z) (me : Z) : list Z := filter (fun f => memz me (R f)) (ranks P).
Definition indicator (P : Z) (R : list Z) : list Z := map (fun i => if memz i R then 1 else 0) (ranks P).

(* ---- ranks --------------------------------------------------------------------------------------------------- *)
Lemma seq_ssorted : forall n s, ssorted (fun x => x) (map Z.of_nat (seq s n)).
Proof.
  induction n as [|n IH]; intros s; simpl; constructor; [apply IH|].
  apply Forall_forall. intros y Hy. apply in_map_iff in Hy. destruct Hy as [k [<- Hk]]. apply in_seq in Hk. lia.
Qed.

Lemma filter_ssorted {A} (key : A -> Z) f l : ssorted key l -> ssorted key (filter f l).
Proof.
  induction 1 as [|x l Hs IH Hf]; simpl; [constructor|]. destruct (f x); [|assumption].
  constructor; [assumption|]. rewrite Forall_forall in *. intros y Hy. apply filter_In in Hy. apply Hf. tauto.
Qed.

Lemma transpose_ssorted P R me : ssorted (fun x => x) (transpose P R me).
Proof. apply filter_ssorted. apply seq_ssorted. Qed.

Lemma in_ranks P x : In x (ranks P) <-> 0 <= x < P.
Proof.
  unfold ranks. rewrite in_map_iff. split.
  - intros [k [<- Hk]]. apply in_seq in Hk. lia.
  - intros H. exists (Z.to_nat x). split; [lia|apply in_seq; lia].
Qed.

Lemma memz_In x l : memz x l = true <-> In x l.
Proof.
  unfold memz. rewrite existsb_exists. split.
  - intros [y [Hy E]]. apply Z.eqb_eq in E. subst. assumption.
  - intros H. exists x. split; [assumption|apply Z.eqb_refl].
Qed.

Lemma transpose_In P R me f : In f (transpose P R me) <-> 0 <= f < P /\ In me (R f).
Proof. unfold transpose. rewrite filter_In, in_ranks, memz_In. tauto. Qed.

(* ---- sorting (sender, payload) records by sender --------------------------------------------------------------- *)
Lemma insert_perm x l : Permutation (insert_by_src x l) (x :: l).
Proof.
  induction l as [|y l IH]; simpl; [apply Permutation_refl|]. destruct (fst x <=? fst y); [apply Permutation_refl|].
  eapply Permutation_trans; [apply perm_skip, IH|apply perm_swap].
Qed.

Lemma insert_ssorted x l : ssorted fst l -> (forall y, In y l -> fst y <> fst x) -> ssorted fst (insert_by_src x l).
Proof.
  induction 1 as [|y l Hs IH Hf]; intros Hne; simpl; [repeat constructor|].
  assert (fst y <> fst x) by (apply Hne; left; reflexivity).
  destruct (fst x <=? fst y) eqn:E.
  - constructor; [constructor; assumption|]. constructor; [lia|].
    rewrite Forall_forall in *. intros z Hz. specialize (Hf z Hz). lia.
  - constructor; [apply IH; intros z Hz; apply Hne; right; assumption|].
    apply Forall_forall. intros z Hz. apply (Permutation_in _ (insert_perm x l)) in Hz. destruct Hz as [<-|Hz]; [lia|].
    rewrite Forall_forall in Hf. apply Hf. assumption.
Qed.

Lemma sort_by_src_spec l : NoDup (map fst l) -> ssorted fst (sort_by_src l) /\ Permutation (sort_by_src l) l.
Proof.
  induction l as [|x l IH]; intros Hnd; simpl; [split; constructor|].
  inversion Hnd as [|? ? Hx Hnd']; subst. destruct (IH Hnd') as [Hs Hp]. split.
  - apply insert_ssorted; [assumption|]. intros y Hy E. apply Hx. apply in_map_iff. exists y. split; [assumption|].
    apply (Permutation_in _ Hp). assumption.
  - eapply Permutation_trans; [apply insert_perm|]. apply perm_skip. assumption.
Qed.

(* whatever the order of arrival, sorting the received (sender, payload) records gives the ascending sender list,
   each payload still attached to its sender *)
Lemma sort_arrivals (g : Z -> payload) (order asc : list Z) :
  ssorted (fun x => x) asc -> Permutation order asc ->
  sort_by_src (map (fun s => (s, g s)) order) = map (fun s => (s, g s)) asc.
Proof.
  intros Hasc Hp.
  assert (Hnd : NoDup (map fst (map (fun s => (s, g s)) order))).
  { rewrite map_map. cbn [fst]. rewrite map_id. apply (Permutation_NoDup (Permutation_sym Hp)).
    clear -Hasc. induction Hasc as [|x l Hs IH Hf]; constructor; [|assumption].
    intros Hin. rewrite Forall_forall in Hf. specialize (Hf _ Hin). lia. }
  destruct (sort_by_src_spec _ Hnd) as [Hs Hperm].
  apply (ssorted_perm_eq fst); [assumption| |].
  - clear -Hasc. induction Hasc as [|x l Hs IH Hf]; simpl; constructor; [assumption|].
    rewrite Forall_forall in *. intros y Hy. apply in_map_iff in Hy. destruct Hy as [s [<- Hs']]. cbn [fst]. apply Hf. assumption.
  - eapply Permutation_trans; [exact Hperm|]. apply Permutation_map. assumption.
Qed.

(* ---- run lemmas -------------------------------------------------------------------------------------------------- *)
Lemma run_do_sends : forall (S : list (Z * Z * payload)) k rest,
  run (repeat [] (length S) ++ rest) (do_sends S k) =
  let '(acts, o) := run rest k in (map (fun s => Send (fst (fst s)) (snd (fst s)) (snd s)) S ++ acts, o).
Proof.
  induction S as [|[[d t] m] S IH]; intros k rest; simpl.
  - destruct (run rest k). reflexivity.
  - unfold send. rewrite IH. destruct (run rest k). reflexivity.
Qed.

Lemma run_recv_any_n : forall (arr : list (Z * payload)) tag acc k rest,
  run (map (fun sp => fst sp :: snd sp) arr ++ rest) (recv_any_n (length arr) tag acc k) =
  let '(acts, o) := run rest (k (rev acc ++ arr)) in (repeat (Recv ANY tag) (length arr) ++ acts, o).
Proof.
  induction arr as [|[s m] arr IH]; intros tag acc k rest; simpl.
  - rewrite app_nil_r. destruct (run rest (k (rev acc))). reflexivity.
  - unfold recv_any. cbn [hd tl]. rewrite IH. cbn [rev]. rewrite <- app_assoc. cbn [app].
    destruct (run rest (k (rev acc ++ (s, m) :: arr))). reflexivity.
Qed.

Lemma zip_map_l {A B} (f : A -> B) (l : list A) : zip l (map f l) = map (fun x => (x, f x)) l.
Proof. induction l; simpl; [reflexivity|f_equal; assumption]. Qed.

(* ---- the census algorithms pcx / rsx --------------------------------------------------------------------------- *)
Section Census.
  (* what the MPI library returns from a collective: kind, contributions in rank order, rank -> result *)
  Variable coll : Z -> list payload -> Z -> payload.
  Variable kind : Z.
  (* contract of Reduce_scatter_block (MPI_SUM, one int per rank) resp. of the fence / accumulate / fence epoch of
     rsx: rank r obtains the sum over all contributions of their r-th entry *)
  Hypothesis coll_sum : forall cs r, coll kind cs r = [fold_right Z.add 0 (map (fun c => nth (Z.to_nat r) c 0) cs)].

  Variable P : Z.
  Variable R : Z -> list Z.                  (* receiver lists *)
  Variable pay : Z -> Z -> payload.          (* pay s r: the item sender s addresses to receiver r *)
  Hypothesis HP : 0 < P.

  Lemma nth_indicator me l : 0 <= me < P -> nth (Z.to_nat me) (indicator P l) 0 = if memz me l then 1 else 0.
  Proof.
    intros Hme. unfold indicator, ranks. rewrite map_map.
    set (g := fun k : nat => if memz (Z.of_nat k) l then 1 else 0).
    rewrite (nth_indep _ 0 (g 0%nat)) by (rewrite map_length, seq_length; lia).
    rewrite (map_nth g). rewrite seq_nth by lia. unfold g. simpl plus. rewrite Z2Nat.id by lia. reflexivity.
  Qed.

  (* the census counts exactly the ranks that listed me *)
  Lemma census_value me : 0 <= me < P ->
    coll kind (map (fun s => indicator P (R s)) (ranks P)) me = [Z.of_nat (length (transpose P R me))].
  Proof.
    intros Hme. rewrite coll_sum. f_equal. rewrite map_map. unfold transpose.
    assert (H : forall l, Forall (fun s => 0 <= s) l ->
                fold_right Z.add 0 (map (fun s => nth (Z.to_nat me) (indicator P (R s)) 0) l)
                = Z.of_nat (length (filter (fun f => memz me (R f)) l))).
    { induction l as [|s l IH]; intros Hl; [reflexivity|]. inversion Hl; subst. cbn [map fold_right filter].
      rewrite nth_indicator by lia. rewrite IH by assumption. destruct (memz me (R s)); simpl length; lia. }
    apply H. apply Forall_forall. intros s Hs. apply in_ranks in Hs. lia.
  Qed.

  Definition census_replies (me : Z) (order : list Z) : list payload :=
    coll kind (map (fun s => indicator P (R s)) (ranks P)) me
      :: repeat [] (length (R me)) ++ map (fun s => s :: pay s me) order.
  Definition census_actions (me : Z) (n : nat) : list act :=
    Coll kind (-1) (indicator P (R me))
      :: map (fun r => Send r c_SC_TAG_NOTIFY_CENSUS (pay me r)) (R me) ++ repeat (Recv ANY c_SC_TAG_NOTIFY_CENSUS) n.

  (* ROUND SEMANTICS of pcx / rsx with payload.  `order` is the order in which the messages addressed to `me` are
     matched by its wildcard receives: any permutation of the ranks that listed me.  The actions show that rank s
     sends exactly one message to every r in R s, carrying pay s r: so the replies assumed for `me` are exactly the
     messages the other ranks' programs address to it. *)
  Theorem census_round me (sorted : bool) (order : list Z) : 0 <= me < P -> Permutation order (transpose P R me) ->
    let final := if sorted then transpose P R me else order in
    run (census_replies me order)
        (census_core kind P (R me) (Some (map (pay me) (R me))) sorted (fun s g => Ret (result s g)))
    = (census_actions me (length order), Some (result final (map (fun s => pay s me) final))).
  Proof.
    intros Hme Hperm final. unfold census_core, census_replies, census_actions. cbn [run].
    rewrite census_value by assumption. cbn [hd]. rewrite Nat2Z.id.
    rewrite zip_map_l.
    set (S := map (fun rp : Z * payload => (fst rp, c_SC_TAG_NOTIFY_CENSUS, snd rp)) (map (fun x => (x, pay me x)) (R me))).
    assert (HlenS : length S = length (R me)) by (unfold S; rewrite !map_length; reflexivity).
    rewrite <- HlenS. rewrite run_do_sends.
    rewrite <- (Permutation_length Hperm).
    replace (map (fun s => s :: pay s me) order) with (map (fun sp : Z * payload => fst sp :: snd sp) (map (fun s => (s, pay s me)) order) ++ [])
      by (rewrite app_nil_r, map_map; reflexivity).
    replace (length order) with (length (map (fun s => (s, pay s me)) order)) by apply map_length.
    rewrite run_recv_any_n. cbn [rev app].
    assert (Hgot : (if sorted then sort_by_src (map (fun s => (s, pay s me)) order) else map (fun s => (s, pay s me)) order)
                   = map (fun s => (s, pay s me)) final).
    { unfold final. destruct sorted; [|reflexivity]. apply (sort_arrivals (fun s => pay s me)); [apply transpose_ssorted|assumption]. }
    rewrite Hgot. cbn [run]. rewrite app_nil_r. unfold S, indicator. rewrite !map_map, !map_length. cbn [fst snd].
    rewrite map_id. reflexivity.
  Qed.

  (* the same without payload (sc_notify_payload with in_payload = NULL, or items above the eager threshold whose
     bytes travel in the second phase): C01 for pcx / rsx *)
  Theorem census_round_nopay me (sorted : bool) (order : list Z) : 0 <= me < P -> Permutation order (transpose P R me) ->
    let final := if sorted then transpose P R me else order in
    run (coll kind (map (fun s => indicator P (R s)) (ranks P)) me :: repeat [] (length (R me)) ++ map (fun s => [s]) order)
        (census_core kind P (R me) None sorted (fun s g => Ret (result s g)))
    = (Coll kind (-1) (indicator P (R me))
         :: map (fun r => Send r c_SC_TAG_NOTIFY_CENSUS []) (R me) ++ repeat (Recv ANY c_SC_TAG_NOTIFY_CENSUS) (length order),
       Some (result final [])).
  Proof.
    intros Hme Hperm final. unfold census_core. cbn [run].
    rewrite census_value by assumption. cbn [hd]. rewrite Nat2Z.id.
    rewrite zip_map_l.
    set (S := map (fun rp : Z * payload => (fst rp, c_SC_TAG_NOTIFY_CENSUS, snd rp)) (map (fun x => (x, @nil Z)) (R me))).
    assert (HlenS : length S = length (R me)) by (unfold S; rewrite !map_length; reflexivity).
    rewrite <- HlenS. rewrite run_do_sends.
    rewrite <- (Permutation_length Hperm).
    replace (map (fun s => [s]) order) with (map (fun sp : Z * payload => fst sp :: snd sp) (map (fun s => (s, @nil Z)) order) ++ [])
      by (rewrite app_nil_r, map_map; reflexivity).
    replace (length order) with (length (map (fun s => (s, @nil Z)) order)) by apply map_length.
    rewrite run_recv_any_n. cbn [rev app].
    assert (Hgot : (if sorted then sort_by_src (map (fun s => (s, @nil Z)) order) else map (fun s => (s, @nil Z)) order)
                   = map (fun s => (s, @nil Z)) final).
    { unfold final. destruct sorted; [|reflexivity]. apply (sort_arrivals (fun _ => @nil Z)); [apply transpose_ssorted|assumption]. }
    rewrite Hgot. cbn [run]. rewrite app_nil_r. unfold S, indicator. rewrite !map_map, !map_length. cbn [fst snd].
    rewrite map_id. reflexivity.
  Qed.
End Census.

(* ---- allgather ------------------------------------------------------------------------------------------------------ *)
Lemma find_senders_blocks me (R : Z -> list Z) : forall n s rest,
  find_senders me (map (fun f => Z.of_nat (length (R f))) (map Z.of_nat (seq s n)))
               (flat_map R (map Z.of_nat (seq s n)) ++ rest) (Z.of_nat s)
  = filter (fun f => memz me (R f)) (map Z.of_nat (seq s n)).
Proof.
  induction n as [|n IH]; intros s rest; [reflexivity|].
  cbn [seq map flat_map find_senders filter]. rewrite Nat2Z.id. rewrite <- app_assoc.
  rewrite firstn_app, Nat.sub_diag, firstn_all, skipn_app, Nat.sub_diag, skipn_all. cbn [firstn skipn app]. rewrite app_nil_r.
  replace (Z.of_nat s + 1) with (Z.of_nat (S s)) by lia. rewrite IH.
  destruct (memz me (R (Z.of_nat s))); reflexivity.
Qed.

Section Allgather.
  Variable coll : Z -> list payload -> Z -> payload.
  (* contract of MPI_Allgather / MPI_Allgatherv: every rank obtains the contributions in rank order *)
  Hypothesis coll_allgather : forall cs r, coll K_ALLGATHER cs r = concat cs.
  Hypothesis coll_allgatherv : forall cs r, coll K_ALLGATHERV cs r = concat cs.
  Variable P : Z.
  Variable R : Z -> list Z.

  (* sc_notify_allgather: proved outright from the contract of the two collectives; no point-to-point message *)
  Theorem allgather_round me :
    run [coll K_ALLGATHER (map (fun s => [Z.of_nat (length (R s))]) (ranks P)) me;
         coll K_ALLGATHERV (map R (ranks P)) me]
        (allgather_core me (R me) None (fun s g => Ret (result s g)))
    = ([Coll K_ALLGATHER (-1) [Z.of_nat (length (R me))]; Coll K_ALLGATHERV (-1) (R me)],
       Some (result (transpose P R me) [])).
  Proof.
    unfold allgather_core, wrapper_payload. cbn [run]. rewrite coll_allgather, coll_allgatherv.
    f_equal. f_equal. f_equal.
    rewrite <- (flat_map_concat_map R).
    replace (concat (map (fun s => [Z.of_nat (length (R s))]) (ranks P))) with (map (fun f => Z.of_nat (length (R f))) (ranks P))
      by (induction (ranks P) as [|x l IHl]; simpl; [reflexivity|f_equal; assumption]).
    unfold ranks, transpose. rewrite <- (app_nil_r (flat_map R _)).
    apply (find_senders_blocks me R (Z.to_nat P) 0 []).
  Qed.
End Allgather.
