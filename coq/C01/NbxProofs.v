(* C01/C02 - the nbx program (sc_notify_payload_nbx: Issend / Iprobe / Ibarrier loop), NotifyProgs.nbx_core, the program
   co-simulated with the real code.
   (1) termination skeleton: whatever the MPI library answers, the loop returns only after a Testall over the own
       synchronous sends said "all matched", the barrier was posted, and a Test of the barrier request said "complete";
   (2) round semantics: if the messages received before the exit are the messages addressed to the rank, each once, in
       some order (which is what (1) and the semantics of synchronous sends give: the barrier completes only after every
       rank saw all its sends matched, i.e. received), the result is the transposed pattern with the payloads. *)
From Coq Require Import ZArith Lia List Bool Permutation.
From ScV Require Import Base.CInt MPI.Prog Gen.Consts C01.MergeModel C01.MergeProofs C01.NotifyProgs C01.NotifyProgProofs.
Import ListNotations.
Local Open Scope Z_scope.

(* ---- (1) exit condition ------------------------------------------------------------------------------------------------ *)
(* shape of the reply stream consumed by a loop that returns; the bool is `barr`.  Per iteration: the answer to the
   wildcard poll, then the answer to Testall (no barrier yet) or to Test (barrier posted); after a Testall that says
   "sent" one more reply, for the Ibarrier call *)
Inductive exits : bool -> list payload -> Prop :=
| ex_test_done r d rest : hd 0 d <> 0 -> exits true (r :: d :: rest)
| ex_test_more r d rs : hd 0 d = 0 -> exits true rs -> exits true (r :: d :: rs)
| ex_testall_sent r s b rs : hd 0 s <> 0 -> exits true rs -> exits false (r :: s :: b :: rs)
| ex_testall_more r s rs : hd 0 s = 0 -> exits false rs -> exits false (r :: s :: rs).

Definition fuel_mark : act := Coll K_FUEL (-1) [].

Theorem nbx_exit_skeleton (g : list (Z * payload) -> payload) tag : forall fuel rs barr acc out,
  snd (run rs (nbx_loop fuel tag barr acc (fun got => Ret (g got)))) = Some out ->
  exits barr rs \/ In fuel_mark (fst (run rs (nbx_loop fuel tag barr acc (fun got => Ret (g got))))).
Proof.
  induction fuel as [|f IH]; intros rs barr acc out H.
  - right. destruct rs as [|r [|r' rs]]; cbn [nbx_loop run fst In]; left; reflexivity.
  - cbn [nbx_loop] in *. destruct rs as [|r rs]; [discriminate|]. cbn [run] in *.
    set (acc' := if hd 0 r <? 0 then acc else (hd 0 r, tl r) :: acc) in *.
    destruct barr.
    + destruct rs as [|d rs]; [discriminate|]. cbn [run] in *.
      destruct (Z.eqb_spec (hd 0 d) 0) as [E|E].
      * destruct (run rs (nbx_loop f tag true acc' (fun got => Ret (g got)))) as [a o] eqn:Er. cbn [snd fst] in *.
        specialize (IH rs true acc' out). rewrite Er in IH. cbn [snd fst] in IH. destruct (IH H) as [Hx|Hm].
        -- left. apply ex_test_more; assumption.
        -- right. cbn [In]. auto.
      * left. apply ex_test_done. exact E.
    + destruct rs as [|s rs]; [discriminate|]. cbn [run] in *.
      destruct (Z.eqb_spec (hd 0 s) 0) as [E|E].
      * destruct (run rs (nbx_loop f tag false acc' (fun got => Ret (g got)))) as [a o] eqn:Er. cbn [snd fst] in *.
        specialize (IH rs false acc' out). rewrite Er in IH. cbn [snd fst] in IH. destruct (IH H) as [Hx|Hm].
        -- left. apply ex_testall_more; assumption.
        -- right. cbn [In]. auto.
      * destruct rs as [|b rs]; [discriminate|]. cbn [run] in *.
        destruct (run rs (nbx_loop f tag true acc' (fun got => Ret (g got)))) as [a o] eqn:Er. cbn [snd fst] in *.
        specialize (IH rs true acc' out). rewrite Er in IH. cbn [snd fst] in IH. destruct (IH H) as [Hx|Hm].
        -- left. apply ex_testall_sent; assumption.
        -- right. cbn [In]. auto.
Qed.

(* ---- (2) round semantics ---------------------------------------------------------------------------------------------- *)
(* outcome of one wildcard poll: nothing, or a message (source, data) *)
Definition poll_reply (m : option (Z * payload)) : payload := match m with None => [-1] | Some (s, d) => s :: d end.
Definition received (ms : list (option (Z * payload))) : list (Z * payload) :=
  flat_map (fun m => match m with None => [] | Some x => [x] end) ms.
Definition nonneg_src (ms : list (option (Z * payload))) : Prop := forall s d, In (Some (s, d)) ms -> 0 <= s.

(* iterations after the barrier was posted: its2 with Test = 0, then one with Test = 1 *)
Definition replies2 (its2 : list (option (Z * payload))) (m2 : option (Z * payload)) : list payload :=
  flat_map (fun m => [poll_reply m; [0]]) its2 ++ [poll_reply m2; [1]].
Definition acts2 (tag : Z) (n2 : nat) : list act :=
  concat (repeat [Recv ANY tag; Coll K_TEST (-1) []] (S n2)).

Lemma acc_step (m : option (Z * payload)) acc : (forall s d, m = Some (s, d) -> 0 <= s) ->
  (if hd 0 (poll_reply m) <? 0 then acc else (hd 0 (poll_reply m), tl (poll_reply m)) :: acc) = rev (received [m]) ++ acc.
Proof.
  intros H. destruct m as [[s d]|]; cbn [poll_reply hd tl received flat_map app rev].
  - specialize (H s d eq_refl). replace (s <? 0) with false by lia. reflexivity.
  - reflexivity.
Qed.

Lemma received_app a b : received (a ++ b) = received a ++ received b.
Proof. unfold received. apply flat_map_app. Qed.

Lemma received_cons m l : received (m :: l) = received [m] ++ received l.
Proof. exact (received_app [m] l). Qed.

Lemma run_loop2 tag (k : list (Z * payload) -> prog) : forall its2 m2 fuel acc rest,
  (length its2 < fuel)%nat -> nonneg_src (its2 ++ [m2]) ->
  run (replies2 its2 m2 ++ rest) (nbx_loop fuel tag true acc k) =
  let '(a, o) := run rest (k (rev acc ++ received (its2 ++ [m2]))) in (acts2 tag (length its2) ++ a, o).
Proof.
  induction its2 as [|m its2 IH]; intros m2 fuel acc rest Hf Hn.
  - destruct fuel as [|f]; [simpl in Hf; lia|]. unfold replies2. cbn [flat_map app nbx_loop run hd].
    rewrite acc_step by (intros s d E; apply (Hn s d); left; exact E). cbn [Z.eqb].
    rewrite rev_app_distr, rev_involutive.
    destruct (run rest (k (rev acc ++ received [m2]))). reflexivity.
  - destruct fuel as [|f]; [simpl in Hf; lia|]. unfold replies2. cbn [flat_map app nbx_loop run hd].
    rewrite acc_step by (intros s d E; apply (Hn s d); left; exact E). cbn [Z.eqb].
    change (flat_map (fun m0 => [poll_reply m0; [0]]) its2 ++ [poll_reply m2; [1]]) with (replies2 its2 m2).
    rewrite (IH m2 f (rev (received [m]) ++ acc) rest) by (try (simpl in Hf; lia); intros s d Hi; apply (Hn s d); right; exact Hi).
    rewrite rev_app_distr, rev_involutive, <- app_assoc.
    cbn [app]. rewrite (received_cons m (its2 ++ [m2])).
    match goal with |- context [run rest ?X] => destruct (run rest X) end.
    reflexivity.
Qed.

(* iterations before the barrier: its1 with Testall = 0, then one with Testall = 1 followed by the Ibarrier call *)
Definition replies1 (its1 : list (option (Z * payload))) (m1 : option (Z * payload)) : list payload :=
  flat_map (fun m => [poll_reply m; [0]]) its1 ++ [poll_reply m1; [1]; []].
Definition acts1 (tag : Z) (n1 : nat) : list act :=
  concat (repeat [Recv ANY tag; Coll K_TESTALL (-1) []] (S n1)) ++ [Coll K_IBARRIER (-1) []].

Lemma run_loop1 tag (k : list (Z * payload) -> prog) its2 m2 : forall its1 m1 fuel acc rest,
  (length its1 + length its2 + 1 < fuel)%nat -> nonneg_src (its1 ++ [m1] ++ its2 ++ [m2]) ->
  run (replies1 its1 m1 ++ replies2 its2 m2 ++ rest) (nbx_loop fuel tag false acc k) =
  let '(a, o) := run rest (k (rev acc ++ received (its1 ++ [m1] ++ its2 ++ [m2]))) in
  (acts1 tag (length its1) ++ acts2 tag (length its2) ++ a, o).
Proof.
  induction its1 as [|m its1 IH]; intros m1 fuel acc rest Hf Hn.
  - destruct fuel as [|f]; [simpl in Hf; lia|]. unfold replies1. cbn [flat_map app nbx_loop run hd].
    rewrite acc_step by (intros s d E; apply (Hn s d); left; exact E). cbn [Z.eqb].
    rewrite (run_loop2 tag k its2 m2 f (rev (received [m1]) ++ acc) rest) by (try (simpl in Hf; lia); intros s d Hi; apply (Hn s d); right; exact Hi).
    rewrite rev_app_distr, rev_involutive, <- app_assoc.
    cbn [app]. rewrite (received_cons m1 (its2 ++ [m2])).
    match goal with |- context [run rest ?X] => destruct (run rest X) end. reflexivity.
  - destruct fuel as [|f]; [simpl in Hf; lia|]. unfold replies1. cbn [flat_map app nbx_loop run hd].
    rewrite acc_step by (intros s d E; apply (Hn s d); left; exact E). cbn [Z.eqb].
    change (flat_map (fun m0 => [poll_reply m0; [0]]) its1 ++ [poll_reply m1; [1]; []]) with (replies1 its1 m1).
    rewrite (IH m1 f (rev (received [m]) ++ acc) rest) by (try (simpl in Hf; lia); intros s d Hi; apply (Hn s d); right; exact Hi).
    rewrite rev_app_distr, rev_involutive, <- app_assoc.
    cbn [app]. rewrite (received_cons m (its1 ++ m1 :: its2 ++ [m2])).
    match goal with |- context [run rest ?X] => destruct (run rest X) end.
    reflexivity.
Qed.

Section NbxRound.
  Variable P : Z.
  Variable R : Z -> list Z.
  Variable pay : Z -> Z -> payload.
  (* a schedule of the loop of rank me: polls before the barrier (its1, m1), polls after it (its2, m2) *)
  Variables its1 its2 : list (option (Z * payload)).
  Variables m1 m2 : option (Z * payload).

  (* ROUND SEMANTICS of nbx with payload: if the messages matched by the polls of `me` before its loop ends are the
     messages addressed to it ((s, pay s me) for the ranks s that listed it), each once, in the order `order`, the
     program returns them - ascending when sorted output is requested *)
  Theorem nbx_round me (sorted : bool) (order : list Z) fuel : 0 <= me < P ->
    Permutation order (transpose P R me) ->
    received (its1 ++ [m1] ++ its2 ++ [m2]) = map (fun s => (s, pay s me)) order ->
    (length its1 + length its2 + 1 < fuel)%nat ->
    let final := if sorted then transpose P R me else order in
    run (repeat [] (length (R me)) ++ replies1 its1 m1 ++ replies2 its2 m2)
        (nbx_core fuel (R me) (Some (map (pay me) (R me))) sorted (fun s g => Ret (result s g)))
    = (map (fun r => Send r c_SC_TAG_NOTIFY_NBX (pay me r)) (R me)
         ++ acts1 c_SC_TAG_NOTIFY_NBX (length its1) ++ acts2 c_SC_TAG_NOTIFY_NBX (length its2),
       Some (result final (map (fun s => pay s me) final))).
  Proof.
    intros Hme Hperm Hrecv Hfuel final. unfold nbx_core. rewrite zip_map_l.
    set (S := map (fun rp : Z * payload => (fst rp, c_SC_TAG_NOTIFY_NBX, snd rp)) (map (fun x => (x, pay me x)) (R me))).
    assert (HlenS : length S = length (R me)) by (unfold S; rewrite !map_length; reflexivity).
    rewrite <- HlenS. rewrite run_do_sends.
    rewrite <- (app_nil_r (replies2 its2 m2)).
    assert (Hnn : nonneg_src (its1 ++ [m1] ++ its2 ++ [m2])).
    { intros s d Hin. assert (Hr : In (s, d) (received (its1 ++ [m1] ++ its2 ++ [m2]))).
      { unfold received. apply in_flat_map. exists (Some (s, d)). split; [exact Hin|left; reflexivity]. }
      rewrite Hrecv in Hr. apply in_map_iff in Hr. destruct Hr as [q [E Hq]]. inversion E; subst.
      apply (Permutation_in _ Hperm) in Hq. apply transpose_In in Hq. lia. }
    rewrite (run_loop1 c_SC_TAG_NOTIFY_NBX _ its2 m2 its1 m1 fuel [] [] Hfuel Hnn). rewrite Hrecv. cbn [rev app].
    assert (Hgot : (if sorted then sort_by_src (map (fun s => (s, pay s me)) order) else map (fun s => (s, pay s me)) order)
                   = map (fun s => (s, pay s me)) final).
    { unfold final. destruct sorted; [|reflexivity]. apply (sort_arrivals (fun s => pay s me)); [apply transpose_ssorted|assumption]. }
    rewrite Hgot. cbn [run]. rewrite !app_nil_r. unfold S. rewrite !map_map. cbn [fst snd]. rewrite map_id. reflexivity.
  Qed.
End NbxRound.
