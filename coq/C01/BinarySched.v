(* C01 - the binary notify recursion (sc_notify_recursive) under EVERY SCHEDULE of the interleaving semantics with wildcard
   receives (MPI/SemAny.v), every communicator size incl. non powers of two: the round abstraction of C01/BinaryRound.v (the
   wildcard receive of a level returns one of the at most two messages of that level addressed to the rank, the named receive
   the other one - parameter `first2` of binary_round_semantics_all) is DISCHARGED.

   System: rank r, 0 <= r < G, runs the co-simulated program  binary_core G r (R r) None (fun s g => Ret (result s g)).
   Instance of MPI/SemRounds.all_schedules: level j = half length 2^j, tag SC_TAG_NOTIFY_RECURSIVE + j + 1, one send to the
   generated peer if it exists, sources lvl_srcs (peer if peer >= start, peer2 if it exists), first receive of a level a
   wildcard, the second one named. *)
From Coq Require Import ZArith Lia List Bool Permutation.
From ScV Require Import Base.CInt MPI.Prog MPI.Sem MPI.SemAny MPI.SemRounds Gen.Consts Gen.NotifyC01 C01.NaryArith C01.BinaryArith
     C01.MergeModel C01.MergeProofs C01.NotifyProgs C01.NotifyProgProofs C01.RecordOps C01.BinaryRound C01.NaryRound C01.NarySched.
Import ListNotations.
Local Open Scope Z_scope.

(* ---- arithmetic: the peers of a level are ranks of the communicator ----------------------------------------------------------- *)
Section BinLevel.
  Variable G : Z.
  Variable j : nat.
  Hypothesis HG : 0 < G <= BIG.
  Hypothesis HB : 2 * 2 ^ Z.of_nat j <= BIG.

  Lemma bpeer_range q : 0 <= q < G -> 0 <= bpeer (Z.of_nat j) G q -> bpeer (Z.of_nat j) G q < G.
  Proof.
    intros Hq Hp. set (zj := Z.of_nat j) in *. assert (Hzj : 0 <= zj) by (unfold zj; lia).
    assert (Hh : 0 < 2 ^ zj) by (apply Z.pow_pos_nonneg; lia).
    unfold bpeer in *. rewrite (binary_peers_spec zj G Hzj HG HB q Hq) in *. cbn [fst] in *. unfold bsend_spec, bhalf in *.
    pose proof (bhalf_range (2 ^ zj) q Hh ltac:(lia)) as Ha. unfold bhalf in Ha.
    apply (sendp_part (2 ^ zj) 2 G Hh ltac:(lia) HG HB q (1 - gpart (2 ^ zj) 2 q) Hq ltac:(lia) ltac:(lia) Hp).
  Qed.

  Lemma bpeer2_range q : 0 <= q < G -> 0 <= bpeer2 (Z.of_nat j) G q -> bpeer2 (Z.of_nat j) G q < G.
  Proof.
    intros Hq Hp. set (zj := Z.of_nat j) in *. assert (Hzj : 0 <= zj) by (unfold zj; lia).
    unfold bpeer2 in *. rewrite (binary_peers_spec zj G Hzj HG HB q Hq) in *. cbn [snd] in *. unfold brecv2_spec in *.
    destruct (bhalf (2 ^ zj) q =? 1); cbn [andb] in *; [|lia]. destruct (Z.ltb_spec (q + 2 ^ zj) G); cbn [andb] in *; [|lia].
    destruct (G <=? q + 2 * 2 ^ zj); lia.
  Qed.

  Lemma lvl_srcs_range me first2 q : 0 <= me < G -> In q (lvl_srcs G j me first2) -> 0 <= q < G.
  Proof.
    intros Hme Hin. unfold lvl_srcs in Hin. cbv zeta in Hin.
    assert (Hst : 0 <= bstart (Z.of_nat j) me).
    { unfold bstart, gstart. assert (0 < 2 * 2 ^ Z.of_nat j) by (assert (0 < 2 ^ Z.of_nat j) by (apply Z.pow_pos_nonneg; lia); lia).
      apply Z.mul_nonneg_nonneg; [apply Z.div_pos; lia|lia]. }
    destruct (Z.leb_spec (bstart (Z.of_nat j) me) (bpeer (Z.of_nat j) G me)) as [H1|H1]; [|contradiction].
    assert (Hpe : 0 <= bpeer (Z.of_nat j) G me < G) by (split; [lia|apply bpeer_range; [exact Hme|lia]]).
    destruct (Z.leb_spec 0 (bpeer2 (Z.of_nat j) G me)) as [H2|H2].
    - assert (Hp2 : 0 <= bpeer2 (Z.of_nat j) G me < G) by (split; [lia|apply bpeer2_range; [exact Hme|lia]]).
      destruct first2; cbn [In] in Hin; intuition lia.
    - cbn [In] in Hin. intuition lia.
  Qed.

  (* a permutation of the sources is one of the two arrival orders of BinaryRound *)
  Lemma lvl_srcs_perm me o : 0 <= me < G -> Permutation o (lvl_srcs G j me false) ->
    lvl_srcs G j me (negb (hd 0 o =? bpeer (Z.of_nat j) G me)) = o.
  Proof.
    intros Hme Hp. pose proof (binary_sources_distinct_gen (Z.of_nat j) G me ltac:(lia) HG HB Hme) as Hd.
    unfold lvl_srcs in *. cbv zeta in *.
    destruct (bstart (Z.of_nat j) me <=? bpeer (Z.of_nat j) G me); [|apply Permutation_sym, Permutation_nil in Hp; symmetry; exact Hp].
    destruct (Z.leb_spec 0 (bpeer2 (Z.of_nat j) G me)) as [H2|H2].
    - destruct (Hd H2) as [A _]. apply Permutation_sym, Permutation_length_2_inv in Hp. destruct Hp as [->| ->]; cbn [hd].
      + rewrite Z.eqb_refl. reflexivity.
      + destruct (Z.eqb_spec (bpeer2 (Z.of_nat j) G me) (bpeer (Z.of_nat j) G me)); [contradiction|reflexivity].
    - apply Permutation_sym, Permutation_length_1_inv in Hp. subst o. reflexivity.
  Qed.
End BinLevel.

Lemma ltag_inj j1 j2 : ltag j1 = ltag j2 -> j1 = j2.
Proof. unfold ltag. lia. Qed.

Lemma list_sum_const (c : nat) : forall m s, list_sum (map (fun _ : nat => c) (seq s m)) = (c * m)%nat.
Proof. induction m as [|m IH]; intros s; [cbn; lia|]. cbn [seq map]. rewrite list_sum_cons, IH. lia. Qed.

(* ---- the system ------------------------------------------------------------------------------------------------------------------- *)
Section BinarySystem.
  Variable G : Z.
  Variable R : Z -> list Z.
  Variable n : nat.                                 (* number of levels: binary_pow2length G = 2 ^ n *)

  Definition binary_prog (r : Z) : prog := if inr G r then binary_core G r (R r) None (fun s g => Ret (result s g)) else Ret [].
  Definition binary_sys : gs := mkgs binary_prog (fun _ _ _ => []).
  Definition binary_out (r : Z) : payload := if inr G r then result (transpose G R r) [] else [].

  Definition bsendsI (r : Z) (j : nat) : list (Z * payload) :=
    if inr G r then (if 0 <=? bpeer (Z.of_nat j) G r then [(bpeer (Z.of_nat j) G r, wire G R j r)] else []) else [].
  Definition bsrcsI (r : Z) (j : nat) : list Z := if inr G r then lvl_srcs G j r false else [].
  Definition bwireI (j : nat) (q r : Z) : payload := wire G R j q.
  Definition bnamedI : Z -> nat -> nat -> bool := fun _ _ i => negb (Nat.eqb i 0).   (* every receive of a level but the first *)
  (* the number of steps of every maximal run *)
  Definition binary_steps : nat := total_len n bsendsI bsrcsI (ranks G).

  Hypothesis HG : 0 < G <= BIG.
  Hypothesis HnB : 2 ^ Z.of_nat n <= BIG.

  Lemma level_small j : (j < n)%nat -> 2 * 2 ^ Z.of_nat j <= BIG.
  Proof.
    intros Hj. replace (2 * 2 ^ Z.of_nat j) with (2 ^ Z.of_nat (S j)) by (rewrite Nat2Z.inj_succ, Z.pow_succ_r by lia; reflexivity).
    eapply Z.le_trans; [|exact HnB]. apply Z.pow_le_mono_r; lia.
  Qed.

  Lemma B_out r l : ~ In r (ranks G) -> bsendsI r l = [] /\ bsrcsI r l = [].
  Proof. intros Hr. unfold bsendsI, bsrcsI. destruct (inr G r) eqn:E; [apply inr_ranks in E; contradiction|auto]. Qed.

  Lemma B_dst r l : NoDup (map fst (bsendsI r l)).
  Proof. unfold bsendsI. destruct (inr G r); [|constructor]. destruct (0 <=? _); repeat constructor. intros []. Qed.

  Lemma B_src r l : (l < n)%nat -> NoDup (bsrcsI r l).
  Proof.
    intros Hl. unfold bsrcsI. destruct (inr G r) eqn:E; [|constructor]. apply inr_spec in E.
    apply (lvl_srcs_ok G HG l r false (level_small l Hl) E).
  Qed.

  Lemma B_src0 r l q : (l < n)%nat -> In q (bsrcsI r l) -> 0 <= q.
  Proof.
    intros Hl. unfold bsrcsI. destruct (inr G r) eqn:E; [|intros []]. apply inr_spec in E. intros Hq.
    apply (lvl_srcs_range G l HG (level_small l Hl) r false q E Hq).
  Qed.

  Lemma B_match1 q l d m : (l < n)%nat -> In (d, m) (bsendsI q l) -> In q (bsrcsI d l) /\ m = bwireI l q d.
  Proof.
    intros Hl. unfold bsendsI, bsrcsI, bwireI. destruct (inr G q) eqn:E; [|intros []]. apply inr_spec in E.
    destruct (Z.leb_spec 0 (bpeer (Z.of_nat l) G q)) as [Hp|Hp]; [|intros []]. intros [Ed|[]]. injection Ed as <- <-.
    pose proof (bpeer_range G l HG (level_small l Hl) q E Hp) as Hlt.
    assert (Hd : 0 <= bpeer (Z.of_nat l) G q < G) by lia. pose proof Hd as Hd'. apply inr_spec in Hd'. rewrite Hd'. split; [|reflexivity].
    apply (proj2 (proj2 (lvl_srcs_ok G HG l _ false (level_small l Hl) Hd)) q E). reflexivity.
  Qed.

  Lemma B_match2 r l q : (l < n)%nat -> In q (bsrcsI r l) -> In (r, bwireI l q r) (bsendsI q l).
  Proof.
    intros Hl. unfold bsendsI, bsrcsI, bwireI. destruct (inr G r) eqn:E; [|intros []]. apply inr_spec in E. intros Hq.
    pose proof (lvl_srcs_range G l HG (level_small l Hl) r false q E Hq) as Hqr.
    apply (proj2 (proj2 (lvl_srcs_ok G HG l r false (level_small l Hl) E)) q Hqr) in Hq.
    pose proof Hqr as Hqr'. apply inr_spec in Hqr'. rewrite Hqr', Hq. destruct (Z.leb_spec 0 r); [left; reflexivity|lia].
  Qed.

  (* the script of a rank is the history of the round-semantics theorem *)
  Definition first2_of (ord : nat -> list Z) (j : nat) (me : Z) : bool := negb (hd 0 (ord j) =? bpeer (Z.of_nat j) G me).

  Lemma levels_replies_flat first2 me : forall m j,
    levels_replies G R first2 j m me = flat_map (fun j => lvl_replies G R j me (first2 j me)) (seq j m).
  Proof. induction m as [|m IH]; intros j; [reflexivity|]. cbn [levels_replies seq flat_map]. rewrite IH. reflexivity. Qed.
  Lemma levels_acts_flat first2 me : forall m j,
    levels_acts G R first2 j m me = flat_map (fun j => lvl_acts G R j me (first2 j me)) (seq j m).
  Proof. induction m as [|m IH]; intros j; [reflexivity|]. cbn [levels_acts seq flat_map]. rewrite IH. reflexivity. Qed.

  (* one level, for any numbering p of the level inside a script (used again for two calls in sequence, C01/BinaryTwice.v) *)
  Lemma blevel_replies (wireF : nat -> Z -> Z -> payload) (named : Z -> nat -> nat -> bool) r j p o : 0 <= r < G -> (j < n)%nat ->
    (forall q, wireF p q r = wire G R j q) -> Permutation o (lvl_srcs G j r false) ->
    map (reply_of wireF r) (map (fun dm => ISend p (fst dm) (snd dm)) (bsendsI r j) ++ mkrecvs named r p 0 o) =
    lvl_replies G R j r (negb (hd 0 o =? bpeer (Z.of_nat j) G r)).
  Proof.
    intros Hr Hj Hw Hp. pose proof Hr as Hr'. apply inr_spec in Hr'.
    unfold lvl_replies. rewrite map_app, replies_sends, replies_recvs.
    rewrite (lvl_srcs_perm G j HG (level_small j Hj) r o Hr Hp). unfold bsendsI. rewrite Hr'.
    rewrite (map_ext _ _ (fun q => f_equal (cons q) (Hw q))).
    destruct (0 <=? bpeer (Z.of_nat j) G r); reflexivity.
  Qed.

  Lemma blevel_acts (tagF : nat -> Z) (named : Z -> nat -> nat -> bool) r j p o : 0 <= r < G -> (j < n)%nat ->
    tagF p = ltag j -> named r p 0%nat = false -> named r p 1%nat = true -> Permutation o (lvl_srcs G j r false) ->
    map (act_of tagF) (map (fun dm => ISend p (fst dm) (snd dm)) (bsendsI r j) ++ mkrecvs named r p 0 o) =
    lvl_acts G R j r (negb (hd 0 o =? bpeer (Z.of_nat j) G r)).
  Proof.
    intros Hr Hj Ht Hn0 Hn1 Hp. pose proof Hr as Hr'. apply inr_spec in Hr'.
    unfold lvl_acts. rewrite map_app, acts_sends, Ht.
    rewrite (lvl_srcs_perm G j HG (level_small j Hj) r o Hr Hp). unfold bsendsI. rewrite Hr'. f_equal.
    - destruct (0 <=? bpeer (Z.of_nat j) G r); reflexivity.
    - assert (Hlen : (length o <= 2)%nat).
      { rewrite (Permutation_length Hp). unfold lvl_srcs. cbv zeta. destruct (_ <=? _); [destruct (0 <=? _)|]; cbn [length]; lia. }
      destruct o as [|a [|b [|c o]]]; cbn [mkrecvs map act_of]; rewrite ?Hn0, ?Hn1, ?Ht; [reflexivity|reflexivity|reflexivity|cbn [length] in Hlen; lia].
  Qed.

  Lemma bsrcs_perm r ord j : 0 <= r < G -> (j < n)%nat -> valid n bsrcsI r ord -> Permutation (ord j) (lvl_srcs G j r false).
  Proof. intros Hr Hj Hv. pose proof (Hv j Hj) as Hp. unfold bsrcsI in Hp. apply inr_spec in Hr. rewrite Hr in Hp. exact Hp. Qed.

  Lemma bscript_replies r ord : 0 <= r < G -> valid n bsrcsI r ord ->
    map (reply_of bwireI r) (script n bsendsI bnamedI r ord) = levels_replies G R (first2_of ord) 0 n r.
  Proof.
    intros Hr Hv. unfold script. rewrite map_flat_map, levels_replies_flat. apply flat_map_ext_in. intros j Hj. apply in_seq in Hj.
    unfold lvl_items, first2_of. apply blevel_replies; [exact Hr|lia|reflexivity|apply bsrcs_perm; [exact Hr|lia|exact Hv]].
  Qed.

  Lemma bscript_acts r ord : 0 <= r < G -> valid n bsrcsI r ord ->
    map (act_of ltag) (script n bsendsI bnamedI r ord) = levels_acts G R (first2_of ord) 0 n r.
  Proof.
    intros Hr Hv. unfold script. rewrite map_flat_map, levels_acts_flat. apply flat_map_ext_in. intros j Hj. apply in_seq in Hj.
    unfold lvl_items, first2_of. apply blevel_acts; [exact Hr|lia|reflexivity|reflexivity|reflexivity|apply bsrcs_perm; [exact Hr|lia|exact Hv]].
  Qed.

  (* closed bound: at most one send and two receives per rank and level *)
  Lemma binary_steps_le : (binary_steps <= Z.to_nat G * (3 * n))%nat.
  Proof.
    unfold binary_steps. rewrite <- (ranks_length G).
    replace (3 * n)%nat with (list_sum (map (fun _ : nat => 3%nat) (seq 0 n))).
    - apply total_len_bound. intros r l _ _. cbv beta. unfold bsendsI, bsrcsI. destruct (inr G r); [|cbn; lia].
      assert (H1 : (length (if (0 <=? bpeer (Z.of_nat l) G r)%Z then [(bpeer (Z.of_nat l) G r, wire G R l r)] else []) <= 1)%nat) by (destruct (0 <=? _)%Z; cbn; lia).
      assert (H2 : (length (lvl_srcs G l r false) <= 2)%nat) by (unfold lvl_srcs; cbv zeta; destruct (bstart _ _ <=? _)%Z; [destruct (0 <=? bpeer2 _ _ _)%Z|]; cbn; lia).
      exact (Nat.add_le_mono _ _ _ _ H1 H2).
    - apply list_sum_const.
  Qed.
End BinarySystem.

Theorem binary_every_schedule G (R : Z -> list Z) :
  0 < G <= BIG ->
  (forall f, 0 <= f < G -> ssorted (fun x => x) (R f) /\ forall t, In t (R f) -> 0 <= t < G) ->
  exists n : nat, binary_pow2length G = 2 ^ Z.of_nat n /\
  forall k s, run_a k (binary_sys G R) s ->
    ~ stuck s /\
    (k <= binary_steps G R n)%nat /\
    (final s <-> k = binary_steps G R n) /\
    (final s -> (forall r, 0 <= r < G -> pr s r = Ret (result (transpose G R r) [])) /\ (forall a b t, ch s a b t = [])).
Proof.
  intros HG HR. destruct (pow2length_levels G HG) as [n [Hn [HB [HP H29]]]]. exists n. split; [exact Hn|].
  assert (HroundI : forall r ord, valid n (bsrcsI G) r ord ->
            feed (map (reply_of (bwireI G R) r) (script n (bsendsI G R) bnamedI r ord)) (binary_prog G R r) =
            (map (act_of ltag) (script n (bsendsI G R) bnamedI r ord), Some (binary_out G R r))).
  { intros r ord Hv. unfold binary_prog, binary_out. destruct (inr G r) eqn:E.
    - apply inr_spec in E. rewrite feed_run, (bscript_replies G R n HG HB r ord E Hv), (bscript_acts G R n HG HB r ord E Hv).
      apply (binary_round_semantics G R HG HR (first2_of G ord) n Hn HB HP ltac:(lia) r E).
    - assert (Hs : script n (bsendsI G R) bnamedI r ord = []).
      { apply (script_out n (bsendsI G R) (bsrcsI G) bnamedI (ranks G) (B_out G R) r ord); [|exact Hv].
        intros Hin. apply inr_ranks in Hin. congruence. }
      rewrite Hs. reflexivity. }
  intros k s Hrun.
  pose proof (all_schedules n ltag (bsendsI G R) (bsrcsI G) (bwireI G R) bnamedI (binary_prog G R) (binary_out G R) (ranks G)
                (ranks_NoDup G) (B_out G R) (compat_of_injective _ _ _ _ (fun l1 l2 _ _ => ltag_inj l1 l2)) (fun r l _ => B_dst G R r l) (B_src G n HG HB) (B_src0 G n HG HB)
                (B_match1 G R n HG HB) (B_match2 G R n HG HB) HroundI k s Hrun) as [A [B [C E]]].
  split; [exact A|]. split; [exact B|]. split; [exact C|]. intros Hf. destruct (E Hf) as [E1 E2]. split; [|exact E2].
  intros r Hr. rewrite E1. unfold binary_out. apply inr_spec in Hr. rewrite Hr. reflexivity.
Qed.
