(* C01/C02 - RECORD-LEVEL ROUND SEMANTICS of the binary recursion, stated against the per-rank program
   NotifyProgs.binary_core (the program that is co-simulated with the real code).

   Global picture of level j (half length 2^j): every rank q holds the record array `spec j q`; it sends the records
   whose destination is not congruent to q modulo 2 * 2^j (`wire j q`) to the peer computed by the GENERATED slice
   binary_peers, keeps the rest, and merges what it receives with sc_notify_merge's model in the order of arrival.
   `spec j q` is the canonical array of the notifications (t, f) whose holder after j levels (BinaryArith.bdeliver,
   built from the generated slice) is q.  The level lemma composes matching + routing + merge algebra: whatever the
   order of arrival, the array after the level is `spec (j+1) me`.  After the last level `spec n me` is the single
   record (me, ascending senders). *)
From Coq Require Import ZArith Lia List Bool Permutation Sorting.Sorted.
From ScV Require Import Base.CInt MPI.Prog Gen.Consts Gen.Macros C18.MacroProofs Gen.NotifyC01 C01.NaryArith C01.BinaryArith
     C01.MergeModel C01.MergeProofs C01.MergeCorr C01.NotifyProgs C01.NotifyProgProofs C01.RecordOps.
Import ListNotations.
Local Open Scope Z_scope.

Lemma pow2_S (j : nat) : 2 ^ Z.of_nat (S j) = 2 * 2 ^ Z.of_nat j.
Proof. rewrite Nat2Z.inj_succ, Z.pow_succ_r by lia. reflexivity. Qed.

Lemma bdeliver_snoc G t : forall n j0 h, bdeliver (S n) j0 G h t = broute (j0 + Z.of_nat n) G (bdeliver n j0 G h t) t.
Proof.
  induction n as [|n IH]; intros j0 h.
  - cbn [bdeliver]. replace (j0 + Z.of_nat 0) with j0 by lia. reflexivity.
  - change (bdeliver (S (S n)) j0 G h t) with (bdeliver (S n) (j0 + 1) G (broute j0 G h t) t).
    rewrite IH. cbn [bdeliver]. f_equal. lia.
Qed.

Lemma broute_bpeer j G q t : broute j G q t = if t mod (2 * 2 ^ j) =? q mod (2 * 2 ^ j) then q else bpeer j G q.
Proof. reflexivity. Qed.

(* generic: merging a family of pairwise disjoint arrays into an accumulator *)
Lemma fold_rmerge : forall (L : list (list rcd)) acc,
  wfr acc -> Forall wfr L -> Forall (disj acc) L -> ForallOrdPairs disj L ->
  wfr (fold_left rmerge L acc) /\
  forall p, In p (pairs (fold_left rmerge L acc)) <-> In p (pairs acc) \/ exists x, In x L /\ In p (pairs x).
Proof.
  induction L as [|x L IH]; intros acc Hw HL Hd Hp.
  - cbn [fold_left]. split; [assumption|]. intros p. split; [auto|]. intros [H|[x [[] _]]]. assumption.
  - cbn [fold_left]. inversion HL; subst. inversion Hd; subst. inversion Hp; subst.
    destruct (IH (rmerge acc x)) as [W P].
    + apply rmerge_wf; assumption.
    + assumption.
    + rewrite Forall_forall in *. intros y Hy. apply disj_rmerge_l; auto.
    + assumption.
    + split; [exact W|]. intros p. rewrite P, rmerge_pairs_In. split.
      * intros [[H|H]|[y [Hy H]]]; [left; assumption|right; exists x; split; [left; reflexivity|assumption]|right; exists y; split; [right; assumption|assumption]].
      * intros [H|[y [[<-|Hy] H]]]; [left; left; assumption|left; right; assumption|right; exists y; auto].
Qed.

Lemma rfilter_all g rs : rfilter (fun t => negb (g t)) rs = [] -> rfilter g rs = rs.
Proof.
  unfold rfilter. induction rs as [|r rs IH]; [reflexivity|]. cbn [filter]. destruct (g (fst r)); cbn [negb]; [|discriminate].
  intros H. f_equal. apply IH. exact H.
Qed.

(* ---- int level: split_records / marking on encoded arrays without payload ---------------------------------------- *)
Definition markg (g : Z -> bool) (rs : list rcd) : list rcd := map (fun r => if g (fst r) then r else (-1, snd r)) rs.

Lemma enc_rcd_length0 r : wfitems 0 (snd r) -> length (enc_rcd r) = Z.to_nat (2 + Z.of_nat (length (snd r))).
Proof.
  intros H. rewrite (enc_rcd_length 0 r H). unfold reclen. f_equal. change (Z.of_nat 1) with 1. lia.
Qed.

Lemma split_records_encode len me : 0 < len -> 0 <= me -> forall fuel rs,
  wfpay 0 rs -> (forall r, In r rs -> 0 <= fst r) -> (length rs <= fuel)%nat ->
  split_records fuel len me (encode rs) =
  (encode (rfilter (fun t => negb (t mod len =? me mod len)) rs), encode (markg (fun t => t mod len =? me mod len) rs)).
Proof.
  intros Hlen Hme. induction fuel as [|f IH]; intros rs Hw Hpos Hl.
  - destruct rs; [reflexivity|simpl in Hl; lia].
  - destruct rs as [|r rs]; [reflexivity|]. inversion Hw as [|? ? Hr Hrs]; subst.
    assert (Hr0 : 0 <= fst r) by (apply Hpos; left; reflexivity).
    rewrite encode_cons. unfold enc_rcd at 1. cbn [app split_records].
    change (fst r :: Z.of_nat (length (snd r)) :: flat_map enc_item (snd r) ++ encode rs) with (enc_rcd r ++ encode rs).
    rewrite firstn_app_exact by (symmetry; apply enc_rcd_length0; assumption).
    rewrite skipn_app_exact by (symmetry; apply enc_rcd_length0; assumption).
    rewrite IH; [|assumption|intros q Hq; apply Hpos; right; assumption|simpl in Hl; lia].
    rewrite !rem_nonneg by lia.
    unfold rfilter, markg. cbn [filter map].
    destruct (fst r mod len =? me mod len); cbn [negb]; rewrite !encode_cons; reflexivity.
Qed.

Lemma live_id rs : (forall r, In r rs -> fst r <> -1) -> live rs = rs.
Proof.
  unfold live. induction rs as [|r rs IH]; intros H; [reflexivity|]. cbn [filter].
  assert (fst r <> -1) by (apply H; left; reflexivity). destruct (Z.eqb_spec (fst r) (-1)); [contradiction|]. cbn [negb].
  f_equal. apply IH. intros q Hq. apply H. right. assumption.
Qed.

Lemma live_markg g rs : (forall r, In r rs -> fst r <> -1) -> live (markg g rs) = rfilter g rs.
Proof.
  unfold live, markg, rfilter. induction rs as [|r rs IH]; intros H; [reflexivity|]. cbn [map filter].
  assert (fst r <> -1) by (apply H; left; reflexivity).
  destruct (g (fst r)).
  - destruct (Z.eqb_spec (fst r) (-1)); [contradiction|]. cbn [negb]. f_equal. apply IH. intros q Hq. apply H. right. assumption.
  - cbn [fst]. rewrite Z.eqb_refl. cbn [negb]. apply IH. intros q Hq. apply H. right. assumption.
Qed.

Lemma markg_wfpay n g rs : wfpay n rs -> wfpay n (markg g rs).
Proof.
  unfold wfpay, markg. rewrite !Forall_forall. intros H r Hr. apply in_map_iff in Hr. destruct Hr as [q [<- Hq]].
  destruct (g (fst q)); cbn [snd]; apply H; assumption.
Qed.

(* ---- run, one action at a time ------------------------------------------------------------------------------------- *)
Lemma run_send r rest d t m p : run (r :: rest) (send d t m p) = let '(a, o) := run rest p in (Send d t m :: a, o).
Proof. reflexivity. Qed.
Lemma run_recv_any s m rest t k : run ((s :: m) :: rest) (recv_any t k) = let '(a, o) := run rest (k s m) in (Recv ANY t :: a, o).
Proof. reflexivity. Qed.
Lemma run_recv s m rest src t k : run ((s :: m) :: rest) (recv src t k) = let '(a, o) := run rest (k m) in (Recv src t :: a, o).
Proof. reflexivity. Qed.

(* ---- two more facts about the generated peers -------------------------------------------------------------------------- *)
Lemma bpeer_ne_me j G me : 0 <= j -> 0 < G <= BIG -> 2 * 2 ^ j <= BIG -> 0 <= me < G -> bpeer j G me <> me.
Proof.
  intros Hj HG HW Hme. unfold bpeer. rewrite (binary_peers_spec j G Hj HG HW me Hme). cbn [fst].
  unfold bsend_spec, sendp. cbv zeta. assert (Hh : 0 < 2 ^ j) by (apply Z.pow_pos_nonneg; lia).
  pose proof (bhalf_range (2 ^ j) me Hh ltac:(lia)) as Ha.
  assert (Ha01 : bhalf (2 ^ j) me = 0 \/ bhalf (2 ^ j) me = 1) by lia.
  destruct Ha01 as [-> | ->]; match goal with |- context [if ?c then _ else _] => destruct c end; lia.
Qed.

Lemma peer2_guard j G me : 0 <= j -> 0 < G <= BIG -> 2 * 2 ^ j <= BIG -> 0 <= me < G ->
  0 <= bpeer2 j G me -> bstart j me <= bpeer j G me.
Proof.
  intros Hj HG HW Hme. unfold bpeer, bpeer2, bstart. rewrite (binary_peers_spec j G Hj HG HW me Hme). cbn [fst snd].
  unfold brecv2_spec, bsend_spec, sendp. cbv zeta. assert (Hh : 0 < 2 ^ j) by (apply Z.pow_pos_nonneg; lia).
  destruct (canon (2 ^ j) 2 Hh ltac:(lia) me ltac:(lia)) as [Hd [Hs [Hpa Ho]]]. fold (bhalf (2 ^ j) me) in Hd, Hpa.
  destruct (bhalf (2 ^ j) me =? 1) eqn:E; cbn [andb]; [|lia].
  assert (Ha : bhalf (2 ^ j) me = 1) by lia. rewrite Ha in *.
  destruct ((me + 2 ^ j <? G) && (G <=? me + 2 * 2 ^ j)); [|lia]. intros _.
  replace (me + (1 - 1 - 1) * 2 ^ j) with (me - 2 ^ j) by ring. unfold gstart.
  destruct (G <=? me - 2 ^ j) eqn:E2; [lia|]. nia.
Qed.

Section BinaryRound.
  Variable G : Z.
  Variable R : Z -> list Z.
  Hypothesis HG : 0 < G <= BIG.
  (* precondition of notify: receiver lists ascending, duplicate free, inside the communicator *)
  Hypothesis HR : forall f, 0 <= f < G -> ssorted (fun x => x) (R f) /\ forall t, In t (R f) -> 0 <= t < G.

  Definition hold (j : nat) (f t : Z) : Z := bdeliver j 0 G f t.
  Definition spec (j : nat) (me : Z) : list rcd :=
    build G (fun t f => memz t (R f) && (hold j f t =? me)) (fun _ _ => []).
  Definition keepg (j : nat) (me t : Z) : bool := t mod (2 * 2 ^ Z.of_nat j) =? me mod (2 * 2 ^ Z.of_nat j).
  Definition bkeep (j : nat) (me : Z) (rs : list rcd) : list rcd := rfilter (keepg j me) rs.
  Definition bout (j : nat) (me : Z) (rs : list rcd) : list rcd := rfilter (fun t => negb (keepg j me t)) rs.
  (* the message of rank q at level j, as records and on the wire *)
  Definition msg (j : nat) (q : Z) : list rcd := bout j q (spec j q).
  Definition wire (j : nat) (q : Z) : list Z := encode (msg j q).

  Lemma hold_S j f t : hold (S j) f t = broute (Z.of_nat j) G (hold j f t) t.
  Proof. unfold hold. rewrite bdeliver_snoc. reflexivity. Qed.

  Lemma pow2_mono (a b : nat) : (a <= b)%nat -> 2 ^ Z.of_nat a <= 2 ^ Z.of_nat b.
  Proof. intros. apply Z.pow_le_mono_r; lia. Qed.

  Lemma hold_inv : forall j f t, 2 ^ Z.of_nat j <= BIG -> 0 <= f < G -> 0 <= t < G ->
    0 <= hold j f t < G /\ t mod 2 ^ Z.of_nat j = hold j f t mod 2 ^ Z.of_nat j.
  Proof.
    induction j as [|j IH]; intros f t HB Hf Ht.
    - unfold hold. cbn [bdeliver]. change (2 ^ Z.of_nat 0) with 1. rewrite !Z.mod_1_r. auto.
    - assert (HB' : 2 ^ Z.of_nat j <= BIG) by (eapply Z.le_trans; [apply (pow2_mono j (S j)); lia|exact HB]).
      destruct (IH f t HB' Hf Ht) as [Hr Hm]. rewrite hold_S. rewrite pow2_S in HB.
      destruct (broute_inv (Z.of_nat j) G (hold j f t) t ltac:(lia) HG HB Hr Ht Hm) as [A B].
      split; [exact A|]. rewrite pow2_S. replace (2 * 2 ^ Z.of_nat j) with (2 ^ (Z.of_nat j + 1)) by (rewrite Z.pow_add_r by lia; ring). exact B.
  Qed.

  Lemma spec_pairs j me t f p :
    In (t, (f, p)) (pairs (spec j me)) <-> 0 <= t < G /\ 0 <= f < G /\ In t (R f) /\ hold j f t = me /\ p = [].
  Proof.
    unfold spec. rewrite build_pairs, andb_true_iff, memz_In, Z.eqb_eq. tauto.
  Qed.

  Lemma spec_wfr j me : wfr (spec j me).   Proof. apply build_wfr. Qed.
  Lemma spec_wfpay j me : wfpay 0 (spec j me).   Proof. apply build_wfpay. reflexivity. Qed.

  Lemma spec_toranks j me r : In r (spec j me) -> 0 <= fst r < G.
  Proof. intros H. apply (build_in_rec _ _ _ _ H). Qed.

  (* ---- one level, abstractly: any arrival order of the messages addressed to me ---------------------------------- *)
  Lemma level_merge j me (srcs : list Z) :
    2 * 2 ^ Z.of_nat j <= BIG -> 0 <= me < G -> NoDup srcs -> ~ In me srcs ->
    (forall q, 0 <= q < G -> (bpeer (Z.of_nat j) G q = me <-> In q srcs)) ->
    fold_left rmerge (map (msg j) srcs) (bkeep j me (spec j me)) = spec (S j) me.
  Proof.
    intros HB Hme Hnd Hnot Hsrc.
    assert (HBj : 2 ^ Z.of_nat j <= BIG) by lia.
    destruct (fold_rmerge (map (msg j) srcs) (bkeep j me (spec j me))) as [W Pm].
    - apply rfilter_wfr, spec_wfr.
    - apply Forall_forall. intros x Hx. apply in_map_iff in Hx. destruct Hx as [q [<- _]]. apply rfilter_wfr, spec_wfr.
    - apply Forall_forall. intros x Hx. apply in_map_iff in Hx. destruct Hx as [q [<- Hq]].
      intros t [f1 p1] [f2 p2] H1 H2 E. cbn [fst] in E. subst f2.
      apply rfilter_pairs in H1. apply rfilter_pairs in H2. destruct H1 as [H1 _]. destruct H2 as [H2 _].
      apply spec_pairs in H1. apply spec_pairs in H2. apply Hnot. replace me with q by lia. exact Hq.
    - clear Hnot Hsrc. induction Hnd as [|q l Hq Hn IH]; [constructor|]. cbn [map]. constructor; [|exact IH].
      apply Forall_forall. intros x Hx. apply in_map_iff in Hx. destruct Hx as [q' [<- Hq']].
      intros t [f1 p1] [f2 p2] H1 H2 E. cbn [fst] in E. subst f2.
      apply rfilter_pairs in H1. apply rfilter_pairs in H2. destruct H1 as [H1 _]. destruct H2 as [H2 _].
      apply spec_pairs in H1. apply spec_pairs in H2. apply Hq. replace q with q' by lia. exact Hq'.
    - apply wfr_ext; [exact W|apply spec_wfr|]. intros [t [f p]]. rewrite Pm. unfold bkeep. rewrite rfilter_pairs, !spec_pairs.
      rewrite hold_S, broute_bpeer. fold (keepg j (hold j f t) t).
      split.
      + intros [[[Ht [Hf [Hin [Hh Hp]]]] Hk]|[x [Hx Hin]]].
        * rewrite Hh, Hk. auto.
        * apply in_map_iff in Hx. destruct Hx as [q [<- Hq]]. unfold msg, bout in Hin. apply rfilter_pairs in Hin.
          destruct Hin as [Hin Hk]. apply spec_pairs in Hin. destruct Hin as [Ht [Hf [Hin [Hh Hp]]]].
          rewrite Hh. destruct (keepg j q t); [discriminate|].
          destruct (hold_inv j f t HBj Hf Ht) as [Hr _]. rewrite Hh in Hr.
          split; [assumption|split; [assumption|split; [assumption|split; [|assumption]]]]. apply Hsrc; assumption.
      + intros [Ht [Hf [Hin [Hh Hp]]]]. destruct (hold_inv j f t HBj Hf Ht) as [Hr _].
        destruct (keepg j (hold j f t) t) eqn:Ek.
        * left. split; [auto 10|]. rewrite <- Hh. exact Ek.
        * right. exists (msg j (hold j f t)). split; [apply in_map; apply Hsrc; assumption|].
          unfold msg, bout. apply rfilter_pairs. rewrite Ek. split; [|reflexivity]. apply spec_pairs. auto 10.
  Qed.

  (* a rank whose peer does not exist (peer < 0) has nothing to send *)
  Lemma nothing_to_send j me : 2 * 2 ^ Z.of_nat j <= BIG -> 0 <= me < G -> bpeer (Z.of_nat j) G me < 0 -> msg j me = [].
  Proof.
    intros HB Hme Hneg. assert (HBj : 2 ^ Z.of_nat j <= BIG) by lia.
    unfold msg, bout, rfilter. destruct (filter (fun r => negb (keepg j me (fst r))) (spec j me)) as [|r l] eqn:E; [reflexivity|exfalso].
    assert (Hr : In r (filter (fun r => negb (keepg j me (fst r))) (spec j me))) by (rewrite E; left; reflexivity).
    apply filter_In in Hr. destruct Hr as [Hr Hk].
    destruct (build_in_rec _ _ _ _ Hr) as [Ht [Hs Hne]].
    destruct (snd r) as [|[f p] its] eqn:Es; [congruence|].
    assert (Hp : In (fst r, (f, p)) (pairs (spec j me))) by (apply in_pairs; exists r; rewrite Es; split; [assumption|split; [reflexivity|left; reflexivity]]).
    apply spec_pairs in Hp. destruct Hp as [_ [Hf [Hin [Hh _]]]].
    destruct (hold_inv j f (fst r) HBj Hf Ht) as [_ Hm]. rewrite Hh in Hm.
    destruct (binary_routing_gen (Z.of_nat j) G me (fst r) ltac:(lia) HG HB Hme Ht Hm) as [Hs'|[_ [Hp _]]]; [|lia].
    unfold keepg in Hk. rewrite Hs', Z.eqb_refl in Hk. discriminate.
  Qed.

  (* ---- one level of the PROGRAM ---------------------------------------------------------------------------------------- *)
  Definition ltag (j : nat) : Z := c_SC_TAG_NOTIFY_RECURSIVE + (Z.of_nat j + 1).
  (* the sources in the order in which their messages are matched; first2: the wildcard probe matches peer2 first *)
  Definition lvl_srcs (j : nat) (me : Z) (first2 : bool) : list Z :=
    let pe := bpeer (Z.of_nat j) G me in let p2 := bpeer2 (Z.of_nat j) G me in
    if bstart (Z.of_nat j) me <=? pe then (if 0 <=? p2 then (if first2 then [p2; pe] else [pe; p2]) else [pe]) else [].
  Definition lvl_replies (j : nat) (me : Z) (first2 : bool) : list payload :=
    (if 0 <=? bpeer (Z.of_nat j) G me then [[]] else []) ++ map (fun q => q :: wire j q) (lvl_srcs j me first2).
  Definition lvl_acts (j : nat) (me : Z) (first2 : bool) : list act :=
    (if 0 <=? bpeer (Z.of_nat j) G me then [Send (bpeer (Z.of_nat j) G me) (ltag j) (wire j me)] else []) ++
    match lvl_srcs j me first2 with
    | [] => []
    | [_] => [Recv ANY (ltag j)]
    | _ :: b :: _ => [Recv ANY (ltag j); Recv b (ltag j)]
    end.

  Lemma lvl_srcs_ok j me first2 : 2 * 2 ^ Z.of_nat j <= BIG -> 0 <= me < G ->
    NoDup (lvl_srcs j me first2) /\ ~ In me (lvl_srcs j me first2) /\
    forall q, 0 <= q < G -> (bpeer (Z.of_nat j) G q = me <-> In q (lvl_srcs j me first2)).
  Proof.
    intros HB Hme. set (zj := Z.of_nat j). assert (Hzj : 0 <= zj) by (unfold zj; lia).
    pose proof (bpeer_ne_me zj G me Hzj HG HB Hme) as Hne.
    pose proof (peer2_guard zj G me Hzj HG HB Hme) as Hg2.
    pose proof (binary_sources_distinct_gen zj G me Hzj HG HB Hme) as Hd.
    unfold lvl_srcs. fold zj. cbv zeta.
    split; [|split].
    - destruct (bstart zj me <=? bpeer zj G me); [|constructor].
      destruct (0 <=? bpeer2 zj G me) eqn:E2; [|repeat constructor; intros []].
      destruct (Hd ltac:(lia)) as [A [B C]].
      destruct first2; repeat constructor; cbn [In]; intuition congruence.
    - destruct (bstart zj me <=? bpeer zj G me); [|intros []].
      destruct (0 <=? bpeer2 zj G me) eqn:E2; [|cbn [In]; intuition congruence].
      destruct (Hd ltac:(lia)) as [A [B C]]. destruct first2; cbn [In]; intuition congruence.
    - intros q Hq. rewrite (binary_matching_gen zj G me q Hzj HG HB Hme Hq).
      destruct (bstart zj me <=? bpeer zj G me) eqn:E1.
      + destruct (0 <=? bpeer2 zj G me) eqn:E2; [destruct first2|]; cbn [In]; split; intros H; intuition lia.
      + cbn [In]. split; [|tauto]. intros [[_ H]|[_ H]]; [lia|]. specialize (Hg2 H). lia.
  Qed.

  Lemma zj_small j : 2 * 2 ^ Z.of_nat j <= BIG -> 1 <= Z.of_nat j + 1 <= 30.
  Proof.
    intros HB. split; [lia|]. destruct (Z.le_gt_cases (Z.of_nat j) 28) as [H|H]; [lia|].
    assert (2 ^ 29 <= 2 ^ Z.of_nat j) by (apply Z.pow_le_mono_r; lia). unfold BIG in HB. lia.
  Qed.

  Lemma msg_wfpay j q : wfpay 0 (msg j q).   Proof. apply rfilter_wfpay, spec_wfpay. Qed.
  Lemma spec_not_marked j me r : In r (spec j me) -> fst r <> -1.
  Proof. intros H. pose proof (spec_toranks j me r H). lia. Qed.

  Theorem run_binary_level j me first2 (k : list Z -> prog) rest :
    2 * 2 ^ Z.of_nat j <= BIG -> 0 <= me < G ->
    run (lvl_replies j me first2 ++ rest) (binary_level G me (2 * 2 ^ Z.of_nat j) (encode (spec j me)) k) =
    let '(a, o) := run rest (k (encode (spec (S j) me))) in (lvl_acts j me first2 ++ a, o).
  Proof.
    intros HB Hme. set (zj := Z.of_nat j). assert (Hzj : 0 <= zj) by (unfold zj; lia).
    assert (Hh : 0 < 2 ^ zj) by (apply Z.pow_pos_nonneg; lia).
    destruct (lvl_srcs_ok j me first2 HB Hme) as [Hnd [Hnot Hsrc]].
    pose proof (level_merge j me (lvl_srcs j me first2) HB Hme Hnd Hnot Hsrc) as Hlm.
    (* the generated computations of the level *)
    assert (Htag : binary_tag c_SC_TAG_NOTIFY_RECURSIVE (2 * 2 ^ zj) = (ltag j, 2 ^ zj)).
    { replace (2 * 2 ^ zj) with (2 ^ (zj + 1)) by (rewrite Z.pow_add_r by lia; ring).
      rewrite binary_tag_spec by (apply zj_small; exact HB). unfold ltag. fold zj. replace (zj + 1 - 1) with zj by lia. reflexivity. }
    assert (Hstart : me - cmod me (2 * 2 ^ zj) = gstart (2 ^ zj) 2 me).
    { rewrite rem_nonneg by lia. unfold gstart. pose proof (Z.div_mod me (2 * 2 ^ zj) ltac:(lia)). lia. }
    unfold binary_level. fold zj. rewrite Htag. cbv iota beta zeta. rewrite !Hstart.
    rewrite <- (bhalf_test (2 ^ zj) me Hh ltac:(lia)).
    rewrite (surjective_pairing (binary_peers me (2 ^ zj) G (2 * 2 ^ zj) (bhalf (2 ^ zj) me))).
    change (fst (binary_peers me (2 ^ zj) G (2 * 2 ^ zj) (bhalf (2 ^ zj) me))) with (bpeer zj G me).
    change (snd (binary_peers me (2 ^ zj) G (2 * 2 ^ zj) (bhalf (2 ^ zj) me))) with (bpeer2 zj G me).
    change (gstart (2 ^ zj) 2 me) with (bstart zj me).
    cbv iota beta.
    (* what the array looks like after the records to be sent have been marked *)
    set (keep := bkeep j me (spec j me)) in *.
    assert (Hmk : exists marked,
              (if 0 <=? bpeer zj G me then split_records (length (encode (spec j me))) (2 * 2 ^ zj) me (encode (spec j me)) else ([], encode (spec j me)))
              = ((if 0 <=? bpeer zj G me then wire j me else []), marked) /\
              forall X, wfpay 0 X -> notify_merge 0 marked (encode X) = encode (rmerge keep X)).
    { destruct (0 <=? bpeer zj G me) eqn:E0.
      - exists (encode (markg (fun t => t mod (2 * 2 ^ zj) =? me mod (2 * 2 ^ zj)) (spec j me))). split.
        + rewrite split_records_encode; [reflexivity|lia|lia|apply spec_wfpay| |apply encode_length_ge].
          intros r Hr. pose proof (spec_toranks j me r Hr). lia.
        + intros X HX. change 0 with (Z.of_nat 0) at 1. rewrite notify_merge_encode; [|apply markg_wfpay, spec_wfpay|assumption].
          rewrite live_markg by (apply spec_not_marked). reflexivity.
      - exists (encode (spec j me)). split; [reflexivity|].
        intros X HX. change 0 with (Z.of_nat 0) at 1. rewrite notify_merge_encode; [|apply spec_wfpay|assumption].
        rewrite live_id by (apply spec_not_marked).
        assert (Hm : msg j me = []) by (apply nothing_to_send; [exact HB|exact Hme|fold zj; lia]).
        unfold keep, bkeep. rewrite (rfilter_all (keepg j me) (spec j me) Hm). reflexivity. }
    destruct Hmk as [marked [Hsplit Hmerge]]. rewrite Hsplit. cbv iota beta.
    assert (Hlive : forall X, (forall r, In r X -> 0 <= fst r) -> (forall r, In r (rmerge keep X) -> fst r <> -1)).
    { intros X HX r Hr. destruct (rmerge_keys _ _ _ Hr) as [r' [[Hi|Hi] E]]; rewrite <- E.
      - unfold keep, bkeep, rfilter in Hi. apply filter_In in Hi. destruct Hi as [Hi _]. apply (spec_not_marked j me r' Hi).
      - specialize (HX _ Hi). lia. }
    assert (Hmsgpos : forall q r, In r (msg j q) -> 0 <= fst r).
    { intros q r Hr. unfold msg, bout, rfilter in Hr. apply filter_In in Hr. destruct Hr as [Hr _]. pose proof (spec_toranks j q r Hr). lia. }
    assert (Hne2 : 0 <= bpeer2 zj G me -> (bpeer zj G me =? bpeer2 zj G me) = false).
    { intros H2. destruct (binary_sources_distinct_gen zj G me Hzj HG HB Hme H2) as [A _]. apply Z.eqb_neq. congruence. }
    unfold lvl_srcs in Hlm. fold zj in Hlm. cbv zeta in Hlm. unfold lvl_replies, lvl_acts, lvl_srcs. fold zj. cbv zeta.
    destruct (0 <=? bpeer zj G me) eqn:E0; destruct (bstart zj me <=? bpeer zj G me) eqn:E1;
      [destruct (0 <=? bpeer2 zj G me) eqn:E2; [destruct first2|]| |destruct (0 <=? bpeer2 zj G me) eqn:E2; [destruct first2|]|];
      cbn [map app fold_left] in *.
    all: repeat first [rewrite run_send | rewrite run_recv_any | rewrite run_recv].
    all: try rewrite Z.eqb_refl.
    all: try rewrite Hne2 by lia.
    all: unfold wire; rewrite ?Hmerge by (apply msg_wfpay).
    all: try (change (@nil Z) with (encode []) at 1; rewrite Hmerge by constructor; rewrite rmerge_nil_r).
    all: try (change 0 with (Z.of_nat 0) at 1; rewrite notify_merge_encode by (first [apply msg_wfpay | apply rmerge_wfpay; [apply rfilter_wfpay, spec_wfpay|apply msg_wfpay]]);
              rewrite live_id by (apply Hlive, Hmsgpos)).
    all: rewrite Hlm; destruct (run rest (k (encode (spec (S j) me)))); reflexivity.
  Qed.

  (* ---- all levels -------------------------------------------------------------------------------------------------------- *)
  (* the round abstraction: at every level the wildcard receive of a rank returns one of the (at most two) messages
     addressed to it on that level's tag, the named receive the other one; first2 j me says which one comes first *)
  Variable first2 : nat -> Z -> bool.

  Fixpoint levels_replies (j m : nat) (me : Z) : list payload :=
    match m with O => [] | S m' => lvl_replies j me (first2 j me) ++ levels_replies (S j) m' me end.
  Fixpoint levels_acts (j m : nat) (me : Z) : list act :=
    match m with O => [] | S m' => lvl_acts j me (first2 j me) ++ levels_acts (S j) m' me end.

  Lemma run_binary_levels me : 0 <= me < G -> forall m j fuel (k : list Z -> prog) rest,
    (m <= fuel)%nat -> 2 ^ Z.of_nat (j + m) <= BIG ->
    run (levels_replies j m me ++ rest)
        (binary_levels fuel G me (2 * 2 ^ Z.of_nat j) (2 ^ Z.of_nat (j + m)) (encode (spec j me)) k) =
    let '(a, o) := run rest (k (encode (spec (j + m) me))) in (levels_acts j m me ++ a, o).
  Proof.
    intros Hme. induction m as [|m IH]; intros j fuel k rest Hf HB.
    - rewrite Nat.add_0_r. cbn [levels_replies levels_acts app].
      assert (Hp : 0 < 2 ^ Z.of_nat j) by (apply Z.pow_pos_nonneg; lia).
      destruct fuel as [|f]; cbn [binary_levels].
      + destruct (run rest (k (encode (spec j me)))); reflexivity.
      + replace (2 ^ Z.of_nat j <? 2 * 2 ^ Z.of_nat j) with true by (symmetry; apply Z.ltb_lt; lia).
        destruct (run rest (k (encode (spec j me)))); reflexivity.
    - destruct fuel as [|f]; [lia|]. cbn [binary_levels levels_replies levels_acts].
      assert (Hle : 2 * 2 ^ Z.of_nat j <= 2 ^ Z.of_nat (j + S m)).
      { rewrite <- pow2_S. apply Z.pow_le_mono_r; lia. }
      replace (2 ^ Z.of_nat (j + S m) <? 2 * 2 ^ Z.of_nat j) with false by (symmetry; apply Z.ltb_ge; lia).
      rewrite <- app_assoc. rewrite run_binary_level by (try assumption; lia).
      rewrite <- pow2_S. replace (j + S m)%nat with (S j + m)%nat by lia.
      rewrite IH by (try lia; replace (S j + m)%nat with (j + S m)%nat by lia; exact HB).
      destruct (run rest (k (encode (spec (S j + m) me)))). rewrite <- app_assoc. reflexivity.
  Qed.

  (* ---- first and last array -------------------------------------------------------------------------------------------------- *)
  Lemma init_input_encode me : forall (L : list Z) s,
    flat_map (fun ip : Z * nat => fst ip :: 1 :: me :: []) (zip L (seq s (length L))) = encode (map (fun t => (t, [(me, @nil Z)])) L).
  Proof. induction L as [|t L IH]; intros s; [reflexivity|]. cbn [length seq zip flat_map map]. rewrite IH. reflexivity. Qed.

  Lemma spec0 me : 0 <= me < G -> spec 0 me = map (fun t => (t, [(me, @nil Z)])) (R me).
  Proof.
    intros Hme. destruct (HR me Hme) as [Hs Hin].
    apply wfr_ext; [apply spec_wfr| |].
    - split.
      + clear Hin. induction Hs as [|x l Hs' IH Hf]; simpl; constructor; [assumption|].
        rewrite Forall_forall in *. intros y Hy. apply in_map_iff in Hy. destruct Hy as [t [<- Ht]]. cbn [fst]. apply Hf. assumption.
      + apply Forall_forall. intros r Hr. apply in_map_iff in Hr. destruct Hr as [t [<- _]]. cbn [snd].
        split; [discriminate|repeat constructor].
    - intros [t [f p]]. rewrite spec_pairs, in_pairs. unfold hold. cbn [bdeliver]. split.
      + intros [Ht [Hf [Hi [-> ->]]]]. exists (t, [(me, [])]). split; [apply in_map_iff; exists t; split; [reflexivity|assumption]|split; [reflexivity|left; reflexivity]].
      + intros [r [Hr [E Hx]]]. apply in_map_iff in Hr. destruct Hr as [t' [<- Ht']]. cbn [fst snd] in *. subst t'.
        destruct Hx as [Hx|[]]. inversion Hx; subst. auto 10.
  Qed.

  Definition final_rec (me : Z) (payf : Z -> list Z) : list rcd :=
    match transpose G R me with [] => [] | T => [(me, map (fun f => (f, payf f)) T)] end.

  Lemma final_rec_wfr me payf : wfr (final_rec me payf).
  Proof.
    unfold final_rec. pose proof (transpose_ssorted G R me) as Hs. destruct (transpose G R me) as [|f0 T] eqn:E; [apply wfr_nil|].
    split; [repeat constructor|]. constructor; [|constructor]. cbn [snd]. split; [discriminate|].
    clear E. induction Hs as [|x l Hs' IH Hf]; simpl; constructor; [assumption|].
    rewrite Forall_forall in *. intros y Hy. apply in_map_iff in Hy. destruct Hy as [f [<- Hf']]. cbn [fst]. apply Hf. assumption.
  Qed.

  Lemma final_rec_pairs me payf t f p :
    In (t, (f, p)) (pairs (final_rec me payf)) <-> t = me /\ In f (transpose G R me) /\ p = payf f.
  Proof.
    unfold final_rec. destruct (transpose G R me) as [|f0 T] eqn:E.
    - cbn. split; [intros []|intros [_ [[] _]]].
    - rewrite in_pairs. split.
      + intros [r [[<-|[]] [Et Hx]]]. cbn [fst snd] in *. apply in_map_iff in Hx. destruct Hx as [f' [Ef Hf']]. inversion Ef; subst. auto.
      + intros [-> [Hf ->]]. exists (me, map (fun f => (f, payf f)) (f0 :: T)). split; [left; reflexivity|]. split; [reflexivity|].
        cbn [snd]. apply in_map_iff. exists f. auto.
  Qed.

  Lemma spec_final n me : 0 <= me < G -> 2 ^ Z.of_nat n <= BIG -> G <= 2 ^ Z.of_nat n ->
    spec n me = final_rec me (fun _ => []).
  Proof.
    intros Hme HB HP. apply wfr_ext; [apply spec_wfr|apply final_rec_wfr|]. intros [t [f p]].
    rewrite spec_pairs, final_rec_pairs, transpose_In.
    assert (Hd : forall f t, 0 <= f < G -> 0 <= t < G -> hold n f t = t).
    { intros f0 t0 Hf Ht. unfold hold. apply bdeliver_correct; try assumption; try lia. change (2 ^ 0) with 1. rewrite !Z.mod_1_r. reflexivity. }
    split.
    - intros [Ht [Hf [Hi [Hh Hp]]]]. rewrite Hd in Hh by assumption. subst t. auto.
    - intros [-> [[Hf Hi] Hp]]. rewrite Hd by assumption. auto 10.
  Qed.

  Lemma out_items_plain : forall (T : list Z) tail,
    map fst (out_items (length T) 1 (T ++ tail)) = T.
  Proof. induction T as [|x T IH]; intros tail; [reflexivity|]. cbn [length out_items app hd map fst]. rewrite <- (IH tail) at 3. reflexivity. Qed.

  Lemma reset_output_final me : fst (reset_output (encode (final_rec me (fun _ => []))) 0 0 false) = transpose G R me.
  Proof.
    unfold final_rec. destruct (transpose G R me) as [|f0 T]; [reflexivity|].
    set (L := f0 :: T). cbn [encode flat_map]. unfold enc_rcd. cbn [fst snd app reset_output]. rewrite map_length, Nat2Z.id.
    assert (Hflat : flat_map enc_item (map (fun f : Z => (f, @nil Z)) L) = L).
    { clear. induction L as [|x L IH]; [reflexivity|]. cbn [map flat_map]. rewrite IH. reflexivity. }
    rewrite Hflat. apply out_items_plain.
  Qed.

  Lemma pow2length_levels : exists n : nat, binary_pow2length G = 2 ^ Z.of_nat n /\ 2 ^ Z.of_nat n <= BIG /\ G <= 2 ^ Z.of_nat n /\ (n <= 29)%nat.
  Proof.
    assert (HG30 : 0 < G <= 2 ^ 30) by (unfold BIG in HG; split; [lia|]; eapply Z.le_trans; [apply HG|]; apply Z.pow_le_mono_r; lia).
    destruct (binary_pow2length_spec G HG30) as [Hle [[k [Hk Hr]] Hmin]].
    assert (Hr29 : binary_pow2length G <= 2 ^ 29) by (apply Hmin; [lia|apply HG]).
    exists (Z.to_nat k). rewrite Z2Nat.id by lia. rewrite <- Hr. split; [reflexivity|]. split; [exact Hr29|]. split; [exact Hle|].
    destruct (Z.le_gt_cases k 29) as [H|H]; [lia|]. assert (2 ^ 29 < 2 ^ k) by (apply Z.pow_lt_mono_r; lia). lia.
  Qed.

  Lemma run_do_recvs tag (m : Z -> payload) : forall srcs acc (k : list payload -> prog) rest,
    run (map (fun s => s :: m s) srcs ++ rest) (do_recvs (map (fun s => (s, tag)) srcs) acc k) =
    let '(a, o) := run rest (k (rev acc ++ map m srcs)) in (map (fun s => Recv s tag) srcs ++ a, o).
  Proof.
    induction srcs as [|s srcs IH]; intros acc k rest; cbn [map app do_recvs].
    - rewrite app_nil_r. destruct (run rest (k (rev acc))). reflexivity.
    - rewrite run_recv. rewrite IH. cbn [rev]. rewrite <- app_assoc. cbn [app].
      destruct (run rest (k (rev acc ++ m s :: map m srcs))). reflexivity.
  Qed.

  (* ---- ROUND SEMANTICS of the binary algorithm -------------------------------------------------------------------------------------- *)
  Variable n : nat.
  Hypothesis Hn : binary_pow2length G = 2 ^ Z.of_nat n.
  Hypothesis HnB : 2 ^ Z.of_nat n <= BIG.
  Hypothesis HnG : G <= 2 ^ Z.of_nat n.
  Hypothesis Hn32 : (n <= 32)%nat.

  Theorem binary_round_semantics me : 0 <= me < G ->
    run (levels_replies 0 n me) (binary_core G me (R me) None (fun s g => Ret (result s g)))
    = (levels_acts 0 n me, Some (result (transpose G R me) [])).
  Proof.
    intros Hme. unfold binary_core. rewrite Hn.
    unfold init_input. rewrite (init_input_encode me (R me) 0). rewrite <- (spec0 me Hme).
    pose proof (run_binary_levels me Hme n 0 32%nat
                  (fun arr => wrapper_payload (R me) None (fst (reset_output arr 0 0 false)) (fun s g => Ret (result s g))) [] Hn32 HnB) as H.
    rewrite !app_nil_r in H. change (2 * 2 ^ Z.of_nat 0) with 2 in H. cbn [Nat.add] in H. rewrite H.
    rewrite (spec_final n me Hme HnB HnG), reset_output_final. cbn [wrapper_payload run]. rewrite app_nil_r. reflexivity.
  Qed.

  (* with one payload item per receiver (sc_notify_payload_wrapper after sc_notify): the items travel by named receives *)
  Variable pay : Z -> Z -> payload.
  Theorem binary_round_semantics_payload me : 0 <= me < G ->
    run (levels_replies 0 n me ++ repeat [] (length (R me)) ++ map (fun s => s :: pay s me) (transpose G R me))
        (binary_core G me (R me) (Some (map (pay me) (R me))) (fun s g => Ret (result s g)))
    = (levels_acts 0 n me ++ map (fun r => Send r c_SC_TAG_NOTIFY_WRAPPER (pay me r)) (R me)
                          ++ map (fun s => Recv s c_SC_TAG_NOTIFY_WRAPPER) (transpose G R me),
       Some (result (transpose G R me) (map (fun s => pay s me) (transpose G R me)))).
  Proof.
    intros Hme. unfold binary_core. rewrite Hn.
    unfold init_input. rewrite (init_input_encode me (R me) 0). rewrite <- (spec0 me Hme).
    pose proof (run_binary_levels me Hme n 0 32%nat
                  (fun arr => wrapper_payload (R me) (Some (map (pay me) (R me))) (fst (reset_output arr 0 0 false)) (fun s g => Ret (result s g)))
                  (repeat [] (length (R me)) ++ map (fun s => s :: pay s me) (transpose G R me)) Hn32 HnB) as H.
    change (2 * 2 ^ Z.of_nat 0) with 2 in H. cbn [Nat.add] in H. rewrite H.
    rewrite (spec_final n me Hme HnB HnG), reset_output_final. unfold wrapper_payload, phase.
    rewrite zip_map_l.
    set (S := map (fun rp : Z * payload => (fst rp, c_SC_TAG_NOTIFY_WRAPPER, snd rp)) (map (fun x => (x, pay me x)) (R me))).
    assert (HlenS : length S = length (R me)) by (unfold S; rewrite !map_length; reflexivity).
    rewrite <- HlenS. rewrite run_do_sends.
    rewrite <- (app_nil_r (map (fun s => s :: pay s me) (transpose G R me))).
    rewrite (run_do_recvs c_SC_TAG_NOTIFY_WRAPPER (fun s => pay s me)). cbn [rev app run]. rewrite app_nil_r.
    unfold S. rewrite !map_map. cbn [fst snd]. reflexivity.
  Qed.
End BinaryRound.

(* the number of levels is determined by the generated top length *)
Theorem binary_round_semantics_all G (R : Z -> list Z) :
  0 < G <= BIG ->
  (forall f, 0 <= f < G -> ssorted (fun x => x) (R f) /\ forall t, In t (R f) -> 0 <= t < G) ->
  exists n : nat, binary_pow2length G = 2 ^ Z.of_nat n /\
  forall (first2 : nat -> Z -> bool) me, 0 <= me < G ->
    run (levels_replies G R first2 0 n me) (binary_core G me (R me) None (fun s g => Ret (result s g)))
    = (levels_acts G R first2 0 n me, Some (result (transpose G R me) [])).
Proof.
  intros HG HR. destruct (pow2length_levels G HG) as [n [Hn [HB [HP H29]]]]. exists n. split; [exact Hn|].
  intros first2 me Hme. apply binary_round_semantics; try assumption. lia.
Qed.

Theorem binary_round_semantics_payload_all G (R : Z -> list Z) (pay : Z -> Z -> payload) :
  0 < G <= BIG ->
  (forall f, 0 <= f < G -> ssorted (fun x => x) (R f) /\ forall t, In t (R f) -> 0 <= t < G) ->
  exists n : nat, binary_pow2length G = 2 ^ Z.of_nat n /\
  forall (first2 : nat -> Z -> bool) me, 0 <= me < G ->
    run (levels_replies G R first2 0 n me ++ repeat [] (length (R me)) ++ map (fun s => s :: pay s me) (transpose G R me))
        (binary_core G me (R me) (Some (map (pay me) (R me))) (fun s g => Ret (result s g)))
    = (levels_acts G R first2 0 n me ++ map (fun r => Send r c_SC_TAG_NOTIFY_WRAPPER (pay me r)) (R me)
                                     ++ map (fun s => Recv s c_SC_TAG_NOTIFY_WRAPPER) (transpose G R me),
       Some (result (transpose G R me) (map (fun s => pay s me) (transpose G R me)))).
Proof.
  intros HG HR. destruct (pow2length_levels G HG) as [n [Hn [HB [HP H29]]]]. exists n. split; [exact Hn|].
  intros first2 me Hme. apply binary_round_semantics_payload; try assumption. lia.
Qed.
