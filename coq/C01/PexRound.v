(* C01/C02 - the pex program (sc_notify_payload_pex: one MPI_Alltoall) returns the transposed pattern with every payload
   behind its sender; proved outright from the contract of MPI_Alltoall (hypothesis).  About NotifyProgs.pex_core,
   the program that is co-simulated with the real code. *)
From Coq Require Import ZArith Lia List Bool Permutation.
From ScV Require Import Base.CInt MPI.Prog Gen.Consts Gen.NotifyC01 C02.SlotProofs C01.MergeModel C01.MergeProofs C01.MergeCorr
     C01.NotifyProgs C01.NotifyProgProofs C01.RecordOps C01.NaryRound.
Import ListNotations.
Local Open Scope Z_scope.

Lemma block_flat_map {A} (f : A -> list Z) (b : nat) : (forall x, length (f x) = b) ->
  forall (l : list A) (k : nat) (d : A), (k < length l)%nat -> firstn b (skipn (k * b) (flat_map f l)) = f (nth k l d).
Proof.
  intros Hb. induction l as [|a l IH]; intros k d Hk; [simpl in Hk; lia|].
  destruct k as [|k]; cbn [flat_map nth].
  - cbn [Nat.mul skipn]. apply firstn_app_exact. symmetry. apply Hb.
  - replace (S k * b)%nat with (length (f a) + k * b)%nat by (rewrite Hb; lia).
    rewrite skipn_app. rewrite skipn_all2 by lia. cbn [app].
    replace (length (f a) + k * b - length (f a))%nat with (k * b)%nat by lia. apply IH. simpl in Hk. lia.
Qed.

Lemma index_of_some x : forall l i j, index_of x l i = Some j -> (i <= j)%nat /\ (j - i < length l)%nat /\ nth (j - i) l 0 = x.
Proof.
  induction l as [|y l IH]; intros i j H; [discriminate|]. cbn [index_of] in H. destruct (Z.eqb_spec y x) as [->|Hne].
  - inversion H; subst. rewrite Nat.sub_diag. simpl. repeat split; lia.
  - destruct (IH _ _ H) as [A [B C]]. split; [lia|]. replace (j - i)%nat with (S (j - S i)) by lia. simpl. split; [lia|exact C].
Qed.

Lemma index_of_none x : forall l i, index_of x l i = None -> ~ In x l.
Proof.
  induction l as [|y l IH]; intros i H; [intros []|]. cbn [index_of] in H. destruct (Z.eqb_spec y x) as [->|Hne]; [discriminate|].
  intros [E|Hin]; [congruence|]. exact (IH _ H Hin).
Qed.

Lemma index_of_in x l : In x l -> exists j, index_of x l 0 = Some j.
Proof. intros Hin. destruct (index_of x l 0) eqn:E; [eauto|]. exfalso. exact (index_of_none _ _ _ E Hin). Qed.

Lemma pex_scan_flat (g : Z -> list Z) (stride : nat) sz hp : (forall q, length (g q) = stride) ->
  forall n s, pex_scan stride sz hp (flat_map g (map Z.of_nat (seq s n))) n (Z.of_nat s) =
              flat_map (fun q => if hd 0 (g q) =? 0 then [] else [(q, if hp then unpack_ints sz (tl (g q)) else [])]) (map Z.of_nat (seq s n)).
Proof.
  intros Hg. induction n as [|n IH]; intros s; [reflexivity|].
  cbn [seq map flat_map pex_scan]. rewrite firstn_app_exact by (symmetry; apply Hg). rewrite skipn_app_exact by (symmetry; apply Hg).
  replace (Z.of_nat s + 1) with (Z.of_nat (S s)) by lia. rewrite IH. reflexivity.
Qed.

Section Pex.
  Variable coll : Z -> list payload -> Z -> payload.
  (* contract of MPI_Alltoall with b ints per destination: rank r obtains, in rank order of the sources, the r-th block of
     every contribution *)
  Hypothesis coll_alltoall : forall (b : nat) cs r, (forall c, In c cs -> length c = (b * length cs)%nat) -> 0 <= r < Z.of_nat (length cs) ->
    coll K_ALLTOALL cs r = flat_map (fun c => firstn b (skipn (Z.to_nat r * b) c)) cs.

  Variable P : Z.
  Variable R : Z -> list Z.
  Hypothesis HP : 0 < P.
  Variable hp : bool.                                 (* items travel with the call *)
  Variable pay : Z -> Z -> payload.
  Variable sz : Z.
  Hypothesis Hsz : 0 < sz < 2 ^ 31.
  Hypothesis Hbytes : forall f t, Forall isbyte (pay f t) /\ Z.of_nat (length (pay f t)) = sz.

  Definition pex_ep (s : Z) : option (list payload) := if hp then Some (map (pay s) (R s)) else None.
  Definition pex_npay : nat := if hp then Z.to_nat (npay_pex 1 sz) else 0%nat.
  Definition pex_contrib (s : Z) : payload := flat_map (pex_slot (R s) (pex_ep s) pex_npay) (ranks P).

  Lemma pex_slot_length s i : length (pex_slot (R s) (pex_ep s) pex_npay i) = S pex_npay.
  Proof.
    unfold pex_slot. destruct (index_of i (R s) 0); [|apply repeat_length]. unfold pex_ep, pex_npay.
    destruct hp; cbn [length]; [rewrite pack_ints_length|]; reflexivity.
  Qed.

  Lemma pex_slot_value s me : 0 <= me ->
    (In me (R s) -> hd 0 (pex_slot (R s) (pex_ep s) pex_npay me) = 1 /\
                    (hp = true -> unpack_ints sz (tl (pex_slot (R s) (pex_ep s) pex_npay me)) = pay s me)) /\
    (~ In me (R s) -> hd 0 (pex_slot (R s) (pex_ep s) pex_npay me) = 0).
  Proof.
    intros Hme. unfold pex_slot. split.
    - intros Hin. destruct (index_of_in me (R s) Hin) as [j Ej]. rewrite Ej. split; [reflexivity|].
      intros Hhp. unfold pex_ep, pex_npay. rewrite Hhp. cbn [tl].
      destruct (index_of_some _ _ _ _ Ej) as [_ [Hj Hn]]. rewrite Nat.sub_0_r in Hj, Hn.
      unfold nth_pay. rewrite (nth_indep _ [] (pay s 0)) by (rewrite map_length; exact Hj). rewrite (map_nth (pay s)). rewrite Hn.
      destruct (Hbytes s me) as [Hb Hl]. destruct (npay_pex_ok 1 sz ltac:(lia) Hsz) as [S1 [S2 S3]].
      apply unpack_pack_ints; try assumption. lia.
    - intros Hnin. destruct (index_of me (R s) 0) eqn:E.
      + exfalso. destruct (index_of_some _ _ _ _ E) as [_ [Hj Hn]]. rewrite Nat.sub_0_r in Hj, Hn. apply Hnin. rewrite <- Hn. apply nth_In. exact Hj.
      + reflexivity.
  Qed.

  (* the pex program: one collective, result = transposed pattern with the payloads of the senders *)
  Theorem pex_round me : 0 <= me < P ->
    run [coll K_ALLTOALL (map pex_contrib (ranks P)) me]
        (pex_core P (R me) (pex_ep me) sz (fun s g => Ret (result s g)))
    = ([Coll K_ALLTOALL (-1) (pex_contrib me)],
       Some (result (transpose P R me) (if hp then map (fun s => pay s me) (transpose P R me) else []))).
  Proof.
    intros Hme. unfold pex_core.
    assert (Hnp : match pex_ep me with None => 0%nat | Some _ => Z.to_nat (npay_pex 1 sz) end = pex_npay).
    { unfold pex_ep, pex_npay. destruct hp; reflexivity. }
    rewrite Hnp. fold (pex_contrib me). cbn [run]. f_equal. f_equal.
    rewrite (coll_alltoall (S pex_npay)).
    2:{ intros c Hc. apply in_map_iff in Hc. destruct Hc as [s [<- _]]. unfold pex_contrib. rewrite map_length, ranks_length.
        assert (H : forall l, length (flat_map (pex_slot (R s) (pex_ep s) pex_npay) l) = (S pex_npay * length l)%nat).
        { induction l as [|i l IH]; [simpl; lia|]. cbn [flat_map]. rewrite app_length, pex_slot_length, IH. simpl. lia. }
        rewrite H, ranks_length. reflexivity. }
    2:{ rewrite map_length, ranks_length. lia. }
    rewrite flat_map_concat_map, map_map, <- flat_map_concat_map.
    assert (Hblock : forall s, firstn (S pex_npay) (skipn (Z.to_nat me * S pex_npay) (pex_contrib s)) = pex_slot (R s) (pex_ep s) pex_npay me).
    { intros s. unfold pex_contrib. rewrite (block_flat_map _ (S pex_npay) (pex_slot_length s) (ranks P) (Z.to_nat me) 0) by (rewrite ranks_length; lia).
      f_equal. unfold ranks. rewrite (nth_indep _ 0 (Z.of_nat 0)) by (rewrite map_length, seq_length; lia).
      rewrite (map_nth Z.of_nat), seq_nth by lia. simpl. lia. }
    rewrite (flat_map_ext _ (fun s => pex_slot (R s) (pex_ep s) pex_npay me)) by (intros; apply Hblock).
    unfold ranks.
    pose proof (pex_scan_flat (fun s => pex_slot (R s) (pex_ep s) pex_npay me) (S pex_npay) sz
                              (match pex_ep me with None => false | Some _ => true end) (fun s => pex_slot_length s me) (Z.to_nat P) 0) as Hscan.
    change (Z.of_nat 0) with 0 in Hscan. rewrite Hscan. clear Hscan.
    replace (match pex_ep me with None => false | Some _ => true end) with hp by (unfold pex_ep; destruct hp; reflexivity).
    fold (ranks P).
    assert (Hfound : forall l, Forall (fun s => 0 <= s) l ->
              flat_map (fun q => if hd 0 (pex_slot (R q) (pex_ep q) pex_npay me) =? 0 then []
                                 else [(q, if hp then unpack_ints sz (tl (pex_slot (R q) (pex_ep q) pex_npay me)) else [])]) l
              = map (fun q => (q, if hp then pay q me else [])) (filter (fun f => memz me (R f)) l)).
    { induction l as [|s l IHl]; intros Hall; [reflexivity|]. inversion Hall as [|? ? Hs0 Hall']; subst.
      cbn [flat_map filter]. destruct (pex_slot_value s me ltac:(lia)) as [Hyes Hno]. rewrite (IHl Hall').
      destruct (memz me (R s)) eqn:Em.
      - apply memz_In in Em. destruct (Hyes Em) as [Hh Hu]. rewrite Hh. cbn [Z.eqb app map].
        destruct hp; [rewrite (Hu eq_refl)|]; reflexivity.
      - assert (Hn : ~ In me (R s)) by (intros Hin; apply memz_In in Hin; congruence). rewrite (Hno Hn). reflexivity. }
    rewrite Hfound by (apply Forall_forall; intros s Hs; apply in_ranks in Hs; lia).
    fold (transpose P R me). rewrite !map_map. cbn [fst snd]. rewrite map_id. unfold result. f_equal. f_equal.
    destruct hp; [reflexivity|]. induction (transpose P R me) as [|x T IH]; [reflexivity|exact IH].
  Qed.
End Pex.

Lemma pex_scan_nopay_sz stride sz sz' : forall n all i, pex_scan stride sz false all n i = pex_scan stride sz' false all n i.
Proof. induction n as [|n IH]; intros all i; [reflexivity|]. cbn [pex_scan]. rewrite (IH (skipn stride all) (i + 1)). reflexivity. Qed.

(* without payload: no hypothesis besides the contract *)
Theorem pex_round_nopay (coll : Z -> list payload -> Z -> payload) :
  (forall (b : nat) cs r, (forall c, In c cs -> length c = (b * length cs)%nat) -> 0 <= r < Z.of_nat (length cs) ->
     coll K_ALLTOALL cs r = flat_map (fun c => firstn b (skipn (Z.to_nat r * b) c)) cs) ->
  forall P (R : Z -> list Z) sz0 me, 0 < P -> 0 <= me < P ->
  run [coll K_ALLTOALL (map (fun s => flat_map (pex_slot (R s) None 0) (ranks P)) (ranks P)) me]
      (pex_core P (R me) None sz0 (fun s g => Ret (result s g)))
  = ([Coll K_ALLTOALL (-1) (flat_map (pex_slot (R me) None 0) (ranks P))], Some (result (transpose P R me) [])).
Proof.
  intros Hc P R sz0 me HP Hme.
  pose proof (pex_round coll Hc P R HP false (fun _ _ => [0]) 1 ltac:(lia)
                        ltac:(intros; split; [repeat constructor; unfold isbyte; lia|reflexivity]) me Hme) as H.
  unfold pex_contrib, pex_ep, pex_npay in H. unfold pex_core in *. cbn [run] in *.
  rewrite (pex_scan_nopay_sz 1 sz0 1). exact H.
Qed.
