(* C01 - executable tests of the nbx and superset theorems (C01/NbxSched.v, SuperSched.v) in the semantics with polls MPI/SemPoll.v, P <= 4: a pseudo-random
   scheduler over SemPoll.enabled_p / exec_step_p is run by vm_compute for several seeds; every run must stop (no enabled choice) in a
   final state with the transposed lists (sorted) or a permutation of them (unsorted) as results, no message left in the channels and
   every barrier posted.  The number of steps varies with the schedule (idle polls).  Made BEFORE the proofs. *)
From Coq Require Import ZArith Lia List Bool.
From ScV Require Import Base.CInt MPI.Prog MPI.Sem MPI.SemPoll Gen.Consts Gen.NotifyC01 C01.NotifyProgs C01.NotifyProgProofs
     C01.SchedTests C01.NbxSched C01.SuperSched.
Import ListNotations.
Local Open Scope Z_scope.

(* result: number of steps, last state, true iff the run stopped because no choice was enabled *)
Fixpoint rnd_run_p (P : Z) (poll : Z -> bool) (stags : list Z) (fuel : nat) (seed : Z) (s : pst) (n : nat) : nat * pst * bool :=
  match fuel with
  | O => (n, s, false)
  | S f => match enabled_p P poll s with
           | [] => (n, s, true)
           | en => let c := nth (Z.to_nat ((seed / 65536) mod Z.of_nat (length en))) en (0, 0) in
                   match exec_step_p P poll stags s c with
                   | Some s' => rnd_run_p P poll stags f (lcg seed) s' (S n)
                   | None => (n, s, false)
                   end
           end
  end.

Definition outs_p (s : pst) (rs : list Z) : list (option payload) := map (fun r => match ppr s r with Ret o => Some o | _ => None end) rs.
Definition left_p (s : pst) (rs tags : list Z) : list (Z * Z * Z) :=
  flat_map (fun a => flat_map (fun b => flat_map (fun t => match pch s a b t with [] => [] | _ => [(a, b, t)] end) tags) rs) rs.
Definition perm_of (o : payload) (t : list Z) : bool :=
  match o with
  | n :: l => (n =? Z.of_nat (length t)) && (length l =? length t)%nat && forallb (fun x => memz x l) t && forallb (fun x => memz x t) l
  | [] => false
  end.

Definition R4 (f : Z) : list Z := if f =? 0 then [1; 2; 3] else if f =? 1 then [0; 1; 3] else if f =? 2 then [1] else [1; 2].
Definition R3 (f : Z) : list Z := if f =? 0 then [0; 1; 2] else if f =? 1 then [1] else [0; 1].
Definition R1 (f : Z) : list Z := [0].
Definition nopay : Z -> Z -> payload := fun _ _ => [].
Definition pay7 : Z -> Z -> payload := fun f t => [7 * f + t; f].
Definition expp P (R : Z -> list Z) (hp : bool) (pay : Z -> Z -> payload) : list (option payload) :=
  map (fun r => Some (result (transpose P R r) (if hp then map (fun q => pay q r) (transpose P R r) else []))) (ranks P).

Definition nbx_good (P : Z) (R : Z -> list Z) (hp : bool) (pay : Z -> Z -> payload) (sorted : bool) (seed : Z) : bool :=
  let '(n, s, stopped) := rnd_run_p P nbx_poll nbx_stags 4000 seed (nbx_sys P R hp pay sorted 600) 0 in
  stopped && (if sorted then eqo (outs_p s (ranks P)) (expp P R hp pay)
              else forallb (fun r => match ppr s r with Ret o => perm_of (firstn (S (length (transpose P R r))) o) (transpose P R r) | _ => false end) (ranks P))
          && match left_p s (ranks P) [c_SC_TAG_NOTIFY_NBX] with [] => true | _ => false end
          && forallb (pbar s) (ranks P).

Example nbx_random_schedules :
  forallb (nbx_good 4 R4 false nopay true) (ranks 12) = true /\ forallb (nbx_good 3 R3 false nopay true) (ranks 12) = true /\
  forallb (nbx_good 1 R1 false nopay true) (ranks 3) = true /\ forallb (nbx_good 4 R4 true pay7 true) (ranks 8) = true /\
  forallb (nbx_good 4 R4 false nopay false) (ranks 12) = true.
Proof. vm_compute. repeat split; reflexivity. Qed.

(* the number of steps depends on the schedule *)
Example nbx_step_counts_vary :
  map (fun seed => fst (fst (rnd_run_p 4 nbx_poll nbx_stags 4000 seed (nbx_sys 4 R4 false nopay true 600) 0))) [0; 1; 2] = [43; 57; 45]%nat.
Proof. vm_compute. reflexivity. Qed.

(* ---- superset (C01/SuperSched.v) ------------------------------------------------------------------------------------------------------------
   The callback: extra receivers X4 (disjoint from R4 here, not required); announced super senders = the ranks that list r ++ the ranks
   whose extra receivers contain r (the contract). *)
Definition X4 (f : Z) : list Z := if f =? 0 then [0] else if f =? 2 then [0; 3] else if f =? 3 then [0] else [].
Definition supers_of P (R extra : Z -> list Z) (r : Z) : list Z := transpose P R r ++ filter (fun q => memz r (extra q)) (ranks P).

Definition super_good (P : Z) (R extra : Z -> list Z) (hp : bool) (pay : Z -> Z -> payload) (sorted : bool) (seed : Z) : bool :=
  let '(n, s, stopped) := rnd_run_p P super_poll super_stags 4000 seed (super_sys P R hp pay extra (supers_of P R extra) sorted 600) 0 in
  stopped && (if sorted then eqo (outs_p s (ranks P)) (expp P R hp pay)
              else forallb (fun r => match ppr s r with Ret o => perm_of (firstn (S (length (transpose P R r))) o) (transpose P R r) | _ => false end) (ranks P))
          && match left_p s (ranks P) [c_SC_TAG_NOTIFY_SUPER_TRUE; c_SC_TAG_NOTIFY_SUPER_EXTRA] with [] => true | _ => false end.

Example super_random_schedules :
  forallb (super_good 4 R4 X4 false nopay true) (ranks 12) = true /\ forallb (super_good 4 R4 X4 false nopay false) (ranks 12) = true /\
  forallb (super_good 3 R3 (fun _ => []) false nopay true) (ranks 6) = true /\ forallb (super_good 4 R4 X4 true pay7 true) (ranks 6) = true.
Proof. vm_compute. repeat split; reflexivity. Qed.
