(* C01/C02 - the entry point nary_core (sc_notify_payload_nary): what the GENERATED depth loop nary_depth and the descent of
   the recursion compute, for all widths ntop, nint, nbot >= 2 and every communicator size within the range in which no
   int product overflows.  Closes the side conditions of NaryRound.nary_core_round_semantics. *)
From Coq Require Import ZArith Lia List Bool Permutation.
From ScV Require Import Base.CInt MPI.Prog Gen.Consts Gen.NotifyC01 C01.NaryArith C01.NaryDelivery C02.SlotProofs
     C01.MergeModel C01.MergeProofs C01.MergeCorr C01.NotifyProgs C01.NotifyProgProofs C01.RecordOps C01.BinaryRound C01.NaryRound.
Import ListNotations.
Local Open Scope Z_scope.

Lemma BIG_eq : BIG = 536870912.  Proof. reflexivity. Qed.

(* ---- the depth loop ---------------------------------------------------------------------------------------------------- *)
Lemma depth_loop G nint : 2 <= nint -> 0 < G <= BIG -> G * nint <= BIG ->
  forall (f : nat) depth prod, 1 <= prod <= BIG -> 0 <= depth -> depth + Z.of_nat f < 1000 -> G <= prod * 2 ^ Z.of_nat f ->
  exists i : nat, (i <= f)%nat /\
    nary_depth_loop1 (S f) G nint depth prod = Some (inl (depth + Z.of_nat i, prod * nint ^ Z.of_nat i)) /\
    G <= prod * nint ^ Z.of_nat i /\
    (i = 0%nat \/ ((0 < i)%nat /\ prod * nint ^ Z.of_nat i <= G * nint /\ prod * nint ^ (Z.of_nat i - 1) < G)).
Proof.
  intros Hn HG HGn. induction f as [|f IH]; intros depth prod Hp Hd Hdf Hcov.
  - exists 0%nat. change (2 ^ Z.of_nat 0) with 1 in Hcov. cbn [nary_depth_loop1].
    replace (prod <? G) with false by lia. change (nint ^ Z.of_nat 0) with 1. rewrite Z.add_0_r, Z.mul_1_r. repeat split; auto; lia.
  - remember (S f) as F eqn:HF. cbn [nary_depth_loop1]. subst F. destruct (prod <? G) eqn:E.
    + assert (Hpn : prod * nint <= BIG) by nia.
      rewrite (s32_id (depth + 1)) by (unfold in_s32; change (M32 / 2) with 2147483648; lia).
      rewrite (s32_id (prod * nint)) by (unfold in_s32; change (M32 / 2) with 2147483648; rewrite BIG_eq in *; nia).
      destruct (IH (depth + 1) (prod * nint)) as [i [Hi [Hrun [Hc Hm]]]]; try lia; try nia.
      { rewrite Nat2Z.inj_succ, Z.pow_succ_r in Hcov by lia. assert (0 < 2 ^ Z.of_nat f) by (apply Z.pow_pos_nonneg; lia). nia. }
      exists (S i). split; [lia|]. rewrite Nat2Z.inj_succ, Z.pow_succ_r by lia.
      replace (prod * (nint * nint ^ Z.of_nat i)) with (prod * nint * nint ^ Z.of_nat i) by ring.
      split; [rewrite Hrun; replace (depth + 1 + Z.of_nat i) with (depth + Z.succ (Z.of_nat i)) by lia; reflexivity|]. split; [exact Hc|]. right.
      replace (Z.succ (Z.of_nat i) - 1) with (Z.of_nat i) by lia.
      split; [lia|]. destruct Hm as [->|[Hpos [Hm1 Hm2]]].
      * change (nint ^ Z.of_nat 0) with 1. rewrite !Z.mul_1_r. split; nia.
      * split; [exact Hm1|]. destruct i as [|i']; [lia|].
        replace (Z.of_nat (S i')) with (Z.succ (Z.of_nat (S i') - 1)) at 1 by lia. rewrite Z.pow_succ_r by lia.
        replace (prod * (nint * nint ^ (Z.of_nat (S i') - 1))) with (prod * nint * nint ^ (Z.of_nat (S i') - 1)) by ring. exact Hm2.
    + exists 0%nat. change (nint ^ Z.of_nat 0) with 1. rewrite Z.add_0_r, Z.mul_1_r. repeat split; auto; lia.
Qed.

(* widths of the levels from the top (level 0) to the bottom (level depth - 1) *)
Definition nary_dt (depth ntop nint nbot : Z) : list (Z * Z) :=
  map (fun i => (i, nary_divn i depth nbot ntop nint)) (ranks depth).
(* the same from the deepest level to the top: the order in which the levels communicate *)
Definition nary_ls (depth ntop nint nbot : Z) : list (Z * Z) := rev (nary_dt depth ntop nint nbot).

Lemma prodl_app a b : prodl (a ++ b) = prodl a * prodl b.
Proof. unfold prodl. induction a as [|x a IH]; cbn [app fold_right]; [rewrite Z.mul_1_l; reflexivity|]. rewrite IH. ring. Qed.
Lemma prodl_rev a : prodl (rev a) = prodl a.
Proof. induction a as [|x a IH]; [reflexivity|]. cbn [rev]. rewrite prodl_app, IH. unfold prodl. cbn [fold_right]. ring. Qed.
Lemma prodl_const {A} c : forall (l : list A), prodl (map (fun _ => c) l) = c ^ Z.of_nat (length l).
Proof. induction l as [|x l IH]; [reflexivity|]. cbn [map length]. rewrite Nat2Z.inj_succ, Z.pow_succ_r by lia. unfold prodl in *. cbn [fold_right]. rewrite IH. reflexivity. Qed.

Lemma divn_cases level depth ntop nint nbot : 1 <= depth < 1000 -> 0 <= level < depth ->
  nary_divn level depth nbot ntop nint = if level =? depth - 1 then nbot else if level =? 0 then ntop else nint.
Proof. intros Hd Hl. unfold nary_divn. rewrite s32_id by (unfold in_s32; change (M32 / 2) with 2147483648; lia). reflexivity. Qed.

(* THE DEPTH LOOP: the generated computation terminates (fuel 64 suffices) and returns the number of levels and the
   product of their widths; the product covers the communicator, stays in range, and one level less would not cover it *)
Theorem nary_depth_spec G ntop nint nbot :
  0 < G <= BIG -> 2 <= ntop -> 2 <= nint -> 2 <= nbot -> nbot <= BIG -> nbot * ntop <= BIG -> G * nint <= BIG ->
  exists depth prod, nary_depth 64 G nbot ntop nint = Some (depth, prod) /\ 1 <= depth < 60 /\
    prod = prodl (map snd (nary_dt depth ntop nint nbot)) /\ G <= prod <= BIG /\
    (depth = 1 \/ depth = 2 \/ prod < G * nint).
Proof.
  intros HG Ht Hi Hb HbB Hbt HGn. unfold nary_depth. destruct (G <=? nbot) eqn:E.
  - exists 1, nbot. split; [reflexivity|]. split; [lia|]. split; [|split; [lia|left; reflexivity]].
    unfold nary_dt. change (ranks 1) with [0]. cbn [map snd]. rewrite divn_cases by lia. cbn. unfold prodl. simpl. lia.
  - cbv zeta. rewrite (s32_id (nbot * ntop)) by (unfold in_s32; change (M32 / 2) with 2147483648; rewrite BIG_eq in *; nia).
    destruct (depth_loop G nint Hi HG HGn 63 2 (nbot * ntop)) as [i [Hi63 [Hrun [Hc Hm]]]]; try nia; try lia.
    { assert (2 ^ 29 <= 2 ^ Z.of_nat 63) by (apply Z.pow_le_mono_r; lia). rewrite BIG_eq in *. change (2 ^ 29) with 536870912 in *. nia. }
    assert (Hismall : Z.of_nat i < 40).
    { destruct Hm as [->|[Hpos [_ Hm2]]]; [lia|]. destruct (Z.lt_ge_cases (Z.of_nat i) 40) as [H|H]; [exact H|exfalso].
      assert (H1 : 2 ^ (Z.of_nat i - 1) <= nint ^ (Z.of_nat i - 1)) by (apply Z.pow_le_mono_l; lia).
      assert (H2 : 2 ^ 39 <= 2 ^ (Z.of_nat i - 1)) by (apply Z.pow_le_mono_r; lia).
      change (2 ^ 39) with 549755813888 in H2. rewrite BIG_eq in *. nia. }
    rewrite Hrun. exists (2 + Z.of_nat i), (nbot * ntop * nint ^ Z.of_nat i). split; [reflexivity|]. split; [lia|].
    assert (Hprod : prodl (map snd (nary_dt (2 + Z.of_nat i) ntop nint nbot)) = nbot * ntop * nint ^ Z.of_nat i).
    { unfold nary_dt, ranks. replace (Z.to_nat (2 + Z.of_nat i)) with (S (S i)) by lia.
      rewrite map_map. cbn [snd]. change (seq 0 (S (S i))) with (0%nat :: seq 1 (S i)). rewrite (seq_S i 1). cbn [map]. rewrite !map_app. cbn [map].
      rewrite !(divn_cases _ (2 + Z.of_nat i)) by lia.
      replace (Z.of_nat 0 =? 2 + Z.of_nat i - 1) with false by lia. change (Z.of_nat 0 =? 0) with true.
      replace (Z.of_nat (1 + i) =? 2 + Z.of_nat i - 1) with true by lia.
      assert (Hmid : map (fun x => nary_divn x (2 + Z.of_nat i) nbot ntop nint) (map Z.of_nat (seq 1 i)) = map (fun _ => nint) (seq 1 i)).
      { rewrite map_map. apply map_ext_in. intros a Ha. apply in_seq in Ha. rewrite divn_cases by lia.
        replace (Z.of_nat a =? 2 + Z.of_nat i - 1) with false by lia. replace (Z.of_nat a =? 0) with false by lia. reflexivity. }
      rewrite Hmid.
      match goal with |- prodl (?a :: ?m ++ [?b]) = _ => change (a :: m ++ [b]) with ([a] ++ (m ++ [b])) end.
      rewrite !prodl_app. rewrite prodl_const, seq_length. unfold prodl. cbn [fold_right]. ring. }
    split; [symmetry; exact Hprod|]. split.
    + split; [exact Hc|]. destruct Hm as [->|[_ [Hm _]]]; [cbn [Z.of_nat]; rewrite Z.pow_0_r, Z.mul_1_r; exact Hbt|lia].
    + destruct Hm as [->|[Hpos [Hm1 Hm2]]]; [right; left; reflexivity|]. right. right.
      replace (Z.of_nat i) with (Z.succ (Z.of_nat i - 1)) by lia. rewrite Z.pow_succ_r by lia. nia.
Qed.

(* ---- the descent ----------------------------------------------------------------------------------------------------------- *)
Section Descent.
  Variables me depth ntop nint nbot : Z.
  Hypothesis Hme : 0 <= me <= BIG.

  (* consecutive levels with the widths the code uses *)
  Fixpoint chain (lev : Z) (dt : list (Z * Z)) : Prop :=
    match dt with [] => True | (l, D) :: r => l = lev /\ nary_divn lev depth nbot ntop nint = D /\ 2 <= D /\ chain (lev + 1) r end.
  Fixpoint descent_spec (dt : list (Z * Z)) : list (Z * Z * Z) :=
    match dt with
    | [] => []
    | (l, D) :: r => (l, gstart (prodl (map snd r)) D me, D * prodl (map snd r)) :: descent_spec r
    end.

  Lemma chain_widths : forall dt lev, chain lev dt -> Forall (fun D => 2 <= D) (map snd dt).
  Proof. induction dt as [|[l D] r IH]; intros lev H; [constructor|]. destruct H as [_ [_ [HD Hr]]]. constructor; [exact HD|apply (IH _ Hr)]. Qed.

  Lemma descent_topdown : forall dt lev fuel, chain lev dt -> prodl (map snd dt) <= BIG -> (length dt < fuel)%nat ->
    nary_descent fuel me lev depth ntop nint nbot (me / prodl (map snd dt) * prodl (map snd dt)) (prodl (map snd dt)) = descent_spec dt.
  Proof.
    induction dt as [|[l D] r IH]; intros lev fuel Hc HB Hf.
    - destruct fuel; [simpl in Hf; lia|]. reflexivity.
    - destruct fuel as [|f]; [simpl in Hf; lia|]. destruct Hc as [-> [Hdiv [HD Hr]]].
      cbn [map snd descent_spec]. set (Lr := prodl (map snd r)).
      assert (HLr : 1 <= Lr) by (apply prodl_ge1; apply (chain_widths _ _ Hr)).
      assert (HB' : D * Lr <= BIG) by exact HB. change (prodl (D :: map snd r)) with (D * Lr).
      cbn [nary_descent]. replace (1 <? D * Lr) with true by nia. rewrite Hdiv.
      change (me / (D * Lr) * (D * Lr)) with (gstart Lr D me).
      rewrite (nary_part_gpart Lr D me ltac:(lia) HD HB' Hme). cbv iota beta. f_equal.
      assert (Hnext : gstart Lr D me + gpart Lr D me * Lr = me / Lr * Lr).
      { destruct (canon Lr D ltac:(lia) HD me ltac:(lia)) as [Hd _]. unfold gstart.
        pose proof (Z.div_mod me Lr ltac:(lia)). lia. }
      rewrite Hnext. apply IH; [exact Hr|fold Lr; clear -HB' HD HLr; nia|simpl in Hf; lia].
  Qed.

  Lemma mk_lv_app : forall a L lev D, mk_lv me L (a ++ [(lev, D)]) =
    mk_lv me L a ++ [(lev, gstart (prodl (map snd a) * L) D me, D * (prodl (map snd a) * L))].
  Proof.
    induction a as [|[l0 D0] a IH]; intros L lev D.
    - cbn [app mk_lv map prodl fold_right]. rewrite Z.mul_1_l. reflexivity.
    - cbn [app mk_lv map snd]. rewrite IH. cbn [app]. f_equal. f_equal.
      change (prodl (D0 :: map snd a)) with (D0 * prodl (map snd a)).
      replace (prodl (map snd a) * (D0 * L)) with (D0 * prodl (map snd a) * L) by ring. reflexivity.
  Qed.

  Lemma descent_rev : forall dt, rev (descent_spec dt) = mk_lv me 1 (rev dt).
  Proof.
    induction dt as [|[l D] r IH]; [reflexivity|]. cbn [descent_spec rev]. rewrite IH, mk_lv_app.
    rewrite map_rev, prodl_rev, Z.mul_1_r. reflexivity.
  Qed.
End Descent.

Lemma chain_ranks depth ntop nint nbot : 2 <= ntop -> 2 <= nint -> 2 <= nbot -> 1 <= depth < 1000 ->
  forall n s, Z.of_nat s + Z.of_nat n <= depth ->
  chain depth ntop nint nbot (Z.of_nat s) (map (fun i => (i, nary_divn i depth nbot ntop nint)) (map Z.of_nat (seq s n))).
Proof.
  intros Ht Hi Hb Hd. induction n as [|n IH]; intros s Hs; [exact I|].
  cbn [seq map chain]. split; [reflexivity|]. split; [reflexivity|]. split.
  - rewrite divn_cases by lia. destruct (Z.of_nat s =? depth - 1); [lia|]. destruct (Z.of_nat s =? 0); lia.
  - replace (Z.of_nat s + 1) with (Z.of_nat (S s)) by lia. apply IH. lia.
Qed.

(* THE DESCENT: the levels visited by the recursion of rank me, from the deepest to the top, are mk_lv me 1 (nary_ls ..) *)
Theorem nary_descent_spec me depth ntop nint nbot :
  0 <= me <= BIG -> 2 <= ntop -> 2 <= nint -> 2 <= nbot -> 1 <= depth < 60 ->
  prodl (map snd (nary_dt depth ntop nint nbot)) <= BIG -> me < prodl (map snd (nary_dt depth ntop nint nbot)) ->
  rev (nary_descent 64 me 0 depth ntop nint nbot 0 (prodl (map snd (nary_dt depth ntop nint nbot)))) = mk_lv me 1 (nary_ls depth ntop nint nbot).
Proof.
  intros Hme Ht Hi Hb Hd HB Hlt. unfold nary_ls. rewrite <- descent_rev. f_equal.
  set (P := prodl (map snd (nary_dt depth ntop nint nbot))) in *.
  replace 0 with (me / P * P) at 2 by (rewrite Z.div_small by lia; reflexivity).
  apply (descent_topdown me depth ntop nint nbot Hme (nary_dt depth ntop nint nbot) 0 64).
  - unfold nary_dt, ranks. apply (chain_ranks depth ntop nint nbot Ht Hi Hb ltac:(lia) (Z.to_nat depth) 0). lia.
  - exact HB.
  - unfold nary_dt. rewrite map_length, ranks_length. lia.
Qed.

(* ---- assembling ---------------------------------------------------------------------------------------------------------------- *)
(* the round abstraction for a whole call: at every level the wildcard receives return the messages of that level's
   sources (senders, built from the generated slices), each once, in the order `orders lev` *)
Fixpoint orders_ok (G me : Z) (orders : Z -> list Z) (L : Z) (ls : list (Z * Z)) : Prop :=
  match ls with [] => True | (lev, D) :: r => Permutation (orders lev) (senders G L D me) /\ orders_ok G me orders (D * L) r end.

Lemma levels_ok_intro G depth ntop nint nbot me orders : forall ls L, 0 < L ->
  (forall lev D, In (lev, D) ls -> 2 <= D /\ nary_divn lev depth nbot ntop nint = D) -> prodl (map snd ls) * L <= BIG ->
  orders_ok G me orders L ls -> levels_ok G depth ntop nint nbot me orders L ls.
Proof.
  induction ls as [|[lev D] r IH]; intros L HL Hw HB Ho; [exact I|].
  destruct Ho as [Hp Ho]. destruct (Hw lev D (or_introl eq_refl)) as [HD Hdiv].
  change (prodl (map snd ((lev, D) :: r))) with (D * prodl (map snd r)) in HB.
  assert (Hr1 : 1 <= prodl (map snd r)).
  { apply prodl_ge1. apply Forall_forall. intros x Hx. apply in_map_iff in Hx. destruct Hx as [[l0 D0] [<- Hin]]. apply (Hw l0 D0). right. exact Hin. }
  cbn [levels_ok]. split; [exact HD|]. split; [nia|]. split; [exact Hdiv|]. split; [exact Hp|].
  apply IH; [nia|intros l0 D0 Hin; apply Hw; right; exact Hin|nia|exact Ho].
Qed.

Lemma nary_ls_widths depth ntop nint nbot : 2 <= ntop -> 2 <= nint -> 2 <= nbot -> 1 <= depth < 1000 ->
  forall lev D, In (lev, D) (nary_ls depth ntop nint nbot) -> 2 <= D /\ nary_divn lev depth nbot ntop nint = D.
Proof.
  intros Ht Hi Hb Hd lev D Hin. unfold nary_ls in Hin. apply in_rev in Hin. unfold nary_dt in Hin.
  apply in_map_iff in Hin. destruct Hin as [i [E Hr]]. inversion E as [[E1 E2]]. subst i. apply in_ranks in Hr. split; [|reflexivity].
  rewrite divn_cases by lia. destruct (lev =? depth - 1); [lia|]. destruct (lev =? 0); lia.
Qed.

Section Full.
  Variable G : Z.
  Variable R : Z -> list Z.
  Variables ntop nint nbot : Z.
  Hypothesis HG : 0 < G <= BIG.
  Hypothesis HG1 : G <> 1.
  Hypothesis HR : forall f, 0 <= f < G -> ssorted (fun x => x) (R f) /\ forall t, In t (R f) -> 0 <= t < G.
  (* the widths; the three products are the range in which the code's int arithmetic does not overflow *)
  Hypothesis Ht : 2 <= ntop.
  Hypothesis Hi : 2 <= nint.
  Hypothesis Hb : 2 <= nbot.
  Hypothesis HbB : nbot <= BIG.
  Hypothesis Hbt : nbot * ntop <= BIG.
  Hypothesis HGn : G * nint <= BIG.

  Theorem nary_core_round_semantics_full sz0 :
    exists depth prod, nary_depth 64 G nbot ntop nint = Some (depth, prod) /\ G <= prod /\
    forall orders : Z -> Z -> list Z,
    (forall me, 0 <= me < G -> orders_ok G me (orders me) 1 (nary_ls depth ntop nint nbot)) ->
    forall me, 0 <= me < G ->
    run (all_replies G R (fun _ _ => []) me (orders me) 1 (nary_ls depth ntop nint nbot) h0)
        (nary_core G me ntop nint nbot (R me) None sz0 (fun s g => Ret (result s g)))
    = (all_acts G R (fun _ _ => []) me 1 (nary_ls depth ntop nint nbot) h0, Some (result (transpose G R me) [])).
  Proof.
    destruct (nary_depth_spec G ntop nint nbot HG Ht Hi Hb HbB Hbt HGn) as [depth [prod [Hdep [Hd [Hprod [Hcov _]]]]]].
    exists depth, prod. split; [exact Hdep|]. split; [lia|]. intros orders Hord me Hme.
    assert (Hpl : prodl (map snd (nary_ls depth ntop nint nbot)) = prod) by (unfold nary_ls; rewrite map_rev, prodl_rev; symmetry; exact Hprod).
    apply (nary_core_round_semantics G R ntop nint nbot depth prod (nary_ls depth ntop nint nbot) orders sz0 HG HG1 HR Hdep).
    - intros q Hq. rewrite Hprod. apply nary_descent_spec; try assumption; try lia; try (rewrite BIG_eq in *; lia).
    - rewrite Hpl. lia.
    - rewrite Hpl. lia.
    - intros q Hq. apply levels_ok_intro; [lia|apply nary_ls_widths; assumption || lia|rewrite Hpl; lia|apply Hord; exact Hq].
    - exact Hme.
  Qed.

  Variable pay : Z -> Z -> payload.
  Variable sz : Z.
  Hypothesis Hsz : 0 < sz < 2 ^ 31.
  Hypothesis Hbytes : forall f t, Forall isbyte (pay f t) /\ Z.of_nat (length (pay f t)) = sz.

  Theorem nary_core_round_semantics_payload_full :
    exists depth prod, nary_depth 64 G nbot ntop nint = Some (depth, prod) /\ G <= prod /\
    forall orders : Z -> Z -> list Z,
    (forall me, 0 <= me < G -> orders_ok G me (orders me) 1 (nary_ls depth ntop nint nbot)) ->
    forall me, 0 <= me < G ->
    let payf := fun f t => pack_ints (Z.to_nat (npay_nary 1 sz)) (pay f t) in
    run (all_replies G R payf me (orders me) 1 (nary_ls depth ntop nint nbot) h0)
        (nary_core G me ntop nint nbot (R me) (Some (map (pay me) (R me))) sz (fun s g => Ret (result s g)))
    = (all_acts G R payf me 1 (nary_ls depth ntop nint nbot) h0,
       Some (result (transpose G R me) (map (fun s => pay s me) (transpose G R me)))).
  Proof.
    destruct (nary_depth_spec G ntop nint nbot HG Ht Hi Hb HbB Hbt HGn) as [depth [prod [Hdep [Hd [Hprod [Hcov _]]]]]].
    exists depth, prod. split; [exact Hdep|]. split; [lia|]. intros orders Hord me Hme.
    assert (Hpl : prodl (map snd (nary_ls depth ntop nint nbot)) = prod) by (unfold nary_ls; rewrite map_rev, prodl_rev; symmetry; exact Hprod).
    apply (nary_core_round_semantics_payload G R pay ntop nint nbot depth prod (nary_ls depth ntop nint nbot) orders sz HG HG1 Hsz HR Hbytes Hdep).
    - intros q Hq. rewrite Hprod. apply nary_descent_spec; try assumption; try lia; try (rewrite BIG_eq in *; lia).
    - rewrite Hpl. lia.
    - rewrite Hpl. lia.
    - intros q Hq. apply levels_ok_intro; [lia|apply nary_ls_widths; assumption || lia|rewrite Hpl; lia|apply Hord; exact Hq].
    - exact Hme.
  Qed.
End Full.
