(* C01 - executable tests of the every-schedule theorems (C01/NarySched.v, BinarySched.v, BinaryTwice.v, BackToBack.v) on small
   instances: a pseudo-random scheduler over SemAny.enabled / exec_step is run by vm_compute for several seeds; every run must
   stop (no enabled choice) in a final state after exactly nary_steps / binary_steps / twice_steps steps, with the transposed lists
   as results and no message left in the channels of the algorithm's tags.  These are the tests that were made BEFORE the proofs;
   they also show that the hypotheses of the theorems are satisfiable and that the step counts are the real ones.
   For two n-ary calls in sequence some seeds end with wrong results (cf. BackToBack.nary_back_to_back_refuted). *)
From Coq Require Import ZArith Lia List Bool.
From ScV Require Import Base.CInt MPI.Prog MPI.Sem MPI.SemAny MPI.SemRounds Gen.Consts Gen.NotifyC01 C01.NotifyProgs C01.NotifyProgProofs
     C01.NaryCore C01.NarySched C01.BinarySched C01.BackToBack C01.BinaryTwice.
Import ListNotations.
Local Open Scope Z_scope.

Definition lcg (x : Z) : Z := (x * 1103515245 + 12345) mod 2147483648.
(* result: the schedule, the last state, true iff the run stopped because no choice was enabled *)
Fixpoint rnd_run (fuel : nat) (seed : Z) (rs : list Z) (s : gs) (acc : list choice) : list choice * gs * bool :=
  match fuel with
  | O => (rev acc, s, false)
  | S f => match enabled s rs with
           | [] => (rev acc, s, true)
           | en => let c := nth (Z.to_nat ((seed / 65536) mod Z.of_nat (length en))) en (0, 0) in
                   match exec_step s c with
                   | Some s' => rnd_run f (lcg seed) rs s' (c :: acc)
                   | None => (rev acc, s, false)
                   end
           end
  end.

Definition outs (s : gs) (rs : list Z) : list (option payload) := map (fun r => match pr s r with Ret o => Some o | _ => None end) rs.
Definition leftover (s : gs) (rs tags : list Z) : list (Z * Z * Z) :=
  flat_map (fun a => flat_map (fun b => flat_map (fun t => match ch s a b t with [] => [] | _ => [(a, b, t)] end) tags) rs) rs.
Definition eqp (x y : payload) : bool := (length x =? length y)%nat && forallb (fun q => fst q =? snd q) (combine x y).
Definition eqo (a b : list (option payload)) : bool :=
  (length a =? length b)%nat && forallb (fun p => match p with (Some x, Some y) => eqp x y | _ => false end) (combine a b).

(* one run: stopped, number of steps as predicted, results as expected, nothing left over *)
Definition good_run (G : Z) (sys : gs) (tags : list Z) (steps : nat) (expected : list (option payload)) (seed : Z) : bool :=
  let '(sch, s, stopped) := rnd_run 2000 seed (ranks G) sys [] in
  stopped && (length sch =? steps)%nat && eqo (outs s (ranks G)) expected && match leftover s (ranks G) tags with [] => true | _ => false end.

Definition exp1 G (R : Z -> list Z) : list (option payload) := map (fun r => Some (result (transpose G R r) [])) (ranks G).
Definition exp2 G (R1 R2 : Z -> list Z) : list (option payload) :=
  map (fun r => Some (result (transpose G R1 r) [] ++ result (transpose G R2 r) [])) (ranks G).
Definition ntags : list Z := map (fun l => c_SC_TAG_NOTIFY_NARY + l) (ranks 8).
Definition btags : list Z := map (fun l => c_SC_TAG_NOTIFY_RECURSIVE + l) (ranks 8).

Definition Ra (f : Z) : list Z := if f =? 0 then [1; 2] else if f =? 1 then [0; 1] else if f =? 2 then [1] else [].
Definition Rb (f : Z) : list Z := filter (fun t => ((f * 7 + t * 3) mod 5 <? 2)) (ranks 7).
Definition Rc (f : Z) : list Z := filter (fun t => ((f * 5 + t * 2) mod 7 <? 3)) (ranks 7).
Definition Rd (G f : Z) : list Z := filter (fun t => ((f * 3 + t * 5) mod 4 <? 2)) (ranks G).     (* inside a communicator of size G *)

Definition nary_test G ntop nint nbot R seeds : bool :=
  match nary_depth 64 G nbot ntop nint with
  | Some (depth, _) => forallb (good_run G (nary_sys G R ntop nint nbot 0) ntags (nary_steps G R (nary_params G ntop nint nbot depth)) (exp1 G R)) seeds
  | None => false
  end.
Definition binary_test G n R seeds : bool := forallb (good_run G (binary_sys G R) btags (binary_steps G R n) (exp1 G R)) seeds.
Definition twice_test G n R1 R2 seeds : bool := forallb (good_run G (binary_sys2 G R1 R2) btags (twice_steps G R1 R2 n) (exp2 G R1 R2)) seeds.

(* ---- one call ---------------------------------------------------------------------------------------------------------------- *)
Example nary_random_schedules :
  nary_test 3 2 2 2 Ra (ranks 12) = true /\ nary_test 7 2 2 2 Rb (ranks 12) = true /\
  nary_test 7 3 2 2 Rb (ranks 6) = true /\ nary_test 7 2 3 4 Rc (ranks 6) = true /\ nary_test 5 2 2 8 (Rd 5) (ranks 6) = true.
Proof. vm_compute. repeat split; reflexivity. Qed.

Example nary_step_counts :
  (nary_steps 3 Ra (nary_params 3 2 2 2 2), nary_steps 7 Rb (nary_params 7 2 2 2 3), nary_steps 7 Rc (nary_params 7 2 3 4 2)) = (10, 40, 54)%nat /\
  (nary_depth 64 3 2 2 2, nary_depth 64 7 2 2 2, nary_depth 64 7 4 2 3, nary_depth 64 5 8 2 2) = (Some (2, 4), Some (3, 8), Some (2, 8), Some (1, 8)).
Proof. vm_compute. split; reflexivity. Qed.

Example binary_random_schedules :
  binary_test 3 2 Ra (ranks 12) = true /\ binary_test 7 3 Rb (ranks 12) = true /\ binary_test 6 3 (Rd 6) (ranks 12) = true /\
  binary_test 1 0 (Rd 1) (ranks 2) = true /\ binary_test 2 1 (Rd 2) (ranks 4) = true.
Proof. vm_compute. repeat split; reflexivity. Qed.

Example binary_step_counts :
  (binary_steps 3 Ra 2, binary_steps 7 Rb 3, binary_steps 6 (Rd 6) 3) = (10, 40, 32)%nat /\
  (binary_pow2length 3, binary_pow2length 7, binary_pow2length 6, binary_pow2length 1) = (4, 8, 8, 1).
Proof. vm_compute. split; reflexivity. Qed.

(* ---- two calls in sequence ------------------------------------------------------------------------------------------------------ *)
Example binary_twice_random_schedules :
  twice_test 3 2 Ra (Rd 3) (ranks 16) = true /\ twice_test 7 3 Rb Rc (ranks 16) = true /\ twice_test 6 3 (Rd 6) Ra (ranks 16) = true.
Proof. vm_compute. repeat split; reflexivity. Qed.

(* n-ary, two calls: which of the seeds 0 .. 29 end with the results of two correct calls (all runs stop in a final state after 20
   steps without leftover; three of them with wrong results) *)
Definition nary_twice_run (seed : Z) : bool * bool :=
  let '(sch, s, stopped) := rnd_run 2000 seed (ranks 3) (nary_sys2 3 2 2 2 Ra Ra) [] in
  (stopped && (length sch =? 20)%nat && match leftover s (ranks 3) ntags with [] => true | _ => false end,
   eqo (outs s (ranks 3)) (exp2 3 Ra Ra)).
Example nary_twice_random_schedules :
  forallb (fun seed => fst (nary_twice_run seed)) (ranks 30) = true /\
  filter (fun seed => negb (snd (nary_twice_run seed))) (ranks 30) = [4; 21; 28].
Proof. vm_compute. split; reflexivity. Qed.
