(* C01 - the n-ary recursion delivers every notification to its addressee: composition of the levels. *)
From Coq Require Import ZArith Lia List Bool ZifyBool.
From ScV Require Import Base.CInt Gen.NotifyC01 C01.NaryArith.
Import ListNotations.
Local Open Scope Z_scope.

(* holder of a record for rank t after one level with part length L and D parts, built from GENERATED slices *)
Definition route (L D G h t : Z) : Z :=
  let W := D * L in
  let j := nary_topart t W L in
  if j =? gpart L D h then h else nary_peer h j (gpart L D h) L G W.

(* levels from the deepest (smallest groups) to the top; L is the part length of the current level *)
Fixpoint deliver (Ds : list Z) (L G h t : Z) : Z :=
  match Ds with
  | [] => h
  | D :: rest => deliver rest (D * L) G (route L D G h t) t
  end.

Definition prodl (Ds : list Z) : Z := fold_right Z.mul 1 Ds.

Lemma prodl_ge1 Ds : Forall (fun D => 2 <= D) Ds -> 1 <= prodl Ds.
Proof. induction 1 as [|D Ds HD _ IH]; simpl; [lia|nia]. Qed.

Lemma route_inv L D G h t :
  0 < L -> 2 <= D -> 0 < G <= BIG -> D * L <= BIG -> 0 <= h < G -> 0 <= t < G -> t mod L = h mod L ->
  0 <= route L D G h t < G /\ t mod (D * L) = route L D G h t mod (D * L).
Proof.
  intros HL HD HG HW Hh Ht Hm.
  destruct (nary_routing L D G HL HD HG HW h t Hh Ht Hm) as [Hj [Hstay Hmove]].
  unfold route. cbv zeta. destruct (nary_topart t (D * L) L =? gpart L D h) eqn:E.
  - split; [exact Hh|]. apply Hstay. lia.
  - apply Hmove. lia.
Qed.

(* every record reaches its addressee, whatever rank it starts from *)
Theorem deliver_correct : forall Ds L G h t,
  Forall (fun D => 2 <= D) Ds -> 0 < L -> 0 < G <= BIG -> prodl Ds * L <= BIG -> G <= prodl Ds * L ->
  0 <= h < G -> 0 <= t < G -> t mod L = h mod L ->
  deliver Ds L G h t = t.
Proof.
  induction Ds as [|D Ds IH]; intros L G h t HDs HL HG HB HP Hh Ht Hm.
  - unfold prodl in HB, HP. cbn [fold_right] in HB, HP. rewrite Z.mul_1_l in HB, HP. cbn [deliver].
    rewrite !Z.mod_small in Hm by lia. symmetry; exact Hm.
  - inversion HDs as [|? ? HD HDs']; subst. unfold prodl in HB, HP. cbn [fold_right] in HB, HP. fold (prodl Ds) in HB, HP. cbn [deliver].
    pose proof (prodl_ge1 Ds HDs') as Hp1.
    assert (HDL : D * L <= BIG) by nia.
    destruct (route_inv L D G h t HL HD HG HDL Hh Ht Hm) as [Hr Hrm].
    apply IH; try assumption; try nia.
Qed.

(* PATTERN INVERSION.  Rank f starts with one record (t, f) for every t in its receiver list R f; after the
   recursion rank p holds exactly the records addressed to it: its senders are the f with p in R f. *)
Definition final_senders (Ds : list Z) (G : Z) (R : Z -> list Z) (p : Z) : list Z :=
  filter (fun f => existsb (fun t => deliver Ds 1 G f t =? p) (R f)) (map Z.of_nat (seq 0 (Z.to_nat G))).

Theorem nary_inverts_pattern Ds G (R : Z -> list Z) p :
  Forall (fun D => 2 <= D) Ds -> 0 < G <= BIG -> prodl Ds <= BIG -> G <= prodl Ds ->
  (forall f t, 0 <= f < G -> In t (R f) -> 0 <= t < G) -> 0 <= p < G ->
  forall f, In f (final_senders Ds G R p) <-> (0 <= f < G /\ In p (R f)).
Proof.
  intros HDs HG HB HP HR Hp f. unfold final_senders. rewrite filter_In, in_map_iff, existsb_exists.
  split.
  - intros [[n [Hn Hin]] [t [Ht Hd]]]. apply in_seq in Hin. assert (Hf : 0 <= f < G) by lia.
    split; [exact Hf|].
    assert (Hdc : deliver Ds 1 G f t = t).
    { apply deliver_correct; [exact HDs|lia|exact HG|lia|lia|exact Hf|apply HR with f; assumption|rewrite !Z.mod_1_r; reflexivity]. }
    rewrite Hdc in Hd. assert (t = p) by lia. subst t. exact Ht.
  - intros [Hf Hin]. split.
    + exists (Z.to_nat f). split; [lia|apply in_seq; lia].
    + exists p. split; [exact Hin|].
      assert (Hdc : deliver Ds 1 G f p = p).
      { apply deliver_correct; [exact HDs|lia|exact HG|lia|lia|exact Hf|exact Hp|rewrite !Z.mod_1_r; reflexivity]. }
      rewrite Hdc. apply Z.eqb_refl.
Qed.

(* the part index the code computes (mypart, from start and lengthn) is the one used above *)
Lemma nary_part_gpart L D me : 0 < L -> 2 <= D -> D * L <= BIG -> 0 <= me <= BIG ->
  nary_part (D * L) D me (gstart L D me) = (L, gpart L D me).
Proof.
  intros HL HD HW Hme. assert (HWp : 0 < D * L) by nia.
  assert (Hst : 0 <= gstart L D me <= me).
  { unfold gstart. pose proof (Z.div_mod me (D * L) ltac:(lia)). pose proof (Z.mod_pos_bound me (D * L) HWp).
    assert (0 <= me / (D * L) * (D * L)) by (apply Z.mul_nonneg_nonneg; [apply Z.div_pos|]; lia). lia. }
  rewrite part_spec; try lia.
  - replace (D * L / D) with L by (rewrite Z.mul_comm, Z.div_mul; lia). f_equal. unfold gpart, gstart. f_equal.
    pose proof (Z.div_mod me (D * L) ltac:(lia)). lia.
  - rewrite Z.mul_comm. apply Z.mod_mul. lia.
Qed.
