(* C01/C02 - algebra of sc_notify_merge at the level of records:
   the merge of two well-formed record lists is the well-formed record list of the union of their notification
   sets; a well-formed record list is DETERMINED by its set of notifications, hence the merge is commutative and
   associative and the result of a level does not depend on the order in which messages arrive. *)
From Coq Require Import ZArith Lia List Bool Permutation Sorting.Sorted.
From ScV Require Import Base.CInt C01.MergeModel.
Import ListNotations.
Local Open Scope Z_scope.

(* ---- strictly ascending lists ---------------------------------------------------------------------- *)
Section Keyed.
  Context {A : Type} (key : A -> Z).
  Definition ssorted (l : list A) : Prop := StronglySorted (fun x y => key x < key y) l.

  Lemma ssorted_inv x l : ssorted (x :: l) -> ssorted l /\ Forall (fun y => key x < key y) l.
  Proof. intros H. inversion H; subst. split; assumption. Qed.

  Lemma ssorted_perm_eq : forall l1 l2, ssorted l1 -> ssorted l2 -> Permutation l1 l2 -> l1 = l2.
  Proof.
    induction l1 as [|x l1 IH]; intros l2 H1 H2 HP.
    - apply Permutation_nil in HP. subst. reflexivity.
    - destruct l2 as [|y l2]; [apply Permutation_sym, Permutation_nil in HP; discriminate|].
      destruct (ssorted_inv _ _ H1) as [S1 F1]. destruct (ssorted_inv _ _ H2) as [S2 F2].
      rewrite Forall_forall in F1, F2.
      assert (Hxy : x = y).
      { assert (Hx : In x (y :: l2)) by (apply (Permutation_in _ HP); left; reflexivity).
        assert (Hy : In y (x :: l1)) by (apply (Permutation_in _ (Permutation_sym HP)); left; reflexivity).
        destruct Hx as [Hx|Hx]; [congruence|]. destruct Hy as [Hy|Hy]; [congruence|].
        specialize (F1 _ Hy). specialize (F2 _ Hx). lia. }
      subst y. f_equal. apply IH; try assumption. eapply Permutation_cons_inv; eassumption.
  Qed.

  Lemma ssorted_app_lt l1 l2 : ssorted l1 -> ssorted l2 -> (forall x y, In x l1 -> In y l2 -> key x < key y) -> ssorted (l1 ++ l2).
  Proof.
    induction l1 as [|x l1 IH]; intros H1 H2 Hlt; simpl; [assumption|].
    destruct (ssorted_inv _ _ H1) as [S1 F1]. constructor.
    - apply IH; try assumption. intros; apply Hlt; [right|]; assumption.
    - apply Forall_app. split; [assumption|]. apply Forall_forall. intros y Hy. apply Hlt; [left; reflexivity|assumption].
  Qed.
End Keyed.

Lemma filter_perm {A} (f : A -> bool) l l' : Permutation l l' -> Permutation (filter f l) (filter f l').
Proof.
  induction 1; simpl.
  - constructor.
  - destruct (f x); [constructor|]; assumption.
  - destruct (f x), (f y); try apply Permutation_refl. apply perm_swap.
  - eapply Permutation_trans; eassumption.
Qed.

Lemma filter_true {A} (f : A -> bool) l : (forall x, In x l -> f x = true) -> filter f l = l.
Proof. induction l as [|x l IH]; intros H; simpl; [reflexivity|]. rewrite (H x (or_introl eq_refl)). f_equal. apply IH. intros; apply H; right; assumption. Qed.
Lemma filter_false {A} (f : A -> bool) l : (forall x, In x l -> f x = false) -> filter f l = [].
Proof. induction l as [|x l IH]; intros H; simpl; [reflexivity|]. rewrite (H x (or_introl eq_refl)). apply IH. intros; apply H; right; assumption. Qed.

(* ---- merge of sender lists --------------------------------------------------------------------------- *)
Lemma imerge_nil_l b : imerge [] b = b.  Proof. destruct b; reflexivity. Qed.
Lemma imerge_nil_r a : imerge a [] = a.  Proof. destruct a; reflexivity. Qed.
Lemma imerge_cons x a y b :
  imerge (x :: a) (y :: b) = if fst x <? fst y then x :: imerge a (y :: b) else y :: imerge (x :: a) b.
Proof. reflexivity. Qed.

Lemma imerge_perm : forall a b, Permutation (imerge a b) (a ++ b).
Proof.
  induction a as [|x a IHa]; intros b; [rewrite imerge_nil_l; apply Permutation_refl|].
  induction b as [|y b IHb]; [rewrite imerge_nil_r, app_nil_r; apply Permutation_refl|].
  rewrite imerge_cons. destruct (fst x <? fst y).
  - simpl. apply perm_skip. apply IHa.
  - apply (Permutation_cons_app (x :: a) b y). exact IHb.
Qed.

Lemma imerge_In a b x : In x (imerge a b) <-> In x a \/ In x b.
Proof.
  split; intros H.
  - apply in_app_or. apply (Permutation_in _ (imerge_perm a b)). exact H.
  - apply (Permutation_in _ (Permutation_sym (imerge_perm a b))). apply in_or_app. exact H.
Qed.

Lemma imerge_length a b : length (imerge a b) = (length a + length b)%nat.
Proof. rewrite (Permutation_length (imerge_perm a b)). apply app_length. Qed.

Definition idisj (a b : list item) : Prop := forall x y, In x a -> In y b -> fst x <> fst y.

Lemma imerge_sorted : forall a b, ssorted fst a -> ssorted fst b -> idisj a b -> ssorted fst (imerge a b).
Proof.
  induction a as [|x a IHa]; intros b Ha Hb Hd; [rewrite imerge_nil_l; assumption|].
  induction b as [|y b IHb]; [rewrite imerge_nil_r; assumption|].
  destruct (ssorted_inv _ _ _ Ha) as [Sa Fa]. destruct (ssorted_inv _ _ _ Hb) as [Sb Fb].
  rewrite Forall_forall in Fa, Fb.
  rewrite imerge_cons. destruct (fst x <? fst y) eqn:E.
  - constructor.
    + apply IHa; try assumption. intros u v Hu Hv. apply Hd; [right|]; assumption.
    + apply Forall_forall. intros z Hz. apply imerge_In in Hz. destruct Hz as [Hz|[Hz|Hz]].
      * apply Fa; assumption.
      * subst z. lia.
      * specialize (Fb _ Hz). lia.
  - assert (fst x <> fst y) by (apply Hd; left; reflexivity).
    constructor.
    + apply IHb; try assumption. intros u v Hu Hv. apply Hd; [|right]; assumption.
    + apply Forall_forall. intros z Hz. apply imerge_In in Hz. destruct Hz as [[Hz|Hz]|Hz].
      * subst z. lia.
      * specialize (Fa _ Hz). lia.
      * apply Fb; assumption.
Qed.

Lemma imerge_comm a b : ssorted fst a -> ssorted fst b -> idisj a b -> imerge a b = imerge b a.
Proof.
  intros Ha Hb Hd. apply (ssorted_perm_eq fst).
  - apply imerge_sorted; assumption.
  - apply imerge_sorted; try assumption. intros x y Hx Hy E. apply (Hd y x); auto.
  - eapply Permutation_trans; [apply imerge_perm|]. eapply Permutation_trans; [apply Permutation_app_comm|].
    apply Permutation_sym, imerge_perm.
Qed.

(* ---- records ------------------------------------------------------------------------------------------ *)
Lemma rmerge_nil_l b : rmerge [] b = b.  Proof. destruct b; reflexivity. Qed.
Lemma rmerge_nil_r a : rmerge a [] = a.  Proof. destruct a; reflexivity. Qed.
Lemma rmerge_cons ra a rb b :
  rmerge (ra :: a) (rb :: b) =
  if fst ra <? fst rb then ra :: rmerge a (rb :: b)
  else if fst rb <? fst ra then rb :: rmerge (ra :: a) b
  else (fst ra, imerge (snd ra) (snd rb)) :: rmerge a b.
Proof. reflexivity. Qed.

Lemma pairs_cons r rs : pairs (r :: rs) = map (fun it => (fst r, it)) (snd r) ++ pairs rs.
Proof. reflexivity. Qed.

(* the merge neither loses nor invents nor alters a notification: every (torank, fromrank, payload) of the two
   operands is in the result exactly as often as in the operands together *)
Lemma rmerge_pairs : forall a b, Permutation (pairs (rmerge a b)) (pairs a ++ pairs b).
Proof.
  induction a as [|ra a IHa]; intros b; [rewrite rmerge_nil_l; apply Permutation_refl|].
  induction b as [|rb b IHb]; [rewrite rmerge_nil_r, app_nil_r; apply Permutation_refl|].
  rewrite rmerge_cons. destruct (fst ra <? fst rb) eqn:E1; [|destruct (fst rb <? fst ra) eqn:E2].
  - rewrite !pairs_cons. rewrite <- app_assoc. apply Permutation_app_head. rewrite <- pairs_cons. apply IHa.
  - rewrite (pairs_cons rb (rmerge (ra :: a) b)).
    eapply Permutation_trans; [apply Permutation_app_head; apply IHb|].
    rewrite (pairs_cons rb b). rewrite !app_assoc. apply Permutation_app_tail. apply Permutation_app_comm.
  - assert (Heq : fst ra = fst rb) by lia.
    rewrite (pairs_cons (fst ra, imerge (snd ra) (snd rb))). cbn [fst snd].
    eapply Permutation_trans; [apply Permutation_app; [apply Permutation_map; apply imerge_perm|apply IHa]|].
    rewrite map_app, !pairs_cons. rewrite <- Heq.
    rewrite <- !app_assoc. apply Permutation_app_head.
    rewrite !app_assoc. apply Permutation_app_tail. apply Permutation_app_comm.
Qed.

Lemma rmerge_pairs_In a b p : In p (pairs (rmerge a b)) <-> In p (pairs a) \/ In p (pairs b).
Proof.
  split; intros H.
  - apply in_app_or. apply (Permutation_in _ (rmerge_pairs a b)). exact H.
  - apply (Permutation_in _ (Permutation_sym (rmerge_pairs a b))). apply in_or_app. exact H.
Qed.

(* well-formed: toranks strictly ascending; every record has at least one sender; senders strictly ascending *)
Definition wfr (rs : list rcd) : Prop :=
  ssorted fst rs /\ Forall (fun r => snd r <> [] /\ ssorted fst (snd r)) rs.
(* the two operands never hold the same sender for the same destination (SC_ASSERT in the sender loop) *)
Definition disj (a b : list rcd) : Prop :=
  forall t x y, In (t, x) (pairs a) -> In (t, y) (pairs b) -> fst x <> fst y.

Lemma wfr_nil : wfr [].
Proof. split; constructor. Qed.

Lemma wfr_inv r rs : wfr (r :: rs) -> wfr rs /\ Forall (fun q => fst r < fst q) rs /\ snd r <> [] /\ ssorted fst (snd r).
Proof.
  intros [Hs Hf]. destruct (ssorted_inv _ _ _ Hs) as [S F]. inversion Hf; subst.
  split; [split; assumption|]. split; [assumption|]. assumption.
Qed.

Lemma in_pairs t x rs : In (t, x) (pairs rs) <-> exists r, In r rs /\ fst r = t /\ In x (snd r).
Proof.
  unfold pairs. rewrite in_flat_map. split.
  - intros [r [Hr Hin]]. apply in_map_iff in Hin. destruct Hin as [it [E Hit]]. inversion E; subst. exists r. auto.
  - intros [r [Hr [E Hx]]]. exists r. split; [assumption|]. apply in_map_iff. exists x. subst. auto.
Qed.

Lemma rmerge_keys : forall a b r, In r (rmerge a b) -> exists r', (In r' a \/ In r' b) /\ fst r' = fst r.
Proof.
  induction a as [|ra a IHa]; intros b r; [rewrite rmerge_nil_l; intros; exists r; auto|].
  induction b as [|rb b IHb]; [rewrite rmerge_nil_r; intros; exists r; auto|].
  rewrite rmerge_cons. destruct (fst ra <? fst rb) eqn:E1; [|destruct (fst rb <? fst ra) eqn:E2]; intros [H|H].
  - subst. exists r. split; [left; left; reflexivity|reflexivity].
  - destruct (IHa _ _ H) as [r' [[Hr|Hr] E]]; exists r'; (split; [|assumption]); [left; right; assumption|right; assumption].
  - subst. exists r. split; [right; left; reflexivity|reflexivity].
  - destruct (IHb H) as [r' [[Hr|Hr] E]]; exists r'; (split; [|assumption]); [left; assumption|right; right; assumption].
  - subst. exists ra. split; [left; left; reflexivity|reflexivity].
  - destruct (IHa _ _ H) as [r' [[Hr|Hr] E]]; exists r'; (split; [|assumption]); [left; right; assumption|right; right; assumption].
Qed.

Lemma disj_tl_l ra a b : disj (ra :: a) b -> disj a b.
Proof. intros H t x y Hx Hy. apply (H t x y); [|assumption]. rewrite pairs_cons. apply in_or_app. right. assumption. Qed.
Lemma disj_tl_r a rb b : disj a (rb :: b) -> disj a b.
Proof. intros H t x y Hx Hy. apply (H t x y); [assumption|]. rewrite pairs_cons. apply in_or_app. right. assumption. Qed.

Theorem rmerge_wf : forall a b, wfr a -> wfr b -> disj a b -> wfr (rmerge a b).
Proof.
  induction a as [|ra a IHa]; intros b Ha Hb Hd; [rewrite rmerge_nil_l; assumption|].
  induction b as [|rb b IHb]; [rewrite rmerge_nil_r; assumption|].
  destruct (wfr_inv _ _ Ha) as [Wa [Fa [Na Sa]]]. destruct (wfr_inv _ _ Hb) as [Wb [Fb [Nb Sb]]].
  rewrite Forall_forall in Fa, Fb.
  rewrite rmerge_cons. destruct (fst ra <? fst rb) eqn:E1; [|destruct (fst rb <? fst ra) eqn:E2].
  - destruct (IHa (rb :: b) Wa Hb (disj_tl_l _ _ _ Hd)) as [S F]. split.
    + constructor; [assumption|]. apply Forall_forall. intros r Hr.
      destruct (rmerge_keys _ _ _ Hr) as [r' [[Hi|[Hi|Hi]] E]]; rewrite <- E.
      * apply Fa; assumption.
      * subst r'. lia.
      * specialize (Fb _ Hi). lia.
    + constructor; [split; assumption|assumption].
  - destruct (IHb Wb (disj_tl_r _ _ _ Hd)) as [S F]. split.
    + constructor; [assumption|]. apply Forall_forall. intros r Hr.
      destruct (rmerge_keys _ _ _ Hr) as [r' [[[Hi|Hi]|Hi] E]]; rewrite <- E.
      * subst r'. lia.
      * specialize (Fa _ Hi). lia.
      * apply Fb; assumption.
    + constructor; [split; assumption|assumption].
  - assert (Heq : fst ra = fst rb) by lia.
    destruct (IHa b Wa Wb (disj_tl_r _ _ _ (disj_tl_l _ _ _ Hd))) as [S F]. split.
    + constructor; [assumption|]. apply Forall_forall. intros r Hr. cbn [fst].
      destruct (rmerge_keys _ _ _ Hr) as [r' [[Hi|Hi] E]]; rewrite <- E.
      * apply Fa; assumption.
      * specialize (Fb _ Hi). lia.
    + constructor; [|assumption]. cbn [snd]. split.
      * intros E. apply Na. destruct (snd ra); [reflexivity|].
        assert (Hl := imerge_length (i :: l) (snd rb)). rewrite E in Hl. simpl in Hl. lia.
      * apply imerge_sorted; try assumption. intros x y Hx Hy. apply (Hd (fst ra)).
        -- rewrite pairs_cons. apply in_or_app. left. apply in_map. assumption.
        -- rewrite pairs_cons. apply in_or_app. left. rewrite Heq. apply in_map. assumption.
Qed.

(* a well-formed record list is determined by the set of notifications it holds *)
Theorem wfr_canonical : forall a b, wfr a -> wfr b -> Permutation (pairs a) (pairs b) -> a = b.
Proof.
  induction a as [|ra a IH]; intros b Ha Hb HP.
  - destruct b as [|rb b]; [reflexivity|]. exfalso.
    destruct (wfr_inv _ _ Hb) as [_ [_ [Nb _]]]. rewrite pairs_cons in HP. simpl in HP.
    apply Permutation_nil in HP. destruct (snd rb); [congruence|discriminate].
  - destruct b as [|rb b].
    { exfalso. destruct (wfr_inv _ _ Ha) as [_ [_ [Na _]]]. rewrite pairs_cons in HP. simpl in HP.
      apply Permutation_sym, Permutation_nil in HP. destruct (snd ra); [congruence|discriminate]. }
    destruct (wfr_inv _ _ Ha) as [Wa [Fa [Na Sa]]]. destruct (wfr_inv _ _ Hb) as [Wb [Fb [Nb Sb]]].
    rewrite Forall_forall in Fa, Fb.
    assert (Hlow : forall (r : rcd) rs (rs' : list rcd) r', Forall (fun q => fst r < fst q) rs -> snd r <> [] ->
                   Permutation (pairs (r :: rs)) (pairs (r' :: rs')) -> Forall (fun q => fst r' < fst q) rs' -> fst r' <= fst r).
    { intros r rs rs' r' F N P F'. destruct (snd r) as [|x l] eqn:Ex; [congruence|].
      assert (Hin : In (fst r, x) (pairs (r' :: rs'))).
      { apply (Permutation_in _ P). rewrite pairs_cons, Ex. left. reflexivity. }
      apply in_pairs in Hin. destruct Hin as [q [[Hq|Hq] [E _]]]; [subst q; lia|].
      rewrite Forall_forall in F'. specialize (F' _ Hq). lia. }
    assert (Heq : fst ra = fst rb).
    { assert (fst rb <= fst ra) by (apply (Hlow ra a b rb); try assumption; apply Forall_forall; assumption).
      assert (fst ra <= fst rb) by (apply (Hlow rb b a ra); try assumption; [apply Forall_forall; assumption|apply Permutation_sym; assumption|apply Forall_forall; assumption]).
      lia. }
    assert (Hsplit : forall (r : rcd) rs, Forall (fun q => fst r < fst q) rs ->
              filter (fun p => fst p =? fst r) (pairs (r :: rs)) = map (fun it => (fst r, it)) (snd r) /\
              filter (fun p => negb (fst p =? fst r)) (pairs (r :: rs)) = pairs rs).
    { intros r rs F. rewrite Forall_forall in F. rewrite pairs_cons, !filter_app. split.
      - rewrite filter_true, filter_false; [apply app_nil_r| |].
        + intros [t x] Hin. apply in_pairs in Hin. destruct Hin as [q [Hq [E _]]]. specialize (F _ Hq). cbn [fst]. lia.
        + intros [t x] Hin. apply in_map_iff in Hin. destruct Hin as [it [E _]]. inversion E. cbn [fst]. lia.
      - rewrite filter_false, filter_true; [reflexivity| |].
        + intros [t x] Hin. apply in_pairs in Hin. destruct Hin as [q [Hq [E _]]]. specialize (F _ Hq). cbn [fst]. lia.
        + intros [t x] Hin. apply in_map_iff in Hin. destruct Hin as [it [E _]]. inversion E. cbn [fst]. lia. }
    destruct (Hsplit ra a ltac:(apply Forall_forall; assumption)) as [A1 A2].
    destruct (Hsplit rb b ltac:(apply Forall_forall; assumption)) as [B1 B2].
    assert (P1 := filter_perm (fun p => fst p =? fst ra) _ _ HP).
    assert (P2 := filter_perm (fun p => negb (fst p =? fst ra)) _ _ HP).
    rewrite A1 in P1. rewrite A2 in P2. rewrite Heq in P1, P2. rewrite B1 in P1. rewrite B2 in P2.
    assert (Hitems : snd ra = snd rb).
    { apply (ssorted_perm_eq fst); try assumption.
      apply (Permutation_map snd) in P1. rewrite !map_map in P1. cbn [snd] in P1. rewrite !map_id in P1. exact P1. }
    f_equal.
    + destruct ra, rb. cbn [fst snd] in *. congruence.
    + apply IH; assumption.
Qed.

(* ---- consequences: commutativity, associativity, independence of the order of arrival ---------------------- *)
Lemma disj_sym a b : disj a b -> disj b a.
Proof. intros H t x y Hx Hy E. apply (H t y x); auto. Qed.

Lemma disj_rmerge_l a b c : disj a c -> disj b c -> disj (rmerge a b) c.
Proof. intros H1 H2 t x y Hx Hy. apply rmerge_pairs_In in Hx. destruct Hx; [eapply H1|eapply H2]; eassumption. Qed.
Lemma disj_rmerge_r a b c : disj a b -> disj a c -> disj a (rmerge b c).
Proof. intros H1 H2 t x y Hx Hy. apply rmerge_pairs_In in Hy. destruct Hy; [eapply H1|eapply H2]; eassumption. Qed.

Theorem rmerge_comm a b : wfr a -> wfr b -> disj a b -> rmerge a b = rmerge b a.
Proof.
  intros Ha Hb Hd. apply wfr_canonical.
  - apply rmerge_wf; assumption.
  - apply rmerge_wf; try assumption. apply disj_sym; assumption.
  - eapply Permutation_trans; [apply rmerge_pairs|]. eapply Permutation_trans; [apply Permutation_app_comm|].
    apply Permutation_sym, rmerge_pairs.
Qed.

Theorem rmerge_assoc a b c : wfr a -> wfr b -> wfr c -> disj a b -> disj a c -> disj b c ->
  rmerge (rmerge a b) c = rmerge a (rmerge b c).
Proof.
  intros Ha Hb Hc Hab Hac Hbc. apply wfr_canonical.
  - apply rmerge_wf; [apply rmerge_wf| |apply disj_rmerge_l]; assumption.
  - apply rmerge_wf; [|apply rmerge_wf|apply disj_rmerge_r]; assumption.
  - eapply Permutation_trans; [apply rmerge_pairs|].
    eapply Permutation_trans; [apply Permutation_app_tail; apply rmerge_pairs|].
    rewrite <- app_assoc. apply Permutation_sym.
    eapply Permutation_trans; [apply rmerge_pairs|]. apply Permutation_app_head. apply rmerge_pairs.
Qed.

(* the binary recursion merges its own records with the message that arrives first and then with the other
   one: both orders of arrival give the same array *)
Theorem rmerge_arrival_swap a x y : wfr a -> wfr x -> wfr y -> disj a x -> disj a y -> disj x y ->
  rmerge (rmerge a x) y = rmerge (rmerge a y) x.
Proof.
  intros Ha Hx Hy Hax Hay Hxy. apply wfr_canonical.
  - apply rmerge_wf; [apply rmerge_wf| |apply disj_rmerge_l]; assumption.
  - apply rmerge_wf; [apply rmerge_wf| |apply disj_rmerge_l]; try assumption. apply disj_sym; assumption.
  - eapply Permutation_trans; [apply rmerge_pairs|].
    eapply Permutation_trans; [apply Permutation_app_tail; apply rmerge_pairs|].
    apply Permutation_sym.
    eapply Permutation_trans; [apply rmerge_pairs|].
    eapply Permutation_trans; [apply Permutation_app_tail; apply rmerge_pairs|].
    rewrite <- !app_assoc. apply Permutation_app_head. apply Permutation_app_comm.
Qed.

(* any way of merging a family of pairwise disjoint well-formed record lists (any order, any bracketing - the
   n-ary recursion uses a pairwise tree over the receive slots) yields the same array: the one determined by
   the union of the notifications *)
Inductive mtree :=
| MLeaf (rs : list rcd)
| MNode (l r : mtree).
Fixpoint meval (t : mtree) : list rcd := match t with MLeaf rs => rs | MNode l r => rmerge (meval l) (meval r) end.
Fixpoint mleaves (t : mtree) : list (list rcd) := match t with MLeaf rs => [rs] | MNode l r => mleaves l ++ mleaves r end.

Definition pairwise_disj (L : list (list rcd)) : Prop :=
  forall i j, i <> j -> (i < length L)%nat -> (j < length L)%nat -> disj (nth i L []) (nth j L []).

Lemma meval_pairs t : Permutation (pairs (meval t)) (flat_map pairs (mleaves t)).
Proof.
  induction t as [rs|l IHl r IHr]; simpl.
  - rewrite app_nil_r. apply Permutation_refl.
  - rewrite flat_map_app. eapply Permutation_trans; [apply rmerge_pairs|]. apply Permutation_app; assumption.
Qed.

Lemma pairwise_disj_app_l L1 L2 : pairwise_disj (L1 ++ L2) -> pairwise_disj L1.
Proof.
  intros H i j Hne Hi Hj. specialize (H i j Hne). rewrite app_length in H.
  rewrite !app_nth1 in H by assumption. apply H; lia.
Qed.
Lemma pairwise_disj_app_r L1 L2 : pairwise_disj (L1 ++ L2) -> pairwise_disj L2.
Proof.
  intros H i j Hne Hi Hj. specialize (H (length L1 + i)%nat (length L1 + j)%nat). rewrite app_length in H.
  rewrite !app_nth2 in H by lia. replace (length L1 + i - length L1)%nat with i in H by lia.
  replace (length L1 + j - length L1)%nat with j in H by lia. apply H; lia.
Qed.
Lemma pairwise_disj_cross L1 L2 a b : pairwise_disj (L1 ++ L2) -> In a L1 -> In b L2 -> disj a b.
Proof.
  intros H Ha Hb. destruct (In_nth _ _ [] Ha) as [i [Hi Ei]]. destruct (In_nth _ _ [] Hb) as [j [Hj Ej]].
  specialize (H i (length L1 + j)%nat). rewrite app_length in H.
  rewrite app_nth1 in H by assumption. rewrite app_nth2 in H by lia.
  replace (length L1 + j - length L1)%nat with j in H by lia. rewrite Ei, Ej in H. apply H; lia.
Qed.

Lemma in_flat_pairs p L : In p (flat_map pairs L) <-> exists rs, In rs L /\ In p (pairs rs).
Proof. apply in_flat_map. Qed.

Lemma meval_wf t : Forall wfr (mleaves t) -> pairwise_disj (mleaves t) -> wfr (meval t).
Proof.
  induction t as [rs|l IHl r IHr]; simpl; intros Hw Hd.
  - inversion Hw; assumption.
  - apply Forall_app in Hw. destruct Hw as [Hwl Hwr].
    apply rmerge_wf; [apply IHl; [assumption|eapply pairwise_disj_app_l; eassumption]|apply IHr; [assumption|eapply pairwise_disj_app_r; eassumption]|].
    intros t x y Hx Hy.
    apply (Permutation_in _ (meval_pairs l)) in Hx. apply (Permutation_in _ (meval_pairs r)) in Hy.
    apply in_flat_pairs in Hx. apply in_flat_pairs in Hy. destruct Hx as [a [Ha Hx]]. destruct Hy as [b [Hb Hy]].
    eapply (pairwise_disj_cross _ _ a b Hd Ha Hb); eassumption.
Qed.

Theorem merge_order_irrelevant t1 t2 :
  Forall wfr (mleaves t1) -> pairwise_disj (mleaves t1) -> pairwise_disj (mleaves t2) ->
  Permutation (mleaves t1) (mleaves t2) -> meval t1 = meval t2.
Proof.
  intros Hw Hd1 Hd2 HP. apply wfr_canonical.
  - apply meval_wf; assumption.
  - apply meval_wf; [|assumption]. apply Forall_forall. intros x Hx. rewrite Forall_forall in Hw. apply Hw.
    apply (Permutation_in _ (Permutation_sym HP)). exact Hx.
  - eapply Permutation_trans; [apply meval_pairs|]. eapply Permutation_trans; [|apply Permutation_sym, meval_pairs].
    clear -HP. induction HP; simpl.
    + constructor.
    + apply Permutation_app_head. assumption.
    + rewrite !app_assoc. apply Permutation_app_tail. apply Permutation_app_comm.
    + eapply Permutation_trans; eassumption.
Qed.
