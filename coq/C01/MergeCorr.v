(* C01/C02 - the int-level model of sc_notify_merge (MergeModel.notify_merge, which follows the C loop and is
   compared with the real static function on every run) computes, on encoded record arrays, the encoding of the
   abstract merge of the records that are not marked as sent. *)
From Coq Require Import ZArith Lia List Bool Permutation.
From ScV Require Import Base.CInt C01.MergeModel C01.MergeProofs.
Import ListNotations.
Local Open Scope Z_scope.

(* every sender entry carries exactly n payload ints *)
Definition wfpay (n : nat) (rs : list rcd) : Prop := Forall (fun r => Forall (fun it => length (snd it) = n) (snd r)) rs.
Definition wfitems (n : nat) (l : list item) : Prop := Forall (fun it => length (snd it) = n) l.

Fixpoint drop_sent (a : list rcd) : list rcd :=
  match a with [] => [] | r :: a' => if fst r =? -1 then drop_sent a' else a end.

Lemma firstn_app_exact {A} (l1 l2 : list A) k : k = length l1 -> firstn k (l1 ++ l2) = l1.
Proof. intros ->. rewrite firstn_app, Nat.sub_diag, firstn_all. simpl. apply app_nil_r. Qed.
Lemma skipn_app_exact {A} (l1 l2 : list A) k : k = length l1 -> skipn k (l1 ++ l2) = l2.
Proof. intros ->. rewrite skipn_app, Nat.sub_diag, skipn_all. reflexivity. Qed.

Lemma enc_item_length n it : length (snd it) = n -> length (enc_item it) = S n.
Proof. intros H. unfold enc_item. simpl. rewrite H. reflexivity. Qed.

Lemma enc_items_length n l : wfitems n l -> length (flat_map enc_item l) = (S n * length l)%nat.
Proof.
  induction 1 as [|it l Hit _ IH]; [simpl; lia|].
  cbn [flat_map]. rewrite app_length, (enc_item_length n it Hit), IH. simpl. lia.
Qed.

Lemma enc_rcd_length n r : wfitems n (snd r) ->
  length (enc_rcd r) = reclen (Z.of_nat (S n)) (Z.of_nat (length (snd r))).
Proof.
  intros H. unfold enc_rcd, reclen. cbn [length]. rewrite (enc_items_length n _ H).
  rewrite <- Nat2Z.inj_mul. change 2 with (Z.of_nat 2). rewrite <- Nat2Z.inj_add, Nat2Z.id. reflexivity.
Qed.

Lemma encode_cons r rs : encode (r :: rs) = enc_rcd r ++ encode rs.
Proof. reflexivity. Qed.

Lemma hdr_encode r rs : hdr (encode (r :: rs)) = Some (fst r, Z.of_nat (length (snd r))).
Proof. reflexivity. Qed.

Lemma skipn2_encode r rs : skipn 2 (encode (r :: rs)) = flat_map enc_item (snd r) ++ encode rs.
Proof. reflexivity. Qed.

Lemma encode_length_ge a : (length a <= length (encode a))%nat.
Proof. induction a as [|r a IH]; [simpl; lia|]. rewrite encode_cons, app_length. unfold enc_rcd. simpl. lia. Qed.

Lemma drop_sent_length a : (length (encode (drop_sent a)) <= length (encode a))%nat.
Proof.
  induction a as [|r a IH]; [simpl; lia|]. cbn [drop_sent]. destruct (fst r =? -1); [|lia].
  rewrite (encode_cons r a), app_length. lia.
Qed.

Lemma live_drop_sent a : live (drop_sent a) = live a.
Proof.
  induction a as [|r a IH]; [reflexivity|]. cbn [drop_sent]. destruct (fst r =? -1) eqn:E; [|reflexivity].
  rewrite IH. unfold live. cbn [filter]. rewrite E. reflexivity.
Qed.

Lemma drop_sent_head a r a' : drop_sent a = r :: a' -> (fst r =? -1) = false.
Proof.
  induction a as [|q a IH]; [discriminate|]. cbn [drop_sent]. destruct (fst q =? -1) eqn:E; [exact IH|].
  intros H. inversion H; subst. exact E.
Qed.

Lemma wfpay_drop_sent n a : wfpay n a -> wfpay n (drop_sent a).
Proof.
  induction a as [|r a IH]; intros Hw; [constructor|]. inversion Hw as [|? ? Hr Ha]; subst.
  cbn [drop_sent]. destruct (fst r =? -1); [apply IH; assumption|assumption].
Qed.

Lemma skip_sent_encode n : forall fuel a, wfpay n a -> (length a <= fuel)%nat ->
  skip_sent fuel (Z.of_nat (S n)) (encode a) = encode (drop_sent a).
Proof.
  induction fuel as [|f IH]; intros a Hw Hl.
  - destruct a; [reflexivity|simpl in Hl; lia].
  - destruct a as [|r a]; [reflexivity|]. inversion Hw as [|? ? Hr Ha]; subst.
    cbn [skip_sent]. rewrite hdr_encode. cbn [drop_sent]. destruct (fst r =? -1) eqn:E; [|reflexivity].
    rewrite encode_cons. rewrite skipn_app_exact by (symmetry; apply enc_rcd_length; assumption).
    apply IH; [assumption|simpl in Hl; lia].
Qed.

Lemma merge_froms_encode n : forall fuel ia ib ra rb, wfitems n ia -> wfitems n ib ->
  (length ia + length ib <= fuel)%nat ->
  merge_froms fuel (S n) (flat_map enc_item ia ++ ra) (Z.of_nat (length ia)) (flat_map enc_item ib ++ rb) (Z.of_nat (length ib))
  = flat_map enc_item (imerge ia ib).
Proof.
  induction fuel as [|f IH]; intros ia ib ra rb Ha Hb Hl.
  - destruct ia; [|simpl in Hl; lia]. destruct ib; [reflexivity|simpl in Hl; lia].
  - cbn [merge_froms]. destruct ia as [|x ia]; destruct ib as [|y ib].
    + reflexivity.
    + pose proof (Forall_inv Hb) as Hy; pose proof (Forall_inv_tail Hb) as Hb'. cbv beta in Hy.
      replace (0 <? Z.of_nat (length (@nil item))) with false by reflexivity.
      replace (0 <? Z.of_nat (length (y :: ib))) with true by (symmetry; apply Z.ltb_lt; simpl length; lia).
      cbn [orb andb]. rewrite imerge_nil_l. cbn [flat_map]. rewrite <- app_assoc.
      rewrite firstn_app_exact by (symmetry; apply enc_item_length; assumption).
      rewrite skipn_app_exact by (symmetry; apply enc_item_length; assumption).
      replace (Z.of_nat (length (y :: ib)) - 1) with (Z.of_nat (length ib)) by (simpl length; lia).
      f_equal.
      specialize (IH [] ib ra rb Ha Hb'). rewrite imerge_nil_l in IH. apply IH. simpl in *; lia.
    + pose proof (Forall_inv Ha) as Hx; pose proof (Forall_inv_tail Ha) as Ha'. cbv beta in Hx.
      replace (0 <? Z.of_nat (length (x :: ia))) with true by (symmetry; apply Z.ltb_lt; simpl length; lia).
      replace (Z.of_nat (length (@nil item)) <=? 0) with true by reflexivity.
      cbn [orb andb]. rewrite imerge_nil_r. cbn [flat_map]. rewrite <- app_assoc.
      rewrite firstn_app_exact by (symmetry; apply enc_item_length; assumption).
      rewrite skipn_app_exact by (symmetry; apply enc_item_length; assumption).
      replace (Z.of_nat (length (x :: ia)) - 1) with (Z.of_nat (length ia)) by (simpl length; lia).
      f_equal.
      specialize (IH ia [] ra rb Ha' Hb). rewrite imerge_nil_r in IH. apply IH. simpl in *; lia.
    + pose proof (Forall_inv Ha) as Hx; pose proof (Forall_inv_tail Ha) as Ha'. pose proof (Forall_inv Hb) as Hy; pose proof (Forall_inv_tail Hb) as Hb'. cbv beta in Hx, Hy.
      replace (0 <? Z.of_nat (length (x :: ia))) with true by (symmetry; apply Z.ltb_lt; simpl length; lia).
      replace (Z.of_nat (length (y :: ib)) <=? 0) with false by (symmetry; apply Z.leb_gt; simpl length; lia).
      cbn [orb andb]. rewrite imerge_cons.
      replace (hd 0 (flat_map enc_item (x :: ia) ++ ra)) with (fst x) by reflexivity.
      replace (hd 0 (flat_map enc_item (y :: ib) ++ rb)) with (fst y) by reflexivity.
      destruct (fst x <? fst y).
      * cbn [flat_map]. rewrite <- (app_assoc (enc_item x)).
        rewrite firstn_app_exact by (symmetry; apply enc_item_length; assumption).
        rewrite skipn_app_exact by (symmetry; apply enc_item_length; assumption).
        replace (Z.of_nat (length (x :: ia)) - 1) with (Z.of_nat (length ia)) by (simpl length; lia).
        f_equal. change (enc_item y ++ flat_map enc_item ib) with (flat_map enc_item (y :: ib)).
        apply IH; [assumption|constructor; assumption|simpl in *; lia].
      * cbn [flat_map]. rewrite <- (app_assoc (enc_item y)).
        rewrite firstn_app_exact by (symmetry; apply enc_item_length; assumption).
        rewrite skipn_app_exact by (symmetry; apply enc_item_length; assumption).
        replace (Z.of_nat (length (y :: ib)) - 1) with (Z.of_nat (length ib)) by (simpl length; lia).
        f_equal. change (enc_item x ++ flat_map enc_item ia) with (flat_map enc_item (x :: ia)).
        apply IH; [constructor; assumption|assumption|simpl in *; lia].
Qed.

Lemma imerge_wfitems n a b : wfitems n a -> wfitems n b -> wfitems n (imerge a b).
Proof.
  intros Ha Hb. unfold wfitems in *. rewrite Forall_forall in *. intros x Hx. apply imerge_In in Hx. destruct Hx; auto.
Qed.

Lemma merge_loop_encode n : forall fuel a b, wfpay n a -> wfpay n b ->
  (length (encode a) + length (encode b) < fuel)%nat ->
  merge_loop fuel (Z.of_nat (S n)) (encode a) (encode b) = encode (rmerge (live a) b).
Proof.
  induction fuel as [|f IH]; intros a b Ha Hb Hl; [lia|].
  cbn [merge_loop]. rewrite (skip_sent_encode n) by (try assumption; apply encode_length_ge).
  rewrite <- (live_drop_sent a).
  pose proof (drop_sent_length a) as Hdl. pose proof (wfpay_drop_sent n a Ha) as Hwd.
  destruct (drop_sent a) as [|r a1] eqn:Ed.
  - (* input exhausted *)
    destruct b as [|rb b1].
    + reflexivity.
    + inversion Hb as [|? ? Hrb Hb1]; subst.
      change (hdr (encode [])) with (@None (Z * Z)). rewrite hdr_encode. cbv iota beta.
      rewrite encode_cons at 1 2.
      rewrite firstn_app_exact by (symmetry; apply enc_rcd_length; assumption).
      rewrite skipn_app_exact by (symmetry; apply enc_rcd_length; assumption).
      change (live []) with (@nil rcd). rewrite rmerge_nil_l. rewrite encode_cons. f_equal.
      specialize (IH [] b1 ltac:(constructor) Hb1). change (live []) with (@nil rcd) in IH. rewrite rmerge_nil_l in IH.
      apply IH. rewrite encode_cons, app_length in Hl. unfold enc_rcd in Hl. simpl in *. lia.
  - pose proof (drop_sent_head _ _ _ Ed) as Hne.
    inversion Hwd as [|? ? Hr Ha1]; subst.
    assert (Hlive : live (r :: a1) = r :: live a1) by (unfold live; cbn [filter]; rewrite Hne; reflexivity).
    rewrite Hlive. rewrite hdr_encode.
    assert (Hlen1 : (length (encode a1) < length (encode (r :: a1)))%nat)
      by (rewrite (encode_cons r a1), app_length; unfold enc_rcd; simpl; lia).
    destruct b as [|rb b1].
    + change (hdr (encode [])) with (@None (Z * Z)). cbv iota beta.
      rewrite (encode_cons r a1) at 1 2.
      rewrite firstn_app_exact by (symmetry; apply enc_rcd_length; assumption).
      rewrite skipn_app_exact by (symmetry; apply enc_rcd_length; assumption).
      rewrite rmerge_nil_r, encode_cons. f_equal.
      specialize (IH a1 [] Ha1 ltac:(constructor)). rewrite rmerge_nil_r in IH. apply IH. simpl in *. lia.
    + inversion Hb as [|? ? Hrb Hb1]; subst. rewrite hdr_encode. cbv iota beta.
      assert (Hlen2 : (length (encode b1) < length (encode (rb :: b1)))%nat)
        by (rewrite (encode_cons rb b1), app_length; unfold enc_rcd; simpl; lia).
      rewrite rmerge_cons. destruct (fst r <? fst rb) eqn:E1; [|destruct (fst rb <? fst r) eqn:E2].
      * rewrite (encode_cons r a1) at 1 2.
        rewrite firstn_app_exact by (symmetry; apply enc_rcd_length; assumption).
        rewrite skipn_app_exact by (symmetry; apply enc_rcd_length; assumption).
        rewrite (encode_cons r). f_equal. apply IH; try assumption. lia.
      * rewrite (encode_cons rb b1) at 1 2.
        rewrite firstn_app_exact by (symmetry; apply enc_rcd_length; assumption).
        rewrite skipn_app_exact by (symmetry; apply enc_rcd_length; assumption).
        rewrite (encode_cons rb). f_equal.
        specialize (IH (r :: a1) b1 Hwd Hb1). rewrite Hlive in IH. apply IH. lia.
      * rewrite !skipn2_encode.
        rewrite (encode_cons r a1) at 1. rewrite (encode_cons rb b1) at 1.
        rewrite !skipn_app_exact by (symmetry; apply enc_rcd_length; assumption).
        rewrite (encode_cons (fst r, imerge (snd r) (snd rb))). unfold enc_rcd at 1. cbn [fst snd].
        rewrite imerge_length, Nat2Z.inj_add.
        rewrite <- Nat2Z.inj_add, !Nat2Z.id.
        rewrite (merge_froms_encode n) by (try assumption; lia).
        cbn [app]. f_equal. f_equal. f_equal.
        apply IH; try assumption. lia.
Qed.

(* CORRESPONDENCE of the int-level model with the abstract merge *)
Theorem notify_merge_encode n a b : wfpay n a -> wfpay n b ->
  notify_merge (Z.of_nat n) (encode a) (encode b) = encode (rmerge (live a) b).
Proof.
  intros Ha Hb. unfold notify_merge. replace (1 + Z.of_nat n) with (Z.of_nat (S n)) by lia.
  apply merge_loop_encode; try assumption. lia.
Qed.

Lemma rmerge_wfpay n : forall a b, wfpay n a -> wfpay n b -> wfpay n (rmerge a b).
Proof.
  induction a as [|ra a IHa]; intros b Ha Hb; [rewrite rmerge_nil_l; assumption|].
  induction b as [|rb b IHb]; [rewrite rmerge_nil_r; assumption|].
  inversion Ha as [|? ? Hra Ha']; subst. inversion Hb as [|? ? Hrb Hb']; subst.
  rewrite rmerge_cons. destruct (fst ra <? fst rb); [|destruct (fst rb <? fst ra)].
  - constructor; [assumption|]. apply IHa; assumption.
  - constructor; [assumption|]. apply IHb; assumption.
  - constructor; [cbn [snd]; apply imerge_wfitems; assumption|]. apply IHa; assumption.
Qed.
