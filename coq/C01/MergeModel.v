(* C01/C02 - the record format of the notify recursions and sc_notify_merge (sc_notify.c, "Format of
   variable-length records" and sc_notify_merge), as executable definitions at int level.

   An array of records is a list of ints
        torank, numfroms, (fromrank, npay payload ints) * numfroms,   torank, numfroms, ...
   ascending by torank.  `multi = 1 + npay` ints per sender.  In the FIRST argument of the merge (`input`)
   records whose torank is -1 are skipped: the binary recursion marks what it has sent away in this manner.

   notify_merge follows the control structure of the C function:
     for (;;) { skip marked records of input; look at the two heads;
                smaller torank: copy that whole record (memcpy of 2 + multi * numfroms ints);
                equal torank:   header (torank, n1 + n2), then the two-pointer loop over the senders
                                taking from input iff  j < n1 && (jr >= n2 || from1 < from2)  }          *)
From Coq Require Import ZArith List Bool.
From ScV Require Import Base.CInt.
Import ListNotations.
Local Open Scope Z_scope.

(* ---- abstract view ---------------------------------------------------------------------------------- *)
Definition item := (Z * list Z)%type.            (* fromrank, payload ints *)
Definition rcd := (Z * list item)%type.          (* torank, senders *)

Definition enc_item (it : item) : list Z := fst it :: snd it.
Definition enc_rcd (r : rcd) : list Z := fst r :: Z.of_nat (length (snd r)) :: flat_map enc_item (snd r).
Definition encode (rs : list rcd) : list Z := flat_map enc_rcd rs.

(* merge of two sender lists: on equal ranks (excluded by the callers) the SECOND operand goes first *)
Fixpoint imerge (a : list item) : list item -> list item :=
  fix go (b : list item) : list item :=
    match a, b with
    | [], _ => b
    | _, [] => a
    | x :: a', y :: b' => if fst x <? fst y then x :: imerge a' b else y :: go b'
    end.

Fixpoint rmerge (a : list rcd) : list rcd -> list rcd :=
  fix go (b : list rcd) : list rcd :=
    match a, b with
    | [], _ => b
    | _, [] => a
    | ra :: a', rb :: b' =>
      if fst ra <? fst rb then ra :: rmerge a' b
      else if fst rb <? fst ra then rb :: go b'
      else (fst ra, imerge (snd ra) (snd rb)) :: rmerge a' b'
    end.

(* records of `input` that were not marked as sent *)
Definition live (a : list rcd) : list rcd := filter (fun r => negb (fst r =? -1)) a.

(* ---- int level, following the C code ---------------------------------------------------------------- *)
Definition reclen (multi cnt : Z) : nat := Z.to_nat (2 + multi * cnt).
Definition hdr (l : list Z) : option (Z * Z) := match l with t :: c :: _ => Some (t, c) | _ => None end.

(* while (i < count && input[i] == -1) i += 2 + multi * input[i + 1]; *)
Fixpoint skip_sent (fuel : nat) (multi : Z) (inp : list Z) : list Z :=
  match fuel with
  | O => inp
  | S f =>
    match hdr inp with
    | Some (t, c) => if t =? -1 then skip_sent f multi (skipn (reclen multi c) inp) else inp
    | None => inp
    end
  end.

(* while (j < n1 || jr < n2): a, b are the remaining sender entries, na, nb how many of them remain *)
Fixpoint merge_froms (fuel : nat) (m : nat) (a : list Z) (na : Z) (b : list Z) (nb : Z) : list Z :=
  match fuel with
  | O => []
  | S f =>
    if (0 <? na) || (0 <? nb) then
      if (0 <? na) && ((nb <=? 0) || (hd 0 a <? hd 0 b))
      then firstn m a ++ merge_froms f m (skipn m a) (na - 1) b nb
      else firstn m b ++ merge_froms f m a na (skipn m b) (nb - 1)
    else []
  end.

Fixpoint merge_loop (fuel : nat) (multi : Z) (inp sec : list Z) : list Z :=
  match fuel with
  | O => []
  | S f =>
    let inp := skip_sent (length inp) multi inp in
    match hdr inp, hdr sec with
    | None, None => []
    | Some (ti, ci), None =>
      firstn (reclen multi ci) inp ++ merge_loop f multi (skipn (reclen multi ci) inp) sec
    | None, Some (ts, cs) =>
      firstn (reclen multi cs) sec ++ merge_loop f multi inp (skipn (reclen multi cs) sec)
    | Some (ti, ci), Some (ts, cs) =>
      if ti <? ts then firstn (reclen multi ci) inp ++ merge_loop f multi (skipn (reclen multi ci) inp) sec
      else if ts <? ti then firstn (reclen multi cs) sec ++ merge_loop f multi inp (skipn (reclen multi cs) sec)
      else ti :: (ci + cs) ::
           merge_froms (Z.to_nat (ci + cs)) (Z.to_nat multi) (skipn 2 inp) ci (skipn 2 sec) cs
           ++ merge_loop f multi (skipn (reclen multi ci) inp) (skipn (reclen multi cs) sec)
    end
  end.

(* sc_notify_merge (output, input, second, npay): the ints pushed to output *)
Definition notify_merge (npay : Z) (inp sec : list Z) : list Z :=
  merge_loop (S (length inp + length sec)) (1 + npay) inp sec.

(* ---- decoding (used by the drivers and in statements) ------------------------------------------------ *)
Fixpoint chunk_items (n : nat) (m : nat) (l : list Z) : list item :=
  match n with
  | O => []
  | S k => (hd 0 l, firstn (m - 1) (tl l)) :: chunk_items k m (skipn m l)
  end.

Fixpoint decode (fuel : nat) (multi : Z) (l : list Z) : list rcd :=
  match fuel with
  | O => []
  | S f =>
    match hdr l with
    | Some (t, c) => (t, chunk_items (Z.to_nat c) (Z.to_nat multi) (skipn 2 l)) :: decode f multi (skipn (reclen multi c) l)
    | None => []
    end
  end.

(* all (torank, fromrank, payload) notifications contained in a record list *)
Definition pairs (rs : list rcd) : list (Z * item) := flat_map (fun r => map (fun it => (fst r, it)) (snd r)) rs.
(* the senders recorded for one destination *)
Definition lookup (t : Z) (rs : list rcd) : list item := flat_map (fun r => if fst r =? t then snd r else []) rs.
