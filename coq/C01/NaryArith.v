(* C01 - arithmetic of the n-ary notify recursion.  All functions named nary_* are GENERATED slices of
   sc_notify_recursive_nary (Gen/NotifyC01.v).  Setting of one level: the ranks 0 .. G-1 are cut into groups of
   `W = D * L` consecutive ranks (the last group may be short), each group into D parts of L ranks. *)
From Coq Require Import ZArith Lia List Bool ZifyBool.
From ScV Require Import Base.CInt Gen.NotifyC01.
Local Open Scope Z_scope.
Ltac Zify.zify_post_hook ::= Z.div_mod_to_equations.

Definition BIG : Z := 2 ^ 29.

(* ---- the generated slices without their 32-bit wrappers, valid while all quantities stay below 2^29 ---- *)
Lemma quot_nonneg a b : 0 <= a -> 0 < b -> cdiv a b = a / b.
Proof. intros. unfold cdiv. apply Z.quot_div_nonneg; lia. Qed.
Lemma rem_nonneg a b : 0 <= a -> 0 < b -> cmod a b = a mod b.
Proof. intros. unfold cmod. apply Z.rem_mod_nonneg; lia. Qed.

Ltac s32s := repeat rewrite s32_id by (unfold in_s32, M32, BIG in *; simpl in *; nia).

Lemma peer_spec me j a L G W :
  0 <= me < G -> G <= BIG -> 0 < W <= BIG -> 0 < L -> - W < (j - a) * L < W ->
  nary_peer me j a L G W = (if G <=? me + (j - a) * L then me + (j - a) * L - W else me + (j - a) * L).
Proof.
  intros Hme HG HW HL Hj. unfold nary_peer. cbv zeta.
  assert (Hb : - BIG < (j - a) * L < BIG) by lia.
  unfold BIG in *. change (2 ^ 29) with 536870912 in *.
  rewrite (s32_id (j - a)).
  2:{ unfold in_s32, M32. simpl. nia. }
  rewrite (s32_id ((j - a) * L)) by (unfold in_s32, M32; simpl; lia).
  rewrite (s32_id (me + (j - a) * L)) by (unfold in_s32, M32; simpl; lia).
  destruct (G <=? me + (j - a) * L) eqn:E.
  - rewrite s32_id by (unfold in_s32, M32; simpl; lia). destruct (_ <? 0); reflexivity.
  - reflexivity.
Qed.

Lemma nrecv_spec a G me L D :
  0 <= me < G -> G <= BIG -> 0 < L -> 0 <= a < D -> D <= BIG ->
  nary_nrecv a G me L D =
  (let h := a + (G - 1 - me) / L in
   if h <? D then h else if h <? D + a then D - 1 + (h - D + 1) else D - 1).
Proof.
  intros Hme HG HL Ha HD. unfold nary_nrecv. cbv zeta.
  unfold BIG in *. change (2 ^ 29) with 536870912 in *.
  rewrite (s32_id (G - 1)) by (unfold in_s32, M32; simpl; lia).
  rewrite (s32_id (G - 1 - me)) by (unfold in_s32, M32; simpl; lia).
  rewrite quot_nonneg by lia.
  assert (Hq : 0 <= (G - 1 - me) / L <= G - 1 - me).
  { split; [apply Z.div_pos; lia|]. apply Z.div_le_upper_bound; nia. }
  rewrite (s32_id ((G - 1 - me) / L)) by (unfold in_s32, M32; simpl; lia).
  rewrite (s32_id (a + (G - 1 - me) / L)) by (unfold in_s32, M32; simpl; lia).
  set (h := a + (G - 1 - me) / L) in *.
  destruct (h <? D) eqn:E1; [reflexivity|].
  rewrite (s32_id (D - 1)) by (unfold in_s32, M32; simpl; lia).
  rewrite (s32_id (D + a)) by (unfold in_s32, M32; simpl; lia).
  destruct (h <? D + a) eqn:E2; [|reflexivity].
  rewrite (s32_id (h - D)) by (unfold in_s32, M32; simpl; lia).
  rewrite (s32_id (h - D + 1)) by (unfold in_s32, M32; simpl; lia).
  rewrite s32_id by (unfold in_s32, M32; simpl; lia). reflexivity.
Qed.

Lemma topart_spec t W L : 0 <= t <= BIG -> 0 < L -> 0 < W <= BIG -> nary_topart t W L = (t mod W) / L.
Proof.
  intros Ht HL HW. unfold nary_topart. cbv zeta. rewrite rem_nonneg by lia.
  pose proof (Z.mod_pos_bound t W ltac:(lia)).
  rewrite quot_nonneg by lia.
  assert (0 <= t mod W / L <= t mod W) by (split; [apply Z.div_pos; lia|apply Z.div_le_upper_bound; nia]).
  unfold BIG in *. change (2 ^ 29) with 536870912 in *.
  rewrite s32_id by (unfold in_s32, M32; simpl; lia). reflexivity.
Qed.

Lemma slot_spec src me a L S W D :
  0 <= src <= BIG -> 0 <= me <= BIG -> 0 < L -> 0 <= a < D -> D <= BIG -> 0 <= S -> 0 < W <= BIG -> S + W <= 2 * BIG ->
  nary_slot src me a L S W D =
  (if src <? me then a - (me - src) / L else if src <? S + W then a + (src - me) / L else D + (src mod W) / L).
Proof.
  intros Hs Hm HL Ha HD HS HW HSW. unfold nary_slot. cbv zeta.
  unfold BIG in *. change (2 ^ 29) with 536870912 in *.
  rewrite (s32_id (S + W)) by (unfold in_s32, M32; simpl; lia).
  destruct (src <? me) eqn:E1.
  - rewrite (s32_id (me - src)) by (unfold in_s32, M32; simpl; lia).
    rewrite quot_nonneg by lia.
    assert (0 <= (me - src) / L <= me - src) by (split; [apply Z.div_pos; lia|apply Z.div_le_upper_bound; nia]).
    rewrite (s32_id ((me - src) / L)) by (unfold in_s32, M32; simpl; lia).
    rewrite s32_id by (unfold in_s32, M32; simpl; lia). reflexivity.
  - destruct (src <? S + W) eqn:E2.
    + rewrite (s32_id (src - me)) by (unfold in_s32, M32; simpl; lia).
      rewrite quot_nonneg by lia.
      assert (0 <= (src - me) / L <= src - me) by (split; [apply Z.div_pos; lia|apply Z.div_le_upper_bound; nia]).
      rewrite (s32_id ((src - me) / L)) by (unfold in_s32, M32; simpl; lia).
      rewrite s32_id by (unfold in_s32, M32; simpl; lia). reflexivity.
    + rewrite rem_nonneg by lia. pose proof (Z.mod_pos_bound src W ltac:(lia)).
      rewrite quot_nonneg by lia.
      assert (0 <= src mod W / L <= src mod W) by (split; [apply Z.div_pos; lia|apply Z.div_le_upper_bound; nia]).
      rewrite (s32_id (src mod W / L)) by (unfold in_s32, M32; simpl; lia).
      rewrite s32_id by (unfold in_s32, M32; simpl; lia). reflexivity.
Qed.

Lemma part_spec W D me S : 0 < D -> 0 < W <= BIG -> W mod D = 0 -> 0 <= S <= me -> me <= BIG ->
  nary_part W D me S = (W / D, (me - S) / (W / D)).
Proof.
  intros HD HW Hdiv HS Hme. unfold nary_part. cbv zeta.
  unfold BIG in *. change (2 ^ 29) with 536870912 in *.
  rewrite quot_nonneg by lia.
  assert (HDW : D <= W). { pose proof (Z.div_mod W D ltac:(lia)) as Hdm. rewrite Hdiv in Hdm. assert (0 < W / D) by nia. nia. }
  assert (HL : 0 < W / D <= W) by (split; [apply Z.div_str_pos; lia|apply Z.div_le_upper_bound; nia]).
  rewrite (s32_id (W / D)) by (unfold in_s32, M32; simpl; lia).
  rewrite (s32_id (me - S)) by (unfold in_s32, M32; simpl; lia).
  rewrite quot_nonneg by lia.
  assert (0 <= (me - S) / (W / D) <= me - S) by (split; [apply Z.div_pos; lia|apply Z.div_le_upper_bound; nia]).
  rewrite s32_id by (unfold in_s32, M32; simpl; lia). reflexivity.
Qed.

(* ---- one level of the recursion, in decomposed coordinates: rank = s * W + a * L + o ------------------- *)
Section Level.
  Variables L D W G : Z.
  Hypothesis HL : 0 < L.
  Hypothesis HD : 2 <= D.
  Hypothesis HW : W = D * L.
  Hypothesis HG : 0 < G.

  Lemma W_pos : 0 < W.  Proof. nia. Qed.

  (* uniqueness of quotient/remainder, in the form needed below *)
  Lemma decomp_unique M s1 r1 s2 r2 : 0 < M -> 0 <= r1 < M -> 0 <= r2 < M -> s1 * M + r1 = s2 * M + r2 -> s1 = s2 /\ r1 = r2.
  Proof.
    intros HM H1 H2 He. assert (s1 = s2); [|subst; lia].
    destruct (Z.lt_trichotomy s1 s2) as [H|[H|H]]; [exfalso; nia|assumption|exfalso; nia].
  Qed.

  Lemma part_bound x y : 0 <= x < D -> 0 <= y < L -> 0 <= x * L + y < W.
  Proof.
    intros Hx Hy. assert (0 <= x * L) by (apply Z.mul_nonneg_nonneg; lia).
    assert (x * L <= (D - 1) * L) by (apply Z.mul_le_mono_nonneg_r; lia). lia.
  Qed.

  (* where rank q sends the buffer of part j (negative: no such peer), spec form of nary_peer *)
  Definition sendp (q aq j : Z) : Z := let p1 := q + (j - aq) * L in if G <=? p1 then p1 - W else p1.
  (* number of messages rank me waits for, spec form of nary_nrecv *)
  Definition nrecvp (me a : Z) : Z :=
    let h := a + (G - 1 - me) / L in if h <? D then h else if h <? D + a then D - 1 + (h - D + 1) else D - 1.
  (* slot of the receive buffer array chosen for a message from src, spec form of nary_slot *)
  Definition slotp (src me a S : Z) : Z :=
    if src <? me then a - (me - src) / L else if src <? S + W then a + (src - me) / L else D + (src mod W) / L.

  Section Me.
    Variables me s a o : Z.
    Hypothesis Hme : me = s * W + a * L + o.
    Hypothesis Hs : 0 <= s.
    Hypothesis Ha : 0 <= a < D.
    Hypothesis Ho : 0 <= o < L.
    Hypothesis HmeG : me < G.

    Let h := a + (G - 1 - me) / L.

    Lemma h_bounds : h * L <= a * L + (G - 1 - me) /\ a * L + (G - 1 - me) < (h + 1) * L /\ a <= h.
    Proof.
      unfold h. pose proof (Z.div_mod (G - 1 - me) L ltac:(lia)). pose proof (Z.mod_pos_bound (G - 1 - me) L HL).
      assert (0 <= (G - 1 - me) / L) by (apply Z.div_pos; lia). nia.
    Qed.

    Lemma nrecvp_le_h : a <= nrecvp me a <= h.
    Proof.
      pose proof h_bounds as [_ [_ Hah]]. unfold nrecvp. fold h. cbv zeta.
      destruct (h <? D) eqn:E1; [lia|]. destruct (h <? D + a) eqn:E2; lia.
    Qed.

    (* every index k in 0 .. nrecv except the own part names an EXISTING rank *)
    Lemma sender_exists k : 0 <= k <= nrecvp me a -> 0 <= me + (k - a) * L < G.
    Proof.
      intros Hk. pose proof nrecvp_le_h. pose proof h_bounds as [H1 [H2 H3]]. split; nia.
    Qed.

    (* senders -> indices *)
    Lemma sender_index q sq aq oq j :
      q = sq * W + aq * L + oq -> 0 <= sq -> 0 <= aq < D -> 0 <= oq < L -> q < G ->
      0 <= j < D -> j <> aq -> sendp q aq j = me ->
      exists k, 0 <= k <= nrecvp me a /\ k <> a /\ q = me + (k - a) * L.
    Proof.
      intros Hq Hsq Haq Hoq HqG Hj Hne Hsend. pose proof W_pos as HWp.
      pose proof h_bounds as [H1 [H2 H3]]. pose proof nrecvp_le_h as Hn.
      unfold sendp in Hsend. cbv zeta in Hsend.
      assert (Hp1 : q + (j - aq) * L = sq * W + (j * L + oq)) by (rewrite Hq; ring).
      rewrite Hp1 in Hsend.
      destruct (G <=? sq * W + (j * L + oq)) eqn:E.
      - (* wrapped to the previous group *)
        assert (Hu : sq - 1 = s /\ j * L + oq = a * L + o).
        { apply (decomp_unique W); [lia|apply part_bound; lia|apply part_bound; lia|]. rewrite Hme in Hsend. lia. }
        destruct Hu as [Hs1 Hr]. destruct (decomp_unique L j oq a o HL Hoq Ho Hr) as [-> ->].
        exists (D + aq). split; [|split; [lia|]].
        + assert (Hge : G <= me + W) by (rewrite Hme; nia).
          assert (HhD : h < D + a). { unfold h. assert ((G - 1 - me) / L < D); [|lia]. apply Z.div_lt_upper_bound; nia. }
          assert (Hhk : D + aq <= h).
          { unfold h. assert (D + aq - a <= (G - 1 - me) / L); [|lia]. apply Z.div_le_lower_bound; [lia|]. rewrite Hme, Hq in *. nia. }
          unfold nrecvp. fold h. cbv zeta.
          destruct (h <? D) eqn:E1; [lia|]. destruct (h <? D + a) eqn:E2; lia.
        + rewrite Hq, Hme. nia.
      - assert (Hu : sq = s /\ j * L + oq = a * L + o).
        { apply (decomp_unique W); [lia|apply part_bound; lia|apply part_bound; lia|]. rewrite Hme in Hsend. lia. }
        destruct Hu as [-> Hr]. destruct (decomp_unique L j oq a o HL Hoq Ho Hr) as [-> ->].
        exists aq. split; [|split; [lia|rewrite Hq, Hme; ring]].
        split; [lia|].
        destruct (Z.lt_ge_cases aq a) as [Hlt|Hge]; [lia|].
        assert (aq <= h).
        { unfold h. assert (aq - a <= (G - 1 - me) / L); [|lia]. apply Z.div_le_lower_bound; [lia|]. rewrite Hme, Hq in *. nia. }
        unfold nrecvp. fold h. cbv zeta.
        destruct (h <? D) eqn:E1; [lia|]. destruct (h <? D + a) eqn:E2; lia.
    Qed.

    (* indices -> senders: the rank named by index k does send to me, through its buffer of part a *)
    Lemma index_sender k q sq aq oq :
      0 <= k <= nrecvp me a -> k <> a -> q = me + (k - a) * L ->
      q = sq * W + aq * L + oq -> 0 <= sq -> 0 <= aq < D -> 0 <= oq < L ->
      a <> aq /\ sendp q aq a = me.
    Proof.
      intros Hk Hne Hq Hqd Hsq Haq Hoq. pose proof W_pos as HWp.
      pose proof h_bounds as [H1 [H2 H3]]. pose proof nrecvp_le_h as Hn.
      destruct (Z.lt_ge_cases k D) as [HkD|HkD].
      - (* same group *)
        assert (Hu : sq = s /\ aq * L + oq = k * L + o).
        { apply (decomp_unique W); [lia|apply part_bound; lia|apply part_bound; lia|]. rewrite Hq, Hme in Hqd. lia. }
        destruct Hu as [-> Hr]. destruct (decomp_unique L aq oq k o HL Hoq Ho Hr) as [-> ->].
        split; [lia|]. unfold sendp. cbv zeta.
        replace (q + (a - k) * L) with me by (rewrite Hq; ring).
        destruct (G <=? me) eqn:E; [lia|reflexivity].
      - (* next group, wrapped *)
        assert (HhD : D <= h /\ h < D + a).
        { unfold nrecvp in Hk. fold h in Hk. cbv zeta in Hk.
          destruct (h <? D) eqn:E1; [lia|]. destruct (h <? D + a) eqn:E2; lia. }
        assert (Hkd : 0 <= k - D < D) by lia.
        assert (Hu : sq = s + 1 /\ aq * L + oq = (k - D) * L + o).
        { apply (decomp_unique W); [lia|apply part_bound; lia|apply part_bound; lia|]. transitivity q; [rewrite Hqd; ring|rewrite Hq, Hme, HW; ring]. }
        destruct Hu as [-> Hr].
        destruct (decomp_unique L aq oq (k - D) o HL Hoq Ho Hr) as [-> ->].
        split; [lia|]. unfold sendp. cbv zeta.
        replace (q + (a - (k - D)) * L) with (me + W) by (rewrite Hq, HW; ring).
        assert (G <= me + W).
        { unfold h in HhD. assert ((G - 1 - me) / L < D) by lia.
          assert (G - 1 - me < D * L); [|lia].
          pose proof (Z.div_mod (G - 1 - me) L ltac:(lia)). pose proof (Z.mod_pos_bound (G - 1 - me) L HL). nia. }
        destruct (G <=? me + W) eqn:E; [ring|lia].
    Qed.

    (* the receive slot computed from the source is exactly the index: distinct sources, distinct slots,
       all inside the array of nrecv + 1 buffers *)
    Lemma slot_index k : 0 <= k <= nrecvp me a -> k <> a -> slotp (me + (k - a) * L) me a (s * W) = k.
    Proof.
      intros Hk Hne. pose proof W_pos as HWp. pose proof h_bounds as [H1 [H2 H3]]. pose proof nrecvp_le_h as Hn.
      unfold slotp. destruct (me + (k - a) * L <? me) eqn:E1.
      - replace (me - (me + (k - a) * L)) with ((a - k) * L) by ring. rewrite Z.div_mul by lia. lia.
      - destruct (me + (k - a) * L <? s * W + W) eqn:E2.
        + replace (me + (k - a) * L - me) with ((k - a) * L) by ring. rewrite Z.div_mul by lia. lia.
        + assert (HkD : D <= k) by (rewrite Hme in E2; nia).
          assert (HhD : h < D + a).
          { unfold nrecvp in Hk. fold h in Hk. cbv zeta in Hk.
            destruct (h <? D) eqn:E3; [lia|]. destruct (h <? D + a) eqn:E4; lia. }
          assert (Hmod : (me + (k - a) * L) mod W = (k - D) * L + o).
          { symmetry. apply Z.mod_unique_pos with (q := s + 1); [nia|]. rewrite Hme, HW. ring. }
          rewrite Hmod. replace ((k - D) * L + o) with (o + (k - D) * L) by ring.
          rewrite Z.div_add by lia. rewrite Z.div_small by lia. lia.
    Qed.

    (* routing of a record for rank t whose offset inside a part equals mine *)
    Lemma routing t : 0 <= t < G -> t mod L = o ->
      let j := (t mod W) / L in
      0 <= j < D /\
      (j = a -> t mod W = me mod W) /\
      (j <> a -> let p := sendp me a j in 0 <= p < G /\ t mod W = p mod W).
    Proof.
      intros Ht Hto j. pose proof W_pos as HWp.
      assert (HWL : W = L * D) by (rewrite HW; ring).
      pose proof (Z.rem_mul_r t L D ltac:(lia) ltac:(lia)) as Hrm. rewrite <- HWL, Hto in Hrm.
      set (x := (t / L) mod D) in *.
      assert (Hx : 0 <= x < D) by (apply Z.mod_pos_bound; lia).
      assert (Hj : j = x).
      { unfold j. rewrite Hrm. replace (o + L * x) with (o + x * L) by ring.
        rewrite Z.div_add by lia. rewrite Z.div_small by lia. lia. }
      assert (Hmem : me mod W = a * L + o).
      { symmetry. apply Z.mod_unique_pos with (q := s); [apply part_bound; lia|]. rewrite Hme. ring. }
      split; [lia|]. split.
      - intros Hja. rewrite Hrm, Hmem. rewrite <- Hja, Hj. ring.
      - intros Hja. unfold sendp. cbv zeta.
        assert (Hp1 : me + (j - a) * L = s * W + (j * L + o)) by (rewrite Hme; ring).
        rewrite Hp1. pose proof (part_bound j o ltac:(lia) Ho) as Hpb.
        destruct (G <=? s * W + (j * L + o)) eqn:E.
        + assert (Hs1 : 1 <= s).
          { destruct (Z.eq_dec s 0) as [Hs0|]; [|lia]. exfalso. rewrite Hs0 in E.
            assert (t mod W <= t) by (apply Z.mod_le; lia). rewrite Hrm in H. rewrite Hj in E. lia. }
          assert (0 <= (s - 1) * W) by (apply Z.mul_nonneg_nonneg; lia).
          replace (s * W + (j * L + o) - W) with ((s - 1) * W + (j * L + o)) by ring.
          split; [split; [lia|]|].
          * assert (s * W <= me) by (rewrite Hme; pose proof (part_bound a o Ha Ho); lia). lia.
          * rewrite Hrm. apply Z.mod_unique_pos with (q := s - 1); [rewrite Hj in Hpb; lia|rewrite Hj; ring].
        + assert (0 <= s * W) by (apply Z.mul_nonneg_nonneg; lia).
          split; [lia|]. rewrite Hrm. apply Z.mod_unique_pos with (q := s); [rewrite Hj in Hpb; lia|rewrite Hj; ring].
    Qed.

    (* at the top level the group covers all ranks: the holder IS the addressee *)
    Lemma top_level t : G <= W -> s = 0 -> 0 <= t < G -> t mod W = me mod W -> t = me.
    Proof.
      intros HGW Hs0 Ht Hmod. rewrite (Z.mod_small t W) in Hmod by lia.
      rewrite (Z.mod_small me W) in Hmod; [exact Hmod|]. rewrite Hme, Hs0. pose proof (part_bound a o Ha Ho). lia.
    Qed.
  End Me.
End Level.

(* ---- the same statements about the GENERATED functions, in ordinary rank coordinates ------------------- *)
Section Generated.
  Variables L D G : Z.
  Hypothesis HL : 0 < L.
  Hypothesis HD : 2 <= D.
  Hypothesis HG : 0 < G <= BIG.
  Hypothesis HWB : D * L <= BIG.
  Let W := D * L.

  Definition gstart (x : Z) : Z := (x / W) * W.           (* first rank of x's group *)
  Definition gpart (x : Z) : Z := (x mod W) / L.          (* part of x inside its group = mypart *)

  Lemma canon x : 0 <= x ->
    x = (x / W) * W + gpart x * L + x mod L /\ 0 <= x / W /\ 0 <= gpart x < D /\ 0 <= x mod L < L.
  Proof.
    intros Hx. assert (HWp : 0 < W) by (unfold W; nia).
    assert (HWL : W = L * D) by (unfold W; ring).
    pose proof (Z.rem_mul_r x L D ltac:(lia) ltac:(lia)) as Hrm. rewrite <- HWL in Hrm.
    assert (Hp : gpart x = (x / L) mod D).
    { unfold gpart. rewrite Hrm. replace (x mod L + L * ((x / L) mod D)) with (x mod L + (x / L) mod D * L) by ring.
      pose proof (Z.mod_pos_bound x L HL). rewrite Z.div_add by lia. rewrite Z.div_small by lia. lia. }
    pose proof (Z.mod_pos_bound (x / L) D ltac:(lia)). pose proof (Z.mod_pos_bound x L HL).
    pose proof (Z.div_mod x W ltac:(lia)) as Hdm.
    split; [|split; [apply Z.div_pos; lia|split; [rewrite Hp; lia|lia]]].
    rewrite Hp. rewrite Hdm at 1. rewrite Hrm. ring.
  Qed.

  Lemma BIG_val : BIG = 536870912.  Proof. reflexivity. Qed.

  Lemma gen_peer q j : 0 <= q < G -> 0 <= j < D ->
    nary_peer q j (gpart q) L G W = sendp L W G q (gpart q) j.
  Proof.
    intros Hq Hj. destruct (canon q ltac:(lia)) as [_ [_ [Hp _]]].
    assert (HWp : 0 < W) by (unfold W; nia).
    assert (Hb : - W < (j - gpart q) * L < W).
    { assert (- D < j - gpart q < D) by lia. unfold W. nia. }
    unfold sendp. apply peer_spec; [lia|lia|fold W in HWB; lia|lia|exact Hb].
  Qed.

  Lemma gen_nrecv me : 0 <= me < G -> nary_nrecv (gpart me) G me L D = nrecvp L D G me (gpart me).
  Proof.
    intros Hme. destruct (canon me ltac:(lia)) as [_ [_ [Hp _]]].
    unfold nrecvp. apply nrecv_spec; try lia. rewrite BIG_val in *. nia.
  Qed.

  (* MATCHING: the ranks that send a message to `me` at this level are exactly the nrecv ranks
     me + (k - mypart) * L for k = 0 .. nrecv, k <> mypart; each of them exists; each sends exactly the buffer
     of part `mypart`; and the receive slot computed from the source is k (distinct, inside the slot array). *)
  Theorem nary_matching me q : 0 <= me < G -> 0 <= q < G ->
    ((exists j, 0 <= j < D /\ j <> gpart q /\ nary_peer q j (gpart q) L G W = me) <->
     (exists k, 0 <= k <= nary_nrecv (gpart me) G me L D /\ k <> gpart me /\ q = me + (k - gpart me) * L)).
  Proof.
    intros Hme Hq.
    destruct (canon me ltac:(lia)) as [Dm [Sm [Am Om]]]. destruct (canon q ltac:(lia)) as [Dq [Sq [Aq Oq]]].
    rewrite gen_nrecv by lia. split.
    - intros [j [Hj [Hne Hs]]]. rewrite gen_peer in Hs by lia.
      eapply (sender_index L D W G) with (s := me / W) (o := me mod L) (sq := q / W) (oq := q mod L) (aq := gpart q) (j := j);
        eauto; try reflexivity; lia.
    - intros [k [Hk [Hne Hqk]]].
      assert (HIS : gpart me <> gpart q /\ sendp L W G q (gpart q) (gpart me) = me).
      { eapply (index_sender L D W G) with (s := me / W) (o := me mod L) (sq := q / W) (oq := q mod L) (k := k);
          eauto; try reflexivity; lia. }
      destruct HIS as [Hn Hs].
      exists (gpart me). split; [lia|]. split; [lia|]. rewrite gen_peer by lia. exact Hs.
  Qed.

  Theorem nary_senders_exist me k : 0 <= me < G -> 0 <= k <= nary_nrecv (gpart me) G me L D ->
    0 <= me + (k - gpart me) * L < G.
  Proof.
    intros Hme Hk. destruct (canon me ltac:(lia)) as [Dm [Sm [Am Om]]]. rewrite gen_nrecv in Hk by lia.
    eapply (sender_exists L D W G) with (s := me / W) (o := me mod L) (a := gpart me); eauto; try reflexivity; lia.
  Qed.

  Theorem nary_slots me k : 0 <= me < G -> 0 <= k <= nary_nrecv (gpart me) G me L D -> k <> gpart me ->
    nary_slot (me + (k - gpart me) * L) me (gpart me) L (gstart me) W D = k.
  Proof.
    intros Hme Hk Hne. destruct (canon me ltac:(lia)) as [Dm [Sm [Am Om]]].
    pose proof (nary_senders_exist me k Hme Hk) as Hex.
    rewrite gen_nrecv in Hk by lia.
    assert (HWp : 0 < W) by (unfold W; nia).
    assert (Hst : 0 <= gstart me <= me).
    { unfold gstart. pose proof (Z.div_mod me W ltac:(lia)). pose proof (Z.mod_pos_bound me W HWp).
      assert (0 <= me / W * W) by (apply Z.mul_nonneg_nonneg; lia). lia. }
    assert (gstart me + W <= 2 * BIG) by (rewrite BIG_val in *; unfold W in *; lia).
    rewrite slot_spec; try (rewrite BIG_val in *; lia).
    unfold gstart. eapply (slot_index L D W G) with (s := me / W) (o := me mod L); eauto; try reflexivity; lia.
  Qed.

  (* ROUTING: a record for rank t held by `me`, whose position inside a part equals mine (the invariant of the
     level below), stays if its part is mine and is otherwise handed to an EXISTING rank; in both cases the new
     holder is congruent to t modulo the group length W (the invariant of this level). *)
  Theorem nary_routing me t : 0 <= me < G -> 0 <= t < G -> t mod L = me mod L ->
    let j := nary_topart t W L in
    0 <= j < D /\
    (j = gpart me -> t mod W = me mod W) /\
    (j <> gpart me -> let p := nary_peer me j (gpart me) L G W in 0 <= p < G /\ t mod W = p mod W).
  Proof.
    intros Hme Ht Hmod j. destruct (canon me ltac:(lia)) as [Dm [Sm [Am Om]]].
    assert (HWp : 0 < W) by (unfold W; nia).
    assert (Hj : j = (t mod W) / L) by (unfold j; apply topart_spec; rewrite ?BIG_val in *; try lia; fold W; lia).
    assert (HR : let j := (t mod W) / L in 0 <= j < D /\ (j = gpart me -> t mod W = me mod W) /\
                 (j <> gpart me -> let p := sendp L W G me (gpart me) j in 0 <= p < G /\ t mod W = p mod W)).
    { eapply (routing L D W G) with (s := me / W) (o := me mod L); eauto; try reflexivity; lia. }
    cbv zeta in HR. destruct HR as [R1 [R2 R3]].
    rewrite <- Hj in *. split; [exact R1|]. split; [exact R2|].
    intros Hne. rewrite gen_peer by lia. apply R3. exact Hne.
  Qed.

  Theorem nary_top me t : G <= W -> 0 <= me < G -> 0 <= t < G -> t mod W = me mod W -> t = me.
  Proof. intros HGW Hme Ht Hm. rewrite !Z.mod_small in Hm by lia. exact Hm. Qed.
End Generated.
