(* C01 - the notify algorithms that START WITH COLLECTIVES under EVERY SCHEDULE of the interleaving semantics with wildcard
   receives and synchronising collectives (MPI/SemColl.v, contract of the collectives = SemColl.coll_reply).

   This file: the glue between the round theorems of C01/NotifyProgProofs.v, PexRound.v (stated with the replies of the
   collectives as a hypothesis `coll`) and the semantics, and the two algorithms that consist of collectives only:
     allgather (MPI_Allgather + MPI_Allgatherv)   allgather_every_schedule
     pex       (one MPI_Alltoall)                 pex_every_schedule
   System: rank r, 0 <= r < P, runs the co-simulated program (allgather_core / pex_core, no payload); every other rank has
   returned; all channels are empty.  Every run performs each collective exactly once (2 resp. 1 steps), no reachable state is
   stuck, and in the final state every rank has the transposed list - the reply it obtains IS the contract's reply computed
   from the contributions all ranks really make.  pcx / rsx: C01/CensusSched.v; ranges: C01/RangesSched.v. *)
From Coq Require Import ZArith Lia List Bool Permutation.
From ScV Require Import Base.CInt MPI.Prog MPI.Sem MPI.SemAny MPI.SemRounds MPI.SemColl Gen.Consts Gen.NotifyC01
     C01.MergeModel C01.MergeProofs C01.NotifyProgs C01.NotifyProgProofs C01.RecordOps C01.NaryRound C01.PexRound C01.NarySched.
Import ListNotations.
Local Open Scope Z_scope.

(* ---- programs fed with replies --------------------------------------------------------------------------------------------- *)
Lemma run_after : forall rs p acts o, run rs p = (acts, Some o) -> after p rs = Ret o.
Proof.
  induction rs as [|x rs IH]; intros p acts o H.
  - destruct p as [o'|a k]; cbn in H; [injection H as _ ->; reflexivity|discriminate].
  - destruct p as [o'|a k]; cbn in H; [injection H as _ ->; reflexivity|].
    destruct (run rs (k x)) as [acts' o'] eqn:E. injection H as _ ->. cbn [after]. eapply IH. exact E.
Qed.

Lemma run_cons_do a k x rs acts o : run (x :: rs) (Do a k) = (a :: acts, o) -> run rs (k x) = (acts, o).
Proof. cbn [run]. destruct (run rs (k x)) as [acts' o']. intros H. injection H as -> ->. reflexivity. Qed.

(* the contract in the form the round theorems use it *)
Definition collf : Z -> list payload -> Z -> payload := fun kind cs r => coll_reply kind (-1) cs r.

Lemma collf_allgather cs r : collf K_ALLGATHER cs r = concat cs.
Proof. reflexivity. Qed.
Lemma collf_allgatherv cs r : collf K_ALLGATHERV cs r = concat cs.
Proof. reflexivity. Qed.
Lemma collf_alltoall (b : nat) cs r : (forall c, In c cs -> length c = (b * length cs)%nat) -> 0 <= r < Z.of_nat (length cs) ->
  collf K_ALLTOALL cs r = flat_map (fun c => firstn b (skipn (Z.to_nat r * b) c)) cs.
Proof.
  intros H Hr. unfold collf, coll_reply. cbn [K_ALLTOALL Z.eqb orb].
  rewrite (blk_uniform b cs); [reflexivity| |exact H]. destruct cs; [cbn in Hr; lia|discriminate].
Qed.

(* the final states of a call *)
Definition good_out (P : Z) (out : Z -> payload) (s : gs) : Prop :=
  (forall r, 0 <= r < P -> pr s r = Ret (out r)) /\ (forall a b t, ch s a b t = []).

Definition sys (progs : Z -> prog) : gs := mkgs progs (fun _ _ _ => []).
Definition only (P : Z) (f : Z -> prog) : Z -> prog := fun r => if inr P r then f r else Ret [].

Lemma only_in P f r : 0 <= r < P -> only P f r = f r.
Proof. intros H. unfold only. apply inr_spec in H. rewrite H. reflexivity. Qed.
Lemma only_out P f r : ~ (0 <= r < P) -> only P f r = Ret [].
Proof. intros H. unfold only. destruct (inr P r) eqn:E; [apply inr_spec in E; contradiction|reflexivity]. Qed.

Lemma outside_only P f c : outside_ret P (mkgs (only P f) c).
Proof. intros r Hr. cbn [pr]. rewrite only_out by exact Hr. eauto. Qed.

(* the contributions of a state in which rank r (inside the communicator) is at a collective with contribution g r *)
Lemma contribs_eq P (s : gs) (g : Z -> payload) :
  (forall r, 0 <= r < P -> contrib_of (pr s r) = g r) -> contribs P s = map g (ranks P).
Proof. intros H. unfold contribs. apply map_ext_in. intros r Hr. apply in_cranks in Hr. apply H. exact Hr. Qed.

(* one collective fires: the new program of a rank inside the communicator *)
Lemma advance_in P creply s kind root r kd rt c k : 0 <= r < P -> pr s r = Do (Coll kd rt c) k ->
  advance P creply s kind root r = k (creply kind root (contribs P s) r).
Proof. intros Hr E. unfold advance. apply inP_spec in Hr. rewrite Hr, E. reflexivity. Qed.
Lemma advance_out P creply s kind root r : ~ (0 <= r < P) -> advance P creply s kind root r = pr s r.
Proof. intros Hr. unfold advance. destruct (inP P r) eqn:E; [apply inP_spec in E; contradiction|reflexivity]. Qed.

Lemma outside_advance P creply s kind root c : outside_ret P s -> outside_ret P (mkgs (advance P creply s kind root) c).
Proof. intros H r Hr. cbn [pr]. rewrite advance_out by exact Hr. apply H. exact Hr. Qed.

Lemma final_of P (s : gs) : (forall r, 0 <= r < P -> exists o, pr s r = Ret o) -> outside_ret P s -> final s.
Proof.
  intros Hin Hout r. destruct (Z_le_dec 0 r) as [H0|H0]; [destruct (Z_lt_dec r P) as [H1|H1]|].
  - apply Hin. lia.
  - apply Hout. lia.
  - apply Hout. lia.
Qed.

(* ---- allgather ------------------------------------------------------------------------------------------------------------------ *)
Section AllgatherSched.
  Variable P : Z.
  Variable R : Z -> list Z.
  Hypothesis HP : 0 < P.

  Definition allgather_prog : Z -> prog := only P (fun r => allgather_core r (R r) None (fun s g => Ret (result s g))).
  Definition allgather_sys : gs := sys allgather_prog.

  Let s1 : gs := mkgs (advance P coll_reply allgather_sys K_ALLGATHER (-1)) (ch allgather_sys).
  Let s2 : gs := mkgs (advance P coll_reply s1 K_ALLGATHERV (-1)) (ch s1).

  Lemma allgather_contribs0 : contribs P allgather_sys = map (fun q => [Z.of_nat (length (R q))]) (ranks P).
  Proof. apply contribs_eq. intros r Hr. cbn [allgather_sys sys pr]. unfold allgather_prog. rewrite only_in by exact Hr. reflexivity. Qed.

  Lemma allgather_s1 r : 0 <= r < P ->
    pr s1 r = Do (Coll K_ALLGATHERV (-1) (R r)) (fun allr =>
                wrapper_payload (R r) None (find_senders r (collf K_ALLGATHER (map (fun q => [Z.of_nat (length (R q))]) (ranks P)) r) allr 0)
                                (fun s g => Ret (result s g))).
  Proof.
    intros Hr. unfold s1. cbn [pr]. erewrite advance_in; [|exact Hr|cbn [allgather_sys sys pr]; unfold allgather_prog; rewrite only_in by exact Hr; reflexivity].
    rewrite allgather_contribs0. reflexivity.
  Qed.

  Lemma allgather_contribs1 : contribs P s1 = map R (ranks P).
  Proof. apply contribs_eq. intros r Hr. rewrite (allgather_s1 r Hr). reflexivity. Qed.

  Lemma allgather_s2 r : 0 <= r < P -> pr s2 r = Ret (result (transpose P R r) []).
  Proof.
    intros Hr. unfold s2. cbn [pr]. erewrite advance_in; [|exact Hr|apply allgather_s1; exact Hr]. rewrite allgather_contribs1.
    pose proof (allgather_round collf collf_allgather collf_allgatherv P R r) as H.
    apply run_after in H. unfold allgather_core in H. cbn [after] in H. exact H.
  Qed.

  Theorem allgather_every_schedule :
    every_schedule P coll_reply allgather_sys 2 (good_out P (fun r => result (transpose P R r) [])).
  Proof.
    apply (es_coll P coll_reply allgather_sys K_ALLGATHER (-1)); [exact HP| |apply outside_only|].
    { intros r Hr. cbn [allgather_sys sys pr]. unfold allgather_prog. rewrite only_in by exact Hr. unfold allgather_core. eauto. }
    fold s1. apply (es_coll P coll_reply s1 K_ALLGATHERV (-1)); [exact HP| | |].
    { intros r Hr. rewrite (allgather_s1 r Hr). eauto. }
    { apply outside_advance, outside_only. }
    fold s2. assert (Hout2 : outside_ret P s2).
    { apply outside_advance, outside_advance, outside_only. }
    apply es_final.
    - apply (final_of P); [intros r Hr; rewrite (allgather_s2 r Hr); eauto|exact Hout2].
    - split; [exact allgather_s2|reflexivity].
  Qed.
End AllgatherSched.

(* ---- pex -------------------------------------------------------------------------------------------------------------------------- *)
Section PexSched.
  Variable P : Z.
  Variable R : Z -> list Z.
  Variable sz0 : Z.
  Hypothesis HP : 0 < P.

  Definition pex_prog : Z -> prog := only P (fun r => pex_core P (R r) None sz0 (fun s g => Ret (result s g))).
  Definition pex_sys : gs := sys pex_prog.

  Let s1 : gs := mkgs (advance P coll_reply pex_sys K_ALLTOALL (-1)) (ch pex_sys).

  Lemma pex_contribs0 : contribs P pex_sys = map (fun q => flat_map (pex_slot (R q) None 0) (ranks P)) (ranks P).
  Proof. apply contribs_eq. intros r Hr. cbn [pex_sys sys pr]. unfold pex_prog. rewrite only_in by exact Hr. reflexivity. Qed.

  Lemma pex_s1 r : 0 <= r < P -> pr s1 r = Ret (result (transpose P R r) []).
  Proof.
    intros Hr. unfold s1. cbn [pr].
    erewrite advance_in; [|exact Hr|cbn [pex_sys sys pr]; unfold pex_prog; rewrite only_in by exact Hr; unfold pex_core; reflexivity].
    rewrite pex_contribs0.
    pose proof (pex_round_nopay collf collf_alltoall P R sz0 r HP Hr) as H.
    apply run_after in H. unfold pex_core in H. cbn [after] in H. exact H.
  Qed.

  Theorem pex_every_schedule : every_schedule P coll_reply pex_sys 1 (good_out P (fun r => result (transpose P R r) [])).
  Proof.
    apply (es_coll P coll_reply pex_sys K_ALLTOALL (-1)); [exact HP| |apply outside_only|].
    { intros r Hr. cbn [pex_sys sys pr]. unfold pex_prog. rewrite only_in by exact Hr. unfold pex_core. eauto. }
    fold s1. assert (Hout1 : outside_ret P s1).
    { apply outside_advance, outside_only. }
    apply es_final.
    - apply (final_of P); [intros r Hr; rewrite (pex_s1 r Hr); eauto|exact Hout1].
    - split; [exact pex_s1|reflexivity].
  Qed.
End PexSched.
