(* C01 / C02 - the ranges algorithm (sc_notify_payload_ranges = sc_ranges_adaptive + sc_ranges_decode + point-to-point) under EVERY
   SCHEDULE of the interleaving semantics with synchronising collectives (MPI/SemColl.v; contract of MPI_Allreduce (MAX) and of
   MPI_Allgather = SemColl.coll_reply 10 / 1): the two collective contracts that C01/RangesRound.ranges_round carries as
   hypotheses are DISCHARGED, and the replies of its named receives are derived from what the other ranks' programs send.

   System ranges_sys P R hp pay sz nr: rank r, 0 <= r < P, runs the co-simulated program
       ranges_core P r nr (R r) (rep R pay hp r) sz (fun s g => Ret (result s g));
   every other rank has returned; all channels are empty.  Theorem ranges_every_schedule: in EVERY run (i) a reachable state is
   final or can step; (ii) a run has at most ranges_steps = 2 + (sends + receives of all ranks) steps and is final exactly after
   that many; (iii) in every final state every rank r has returned result (transpose P R r) (items) and every channel is empty -
   although the ranges over-approximate the receivers (a rank that is only inside a range gets a flag-0 message, which is
   received and dropped: no message is left over).

   Proof: SemColl.es_coll twice, then SemRoundsOrd.es_rounds with ONE level of tag SC_TAG_NOTIFY_RANGES whose receives all name
   their source in the fixed order of the decoded senders (`fixedord`); sends = decoded receivers, sources = decoded senders of
   C15's table gtbl; matching = C15's decode symmetry (RangesDecode.decode_symmetric); round property = ranges_round. *)
From Coq Require Import ZArith Lia List Bool Permutation Sorting.Sorted.
From ScV Require Import Base.CInt MPI.Prog MPI.Sem MPI.SemAny MPI.SemRounds MPI.SemColl MPI.SemRoundsOrd Gen.Consts Gen.NotifyC01
     C01.MergeModel C01.MergeProofs C01.NotifyProgs C01.NotifyProgProofs C01.RecordOps C01.NaryRound C01.PexRound C01.RangesRound
     C01.NarySched C01.CollSched.
From ScV Require C15.RangesModel C15.RangesDecode C15.RangesProps C15.RangesAdaptive.
Import ListNotations.
Local Open Scope Z_scope.

(* ---- programs fed with replies ---------------------------------------------------------------------------------------------------- *)
Lemma run_head x rs p a acts o : run (x :: rs) p = (a :: acts, o) -> exists k, p = Do a k /\ run rs (k x) = (acts, o).
Proof.
  destruct p as [o'|a' k]; cbn [run]; [discriminate|]. destruct (run rs (k x)) as [acts' o'] eqn:E. intros H. injection H as -> -> ->. eauto.
Qed.

Lemma sorted_lt_NoDup l : StronglySorted Z.lt l -> NoDup l.
Proof.
  induction 1 as [|x l Hs IH Hf]; constructor; [|exact IH]. intros Hin. rewrite Forall_forall in Hf. specialize (Hf _ Hin). lia.
Qed.

(* the two contracts in the form ranges_round uses them *)
Definition cmax : Z -> list payload -> Z -> payload := fun kind cs r =>
  if kind =? K_ALLREDUCE_MAX
  then [RangesModel.allreduce_max (map (fun c => nth 0 c 0) cs); RangesModel.allreduce_max (map (fun c => nth 1 c 0) cs)]
  else concat cs.

Lemma coll_reply_max root cs r : cs <> [] -> (forall c, In c cs -> length c = 2%nat /\ 0 <= nth 0 c 0 /\ 0 <= nth 1 c 0) ->
  coll_reply K_ALLREDUCE_MAX root cs r = cmax K_ALLREDUCE_MAX cs r.
Proof.
  intros Hne H. unfold coll_reply, cmax. cbn [K_ALLREDUCE_MAX Z.eqb orb Pos.eqb].
  assert (Hl : length (hd [] cs) = 2%nat) by (destruct cs as [|c0 cs]; [contradiction|]; cbn [hd]; apply (H c0); left; reflexivity).
  rewrite Hl. clear Hl Hne. cbn [seq]. cbn [map]. unfold RangesModel.allreduce_max. rewrite <- !maxz_fold; [reflexivity| |].
  - apply Forall_forall. intros x Hx. apply in_map_iff in Hx. destruct Hx as [c [<- Hc]]. apply (H c Hc).
  - apply Forall_forall. intros x Hx. apply in_map_iff in Hx. destruct Hx as [c [<- Hc]]. apply (H c Hc).
Qed.

Lemma compute_fst_nonneg procs rank fp lp nr : 0 <= fst (RangesModel.ranges_compute procs rank fp lp nr).
Proof. unfold RangesModel.ranges_compute. destruct (lp <? fp); cbn [fst]; lia. Qed.

Section RangesSched.
  Variable P : Z.
  Variable R : Z -> list Z.
  Variable hp : bool.
  Variable pay : Z -> Z -> payload.
  Variable sz : Z.
  Variable nr : Z.
  Hypothesis HP : 0 < P.
  Hypothesis Hnr : 1 <= nr.
  Hypothesis HR : forall f, 0 <= f < P -> ssorted (fun x => x) (R f) /\ forall t, In t (R f) -> 0 <= t < P.

  Definition ranges_prog : Z -> prog := only P (fun r => ranges_core P r nr (R r) (rep R pay hp r) sz (fun s g => Ret (result s g))).
  Definition ranges_sys : gs := sys ranges_prog.

  Let tbl := gtbl P R nr.
  Definition rsendsI (r : Z) (l : nat) : list (Z * payload) :=
    if inr P r then map (fun q => (q, rmsg R pay hp sz r q)) (RangesModel.receivers tbl r) else [].
  Definition rsrcsI (r : Z) (l : nat) : list Z := if inr P r then RangesModel.senders tbl r else [].
  Definition rwireI (l : nat) (q r : Z) : payload := rmsg R pay hp sz q r.
  Definition rtagI (l : nat) : Z := c_SC_TAG_NOTIFY_RANGES.
  Definition rnamedI : Z -> nat -> nat -> bool := fun _ _ _ => true.
  Definition rfixedI : Z -> nat -> bool := fun _ _ => true.
  Definition rout (r : Z) (ord : nat -> list Z) : payload :=
    if inr P r then result (transpose P R r) (if hp then map (fun q => pay q r) (transpose P R r) else []) else [].
  Definition ranges_steps : nat := S (S (total_len 1 rsendsI rsrcsI (ranks P))).

  Let s1 : gs := mkgs (advance P coll_reply ranges_sys K_ALLREDUCE_MAX (-1)) (ch ranges_sys).
  Let s2 : gs := mkgs (advance P coll_reply s1 K_ALLGATHER (-1)) (ch s1).

  Lemma tbl_len : length tbl = Z.to_nat P.
  Proof. unfold tbl, gtbl. rewrite RangesAdaptive.tbl_length. apply vecs_length. Qed.
  Lemma tbl_wf : RangesDecode.wf_table tbl.
  Proof. exact (RangesAdaptive.adaptive_table_wf (vecs P R) nr Hnr (vecs_uniform P R)). Qed.

  (* the round theorem, with the pure contract functions *)
  Lemma rround r : 0 <= r < P ->
    run ([cmax K_ALLREDUCE_MAX (map (contrib1 P R nr) (ranks P)) r; cmax K_ALLGATHER (map (contrib2 P R nr) (ranks P)) r]
           ++ repeat [] (length (RangesModel.receivers tbl r)) ++ map (fun q => q :: rmsg R pay hp sz q r) (RangesModel.senders tbl r))
        (ranges_core P r nr (R r) (rep R pay hp r) sz (fun s g => Ret (result s g)))
    = (Coll K_ALLREDUCE_MAX (-1) (contrib1 P R nr r) :: Coll K_ALLGATHER (-1) (contrib2 P R nr r)
         :: map (fun q => Send q c_SC_TAG_NOTIFY_RANGES (rmsg R pay hp sz r q)) (RangesModel.receivers tbl r)
            ++ map (fun q => Recv q c_SC_TAG_NOTIFY_RANGES) (RangesModel.senders tbl r),
       Some (result (transpose P R r) (if hp then map (fun s => pay s r) (transpose P R r) else []))).
  Proof. intros Hr. exact (ranges_round cmax (fun cs r0 => eq_refl) (fun cs r0 => eq_refl) P R pay hp sz nr HP Hnr HR r Hr). Qed.

  (* the state of a rank before / after the first / after the second collective *)
  Lemma ranges_states r : 0 <= r < P -> exists k1 k2,
    pr ranges_sys r = Do (Coll K_ALLREDUCE_MAX (-1) (contrib1 P R nr r)) k1 /\
    k1 (cmax K_ALLREDUCE_MAX (map (contrib1 P R nr) (ranks P)) r) = Do (Coll K_ALLGATHER (-1) (contrib2 P R nr r)) k2 /\
    run (repeat [] (length (RangesModel.receivers tbl r)) ++ map (fun q => q :: rmsg R pay hp sz q r) (RangesModel.senders tbl r))
        (k2 (cmax K_ALLGATHER (map (contrib2 P R nr) (ranks P)) r))
    = (map (fun q => Send q c_SC_TAG_NOTIFY_RANGES (rmsg R pay hp sz r q)) (RangesModel.receivers tbl r)
         ++ map (fun q => Recv q c_SC_TAG_NOTIFY_RANGES) (RangesModel.senders tbl r),
       Some (result (transpose P R r) (if hp then map (fun s => pay s r) (transpose P R r) else []))).
  Proof.
    intros Hr. pose proof (rround r Hr) as H. cbn [app] in H.
    apply run_head in H. destruct H as [k1 [E1 H]]. apply run_head in H. destruct H as [k2 [E2 H]].
    exists k1, k2. split; [|split; [exact E2|exact H]]. cbn [ranges_sys sys pr]. unfold ranges_prog. rewrite only_in by exact Hr. exact E1.
  Qed.

  Lemma ranges_contribs0 : contribs P ranges_sys = map (contrib1 P R nr) (ranks P).
  Proof. apply contribs_eq. intros r Hr. destruct (ranges_states r Hr) as [k1 [k2 [E1 _]]]. rewrite E1. reflexivity. Qed.

  Lemma ranges_reply1 r : coll_reply K_ALLREDUCE_MAX (-1) (map (contrib1 P R nr) (ranks P)) r = cmax K_ALLREDUCE_MAX (map (contrib1 P R nr) (ranks P)) r.
  Proof.
    apply coll_reply_max.
    - intros E. apply (f_equal (@length _)) in E. rewrite map_length, ranks_length in E. cbn in E. lia.
    - intros c Hc. apply in_map_iff in Hc. destruct Hc as [q [<- _]]. unfold contrib1. cbn [length nth]. split; [reflexivity|]. split.
      + unfold RangesModel.peer_count. lia.
      + unfold local. destruct (RangesModel.first_last (procs P R q) q) as [fp lp]. apply compute_fst_nonneg.
  Qed.

  Lemma ranges_s1 r : 0 <= r < P -> exists k2,
    pr s1 r = Do (Coll K_ALLGATHER (-1) (contrib2 P R nr r)) k2 /\
    run (repeat [] (length (RangesModel.receivers tbl r)) ++ map (fun q => q :: rmsg R pay hp sz q r) (RangesModel.senders tbl r))
        (k2 (cmax K_ALLGATHER (map (contrib2 P R nr) (ranks P)) r))
    = (map (fun q => Send q c_SC_TAG_NOTIFY_RANGES (rmsg R pay hp sz r q)) (RangesModel.receivers tbl r)
         ++ map (fun q => Recv q c_SC_TAG_NOTIFY_RANGES) (RangesModel.senders tbl r),
       Some (result (transpose P R r) (if hp then map (fun s => pay s r) (transpose P R r) else []))).
  Proof.
    intros Hr. destruct (ranges_states r Hr) as [k1 [k2 [E1 [E2 H]]]]. exists k2. split; [|exact H].
    unfold s1. cbn [pr]. erewrite advance_in; [|exact Hr|exact E1]. rewrite ranges_contribs0, ranges_reply1. exact E2.
  Qed.

  Lemma ranges_contribs1 : contribs P s1 = map (contrib2 P R nr) (ranks P).
  Proof. apply contribs_eq. intros r Hr. destruct (ranges_s1 r Hr) as [k2 [E _]]. rewrite E. reflexivity. Qed.

  Lemma ranges_s2 r : 0 <= r < P ->
    run (repeat [] (length (RangesModel.receivers tbl r)) ++ map (fun q => q :: rmsg R pay hp sz q r) (RangesModel.senders tbl r)) (pr s2 r)
    = (map (fun q => Send q c_SC_TAG_NOTIFY_RANGES (rmsg R pay hp sz r q)) (RangesModel.receivers tbl r)
         ++ map (fun q => Recv q c_SC_TAG_NOTIFY_RANGES) (RangesModel.senders tbl r),
       Some (result (transpose P R r) (if hp then map (fun s => pay s r) (transpose P R r) else []))).
  Proof.
    intros Hr. destruct (ranges_s1 r Hr) as [k2 [E H]]. unfold s2. cbn [pr]. erewrite advance_in; [|exact Hr|exact E].
    rewrite ranges_contribs1. exact H.
  Qed.

  (* the requirements of SemRoundsOrd *)
  Lemma G_out r l : ~ In r (ranks P) -> rsendsI r l = [] /\ rsrcsI r l = [].
  Proof. intros Hr. unfold rsendsI, rsrcsI. destruct (inr P r) eqn:E; [apply inr_ranks in E; contradiction|auto]. Qed.

  Lemma G_dst r l : NoDup (map fst (rsendsI r l)).
  Proof.
    unfold rsendsI. destruct (inr P r); [|constructor]. rewrite map_map. cbn [fst]. rewrite map_id.
    apply sorted_lt_NoDup. apply (RangesDecode.decode_outputs tbl r tbl_wf).
  Qed.

  Lemma G_src r l : NoDup (rsrcsI r l).
  Proof. unfold rsrcsI. destruct (inr P r); [|constructor]. apply sorted_lt_NoDup. apply (RangesDecode.decode_outputs tbl r tbl_wf). Qed.

  Lemma G_src0 r l q : In q (rsrcsI r l) -> 0 <= q.
  Proof.
    unfold rsrcsI. destruct (inr P r); [|intros []]. intros Hq.
    destruct (RangesDecode.decode_outputs tbl r tbl_wf) as [_ [_ [_ [_ [_ H]]]]]. specialize (H q Hq). lia.
  Qed.

  Lemma G_match1 q l d m : In (d, m) (rsendsI q l) -> In q (rsrcsI d l) /\ m = rwireI l q d.
  Proof.
    unfold rsendsI, rsrcsI, rwireI. destruct (inr P q) eqn:E; [|intros []]. apply inr_spec in E. intros Hin.
    apply in_map_iff in Hin. destruct Hin as [d' [Ed Hd]]. injection Ed as -> <-.
    destruct (RangesDecode.decode_outputs tbl q tbl_wf) as [Hself [_ [_ [_ [Hrange _]]]]].
    pose proof (Hrange d Hd) as Hdr. rewrite tbl_len in Hdr. assert (Hdr' : 0 <= d < P) by lia. apply inr_spec in Hdr'. rewrite Hdr'.
    split; [|reflexivity]. apply (RangesDecode.decode_symmetric tbl q d tbl_wf); [rewrite tbl_len; lia|intros ->; contradiction|exact Hd].
  Qed.

  Lemma G_match2 r l q : In q (rsrcsI r l) -> In (r, rwireI l q r) (rsendsI q l).
  Proof.
    unfold rsendsI, rsrcsI, rwireI. destruct (inr P r) eqn:E; [|intros []]. apply inr_spec in E. intros Hq.
    destruct (RangesDecode.decode_outputs tbl r tbl_wf) as [_ [Hself [_ [_ [_ Hrange]]]]].
    pose proof (Hrange q Hq) as Hqr. rewrite tbl_len in Hqr. assert (Hqr' : 0 <= q < P) by lia. pose proof Hqr' as Hqi. apply inr_spec in Hqi. rewrite Hqi.
    apply in_map_iff. exists r. split; [reflexivity|].
    apply (RangesDecode.decode_symmetric tbl q r tbl_wf); [rewrite tbl_len; lia|intros ->; contradiction|exact Hq].
  Qed.

  Lemma acts_recvs_named r l : forall o i, map (act_of rtagI) (mkrecvs rnamedI r l i o) = map (fun q => Recv q c_SC_TAG_NOTIFY_RANGES) o.
  Proof. induction o as [|q o IH]; intros i; [reflexivity|]. cbn [map mkrecvs act_of]. rewrite IH. reflexivity. Qed.

  Lemma ranges_hround r ord : valid 1 rsrcsI rfixedI r ord ->
    feed (map (reply_of rwireI r) (script 1 rsendsI rnamedI r ord)) (pr s2 r) = (map (act_of rtagI) (script 1 rsendsI rnamedI r ord), Some (rout r ord)).
  Proof.
    intros Hv. destruct (inr P r) eqn:E.
    - apply inr_spec in E. rewrite feed_run.
      pose proof (proj2 (Hv 0%nat ltac:(lia)) eq_refl) as Hord. unfold rsrcsI in Hord. rewrite (proj2 (inr_spec P r) E) in Hord.
      unfold script. cbn [seq flat_map]. rewrite app_nil_r. unfold lvl_items. rewrite !map_app, replies_sends, replies_recvs, acts_sends, acts_recvs_named.
      unfold rsendsI, rout, rwireI, rtagI. rewrite (proj2 (inr_spec P r) E). rewrite !map_map, map_length, Hord. cbn [fst snd].
      exact (ranges_s2 r E).
    - assert (Hnr' : ~ (0 <= r < P)) by (intros H; apply inr_spec in H; congruence).
      assert (Hs : script 1 rsendsI rnamedI r ord = []).
      { apply (script_out 1 rsendsI rsrcsI rnamedI rfixedI (ranks P) G_out r ord); [|exact Hv]. intros Hin. apply inr_ranks in Hin. congruence. }
      rewrite Hs. unfold s2, s1, rout. cbn [pr]. rewrite advance_out by exact Hnr'. cbn [pr]. rewrite advance_out by exact Hnr'. cbn [ranges_sys sys pr]. unfold ranges_prog. rewrite only_out by exact Hnr'.
      rewrite E. reflexivity.
  Qed.

  Theorem ranges_every_schedule :
    every_schedule P coll_reply ranges_sys ranges_steps
      (good_out P (fun r => result (transpose P R r) (if hp then map (fun q => pay q r) (transpose P R r) else []))).
  Proof.
    apply (es_coll P coll_reply ranges_sys K_ALLREDUCE_MAX (-1)); [exact HP| |apply outside_only|].
    { intros r Hr. destruct (ranges_states r Hr) as [k1 [k2 [E1 _]]]. eauto. }
    fold s1. apply (es_coll P coll_reply s1 K_ALLGATHER (-1)); [exact HP| |apply outside_advance, outside_only|].
    { intros r Hr. destruct (ranges_s1 r Hr) as [k2 [E _]]. eauto. }
    fold s2. apply (es_weaken P coll_reply s2 _ (fun s => (forall r, exists ord, valid 1 rsrcsI rfixedI r ord /\ pr s r = Ret (rout r ord)) /\ (forall a b t, ch s a b t = []))).
    - intros s [H1 H2]. split; [|exact H2]. intros r Hr. destruct (H1 r) as [ord [_ Ho]]. unfold rout in Ho. rewrite (proj2 (inr_spec P r) Hr) in Ho. exact Ho.
    - apply (es_rounds P coll_reply 1 rtagI rsendsI rsrcsI rwireI rnamedI rfixedI (pr s2) rout (ranks P) HP (ranks_NoDup P) G_out).
      + intros r p p' H1 H2. lia.
      + intros r l i _ _. reflexivity.
      + intros r l _. apply G_dst.
      + intros r l _. apply G_src.
      + intros r l q _. apply G_src0.
      + intros q l d m _. apply G_match1.
      + intros r l q _. apply G_match2.
      + exact ranges_hround.
  Qed.

  (* closed bound: a rank sends to fewer than P and receives from fewer than P ranks *)
  Lemma ranges_steps_le : (ranges_steps <= 2 + Z.to_nat P * (2 * Z.to_nat P))%nat.
  Proof.
    unfold ranges_steps. apply le_n_S, le_n_S. rewrite <- (ranks_length P) at 1.
    replace (2 * Z.to_nat P)%nat with (list_sum (map (fun _ : nat => (2 * Z.to_nat P)%nat) (seq 0 1))) by (cbn; lia).
    apply total_len_bound. intros r l Hr _. unfold rsendsI, rsrcsI. apply in_ranks in Hr. rewrite (proj2 (inr_spec P r) Hr). rewrite map_length.
    destruct (RangesDecode.decode_outputs tbl r tbl_wf) as [_ [_ [S1 [S2 [H1 H2]]]]]. rewrite tbl_len in H1, H2.
    assert (A : (length (RangesModel.receivers tbl r) <= Z.to_nat P)%nat).
    { rewrite <- (ranks_length P). apply NoDup_incl_length; [apply sorted_lt_NoDup; exact S1|]. intros t Ht. apply in_ranks. specialize (H1 t Ht). lia. }
    assert (B : (length (RangesModel.senders tbl r) <= Z.to_nat P)%nat).
    { rewrite <- (ranks_length P). apply NoDup_incl_length; [apply sorted_lt_NoDup; exact S2|]. intros t Ht. apply in_ranks. specialize (H2 t Ht). lia. }
    lia.
  Qed.
End RangesSched.
