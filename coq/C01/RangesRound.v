(* C01/C02 - the ranges program (sc_notify_payload_ranges = sc_ranges_adaptive + sc_ranges_decode + point-to-point messages),
   NotifyProgs.ranges_core, the program co-simulated with the real code.  Composition with the C15 development
   (C15/Ranges*.v): the table gathered by sc_ranges_adaptive is well formed, decoding is symmetric (every receive has its
   send and vice versa: no hang, no leftover) and the ranges contain every real receiver; ranks that are only inside a
   range (over-approximation) get a message with flag 0 and are dropped.  All receives name their source. *)
From Coq Require Import ZArith Lia List Bool Permutation Sorting.Sorted.
From ScV Require Import Base.CInt MPI.Prog Gen.Consts Gen.NotifyC01 C01.MergeModel C01.MergeProofs C01.MergeCorr
     C01.NotifyProgs C01.NotifyProgProofs C01.RecordOps C01.BinaryRound C01.PexRound.
From ScV Require C15.RangesModel C15.RangesDecode C15.RangesProps C15.RangesAdaptive.
Import ListNotations.
Local Open Scope Z_scope.

Lemma filter_filter {A} (f g : A -> bool) l : filter f (filter g l) = filter (fun x => g x && f x) l.
Proof. induction l as [|x l IH]; [reflexivity|]. cbn [filter]. destruct (g x); cbn [filter andb]; [destruct (f x)|]; rewrite IH; reflexivity. Qed.

Lemma zseq_ranks P : RangesModel.zseq (Z.to_nat P) = ranks P.
Proof. reflexivity. Qed.

Lemma perm_filter_split (A : Z -> bool) me : forall l, NoDup l -> In me l -> A me = true ->
  Permutation (filter A l) (me :: filter (fun q => A q && negb (q =? me)) l).
Proof.
  induction l as [|x l IH]; intros Hnd Hin HA; [destruct Hin|]. inversion Hnd as [|? ? Hx Hnd']; subst. cbn [filter].
  destruct (Z.eqb_spec x me) as [->|Hne].
  - rewrite HA. cbn [andb negb]. apply perm_skip.
    rewrite (filter_ext_in (fun q => A q && negb (q =? me)) A); [apply Permutation_refl|].
    intros q Hq. destruct (Z.eqb_spec q me) as [->|]; [contradiction|]. apply andb_true_r.
  - destruct Hin as [E|Hin]; [congruence|]. cbn [negb]. rewrite andb_true_r. destruct (A x).
    + eapply Permutation_trans; [apply perm_skip, (IH Hnd' Hin HA)|apply perm_swap].
    + apply (IH Hnd' Hin HA).
Qed.

Section Exchange.
  Variable P : Z.
  Variable R : Z -> list Z.
  Variable pay : Z -> Z -> payload.
  Variable hp : bool.
  Variable sz : Z.
  Hypothesis HP : 0 < P.
  Hypothesis HR : forall f, 0 <= f < P -> ssorted (fun x => x) (R f) /\ forall t, In t (R f) -> 0 <= t < P.

  Definition rep (s : Z) : option (list payload) := if hp then Some (map (pay s) (R s)) else None.
  Definition item (q me : Z) : payload := if hp then pay q me else [].
  (* what rank q sends to me *)
  Definition rmsg (q me : Z) : payload := ranges_msg (R q) (rep q) sz me.

  Lemma rmsg_listed q me : In me (R q) -> le_int (firstn 4 (rmsg q me)) = 1 /\ skipn 4 (rmsg q me) = item q me.
  Proof.
    intros Hin. unfold rmsg, ranges_msg. destruct (index_of_in me (R q) Hin) as [j Ej]. rewrite Ej.
    split; [reflexivity|]. cbn [app skipn]. unfold rep, item. destruct hp; [|reflexivity].
    destruct (index_of_some _ _ _ _ Ej) as [_ [Hj Hn]]. rewrite Nat.sub_0_r in Hj, Hn.
    unfold nth_pay. rewrite (nth_indep _ [] (pay q 0)) by (rewrite map_length; exact Hj). rewrite (map_nth (pay q)), Hn. reflexivity.
  Qed.

  Lemma rmsg_unlisted q me : ~ In me (R q) -> le_int (firstn 4 (rmsg q me)) = 0.
  Proof.
    intros Hn. unfold rmsg, ranges_msg. destruct (index_of me (R q) 0) eqn:E; [|reflexivity].
    exfalso. destruct (index_of_some _ _ _ _ E) as [_ [Hj Hx]]. rewrite Nat.sub_0_r in Hj, Hx. apply Hn. rewrite <- Hx. apply nth_In. exact Hj.
  Qed.

  (* the messages received from the decoded senders: those with flag 1, payload behind the flag *)
  Lemma real_senders me : forall snds : list Z,
    map (fun qm : Z * payload => (fst qm, skipn 4 (snd qm)))
        (filter (fun qm : Z * payload => negb (le_int (firstn 4 (snd qm)) =? 0)) (zip snds (map (fun q => rmsg q me) snds)))
    = map (fun q => (q, item q me)) (filter (fun q => memz me (R q)) snds).
  Proof.
    induction snds as [|q snds IH]; [reflexivity|]. cbn [map zip filter fst snd].
    destruct (memz me (R q)) eqn:Em.
    - apply memz_In in Em. destruct (rmsg_listed q me Em) as [Hf Hs]. rewrite Hf. cbn [Z.eqb negb map fst snd]. rewrite Hs, IH. reflexivity.
    - assert (Hn : ~ In me (R q)) by (intros Hin; apply memz_In in Hin; congruence). rewrite (rmsg_unlisted q me Hn). cbn [Z.eqb negb]. exact IH.
  Qed.

  Variable tbl : list (list RangesModel.pair).
  Hypothesis Htl : length tbl = Z.to_nat P.
  Hypothesis Hwf : RangesDecode.wf_table tbl.
  (* the ranges of rank q contain every rank it lists (other than itself) *)
  Hypothesis Hcov : forall q p, 0 <= q < P -> p <> q -> In p (R q) -> In p (RangesModel.receivers tbl q).

  Lemma listed_are_decoded me : 0 <= me < P ->
    filter (fun q => memz me (R q)) (RangesModel.senders tbl me) = filter (fun q => memz me (R q) && negb (q =? me)) (ranks P).
  Proof.
    intros Hme. unfold RangesModel.senders. rewrite Htl, zseq_ranks, filter_filter. apply filter_ext_in. intros q Hq. apply in_ranks in Hq.
    destruct (Z.eqb_spec q me) as [->|Hne]; [cbn [negb andb]; rewrite andb_false_r; reflexivity|]. cbn [negb andb]. rewrite andb_true_r.
    destruct (memz me (R q)) eqn:Em; [|apply andb_false_r]. rewrite andb_true_r. apply memz_In in Em.
    assert (Hs : In q (RangesModel.senders tbl me)).
    { apply (RangesDecode.decode_symmetric tbl q me Hwf); [rewrite Htl; lia|exact Hne|]. apply Hcov; [exact Hq|congruence|exact Em]. }
    unfold RangesModel.senders in Hs. apply filter_In in Hs. destruct Hs as [_ Hs]. apply andb_true_iff in Hs. apply Hs.
  Qed.

  Lemma map_filter_ssorted (g : Z -> payload) (f : Z -> bool) : ssorted fst (map (fun q => (q, g q)) (filter f (ranks P))).
  Proof.
    assert (Hs : ssorted (fun x => x) (filter f (ranks P))) by (apply filter_ssorted, seq_ssorted).
    induction Hs as [|x l Hs' IH Hf]; simpl; constructor; [assumption|].
    rewrite Forall_forall in *. intros y Hy. apply in_map_iff in Hy. destruct Hy as [q [<- Hq]]. cbn [fst]. apply Hf. assumption.
  Qed.

  (* the exchange after the decode: sends to the decoded receivers, named receives from the decoded senders; the result is
     the transposed pattern with the items - ranks that are only inside a range are dropped, the own rank is inserted *)
  Theorem ranges_exchange me rest (k0 := fun s g => Ret (result s g)) : 0 <= me < P ->
    let rcv := RangesModel.receivers tbl me in
    let snds := RangesModel.senders tbl me in
    run (repeat [] (length rcv) ++ map (fun q => q :: rmsg q me) snds ++ rest)
        (phase (map (fun q => (q, c_SC_TAG_NOTIFY_RANGES, ranges_msg (R me) (rep me) sz q)) rcv)
               (map (fun q => (q, c_SC_TAG_NOTIFY_RANGES)) snds)
               (fun got =>
                  let real := filter (fun qm : Z * payload => negb (le_int (firstn 4 (snd qm)) =? 0)) (zip snds got) in
                  let others := map (fun qm : Z * payload => (fst qm, skipn 4 (snd qm))) real in
                  let all := match index_of me (R me) 0 with
                             | Some i => insert_by_src (me, match rep me with Some ps => nth_pay ps i | None => [] end) others
                             | None => others
                             end in
                  k0 (map fst all) (match rep me with Some _ => map snd all | None => [] end)))
    = (map (fun q => Send q c_SC_TAG_NOTIFY_RANGES (rmsg me q)) rcv ++ map (fun q => Recv q c_SC_TAG_NOTIFY_RANGES) snds,
       Some (result (transpose P R me) (if hp then map (fun s => pay s me) (transpose P R me) else []))).
  Proof.
    intros Hme rcv snds. unfold phase.
    set (S := map (fun q => (q, c_SC_TAG_NOTIFY_RANGES, ranges_msg (R me) (rep me) sz q)) rcv).
    assert (HlenS : length S = length rcv) by (unfold S; rewrite map_length; reflexivity).
    rewrite <- HlenS, run_do_sends.
    rewrite (run_do_recvs c_SC_TAG_NOTIFY_RANGES (fun q => rmsg q me)). cbn [rev app].
    rewrite real_senders. unfold snds. rewrite !(listed_are_decoded me Hme). fold snds.
    set (others := map (fun q => (q, item q me)) (filter (fun q => memz me (R q) && negb (q =? me)) (ranks P))).
    assert (Hall : match index_of me (R me) 0 with
                   | Some i => insert_by_src (me, match rep me with Some ps => nth_pay ps i | None => [] end) others
                   | None => others
                   end = map (fun q => (q, item q me)) (transpose P R me)).
    { unfold transpose. destruct (index_of me (R me) 0) as [i|] eqn:Ei.
      - destruct (index_of_some _ _ _ _ Ei) as [_ [Hi Hn]]. rewrite Nat.sub_0_r in Hi, Hn.
        pose proof (nth_In (R me) 0 Hi) as Hin. rewrite Hn in Hin.
        assert (Hown : match rep me with Some ps => nth_pay ps i | None => [] end = item me me).
        { unfold rep, item. destruct hp; [|reflexivity]. unfold nth_pay.
          rewrite (nth_indep _ [] (pay me 0)) by (rewrite map_length; exact Hi). rewrite (map_nth (pay me)), Hn. reflexivity. }
        rewrite Hown. apply (ssorted_perm_eq fst).
        + apply insert_ssorted; [apply map_filter_ssorted|]. intros y Hy. unfold others in Hy. apply in_map_iff in Hy.
          destruct Hy as [q [<- Hq]]. apply filter_In in Hq. destruct Hq as [_ Hq]. cbn [fst]. apply andb_true_iff in Hq. lia.
        + apply map_filter_ssorted.
        + eapply Permutation_trans; [apply insert_perm|].
          change ((me, item me me) :: others) with (map (fun q => (q, item q me)) (me :: filter (fun q => memz me (R q) && negb (q =? me)) (ranks P))).
          apply Permutation_map. apply Permutation_sym. apply (perm_filter_split (fun q => memz me (R q))).
          * eapply (ssorted_NoDup (fun x => x)). apply seq_ssorted.
          * apply in_ranks. exact Hme.
          * apply memz_In. exact Hin.
      - unfold others. f_equal. apply filter_ext_in. intros q Hq. destruct (Z.eqb_spec q me) as [->|]; [|apply andb_true_r].
        cbn [negb]. rewrite andb_false_r. destruct (memz me (R me)) eqn:Em; [|reflexivity]. apply memz_In in Em.
        exfalso. exact (index_of_none _ _ _ Ei Em). }
    rewrite Hall. rewrite !map_map. cbn [fst snd]. rewrite map_id.
    replace (match rep me with Some _ => map (fun x => item x me) (transpose P R me) | None => [] end)
      with (if hp then map (fun s => pay s me) (transpose P R me) else []) by (unfold rep, item; destruct hp; reflexivity).
    destruct (run rest _) eqn:Er.
    unfold k0 in *. cbn [run] in Er. destruct rest; inversion Er; subst; rewrite app_nil_r; unfold S, rmsg; rewrite !map_map; reflexivity.
  Qed.
End Exchange.

(* ---- the table: sc_ranges_adaptive as Allreduce (MAX) + Allgather -------------------------------------------------------------- *)
Lemma unflat_pairs_flat : forall (l : list (Z * Z)) rest, unflat_pairs (length l) (flat_pairs l ++ rest) = l.
Proof. induction l as [|[a b] l IH]; intros rest; [reflexivity|]. cbn [length flat_pairs flat_map app unflat_pairs nth skipn fst snd]. f_equal. apply IH. Qed.

Lemma flat_pairs_length (l : list (Z * Z)) : length (flat_pairs l) = (2 * length l)%nat.
Proof. induction l as [|p l IH]; [reflexivity|]. unfold flat_pairs in *. cbn [flat_map length app]. rewrite IH. lia. Qed.

Lemma unflat_rows_concat (w : nat) : forall (rows : list (list (Z * Z))), Forall (fun r => length r = w) rows ->
  unflat_rows (length rows) w (concat (map flat_pairs rows)) = rows.
Proof.
  induction rows as [|r rows IH]; intros Hw; [reflexivity|]. inversion Hw as [|? ? Hr Hrs]; subst.
  cbn [length map concat unflat_rows].
  rewrite firstn_app_exact by (rewrite flat_pairs_length; reflexivity). rewrite skipn_app_exact by (rewrite flat_pairs_length; reflexivity).
  rewrite <- (app_nil_r (flat_pairs r)). rewrite unflat_pairs_flat. f_equal. apply IH. exact Hrs.
Qed.

Lemma ranks_length P : length (ranks P) = Z.to_nat P.
Proof. unfold ranks. rewrite map_length, seq_length. reflexivity. Qed.

Lemma combine_map_r {A B} (f : A -> B) l : combine l (map f l) = map (fun x => (x, f x)) l.
Proof. induction l; simpl; [reflexivity|f_equal; assumption]. Qed.

Section Ranges.
  Variable coll : Z -> list payload -> Z -> payload.
  (* contracts: MPI_Allreduce (MPI_MAX) over two non-negative ints per rank; MPI_Allgather *)
  Hypothesis coll_max : forall cs r, coll K_ALLREDUCE_MAX cs r =
    [RangesModel.allreduce_max (map (fun c => nth 0 c 0) cs); RangesModel.allreduce_max (map (fun c => nth 1 c 0) cs)].
  Hypothesis coll_allgather : forall cs r, coll K_ALLGATHER cs r = concat cs.

  Variable P : Z.
  Variable R : Z -> list Z.
  Variable pay : Z -> Z -> payload.
  Variable hp : bool.
  Variable sz : Z.
  Variable nr : Z.                                    (* budget of ranges, sc_notify_ranges_set_num_ranges *)
  Hypothesis HP : 0 < P.
  Hypothesis Hnr : 1 <= nr.
  Hypothesis HR : forall f, 0 <= f < P -> ssorted (fun x => x) (R f) /\ forall t, In t (R f) -> 0 <= t < P.

  Definition procs (s : Z) : list Z := ranges_procs P s (R s).
  Definition vecs : list (list Z) := map procs (ranks P).
  Definition local (s : Z) : Z * list RangesModel.pair :=
    let '(fp, lp) := RangesModel.first_last (procs s) s in RangesModel.ranges_compute (procs s) s fp lp nr.
  Definition maxwin : Z := snd (fst (RangesModel.adaptive_all vecs nr)).
  Definition gtbl : list (list RangesModel.pair) := snd (RangesModel.adaptive_all vecs nr).
  Definition contrib1 (s : Z) : payload := [RangesModel.peer_count (procs s) s; fst (local s)].
  Definition contrib2 (s : Z) : payload := flat_pairs (firstn (Z.to_nat maxwin) (snd (local s))).

  Lemma procs_length s : length (procs s) = Z.to_nat P.
  Proof. unfold procs, ranges_procs. rewrite map_length, ranks_length. reflexivity. Qed.
  Lemma vecs_length : length vecs = Z.to_nat P.
  Proof. unfold vecs. rewrite map_length, ranks_length. reflexivity. Qed.
  Lemma vecs_uniform : forall v, In v vecs -> length v = length vecs.
  Proof. intros v Hv. unfold vecs in Hv. apply in_map_iff in Hv. destruct Hv as [s [<- _]]. rewrite procs_length, vecs_length. reflexivity. Qed.
  Lemma vecs_nth s : 0 <= s < P -> nth (Z.to_nat s) vecs [] = procs s.
  Proof.
    intros Hs. unfold vecs. rewrite (nth_indep _ [] (procs 0)) by (rewrite map_length, ranks_length; lia).
    rewrite (map_nth procs). f_equal. unfold ranks. rewrite (nth_indep _ 0 (Z.of_nat 0)) by (rewrite map_length, seq_length; lia).
    rewrite (map_nth Z.of_nat), seq_nth by lia. simpl. lia.
  Qed.

  Lemma locals_eq : fst (fst (fst (RangesModel.adaptive_all vecs nr))) = map local (ranks P).
  Proof.
    unfold RangesModel.adaptive_all. cbn [fst]. rewrite vecs_length, zseq_ranks. unfold vecs. rewrite combine_map_r, map_map. reflexivity.
  Qed.

  Lemma maxwin_eq : maxwin = RangesModel.allreduce_max (map (fun s => fst (local s)) (ranks P)).
  Proof.
    unfold maxwin. pose proof locals_eq as H. unfold RangesModel.adaptive_all in *. cbn [fst snd] in *. rewrite H, map_map. reflexivity.
  Qed.

  Lemma gtbl_eq : gtbl = map (fun s => firstn (Z.to_nat maxwin) (snd (local s))) (ranks P).
  Proof.
    unfold gtbl, maxwin. pose proof locals_eq as H. unfold RangesModel.adaptive_all in *. cbn [fst snd] in *. rewrite H, map_map. reflexivity.
  Qed.

  Lemma local_array s : snd (local s) = RangesProps.ranges_array (procs s) s nr.
  Proof. unfold local, RangesProps.ranges_array, RangesProps.compute_call. destruct (RangesModel.first_last (procs s) s). reflexivity. Qed.

  Lemma gathered_table : unflat_rows (Z.to_nat P) (Z.to_nat maxwin) (concat (map contrib2 (ranks P))) = gtbl.
  Proof.
    rewrite gtbl_eq. unfold contrib2.
    assert (Hrows : Forall (fun r : list (Z * Z) => length r = Z.to_nat maxwin) (map (fun s => firstn (Z.to_nat maxwin) (snd (local s))) (ranks P))).
    2:{ pose proof (unflat_rows_concat (Z.to_nat maxwin) _ Hrows) as H. rewrite map_length, ranks_length, map_map in H. exact H. }
    apply Forall_forall. intros r Hr. apply in_map_iff in Hr. destruct Hr as [s [<- _]].
    rewrite firstn_length, local_array. destruct (RangesProps.compute_shape (procs s) s nr Hnr) as [Hl _]. rewrite Hl.
    pose proof (RangesAdaptive.maxwin_le vecs nr Hnr vecs_uniform). fold maxwin in H.
    assert (0 <= maxwin).
    { rewrite maxwin_eq. unfold RangesModel.allreduce_max. destruct (RangesAdaptive.fold_max_spec (map (fun s0 => fst (local s0)) (ranks P)) 0) as [H0 _]. exact H0. }
    lia.
  Qed.

  Lemma proc_listed q p : 0 <= q < P -> 0 <= p < P -> p <> q -> In p (R q) -> RangesModel.proc (procs q) p <> 0.
  Proof.
    intros Hq Hp Hne Hin. unfold RangesModel.proc, procs, ranges_procs.
    rewrite (nth_indep _ 0 ((fun j => if j =? q then 0 else match index_of j (R q) 0 with Some i => Z.of_nat i + 1 | None => 0 end) 0))
      by (rewrite map_length, ranks_length; lia).
    rewrite (map_nth (fun j => if j =? q then 0 else match index_of j (R q) 0 with Some i => Z.of_nat i + 1 | None => 0 end)).
    assert (Hn : nth (Z.to_nat p) (ranks P) 0 = p).
    { unfold ranks. rewrite (nth_indep _ 0 (Z.of_nat 0)) by (rewrite map_length, seq_length; lia). rewrite (map_nth Z.of_nat), seq_nth by lia. simpl. lia. }
    rewrite Hn. destruct (Z.eqb_spec p q); [contradiction|]. destruct (index_of_in p (R q) Hin) as [i Ei]. rewrite Ei. lia.
  Qed.

  Lemma ranges_cover q p : 0 <= q < P -> p <> q -> In p (R q) -> In p (RangesModel.receivers gtbl q).
  Proof.
    intros Hq Hne Hin. destruct (HR q Hq) as [_ Hrange]. specialize (Hrange p Hin).
    unfold gtbl. apply (RangesAdaptive.adaptive_peers_are_receivers vecs nr Hnr vecs_uniform q p); [rewrite vecs_length; lia|].
    rewrite (vecs_nth q Hq). apply RangesProps.peers_spec. rewrite procs_length. split; [lia|]. split; [apply proc_listed; assumption|exact Hne].
  Qed.

  (* ROUND SEMANTICS of the ranges program.  All receives name their source, so the replies are determined: the two
     collectives by their contracts, the receive from q by the message q's program sends to me (its action list
     contains Send me .. (rmsg q me) iff me is a decoded receiver of q, which by the symmetry of the decode is iff q is
     a decoded sender of me).  The result is the transposed pattern, although the ranges over-approximate the peers. *)
  Theorem ranges_round me : 0 <= me < P ->
    let rcv := RangesModel.receivers gtbl me in
    let snds := RangesModel.senders gtbl me in
    run ([coll K_ALLREDUCE_MAX (map contrib1 (ranks P)) me; coll K_ALLGATHER (map contrib2 (ranks P)) me]
           ++ repeat [] (length rcv) ++ map (fun q => q :: rmsg R pay hp sz q me) snds)
        (ranges_core P me nr (R me) (rep R pay hp me) sz (fun s g => Ret (result s g)))
    = (Coll K_ALLREDUCE_MAX (-1) (contrib1 me) :: Coll K_ALLGATHER (-1) (contrib2 me)
         :: map (fun q => Send q c_SC_TAG_NOTIFY_RANGES (rmsg R pay hp sz me q)) rcv ++ map (fun q => Recv q c_SC_TAG_NOTIFY_RANGES) snds,
       Some (result (transpose P R me) (if hp then map (fun s => pay s me) (transpose P R me) else []))).
  Proof.
    intros Hme rcv snds. unfold ranges_core. fold (procs me).
    assert (Hloc : local me = (let '(fp, lp) := RangesModel.first_last (procs me) me in RangesModel.ranges_compute (procs me) me fp lp nr)) by reflexivity.
    destruct (RangesModel.first_last (procs me) me) as [fp lp]. destruct (RangesModel.ranges_compute (procs me) me fp lp nr) as [nwin rarr] eqn:Erc.
    cbn [app run].
    assert (Hmw : nth 1 (coll K_ALLREDUCE_MAX (map contrib1 (ranks P)) me) 0 = maxwin).
    { rewrite coll_max. cbn [nth]. rewrite maxwin_eq. f_equal. rewrite map_map. reflexivity. }
    rewrite Hmw. rewrite coll_allgather. rewrite gathered_table.
    pose proof (ranges_exchange P R pay hp sz HP HR gtbl) as Hex.
    specialize (Hex ltac:(unfold gtbl; rewrite RangesAdaptive.tbl_length; apply vecs_length)
                    (RangesAdaptive.adaptive_table_wf vecs nr Hnr vecs_uniform) ranges_cover me [] Hme).
    cbv zeta in Hex. rewrite !app_nil_r in Hex. fold rcv snds in Hex.
    match type of Hex with _ = ?rhs =>
      match goal with |- context [run ?rs ?p] => let H := fresh "H" in assert (H : run rs p = rhs) by exact Hex; rewrite H end end.
    unfold contrib1, contrib2. rewrite Hloc. cbn [fst snd]. reflexivity.
  Qed.
End Ranges.

(* matching of the point-to-point part, from the symmetry of sc_ranges_decode on the gathered table (C15) *)
Theorem ranges_matching P (R : Z -> list Z) nr : 0 < P -> 1 <= nr -> forall p q, 0 <= p < P -> p <> q ->
  (In q (RangesModel.receivers (gtbl P R nr) p) <-> In p (RangesModel.senders (gtbl P R nr) q)).
Proof.
  intros HP Hnr p q Hp Hne. apply RangesDecode.decode_symmetric; [exact (RangesAdaptive.adaptive_table_wf _ nr Hnr (vecs_uniform P R))| |exact Hne].
  unfold gtbl. rewrite RangesAdaptive.tbl_length, vecs_length. lia.
Qed.
