(* C01/C02 - the ranges program (sc_notify_payload_ranges = sc_ranges_adaptive + sc_ranges_decode + point-to-point messages),
   NotifyProgs.ranges_core, the program co-simulated with the real code.  Composition with the C15 development
   (C15/Ranges*.v): the table gathered by sc_ranges_adaptive is well formed, decoding is symmetric (every receive has its
   send and vice versa: no hang, no leftover) and the ranges contain every real receiver; ranks that are only inside a
   range (over-approximation) get a message with flag 0 and are dropped.  All receives name their source. *)
From Coq Require Import ZArith Lia List Bool Permutation Sorting.Sorted.
From ScV Require Import Base.CInt MPI.Prog Gen.Consts Gen.NotifyC01 C01.MergeModel C01.MergeProofs
     C01.NotifyProgs C01.NotifyProgProofs C01.BinaryRound C01.PexRound.
From ScV Require C15.RangesModel C15.RangesDecode C15.RangesProps C15.RangesAdaptive.
Import ListNotations.
Local Open Scope Z_scope.

Lemma filter_filter {A} (f g : A -> bool) l : filter f (filter g l) = filter (fun x => g x && f x) l.
Proof. induction l as [|x l IH]; [reflexivity|]. cbn [filter]. destruct (g x); cbn [filter andb]; [destruct (f x)|]; rewrite IH; reflexivity. Qed.

Lemma zseq_ranks P : RangesModel.zseq (Z.to_nat P) = ranks P.
Proof. reflexivity. Qed.

Lemma perm_filter_split (A : Z -> bool) me : forall l, NoDup l -> In me l -> A me = true ->
  Permutation (filter A l) (me :: filter (fun q => A q && negb (q =? me)) l).
Proof.
  induction l as [|x l IH]; intros Hnd Hin HA; [destruct Hin|]. inversion Hnd as [|? ? Hx Hnd']; subst. cbn [filter].
  destruct (Z.eqb_spec x me) as [->|Hne].
  - rewrite HA. cbn [andb negb]. apply perm_skip.
    rewrite (filter_ext_in (fun q => A q && negb (q =? me)) A); [apply Permutation_refl|].
    intros q Hq. destruct (Z.eqb_spec q me) as [->|]; [contradiction|]. apply andb_true_r.
  - destruct Hin as [E|Hin]; [congruence|]. cbn [negb]. rewrite andb_true_r. destruct (A x).
    + eapply Permutation_trans; [apply perm_skip, (IH Hnd' Hin HA)|apply perm_swap].
    + apply (IH Hnd' Hin HA).
Qed.

Section Exchange.
  Variable P : Z.
  Variable R : Z -> list Z.
  Variable pay : Z -> Z -> payload.
  Variable hp : bool.
  Variable sz : Z.
  Hypothesis HP : 0 < P.
  Hypothesis HR : forall f, 0 <= f < P -> ssorted (fun x => x) (R f) /\ forall t, In t (R f) -> 0 <= t < P.

  Definition rep (s : Z) : option (list payload) := if hp then Some (map (pay s) (R s)) else None.
  Definition item (q me : Z) : payload := if hp then pay q me else [].
  (* what rank q sends to me *)
  Definition rmsg (q me : Z) : payload := ranges_msg (R q) (rep q) sz me.

  Lemma rmsg_listed q me : In me (R q) -> le_int (firstn 4 (rmsg q me)) = 1 /\ skipn 4 (rmsg q me) = item q me.
  Proof.
    intros Hin. unfold rmsg, ranges_msg. destruct (index_of_in me (R q) Hin) as [j Ej]. rewrite Ej.
    split; [reflexivity|]. cbn [app skipn]. unfold rep, item. destruct hp; [|reflexivity].
    destruct (index_of_some _ _ _ _ Ej) as [_ [Hj Hn]]. rewrite Nat.sub_0_r in Hj, Hn.
    unfold nth_pay. rewrite (nth_indep _ [] (pay q 0)) by (rewrite map_length; exact Hj). rewrite (map_nth (pay q)), Hn. reflexivity.
  Qed.

  Lemma rmsg_unlisted q me : ~ In me (R q) -> le_int (firstn 4 (rmsg q me)) = 0.
  Proof.
    intros Hn. unfold rmsg, ranges_msg. destruct (index_of me (R q) 0) eqn:E; [|reflexivity].
    exfalso. destruct (index_of_some _ _ _ _ E) as [_ [Hj Hx]]. rewrite Nat.sub_0_r in Hj, Hx. apply Hn. rewrite <- Hx. apply nth_In. exact Hj.
  Qed.

  (* the messages received from the decoded senders: those with flag 1, payload behind the flag *)
  Lemma real_senders me : forall snds : list Z,
    map (fun qm : Z * payload => (fst qm, skipn 4 (snd qm)))
        (filter (fun qm : Z * payload => negb (le_int (firstn 4 (snd qm)) =? 0)) (zip snds (map (fun q => rmsg q me) snds)))
    = map (fun q => (q, item q me)) (filter (fun q => memz me (R q)) snds).
  Proof.
    induction snds as [|q snds IH]; [reflexivity|]. cbn [map zip filter fst snd].
    destruct (memz me (R q)) eqn:Em.
    - apply memz_In in Em. destruct (rmsg_listed q me Em) as [Hf Hs]. rewrite Hf. cbn [Z.eqb negb map fst snd]. rewrite Hs, IH. reflexivity.
    - assert (Hn : ~ In me (R q)) by (intros Hin; apply memz_In in Hin; congruence). rewrite (rmsg_unlisted q me Hn). cbn [Z.eqb negb]. exact IH.
  Qed.

  Variable tbl : list (list (Z * Z)).
  Hypothesis Htl : length tbl = Z.to_nat P.
  Hypothesis Hwf : RangesDecode.wf_table tbl.
  (* the ranges of rank q contain every rank it lists (other than itself) *)
  Hypothesis Hcov : forall q p, 0 <= q < P -> p <> q -> In p (R q) -> In p (RangesModel.receivers tbl q).

  Lemma listed_are_decoded me : 0 <= me < P ->
    filter (fun q => memz me (R q)) (RangesModel.senders tbl me) = filter (fun q => memz me (R q) && negb (q =? me)) (ranks P).
  Proof.
    intros Hme. unfold RangesModel.senders. rewrite Htl, zseq_ranks, filter_filter. apply filter_ext_in. intros q Hq. apply in_ranks in Hq.
    destruct (Z.eqb_spec q me) as [->|Hne]; [cbn [negb andb]; rewrite andb_false_r; reflexivity|]. cbn [negb andb]. rewrite andb_true_r.
    destruct (memz me (R q)) eqn:Em; [|apply andb_false_r]. rewrite andb_true_r. apply memz_In in Em.
    assert (Hs : In q (RangesModel.senders tbl me)).
    { apply (RangesDecode.decode_symmetric tbl q me Hwf); [rewrite Htl; lia|exact Hne|]. apply Hcov; [exact Hq|congruence|exact Em]. }
    unfold RangesModel.senders in Hs. apply filter_In in Hs. destruct Hs as [_ Hs]. apply andb_true_iff in Hs. apply Hs.
  Qed.

  Lemma map_filter_ssorted (g : Z -> payload) (f : Z -> bool) : ssorted fst (map (fun q => (q, g q)) (filter f (ranks P))).
  Proof.
    assert (Hs : ssorted (fun x => x) (filter f (ranks P))) by (apply filter_ssorted, seq_ssorted).
    induction Hs as [|x l Hs' IH Hf]; simpl; constructor; [assumption|].
    rewrite Forall_forall in *. intros y Hy. apply in_map_iff in Hy. destruct Hy as [q [<- Hq]]. cbn [fst]. apply Hf. assumption.
  Qed.

  (* the exchange after the decode: sends to the decoded receivers, named receives from the decoded senders; the result is
     the transposed pattern with the items - ranks that are only inside a range are dropped, the own rank is inserted *)
  Theorem ranges_exchange me rest (k0 := fun s g => Ret (result s g)) : 0 <= me < P ->
    let rcv := RangesModel.receivers tbl me in
    let snds := RangesModel.senders tbl me in
    run (repeat [] (length rcv) ++ map (fun q => q :: rmsg q me) snds ++ rest)
        (phase (map (fun q => (q, c_SC_TAG_NOTIFY_RANGES, ranges_msg (R me) (rep me) sz q)) rcv)
               (map (fun q => (q, c_SC_TAG_NOTIFY_RANGES)) snds)
               (fun got =>
                  let real := filter (fun qm : Z * payload => negb (le_int (firstn 4 (snd qm)) =? 0)) (zip snds got) in
                  let others := map (fun qm : Z * payload => (fst qm, skipn 4 (snd qm))) real in
                  let all := match index_of me (R me) 0 with
                             | Some i => insert_by_src (me, match rep me with Some ps => nth_pay ps i | None => [] end) others
                             | None => others
                             end in
                  k0 (map fst all) (match rep me with Some _ => map snd all | None => [] end)))
    = (map (fun q => Send q c_SC_TAG_NOTIFY_RANGES (rmsg me q)) rcv ++ map (fun q => Recv q c_SC_TAG_NOTIFY_RANGES) snds,
       Some (result (transpose P R me) (if hp then map (fun s => pay s me) (transpose P R me) else []))).
  Proof.
    intros Hme rcv snds. unfold phase.
    set (S := map (fun q => (q, c_SC_TAG_NOTIFY_RANGES, ranges_msg (R me) (rep me) sz q)) rcv).
    assert (HlenS : length S = length rcv) by (unfold S; rewrite map_length; reflexivity).
    rewrite <- HlenS, run_do_sends.
    rewrite (run_do_recvs c_SC_TAG_NOTIFY_RANGES (fun q => rmsg q me)). cbn [rev app].
    rewrite real_senders. fold snds. unfold snds at 1. rewrite (listed_are_decoded me Hme).
    set (others := map (fun q => (q, item q me)) (filter (fun q => memz me (R q) && negb (q =? me)) (ranks P))).
    assert (Hall : match index_of me (R me) 0 with
                   | Some i => insert_by_src (me, match rep me with Some ps => nth_pay ps i | None => [] end) others
                   | None => others
                   end = map (fun q => (q, item q me)) (transpose P R me)).
    { unfold transpose. destruct (index_of me (R me) 0) as [i|] eqn:Ei.
      - destruct (index_of_some _ _ _ _ Ei) as [_ [Hi Hn]]. rewrite Nat.sub_0_r in Hi, Hn.
        assert (Hin : In me (R me)) by (rewrite <- Hn; apply nth_In; exact Hi).
        assert (Hown : match rep me with Some ps => nth_pay ps i | None => [] end = item me me).
        { unfold rep, item. destruct hp; [|reflexivity]. unfold nth_pay.
          rewrite (nth_indep _ [] (pay me 0)) by (rewrite map_length; exact Hi). rewrite (map_nth (pay me)), Hn. reflexivity. }
        rewrite Hown. apply (ssorted_perm_eq fst).
        + apply insert_ssorted; [apply map_filter_ssorted|]. intros y Hy. unfold others in Hy. apply in_map_iff in Hy.
          destruct Hy as [q [<- Hq]]. apply filter_In in Hq. destruct Hq as [_ Hq]. cbn [fst]. apply andb_true_iff in Hq. lia.
        + apply map_filter_ssorted.
        + eapply Permutation_trans; [apply insert_perm|].
          change ((me, item me me) :: others) with (map (fun q => (q, item q me)) (me :: filter (fun q => memz me (R q) && negb (q =? me)) (ranks P))).
          apply Permutation_map. apply Permutation_sym. apply (perm_filter_split (fun q => memz me (R q))).
          * eapply (ssorted_NoDup (fun x => x)). apply seq_ssorted.
          * apply in_ranks. exact Hme.
          * apply memz_In. exact Hin.
      - unfold others. f_equal. apply filter_ext_in. intros q Hq. destruct (Z.eqb_spec q me) as [->|]; [|apply andb_true_r].
        cbn [negb]. rewrite andb_false_r. destruct (memz me (R me)) eqn:Em; [|reflexivity]. apply memz_In in Em.
        exfalso. exact (index_of_none _ _ _ Ei Em). }
    rewrite Hall. rewrite !map_map. cbn [fst snd]. rewrite map_id.
    replace (match rep me with Some _ => map (fun x => item x me) (transpose P R me) | None => [] end)
      with (if hp then map (fun s => pay s me) (transpose P R me) else []) by (unfold rep, item; destruct hp; reflexivity).
    destruct (run rest _) eqn:Er.
    unfold k0 in *. cbn [run] in Er. destruct rest; inversion Er; subst; rewrite app_nil_r; unfold S, rmsg; rewrite !map_map; reflexivity.
  Qed.
End Exchange.
