(* C01/C02 - RECORD-LEVEL ROUND SEMANTICS of the n-ary recursion, stated against the per-rank program
   NotifyProgs.nary_level / nary_run (the program that is co-simulated with the real code).
   Level i (part length L, width D, group length W = D * L): every rank q holds `nspec i q`, the canonical array of
   the notifications whose holder after i levels (NaryDelivery.deliver, built from the generated slices) is q; it
   sends the records of destination part j (nary_topart) to the peer nary_peer q j, keeps its own part, receives
   nary_nrecv wildcard messages in ANY order, files each into the slot nary_slot computes from the source and runs
   the pairwise merge tree over the slots.  Composition of matching + slots + routing + merge algebra: the array
   after the level is `nspec (i+1) me`. *)
From Coq Require Import ZArith Lia List Bool Permutation Sorting.Sorted.
From ScV Require Import Base.CInt MPI.Prog Gen.Consts Gen.NotifyC01 C01.NaryArith C01.NaryDelivery C02.SlotProofs
     C01.MergeModel C01.MergeProofs C01.MergeCorr C01.NotifyProgs C01.NotifyProgProofs C01.RecordOps C01.BinaryRound.
Import ListNotations.
Local Open Scope Z_scope.

(* ---- the merge tree on abstract records --------------------------------------------------------------------------- *)
Fixpoint apairup (l : list (list rcd)) : list (list rcd) :=
  match l with x :: y :: r => rmerge x y :: apairup r | _ => l end.
Fixpoint amerge_tree (fuel : nat) (l : list (list rcd)) : list (list rcd) :=
  match fuel with O => l | S f => match l with _ :: _ :: _ => amerge_tree f (apairup l) | _ => l end end.

Lemma pair_ind {A} (P : list A -> Prop) :
  P [] -> (forall x, P [x]) -> (forall x y r, P r -> P (x :: y :: r)) -> forall l, P l.
Proof.
  intros H0 H1 H2. assert (H : forall l, P l /\ forall x, P (x :: l)).
  { induction l as [|y l [IH1 IH2]]; [split; [exact H0|exact H1]|]. split; [apply IH2|]. intros x. apply H2. exact IH1. }
  intros l. apply H.
Qed.

Definition good (l : list (list rcd)) : Prop := Forall wfr l /\ ForallOrdPairs disj l.
Definition covers (l : list (list rcd)) (p : Z * item) : Prop := exists x, In x l /\ In p (pairs x).

Lemma apairup_good : forall l, good l -> good (apairup l) /\ forall p, covers (apairup l) p <-> covers l p.
Proof.
  apply (pair_ind (fun l => good l -> good (apairup l) /\ forall p, covers (apairup l) p <-> covers l p)).
  - intros H. split; [exact H|reflexivity].
  - intros x H. split; [exact H|reflexivity].
  - intros x y r IH [Hw Hd]. cbn [apairup].
    inversion Hw as [|? ? Wx Hw1]; subst. inversion Hw1 as [|? ? Wy Wr]; subst.
    inversion Hd as [|? ? Dx Hd1]; subst. inversion Hd1 as [|? ? Dy Dr]; subst.
    inversion Dx as [|? ? Dxy Dxr]; subst.
    destruct (IH (conj Wr Dr)) as [[Wr' Dr'] Hc].
    assert (Hcov : forall p, covers (rmerge x y :: apairup r) p <-> covers (x :: y :: r) p).
    { intros p. unfold covers. split.
      - intros [z [[<-|Hz] Hp]].
        + apply rmerge_pairs_In in Hp. destruct Hp; [exists x|exists y]; cbn [In]; auto.
        + destruct (proj1 (Hc p) (ex_intro _ z (conj Hz Hp))) as [w [Hw' Hp']]. exists w. cbn [In]. auto.
      - intros [z [[<-|[<-|Hz]] Hp]].
        + exists (rmerge x y). split; [left; reflexivity|apply rmerge_pairs_In; auto].
        + exists (rmerge x y). split; [left; reflexivity|apply rmerge_pairs_In; auto].
        + destruct (proj2 (Hc p) (ex_intro _ z (conj Hz Hp))) as [w [Hw' Hp']]. exists w. cbn [In]. auto. }
    split; [|exact Hcov]. split.
    + constructor; [apply rmerge_wf; assumption|exact Wr'].
    + constructor; [|exact Dr']. apply Forall_forall. intros z Hz t u v Hu Hv.
      destruct (proj1 (Hc (t, v)) (ex_intro _ z (conj Hz Hv))) as [w [Hw' Hv']].
      rewrite Forall_forall in Dxr, Dy. apply rmerge_pairs_In in Hu. destruct Hu as [Hu|Hu]; [apply (Dxr w Hw' t u v Hu Hv')|apply (Dy w Hw' t u v Hu Hv')].
Qed.

Lemma apairup_length : forall l : list (list rcd), (2 * length (apairup l) <= length l + 1)%nat.
Proof.
  apply (pair_ind (fun l : list (list rcd) => (2 * length (apairup l) <= length l + 1)%nat)); simpl; intros; lia.
Qed.

Lemma amerge_tree_result : forall fuel l, good l -> l <> [] -> Z.of_nat (length l) <= 2 ^ Z.of_nat fuel ->
  exists x, amerge_tree fuel l = [x] /\ wfr x /\ forall p, In p (pairs x) <-> covers l p.
Proof.
  induction fuel as [|f IH]; intros l Hg Hne Hlen.
  - change (2 ^ Z.of_nat 0) with 1 in Hlen. destruct l as [|x [|y r]]; [congruence| |simpl length in Hlen; lia].
    exists x. split; [reflexivity|]. split; [destruct Hg as [Hw _]; inversion Hw; assumption|].
    intros p. unfold covers. split; [intros H; exists x; cbn [In]; auto|intros [z [[<-|[]] H]]; exact H].
  - destruct l as [|x [|y r]]; [congruence| |].
    + exists x. split; [reflexivity|]. split; [destruct Hg as [Hw _]; inversion Hw; assumption|].
      intros p. unfold covers. split; [intros H; exists x; cbn [In]; auto|intros [z [[<-|[]] H]]; exact H].
    + cbn [amerge_tree]. destruct (apairup_good _ Hg) as [Hg' Hc].
      destruct (IH (apairup (x :: y :: r)) Hg') as [z [E [W P]]].
      * cbn [apairup]. discriminate.
      * pose proof (apairup_length (x :: y :: r)). rewrite Nat2Z.inj_succ, Z.pow_succ_r in Hlen by lia. lia.
      * exists z. split; [exact E|]. split; [exact W|]. intros p. rewrite P. apply Hc.
Qed.

(* ---- int level vs abstract ------------------------------------------------------------------------------------------ *)
Definition nomark (rs : list rcd) : Prop := forall r, In r rs -> fst r <> -1.

Lemma rmerge_nomark a b : nomark a -> nomark b -> nomark (rmerge a b).
Proof. intros Ha Hb r Hr. destruct (rmerge_keys _ _ _ Hr) as [r' [[Hi|Hi] E]]; rewrite <- E; [apply Ha|apply Hb]; assumption. Qed.

Lemma notify_merge_plain n a b : wfpay n a -> wfpay n b -> nomark a ->
  notify_merge (Z.of_nat n) (encode a) (encode b) = encode (rmerge a b).
Proof. intros Ha Hb Hn. rewrite notify_merge_encode by assumption. rewrite live_id by exact Hn. reflexivity. Qed.

Lemma pairup_encode n : forall l, Forall (wfpay n) l -> Forall nomark l ->
  pairup (Z.of_nat n) (map encode l) = map encode (apairup l) /\ Forall (wfpay n) (apairup l) /\ Forall nomark (apairup l).
Proof.
  apply (pair_ind (fun l => Forall (wfpay n) l -> Forall nomark l ->
    pairup (Z.of_nat n) (map encode l) = map encode (apairup l) /\ Forall (wfpay n) (apairup l) /\ Forall nomark (apairup l))).
  - intros; repeat split; assumption || reflexivity.
  - intros x Hw Hn. repeat split; assumption || reflexivity.
  - intros x y r IH Hw Hn. inversion Hw as [|? ? Wx Hw1]; subst. inversion Hw1 as [|? ? Wy Wr]; subst.
    inversion Hn as [|? ? Nx Hn1]; subst. inversion Hn1 as [|? ? Ny Nr]; subst.
    destruct (IH Wr Nr) as [E [W' N']]. cbn [map pairup apairup]. rewrite E, notify_merge_plain by assumption.
    split; [reflexivity|]. split; constructor; try assumption; [apply rmerge_wfpay|apply rmerge_nomark]; assumption.
Qed.

Lemma merge_tree_encode n : forall fuel l, Forall (wfpay n) l -> Forall nomark l ->
  merge_tree fuel (Z.of_nat n) (map encode l) = map encode (amerge_tree fuel l).
Proof.
  induction fuel as [|f IH]; intros l Hw Hn; [reflexivity|].
  destruct l as [|x [|y r]]; [reflexivity|reflexivity|].
  destruct (pairup_encode n (x :: y :: r) Hw Hn) as [E [W' N']].
  change (merge_tree (S f) (Z.of_nat n) (map encode (x :: y :: r))) with (merge_tree f (Z.of_nat n) (pairup (Z.of_nat n) (map encode (x :: y :: r)))).
  rewrite E. cbn [amerge_tree]. apply IH; assumption.
Qed.

(* ---- slots ------------------------------------------------------------------------------------------------------------ *)
Lemma set_nth_length {A} : forall (l : list A) j v, length (set_nth l j v) = length l.
Proof. induction l as [|x l IH]; intros [|j] v; simpl; auto. Qed.

Lemma nth_set_nth {A} (d : A) : forall (l : list A) j v k,
  nth k (set_nth l j v) d = if (k =? j)%nat && (j <? length l)%nat then v else nth k l d.
Proof.
  induction l as [|x l IH]; intros j v k.
  - simpl. destruct j; simpl; rewrite andb_false_r; reflexivity.
  - destruct j as [|j]; destruct k as [|k]; simpl; try reflexivity.
    rewrite IH. reflexivity.
Qed.

(* filing the messages into their slots, whatever the order of arrival *)
Lemma fill_slots {A} (d : A) (slotf : Z -> Z) (dataf : Z -> A) : forall (order : list Z) (init : list A),
  NoDup (map slotf order) -> (forall q, In q order -> 0 <= slotf q < Z.of_nat (length init)) ->
  let res := fold_left (fun b (sd : Z * A) => if slotf (fst sd) <? 0 then b else set_nth b (Z.to_nat (slotf (fst sd))) (snd sd))
                       (map (fun q => (q, dataf q)) order) init in
  length res = length init /\
  forall k, nth k res d = match find (fun q => Z.to_nat (slotf q) =? k)%nat order with Some q => dataf q | None => nth k init d end.
Proof.
  induction order as [|q order IH]; intros init Hnd Hr; cbn zeta.
  - split; reflexivity.
  - cbn [map fold_left fst snd]. inversion Hnd as [|? ? Hq Hnd']; subst.
    assert (Hq0 : 0 <= slotf q < Z.of_nat (length init)) by (apply Hr; left; reflexivity).
    replace (slotf q <? 0) with false by lia.
    destruct (IH (set_nth init (Z.to_nat (slotf q)) (dataf q)) Hnd') as [Hl Hn].
    { intros q' Hq'. rewrite set_nth_length. apply Hr. right. assumption. }
    cbv zeta in Hl, Hn. rewrite set_nth_length in Hl. split; [exact Hl|].
    intros k. rewrite Hn. cbn [find]. destruct (Z.to_nat (slotf q) =? k)%nat eqn:E.
    + apply Nat.eqb_eq in E.
      destruct (find (fun q0 => (Z.to_nat (slotf q0) =? k)%nat) order) as [q'|] eqn:Ef.
      * exfalso. apply find_some in Ef. destruct Ef as [Hin Ek]. apply Nat.eqb_eq in Ek. apply Hq.
        apply in_map_iff. exists q'. split; [|assumption]. assert (0 <= slotf q') by (apply Hr; right; assumption). lia.
      * rewrite nth_set_nth. replace (k =? Z.to_nat (slotf q))%nat with true by (symmetry; apply Nat.eqb_eq; lia).
        replace (Z.to_nat (slotf q) <? length init)%nat with true by (symmetry; apply Nat.ltb_lt; lia). reflexivity.
    + destruct (find (fun q0 => (Z.to_nat (slotf q0) =? k)%nat) order); [reflexivity|].
      rewrite nth_set_nth. replace (k =? Z.to_nat (slotf q))%nat with false by (symmetry; apply Nat.eqb_neq; apply Nat.eqb_neq in E; lia).
      reflexivity.
Qed.

(* ---- part_records on encoded arrays ------------------------------------------------------------------------------------ *)
Lemma part_records_encode n W L : forall fuel rs, wfpay n rs -> (length rs <= fuel)%nat ->
  part_records fuel (1 + Z.of_nat n) W L (encode rs) = map (fun r => (nary_topart (fst r) W L, enc_rcd r)) rs.
Proof.
  induction fuel as [|f IH]; intros rs Hw Hl.
  - destruct rs; [reflexivity|simpl in Hl; lia].
  - destruct rs as [|r rs]; [reflexivity|]. inversion Hw as [|? ? Hr Hrs]; subst.
    rewrite encode_cons. unfold enc_rcd at 1. cbn [app part_records].
    change (fst r :: Z.of_nat (length (snd r)) :: flat_map enc_item (snd r) ++ encode rs) with (enc_rcd r ++ encode rs).
    assert (Hlen : length (enc_rcd r) = Z.to_nat (2 + (1 + Z.of_nat n) * Z.of_nat (length (snd r)))).
    { rewrite (enc_rcd_length n r Hr). unfold reclen. f_equal. lia. }
    rewrite firstn_app_exact by (symmetry; exact Hlen). rewrite skipn_app_exact by (symmetry; exact Hlen).
    rewrite IH by (try assumption; simpl in Hl; lia). reflexivity.
Qed.

Lemma part_buf_encode W L j : forall rs,
  part_buf (map (fun r => (nary_topart (fst r) W L, enc_rcd r)) rs) j = encode (rfilter (fun t => nary_topart t W L =? j) rs).
Proof.
  unfold part_buf, rfilter. induction rs as [|r rs IH]; [reflexivity|]. cbn [map flat_map filter fst snd].
  rewrite IH. destruct (nary_topart (fst r) W L =? j); [rewrite encode_cons; reflexivity|reflexivity].
Qed.

(* ---- small list facts ----------------------------------------------------------------------------------------------------- *)
Lemma filter_split_length {A} (f : A -> bool) l : (length (filter f l) + length (filter (fun x => negb (f x)) l) = length l)%nat.
Proof. induction l as [|x l IH]; [reflexivity|]. simpl. destruct (f x); simpl; lia. Qed.

Lemma filter_eq_one a : forall l, NoDup l -> In a l -> length (filter (fun k => k =? a) l) = 1%nat.
Proof.
  induction l as [|x l IH]; intros Hnd Hin; [destruct Hin|]. inversion Hnd as [|? ? Hx Hnd']; subst. cbn [filter].
  destruct (Z.eqb_spec x a) as [->|Hne].
  - cbn [length]. f_equal. rewrite filter_false; [reflexivity|]. intros y Hy. apply Z.eqb_neq. intros ->. contradiction.
  - apply IH; [assumption|]. destruct Hin; [congruence|assumption].
Qed.

Lemma ranks_NoDup P : NoDup (ranks P).
Proof. eapply (ssorted_NoDup (fun x => x)). apply seq_ssorted. Qed.

Lemma ranks_length P : length (ranks P) = Z.to_nat P.
Proof. unfold ranks. rewrite map_length, seq_length. reflexivity. Qed.

Lemma FOP_map_seq {A} (Rel : A -> A -> Prop) (X : nat -> A) : forall n s,
  (forall k k', (s <= k < k')%nat -> (k' < s + n)%nat -> Rel (X k) (X k')) -> ForallOrdPairs Rel (map X (seq s n)).
Proof.
  induction n as [|n IH]; intros s H; [constructor|]. cbn [seq map]. constructor.
  - apply Forall_forall. intros y Hy. apply in_map_iff in Hy. destruct Hy as [k' [<- Hk']]. apply in_seq in Hk'. apply H; lia.
  - apply IH. intros k k' H1 H2. apply H; lia.
Qed.

(* ---- one level, abstractly ------------------------------------------------------------------------------------------------- *)
Section NaryLevel.
  Variables G L D : Z.
  Variable R : Z -> list Z.
  Variable payf : Z -> Z -> list Z.           (* payload ints of the notification of sender f for destination t *)
  Hypothesis HL : 0 < L.
  Hypothesis HD : 2 <= D.
  Hypothesis HG : 0 < G <= BIG.
  Hypothesis HWB : D * L <= BIG.
  Let W := D * L.
  (* who holds the notification (t, f) before the level; invariant of the levels below *)
  Variable hold : Z -> Z -> Z.
  Hypothesis Hinv : forall f t, 0 <= f < G -> 0 <= t < G -> 0 <= hold f t < G /\ t mod L = hold f t mod L.

  Definition hold' (f t : Z) : Z := route L D G (hold f t) t.
  Definition specH (h : Z -> Z -> Z) (q : Z) : list rcd := build G (fun t f => memz t (R f) && (h f t =? q)) payf.
  Definition partj (j : Z) (rs : list rcd) : list rcd := rfilter (fun t => nary_topart t W L =? j) rs.

  Definition npart (me : Z) : Z := gpart L D me.
  Definition nrecvs (me : Z) : Z := nary_nrecv (npart me) G me L D.
  Definition sender (me k : Z) : Z := me + (k - npart me) * L.
  Definition senders (me : Z) : list Z := map (sender me) (filter (fun k => negb (k =? npart me)) (ranks (nrecvs me + 1))).

  Lemma npart_range me : 0 <= me < G -> 0 <= npart me < D.
  Proof. intros Hme. destruct (canon L D HL HD me ltac:(lia)) as [_ [_ [H _]]]. exact H. Qed.

  Lemma nrecvs_ge me : 0 <= me < G -> npart me <= nrecvs me <= 2 * D.
  Proof.
    intros Hme. unfold nrecvs, npart. rewrite (gen_nrecv L D G HL HD HG HWB me Hme).
    destruct (canon L D HL HD me ltac:(lia)) as [Dm [Sm [Am Om]]].
    pose proof (nrecvp_le_h L D G HL HD me (gpart L D me) Am ltac:(lia)) as [H1 _].
    split; [exact H1|]. unfold nrecvp. cbv zeta.
    destruct (gpart L D me + (G - 1 - me) / L <? D) eqn:E1; [lia|]. destruct (gpart L D me + (G - 1 - me) / L <? D + gpart L D me) eqn:E2; lia.
  Qed.

  (* the k-th source sends me its part (npart me): it is a different part of the source, and the generated peer
     function of the source maps it to me *)
  Lemma sender_part me k : 0 <= me < G -> 0 <= k <= nrecvs me -> k <> npart me ->
    0 <= sender me k < G /\ npart (sender me k) <> npart me /\
    nary_peer (sender me k) (npart me) (npart (sender me k)) L G W = me.
  Proof.
    intros Hme Hk Hne. unfold sender, nrecvs, npart in *.
    pose proof (nary_senders_exist L D G HL HD HG HWB me k Hme Hk) as Hex. split; [exact Hex|].
    set (q := me + (k - gpart L D me) * L) in *.
    destruct (canon L D HL HD me ltac:(lia)) as [Dm [Sm [Am Om]]]. destruct (canon L D HL HD q ltac:(lia)) as [Dq [Sq [Aq Oq]]].
    rewrite (gen_nrecv L D G HL HD HG HWB me Hme) in Hk.
    assert (HIS : gpart L D me <> gpart L D q /\ sendp L (D * L) G q (gpart L D q) (gpart L D me) = me).
    { eapply (index_sender L D (D * L) G) with (s := me / (D * L)) (o := me mod L) (sq := q / (D * L)) (oq := q mod L) (k := k);
        eauto; try reflexivity; lia. }
    destruct HIS as [Hn Hs]. split; [congruence|]. unfold W. rewrite (gen_peer L D G HL HD HG HWB q (gpart L D me) Hex Am). exact Hs.
  Qed.

  Lemma senders_In me q : 0 <= me < G ->
    (In q (senders me) <-> exists k, 0 <= k <= nrecvs me /\ k <> npart me /\ q = sender me k).
  Proof.
    intros Hme. unfold senders. rewrite in_map_iff. split.
    - intros [k [<- Hk]]. apply filter_In in Hk. destruct Hk as [Hk Hne]. apply in_ranks in Hk. exists k. split; [lia|]. split; [lia|reflexivity].
    - intros [k [Hk [Hne ->]]]. exists k. split; [reflexivity|]. apply filter_In. split; [apply in_ranks; lia|lia].
  Qed.

  Lemma senders_length me : 0 <= me < G -> length (senders me) = Z.to_nat (nrecvs me).
  Proof.
    intros Hme. pose proof (nrecvs_ge me Hme) as Hge. pose proof (npart_range me Hme) as Ha.
    unfold senders. rewrite map_length.
    pose proof (filter_split_length (fun k => k =? npart me) (ranks (nrecvs me + 1))) as Hs.
    rewrite (filter_eq_one (npart me)) in Hs by (try apply ranks_NoDup; apply in_ranks; lia).
    rewrite ranks_length in Hs. lia.
  Qed.

  Lemma sender_inj me k k' : sender me k = sender me k' -> k = k'.
  Proof. unfold sender. intros H. nia. Qed.

  (* ROUND STEP on records: an array that holds exactly my own part and the parts (npart me) of my sources is the
     canonical array of the next level *)
  Theorem nary_level_union me x : 0 <= me < G -> wfr x ->
    (forall p, In p (pairs x) <-> In p (pairs (partj (npart me) (specH hold me))) \/
                                  exists q, In q (senders me) /\ In p (pairs (partj (npart me) (specH hold q)))) ->
    x = specH hold' me.
  Proof.
    intros Hme Hw Hp. apply wfr_ext; [exact Hw|apply build_wfr|]. intros [t [f pl]]. rewrite Hp. unfold partj, specH.
    rewrite rfilter_pairs, !build_pairs. rewrite !andb_true_iff, !memz_In, !Z.eqb_eq.
    assert (Htop : forall t0, 0 <= t0 < G -> nary_topart t0 W L = (t0 mod W) / L).
    { intros t0 Ht0. apply topart_spec; unfold BIG in *; unfold W; lia. }
    split.
    - intros [[[Ht [Hf [[Hin Hh] Hpl]]] Hj]|[q [Hq Hpq]]].
      + split; [assumption|split; [assumption|split; [|assumption]]]. split; [assumption|].
        unfold hold', route. cbv zeta. fold W. rewrite Hh, Hj. fold (npart me). rewrite Z.eqb_refl. reflexivity.
      + apply rfilter_pairs in Hpq. destruct Hpq as [Hpq Hj]. apply build_pairs in Hpq.
        destruct Hpq as [Ht [Hf [Hs Hpl]]]. rewrite andb_true_iff, memz_In, Z.eqb_eq in Hs. destruct Hs as [Hin Hh]. apply Z.eqb_eq in Hj.
        apply senders_In in Hq; [|assumption]. destruct Hq as [k [Hk [Hne ->]]].
        destruct (sender_part me k Hme Hk Hne) as [Hex [Hnp Hpeer]].
        split; [assumption|split; [assumption|split; [|assumption]]]. split; [assumption|].
        unfold hold', route. cbv zeta. fold W. rewrite Hh, Hj. fold (npart (sender me k)).
        destruct (Z.eqb_spec (npart me) (npart (sender me k))) as [E|E]; [congruence|]. exact Hpeer.
    - intros [Ht [Hf [[Hin Hh] Hpl]]]. destruct (Hinv f t Hf Ht) as [Hq0 Hm].
      unfold hold', route in Hh. cbv zeta in Hh. fold W in Hh. set (q0 := hold f t) in *.
      destruct (nary_routing L D G HL HD HG HWB q0 t Hq0 Ht Hm) as [Hjr [Hstay Hmove]]. fold W in Hjr, Hstay, Hmove.
      destruct (Z.eqb_spec (nary_topart t W L) (gpart L D q0)) as [E|E].
      + left. split; [auto 10|]. rewrite E. unfold npart. f_equal. exact Hh.
      + right. specialize (Hmove E). cbv zeta in Hmove. rewrite Hh in Hmove. destruct Hmove as [_ Hmod].
        assert (Hj : nary_topart t W L = npart me).
        { rewrite Htop by assumption. unfold npart, gpart. fold W. rewrite Hmod. reflexivity. }
        exists q0. split.
        * apply senders_In; [assumption|].
          assert (Hex : exists j, 0 <= j < D /\ j <> gpart L D q0 /\ nary_peer q0 j (gpart L D q0) L G (D * L) = me)
            by (exists (nary_topart t W L); auto).
          apply (proj1 (nary_matching L D G HL HD HG HWB me q0 Hme Hq0)) in Hex. destruct Hex as [k [Hk [Hne Hqk]]].
          exists k. auto.
        * apply rfilter_pairs. split; [|apply (proj2 (Z.eqb_eq _ _)); exact Hj]. apply build_pairs. rewrite andb_true_iff, memz_In, Z.eqb_eq. auto 10.
  Qed.

  (* ---- one level of the PROGRAM ------------------------------------------------------------------------------------------ *)
  Variable n : nat.                                   (* payload ints per sender *)
  Hypothesis Hpay : forall f t, length (payf f t) = n.
  Variables level depth ntop nint nbot : Z.
  Hypothesis Hdivn : nary_divn level depth nbot ntop nint = D.

  Definition ntag : Z := c_SC_TAG_NOTIFY_NARY + level.
  Definition nsends (me : Z) : list (Z * Z * payload) :=
    flat_map (fun j => if j =? npart me then [] else
                       let peer := nary_peer me j (npart me) L G W in
                       if peer <? 0 then [] else [(peer, ntag, encode (partj j (specH hold me)))]) (ranks D).
  (* what source q sends to me: its part (npart me) *)
  Definition nwire (me q : Z) : list Z := encode (partj (npart me) (specH hold q)).
  (* round abstraction: the nrecv wildcard receives return the messages of the sources, each once, in the order `order` *)
  Definition nlvl_replies (me : Z) (order : list Z) : list payload :=
    repeat [] (length (nsends me)) ++ map (fun q => q :: nwire me q) order.
  Definition nlvl_acts (me : Z) : list act :=
    map (fun s => Send (fst (fst s)) (snd (fst s)) (snd s)) (nsends me) ++ repeat (Recv ANY ntag) (Z.to_nat (nrecvs me)).

  Lemma specH_wfpay h q : wfpay n (specH h q).   Proof. apply build_wfpay. intros; apply Hpay. Qed.
  Lemma specH_nomark h q : nomark (specH h q).
  Proof. intros r Hr. pose proof (build_in_rec _ _ _ _ Hr) as [H _]. lia. Qed.
  Lemma partj_nomark j rs : nomark rs -> nomark (partj j rs).
  Proof. intros H r Hr. unfold partj, rfilter in Hr. apply filter_In in Hr. apply H. tauto. Qed.

  Lemma find_none_intro {A} (f : A -> bool) l : (forall x, In x l -> f x = false) -> find f l = None.
  Proof. induction l as [|x l IH]; intros H; [reflexivity|]. cbn [find]. rewrite (H x (or_introl eq_refl)). apply IH. intros; apply H; right; assumption. Qed.

  Definition slotX (me : Z) (k : nat) : list rcd :=
    if Z.of_nat k =? npart me then partj (npart me) (specH hold me) else partj (npart me) (specH hold (sender me (Z.of_nat k))).

  Lemma slots_filled me order : 0 <= me < G -> Permutation order (senders me) ->
    fold_left (fun b (sd : Z * list Z) => set_slot b (nary_slot (fst sd) me (npart me) L (gstart L D me) (D * L) D) (snd sd))
              (map (fun q => (q, nwire me q)) order)
              (set_slot (repeat [] (Z.to_nat (nrecvs me + 1))) (npart me) (encode (partj (npart me) (specH hold me))))
    = map encode (map (slotX me) (seq 0 (Z.to_nat (nrecvs me + 1)))).
  Proof.
    intros Hme Hperm. pose proof (nrecvs_ge me Hme) as Hge. pose proof (npart_range me Hme) as Ha.
    set (slotf := fun q => nary_slot q me (npart me) L (gstart L D me) (D * L) D).
    set (init := set_slot (repeat [] (Z.to_nat (nrecvs me + 1))) (npart me) (encode (partj (npart me) (specH hold me)))).
    assert (Hinit : length init = Z.to_nat (nrecvs me + 1)).
    { unfold init, set_slot. replace (npart me <? 0) with false by lia. rewrite set_nth_length, repeat_length. reflexivity. }
    assert (Hslot : forall k, 0 <= k <= nrecvs me -> k <> npart me -> slotf (sender me k) = k).
    { intros k Hk Hne. unfold slotf, sender, npart. apply (nary_slots L D G HL HD HG HWB me k Hme Hk Hne). }
    assert (Hord : forall q, In q order -> exists k, 0 <= k <= nrecvs me /\ k <> npart me /\ q = sender me k).
    { intros q Hq. apply (senders_In me q Hme). apply (Permutation_in _ Hperm). exact Hq. }
    assert (Hnd : NoDup (map slotf order)).
    { apply (Permutation_NoDup (Permutation_sym (Permutation_map slotf Hperm))). unfold senders. rewrite map_map.
      rewrite (map_ext_in _ (fun k => k)).
      - rewrite map_id. apply NoDup_filter. apply ranks_NoDup.
      - intros k Hk. apply filter_In in Hk. destruct Hk as [Hk Hne]. apply in_ranks in Hk. apply Hslot; lia. }
    assert (Hrange : forall q, In q order -> 0 <= slotf q < Z.of_nat (length init)).
    { intros q Hq. destruct (Hord q Hq) as [k [Hk [Hne ->]]]. rewrite Hslot by assumption. rewrite Hinit. lia. }
    pose proof (fill_slots (@nil Z) slotf (nwire me) order init Hnd Hrange) as Hfill. cbv zeta in Hfill.
    destruct Hfill as [Hlen Hnth].
    change (fold_left (fun b (sd : Z * list Z) => set_slot b (nary_slot (fst sd) me (npart me) L (gstart L D me) (D * L) D) (snd sd))
                      (map (fun q => (q, nwire me q)) order) init)
      with (fold_left (fun b (sd : Z * list Z) => if slotf (fst sd) <? 0 then b else set_nth b (Z.to_nat (slotf (fst sd))) (snd sd))
                      (map (fun q => (q, nwire me q)) order) init).
    apply (nth_ext _ _ (@nil Z) (@nil Z)); [rewrite Hlen, Hinit, !map_length, seq_length; reflexivity|].
    intros k Hk. rewrite Hlen, Hinit in Hk. rewrite Hnth.
    rewrite map_map.
    rewrite (nth_indep (map (fun x => encode (slotX me x)) (seq 0 (Z.to_nat (nrecvs me + 1)))) [] (encode (slotX me 0%nat))) by (rewrite map_length, seq_length; exact Hk). rewrite (map_nth (fun x => encode (slotX me x))). rewrite seq_nth by exact Hk. cbn [Nat.add].
    unfold slotX. destruct (Z.eqb_spec (Z.of_nat k) (npart me)) as [Ek|Ek].
    - rewrite find_none_intro.
      + unfold init, set_slot. replace (npart me <? 0) with false by lia. rewrite nth_set_nth.
        replace (k =? Z.to_nat (npart me))%nat with true by (symmetry; apply Nat.eqb_eq; lia).
        rewrite repeat_length. replace (Z.to_nat (npart me) <? Z.to_nat (nrecvs me + 1))%nat with true by (symmetry; apply Nat.ltb_lt; lia).
        reflexivity.
      + intros q Hq. destruct (Hord q Hq) as [k' [Hk' [Hne ->]]]. rewrite Hslot by assumption. apply Nat.eqb_neq. lia.
    - destruct (find (fun q => (Z.to_nat (slotf q) =? k)%nat) order) as [q'|] eqn:Ef.
      + apply find_some in Ef. destruct Ef as [Hq' Eq']. apply Nat.eqb_eq in Eq'.
        destruct (Hord q' Hq') as [k' [Hk' [Hne ->]]]. rewrite Hslot in Eq' by assumption.
        replace (Z.of_nat k) with k' by lia. reflexivity.
      + exfalso. assert (Hin : In (sender me (Z.of_nat k)) order).
        { apply (Permutation_in _ (Permutation_sym Hperm)). apply (senders_In me _ Hme). exists (Z.of_nat k). split; [lia|]. split; [exact Ek|reflexivity]. }
        pose proof (find_none _ _ Ef _ Hin) as Hf. cbv beta in Hf. rewrite Hslot in Hf by lia. apply Nat.eqb_neq in Hf. lia.
  Qed.

  Lemma slots_good me : 0 <= me < G -> good (map (slotX me) (seq 0 (Z.to_nat (nrecvs me + 1)))).
  Proof.
    intros Hme. pose proof (nrecvs_ge me Hme) as Hge. split.
    - apply Forall_forall. intros x Hx. apply in_map_iff in Hx. destruct Hx as [k [<- _]]. unfold slotX.
      destruct (Z.of_nat k =? npart me); apply rfilter_wfr, build_wfr.
    - apply FOP_map_seq. intros k k' Hk Hk'.
      assert (Hq : forall k0, (k0 < Z.to_nat (nrecvs me + 1))%nat -> exists q, slotX me k0 = partj (npart me) (specH hold q) /\
                     q = if Z.of_nat k0 =? npart me then me else sender me (Z.of_nat k0)).
      { intros k0 _. unfold slotX. destruct (Z.of_nat k0 =? npart me); eexists; split; reflexivity. }
      destruct (Hq k ltac:(lia)) as [q [-> Eq]]. destruct (Hq k' ltac:(lia)) as [q' [-> Eq']].
      assert (Hne : q <> q').
      { subst q q'. unfold sender. destruct (Z.eqb_spec (Z.of_nat k) (npart me)); destruct (Z.eqb_spec (Z.of_nat k') (npart me)); nia. }
      intros t [f1 p1] [f2 p2] H1 H2 E. cbn [fst] in E. subst f2. unfold partj in H1, H2.
      apply rfilter_pairs in H1. apply rfilter_pairs in H2. destruct H1 as [H1 _]. destruct H2 as [H2 _].
      apply build_pairs in H1. apply build_pairs in H2. destruct H1 as [_ [_ [S1 _]]]. destruct H2 as [_ [_ [S2 _]]].
      rewrite andb_true_iff, Z.eqb_eq in S1, S2. apply Hne. lia.
  Qed.

  Lemma slots_cover me p : 0 <= me < G ->
    (covers (map (slotX me) (seq 0 (Z.to_nat (nrecvs me + 1)))) p <->
     In p (pairs (partj (npart me) (specH hold me))) \/ exists q, In q (senders me) /\ In p (pairs (partj (npart me) (specH hold q)))).
  Proof.
    intros Hme. pose proof (nrecvs_ge me Hme) as Hge. pose proof (npart_range me Hme) as Ha. unfold covers. split.
    - intros [x [Hx Hp]]. apply in_map_iff in Hx. destruct Hx as [k [<- Hk]]. apply in_seq in Hk. unfold slotX in Hp.
      destruct (Z.eqb_spec (Z.of_nat k) (npart me)) as [E|E]; [left; exact Hp|].
      right. exists (sender me (Z.of_nat k)). split; [|exact Hp]. apply (senders_In me _ Hme). exists (Z.of_nat k). split; [lia|]. split; [exact E|reflexivity].
    - intros [Hp|[q [Hq Hp]]].
      + exists (slotX me (Z.to_nat (npart me))). split; [apply in_map; apply in_seq; lia|].
        unfold slotX. rewrite Z2Nat.id by lia. rewrite Z.eqb_refl. exact Hp.
      + apply (senders_In me q Hme) in Hq. destruct Hq as [k [Hk [Hne ->]]].
        exists (slotX me (Z.to_nat k)). split; [apply in_map; apply in_seq; lia|].
        unfold slotX. rewrite Z2Nat.id by lia. destruct (Z.eqb_spec k (npart me)); [contradiction|]. exact Hp.
  Qed.

  Theorem run_nary_level me order (k : list Z -> prog) rest : 0 <= me < G -> Permutation order (senders me) ->
    run (nlvl_replies me order ++ rest)
        (nary_level G me (Z.of_nat n) level depth ntop nint nbot (gstart L D me) (D * L) (encode (specH hold me)) k) =
    let '(a, o) := run rest (k (encode (specH hold' me))) in (nlvl_acts me ++ a, o).
  Proof.
    intros Hme Hperm. pose proof (nrecvs_ge me Hme) as Hge. pose proof (npart_range me Hme) as Ha.
    unfold nary_level. rewrite Hdivn.
    rewrite (nary_part_gpart L D me HL HD HWB ltac:(unfold BIG in *; lia)).
    cbv iota beta zeta. fold (npart me). fold (nrecvs me).
    rewrite part_records_encode by (try apply specH_wfpay; apply encode_length_ge).
    match goal with |- context [do_sends ?S _] => assert (HS : S = nsends me) end.
    { unfold nsends. apply flat_map_ext. intros j. rewrite part_buf_encode. reflexivity. }
    rewrite HS. clear HS. rewrite part_buf_encode.
    unfold nlvl_replies, nlvl_acts. rewrite <- !app_assoc. rewrite run_do_sends.
    replace (Z.to_nat (nrecvs me)) with (length (map (fun q => (q, nwire me q)) order))
      by (rewrite map_length, (Permutation_length Hperm); apply senders_length; exact Hme).
    replace (map (fun q => q :: nwire me q) order) with (map (fun sp : Z * payload => fst sp :: snd sp) (map (fun q => (q, nwire me q)) order))
      by (rewrite map_map; reflexivity).
    rewrite run_recv_any_n. cbn [rev app].
    change (rfilter (fun t : Z => nary_topart t (D * L) L =? npart me) (specH hold me)) with (partj (npart me) (specH hold me)).
    rewrite (slots_filled me order Hme Hperm).
    rewrite merge_tree_encode.
    2:{ apply Forall_forall. intros x Hx. apply in_map_iff in Hx. destruct Hx as [j [<- _]]. unfold slotX.
        destruct (Z.of_nat j =? npart me); apply rfilter_wfpay, specH_wfpay. }
    2:{ apply Forall_forall. intros x Hx. apply in_map_iff in Hx. destruct Hx as [j [<- _]]. unfold slotX.
        destruct (Z.of_nat j =? npart me); apply partj_nomark, specH_nomark. }
    destruct (amerge_tree_result 32 (map (slotX me) (seq 0 (Z.to_nat (nrecvs me + 1)))) (slots_good me Hme)) as [x [Ex [Wx Px]]].
    { replace (Z.to_nat (nrecvs me + 1)) with (S (Z.to_nat (nrecvs me))) by lia. cbn [seq map]. discriminate. }
    { rewrite map_length, seq_length. rewrite Z2Nat.id by lia. unfold BIG in *.
      assert (2 ^ 29 < 2 ^ Z.of_nat 32) by (apply Z.pow_lt_mono_r; lia). nia. }
    rewrite Ex. cbn [map nth].
    rewrite (nary_level_union me x Hme Wx).
    - destruct (run rest (k (encode (specH hold' me)))). rewrite !map_length, <- app_assoc. reflexivity.
    - intros p. rewrite Px. apply slots_cover. exact Hme.
  Qed.
End NaryLevel.

(* ---- all levels ---------------------------------------------------------------------------------------------------------------- *)
Section NaryLevels.
  Variable G : Z.
  Variable R : Z -> list Z.
  Variable payf : Z -> Z -> list Z.
  Variable n : nat.
  Hypothesis HG : 0 < G <= BIG.
  Hypothesis Hpay : forall f t, length (payf f t) = n.
  Variables depth ntop nint nbot : Z.
  Variable me : Z.
  Hypothesis Hme : 0 <= me < G.
  (* round abstraction: at the level with index lev the wildcard receives of `me` return the messages of its sources,
     each once, in the order `orders lev` *)
  Variable orders : Z -> list Z.

  (* levels from the deepest to the top: (level index of the code, width) *)
  Fixpoint mk_lv (L : Z) (ls : list (Z * Z)) : list (Z * Z * Z) :=
    match ls with [] => [] | (lev, D) :: r => (lev, gstart L D me, D * L) :: mk_lv (D * L) r end.
  Fixpoint hold_after (L : Z) (ls : list (Z * Z)) (h : Z -> Z -> Z) : Z -> Z -> Z :=
    match ls with [] => h | (lev, D) :: r => hold_after (D * L) r (hold' G L D h) end.
  Fixpoint all_replies (L : Z) (ls : list (Z * Z)) (h : Z -> Z -> Z) : list payload :=
    match ls with [] => [] | (lev, D) :: r => nlvl_replies G L D R payf h lev me (orders lev) ++ all_replies (D * L) r (hold' G L D h) end.
  Fixpoint all_acts (L : Z) (ls : list (Z * Z)) (h : Z -> Z -> Z) : list act :=
    match ls with [] => [] | (lev, D) :: r => nlvl_acts G L D R payf h lev me ++ all_acts (D * L) r (hold' G L D h) end.
  Fixpoint levels_ok (L : Z) (ls : list (Z * Z)) : Prop :=
    match ls with
    | [] => True
    | (lev, D) :: r => 2 <= D /\ D * L <= BIG /\ nary_divn lev depth nbot ntop nint = D /\
                       Permutation (orders lev) (senders G L D me) /\ levels_ok (D * L) r
    end.

  Definition hinv (L : Z) (h : Z -> Z -> Z) : Prop :=
    forall f t, 0 <= f < G -> 0 <= t < G -> 0 <= h f t < G /\ t mod L = h f t mod L.

  Lemma hinv_step L D h : 0 < L -> 2 <= D -> D * L <= BIG -> hinv L h -> hinv (D * L) (hold' G L D h).
  Proof.
    intros HL HD HW Hi f t Hf Ht. destruct (Hi f t Hf Ht) as [Hr Hm]. unfold hold'.
    destruct (route_inv L D G (h f t) t HL HD HG HW Hr Ht Hm) as [A B]. split; [exact A|exact B].
  Qed.

  Theorem run_nary_run : forall ls L h (k : list Z -> prog) rest, 0 < L -> hinv L h -> levels_ok L ls ->
    run (all_replies L ls h ++ rest) (nary_run G me (Z.of_nat n) depth ntop nint nbot (mk_lv L ls) (encode (specH G R payf h me)) k) =
    let '(a, o) := run rest (k (encode (specH G R payf (hold_after L ls h) me))) in (all_acts L ls h ++ a, o).
  Proof.
    induction ls as [|[lev D] ls IH]; intros L h k rest HL Hi Hok.
    - cbn [all_replies mk_lv nary_run hold_after all_acts app]. destruct (run rest (k (encode (specH G R payf h me)))); reflexivity.
    - destruct Hok as [HD [HW [Hdiv [Hperm Hok]]]].
      cbn [all_replies mk_lv nary_run hold_after all_acts]. rewrite <- app_assoc.
      rewrite (run_nary_level G L D R payf HL HD HG HW h Hi n Hpay lev depth ntop nint nbot Hdiv me (orders lev) _ _ Hme Hperm).
      rewrite IH; [|nia|apply hinv_step; assumption|exact Hok].
      destruct (run rest (k (encode (specH G R payf (hold_after (D * L) ls (hold' G L D h)) me)))). rewrite <- app_assoc. reflexivity.
  Qed.

  (* the holder after all levels is the one of NaryDelivery.deliver *)
  Lemma hold_after_deliver : forall ls L h f t, hold_after L ls h f t = deliver (map snd ls) L G (h f t) t.
  Proof. induction ls as [|[lev D] ls IH]; intros L h f t; [reflexivity|]. cbn [hold_after map snd deliver]. rewrite IH. reflexivity. Qed.

  Lemma levels_ok_widths : forall ls L, levels_ok L ls -> Forall (fun D => 2 <= D) (map snd ls).
  Proof. induction ls as [|[lev D] ls IH]; intros L H; [constructor|]. destruct H as [HD [_ [_ [_ H]]]]. constructor; [exact HD|apply (IH _ H)]. Qed.
End NaryLevels.

(* ---- payload bytes in int slots: unpack_ints (pack_ints) = id ---------------------------------------------------------------------- *)
Definition isbyte (b : Z) : Prop := 0 <= b < 256.

Lemma int_bytes_le_int b0 b1 b2 b3 : isbyte b0 -> isbyte b1 -> isbyte b2 -> isbyte b3 ->
  int_bytes (le_int [b0; b1; b2; b3]) = [b0; b1; b2; b3].
Proof.
  unfold isbyte. intros H0 H1 H2 H3. unfold le_int, int_bytes. cbn [nth]. cbv zeta.
  set (x := b0 + 256 * b1 + 65536 * b2 + 16777216 * b3).
  assert (Hx : 0 <= x < M32) by (unfold x, M32; lia).
  assert (Hu : s32 x mod M32 = x).
  { unfold s32, wraps. change (M32 / 2) with 2147483648. unfold M32 in *. clearbody x.
    pose proof (Z.div_mod (x + 2147483648) 4294967296 ltac:(lia)) as E1.
    pose proof (Z.mod_pos_bound (x + 2147483648) 4294967296 ltac:(lia)) as B1.
    set (r := (x + 2147483648) mod 4294967296) in *. set (q := (x + 2147483648) / 4294967296) in *.
    assert (Hq : q = 0 \/ q = 1) by lia.
    destruct Hq as [Hq|Hq]; rewrite Hq in E1.
    - symmetry. apply Z.mod_unique_pos with (q := 0); lia.
    - symmetry. apply Z.mod_unique_pos with (q := -1); lia. }
  rewrite Hu. unfold x.
  repeat f_equal.
  - symmetry. apply Z.mod_unique_pos with (q := b1 + 256 * b2 + 65536 * b3); lia.
  - replace ((b0 + 256 * b1 + 65536 * b2 + 16777216 * b3) / 256) with (b1 + 256 * b2 + 65536 * b3)
      by (apply Z.div_unique_pos with (r := b0); lia).
    symmetry. apply Z.mod_unique_pos with (q := b2 + 256 * b3); lia.
  - replace ((b0 + 256 * b1 + 65536 * b2 + 16777216 * b3) / 65536) with (b2 + 256 * b3)
      by (apply Z.div_unique_pos with (r := b0 + 256 * b1); lia).
    symmetry. apply Z.mod_unique_pos with (q := b3); lia.
  - replace ((b0 + 256 * b1 + 65536 * b2 + 16777216 * b3) / 16777216) with b3
      by (apply Z.div_unique_pos with (r := b0 + 256 * b1 + 65536 * b2); lia).
    apply Z.mod_small. lia.
Qed.

Lemma int_bytes_le_int_short bs : Forall isbyte bs -> (length bs <= 4)%nat ->
  int_bytes (le_int bs) = bs ++ repeat 0 (4 - length bs).
Proof.
  intros Hb Hl. assert (Hz : isbyte 0) by (unfold isbyte; lia).
  destruct bs as [|b0 [|b1 [|b2 [|b3 [|b4 r]]]]]; try (simpl in Hl; lia).
  - change (le_int []) with (le_int [0; 0; 0; 0]). apply int_bytes_le_int; assumption.
  - inversion Hb; subst. change (le_int [b0]) with (le_int [b0; 0; 0; 0]). apply int_bytes_le_int; assumption.
  - inversion Hb as [|? ? ? Hb1]; subst. inversion Hb1; subst. change (le_int [b0; b1]) with (le_int [b0; b1; 0; 0]). apply int_bytes_le_int; assumption.
  - inversion Hb as [|? ? ? Hb1]; subst. inversion Hb1 as [|? ? ? Hb2]; subst. inversion Hb2; subst.
    change (le_int [b0; b1; b2]) with (le_int [b0; b1; b2; 0]). apply int_bytes_le_int; assumption.
  - inversion Hb as [|? ? ? Hb1]; subst. inversion Hb1 as [|? ? ? Hb2]; subst. inversion Hb2 as [|? ? ? Hb3]; subst. inversion Hb3; subst.
    apply int_bytes_le_int; assumption.
Qed.

Lemma Forall_firstn' {A} (P : A -> Prop) : forall k l, Forall P l -> Forall P (firstn k l).
Proof. induction k as [|k IH]; intros l H; [constructor|]. destruct l; [constructor|]. inversion H; subst. cbn [firstn]. constructor; auto. Qed.
Lemma Forall_skipn' {A} (P : A -> Prop) : forall k l, Forall P l -> Forall P (skipn k l).
Proof. induction k as [|k IH]; intros l H; [exact H|]. destruct l; [constructor|]. inversion H; subst. cbn [skipn]. auto. Qed.

Lemma pack_ints_length : forall m bs, length (pack_ints m bs) = m.
Proof. induction m as [|m IH]; intros bs; [reflexivity|]. cbn [pack_ints length]. rewrite IH. reflexivity. Qed.

Lemma unpack_pack_all : forall m bs, Forall isbyte bs -> (length bs <= 4 * m)%nat ->
  flat_map int_bytes (pack_ints m bs) = bs ++ repeat 0 (4 * m - length bs).
Proof.
  induction m as [|m IH]; intros bs Hb Hl.
  - destruct bs; [reflexivity|simpl in Hl; lia].
  - cbn [pack_ints flat_map].
    assert (Hf : Forall isbyte (firstn 4 bs)) by (apply Forall_firstn'; assumption).
    assert (Hs : Forall isbyte (skipn 4 bs)) by (apply Forall_skipn'; assumption).
    rewrite int_bytes_le_int_short by (try assumption; rewrite firstn_length; lia).
    rewrite IH by (try assumption; rewrite skipn_length; lia).
    rewrite firstn_length, skipn_length.
    destruct (Nat.le_gt_cases 4 (length bs)) as [H4|H4].
    + replace (4 - Nat.min 4 (length bs))%nat with 0%nat by lia. cbn [repeat]. rewrite app_nil_r, app_assoc, firstn_skipn.
      f_equal. f_equal. lia.
    + rewrite firstn_all2 by lia. rewrite skipn_all2 by lia. cbn [app length].
      rewrite <- app_assoc. f_equal. rewrite <- repeat_app. f_equal. lia.
Qed.

(* C02: an item of sz bytes packed into its npay int slots and unpacked again is unchanged *)
Theorem unpack_pack_ints m sz bs : Forall isbyte bs -> Z.of_nat (length bs) = sz -> sz <= 4 * Z.of_nat m ->
  unpack_ints sz (pack_ints m bs) = bs.
Proof.
  intros Hb Hl Hm. unfold unpack_ints. rewrite unpack_pack_all by (try assumption; lia).
  rewrite <- Hl, Nat2Z.id. rewrite firstn_app, Nat.sub_diag, firstn_all. cbn [firstn]. apply app_nil_r.
Qed.

(* ---- first and last array; the whole recursion ---------------------------------------------------------------------------------- *)
Section NaryFinal.
  Variable G : Z.
  Variable R : Z -> list Z.
  Hypothesis HG : 0 < G <= BIG.
  Hypothesis HR : forall f, 0 <= f < G -> ssorted (fun x => x) (R f) /\ forall t, In t (R f) -> 0 <= t < G.
  Variables depth ntop nint nbot : Z.
  Variable ls : list (Z * Z).                         (* (level index, width) from the deepest level to the top *)
  Hypothesis Hcover : G <= prodl (map snd ls).
  Hypothesis Hbig : prodl (map snd ls) <= BIG.
  Variable orders : Z -> Z -> list Z.                 (* rank, level index: arrival order of the sources *)
  Hypothesis Hok : forall me, 0 <= me < G -> levels_ok G depth ntop nint nbot me (orders me) 1 ls.

  Definition h0 (f t : Z) : Z := f.

  Lemma h0_inv : hinv G 1 h0.
  Proof. intros f t Hf Ht. unfold h0. rewrite !Z.mod_1_r. auto. Qed.

  Lemma spec_init payf me : 0 <= me < G -> specH G R payf h0 me = map (fun t => (t, [(me, payf me t)])) (R me).
  Proof.
    intros Hme. destruct (HR me Hme) as [Hs Hin].
    apply wfr_ext; [apply build_wfr| |].
    - split.
      + clear Hin. induction Hs as [|x l Hs' IH Hf]; simpl; constructor; [assumption|].
        rewrite Forall_forall in *. intros y Hy. apply in_map_iff in Hy. destruct Hy as [t [<- Ht]]. cbn [fst]. apply Hf. assumption.
      + apply Forall_forall. intros r Hr. apply in_map_iff in Hr. destruct Hr as [t [<- _]]. cbn [snd].
        split; [discriminate|repeat constructor].
    - intros [t [f p]]. unfold specH. rewrite build_pairs, andb_true_iff, memz_In, Z.eqb_eq, in_pairs. unfold h0. split.
      + intros [Ht [Hf [[Hi ->] ->]]]. exists (t, [(me, payf me t)]).
        split; [apply in_map_iff; exists t; split; [reflexivity|assumption]|split; [reflexivity|left; reflexivity]].
      + intros [r [Hr [E Hx]]]. apply in_map_iff in Hr. destruct Hr as [t' [<- Ht']]. cbn [fst snd] in *. subst t'.
        destruct Hx as [Hx|[]]. inversion Hx; subst. auto 10.
  Qed.

  Lemma spec_last payf me : 0 <= me < G -> specH G R payf (hold_after G 1 ls h0) me = final_rec G R me (fun f => payf f me).
  Proof.
    intros Hme. apply wfr_ext; [apply build_wfr|apply final_rec_wfr|]. intros [t [f p]].
    unfold specH. rewrite build_pairs, final_rec_pairs, transpose_In, andb_true_iff, memz_In, Z.eqb_eq.
    assert (Hd : forall f t, 0 <= f < G -> 0 <= t < G -> hold_after G 1 ls h0 f t = t).
    { intros f0 t0 Hf Ht. rewrite hold_after_deliver. unfold h0.
      apply deliver_correct; try assumption; try lia; try (rewrite !Z.mod_1_r; reflexivity).
      apply (levels_ok_widths G depth ntop nint nbot me (orders me) ls 1). apply Hok. exact Hme. }
    split.
    - intros [Ht [Hf [[Hi Hh] Hp]]]. rewrite Hd in Hh by assumption. subst t. auto.
    - intros [-> [[Hf Hi] Hp]]. rewrite Hd by assumption. auto 10.
  Qed.

  Lemma init_input_encode_pay me m (g : Z -> list Z) : forall (Lr : list Z) (pre : list payload),
    flat_map (fun ip : Z * nat => fst ip :: 1 :: me :: pack_ints m (nth_pay (pre ++ map g Lr) (snd ip))) (zip Lr (seq (length pre) (length Lr)))
    = encode (map (fun t => (t, [(me, pack_ints m (g t))])) Lr).
  Proof.
    induction Lr as [|t Lr IH]; intros pre; [reflexivity|].
    cbn [length seq zip flat_map map fst snd].
    assert (Hn : nth_pay (pre ++ g t :: map g Lr) (length pre) = g t) by (unfold nth_pay; rewrite app_nth2 by lia; rewrite Nat.sub_diag; reflexivity).
    rewrite Hn.
    specialize (IH (pre ++ [g t])). rewrite app_length in IH. cbn [length] in IH. rewrite Nat.add_1_r in IH. rewrite <- app_assoc in IH. cbn [app] in IH.
    rewrite (encode_cons (t, [(me, pack_ints m (g t))])). unfold enc_rcd, enc_item. cbn [fst snd length flat_map]. rewrite app_nil_r.
    change (Z.of_nat 1) with 1. apply (f_equal2 (@app Z)); [reflexivity|exact IH].
  Qed.

  Lemma out_items_pay m : forall (items : list item) tail, Forall (fun it => length (snd it) = m) items ->
    out_items (length items) (S m) (flat_map enc_item items ++ tail) = items.
  Proof.
    induction items as [|[f p] items IH]; intros tail Hl; [reflexivity|]. pose proof (Forall_inv Hl) as Hp. pose proof (Forall_inv_tail Hl) as Hl'. cbn [snd] in Hp.
    cbn [length out_items flat_map enc_item fst snd app hd tl]. replace (S m - 1)%nat with m by lia.
    rewrite <- app_assoc. rewrite firstn_app_exact by (symmetry; exact Hp). f_equal.
    change (f :: p ++ flat_map enc_item items ++ tail) with ((f :: p) ++ flat_map enc_item items ++ tail).
    rewrite skipn_app_exact by (cbn [length]; lia). apply IH. exact Hl'.
  Qed.

  Lemma reset_output_last me m sz (pf : Z -> list Z) : (forall f, length (pf f) = m) ->
    reset_output (encode (final_rec G R me pf)) m sz true = (transpose G R me, map (fun f => unpack_ints sz (pf f)) (transpose G R me)).
  Proof.
    intros Hl. unfold final_rec. destruct (transpose G R me) as [|f0 T]; [reflexivity|].
    set (Lt := f0 :: T). cbn [encode flat_map]. unfold enc_rcd. cbn [fst snd app reset_output]. rewrite Nat2Z.id.
    rewrite out_items_pay by (apply Forall_forall; intros it Hit; apply in_map_iff in Hit; destruct Hit as [f [<- _]]; apply Hl).
    rewrite !map_map. cbn [fst snd]. rewrite map_id. reflexivity.
  Qed.

  (* ROUND SEMANTICS of the n-ary recursion (program nary_run = the levels of sc_notify_recursive_nary), no payload *)
  Lemma reset_output_nopay arr k sz0 : reset_output arr k sz0 false = reset_output arr k 0 false.
  Proof. unfold reset_output. destruct arr as [|a [|b r]]; reflexivity. Qed.

  Theorem nary_round_semantics me sz0 : 0 <= me < G ->
    run (all_replies G R (fun _ _ => []) me (orders me) 1 ls h0)
        (nary_run G me 0 depth ntop nint nbot (mk_lv me 1 ls) (init_input me (R me) None 0)
                  (fun arr => let '(s, p) := reset_output arr 0 sz0 false in Ret (result s p)))
    = (all_acts G R (fun _ _ => []) me 1 ls h0, Some (result (transpose G R me) [])).
  Proof.
    intros Hme. unfold init_input. rewrite (init_input_encode me (R me) 0).
    rewrite <- (spec_init (fun _ _ => []) me Hme).
    pose proof (run_nary_run G R (fun _ _ => []) 0%nat HG ltac:(reflexivity) depth ntop nint nbot me Hme (orders me) ls 1 h0
                  (fun arr => let '(s, p) := reset_output arr 0 sz0 false in Ret (result s p)) [] ltac:(lia) h0_inv (Hok me Hme)) as H.
    rewrite !app_nil_r in H. change (Z.of_nat 0) with 0 in H. rewrite H.
    rewrite (spec_last (fun _ _ => []) me Hme). rewrite reset_output_nopay.
    pose proof (reset_output_final G R me) as Hr.
    destruct (reset_output (encode (final_rec G R me (fun _ => []))) 0 0 false) as [s p] eqn:E. cbn [fst] in Hr. subst s.
    assert (Hp : p = []).
    { unfold reset_output in E. destruct (encode (final_rec G R me (fun _ => []))) as [|a [|b r]]; inversion E; reflexivity. }
    subst p. cbn [run]. rewrite app_nil_r. reflexivity.
  Qed.

  (* with one payload item of sz bytes per receiver inside the records (npay int slots per sender) *)
  Variable pay : Z -> Z -> payload.
  Variable sz : Z.
  Variable m : nat.                                   (* npay *)
  Hypothesis Hbytes : forall f t, Forall isbyte (pay f t) /\ Z.of_nat (length (pay f t)) = sz.
  Hypothesis Hslots : sz <= 4 * Z.of_nat m.

  Theorem nary_round_semantics_payload me : 0 <= me < G ->
    let payf := fun f t => pack_ints m (pay f t) in
    run (all_replies G R payf me (orders me) 1 ls h0)
        (nary_run G me (Z.of_nat m) depth ntop nint nbot (mk_lv me 1 ls) (init_input me (R me) (Some (map (pay me) (R me))) m)
                  (fun arr => let '(s, p) := reset_output arr m sz true in Ret (result s p)))
    = (all_acts G R payf me 1 ls h0, Some (result (transpose G R me) (map (fun s => pay s me) (transpose G R me)))).
  Proof.
    intros Hme payf.
    assert (Hinit : init_input me (R me) (Some (map (pay me) (R me))) m = encode (map (fun t => (t, [(me, payf me t)])) (R me)))
      by (exact (init_input_encode_pay me m (pay me) (R me) [])).
    rewrite Hinit. rewrite <- (spec_init payf me Hme).
    assert (Hpl : forall f t, length (payf f t) = m) by (intros; apply pack_ints_length).
    pose proof (run_nary_run G R payf m HG Hpl depth ntop nint nbot me Hme (orders me) ls 1 h0
                  (fun arr => let '(s, p) := reset_output arr m sz true in Ret (result s p)) [] ltac:(lia) h0_inv (Hok me Hme)) as H.
    rewrite !app_nil_r in H. rewrite H.
    rewrite (spec_last payf me Hme).
    rewrite (reset_output_last me m sz (fun f => payf f me)) by (intros; apply Hpl).
    cbn [run]. rewrite app_nil_r. f_equal. f_equal. f_equal.
    apply map_ext. intros s. unfold payf. destruct (Hbytes s me) as [Hb Hlen]. apply unpack_pack_ints; assumption.
  Qed.
End NaryFinal.

(* ---- the entry point nary_core (sc_notify_payload_nary) ------------------------------------------------------------------------------
   Hdepth and Hdesc say what the generated depth loop and the descent of the recursion compute for this configuration
   (both are closed computations for concrete widths and size; they are not yet derived in general). *)
Theorem nary_core_round_semantics G (R : Z -> list Z) ntop nint nbot depth prod (ls : list (Z * Z)) (orders : Z -> Z -> list Z) sz0 :
  0 < G <= BIG -> G <> 1 ->
  (forall f, 0 <= f < G -> ssorted (fun x => x) (R f) /\ forall t, In t (R f) -> 0 <= t < G) ->
  nary_depth 64 G nbot ntop nint = Some (depth, prod) ->
  (forall me, 0 <= me < G -> rev (nary_descent 64 me 0 depth ntop nint nbot 0 prod) = mk_lv me 1 ls) ->
  G <= prodl (map snd ls) -> prodl (map snd ls) <= BIG ->
  (forall me, 0 <= me < G -> levels_ok G depth ntop nint nbot me (orders me) 1 ls) ->
  forall me, 0 <= me < G ->
  run (all_replies G R (fun _ _ => []) me (orders me) 1 ls h0)
      (nary_core G me ntop nint nbot (R me) None sz0 (fun s g => Ret (result s g)))
  = (all_acts G R (fun _ _ => []) me 1 ls h0, Some (result (transpose G R me) [])).
Proof.
  intros HG H1 HR Hdepth Hdesc Hcov Hbig Hok me Hme. unfold nary_core.
  destruct (Z.eqb_spec G 1) as [E|_]; [contradiction|]. rewrite Hdepth, (Hdesc me Hme).
  change (Z.to_nat 0) with 0%nat.
  exact (nary_round_semantics G R HG HR depth ntop nint nbot ls Hcov Hbig orders Hok me sz0 Hme).
Qed.

Theorem nary_core_round_semantics_payload G (R : Z -> list Z) (pay : Z -> Z -> payload) ntop nint nbot depth prod
        (ls : list (Z * Z)) (orders : Z -> Z -> list Z) sz :
  0 < G <= BIG -> G <> 1 -> 0 < sz < 2 ^ 31 ->
  (forall f, 0 <= f < G -> ssorted (fun x => x) (R f) /\ forall t, In t (R f) -> 0 <= t < G) ->
  (forall f t, Forall isbyte (pay f t) /\ Z.of_nat (length (pay f t)) = sz) ->
  nary_depth 64 G nbot ntop nint = Some (depth, prod) ->
  (forall me, 0 <= me < G -> rev (nary_descent 64 me 0 depth ntop nint nbot 0 prod) = mk_lv me 1 ls) ->
  G <= prodl (map snd ls) -> prodl (map snd ls) <= BIG ->
  (forall me, 0 <= me < G -> levels_ok G depth ntop nint nbot me (orders me) 1 ls) ->
  forall me, 0 <= me < G ->
  let payf := fun f t => pack_ints (Z.to_nat (npay_nary 1 sz)) (pay f t) in
  run (all_replies G R payf me (orders me) 1 ls h0)
      (nary_core G me ntop nint nbot (R me) (Some (map (pay me) (R me))) sz (fun s g => Ret (result s g)))
  = (all_acts G R payf me 1 ls h0, Some (result (transpose G R me) (map (fun s => pay s me) (transpose G R me)))).
Proof.
  intros HG H1 Hsz HR Hbytes Hdepth Hdesc Hcov Hbig Hok me Hme payf. unfold nary_core.
  destruct (Z.eqb_spec G 1) as [E|_]; [contradiction|]. rewrite Hdepth, (Hdesc me Hme).
  destruct (C02.SlotProofs.npay_nary_ok 1 sz ltac:(lia) Hsz) as [S1 [S2 S3]].
  set (m := Z.to_nat (npay_nary 1 sz)). assert (Hm : npay_nary 1 sz = Z.of_nat m) by (unfold m; lia).
  rewrite Hm.
  apply (nary_round_semantics_payload G R HG HR depth ntop nint nbot ls Hcov Hbig orders Hok pay sz m Hbytes ltac:(lia) me Hme).
Qed.
