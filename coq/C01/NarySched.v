(* C01 - the n-ary notify recursion under EVERY SCHEDULE of the interleaving semantics with wildcard receives
   (MPI/SemAny.v): the round abstraction of C01/NaryRound.v, NaryCore.v ("the wildcard receives of a level return that
   level's messages, each once, in some order" - hypothesis `orders_ok` of nary_core_round_semantics_full) is DISCHARGED.

   System: rank r, 0 <= r < G, runs the co-simulated program
       nary_core G r ntop nint nbot (R r) None sz0 (fun s g => Ret (result s g))
   (the definition notify_prog gives for typ = 2 without payload); all other ranks have returned; all channels are empty.
   Theorem nary_every_schedule: no reachable state is stuck, every run has at most nary_steps G .. steps and is final exactly
   after that many, and in every final state every rank has returned result (transpose G R r) [] and all channels are empty.

   The proof instantiates MPI/SemRounds.all_schedules: levels = the levels of the recursion from the deepest one, tag of a level
   = SC_TAG_NOTIFY_NARY + level index (pairwise distinct), sends / sources / message contents of a level = NaryRound's nsends /
   senders / nwire (built from the GENERATED slices nary_peer, nary_nrecv, nary_part), matching = NaryArith.nary_matching +
   NaryRound.sender_part, round property = NaryCore.nary_core_round_semantics_full. *)
From Coq Require Import ZArith Lia List Bool Permutation.
From ScV Require Import Base.CInt MPI.Prog MPI.Sem MPI.SemAny MPI.SemRounds Gen.Consts Gen.NotifyC01 C01.NaryArith C01.NaryDelivery
     C01.MergeModel C01.MergeProofs C01.NotifyProgs C01.NotifyProgProofs C01.RecordOps C01.BinaryRound C01.NaryRound C01.NaryCore.
Import ListNotations.
Local Open Scope Z_scope.

(* SemRounds.feed is NotifyProgProofs.run *)
Lemma feed_run : forall p rs, feed rs p = run rs p.
Proof.
  induction p as [o|a k IH]; intros rs; [reflexivity|]. destruct rs as [|r rs]; [reflexivity|]. cbn [feed run]. rewrite IH. reflexivity.
Qed.

Definition inr (G r : Z) : bool := (0 <=? r) && (r <? G).
Lemma inr_spec G r : inr G r = true <-> 0 <= r < G.
Proof. unfold inr. rewrite andb_true_iff, Z.leb_le, Z.ltb_lt. tauto. Qed.
Lemma inr_ranks G r : inr G r = true <-> In r (ranks G).
Proof. rewrite inr_spec, in_ranks. tauto. Qed.

(* ---- generic list lemmas ------------------------------------------------------------------------------------------------------ *)
Lemma NoDup_flat_map_key {A B K} (key : B -> K) (g : A -> list B) : forall l, NoDup l ->
  (forall a, In a l -> NoDup (map key (g a))) ->
  (forall a a' x y, In a l -> In a' l -> In x (g a) -> In y (g a') -> key x = key y -> a = a') ->
  NoDup (map key (flat_map g l)).
Proof.
  induction l as [|a l IH]; intros Hnd H1 H2; [constructor|]. inversion Hnd as [|? ? Ha Hnd']; subst. cbn [flat_map]. rewrite map_app.
  apply NoDup_app_intro.
  - apply H1. left. reflexivity.
  - apply IH; [exact Hnd'|intros; apply H1; right; assumption|]. intros a0 a' x y Ha0 Ha'. apply H2; right; assumption.
  - intros kx Hx Hy. apply in_map_iff in Hx. destruct Hx as [x [<- Hx]]. apply in_map_iff in Hy. destruct Hy as [y [Ey Hy]].
    apply in_flat_map in Hy. destruct Hy as [a' [Ha' Hy]].
    assert (a' = a) by (apply (H2 a' a y x); [right; exact Ha'|left; reflexivity|exact Hy|exact Hx|exact Ey]). subst a'. contradiction.
Qed.

Lemma map_flat_map {A B C} (f : B -> C) (g : A -> list B) l : map f (flat_map g l) = flat_map (fun x => map f (g x)) l.
Proof. induction l as [|x l IH]; [reflexivity|]. cbn [flat_map]. rewrite map_app, IH. reflexivity. Qed.

Lemma flat_map_nth {A B} (f : A -> list B) (d : A) : forall l, flat_map f l = flat_map (fun p => f (nth p l d)) (seq 0 (length l)).
Proof.
  induction l as [|a l IH]; [reflexivity|]. cbn [length seq flat_map nth]. f_equal. rewrite <- seq_shift. rewrite IH.
  generalize (seq 0 (length l)). intros ps. induction ps as [|p ps IHp]; [reflexivity|]. cbn [map flat_map nth]. rewrite IHp. reflexivity.
Qed.

Lemma map_nth_seq {A B} (f : A -> B) (d : A) : forall l, map f l = map (fun p => f (nth p l d)) (seq 0 (length l)).
Proof.
  induction l as [|a l IH]; [reflexivity|]. cbn [length seq map nth]. f_equal. rewrite <- seq_shift, map_map. exact IH.
Qed.

Lemma flat_map_length_le1 {A B} (g : A -> list B) l : (forall a, (length (g a) <= 1)%nat) -> (length (flat_map g l) <= length l)%nat.
Proof.
  intros H. induction l as [|a l IH]; [apply Nat.le_refl|]. cbn [flat_map length]. rewrite app_length. pose proof (H a). lia.
Qed.

Fixpoint posof (levs : list Z) (lev : Z) : nat :=
  match levs with [] => O | x :: r => if x =? lev then O else S (posof r lev) end.
Lemma posof_nth d : forall levs p, NoDup levs -> (p < length levs)%nat -> posof levs (nth p levs d) = p.
Proof.
  induction levs as [|x levs IH]; intros p Hnd Hp; [cbn in Hp; lia|]. inversion Hnd as [|? ? Hx Hnd']; subst.
  destruct p as [|p]; cbn [nth posof]; [rewrite Z.eqb_refl; reflexivity|]. cbn [length] in Hp.
  destruct (Z.eqb_spec x (nth p levs d)) as [E|_]; [exfalso; apply Hx; rewrite E; apply nth_In; lia|]. f_equal. apply IH; [exact Hnd'|lia].
Qed.

(* ---- arithmetic: where the buffer of part j goes (one small addition to NaryArith) -------------------------------------------- *)
Lemma sendp_part L D G : 0 < L -> 2 <= D -> 0 < G <= BIG -> D * L <= BIG ->
  forall q j, 0 <= q < G -> 0 <= j < D -> j <> gpart L D q ->
  let p := sendp L (D * L) G q (gpart L D q) j in 0 <= p -> p < G /\ gpart L D p = j.
Proof.
  intros HL HD HG HWB q j Hq Hj Hne p Hp. unfold p in *. clear p.
  destruct (canon L D HL HD q ltac:(lia)) as [Dq [Sq [Aq Oq]]].
  set (a := gpart L D q) in *. set (s := q / (D * L)) in *. set (o := q mod L) in *.
  assert (HW : 0 < D * L) by nia.
  assert (Hjo : 0 <= j * L + o < D * L) by nia.
  assert (Hao : 0 <= a * L + o < D * L) by nia.
  assert (Hp1 : q + (j - a) * L = s * (D * L) + (j * L + o)) by (rewrite Dq at 1; ring).
  assert (Hdiv : forall x, (x * (D * L) + (j * L + o)) mod (D * L) / L = j).
  { intros x. rewrite Z.add_comm, Z.mod_add by lia. rewrite Z.mod_small by lia.
    replace (j * L + o) with (o + j * L) by ring. rewrite Z.div_add by lia. rewrite Z.div_small by lia. lia. }
  unfold sendp in *. cbv zeta in *. rewrite Hp1 in *. unfold gpart at 1.
  destruct (G <=? s * (D * L) + (j * L + o)) eqn:E.
  - assert (Hs1 : 1 <= s) by (destruct (Z.eq_dec s 0) as [E0|]; [rewrite E0 in Hp; lia|lia]).
    replace (s * (D * L) + (j * L + o) - D * L) with ((s - 1) * (D * L) + (j * L + o)) in * by ring.
    split; [|apply Hdiv]. assert (s * (D * L) <= q) by lia. nia.
  - split; [lia|apply Hdiv].
Qed.

Lemma peer_part L D G : 0 < L -> 2 <= D -> 0 < G <= BIG -> D * L <= BIG ->
  forall q j, 0 <= q < G -> 0 <= j < D -> j <> gpart L D q ->
  let p := nary_peer q j (gpart L D q) L G (D * L) in 0 <= p -> p < G /\ gpart L D p = j.
Proof.
  intros HL HD HG HWB q j Hq Hj Hne. rewrite (gen_peer L D G HL HD HG HWB q j Hq Hj). apply sendp_part; assumption.
Qed.

(* ---- one level: the sends and sources of NaryRound satisfy the requirements of SemRounds ----------------------------------------- *)
Section LevelFacts.
  Variables G L D : Z.
  Variable R : Z -> list Z.
  Variable payf : Z -> Z -> list Z.
  Variable hold : Z -> Z -> Z.
  Variable lev : Z.
  Hypothesis HL : 0 < L.
  Hypothesis HD : 2 <= D.
  Hypothesis HG : 0 < G <= BIG.
  Hypothesis HWB : D * L <= BIG.

  (* the arithmetic lemmas of NaryRound.NaryLevel carry the (unused) holder invariant of their section; any holder satisfies them *)
  Let hid : Z -> Z -> Z := fun _ t => t.
  Lemma hid_inv : forall f t, 0 <= f < G -> 0 <= t < G -> 0 <= hid f t < G /\ t mod L = hid f t mod L.
  Proof. intros f t _ Ht. unfold hid. auto. Qed.

  Definition lsends (q : Z) : list (Z * payload) := map (fun s => (fst (fst s), snd s)) (nsends G L D R payf hold lev q).

  Lemma nsends_In q x : In x (nsends G L D R payf hold lev q) <->
    exists j, 0 <= j < D /\ j <> npart L D q /\ 0 <= nary_peer q j (npart L D q) L G (D * L) /\
              x = (nary_peer q j (npart L D q) L G (D * L), ntag lev, encode (partj L D j (specH G R payf hold q))).
  Proof.
    unfold nsends. rewrite in_flat_map. split.
    - intros [j [Hj Hx]]. apply in_ranks in Hj. destruct (Z.eqb_spec j (npart L D q)) as [|Hne]; [contradiction|]. cbv zeta in Hx.
      destruct (Z.ltb_spec (nary_peer q j (npart L D q) L G (D * L)) 0) as [|Hp]; [contradiction|]. destruct Hx as [<-|[]].
      exists j. auto.
    - intros [j [Hj [Hne [Hp ->]]]]. exists j. split; [apply in_ranks; exact Hj|].
      destruct (Z.eqb_spec j (npart L D q)); [contradiction|]. cbv zeta.
      destruct (Z.ltb_spec (nary_peer q j (npart L D q) L G (D * L)) 0); [lia|]. left. reflexivity.
  Qed.

  Lemma lsends_dst q : 0 <= q < G -> NoDup (map fst (lsends q)).
  Proof.
    intros Hq. unfold lsends. rewrite map_map. cbn [fst]. unfold nsends. apply NoDup_flat_map_key.
    - apply ranks_NoDup.
    - intros j _. destruct (j =? npart L D q); [constructor|]. cbv zeta. destruct (_ <? 0); [constructor|]. repeat constructor. intros [].
    - intros j j' x y Hj Hj' Hx Hy E. apply in_ranks in Hj. apply in_ranks in Hj'.
      destruct (Z.eqb_spec j (npart L D q)) as [|Hne]; [contradiction|]. destruct (Z.eqb_spec j' (npart L D q)) as [|Hne']; [contradiction|].
      cbv zeta in Hx, Hy.
      destruct (Z.ltb_spec (nary_peer q j (npart L D q) L G (D * L)) 0) as [|Hp]; [contradiction|].
      destruct (Z.ltb_spec (nary_peer q j' (npart L D q) L G (D * L)) 0) as [|Hp']; [contradiction|].
      destruct Hx as [<-|[]]. destruct Hy as [<-|[]]. cbn [fst] in E.
      destruct (peer_part L D G HL HD HG HWB q j Hq Hj Hne Hp) as [_ E1].
      destruct (peer_part L D G HL HD HG HWB q j' Hq Hj' Hne' Hp') as [_ E2]. unfold npart in *. rewrite E in E1. congruence.
  Qed.

  Lemma senders_nodup me : 0 <= me < G -> NoDup (senders G L D me).
  Proof.
    intros Hme. unfold senders. apply FinFun.Injective_map_NoDup.
    - intros k k' E. exact (sender_inj G L D R payf HL HD hid hid_inv me k k' E).
    - apply NoDup_filter. apply ranks_NoDup.
  Qed.

  Lemma senders_range me q : 0 <= me < G -> In q (senders G L D me) -> 0 <= q < G.
  Proof.
    intros Hme Hq. apply (senders_In G L D R payf hid hid_inv me q Hme) in Hq. destruct Hq as [k [Hk [Hne ->]]].
    apply (sender_part G L D R payf HL HD HG HWB hid hid_inv me k Hme Hk Hne).
  Qed.

  (* MATCHING, both directions, with the message contents *)
  Lemma lsends_match1 q d m : 0 <= q < G -> In (d, m) (lsends q) ->
    0 <= d < G /\ In q (senders G L D d) /\ m = nwire G L D R payf hold d q.
  Proof.
    intros Hq Hin. unfold lsends in Hin. apply in_map_iff in Hin. destruct Hin as [[[d' t] m'] [E Hin]]. cbn [fst snd] in E. injection E as -> ->.
    apply nsends_In in Hin. destruct Hin as [j [Hj [Hne [Hp E]]]]. injection E as -> _ ->.
    destruct (peer_part L D G HL HD HG HWB q j Hq Hj Hne Hp) as [Hlt Epart]. fold (npart L D q) in *.
    set (d := nary_peer q j (npart L D q) L G (D * L)) in *. assert (Hd : 0 <= d < G) by lia.
    split; [exact Hd|]. split.
    - apply (senders_In G L D R payf hid hid_inv d q Hd).
      assert (Hex : exists j0, 0 <= j0 < D /\ j0 <> gpart L D q /\ nary_peer q j0 (gpart L D q) L G (D * L) = d) by (exists j; auto).
      apply (proj1 (nary_matching L D G HL HD HG HWB d q Hd Hq)) in Hex. destruct Hex as [k [Hk [Hnk Hqk]]]. exists k. auto.
    - unfold nwire. unfold npart at 1. rewrite Epart. reflexivity.
  Qed.

  Lemma lsends_match2 r q : 0 <= r < G -> In q (senders G L D r) -> In (r, nwire G L D R payf hold r q) (lsends q).
  Proof.
    intros Hr Hq. apply (senders_In G L D R payf hid hid_inv r q Hr) in Hq. destruct Hq as [k [Hk [Hne ->]]].
    destruct (sender_part G L D R payf HL HD HG HWB hid hid_inv r k Hr Hk Hne) as [Hex [Hnp Hpeer]].
    unfold lsends. apply in_map_iff.
    exists (r, ntag lev, encode (partj L D (npart L D r) (specH G R payf hold (sender L D r k)))). split; [reflexivity|].
    apply nsends_In. exists (npart L D r). split; [exact (npart_range G L D R payf HL HD hid hid_inv r Hr)|].
    split; [congruence|]. rewrite Hpeer. split; [lia|reflexivity].
  Qed.
End LevelFacts.

(* ---- the parameters (level index, part length, width, holder function) of the levels, in the order of execution ------------------ *)
Definition prm := (Z * Z * Z * (Z -> Z -> Z))%type.
Definition plev (x : prm) : Z := fst (fst (fst x)).
Definition pL (x : prm) : Z := snd (fst (fst x)).
Definition pD (x : prm) : Z := snd (fst x).
Definition ph (x : prm) : Z -> Z -> Z := snd x.
Definition dprm : prm := (0, 1, 2, h0).
Definition payf0 : Z -> Z -> list Z := fun _ _ => [].

Section Params.
  Variable G : Z.
  Variable R : Z -> list Z.

  Fixpoint lparams (L : Z) (ls : list (Z * Z)) (h : Z -> Z -> Z) : list prm :=
    match ls with [] => [] | (lev, D) :: r => (lev, L, D, h) :: lparams (D * L) r (hold' G L D h) end.

  Lemma lparams_lev : forall ls L h, map plev (lparams L ls h) = map fst ls.
  Proof. induction ls as [|[lev D] ls IH]; intros L h; [reflexivity|]. cbn [lparams map]. rewrite IH. reflexivity. Qed.

  Lemma lparams_D : forall ls L h, map pD (lparams L ls h) = map snd ls.
  Proof. induction ls as [|[lev D] ls IH]; intros L h; [reflexivity|]. cbn [lparams map]. rewrite IH. reflexivity. Qed.

  Lemma lparams_length ls L h : length (lparams L ls h) = length ls.
  Proof. rewrite <- (map_length plev), lparams_lev, map_length. reflexivity. Qed.

  Lemma lparams_ok : forall ls L h, (forall lev D, In (lev, D) ls -> 2 <= D) -> 0 < L -> prodl (map snd ls) * L <= BIG ->
    forall x, In x (lparams L ls h) -> 0 < pL x /\ 2 <= pD x /\ pD x * pL x <= BIG.
  Proof.
    induction ls as [|[lev D] ls IH]; intros L h Hw HL HB x Hx; [contradiction|].
    assert (HD : 2 <= D) by (apply (Hw lev); left; reflexivity).
    assert (Hr1 : 1 <= prodl (map snd ls)).
    { apply prodl_ge1. apply Forall_forall. intros y Hy. apply in_map_iff in Hy. destruct Hy as [[l0 D0] [<- Hin]]. apply (Hw l0 D0). right. exact Hin. }
    change (prodl (map snd ((lev, D) :: ls))) with (D * prodl (map snd ls)) in HB.
    cbn [lparams] in Hx. destruct Hx as [<-|Hx].
    - unfold pL, pD. cbn [fst snd]. split; [exact HL|]. split; [exact HD|]. nia.
    - apply (IH (D * L) (hold' G L D h)); [intros l0 D0 Hin; apply (Hw l0); right; exact Hin|nia|nia|exact Hx].
  Qed.

  Lemma all_replies_params me orders : forall ls L h,
    all_replies G R payf0 me orders L ls h =
    flat_map (fun x => nlvl_replies G (pL x) (pD x) R payf0 (ph x) (plev x) me (orders (plev x))) (lparams L ls h).
  Proof. induction ls as [|[lev D] ls IH]; intros L h; [reflexivity|]. cbn [all_replies lparams flat_map]. rewrite IH. reflexivity. Qed.

  Lemma all_acts_params me : forall ls L h,
    all_acts G R payf0 me L ls h = flat_map (fun x => nlvl_acts G (pL x) (pD x) R payf0 (ph x) (plev x) me) (lparams L ls h).
  Proof. induction ls as [|[lev D] ls IH]; intros L h; [reflexivity|]. cbn [all_acts lparams flat_map]. rewrite IH. reflexivity. Qed.

  Lemma orders_ok_params me orders : forall ls L h,
    (forall x, In x (lparams L ls h) -> Permutation (orders (plev x)) (senders G (pL x) (pD x) me)) -> orders_ok G me orders L ls.
  Proof.
    induction ls as [|[lev D] ls IH]; intros L h H; [exact I|]. cbn [orders_ok]. split.
    - apply (H (lev, L, D, h)). left. reflexivity.
    - apply (IH (D * L) (hold' G L D h)). intros x Hx. apply H. right. exact Hx.
  Qed.
End Params.

(* ---- the system and the theorem ---------------------------------------------------------------------------------------------------- *)
Section NarySystem.
  Variable G : Z.
  Variable R : Z -> list Z.
  Variables ntop nint nbot : Z.
  Variable sz0 : Z.

  Definition nary_prog (r : Z) : prog :=
    if inr G r then nary_core G r ntop nint nbot (R r) None sz0 (fun s g => Ret (result s g)) else Ret [].
  Definition nary_sys : gs := mkgs nary_prog (fun _ _ _ => []).
  Definition nary_out (r : Z) : payload := if inr G r then result (transpose G R r) [] else [].

  (* the instance of SemRounds for a list of level parameters *)
  Variable params : list prm.
  Definition nsendsI (r : Z) (p : nat) : list (Z * payload) :=
    if inr G r then let x := nth p params dprm in lsends G (pL x) (pD x) R payf0 (ph x) (plev x) r else [].
  Definition nsrcsI (r : Z) (p : nat) : list Z :=
    if inr G r then let x := nth p params dprm in senders G (pL x) (pD x) r else [].
  Definition nwireI (p : nat) (q r : Z) : payload := let x := nth p params dprm in nwire G (pL x) (pD x) R payf0 (ph x) r q.
  Definition ntagI (p : nat) : Z := ntag (plev (nth p params dprm)).
  Definition nnamedI : Z -> nat -> nat -> bool := fun _ _ _ => false.
  (* the number of steps of every maximal run: all sends and all receives of all ranks at all levels *)
  Definition nary_steps : nat := total_len (length params) nsendsI nsrcsI (ranks G).

  Hypothesis HG : 0 < G <= BIG.
  Hypothesis Hparams : forall x, In x params -> 0 < pL x /\ 2 <= pD x /\ pD x * pL x <= BIG.
  Hypothesis Hlevs : NoDup (map plev params).

  Lemma nth_params p : (p < length params)%nat -> let x := nth p params dprm in 0 < pL x /\ 2 <= pD x /\ pD x * pL x <= BIG.
  Proof. intros Hp. apply Hparams. apply nth_In. exact Hp. Qed.

  Lemma I_out r l : ~ In r (ranks G) -> nsendsI r l = [] /\ nsrcsI r l = [].
  Proof. intros Hr. unfold nsendsI, nsrcsI. destruct (inr G r) eqn:E; [apply inr_ranks in E; contradiction|auto]. Qed.

  Lemma I_tag l1 l2 : (l1 < length params)%nat -> (l2 < length params)%nat -> ntagI l1 = ntagI l2 -> l1 = l2.
  Proof.
    intros H1 H2 E. unfold ntagI, ntag in E. assert (E' : plev (nth l1 params dprm) = plev (nth l2 params dprm)) by lia.
    rewrite <- !(map_nth plev) in E'. apply (proj1 (NoDup_nth (map plev params) (plev dprm)) Hlevs); rewrite ?map_length; assumption.
  Qed.

  Lemma I_dst r l : (l < length params)%nat -> NoDup (map fst (nsendsI r l)).
  Proof.
    intros Hl. unfold nsendsI. destruct (inr G r) eqn:E; [|constructor]. apply inr_spec in E. destruct (nth_params l Hl) as [A [B C]]. cbv zeta.
    apply lsends_dst; assumption.
  Qed.

  Lemma I_src r l : (l < length params)%nat -> NoDup (nsrcsI r l).
  Proof.
    intros Hl. unfold nsrcsI. destruct (inr G r) eqn:E; [|constructor]. apply inr_spec in E. destruct (nth_params l Hl) as [A [B C]]. cbv zeta.
    apply (senders_nodup G _ _ R payf0); assumption.
  Qed.

  Lemma I_src0 r l q : (l < length params)%nat -> In q (nsrcsI r l) -> 0 <= q.
  Proof.
    intros Hl. unfold nsrcsI. destruct (inr G r) eqn:E; [|intros []]. apply inr_spec in E. destruct (nth_params l Hl) as [A [B C]]. cbv zeta.
    intros Hq. apply (senders_range G _ _ R payf0 A B HG C r q E Hq).
  Qed.

  Lemma I_match1 q l d m : (l < length params)%nat -> In (d, m) (nsendsI q l) -> In q (nsrcsI d l) /\ m = nwireI l q d.
  Proof.
    intros Hl. unfold nsendsI, nsrcsI, nwireI. destruct (inr G q) eqn:E; [|intros []]. apply inr_spec in E. destruct (nth_params l Hl) as [A [B C]]. cbv zeta.
    intros Hin. destruct (lsends_match1 G _ _ R payf0 _ _ A B HG C q d m E Hin) as [Hd [Hs Hm]].
    apply inr_spec in Hd. rewrite Hd. auto.
  Qed.

  Lemma I_match2 r l q : (l < length params)%nat -> In q (nsrcsI r l) -> In (r, nwireI l q r) (nsendsI q l).
  Proof.
    intros Hl. unfold nsendsI, nsrcsI, nwireI. destruct (inr G r) eqn:E; [|intros []]. apply inr_spec in E. destruct (nth_params l Hl) as [A [B C]]. cbv zeta.
    intros Hq. pose proof (senders_range G _ _ R payf0 A B HG C r q E Hq) as Hqr. apply inr_spec in Hqr. rewrite Hqr.
    apply lsends_match2; assumption.
  Qed.

  (* the script of a rank is the history of the round-semantics theorem *)
  Definition ordersOf (ord : nat -> list Z) (lev : Z) : list Z := ord (posof (map plev params) lev).

  Lemma ordersOf_nth ord p : (p < length params)%nat -> ordersOf ord (plev (nth p params dprm)) = ord p.
  Proof.
    intros Hp. unfold ordersOf. rewrite <- (map_nth plev). rewrite posof_nth; [reflexivity|exact Hlevs|rewrite map_length; exact Hp].
  Qed.

  Lemma script_replies r ord : 0 <= r < G ->
    map (reply_of nwireI r) (script (length params) nsendsI nnamedI r ord) =
    flat_map (fun x => nlvl_replies G (pL x) (pD x) R payf0 (ph x) (plev x) r (ordersOf ord (plev x))) params.
  Proof.
    intros Hr. unfold script. rewrite map_flat_map. rewrite (flat_map_nth _ dprm params). apply flat_map_ext_in. intros p Hp. apply in_seq in Hp.
    rewrite ordersOf_nth by lia. unfold lvl_items, nlvl_replies. rewrite map_app, replies_sends, replies_recvs.
    unfold nsendsI. apply inr_spec in Hr. rewrite Hr. cbv zeta. unfold lsends. rewrite map_length. reflexivity.
  Qed.

  Lemma script_acts r ord : 0 <= r < G -> (forall p, (p < length params)%nat -> Permutation (ord p) (nsrcsI r p)) ->
    map (act_of ntagI) (script (length params) nsendsI nnamedI r ord) =
    flat_map (fun x => nlvl_acts G (pL x) (pD x) R payf0 (ph x) (plev x) r) params.
  Proof.
    intros Hr Hv. unfold script. rewrite map_flat_map. rewrite (flat_map_nth _ dprm params). apply flat_map_ext_in. intros p Hp. apply in_seq in Hp.
    destruct (nth_params p ltac:(lia)) as [A [B C]]. cbv zeta in A, B, C.
    unfold lvl_items, nlvl_acts. rewrite map_app, acts_sends, (acts_recvs_wild ntagI nnamedI r p (fun _ => eq_refl)).
    pose proof (Hv p ltac:(lia)) as Hperm. apply Permutation_length in Hperm. rewrite Hperm.
    unfold nsendsI, nsrcsI. pose proof Hr as Hr'. apply inr_spec in Hr'. rewrite Hr'. cbv zeta.
    rewrite (senders_length G _ _ R payf0 A B HG C (fun _ t => t) (hid_inv G _) r Hr). f_equal.
    unfold lsends. rewrite map_map. apply map_ext_in. intros [[d t] m] Hin. cbn [fst snd].
    apply nsends_In in Hin. destruct Hin as [j [_ [_ [_ E]]]]. injection E as _ -> _. reflexivity.
  Qed.

  (* a closed bound for nary_steps: a rank has at most D sends and 2 D receives at a level of width D *)
  Lemma nary_steps_bound : (nary_steps <= Z.to_nat G * list_sum (map (fun x => 3 * Z.to_nat (pD x)) params))%nat.
  Proof.
    unfold nary_steps. rewrite (map_nth_seq (fun x => (3 * Z.to_nat (pD x))%nat) dprm params).
    rewrite <- (ranks_length G). apply total_len_bound. intros r l Hr Hl. apply in_ranks in Hr.
    destruct (nth_params l Hl) as [A [B C]]. cbv zeta in A, B, C. unfold nsendsI, nsrcsI. pose proof Hr as Hr'. apply inr_spec in Hr'. rewrite Hr'. cbv zeta.
    set (x := nth l params dprm) in *.
    assert (H1 : (length (lsends G (pL x) (pD x) R payf0 (ph x) (plev x) r) <= Z.to_nat (pD x))%nat).
    { unfold lsends. rewrite map_length. unfold nsends. rewrite <- (ranks_length (pD x)). apply flat_map_length_le1.
      intros j. destruct (j =? _); [cbn; lia|]. cbv zeta. destruct (_ <? 0); cbn; lia. }
    rewrite (senders_length G _ _ R payf0 A B HG C (fun _ t => t) (hid_inv G _) r Hr).
    pose proof (nrecvs_ge G _ _ R payf0 A B HG C (fun _ t => t) (hid_inv G _) r Hr) as [_ H2]. lia.
  Qed.
End NarySystem.

Lemma nary_ls_levels depth ntop nint nbot : NoDup (map fst (nary_ls depth ntop nint nbot)).
Proof.
  unfold nary_ls, nary_dt. rewrite map_rev, map_map. cbn [fst]. rewrite map_id. apply NoDup_rev. apply ranks_NoDup.
Qed.

Section NaryEverySchedule.
  Variable G : Z.
  Variable R : Z -> list Z.
  Variables ntop nint nbot : Z.
  Hypothesis HG : 0 < G <= BIG.
  Hypothesis HG1 : G <> 1.
  Hypothesis HR : forall f, 0 <= f < G -> ssorted (fun x => x) (R f) /\ forall t, In t (R f) -> 0 <= t < G.
  Hypothesis Ht : 2 <= ntop.
  Hypothesis Hi : 2 <= nint.
  Hypothesis Hb : 2 <= nbot.
  Hypothesis HbB : nbot <= BIG.
  Hypothesis Hbt : nbot * ntop <= BIG.
  Hypothesis HGn : G * nint <= BIG.
  Variable sz0 : Z.

  (* the level parameters of a call: from the deepest level (part length 1) to the top *)
  Definition nary_params (depth : Z) : list prm := lparams G 1 (nary_ls depth ntop nint nbot) h0.

  Theorem nary_every_schedule :
    exists depth prod, nary_depth 64 G nbot ntop nint = Some (depth, prod) /\
    forall n s, run_a n (nary_sys G R ntop nint nbot sz0) s ->
      ~ stuck s /\
      (n <= nary_steps G R (nary_params depth))%nat /\
      (final s <-> n = nary_steps G R (nary_params depth)) /\
      (final s -> (forall r, 0 <= r < G -> pr s r = Ret (result (transpose G R r) [])) /\ (forall a b t, ch s a b t = [])).
  Proof.
    destruct (nary_depth_spec G ntop nint nbot HG Ht Hi Hb HbB Hbt HGn) as [depth [prod [Hdep [Hd [Hprod [Hcov _]]]]]].
    destruct (nary_core_round_semantics_full G R ntop nint nbot HG HG1 HR Ht Hi Hb HbB Hbt HGn sz0) as [depth' [prod' [Hdep' [_ Hround]]]].
    rewrite Hdep in Hdep'. injection Hdep' as <- <-.
    exists depth, prod. split; [exact Hdep|].
    set (ls := nary_ls depth ntop nint nbot) in *. set (params := nary_params depth).
    assert (Hpl : prodl (map snd ls) = prod) by (unfold ls, nary_ls; rewrite map_rev, prodl_rev; symmetry; exact Hprod).
    assert (Hparams : forall x, In x params -> 0 < pL x /\ 2 <= pD x /\ pD x * pL x <= BIG).
    { intros x Hx. apply (lparams_ok G R ls 1 h0); [|lia|rewrite Hpl; lia|exact Hx].
      intros lev D Hin. apply (nary_ls_widths depth ntop nint nbot Ht Hi Hb ltac:(lia) lev D Hin). }
    assert (Hlevs : NoDup (map plev params)) by (unfold params, nary_params; rewrite lparams_lev; apply nary_ls_levels).
    assert (Hok : forall me o, 0 <= me < G -> (forall p, (p < length params)%nat -> Permutation (o p) (nsrcsI G params me p)) ->
                  orders_ok G me (ordersOf params o) 1 ls).
    { intros me o Hme Ho. apply (orders_ok_params G me (ordersOf params o) ls 1 h0). fold (nary_params depth). fold params.
      intros x Hx. destruct (In_nth params x dprm Hx) as [p [Hp <-]]. rewrite (ordersOf_nth params Hlevs o p Hp).
      specialize (Ho p Hp). unfold nsrcsI in Ho. apply inr_spec in Hme. rewrite Hme in Ho. exact Ho. }
    assert (HroundI : forall r ord, valid (length params) (nsrcsI G params) r ord ->
              feed (map (reply_of (nwireI G R params) r) (script (length params) (nsendsI G R params) nnamedI r ord)) (nary_prog G R ntop nint nbot sz0 r) =
              (map (act_of (ntagI params)) (script (length params) (nsendsI G R params) nnamedI r ord), Some (nary_out G R r))).
    { intros r ord Hv. unfold nary_prog, nary_out. destruct (inr G r) eqn:E.
      - apply inr_spec in E. rewrite feed_run, (script_replies G R params Hlevs r ord E), (script_acts G R params HG Hparams r ord E Hv).
        unfold params, nary_params. rewrite <- all_replies_params, <- all_acts_params. fold ls.
        pose (orders := fun me' : Z => ordersOf params (if me' =? r then ord else nsrcsI G params me')).
        assert (Ho : forall me, 0 <= me < G -> orders_ok G me (orders me) 1 ls).
        { intros me Hme. unfold orders. apply Hok; [exact Hme|]. intros p Hp. destruct (Z.eqb_spec me r) as [->|_]; [apply Hv; exact Hp|apply Permutation_refl]. }
        pose proof (Hround orders Ho r E) as H. unfold orders in H at 1. rewrite Z.eqb_refl in H. exact H.
      - assert (Hs : script (length params) (nsendsI G R params) nnamedI r ord = []).
        { apply (script_out (length params) (nsendsI G R params) (nsrcsI G params) nnamedI (ranks G) (I_out G R params) r ord); [|exact Hv].
          intros Hin. apply inr_ranks in Hin. congruence. }
        rewrite Hs. reflexivity. }
    intros n s Hrun.
    pose proof (all_schedules (length params) (ntagI params) (nsendsI G R params) (nsrcsI G params) (nwireI G R params) nnamedI
                  (nary_prog G R ntop nint nbot sz0) (nary_out G R) (ranks G) (ranks_NoDup G) (I_out G R params) (compat_of_injective _ _ _ _ (I_tag R 0 params Hlevs))
                  (I_dst G R params HG Hparams) (I_src G R params Hparams) (I_src0 G R params HG Hparams)
                  (I_match1 G R params HG Hparams) (I_match2 G R params HG Hparams) HroundI n s Hrun) as [A [B [C E]]].
    split; [exact A|]. split; [exact B|]. split; [exact C|]. intros Hf. destruct (E Hf) as [E1 E2]. split; [|exact E2].
    intros r Hr. rewrite E1. unfold nary_out. apply inr_spec in Hr. rewrite Hr. reflexivity.
  Qed.

  (* the number of steps in closed form: at most 3 * (sum of the widths of the levels) per rank *)
  Theorem nary_steps_le depth prod : nary_depth 64 G nbot ntop nint = Some (depth, prod) ->
    (nary_steps G R (nary_params depth) <= Z.to_nat G * list_sum (map (fun D => 3 * Z.to_nat D) (map snd (nary_ls depth ntop nint nbot))))%nat.
  Proof.
    intros Hdep0. destruct (nary_depth_spec G ntop nint nbot HG Ht Hi Hb HbB Hbt HGn) as [depth' [prod' [Hdep [Hd [Hprod [Hcov _]]]]]].
    rewrite Hdep0 in Hdep. injection Hdep as <- <-.
    assert (Hpl : prodl (map snd (nary_ls depth ntop nint nbot)) = prod) by (unfold nary_ls; rewrite map_rev, prodl_rev; symmetry; exact Hprod).
    assert (Hparams : forall x, In x (nary_params depth) -> 0 < pL x /\ 2 <= pD x /\ pD x * pL x <= BIG).
    { intros x Hx. apply (lparams_ok G R (nary_ls depth ntop nint nbot) 1 h0); [|lia|rewrite Hpl; lia|exact Hx].
      intros lev D Hin. apply (nary_ls_widths depth ntop nint nbot Ht Hi Hb ltac:(lia) lev D Hin). }
    pose proof (nary_steps_bound G R (nary_params depth) HG Hparams) as H.
    rewrite <- (lparams_D G (nary_ls depth ntop nint nbot) 1 h0), map_map. exact H.
  Qed.
End NaryEverySchedule.
