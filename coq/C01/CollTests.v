(* C01 - executable tests of the every-schedule theorems for the algorithms that start with collectives (C01/CollSched.v,
   CensusSched.v, RangesSched.v) on small instances (P <= 4): a pseudo-random scheduler over SemColl.enabled_c / exec_step_c is
   run by vm_compute for several seeds; every run must stop (no enabled choice) in a final state after exactly the predicted number
   of steps, with the transposed lists (sorted) or a permutation of them (unsorted) as results and no message left in the channels.
   These are the tests that were made BEFORE the proofs; they also show that the hypotheses are satisfiable and that the step counts
   are the real ones. *)
From Coq Require Import ZArith Lia List Bool.
From ScV Require Import Base.CInt MPI.Prog MPI.Sem MPI.SemAny MPI.SemColl Gen.Consts Gen.NotifyC01 C01.NotifyProgs C01.NotifyProgProofs
     C01.CollSched C01.CensusSched C01.RangesSched C01.SchedTests.
Import ListNotations.
Local Open Scope Z_scope.

(* result: the schedule, the last state, true iff the run stopped because no choice was enabled *)
Fixpoint rnd_run_c (P : Z) (fuel : nat) (seed : Z) (s : gs) (acc : list cchoice) : list cchoice * gs * bool :=
  match fuel with
  | O => (rev acc, s, false)
  | S f => match enabled_c P s with
           | [] => (rev acc, s, true)
           | en => let c := nth (Z.to_nat ((seed / 65536) mod Z.of_nat (length en))) en CC in
                   match exec_step_c P coll_reply s c with
                   | Some s' => rnd_run_c P f (lcg seed) s' (c :: acc)
                   | None => (rev acc, s, false)
                   end
           end
  end.

Definition all_final (s : gs) (rs : list Z) : bool := forallb (fun r => match pr s r with Ret _ => true | _ => false end) rs.
Definition tags_all : list Z :=
  [c_SC_TAG_NOTIFY_CENSUS; c_SC_TAG_NOTIFY_RANGES; c_SC_TAG_NOTIFY_NBX; c_SC_TAG_NOTIFY_SUPER_TRUE; c_SC_TAG_NOTIFY_SUPER_EXTRA; c_SC_TAG_NOTIFY_WRAPPER].

(* sorted output / output fixed: the results are the expected ones *)
Definition good_run_c (P : Z) (sys : gs) (steps : nat) (expected : list (option payload)) (seed : Z) : bool :=
  let '(sch, s, stopped) := rnd_run_c P 2000 seed sys [] in
  stopped && all_final s (ranks P) && (length sch =? steps)%nat && eqo (outs s (ranks P)) expected
          && match leftover s (ranks P) tags_all with [] => true | _ => false end.

(* unsorted output: every result is [n] ++ a permutation of the transposed list (same length, same members) *)
Definition perm_of (o : payload) (t : list Z) : bool :=
  match o with
  | n :: l => (n =? Z.of_nat (length t)) && (length l =? length t)%nat && forallb (fun x => memz x l) t && forallb (fun x => memz x t) l
  | [] => false
  end.
Definition good_run_u (P : Z) (R : Z -> list Z) (sys : gs) (steps : nat) (seed : Z) : bool :=
  let '(sch, s, stopped) := rnd_run_c P 2000 seed sys [] in
  stopped && all_final s (ranks P) && (length sch =? steps)%nat
          && forallb (fun r => match pr s r with Ret o => perm_of o (transpose P R r) | _ => false end) (ranks P)
          && match leftover s (ranks P) tags_all with [] => true | _ => false end.

Definition R4 (f : Z) : list Z := if f =? 0 then [1; 2; 3] else if f =? 1 then [0; 1; 3] else if f =? 2 then [1] else [1; 2].
Definition R3 (f : Z) : list Z := if f =? 0 then [0; 1; 2] else if f =? 1 then [1] else [0; 1].
Definition R2 (f : Z) : list Z := if f =? 0 then [1] else [0; 1].
Definition R1 (f : Z) : list Z := [0].
Definition nopay : Z -> Z -> payload := fun _ _ => [].
Definition pay7 : Z -> Z -> payload := fun f t => [7 * f + t; f].

(* ---- allgather, pex: the collectives fire once each ------------------------------------------------------------------------------ *)
Example allgather_random_schedules :
  forallb (good_run_c 4 (allgather_sys 4 R4) 2 (exp1 4 R4)) (ranks 4) = true /\
  forallb (good_run_c 3 (allgather_sys 3 R3) 2 (exp1 3 R3)) (ranks 4) = true /\
  forallb (good_run_c 1 (allgather_sys 1 R1) 2 (exp1 1 R1)) (ranks 2) = true.
Proof. vm_compute. repeat split; reflexivity. Qed.

Example pex_random_schedules :
  forallb (good_run_c 4 (pex_sys 4 R4 0) 1 (exp1 4 R4)) (ranks 4) = true /\
  forallb (good_run_c 2 (pex_sys 2 R2 0) 1 (exp1 2 R2)) (ranks 4) = true.
Proof. vm_compute. repeat split; reflexivity. Qed.

(* ---- pcx (K_RSB) and rsx (K_RMA) ------------------------------------------------------------------------------------------------------ *)
Definition expp P (R : Z -> list Z) (pay : Z -> Z -> payload) : list (option payload) :=
  map (fun r => Some (result (transpose P R r) (map (fun q => pay q r) (transpose P R r)))) (ranks P).

Example census_random_schedules :
  forallb (good_run_c 4 (census_sys K_RSB 4 R4 false nopay true) (census_steps 4 R4 false nopay) (exp1 4 R4)) (ranks 16) = true /\
  forallb (good_run_c 4 (census_sys K_RMA 4 R4 false nopay true) (census_steps 4 R4 false nopay) (exp1 4 R4)) (ranks 16) = true /\
  forallb (good_run_c 3 (census_sys K_RSB 3 R3 false nopay true) (census_steps 3 R3 false nopay) (exp1 3 R3)) (ranks 16) = true /\
  forallb (good_run_c 1 (census_sys K_RMA 1 R1 false nopay true) (census_steps 1 R1 false nopay) (exp1 1 R1)) (ranks 4) = true /\
  forallb (good_run_c 4 (census_sys K_RSB 4 R4 true pay7 true) (census_steps 4 R4 true pay7) (expp 4 R4 pay7)) (ranks 16) = true.
Proof. vm_compute. repeat split; reflexivity. Qed.

Example census_unsorted_random_schedules :
  forallb (good_run_u 4 R4 (census_sys K_RSB 4 R4 false nopay false) (census_steps 4 R4 false nopay)) (ranks 16) = true /\
  forallb (good_run_u 3 R3 (census_sys K_RMA 3 R3 false nopay false) (census_steps 3 R3 false nopay)) (ranks 16) = true.
Proof. vm_compute. repeat split; reflexivity. Qed.

(* unsorted output really depends on the schedule: rank 1 of R4 is listed by 0, 1, 2, 3; two seeds, two arrival orders *)
Example census_unsorted_orders_differ :
  let res seed := let '(_, s, _) := rnd_run_c 4 2000 seed (census_sys K_RSB 4 R4 false nopay false) [] in
                  match pr s 1 with Ret o => o | _ => [] end in
  (res 0, res 1, res 2, res 3) = ([4; 3; 0; 2; 1], [4; 1; 2; 0; 3], [4; 1; 0; 2; 3], [4; 0; 2; 3; 1]).
Proof. vm_compute. reflexivity. Qed.

Example census_step_counts :
  (census_steps 4 R4 false nopay, census_steps 3 R3 false nopay, census_steps 1 R1 false nopay) = (19, 13, 3)%nat.
Proof. vm_compute. reflexivity. Qed.

(* ---- ranges: Allreduce (MAX), Allgather, then named receives; nr = budget of ranges (1: one range, heavy over-approximation) --------- *)
Definition pay4 : Z -> Z -> payload := fun f t => [7 * f + t; f; 0; 1].
Example ranges_random_schedules :
  forallb (good_run_c 4 (ranges_sys 4 R4 false nopay 0 1) (ranges_steps 4 R4 false nopay 0 1) (exp1 4 R4)) (ranks 12) = true /\
  forallb (good_run_c 4 (ranges_sys 4 R4 false nopay 0 2) (ranges_steps 4 R4 false nopay 0 2) (exp1 4 R4)) (ranks 12) = true /\
  forallb (good_run_c 3 (ranges_sys 3 R3 false nopay 0 3) (ranges_steps 3 R3 false nopay 0 3) (exp1 3 R3)) (ranks 12) = true /\
  forallb (good_run_c 1 (ranges_sys 1 R1 false nopay 0 1) (ranges_steps 1 R1 false nopay 0 1) (exp1 1 R1)) (ranks 2) = true /\
  forallb (good_run_c 4 (ranges_sys 4 R4 true pay4 4 2) (ranges_steps 4 R4 true pay4 4 2) (expp 4 R4 pay4)) (ranks 12) = true.
Proof. vm_compute. repeat split; reflexivity. Qed.

Example ranges_step_counts :
  (ranges_steps 4 R4 false nopay 0 1, ranges_steps 4 R4 false nopay 0 2, ranges_steps 3 R3 false nopay 0 3, ranges_steps 1 R1 false nopay 0 1) = (20, 18, 10, 2)%nat.
Proof. vm_compute. reflexivity. Qed.
