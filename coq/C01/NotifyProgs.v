(* C01/C02 - per-rank programs (MPI/Prog.v) of the notify algorithms, following sc_notify.c call by call.
   They are extracted and co-simulated against the per-rank traces of the real code on the simulated MPI
   (calls, peers, tags, message contents, final senders / payload), see checks/notify_common.py `cosim_tie`.

   Conventions.  A rank's input is its ascending receiver list R, optionally one payload item (sz bytes) per
   receiver.  `eager = true`: the items travel inside the algorithm (sc_notify_payload: elem_size <=
   eager_threshold), otherwise in the second point-to-point phase of the dispatcher.  The result of a program is
       [number of senders] ++ senders ++ payload bytes in the order of the senders.
   Int messages are lists of ints, byte messages lists of bytes.  Tags are the generated constants (Gen/Consts.v).
   Collective kinds: 1 Allgather, 2 Allgatherv, 3 Alltoall, 4 Reduce_scatter_block (sum), 5 the RMA census of
   rsx (Win_create, fence, Accumulate (1, target) per receiver, fence, Win_free; the reply is the counter read
   back from the window).  Padding bytes of payload slots inside int records are zero in the model; the trace
   conversion masks them (the C code leaves them uninitialised in the n-ary records). *)
From Coq Require Import ZArith List Bool.
From ScV Require Import Base.CInt MPI.Prog Gen.Consts Gen.NotifyC01 C01.MergeModel.
From ScV Require C15.RangesModel.
Import ListNotations.
Local Open Scope Z_scope.

Definition K_ALLGATHER : Z := 1.
Definition K_ALLGATHERV : Z := 2.
Definition K_ALLTOALL : Z := 3.
Definition K_RSB : Z := 4.
Definition K_RMA : Z := 5.

Definition ranks (P : Z) : list Z := map Z.of_nat (seq 0 (Z.to_nat P)).
Definition memz (x : Z) (l : list Z) : bool := existsb (fun y => y =? x) l.

(* ---- payload bytes inside int slots (little endian, 32-bit two's complement ints) ---------------------- *)
Definition le_int (b : list Z) : Z :=
  s32 (nth 0 b 0 + 256 * nth 1 b 0 + 65536 * nth 2 b 0 + 16777216 * nth 3 b 0).
Definition int_bytes (x : Z) : list Z :=
  let u := x mod M32 in [u mod 256; (u / 256) mod 256; (u / 65536) mod 256; (u / 16777216) mod 256].
Fixpoint pack_ints (n : nat) (bytes : list Z) : list Z :=
  match n with O => [] | S k => le_int (firstn 4 bytes) :: pack_ints k (skipn 4 bytes) end.
Definition unpack_ints (sz : Z) (ints : list Z) : list Z := firstn (Z.to_nat sz) (flat_map int_bytes ints).

(* ---- the result of a call --------------------------------------------------------------------------------- *)
Definition result (senders : list Z) (pays : list payload) : payload :=
  Z.of_nat (length senders) :: senders ++ concat pays.

Fixpoint zip {A B} (a : list A) (b : list B) : list (A * B) :=
  match a, b with x :: a', y :: b' => (x, y) :: zip a' b' | _, _ => [] end.
Definition nth_pay (pays : list payload) (i : nat) : payload := nth i pays [].

(* n wildcard receives on one tag; the continuation gets (source, data) in the order of arrival *)
Fixpoint recv_any_n (n : nat) (tag : Z) (acc : list (Z * payload)) (k : list (Z * payload) -> prog) : prog :=
  match n with
  | O => k (rev acc)
  | S m => recv_any tag (fun src data => recv_any_n m tag ((src, data) :: acc) k)
  end.

(* sc_array_sort with sc_int_compare on records that start with the sender rank *)
Fixpoint insert_by_src (x : Z * payload) (l : list (Z * payload)) : list (Z * payload) :=
  match l with
  | [] => [x]
  | y :: r => if fst x <=? fst y then x :: l else y :: insert_by_src x r
  end.
Definition sort_by_src (l : list (Z * payload)) : list (Z * payload) := fold_right insert_by_src [] l.

(* ---- dispatcher sc_notify_payload: second phase for items above the eager threshold ----------------------- *)
Definition second_phase (R : list Z) (pays : list payload) (senders : list Z) : prog :=
  phase (map (fun rp => (fst rp, c_SC_TAG_NOTIFY_PAYLOAD, snd rp)) (zip R pays))
        (map (fun s => (s, c_SC_TAG_NOTIFY_PAYLOAD)) senders)
        (fun got => Ret (result senders got)).

(* input of an algorithm core: Some pays when the items travel with the algorithm *)
Definition finish (R : list Z) (pays : option (list payload)) (eager : bool) (senders : list Z) (got : list payload) : prog :=
  match pays with
  | None => Ret (result senders [])
  | Some ps => if eager then Ret (result senders got) else second_phase R ps senders
  end.
Definition epay (pays : option (list payload)) (eager : bool) : option (list payload) := if eager then pays else None.

(* sc_notify_payload_wrapper: the payload exchange after an old-style notify function *)
Definition wrapper_payload (R : list Z) (ep : option (list payload)) (senders : list Z) (k : list Z -> list payload -> prog) : prog :=
  match ep with
  | None => k senders []
  | Some ps =>
    phase (map (fun rp => (fst rp, c_SC_TAG_NOTIFY_WRAPPER, snd rp)) (zip R ps))
          (map (fun s => (s, c_SC_TAG_NOTIFY_WRAPPER)) senders)
          (fun got => k senders got)
  end.

(* ---- SC_NOTIFY_ALLGATHER: sc_notify_allgather ---------------------------------------------------------------- *)
Fixpoint find_senders (me : Z) (counts allr : list Z) (i : Z) : list Z :=
  match counts with
  | [] => []
  | c :: cs =>
    let blk := firstn (Z.to_nat c) allr in
    (if memz me blk then [i] else []) ++ find_senders me cs (skipn (Z.to_nat c) allr) (i + 1)
  end.

Definition allgather_core (me : Z) (R : list Z) (ep : option (list payload)) (k : list Z -> list payload -> prog) : prog :=
  Do (Coll K_ALLGATHER (-1) [Z.of_nat (length R)]) (fun counts =>
  Do (Coll K_ALLGATHERV (-1) R) (fun allr =>
    wrapper_payload R ep (find_senders me counts allr 0) k)).

(* ---- SC_NOTIFY_PEX: sc_notify_payload_pex --------------------------------------------------------------------- *)
Fixpoint index_of (x : Z) (l : list Z) (i : nat) : option nat :=
  match l with [] => None | y :: r => if y =? x then Some i else index_of x r (S i) end.

Definition pex_slot (R : list Z) (ep : option (list payload)) (npay : nat) (i : Z) : list Z :=
  match index_of i R 0 with
  | None => repeat 0 (S npay)
  | Some idx => 1 :: match ep with None => [] | Some ps => pack_ints npay (nth_pay ps idx) end
  end.

Fixpoint pex_scan (stride : nat) (sz : Z) (haspay : bool) (all : list Z) (n : nat) (i : Z) : list (Z * payload) :=
  match n with
  | O => []
  | S m =>
    let e := firstn stride all in
    (if hd 0 e =? 0 then [] else [(i, if haspay then unpack_ints sz (tl e) else [])])
      ++ pex_scan stride sz haspay (skipn stride all) m (i + 1)
  end.

Definition pex_core (P : Z) (R : list Z) (ep : option (list payload)) (sz : Z) (k : list Z -> list payload -> prog) : prog :=
  let npay := match ep with None => O | Some _ => Z.to_nat (npay_pex 1 sz) end in
  Do (Coll K_ALLTOALL (-1) (flat_map (pex_slot R ep npay) (ranks P))) (fun all =>
    let found := pex_scan (S npay) sz (match ep with None => false | Some _ => true end) all (Z.to_nat P) 0 in
    k (map fst found) (map snd found)).

(* ---- SC_NOTIFY_PCX / RSX: sc_notify_payload_census ------------------------------------------------------------- *)
Definition census_core (kind P : Z) (R : list Z) (ep : option (list payload)) (sorted : bool)
           (k : list Z -> list payload -> prog) : prog :=
  Do (Coll kind (-1) (map (fun i => if memz i R then 1 else 0) (ranks P))) (fun rep =>
    let n := Z.to_nat (hd 0 rep) in
    do_sends (map (fun rp => (fst rp, c_SC_TAG_NOTIFY_CENSUS, snd rp))
                  (zip R (match ep with None => map (fun _ => []) R | Some ps => ps end)))
      (recv_any_n n c_SC_TAG_NOTIFY_CENSUS [] (fun got =>
         let got' := if sorted then sort_by_src got else got in
         k (map fst got') (match ep with None => [] | Some _ => map snd got' end)))).

(* ---- record arrays: sc_notify_init_input / sc_notify_reset_output --------------------------------------------- *)
Definition init_input (me : Z) (R : list Z) (ep : option (list payload)) (npay : nat) : list Z :=
  flat_map (fun ip => fst ip :: 1 :: me :: match ep with None => [] | Some ps => pack_ints npay (nth_pay ps (snd ip)) end)
           (zip R (seq 0 (length R))).

(* the array holds at most one record, for this rank: (me, n, (sender, npay ints) * n) *)
Fixpoint out_items (n : nat) (multi : nat) (l : list Z) : list (Z * list Z) :=
  match n with O => [] | S m => (hd 0 l, firstn (multi - 1) (tl l)) :: out_items m multi (skipn multi l) end.
Definition reset_output (arr : list Z) (npay : nat) (sz : Z) (haspay : bool) : list Z * list payload :=
  match arr with
  | _ :: n :: rest =>
    let items := out_items (Z.to_nat n) (S npay) rest in
    (map fst items, if haspay then map (fun it => unpack_ints sz (snd it)) items else [])
  | _ => ([], [])
  end.

(* ---- SC_NOTIFY_BINARY: sc_notify / sc_notify_recursive ---------------------------------------------------------- *)
(* records that leave (torank % length != me % length) are copied to the send buffer and marked -1 in the array *)
Fixpoint split_records (fuel : nat) (length me : Z) (arr : list Z) : list Z * list Z :=
  match fuel with
  | O => ([], arr)
  | S f =>
    match arr with
    | t :: n :: _ =>
      let len := Z.to_nat (2 + n) in
      let rec := firstn len arr in
      let '(sendbuf, kept) := split_records f length me (skipn len arr) in
      if negb (cmod t length =? cmod me length) then (rec ++ sendbuf, (-1) :: tl rec ++ kept)
      else (sendbuf, rec ++ kept)
    | _ => ([], arr)
    end
  end.

Definition binary_level (P me length : Z) (arr : list Z) (k : list Z -> prog) : prog :=
  let '(tag, length2) := binary_tag c_SC_TAG_NOTIFY_RECURSIVE length in
  let start := me - cmod me length in
  let half := if me <? start + length2 then 0 else 1 in
  let '(peer, peer2) := binary_peers me length2 P length half in
  let '(sendbuf, marked) := if 0 <=? peer then split_records (List.length arr) length me arr else ([], arr) in
  let after_send (p : prog) : prog := if 0 <=? peer then send peer tag sendbuf p else p in
  after_send
    (if start <=? peer then
       recv_any tag (fun src data =>
         if 0 <=? peer2 then
           let more := notify_merge 0 marked data in
           recv (if src =? peer2 then peer else peer2) tag (fun data2 => k (notify_merge 0 more data2))
         else k (notify_merge 0 marked data))
     else k (notify_merge 0 marked [])).

(* lengths 2, 4, ..., pow2length, from the deepest level of the recursion to the top *)
Fixpoint binary_levels (fuel : nat) (P me length top : Z) (arr : list Z) (k : list Z -> prog) : prog :=
  match fuel with
  | O => k arr
  | S f => if top <? length then k arr
           else binary_level P me length arr (fun arr' => binary_levels f P me (2 * length) top arr' k)
  end.

Definition binary_core (P me : Z) (R : list Z) (ep : option (list payload)) (k : list Z -> list payload -> prog) : prog :=
  binary_levels 32 P me 2 (binary_pow2length P) (init_input me R None 0) (fun arr =>
    wrapper_payload R ep (fst (reset_output arr 0 0 false)) k).

(* ---- SC_NOTIFY_NARY: sc_notify_payload_nary / sc_notify_recursive_nary ---------------------------------------- *)
(* records grouped by destination part: (torank % length) / lengthn *)
Fixpoint part_records (fuel : nat) (multi length lengthn : Z) (arr : list Z) : list (Z * list Z) :=
  match fuel with
  | O => []
  | S f =>
    match arr with
    | t :: n :: _ =>
      let len := Z.to_nat (2 + multi * n) in
      (nary_topart t length lengthn, firstn len arr) :: part_records f multi length lengthn (skipn len arr)
    | _ => []
    end
  end.
Definition part_buf (parts : list (Z * list Z)) (j : Z) : list Z :=
  flat_map (fun pr => if fst pr =? j then snd pr else []) parts.

Fixpoint set_nth {A} (l : list A) (j : nat) (v : A) : list A :=
  match l, j with
  | [], _ => []
  | _ :: r, O => v :: r
  | x :: r, S j' => x :: set_nth r j' v
  end.
Definition set_slot (bufs : list (list Z)) (j : Z) (v : list Z) : list (list Z) :=
  if j <? 0 then bufs else set_nth bufs (Z.to_nat j) v.

(* pairwise merge tree over the receive slots:
     for (power = 1; power < count; power *= 2) for (i = 0; i + power < count; i += 2 * power) merge slot i + power into slot i.
   After the pass with `power` only the slots at multiples of 2 * power are still alive; one pass merges the alive
   slots pairwise from the left and carries an unpaired last slot over - the same bracketing, written on the list
   of alive slots. *)
Fixpoint pairup (npay : Z) (l : list (list Z)) : list (list Z) :=
  match l with
  | x :: y :: r => notify_merge npay x y :: pairup npay r
  | _ => l
  end.
Fixpoint merge_tree (fuel : nat) (npay : Z) (l : list (list Z)) : list (list Z) :=
  match fuel with
  | O => l
  | S f => match l with _ :: _ :: _ => merge_tree f npay (pairup npay l) | _ => l end
  end.

Definition nary_level (P me npay level depth ntop nint nbot start length : Z) (arr : list Z) (k : list Z -> prog) : prog :=
  let tag := c_SC_TAG_NOTIFY_NARY + level in
  let divn := nary_divn level depth nbot ntop nint in
  let '(lengthn, mypart) := nary_part length divn me start in
  let nrecv := nary_nrecv mypart P me lengthn divn in
  let parts := part_records (List.length arr) (1 + npay) length lengthn arr in
  let sends := flat_map (fun j => if j =? mypart then [] else
                                  let peer := nary_peer me j mypart lengthn P length in
                                  if peer <? 0 then [] else [(peer, tag, part_buf parts j)]) (ranks divn) in
  do_sends sends
    (recv_any_n (Z.to_nat nrecv) tag [] (fun got =>
       let bufs0 := set_slot (repeat [] (Z.to_nat (nrecv + 1))) mypart (part_buf parts mypart) in
       let bufs := fold_left (fun b sd => set_slot b (nary_slot (fst sd) me mypart lengthn start length divn) (snd sd)) got bufs0 in
       k (nth 0 (merge_tree 32 npay bufs) []))).

(* the descent of the recursion: (level, start, length) from the top; communication happens on the way back *)
Fixpoint nary_descent (fuel : nat) (me level depth ntop nint nbot start length : Z) : list (Z * Z * Z) :=
  match fuel with
  | O => []
  | S f =>
    if 1 <? length then
      let divn := nary_divn level depth nbot ntop nint in
      let '(lengthn, mypart) := nary_part length divn me start in
      (level, start, length) :: nary_descent f me (level + 1) depth ntop nint nbot (start + mypart * lengthn) lengthn
    else []
  end.
Fixpoint nary_run (P me npay depth ntop nint nbot : Z) (lv : list (Z * Z * Z)) (arr : list Z) (k : list Z -> prog) : prog :=
  match lv with
  | [] => k arr
  | (level, start, length) :: rest => nary_level P me npay level depth ntop nint nbot start length arr (fun arr' => nary_run P me npay depth ntop nint nbot rest arr' k)
  end.

Definition nary_core (P me ntop nint nbot : Z) (R : list Z) (ep : option (list payload)) (sz : Z) (k : list Z -> list payload -> prog) : prog :=
  if P =? 1 then
    (* one process: the self notification, if any, is delivered without communication *)
    match R with [] => k [] [] | _ => k [0] (match ep with None => [] | Some ps => ps end) end
  else
    match nary_depth 64 P nbot ntop nint with
    | None => Ret []
    | Some (depth, prod) =>
      let npay := match ep with None => 0 | Some _ => npay_nary 1 sz end in
      let lv := rev (nary_descent 64 me 0 depth ntop nint nbot 0 prod) in
      nary_run P me npay depth ntop nint nbot lv (init_input me R ep (Z.to_nat npay)) (fun arr =>
        let '(senders, pays) := reset_output arr (Z.to_nat npay) sz (match ep with None => false | Some _ => true end) in
        k senders pays)
    end.

(* ---- SC_NOTIFY_NBX: sc_notify_payload_nbx ------------------------------------------------------------------------------
   Issend to every receiver, then the loop
     for (done = 0; !done;) { Iprobe (ANY); if (flag) Recv;  if (!barr) { Testall (sends); if (sent) { Ibarrier; barr = 1; } } else Test (barrier, &done); }
   Polls are actions whose reply is their outcome: the wildcard Recv stands for Iprobe (+ Recv on success), a reply
   whose source is negative means flag = 0; K_TESTALL / K_TEST reply [flag]; K_IBARRIER posts the barrier.
   The loop has no bound in the code; the model takes a fuel (the co-simulation passes the number of traced polls). *)
Definition K_TESTALL : Z := 6.
Definition K_IBARRIER : Z := 7.
Definition K_TEST : Z := 8.
Definition K_FUEL : Z := 9.          (* never a call of the code: the model's loop bound was reached *)

Fixpoint nbx_loop (fuel : nat) (tag : Z) (barr : bool) (acc : list (Z * payload)) (k : list (Z * payload) -> prog) : prog :=
  match fuel with
  | O => Do (Coll K_FUEL (-1) []) (fun _ => Ret [])
  | S f =>
    Do (Recv ANY tag) (fun r =>
      let acc' := if hd 0 r <? 0 then acc else (hd 0 r, tl r) :: acc in
      if barr then
        Do (Coll K_TEST (-1) []) (fun d => if hd 0 d =? 0 then nbx_loop f tag true acc' k else k (rev acc'))
      else
        Do (Coll K_TESTALL (-1) []) (fun s =>
          if hd 0 s =? 0 then nbx_loop f tag false acc' k
          else Do (Coll K_IBARRIER (-1) []) (fun _ => nbx_loop f tag true acc' k)))
  end.

Definition nbx_core (fuel : nat) (R : list Z) (ep : option (list payload)) (sorted : bool)
           (k : list Z -> list payload -> prog) : prog :=
  do_sends (map (fun rp => (fst rp, c_SC_TAG_NOTIFY_NBX, snd rp))
                (zip R (match ep with None => map (fun _ => []) R | Some ps => ps end)))
    (nbx_loop fuel c_SC_TAG_NOTIFY_NBX false [] (fun got =>
       let got' := if sorted then sort_by_src got else got in
       k (map fst got') (match ep with None => [] | Some _ => map snd got' end))).

(* ---- SC_NOTIFY_RANGES: sc_notify_payload_ranges = sc_ranges_adaptive + sc_ranges_decode + point-to-point ---------------------
   The rank ranges are the C15 model (C15/RangesModel.v: ranges_compute, first_last, peer_count, receivers, senders).
   procs[q] = position + 1 of q in the receiver list (q <> me); MPI_Allreduce (MAX) of (number of peers, number of ranges),
   MPI_Allgather of the first maxwin ranges of every rank, decode; then one message to every rank inside the own ranges
   (flag int = 1 and the item for a real receiver, flag 0 else) and one receive from every rank whose ranges contain me.
   The own rank, if listed, is inserted at its place.  Bytes behind a 0 flag are uninitialised in the code (0 here,
   masked in the trace conversion). *)
Definition K_ALLREDUCE_MAX : Z := 10.

Definition ranges_procs (P me : Z) (R : list Z) : list Z :=
  map (fun j => if j =? me then 0 else match index_of j R 0 with Some i => Z.of_nat i + 1 | None => 0 end) (ranks P).
Definition flat_pairs (l : list (Z * Z)) : list Z := flat_map (fun p => [fst p; snd p]) l.
Fixpoint unflat_pairs (n : nat) (l : list Z) : list (Z * Z) :=
  match n with O => [] | S k => (nth 0 l 0, nth 1 l 0) :: unflat_pairs k (skipn 2 l) end.
Fixpoint unflat_rows (P w : nat) (l : list Z) : list (list (Z * Z)) :=
  match P with O => [] | S k => unflat_pairs w (firstn (2 * w) l) :: unflat_rows k w (skipn (2 * w) l) end.

Definition ranges_msg (R : list Z) (ep : option (list payload)) (sz : Z) (q : Z) : payload :=
  match index_of q R 0 with
  | Some i => [1; 0; 0; 0] ++ match ep with Some ps => nth_pay ps i | None => [] end
  | None => [0; 0; 0; 0] ++ match ep with Some _ => repeat 0 (Z.to_nat sz) | None => [] end
  end.

Definition ranges_core (P me nranges : Z) (R : list Z) (ep : option (list payload)) (sz : Z)
           (k : list Z -> list payload -> prog) : prog :=
  let procs := ranges_procs P me R in
  let '(fp, lp) := RangesModel.first_last procs me in
  let '(nwin, rarr) := RangesModel.ranges_compute procs me fp lp nranges in
  Do (Coll K_ALLREDUCE_MAX (-1) [RangesModel.peer_count procs me; nwin]) (fun g =>
    let maxwin := nth 1 g 0 in
    Do (Coll K_ALLGATHER (-1) (flat_pairs (firstn (Z.to_nat maxwin) rarr))) (fun all =>
      let tbl := unflat_rows (Z.to_nat P) (Z.to_nat maxwin) all in
      let rcv := RangesModel.receivers tbl me in
      let snds := RangesModel.senders tbl me in
      phase (map (fun q => (q, c_SC_TAG_NOTIFY_RANGES, ranges_msg R ep sz q)) rcv)
            (map (fun q => (q, c_SC_TAG_NOTIFY_RANGES)) snds)
            (fun got =>
               let real := filter (fun qm : Z * payload => negb (le_int (firstn 4 (snd qm)) =? 0)) (zip snds got) in
               let others := map (fun qm : Z * payload => (fst qm, skipn 4 (snd qm))) real in
               let all := match index_of me R 0 with
                          | Some i => insert_by_src (me, match ep with Some ps => nth_pay ps i | None => [] end) others
                          | None => others
                          end in
               k (map fst all) (match ep with Some _ => map snd all | None => [] end)))).

(* ---- SC_NOTIFY_SUPERSET: sc_notify_payload_superset -----------------------------------------------------------------------------
   The callback compute_superset is a parameter: `extra` = the ranks it adds to the receivers, `supers` = the ranks it says
   will contact this rank.  Isend (TRUE tag, item) to every receiver, Isend (EXTRA tag, empty) to every extra receiver, then
     for (queue = |supers|; queue > 0;) { Iprobe (ANY, TRUE); if (flag) { Recv; queue--; continue; }
                                          Iprobe (ANY, EXTRA); if (flag) { Recv; queue--; } }
   Polls are wildcard receives whose reply has a negative source when flag = 0 (as for nbx). *)
Fixpoint super_loop (fuel : nat) (queue : Z) (acc : list (Z * payload)) (k : list (Z * payload) -> prog) : prog :=
  match fuel with
  | O => Do (Coll K_FUEL (-1) []) (fun _ => Ret [])
  | S f =>
    if queue <=? 0 then k (rev acc)
    else Do (Recv ANY c_SC_TAG_NOTIFY_SUPER_TRUE) (fun r =>
           if hd 0 r <? 0 then
             Do (Recv ANY c_SC_TAG_NOTIFY_SUPER_EXTRA) (fun e =>
               if hd 0 e <? 0 then super_loop f queue acc k else super_loop f (queue - 1) acc k)
           else super_loop f (queue - 1) ((hd 0 r, tl r) :: acc) k)
  end.

Definition super_core (fuel : nat) (R : list Z) (ep : option (list payload)) (extra supers : list Z) (sorted : bool)
           (k : list Z -> list payload -> prog) : prog :=
  do_sends (map (fun rp => (fst rp, c_SC_TAG_NOTIFY_SUPER_TRUE, snd rp))
                (zip R (match ep with None => map (fun _ => []) R | Some ps => ps end)))
    (do_sends (map (fun q => (q, c_SC_TAG_NOTIFY_SUPER_EXTRA, [])) extra)
      (super_loop fuel (Z.of_nat (length supers)) [] (fun got =>
         let got' := if sorted then sort_by_src got else got in
         k (map fst got') (match ep with None => [] | Some _ => map snd got' end)))).

(* ---- sc_notify_payloadv for PCX / RSX: sc_notify_payloadv_census ---------------------------------------------------------------
   Variable-size slices: lens = number of items addressed to every receiver, slices = their bytes (lens * msz bytes each).
   Census of (number of senders, total number of items) by Reduce_scatter_block over two ints per rank (rsx: accumulate),
   Isend of every slice, then as many wildcard receives as the census says; the item count of a message is its byte count
   divided by the item size; output offsets are the prefix sums in the final order (arrival order, or ascending senders).
   Result: [number of senders] ++ senders ++ offsets (one more than senders) ++ payload bytes. *)
Fixpoint prefix_sums (o : Z) (l : list Z) : list Z := match l with [] => [o] | x :: r => o :: prefix_sums (o + x) r end.
Definition resultv (senders offs : list Z) (pay : payload) : payload := Z.of_nat (length senders) :: senders ++ offs ++ pay.

Definition censusv_core (kind P : Z) (R lens : list Z) (slices : list payload) (msz : Z) (sorted : bool) : prog :=
  Do (Coll kind (-1) (flat_map (fun i => match index_of i R 0 with Some j => [1; nth j lens 0] | None => [0; 0] end) (ranks P))) (fun rep =>
    let n := Z.to_nat (hd 0 rep) in
    do_sends (map (fun rp => (fst rp, c_SC_TAG_NOTIFY_CENSUSV, snd rp)) (zip R slices))
      (recv_any_n n c_SC_TAG_NOTIFY_CENSUSV [] (fun got =>
         let got' := if sorted then sort_by_src got else got in
         Ret (resultv (map fst got')
                      (prefix_sums 0 (map (fun sd => cdiv (Z.of_nat (length (snd sd))) msz) got'))
                      (concat (map snd got')))))).

(* ---- sc_notify_payload ------------------------------------------------------------------------------------------ *)
(* typ: 0 allgather, 1 binary, 2 nary, 3 pex, 4 pcx, 5 rsx, 6 nbx, 7 ranges, 8 superset (sc_notify_type_t); fuel: bound for the
   polling loops of nbx / superset; for ranges the parameter ntop carries the number of ranges; extra, supers: the two
   results of the superset callback *)
Definition notify_prog (fuel : nat) (typ P me ntop nint nbot : Z) (sorted : bool) (R : list Z) (pays : option (list payload)) (sz : Z) (eager : bool)
           (extra supers : list Z) : prog :=
  let ep := epay pays eager in
  let k := finish R pays eager in
  if typ =? 0 then allgather_core me R ep k
  else if typ =? 1 then binary_core P me R ep k
  else if typ =? 2 then nary_core P me ntop nint nbot R ep sz k
  else if typ =? 3 then pex_core P R ep sz k
  else if typ =? 4 then census_core K_RSB P R ep sorted k
  else if typ =? 5 then census_core K_RMA P R ep sorted k
  else if typ =? 6 then nbx_core fuel R ep sorted k
  else if typ =? 7 then ranges_core P me ntop R ep sz k
  else if typ =? 8 then super_core fuel R ep extra supers sorted k
  else Ret [].
