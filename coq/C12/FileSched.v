(* C12 - the token-passing fallback of sc_io_read_at_all / sc_io_write_at_all (configuration C) under EVERY MPI-legal schedule.

   FileModel.v has two views of the code: the per-rank programs (co-simulated against the real code) and the global
   sequential model g_coll / g_scen in which the ranks take their turns in rank order (the theorems of FileProofs.v are about
   it).  This file closes the gap between them: the per-rank programs are run in the interleaving semantics MPI/SemShared.v
     - Send / Recv (named source, ANY_TAG) over FIFO channels, buffered sends;
     - Barrier and Bcast are executed when all ranks have arrived (Bcast: every rank obtains the root's contribution);
     - every stdio call is a LOCAL step of the calling rank on the SHARED file system state `fsys` (the `world` of FileModel.v
       - file node, fault plan, call counters, failure / open-stream counters - and the FILE* each rank currently holds);
       the step is `fs_eff`, built from the same g_fopen / g_fwrite / ... the global model uses.  Nothing forbids two ranks
       to interleave their stdio calls.
   THEOREM coll_every_schedule: whenever the global model predicts a result (no SC_CHECK_ABORT fires), from the state in which
   every rank starts its `coll_prog` EVERY schedule terminates, after the same number of steps, in the state predicted by
   g_coll (per rank: class, ocount, buffer, FILE* of rank 0; final world; all channels empty); no reachable state is stuck;
   and at every reachable state at most one rank has a stdio call as its next action (MUTUAL EXCLUSION by the token).
   Proof: the rank-order schedule is constructed (`coll_witness`), with the ghost token of SemShared.v handed on by every
   send and returned to rank 0 by the barrier; SemShared.one_schedule_independent does the rest.
   THEOREM coll_abort_every_schedule: when the global model predicts an abort (plan_ok), every schedule leads to one and the
   same terminal state in which a rank has called SC_ABORT.
   THEOREM scen_every_schedule: the same for whole scenarios `scen_prog_C` (open, close, collective and explicit-offset
   operations in any order) against g_scen (`scen_witness`; the world without the ledger of allocated contexts, `erase`).
   The executable scheduler `explore` (all maximal schedules of a finite instance, by vm_compute; `xstep_sound`,
   `xstep_complete`: it is the step relation) was used to test the statements; some runs are kept as Examples at the end. *)
From Coq Require Import ZArith Lia List Bool FunctionalExtensionality.
From ScV Require Import Base.CInt MPI.Prog MPI.SemShared Gen.ErrClassC12 C12.FileModel C12.FileProofs.
Import ListNotations.
Local Open Scope Z_scope.

(* ------------------------------------------------------------------ the shared state and the effect of a stdio call *)
Record fsys := mkFS { fs_w : world; fs_st : Z -> option stream }.
Definition set_st (st : Z -> option stream) (r : Z) (o : option stream) : Z -> option stream :=
  fun q => if q =? r then o else st q.
Definition code_mode (c : Z) : fmode := if c =? 0 then MRead else if c =? 1 then MWrite else MAppend.
Definition is_some {A} (o : option A) : bool := match o with Some _ => true | None => false end.

Definition fs_eff (fs : fsys) (r kind root : Z) (args : payload) : fsys * payload :=
  let w := fs_w fs in
  let st := fs_st fs in
  if kind =? K_FOPEN then
    let '(w1, so, e) := g_fopen w r (code_mode (nth 0 args 0)) in
    (mkFS w1 (set_st st r so), [if is_some so then 1 else 0; e])
  else if kind =? K_FCLOSE then
    let '(w1, ret, e) := g_fclose w r in (mkFS w1 (set_st st r None), [ret; e])
  else if kind =? K_FFLUSH then
    let '(w1, ret, e) := g_fflush w r in (mkFS w1 st, [ret; e])
  else
    match st r with
    | None => (fs, [(if (kind =? K_FSEEK) || (kind =? K_FTELL) then -1 else 0); e_EBADF])
    | Some s =>
      if kind =? K_FWRITE then
        let '(w1, s1, m, e) := g_fwrite w r s (nth 0 args 0) (nth 1 args 0) (skipn 2 args) in
        (mkFS w1 (set_st st r (Some s1)), [m; e])
      else if kind =? K_FREAD then
        let '(w1, s1, n, e, buf) := g_fread w r s (nth 0 args 0) (nth 1 args 0) in
        (mkFS w1 (set_st st r (Some s1)), n :: e :: buf)
      else if kind =? K_FSEEK then
        let '(w1, s1, ret, e) := g_fseek w r s (nth 0 args 0) in
        (mkFS w1 (set_st st r (Some s1)), [ret; e])
      else if kind =? K_FTELL then
        let '(w1, pos, e) := g_ftell w r s in (mkFS w1 st, [pos; e])
      else (fs, [])
    end.

Definition c12_local (kind : Z) : bool := 10 <=? kind.
Definition c12_creply (kind root : Z) (c : Z -> payload) (r : Z) : payload := if kind =? K_BCAST then c root else [].
Definition c12_gives (r d t : Z) (m : payload) : bool := true.
Definition c12_ctok (kind root : Z) : option Z := if kind =? K_BARRIER then Some 0 else None.

Notation cstate := (st fsys).
Definition cstep (P : Z) := step fsys P c12_local fs_eff c12_creply.
Definition crun (P : Z) := run fsys P c12_local fs_eff c12_creply.
Definition cfinal (P : Z) := final fsys P.

(* ------------------------------------------------------------------ executable scheduler (tests) *)
Definition xstep (P : Z) (s : cstate) (l : Z) : option cstate :=
  if l =? -1 then
    match spr s 0 with
    | Do (Coll kind root _) _ =>
      if negb (c12_local kind) && (0 <? P) &&
         forallb (fun r => match spr s r with Do (Coll k' r' _) _ => (k' =? kind) && (r' =? root) | _ => false end) (ranks P)
      then Some (mkst (advance _ P c12_creply s kind root) (sch s) (ssh s)) else None
    | _ => None
    end
  else if (0 <=? l) && (l <? P) then
    match spr s l with
    | Do (Send d t m) k => Some (mkst (upd1 (spr s) l (k [])) (upd2 (sch s) l d (sch s l d ++ [(t, m)])) (ssh s))
    | Do (Recv src tr) k =>
      if 0 <=? src then
        match pick tr (sch s src l) with
        | Some (i, m, q) => Some (mkst (upd1 (spr s) l (k (src :: m))) (upd2 (sch s) src l q) (ssh s))
        | None => None
        end
      else None
    | Do (Coll kind root c) k =>
      if c12_local kind then
        Some (mkst (upd1 (spr s) l (k (snd (fs_eff (ssh s) l kind root c)))) (sch s) (fst (fs_eff (ssh s) l kind root c)))
      else None
    | Ret _ => None
    end
  else None.

Definition obs_node (n : node) : payload := match n with Absent => [-1] | NoDir => [-2] | IsDir => [-3] | File c => 0 :: len c :: c end.
Definition obs_world (P : Z) (w : world) : payload :=
  obs_node (w_node w) ++ [w_fail w; w_open w; w_ledger w]
  ++ concat (map (fun q => map (fun f => w_cnt w q f) [0;1;2;3;4;5;6]) (ranks P)).
Definition obs_stream (o : option stream) : payload := match o with None => [-1] | Some s => [mode_code (st_mode s); st_pos s] end.
Definition obs (P : Z) (s : cstate) : option payload :=
  let outs := map (fun r => match spr s r with Ret o => Some o | _ => None end) (ranks P) in
  if forallb is_some outs && forallb (fun a => forallb (fun b => match sch s a b with [] => true | _ => false end) (ranks P)) (ranks P)
  then Some (concat (map (fun o => match o with Some l => len l :: l | None => [] end) outs)
             ++ obs_world P (fs_w (ssh s)) ++ concat (map (fun r => obs_stream (fs_st (ssh s) r)) (ranks P)))
  else None.

(* all maximal schedules: the observation of every final state, None for a stuck state or exhausted fuel *)
Fixpoint explore (fuel : nat) (P : Z) (s : cstate) : list (option payload) :=
  match fuel with
  | O => [None]
  | S f =>
    let succs := flat_map (fun l => match xstep P s l with Some s' => [s'] | None => [] end) (-1 :: ranks P) in
    match succs with
    | [] => [obs P s]
    | _ => flat_map (explore f P) succs
    end
  end.

Fixpoint leqb (a b : payload) : bool :=
  match a, b with [], [] => true | x :: a', y :: b' => (x =? y) && leqb a' b' | _, _ => false end.

(* the result continuation used in the statements: class, ocount, FILE* non-NULL, buffer *)
Definition k_ret (cls oc : Z) (buf : payload) (h : hnd) : prog := Ret (cls :: oc :: (if h_file h then 1 else 0) :: buf).

Definition coll_state (wr : bool) (P size : Z) (args : list carg) (w : world) (s0 : option stream) : cstate :=
  mkst (fun r => if (0 <=? r) && (r <? P) then
                     coll_prog wr P r (a_off (arg_of args r)) size (a_count (arg_of args r)) (a_data (arg_of args r)) k_ret
                   else Ret [])
       (fun _ _ => []) (mkFS w (fun q => if q =? 0 then s0 else None)).

Definition coll_final (P : Z) (g' : gstate) (rs : list rres) : cstate :=
  mkst (fun r => if (0 <=? r) && (r <? P) then
                     let x := nth (Z.to_nat r) rs (mkR 0 0 []) in
                     k_ret (r_cls x) (r_ocount x) (r_buf x) (mkH true ((r =? 0) && is_some (g_s0 g')))
                   else Ret [])
       (fun _ _ => []) (mkFS (g_w g') (fun q => if q =? 0 then g_s0 g' else None)).

Definition test_coll (wr : bool) (size : Z) (args : list carg) (w : world) (s0 : option stream) : bool * nat :=
  let P := len args in
  match g_coll wr (mkG w s0 true) size args with
  | None => (false, O)
  | Some (g', rs) =>
    let res := explore 200 P (coll_state wr P size args w s0) in
    match obs P (coll_final P g' rs) with
    | None => (false, 1%nat)
    | Some e => (forallb (fun o => match o with Some l => leqb l e | None => false end) res, length res)
    end
  end.


(* ------------------------------------------------------------------ coll_prog in named pieces (convertible) *)
Section Pieces.
Variables (wr : bool) (P me off size count : Z) (data : payload) (k : Z -> Z -> payload -> hnd -> prog).
Definition c_mode : fmode := if wr then MAppend else MRead.
Definition fin_prog (errval ocount : Z) (buf : payload) : prog :=
  Do (Coll K_BARRIER 0 []) (fun _ =>
    let last (hf : bool) := bcast true (P - 1) me errval (fun ev => k (errclass CfgC ev) ocount buf (mkH true hf)) in
    if me =? 0 then io K_FOPEN [mode_code c_mode] (fun r => if negb (r0 r =? 1) then abort else last (r0 r =? 1))
    else last false).
Definition xfer_prog : prog :=
  (if wr then io K_FWRITE (size :: count :: data) else io K_FREAD [size; count]) (fun rx =>
    let oc := r0 rx in let errval := r1 rx in let buf := rdata rx in
    io K_FFLUSH [] (fun rf => if negb (r0 rf =? 0) then abort else
    io K_FCLOSE [] (fun rc => if negb (r0 rc =? 0) then abort else
      send_next P me (if negb (errval =? 0) then errval else -1) (fin_prog errval oc buf)))).
Definition transfer_prog : prog :=
  if wr then xfer_prog else io K_FSEEK [off; 0] (fun rs => if negb (r0 rs =? 0) then abort else xfer_prog).
Definition body_prog (active : Z) : prog :=
  if active =? -1 then
    (if negb (me =? 0) then
       io K_FOPEN [mode_code c_mode] (fun r =>
         let errval := open_judge (r0 r =? 1) (r1 r) in
         if negb (errval =? 0) then send_next P me errval (fin_prog errval 0 []) else transfer_prog)
     else transfer_prog)
  else if 0 <? active then send_next P me active (fin_prog active 0 [])
  else abort.
Lemma coll_prog_eq :
  coll_prog wr P me off size count data k =
  if negb (me =? 0) then recv (me - 1) (-1) (fun m => body_prog (hd 0 m)) else body_prog (-1).
Proof. reflexivity. Qed.
End Pieces.

(* ------------------------------------------------------------------ the effect function on the calls the programs make *)
Lemma code_mode_code m : code_mode (mode_code m) = m.
Proof. destruct m; reflexivity. Qed.

Lemma set_st_twice st r a b : set_st (set_st st r a) r b = set_st st r b.
Proof. extensionality q. unfold set_st. destruct (q =? r); reflexivity. Qed.
Lemma set_st_same st r o : set_st st r o r = o.
Proof. unfold set_st. rewrite Z.eqb_refl. reflexivity. Qed.
Lemma set_st_other st r o q : q <> r -> set_st st r o q = st q.
Proof. intros H. unfold set_st. destruct (Z.eqb_spec q r); [contradiction|reflexivity]. Qed.

Lemma eff_fopen w st r m :
  fs_eff (mkFS w st) r K_FOPEN 0 [mode_code m] =
  (mkFS (fst (fst (g_fopen w r m))) (set_st st r (snd (fst (g_fopen w r m)))),
   [if is_some (snd (fst (g_fopen w r m))) then 1 else 0; snd (g_fopen w r m)]).
Proof.
  unfold fs_eff. change (K_FOPEN =? K_FOPEN) with true. cbv iota. cbn [nth fs_w fs_st]. rewrite code_mode_code.
  destruct (g_fopen w r m) as [[w1 so] e]. reflexivity.
Qed.
Lemma eff_fclose w st r :
  fs_eff (mkFS w st) r K_FCLOSE 0 [] =
  (mkFS (fst (fst (g_fclose w r))) (set_st st r None), [snd (fst (g_fclose w r)); snd (g_fclose w r)]).
Proof.
  unfold fs_eff. change (K_FCLOSE =? K_FOPEN) with false. change (K_FCLOSE =? K_FCLOSE) with true. cbv iota. cbn [fs_w fs_st].
  destruct (g_fclose w r) as [[w1 ret] e]. reflexivity.
Qed.
Lemma eff_fflush w st r :
  fs_eff (mkFS w st) r K_FFLUSH 0 [] =
  (mkFS (fst (fst (g_fflush w r))) st, [snd (fst (g_fflush w r)); snd (g_fflush w r)]).
Proof.
  unfold fs_eff. change (K_FFLUSH =? K_FOPEN) with false. change (K_FFLUSH =? K_FCLOSE) with false.
  change (K_FFLUSH =? K_FFLUSH) with true. cbv iota. cbn [fs_w fs_st].
  destruct (g_fflush w r) as [[w1 ret] e]. reflexivity.
Qed.
Lemma eff_fwrite w st r s size count data : st r = Some s ->
  fs_eff (mkFS w st) r K_FWRITE 0 (size :: count :: data) =
  (mkFS (fst (fst (fst (g_fwrite w r s size count data))))
        (set_st st r (Some (snd (fst (fst (g_fwrite w r s size count data)))))),
   [snd (fst (g_fwrite w r s size count data)); snd (g_fwrite w r s size count data)]).
Proof.
  intros H. unfold fs_eff. change (K_FWRITE =? K_FOPEN) with false. change (K_FWRITE =? K_FCLOSE) with false.
  change (K_FWRITE =? K_FFLUSH) with false. change (K_FWRITE =? K_FWRITE) with true. cbv iota. cbn [fs_w fs_st nth skipn]. rewrite H.
  destruct (g_fwrite w r s size count data) as [[[w1 s1] m] e]. reflexivity.
Qed.
Lemma eff_fread w st r s size count : st r = Some s ->
  fs_eff (mkFS w st) r K_FREAD 0 [size; count] =
  (mkFS (fst (fst (fst (fst (g_fread w r s size count)))))
        (set_st st r (Some (snd (fst (fst (fst (g_fread w r s size count))))))),
   snd (fst (fst (g_fread w r s size count))) :: snd (fst (g_fread w r s size count)) :: snd (g_fread w r s size count)).
Proof.
  intros H. unfold fs_eff. change (K_FREAD =? K_FOPEN) with false. change (K_FREAD =? K_FCLOSE) with false.
  change (K_FREAD =? K_FFLUSH) with false. change (K_FREAD =? K_FWRITE) with false. change (K_FREAD =? K_FREAD) with true.
  cbv iota. cbn [fs_w fs_st nth]. rewrite H.
  destruct (g_fread w r s size count) as [[[[w1 s1] n] e] buf]. reflexivity.
Qed.
Lemma eff_fseek w st r s off wh : st r = Some s ->
  fs_eff (mkFS w st) r K_FSEEK 0 [off; wh] =
  (mkFS (fst (fst (fst (g_fseek w r s off)))) (set_st st r (Some (snd (fst (fst (g_fseek w r s off)))))),
   [snd (fst (g_fseek w r s off)); snd (g_fseek w r s off)]).
Proof.
  intros H. unfold fs_eff. change (K_FSEEK =? K_FOPEN) with false. change (K_FSEEK =? K_FCLOSE) with false.
  change (K_FSEEK =? K_FFLUSH) with false. change (K_FSEEK =? K_FWRITE) with false. change (K_FSEEK =? K_FREAD) with false.
  change (K_FSEEK =? K_FSEEK) with true. cbv iota. cbn [fs_w fs_st nth]. rewrite H.
  destruct (g_fseek w r s off) as [[[w1 s1] ret] e]. reflexivity.
Qed.
Lemma eff_ftell w st r s : st r = Some s ->
  fs_eff (mkFS w st) r K_FTELL 0 [] =
  (mkFS (fst (fst (g_ftell w r s))) st, [snd (fst (g_ftell w r s)); snd (g_ftell w r s)]).
Proof.
  intros H. unfold fs_eff. change (K_FTELL =? K_FOPEN) with false. change (K_FTELL =? K_FCLOSE) with false.
  change (K_FTELL =? K_FFLUSH) with false. change (K_FTELL =? K_FWRITE) with false. change (K_FTELL =? K_FREAD) with false.
  change (K_FTELL =? K_FSEEK) with false. change (K_FTELL =? K_FTELL) with true. cbv iota. cbn [fs_w fs_st]. rewrite H.
  destruct (g_ftell w r s) as [[w1 pos] e]. reflexivity.
Qed.

(* no fopen of the plan is "success with errno noise": the fallback reads `errval = errno` after fopen, so with such an entry a
   rank would take the error path while it holds a stream (finding errno-noise:coll-fopen); the every-schedule theorems are
   about plans without it *)
Definition fopen_honest (pl : plan) : Prop := forall q k e s, pl q FOPEN k = Some (e, s) -> s <> NOISE.
Lemma plan_ok_honest pl : plan_ok pl -> fopen_honest pl.
Proof. intros H q k e s E. apply (H q FOPEN k e s E). Qed.

Lemma fopen_err_none w q m w1 so e : fopen_honest (w_plan w) -> g_fopen w q m = (w1, so, e) -> e <> 0 -> so = None.
Proof.
  intros Hh. unfold g_fopen, take. cbn [w_node w_plan w_cnt w_fail w_open w_ledger].
  destruct (w_plan w q FOPEN (w_cnt w q FOPEN)) as [[e0 sh0]|] eqn:Ef.
  - rewrite (proj2 (Z.eqb_neq sh0 NOISE) (Hh _ _ _ _ Ef)). intros E. inversion E. reflexivity.
  - unfold fopen_nat. cbn [w_node]. destruct (w_node w); destruct m; intros E; inversion E; subst; try reflexivity; intros; exfalso; auto.
Qed.

Notation clrun := (lrun fsys c12_local fs_eff).

(* ------------------------------------------------------------------ one rank's turn: the stdio calls of the program are the model's *)
(* the part of g_turn after the stream has been obtained (copied from FileModel.g_turn; `g_turn_eq` checks the copy) *)
Definition turn_io (wr : bool) (w1 : world) (q : Z) (s : stream) (size : Z) (a : carg) : option (world * turn) :=
  let seeked : option (world * stream) :=
    if wr then Some (w1, s)
    else let '(w2, s2, r2, _) := g_fseek w1 q s (a_off a) in if r2 =? 0 then Some (w2, s2) else None in
  match seeked with
  | None => None
  | Some (w2, s2) =>
    let '(w3, s3, oc, e3, buf) :=
      if wr then let '(w', s', oc, e) := g_fwrite w2 q s2 size (a_count a) (a_data a) in (w', s', oc, e, [])
      else g_fread w2 q s2 size (a_count a) in
    let '(w4, r4, _) := g_fflush w3 q in
    if negb (r4 =? 0) then None
    else let '(w5, r5, _) := g_fclose w4 q in
         if negb (r5 =? 0) then None else Some (w5, mkT e3 oc buf)
  end.

Lemma g_turn_eq wr w s0 q tok size a :
  g_turn wr w s0 q tok size a =
  if tok =? -1 then
    let '(w1, so, e0) := (if q =? 0 then (w, s0, 0) else g_fopen w q (if wr then MAppend else MRead)) in
    let e1 := open_judge (match so with Some _ => true | None => false end) e0 in
    if negb (e1 =? 0) then Some (w1, mkT e1 0 [])
    else match so with None => None | Some s => turn_io wr w1 q s size a end
  else if 0 <? tok then Some (w, mkT tok 0 [])
  else None.
Proof. reflexivity. Qed.

Lemma tok_out_if e oc buf : (if negb (e =? 0) then e else -1) = tok_out (mkT e oc buf).
Proof. unfold tok_out. cbn [t_errval]. destruct (e =? 0); reflexivity. Qed.

(* ------------------------------------------------------------------ the ledger of allocated contexts
   g_open / g_close account for SC_ALLOC / SC_FREE of the file context in w_ledger; these are no actions of the per-rank
   programs, so the shared state of the interleaving semantics carries the world WITHOUT the ledger (`erase`).  No stdio
   function of the model reads the ledger, and none changes the fault plan. *)
Definition erase (w : world) : world := mkW (w_node w) (w_plan w) (w_cnt w) (w_fail w) (w_open w) 0.
Definition gerase (g : gstate) : gstate := mkG (erase (g_w g)) (g_s0 g) (g_ctx g).

Lemma erase_add_ledger w d : erase (add_ledger w d) = erase w.
Proof. reflexivity. Qed.
Lemma erase_note w e : erase (note_err w e) = note_err (erase w) e.
Proof. unfold note_err. destruct (e =? 0); reflexivity. Qed.
Lemma plan_note w e : w_plan (note_err w e) = w_plan w.
Proof. unfold note_err. destruct (e =? 0); reflexivity. Qed.

Lemma erase_fopen w q m :
  g_fopen (erase w) q m = (erase (fst (fst (g_fopen w q m))), snd (fst (g_fopen w q m)), snd (g_fopen w q m))
  /\ w_plan (fst (fst (g_fopen w q m))) = w_plan w.
Proof.
  unfold g_fopen, fopen_nat, take. cbn [erase w_node w_plan w_cnt w_fail w_open w_ledger].
  destruct (w_plan w q FOPEN (w_cnt w q FOPEN)) as [[e sh]|]; [destruct (sh =? NOISE)|].
  - destruct (w_node w); destruct m; cbn [fst snd]; rewrite ?erase_note, ?plan_note; split; reflexivity.
  - cbn [fst snd]. rewrite erase_note, plan_note. split; reflexivity.
  - destruct (w_node w); destruct m; cbn [fst snd]; rewrite ?erase_note, ?plan_note; split; reflexivity.
Qed.
Lemma erase_fclose w q :
  g_fclose (erase w) q = (erase (fst (fst (g_fclose w q))), snd (fst (g_fclose w q)), snd (g_fclose w q))
  /\ w_plan (fst (fst (g_fclose w q))) = w_plan w.
Proof.
  unfold g_fclose, take. cbn [erase w_node w_plan w_cnt w_fail w_open w_ledger].
  destruct (w_plan w q FCLOSE (w_cnt w q FCLOSE)) as [[e sh]|]; [destruct (sh =? NOISE)|]; cbn [fst snd]; rewrite ?erase_note, ?plan_note; split; reflexivity.
Qed.
Lemma erase_fflush w q :
  g_fflush (erase w) q = (erase (fst (fst (g_fflush w q))), snd (fst (g_fflush w q)), snd (g_fflush w q))
  /\ w_plan (fst (fst (g_fflush w q))) = w_plan w.
Proof.
  unfold g_fflush, take. cbn [erase w_node w_plan w_cnt w_fail w_open w_ledger].
  destruct (w_plan w q FFLUSH (w_cnt w q FFLUSH)) as [[e sh]|]; [destruct (sh =? NOISE)|]; cbn [fst snd]; rewrite ?erase_note, ?plan_note; split; reflexivity.
Qed.
Lemma erase_ftell w q s :
  g_ftell (erase w) q s = (erase (fst (fst (g_ftell w q s))), snd (fst (g_ftell w q s)), snd (g_ftell w q s))
  /\ w_plan (fst (fst (g_ftell w q s))) = w_plan w.
Proof.
  unfold g_ftell, take. cbn [erase w_node w_plan w_cnt w_fail w_open w_ledger].
  destruct (w_plan w q FTELL (w_cnt w q FTELL)) as [[e sh]|]; [destruct (sh =? NOISE)|]; cbn [fst snd]; rewrite ?erase_note, ?plan_note; split; reflexivity.
Qed.
Lemma erase_fseek w q s off :
  g_fseek (erase w) q s off = (erase (fst (fst (fst (g_fseek w q s off)))), snd (fst (fst (g_fseek w q s off))),
                               snd (fst (g_fseek w q s off)), snd (g_fseek w q s off))
  /\ w_plan (fst (fst (fst (g_fseek w q s off)))) = w_plan w.
Proof.
  unfold g_fseek, take. cbn [erase w_node w_plan w_cnt w_fail w_open w_ledger].
  destruct (w_plan w q FSEEK (w_cnt w q FSEEK)) as [[e sh]|]; [destruct (sh =? NOISE)|]; try destruct (off <? 0);
    cbn [fst snd]; rewrite ?erase_note, ?plan_note; split; reflexivity.
Qed.
Lemma erase_fwrite w q s size count data :
  g_fwrite (erase w) q s size count data =
    (erase (fst (fst (fst (g_fwrite w q s size count data)))), snd (fst (fst (g_fwrite w q s size count data))),
     snd (fst (g_fwrite w q s size count data)), snd (g_fwrite w q s size count data))
  /\ w_plan (fst (fst (fst (g_fwrite w q s size count data)))) = w_plan w.
Proof.
  unfold g_fwrite, take. cbn [erase w_node w_plan w_cnt w_fail w_open w_ledger].
  destruct (st_mode s); cbn [fst snd]; rewrite ?erase_note, ?plan_note; split; reflexivity.
Qed.
Lemma erase_fread w q s size count :
  g_fread (erase w) q s size count =
    (erase (fst (fst (fst (fst (g_fread w q s size count))))), snd (fst (fst (fst (g_fread w q s size count)))),
     snd (fst (fst (g_fread w q s size count))), snd (fst (g_fread w q s size count)), snd (g_fread w q s size count))
  /\ w_plan (fst (fst (fst (fst (g_fread w q s size count))))) = w_plan w.
Proof.
  unfold g_fread, take. cbn [erase w_node w_plan w_cnt w_fail w_open w_ledger].
  destruct (st_mode s); cbn [fst snd]; rewrite ?erase_note, ?plan_note; split; reflexivity.
Qed.

(* results of the wrapper functions on a world without ledger *)
Definition oerase {X} (o : option (world * X)) : option (world * X) :=
  match o with Some (w, x) => Some (erase w, x) | None => None end.
Definition oplan {X} (w : world) (o : option (world * X)) : Prop :=
  match o with Some (w', _) => w_plan w' = w_plan w | None => True end.

Lemma erase_turn_io wr w q s size a :
  turn_io wr (erase w) q s size a = oerase (turn_io wr w q s size a) /\ oplan w (turn_io wr w q s size a).
Proof.
  unfold turn_io. destruct wr.
  - destruct (erase_fwrite w q s size (a_count a) (a_data a)) as [E3 P3]. rewrite E3.
    destruct (g_fwrite w q s size (a_count a) (a_data a)) as [[[w3 s3] oc] e3]. cbn [fst snd] in *.
    destruct (erase_fflush w3 q) as [E4 P4]. rewrite E4. destruct (g_fflush w3 q) as [[w4 r4] e4]. cbn [fst snd] in *.
    destruct (negb (r4 =? 0)); [split; [reflexivity|exact I]|].
    destruct (erase_fclose w4 q) as [E5 P5]. rewrite E5. destruct (g_fclose w4 q) as [[w5 r5] e5]. cbn [fst snd] in *.
    destruct (negb (r5 =? 0)); [split; [reflexivity|exact I]|]. cbn [oerase oplan]. split; [reflexivity|congruence].
  - destruct (erase_fseek w q s (a_off a)) as [E2 P2]. rewrite E2.
    destruct (g_fseek w q s (a_off a)) as [[[w2 s2] r2] e2]. cbn [fst snd] in *.
    destruct (r2 =? 0); [|split; [reflexivity|exact I]].
    destruct (erase_fread w2 q s2 size (a_count a)) as [E3 P3]. rewrite E3.
    destruct (g_fread w2 q s2 size (a_count a)) as [[[[w3 s3] oc] e3] buf]. cbn [fst snd] in *.
    destruct (erase_fflush w3 q) as [E4 P4]. rewrite E4. destruct (g_fflush w3 q) as [[w4 r4] e4]. cbn [fst snd] in *.
    destruct (negb (r4 =? 0)); [split; [reflexivity|exact I]|].
    destruct (erase_fclose w4 q) as [E5 P5]. rewrite E5. destruct (g_fclose w4 q) as [[w5 r5] e5]. cbn [fst snd] in *.
    destruct (negb (r5 =? 0)); [split; [reflexivity|exact I]|]. cbn [oerase oplan]. split; [reflexivity|congruence].
Qed.

Lemma erase_turn wr w s0 q tok size a :
  g_turn wr (erase w) s0 q tok size a = oerase (g_turn wr w s0 q tok size a) /\ oplan w (g_turn wr w s0 q tok size a).
Proof.
  rewrite !g_turn_eq. destruct (tok =? -1).
  - destruct (q =? 0).
    + cbn [negb Z.eqb]. destruct s0 as [s|]; [apply erase_turn_io|split; [reflexivity|exact I]].
    + destruct (erase_fopen w q (if wr then MAppend else MRead)) as [E1 P1]. rewrite E1.
      destruct (g_fopen w q (if wr then MAppend else MRead)) as [[w1 so] e1]. cbn [fst snd] in *.
      cbv zeta. destruct (negb (open_judge match so with Some _ => true | None => false end e1 =? 0)); [cbn [oerase oplan]; split; [reflexivity|exact P1]|].
      destruct so as [s|]; [|split; [reflexivity|exact I]].
      destruct (erase_turn_io wr w1 q s size a) as [E2 P2]. split; [exact E2|].
      destruct (turn_io wr w1 q s size a) as [[w' t]|]; cbn [oplan] in *; congruence.
  - destruct (0 <? tok); cbn [oerase oplan]; split; reflexivity || exact I.
Qed.

Lemma erase_turns wr s0 size : forall args w q tok,
  g_turns wr (erase w) s0 q tok size args = oerase (g_turns wr w s0 q tok size args)
  /\ oplan w (g_turns wr w s0 q tok size args).
Proof.
  induction args as [|a rest IH]; intros w q tok; cbn [g_turns].
  - split; reflexivity.
  - destruct (erase_turn wr w s0 q tok size a) as [E1 P1]. rewrite E1.
    destruct (g_turn wr w s0 q tok size a) as [[w1 t]|]; cbn [oerase oplan] in *; [|split; [reflexivity|exact I]].
    destruct (IH w1 (q + 1) (tok_out t)) as [E2 P2]. rewrite E2.
    destruct (g_turns wr w1 s0 (q + 1) (tok_out t) size rest) as [[w2 ts]|]; cbn [oerase oplan] in *; [|split; [reflexivity|exact I]].
    split; [reflexivity|congruence].
Qed.

Lemma erase_coll wr g size args :
  g_coll wr (gerase g) size args =
    match g_coll wr g size args with Some (g', rs) => Some (gerase g', rs) | None => None end
  /\ match g_coll wr g size args with Some (g', _) => w_plan (g_w g') = w_plan (g_w g) | None => True end.
Proof.
  unfold g_coll. cbn [gerase g_w g_s0 g_ctx].
  destruct (erase_turns wr (g_s0 g) size args (g_w g) 0 (-1)) as [E1 P1]. rewrite E1.
  destruct (g_turns wr (g_w g) (g_s0 g) 0 (-1) size args) as [[w1 ts]|]; cbn [oerase oplan] in *; [|split; [reflexivity|exact I]].
  destruct (erase_fopen w1 0 (if wr then MAppend else MRead)) as [E2 P2]. rewrite E2.
  destruct (g_fopen w1 0 (if wr then MAppend else MRead)) as [[w2 so] e]. cbn [fst snd] in *.
  destruct so; [|split; [reflexivity|exact I]]. cbn [g_w]. split; [reflexivity|congruence].
Qed.

Lemma erase_at tail c wr g q size a :
  g_at_with tail c wr (gerase g) q size a = (gerase (fst (g_at_with tail c wr g q size a)), snd (g_at_with tail c wr g q size a))
  /\ w_plan (g_w (fst (g_at_with tail c wr g q size a))) = w_plan (g_w g).
Proof.
  unfold g_at_with. cbn [gerase g_w g_s0 g_ctx].
  destruct (a_count a =? 0); [split; reflexivity|].
  destruct (g_s0 g) as [s|]; [|split; reflexivity].
  destruct (erase_ftell (g_w g) q s) as [E1 P1]. rewrite E1.
  destruct (g_ftell (g_w g) q s) as [[w1 pos] e1]. cbn [fst snd] in *.
  destruct (pos =? -1); [cbn [fst snd gerase g_w g_s0 g_ctx]; split; [reflexivity|exact P1]|].
  destruct (erase_fseek w1 q s (a_off a)) as [E2 P2]. rewrite E2.
  destruct (g_fseek w1 q s (a_off a)) as [[[w2 s2] r2] e2]. cbn [fst snd] in *.
  destruct (negb (r2 =? 0)); [cbn [fst snd gerase g_w g_s0 g_ctx]; split; [reflexivity|congruence]|].
  destruct wr.
  - destruct (erase_fwrite w2 q s2 size (a_count a) (a_data a)) as [E3 P3]. rewrite E3.
    destruct (g_fwrite w2 q s2 size (a_count a) (a_data a)) as [[[w3 s3] oc] e3]. cbn [fst snd] in *.
    destruct (negb (e3 =? 0) && (oc =? 0)); [cbn [fst snd gerase g_w g_s0 g_ctx]; split; [reflexivity|congruence]|].
    destruct (erase_fseek w3 q s3 pos) as [E4 P4]. rewrite E4.
    destruct (g_fseek w3 q s3 pos) as [[[w4 s4] r4] e4]. cbn [fst snd gerase g_w g_s0 g_ctx] in *. split; [reflexivity|congruence].
  - destruct (erase_fread w2 q s2 size (a_count a)) as [E3 P3]. rewrite E3.
    destruct (g_fread w2 q s2 size (a_count a)) as [[[[w3 s3] oc] e3] buf]. cbn [fst snd] in *.
    destruct (negb (e3 =? 0) && (oc =? 0)); [cbn [fst snd gerase g_w g_s0 g_ctx]; split; [reflexivity|congruence]|].
    destruct (erase_fseek w3 q s3 pos) as [E4 P4]. rewrite E4.
    destruct (g_fseek w3 q s3 pos) as [[[w4 s4] r4] e4]. cbn [fst snd gerase g_w g_s0 g_ctx] in *. split; [reflexivity|congruence].
Qed.


Lemma transfer_lrun wr P q size a k wa st s w1 t : st q = Some s ->
  turn_io wr wa q s size a = Some (w1, t) ->
  clrun q (transfer_prog wr P q (a_off a) size (a_count a) (a_data a) k) (mkFS wa st)
        (send_next P q (tok_out t) (fin_prog wr P q k (t_errval t) (t_ocount t) (t_buf t)))
        (mkFS w1 (set_st st q None)).
Proof.
  intros Hs. unfold turn_io, transfer_prog, xfer_prog. destruct wr.
  - destruct (g_fwrite wa q s size (a_count a) (a_data a)) as [[[w3 s3] oc] e3] eqn:E3.
    destruct (g_fflush w3 q) as [[w4 r4] e4] eqn:E4.
    destruct (r4 =? 0) eqn:B4; cbn [negb]; [|discriminate].
    destruct (g_fclose w4 q) as [[w5 r5] e5] eqn:E5.
    destruct (r5 =? 0) eqn:B5; cbn [negb]; [|discriminate].
    intros G. inversion G; subst. clear G. cbn [t_errval t_ocount t_buf].
    unfold io. eapply lrun_cons; [reflexivity|]. rewrite (eff_fwrite _ _ _ s) by exact Hs. rewrite E3. cbn [fst snd].
    unfold r0, r1, rdata. cbn [nth skipn].
    eapply lrun_cons; [reflexivity|]. rewrite eff_fflush, E4. cbn [fst snd nth]. rewrite B4. cbn [negb].
    eapply lrun_cons; [reflexivity|]. rewrite eff_fclose, E5. cbn [fst snd nth]. rewrite B5. cbn [negb].
    rewrite set_st_twice. rewrite (tok_out_if e3 oc []). apply lrun_nil.
  - destruct (g_fseek wa q s (a_off a)) as [[[w2 s2] r2] e2] eqn:E2.
    destruct (r2 =? 0) eqn:B2; [|discriminate].
    destruct (g_fread w2 q s2 size (a_count a)) as [[[[w3 s3] oc] e3] buf] eqn:E3.
    destruct (g_fflush w3 q) as [[w4 r4] e4] eqn:E4.
    destruct (r4 =? 0) eqn:B4; cbn [negb]; [|discriminate].
    destruct (g_fclose w4 q) as [[w5 r5] e5] eqn:E5.
    destruct (r5 =? 0) eqn:B5; cbn [negb]; [|discriminate].
    intros G. inversion G; subst. clear G. cbn [t_errval t_ocount t_buf].
    unfold io. eapply lrun_cons; [reflexivity|]. rewrite (eff_fseek _ _ _ s) by exact Hs. rewrite E2. cbn [fst snd].
    unfold r0 at 1. cbn [nth]. rewrite B2. cbn [negb].
    eapply lrun_cons; [reflexivity|]. rewrite (eff_fread _ _ _ s2) by apply set_st_same. rewrite E3. cbn [fst snd].
    unfold r0, r1, rdata. cbn [nth skipn].
    eapply lrun_cons; [reflexivity|]. rewrite eff_fflush, E4. cbn [fst snd nth]. rewrite B4. cbn [negb].
    eapply lrun_cons; [reflexivity|]. rewrite eff_fclose, E5. cbn [fst snd nth]. rewrite B5. cbn [negb].
    rewrite !set_st_twice. rewrite (tok_out_if e3 oc buf). apply lrun_nil.
Qed.

Lemma turn_lrun wr P q size a k w st s0 tokv w1 t :
  g_turn wr w s0 q tokv size a = Some (w1, t) -> (q = 0 -> st 0 = s0) ->
  clrun q (body_prog wr P q (a_off a) size (a_count a) (a_data a) k tokv) (mkFS w st)
        (send_next P q (tok_out t) (fin_prog wr P q k (t_errval t) (t_ocount t) (t_buf t)))
        (mkFS w1 (if tokv =? -1 then set_st st q None else st)).
Proof.
  rewrite g_turn_eq. unfold body_prog. intros G H0.
  destruct (tokv =? -1) eqn:Et.
  - destruct (Z.eqb_spec q 0) as [->|Hq]; cbn [negb].
    + cbn [negb Z.eqb] in G. destruct s0 as [s|]; unfold open_judge in G; cbn [negb Z.eqb] in G; [|discriminate].
      apply transfer_lrun with (s := s); [apply H0; reflexivity|exact G].
    + destruct (g_fopen w q (if wr then MAppend else MRead)) as [[wa so] e1] eqn:Eo.
      unfold io. eapply lrun_cons; [reflexivity|]. unfold c_mode. rewrite eff_fopen, Eo. cbn [fst snd].
      unfold r0 at 1. unfold r1 at 1. unfold r0 at 1. unfold r1 at 1. cbn [nth].
      cbv zeta in G.
      destruct so as [s|]; unfold open_judge in *; cbn [is_some Z.eqb negb] in *.
      * (* a stream: the turn goes on, whatever errno fopen left *)
        replace (set_st st q None) with (set_st (set_st st q (Some s)) q None) by apply set_st_twice.
        apply transfer_lrun with (s := s); [apply set_st_same|exact G].
      * destruct (e1 =? 0) eqn:B1; cbn [negb] in *; [discriminate|].
        inversion G; subst. clear G. cbn [t_errval t_ocount t_buf].
        unfold tok_out. cbn [t_errval]. rewrite B1. apply lrun_nil.
  - destruct (0 <? tokv) eqn:Ep; [|discriminate].
    inversion G; subst. clear G. cbn [t_errval t_ocount t_buf].
    assert (tok_out (mkT tokv 0 []) = tokv) as ->.
    { unfold tok_out. cbn [t_errval]. destruct (Z.eqb_spec tokv 0); [lia|reflexivity]. }
    apply lrun_nil.
Qed.

(* ------------------------------------------------------------------ the rank-order schedule of one collective operation *)
Definition cirun (P : Z) := irun fsys P c12_local fs_eff c12_creply c12_gives c12_ctok.
Definition dturn : turn := mkT 0 0 [].
Definition tn (ts : list turn) (r : Z) : turn := nth (Z.to_nat r) ts dturn.

Lemma tn_app_lt ts l r : 0 <= r < len ts -> tn (ts ++ l) r = tn ts r.
Proof. intros H. unfold tn, len in *. apply app_nth1. lia. Qed.
Lemma tn_app_eq ts t l : tn (ts ++ t :: l) (len ts) = t.
Proof. unfold tn, len. rewrite app_nth2 by lia. replace (Z.to_nat (Z.of_nat (length ts)) - length ts)%nat with 0%nat by lia. reflexivity. Qed.
Lemma len_snoc {A} (l : list A) x : len (l ++ [x]) = len l + 1.
Proof. unfold len. rewrite app_length. cbn [length]. lia. Qed.

Section Witness.
Variables (wr : bool) (P size : Z) (args : list carg) (K : Z -> Z -> Z -> payload -> hnd -> prog)
          (s0 : option stream) (out : Z -> prog).
Hypothesis HP : 0 < P.

Definition cp (r : Z) : prog :=
  coll_prog wr P r (a_off (arg_of args r)) size (a_count (arg_of args r)) (a_data (arg_of args r)) (K r).
Definition bp (r tokv : Z) : prog :=
  body_prog wr P r (a_off (arg_of args r)) size (a_count (arg_of args r)) (a_data (arg_of args r)) (K r) tokv.
Definition fp (r : Z) (t : turn) : prog := fin_prog wr P r (K r) (t_errval t) (t_ocount t) (t_buf t).
Definition lastp (r : Z) (t : turn) (hf : bool) : prog :=
  bcast true (P - 1) r (t_errval t) (fun ev => K r (errclass CfgC ev) (t_ocount t) (t_buf t) (mkH true hf)).

Record mid (q tokv : Z) (w : world) (ts : list turn) (s : cstate) (tk : tokst) : Prop := mkMid {
  mid_len : len ts = q;
  mid_done : forall r, 0 <= r < q -> spr s r = fp r (tn ts r);
  mid_todo : forall r, q <= r < P -> spr s r = cp r;
  mid_out : forall r, ~ 0 <= r < P -> spr s r = out r;
  mid_ch1 : 0 < q < P -> sch s (q - 1) q = [(1, [tokv])];
  mid_ch0 : forall a b, ~ (0 < q < P /\ a = q - 1 /\ b = q) -> sch s a b = [];
  mid_w : fs_w (ssh s) = w;
  mid_st0 : fs_st (ssh s) 0 = if q =? 0 then s0 else None;
  mid_st : forall r, r <> 0 -> fs_st (ssh s) r = None;
  mid_tk0 : q = 0 -> tk = Held 0;
  mid_tk1 : 0 < q < P -> tk = Fly (q - 1) q 0;
  mid_tk2 : q = P -> tk = Held (P - 1) }.

(* rank q holds the token and is at the body of its turn: its stdio calls, then the token goes to q + 1 *)
Lemma turn_tail q tokv w ts s1 w1 t : 0 <= q < P -> len ts = q ->
  spr s1 q = bp q tokv ->
  (forall r, 0 <= r < q -> spr s1 r = fp r (tn ts r)) ->
  (forall r, q < r < P -> spr s1 r = cp r) ->
  (forall r, ~ 0 <= r < P -> spr s1 r = out r) ->
  (forall a b, sch s1 a b = []) ->
  fs_w (ssh s1) = w ->
  fs_st (ssh s1) 0 = (if q =? 0 then s0 else None) -> (forall r, r <> 0 -> fs_st (ssh s1) r = None) ->
  (q = 0 -> tokv = -1) ->
  g_turn wr w s0 q tokv size (arg_of args q) = Some (w1, t) ->
  exists n s' tk', cirun P n (Good s1 (Held q)) (Good s' tk') /\ mid (q + 1) (tok_out t) w1 (ts ++ [t]) s' tk'.
Proof.
  intros Hq Hlen Hbody Hdone Htodo Hout Hch Hw Hst0 Hst Htok0 G.
  destruct (ssh s1) as [w0 st] eqn:Esh. cbn [fs_w fs_st] in *. subst w0.
  assert (H0' : q = 0 -> st 0 = s0) by (intros ->; exact Hst0).
  pose proof (turn_lrun wr P q size (arg_of args q) (K q) w st s0 tokv w1 t G H0') as L.
  destruct (irun_lrun fsys P c12_local fs_eff c12_creply c12_gives c12_ctok q _ _ _ _ L s1 Hq Hbody Esh) as [n1 R1].
  set (st' := if tokv =? -1 then set_st st q None else st) in *.
  assert (Hst0' : st' 0 = None).
  { unfold st'. destruct (Z.eq_dec q 0) as [->|Hq0].
    - rewrite (Htok0 eq_refl). cbn [Z.eqb]. apply set_st_same.
    - assert (E : st 0 = None) by (rewrite Hst0; destruct (Z.eqb_spec q 0); [lia|reflexivity]).
      destruct (tokv =? -1); [rewrite set_st_other by lia|]; exact E. }
  assert (Hst' : forall r, r <> 0 -> st' r = None).
  { intros r Hr. unfold st'. destruct (tokv =? -1); [|apply Hst; exact Hr].
    destruct (Z.eq_dec r q) as [->|Hrq]; [apply set_st_same|rewrite set_st_other by exact Hrq; apply Hst; exact Hr]. }
  clearbody st'.
  set (s2 := mkst (upd1 (spr s1) q (send_next P q (tok_out t) (fp q t))) (sch s1) (mkFS w1 st')) in *.
  unfold send_next in *. destruct (q <? P - 1) eqn:Elast.
  - (* the token is sent on *)
    assert (E2 : spr s2 q = Do (Send (q + 1) 1 [tok_out t]) (fun _ => fp q t)) by (unfold s2; cbn [spr]; apply upd1_same).
    assert (T2 : tok_send c12_gives (Held q) q (q + 1) 1 [tok_out t] (length (sch s2 q (q + 1))) = Some (Fly q (q + 1) 0)).
    { unfold tok_send, c12_gives. rewrite Z.eqb_refl. unfold s2. cbn [sch]. rewrite Hch. reflexivity. }
    pose proof (irun_send1 fsys P c12_local fs_eff c12_creply c12_gives c12_ctok s2 (Held q) _ q (q + 1) 1 [tok_out t] _ Hq E2 T2) as R2.
    eexists (n1 + 1)%nat, _, _. split; [eapply irun_app; [exact R1|exact R2]|].
    constructor; cbn [spr sch ssh fs_w fs_st].
    + rewrite len_snoc. lia.
    + intros r Hr. unfold s2. cbn [spr]. destruct (Z.eq_dec r q) as [->|Hrq].
      * rewrite upd1_same. rewrite <- Hlen. rewrite tn_app_eq. reflexivity.
      * rewrite !upd1_other by exact Hrq. rewrite tn_app_lt by lia. apply Hdone. lia.
    + intros r Hr. unfold s2. cbn [spr]. rewrite !upd1_other by lia. apply Htodo. lia.
    + intros r Hr. unfold s2. cbn [spr]. rewrite !upd1_other by lia. apply Hout. exact Hr.
    + intros _. unfold s2. cbn [sch]. replace (q + 1 - 1) with q by lia. rewrite upd2_same, Hch. reflexivity.
    + intros a b Hab. unfold s2. cbn [sch]. rewrite upd2_other by (intros E; injection E; lia). apply Hch.
    + reflexivity.
    + destruct (Z.eqb_spec (q + 1) 0); [lia|exact Hst0'].
    + exact Hst'.
    + lia.
    + intros _. f_equal. lia.
    + lia.
  - (* the last rank keeps it *)
    exists n1, s2, (Held q). split; [exact R1|].
    constructor; unfold s2; cbn [spr sch ssh fs_w fs_st].
    + rewrite len_snoc. lia.
    + intros r Hr. destruct (Z.eq_dec r q) as [->|Hrq].
      * rewrite upd1_same. rewrite <- Hlen. rewrite tn_app_eq. reflexivity.
      * rewrite !upd1_other by exact Hrq. rewrite tn_app_lt by lia. apply Hdone. lia.
    + intros r Hr. lia.
    + intros r Hr. rewrite !upd1_other by lia. apply Hout. exact Hr.
    + lia.
    + intros a b _. apply Hch.
    + reflexivity.
    + destruct (Z.eqb_spec (q + 1) 0); [lia|exact Hst0'].
    + exact Hst'.
    + lia.
    + lia.
    + intros _. f_equal. lia.
Qed.

Lemma cp_rank0 : cp 0 = bp 0 (-1).
Proof. unfold cp, bp. rewrite coll_prog_eq. reflexivity. Qed.
Lemma cp_rank_pos q : q <> 0 -> cp q = Do (Recv (q - 1) (-1)) (fun r => bp q (hd 0 (tl r))).
Proof.
  intros H. unfold cp, bp. rewrite coll_prog_eq. destruct (Z.eqb_spec q 0); [contradiction|]. reflexivity.
Qed.

(* one turn from boundary q to boundary q + 1 *)
Lemma mid_step q tokv w ts s tk w1 t : 0 <= q < P -> mid q tokv w ts s tk -> (q = 0 -> tokv = -1) ->
  g_turn wr w s0 q tokv size (arg_of args q) = Some (w1, t) ->
  exists n s' tk', cirun P n (Good s tk) (Good s' tk') /\ mid (q + 1) (tok_out t) w1 (ts ++ [t]) s' tk'.
Proof.
  intros Hq M Htok0 G. destruct M as [Mlen Mdone Mtodo Mout Mch1 Mch0 Mw Mst0 Mst Mtk0 Mtk1 Mtk2].
  destruct (Z.eq_dec q 0) as [Eq|Nq].
  - rewrite (Mtk0 Eq). replace (Held 0) with (Held q) by (f_equal; exact Eq).
    apply (turn_tail q tokv w ts s w1 t); try assumption.
    + rewrite Mtodo by lia. rewrite (Htok0 Eq). rewrite Eq. apply cp_rank0.
    + intros r Hr. apply Mtodo. lia.
    + intros a b. apply Mch0. lia.
  - assert (Hq' : 0 < q < P) by lia. rewrite (Mtk1 Hq').
    assert (E : spr s q = Do (Recv (q - 1) (-1)) (fun r => bp q (hd 0 (tl r)))) by (rewrite Mtodo by lia; apply cp_rank_pos; exact Nq).
    assert (Pk : pick (-1) (sch s (q - 1) q) = Some (0%nat, [tokv], [])) by (rewrite (Mch1 Hq'); reflexivity).
    pose proof (irun_recv1 fsys P c12_local fs_eff c12_creply c12_gives c12_ctok s (Fly (q - 1) q 0) q (q - 1) (-1) _ _ _ _
                           Hq ltac:(lia) E Pk) as R1.
    assert (Tk : tok_recv (Fly (q - 1) q 0) (q - 1) q 0 = Held q) by (unfold tok_recv; rewrite !Z.eqb_refl; reflexivity).
    rewrite Tk in R1.
    set (s1 := mkst (upd1 (spr s) q (bp q (hd 0 (tl (q - 1 :: [tokv]))))) (upd2 (sch s) (q - 1) q []) (ssh s)) in *.
    destruct (turn_tail q tokv w ts s1 w1 t Hq Mlen) as (n2 & s' & tk' & R2 & M'); try assumption.
    + unfold s1. cbn [spr]. apply upd1_same.
    + intros r Hr. unfold s1. cbn [spr]. rewrite upd1_other by lia. apply Mdone. exact Hr.
    + intros r Hr. unfold s1. cbn [spr]. rewrite upd1_other by lia. apply Mtodo. lia.
    + intros r Hr. unfold s1. cbn [spr]. rewrite upd1_other by lia. apply Mout. exact Hr.
    + intros a b. unfold s1. cbn [sch]. unfold upd2.
      destruct (Z.eqb_spec a (q - 1)); destruct (Z.eqb_spec b q); cbn [andb]; try reflexivity; apply Mch0; lia.
    + exists (1 + n2)%nat, s', tk'. split; [eapply irun_app; [exact R1|exact R2]|exact M'].
Qed.

Lemma skipn_cons_nth {A} (l : list A) : forall n a r d, skipn n l = a :: r -> nth n l d = a /\ skipn (S n) l = r.
Proof.
  induction l as [|x l IH]; intros n a r d H.
  - destruct n; discriminate.
  - destruct n; cbn [skipn nth] in *; [inversion H; auto|]. apply IH. exact H.
Qed.

(* all the remaining turns *)
Lemma mid_turns : forall rest q tokv w ts s tk w' tsr, 0 <= q -> q + len rest = P ->
  rest = skipn (Z.to_nat q) args -> mid q tokv w ts s tk -> (q = 0 -> tokv = -1) ->
  g_turns wr w s0 q tokv size rest = Some (w', tsr) ->
  exists n s' tk' tokv', cirun P n (Good s tk) (Good s' tk') /\ mid P tokv' w' (ts ++ tsr) s' tk'.
Proof.
  induction rest as [|a rest IH]; intros q tokv w ts s tk w' tsr Hq Hlen Hrest M Htok0 G.
  - cbn [g_turns] in G. inversion G; subst. unfold len in Hlen. cbn [length] in Hlen. rewrite Z.add_0_r in Hlen. subst q.
    exists 0%nat, s, tk, tokv. split; [constructor|]. rewrite app_nil_r. exact M.
  - cbn [g_turns] in G.
    assert (Hl : len (a :: rest) = len rest + 1) by (unfold len; cbn [length]; lia).
    pose proof (len_nonneg rest) as Hnn.
    symmetry in Hrest. destruct (skipn_cons_nth args (Z.to_nat q) a rest (mkA 0 0 []) Hrest) as [Ea Er].
    assert (Ha : arg_of args q = a) by exact Ea.
    destruct (g_turn wr w s0 q tokv size a) as [[w1 t]|] eqn:G1; [|discriminate].
    destruct (g_turns wr w1 s0 (q + 1) (tok_out t) size rest) as [[w2 ts2]|] eqn:G2; [|discriminate].
    inversion G; subst w' tsr. clear G.
    rewrite <- Ha in G1.
    destruct (mid_step q tokv w ts s tk w1 t ltac:(lia) M Htok0 G1) as (n1 & s1 & tk1 & R1 & M1).
    destruct (IH (q + 1) (tok_out t) w1 (ts ++ [t]) s1 tk1 w2 ts2 ltac:(lia) ltac:(lia)) as (n2 & s2 & tk2 & tv & R2 & M2).
    + rewrite <- Er. f_equal. lia.
    + exact M1.
    + lia.
    + exact G2.
    + exists (n1 + n2)%nat, s2, tk2, tv. split; [eapply irun_app; eauto|]. rewrite <- app_assoc in M2. exact M2.
Qed.

Lemma lastp_eq r t hf :
  lastp r t hf = Do (Coll K_BCAST (P - 1) (if r =? P - 1 then [t_errval t] else []))
                    (fun o => K r (errclass CfgC (if r =? P - 1 then t_errval t else hd 0 o)) (t_ocount t) (t_buf t) (mkH true hf)).
Proof. reflexivity. Qed.

(* barrier, re-open by rank 0, broadcast of the last rank's error value *)
Lemma finale tokv w ts s w2 so e :
  mid P tokv w ts s (Held (P - 1)) -> g_fopen w 0 (c_mode wr) = (w2, so, e) -> is_some so = true ->
  exists n s', cirun P n (Good s (Held (P - 1))) (Good s' (Held 0))
    /\ (forall r, 0 <= r < P -> spr s' r = K r (errclass CfgC (t_errval (tn ts (P - 1)))) (t_ocount (tn ts r)) (t_buf (tn ts r))
                                              (mkH true ((r =? 0) && is_some so)))
    /\ (forall r, ~ 0 <= r < P -> spr s' r = out r)
    /\ (forall a b, sch s' a b = [])
    /\ fs_w (ssh s') = w2 /\ fs_st (ssh s') 0 = so /\ (forall r, r <> 0 -> fs_st (ssh s') r = None).
Proof.
  intros M Go Hso. destruct M as [Mlen Mdone Mtodo Mout Mch1 Mch0 Mw Mst0 Mst Mtk0 Mtk1 Mtk2].
  (* 1. the barrier *)
  assert (A1 : at_coll fsys P s K_BARRIER 0).
  { intros r Hr. rewrite (Mdone r Hr). unfold fp, fin_prog. eauto. }
  pose proof (irun_coll1 fsys P c12_local fs_eff c12_creply c12_gives c12_ctok s (Held (P - 1)) K_BARRIER 0 HP eq_refl A1) as R1.
  change (tok_coll c12_ctok (Held (P - 1)) K_BARRIER 0) with (Held 0) in R1.
  set (s4 := mkst (advance fsys P c12_creply s K_BARRIER 0) (sch s) (ssh s)) in *.
  assert (E4 : forall r, 0 <= r < P -> spr s4 r =
             if r =? 0 then io K_FOPEN [mode_code (c_mode wr)]
                               (fun x => if negb (r0 x =? 1) then abort else lastp r (tn ts r) (r0 x =? 1))
             else lastp r (tn ts r) false).
  { intros r Hr. unfold s4. cbn [spr]. unfold advance.
    replace ((0 <=? r) && (r <? P)) with true by lia. rewrite (Mdone r Hr). reflexivity. }
  assert (O4 : forall r, ~ 0 <= r < P -> spr s4 r = out r).
  { intros r Hr. unfold s4. cbn [spr]. unfold advance.
    replace ((0 <=? r) && (r <? P)) with false by lia. apply Mout. exact Hr. }
  (* 2. rank 0 opens the file again *)
  destruct (ssh s) as [w0 st] eqn:Esh. cbn [fs_w fs_st] in *. subst w0.
  assert (L : clrun 0 (spr s4 0) (mkFS w st) (lastp 0 (tn ts 0) (is_some so)) (mkFS w2 (set_st st 0 so))).
  { rewrite E4 by lia. cbn [Z.eqb]. unfold io. eapply lrun_cons; [reflexivity|].
    rewrite eff_fopen, Go. cbn [fst snd]. unfold r0, r1. cbn [nth]. rewrite Hso. cbn [negb Z.eqb]. apply lrun_nil. }
  destruct (irun_lrun fsys P c12_local fs_eff c12_creply c12_gives c12_ctok 0 _ _ _ _ L s4 ltac:(lia) eq_refl eq_refl) as [n2 R2].
  set (s5 := mkst (upd1 (spr s4) 0 (lastp 0 (tn ts 0) (is_some so))) (sch s4) (mkFS w2 (set_st st 0 so))) in *.
  assert (E5 : forall r, 0 <= r < P -> spr s5 r = lastp r (tn ts r) ((r =? 0) && is_some so)).
  { intros r Hr. unfold s5. cbn [spr]. destruct (Z.eqb_spec r 0) as [->|Hr0]; cbn [andb].
    - apply upd1_same.
    - rewrite upd1_other by exact Hr0. rewrite (E4 r Hr). destruct (Z.eqb_spec r 0); [contradiction|reflexivity]. }
  (* 3. the broadcast from the last rank *)
  assert (A5 : at_coll fsys P s5 K_BCAST (P - 1)).
  { intros r Hr. rewrite (E5 r Hr), lastp_eq. eauto. }
  pose proof (irun_coll1 fsys P c12_local fs_eff c12_creply c12_gives c12_ctok s5 (Held 0) K_BCAST (P - 1) HP eq_refl A5) as R3.
  change (tok_coll c12_ctok (Held 0) K_BCAST (P - 1)) with (Held 0) in R3.
  eexists (1 + n2 + 1)%nat, _. split; [eapply irun_app; [eapply irun_app; [exact R1|exact R2]|exact R3]|].
  cbn [spr sch ssh fs_w fs_st]. split; [|split; [|split; [|split; [|split]]]].
  - intros r Hr. unfold advance. replace ((0 <=? r) && (r <? P)) with true by lia.
    rewrite (E5 r Hr), lastp_eq. unfold c12_creply. cbn [Z.eqb K_BCAST]. unfold contribs.
    rewrite (E5 (P - 1)) by lia. rewrite lastp_eq. rewrite Z.eqb_refl. cbn [hd].
    destruct (r =? P - 1) eqn:Er; [|reflexivity].
    assert (r = P - 1) as -> by lia. reflexivity.
  - intros r Hr. unfold advance. replace ((0 <=? r) && (r <? P)) with false by lia.
    unfold s5. cbn [spr]. rewrite upd1_other by lia. apply O4. exact Hr.
  - intros a b. apply Mch0. lia.
  - reflexivity.
  - apply set_st_same.
  - intros r Hr. unfold s5. cbn [ssh fs_st]. rewrite set_st_other by exact Hr. apply Mst. exact Hr.
Qed.

Lemma last_tn : forall ts, ts <> [] -> last ts (mkT 0 0 []) = tn ts (len ts - 1).
Proof.
  induction ts as [|t ts IH]; intros H; [congruence|].
  destruct ts as [|t' ts'].
  - reflexivity.
  - rewrite last_cons by congruence. rewrite IH by congruence. unfold tn, len. cbn [length].
    replace (Z.to_nat (Z.of_nat (S (S (length ts'))) - 1)) with (S (Z.to_nat (Z.of_nat (S (length ts')) - 1))) by lia.
    reflexivity.
Qed.

Lemma g_turns_length : forall rest w q tokv w' ts, g_turns wr w s0 q tokv size rest = Some (w', ts) -> length ts = length rest.
Proof.
  induction rest as [|a rest IH]; intros w q tokv w' ts G; cbn [g_turns] in G.
  - inversion G. reflexivity.
  - destruct (g_turn wr w s0 q tokv size a) as [[w1 t]|]; [|discriminate].
    destruct (g_turns wr w1 s0 (q + 1) (tok_out t) size rest) as [[w2 ts2]|] eqn:G2; [|discriminate].
    inversion G; subst. cbn [length]. f_equal. eapply IH. exact G2.
Qed.

(* THE RANK-ORDER SCHEDULE of one collective read / write, inside an arbitrary continuation K and frame `out` *)
Lemma coll_witness s w ctx g' rs : len args = P ->
  (forall r, 0 <= r < P -> spr s r = cp r) -> (forall r, ~ 0 <= r < P -> spr s r = out r) ->
  (forall a b, sch s a b = []) ->
  fs_w (ssh s) = w -> fs_st (ssh s) 0 = s0 -> (forall r, r <> 0 -> fs_st (ssh s) r = None) ->
  g_coll wr (mkG w s0 ctx) size args = Some (g', rs) ->
  exists n s', cirun P n (Good s (Held 0)) (Good s' (Held 0))
    /\ (forall r, 0 <= r < P ->
          spr s' r = K r (r_cls (nth (Z.to_nat r) rs (mkR 0 0 []))) (r_ocount (nth (Z.to_nat r) rs (mkR 0 0 [])))
                         (r_buf (nth (Z.to_nat r) rs (mkR 0 0 []))) (mkH true ((r =? 0) && is_some (g_s0 g'))))
    /\ (forall r, ~ 0 <= r < P -> spr s' r = out r)
    /\ (forall a b, sch s' a b = [])
    /\ fs_w (ssh s') = g_w g' /\ fs_st (ssh s') 0 = g_s0 g' /\ (forall r, r <> 0 -> fs_st (ssh s') r = None)
    /\ g_ctx g' = ctx /\ len rs = P.
Proof.
  intros Hlen Hp Ho Hc Hw Hs0 Hst G. unfold g_coll in G. cbn [g_w g_s0 g_ctx] in G.
  destruct (g_turns wr w s0 0 (-1) size args) as [[w1 ts]|] eqn:Gt; [|discriminate].
  destruct (g_fopen w1 0 (if wr then MAppend else MRead)) as [[w2 so] e] eqn:Go.
  destruct so as [sr|] eqn:Eso; [|discriminate]. rewrite <- Eso in *.
  assert (Hso : is_some so = true) by (rewrite Eso; reflexivity).
  inversion G; subst g' rs. clear G. cbn [g_w g_s0 g_ctx].
  assert (M0 : mid 0 (-1) w [] s (Held 0)).
  { constructor.
    - reflexivity.
    - intros r Hr. lia.
    - intros r Hr. apply Hp. lia.
    - exact Ho.
    - intros Hx. lia.
    - intros a b _. apply Hc.
    - exact Hw.
    - exact Hs0.
    - exact Hst.
    - reflexivity.
    - intros Hx. lia.
    - intros Hx. lia. }
  destruct (mid_turns args 0 (-1) w [] s (Held 0) w1 ts ltac:(lia) ltac:(lia) eq_refl M0 ltac:(auto) Gt)
    as (n1 & s1 & tk1 & tv & R1 & M1).
  cbn [app] in M1. pose proof (mid_tk2 _ _ _ _ _ _ M1 eq_refl) as Etk. subst tk1.
  destruct (finale tv w1 ts s1 w2 so e M1 Go Hso) as (n2 & s2 & R2 & Fp & Fo & Fc & Fw & Fs0 & Fst).
  exists (n1 + n2)%nat, s2. split; [eapply irun_app; eauto|].
  pose proof (g_turns_length _ _ _ _ _ _ Gt) as Lts.
  assert (Hlts : len ts = P) by (unfold len in *; lia).
  assert (Hne : ts <> []) by (intros ->; unfold len in Hlts; cbn in Hlts; lia).
  split; [|split; [exact Fo|split; [exact Fc|split; [exact Fw|split; [exact Fs0|split; [exact Fst|split; [reflexivity|]]]]]]].
  - intros r Hr. rewrite (Fp r Hr). rewrite last_tn by exact Hne. rewrite Hlts.
    set (f := fun t : turn => mkR (errclass CfgC (t_errval (tn ts (P - 1)))) (t_ocount t) (t_buf t)).
    rewrite (nth_indep (map f ts) (mkR 0 0 []) (f dturn)) by (rewrite map_length; unfold len in Hlts; lia).
    rewrite map_nth. reflexivity.
  - unfold len. rewrite map_length. exact Hlts.
Qed.

End Witness.

(* ================================================================== EVERY SCHEDULE of one collective operation *)
Definition csched (P : Z) := schedule_independent fsys P c12_local fs_eff c12_creply.

Lemma in_range_true r P : 0 <= r < P -> (0 <=? r) && (r <? P) = true.
Proof. lia. Qed.
Lemma in_range_false r P : ~ 0 <= r < P -> (0 <=? r) && (r <? P) = false.
Proof. lia. Qed.

Theorem coll_every_schedule wr size args g g' rs : 0 < len args ->
  g_coll wr g size args = Some (g', rs) ->
  cfinal (len args) (coll_final (len args) g' rs)
  /\ exists n, csched (len args) (coll_state wr (len args) size args (g_w g) (g_s0 g)) (coll_final (len args) g' rs) n.
Proof.
  intros HP G. set (P := len args) in *.
  split.
  { intros r Hr. unfold coll_final. cbn [spr]. rewrite in_range_true by exact Hr. unfold k_ret. eauto. }
  destruct g as [w s0 ctx]. cbn [g_w g_s0] in *.
  destruct (coll_witness wr P size args (fun _ => k_ret) s0 (fun _ => Ret []) HP
                         (coll_state wr P size args w s0) w ctx g' rs eq_refl) as (n & s' & R & Fp & Fo & Fc & Fw & Fs0 & Fst & _ & _).
  - intros r Hr. unfold coll_state. cbn [spr]. rewrite in_range_true by exact Hr. reflexivity.
  - intros r Hr. unfold coll_state. cbn [spr]. rewrite in_range_false by exact Hr. reflexivity.
  - reflexivity.
  - reflexivity.
  - reflexivity.
  - intros r Hr. unfold coll_state. cbn [ssh fs_st]. destruct (Z.eqb_spec r 0); [contradiction|reflexivity].
  - exact G.
  - exists n.
    assert (E : s' = coll_final P g' rs).
    { destruct s' as [pr' ch' [w' st']]. cbn [spr sch ssh fs_w fs_st] in *. unfold coll_final. f_equal.
      - extensionality r. destruct (Z.le_gt_cases 0 r); [destruct (Z.lt_ge_cases r P)|].
        + rewrite in_range_true by lia. apply Fp. lia.
        + rewrite in_range_false by lia. apply Fo. lia.
        + rewrite in_range_false by lia. apply Fo. lia.
      - extensionality a. extensionality b. apply Fc.
      - f_equal; [exact Fw|]. extensionality q. destruct (Z.eqb_spec q 0) as [->|Hq]; [exact Fs0|apply Fst; exact Hq]. }
    rewrite E in R.
    eapply one_schedule_independent; [exact R|].
    intros r Hr. unfold coll_final. cbn [spr]. rewrite in_range_true by exact Hr. unfold k_ret. eauto.
Qed.

(* fault-free collective write: in EVERY schedule the file ends up as the old content followed by the blocks in rank
   order, every rank returns SUCCESS and ocount = count *)
Corollary coll_write_every_schedule g c fl op lg s size args :
  wst (g_w g) c fl op lg -> g_s0 g = Some s -> at_end s c -> args <> [] -> Forall (wf_arg size) args ->
  forall m s', crun (len args) m (coll_state true (len args) size args (g_w g) (g_s0 g)) s' ->
    (cfinal (len args) s' \/ exists l s'', cstep (len args) s' l s'')
    /\ (cfinal (len args) s' ->
          content (fs_w (ssh s')) = c ++ concat (map a_data args)
          /\ forall r, 0 <= r < len args ->
               spr s' r = k_ret (SUCCESS CfgC) (a_count (arg_of args r)) [] (mkH true (r =? 0))).
Proof.
  intros Hw Hs He Hne Hwf m s' Hrun.
  destruct (coll_write_nf g c fl op lg s size args Hw Hs He Hne Hwf) as (g' & G & Hw' & Hs' & _).
  assert (HP : 0 < len args) by (destruct args; [congruence|unfold len; cbn [length]; lia]).
  destruct (coll_every_schedule true size args g g' _ HP G) as (_ & n & Hall).
  destruct (Hall m s' Hrun) as (_ & _ & Hfin & Hns & _).
  split; [exact Hns|]. intros Hf. destruct (Hfin Hf) as [-> _].
  split.
  - unfold coll_final. cbn [ssh fs_w]. apply (wst_content _ _ _ _ _ Hw').
  - intros r Hr. unfold coll_final. cbn [spr]. rewrite in_range_true by exact Hr.
    rewrite Hs'. cbn [is_some]. rewrite andb_true_r.
    change (mkR 0 0 []) with ((fun a => mkR (SUCCESS CfgC) (a_count a) []) (mkA 0 0 [])). rewrite map_nth. reflexivity.
Qed.

(* ------------------------------------------------------------------ schedules of open / close / explicit-offset calls *)
Lemma tok_coll_bcast tk root : tok_coll c12_ctok tk K_BCAST root = tk.
Proof. destruct tk; reflexivity. Qed.

Lemma set_st_id st r o : st r = o -> set_st st r o = st.
Proof. intros H. extensionality q. unfold set_st. destruct (Z.eqb_spec q r); [subst; auto|reflexivity]. Qed.

(* all ranks are at a broadcast from rho: one collective step *)
Lemma bcast_step P s tk rho (v : Z -> Z) (Kb : Z -> Z -> prog) : 0 < P -> 0 <= rho < P ->
  (forall r, 0 <= r < P -> spr s r = bcast true rho r (v r) (Kb r)) ->
  exists s', cirun P 1 (Good s tk) (Good s' tk)
    /\ (forall r, 0 <= r < P -> spr s' r = Kb r (v rho))
    /\ (forall r, ~ 0 <= r < P -> spr s' r = spr s r)
    /\ sch s' = sch s /\ ssh s' = ssh s.
Proof.
  intros HP Hrho Hp.
  assert (A : at_coll fsys P s K_BCAST rho).
  { intros r Hr. rewrite (Hp r Hr). unfold bcast. eauto. }
  pose proof (irun_coll1 fsys P c12_local fs_eff c12_creply c12_gives c12_ctok s tk K_BCAST rho HP eq_refl A) as R.
  rewrite tok_coll_bcast in R.
  eexists. split; [exact R|]. cbn [spr sch ssh]. split; [|split; [|split; reflexivity]].
  - intros r Hr. unfold advance. rewrite in_range_true by exact Hr. rewrite (Hp r Hr). unfold bcast.
    unfold c12_creply. cbn [Z.eqb K_BCAST]. unfold contribs. rewrite (Hp rho Hrho). unfold bcast. rewrite Z.eqb_refl. cbn [hd].
    destruct (Z.eqb_spec r rho) as [->|]; reflexivity.
  - intros r Hr. unfold advance. rewrite in_range_false by exact Hr. reflexivity.
Qed.

(* sc_io_open: rank 0 calls fopen, then the broadcast of its errno *)
Lemma open_witness P s am (Kk : Z -> Z -> hnd -> prog) w st : 0 < P ->
  (forall r, 0 <= r < P -> spr s r = open_prog CfgC r am (Kk r)) -> ssh s = mkFS w st ->
  exists n s', cirun P n (Good s (Held 0)) (Good s' (Held 0))
    /\ (forall r, 0 <= r < P ->
          spr s' r = let cls := errclass CfgC (open_judge (is_some (snd (fst (g_fopen w 0 (mode_of_amode am)))))
                                                          (snd (g_fopen w 0 (mode_of_amode am)))) in
                     if cls =? SUCCESS CfgC
                     then Kk r cls (mkH true ((r =? 0) && is_some (snd (fst (g_fopen w 0 (mode_of_amode am))))))
                     else Kk r cls h_none)
    /\ (forall r, ~ 0 <= r < P -> spr s' r = spr s r)
    /\ sch s' = sch s
    /\ ssh s' = mkFS (fst (fst (g_fopen w 0 (mode_of_amode am)))) (set_st st 0 (snd (fst (g_fopen w 0 (mode_of_amode am))))).
Proof.
  intros HP Hp Hsh.
  destruct (g_fopen w 0 (mode_of_amode am)) as [[w1 so] e] eqn:Eo. cbn [fst snd].
  set (fin := fun (r retval : Z) (hasfile : bool) =>
                bcast true 0 r retval (fun rv => let cls := errclass CfgC rv in
                   if cls =? SUCCESS CfgC then Kk r cls (mkH true hasfile) else Kk r cls h_none)).
  set (ej := open_judge (is_some so) e).
  assert (L : clrun 0 (spr s 0) (mkFS w st) (fin 0 ej (is_some so)) (mkFS w1 (set_st st 0 so))).
  { rewrite (Hp 0) by lia. unfold open_prog. cbn [Z.eqb is_mpi]. unfold io. eapply lrun_cons; [reflexivity|].
    rewrite eff_fopen, Eo. cbn [fst snd]. unfold r0, r1. cbn [nth].
    replace ((if is_some so then 1 else 0) =? 1) with (is_some so) by (destruct so; reflexivity). apply lrun_nil. }
  destruct (irun_lrun fsys P c12_local fs_eff c12_creply c12_gives c12_ctok 0 _ _ _ _ L s ltac:(lia) eq_refl Hsh) as [n1 R1].
  set (s1 := mkst (upd1 (spr s) 0 (fin 0 ej (is_some so))) (sch s) (mkFS w1 (set_st st 0 so))) in *.
  destruct (bcast_step P s1 (Held 0) 0 (fun r => if r =? 0 then ej else 0)
              (fun r rv => let cls := errclass CfgC rv in
                 if cls =? SUCCESS CfgC then Kk r cls (mkH true ((r =? 0) && is_some so)) else Kk r cls h_none) HP ltac:(lia))
    as (s2 & R2 & Fp & Fo & Fc & Fs).
  { intros r Hr. unfold s1. cbn [spr]. destruct (Z.eqb_spec r 0) as [->|Hr0].
    - rewrite upd1_same. reflexivity.
    - rewrite upd1_other by exact Hr0. rewrite (Hp r Hr). unfold open_prog.
      destruct (Z.eqb_spec r 0); [contradiction|]. reflexivity. }
  exists (n1 + 1)%nat, s2. split; [eapply irun_app; [exact R1|exact R2]|]. split; [|split; [|split]].
  - intros r Hr. rewrite (Fp r Hr). reflexivity.
  - intros r Hr. rewrite (Fo r Hr). unfold s1. cbn [spr]. apply upd1_other. lia.
  - rewrite Fc. reflexivity.
  - rewrite Fs. reflexivity.
Qed.

(* sc_io_close: rank 0 calls fclose if it holds a stream, then the broadcast of the class *)
Lemma close_witness P s (hs : Z -> hnd) (Kk : Z -> Z -> hnd -> prog) w st : 0 < P ->
  (forall r, 0 <= r < P -> spr s r = close_prog CfgC r (hs r) (Kk r)) -> ssh s = mkFS w st ->
  h_file (hs 0) = is_some (st 0) -> (forall r, 0 <= r < P -> r <> 0 -> h_file (hs r) = false) ->
  let ec := if is_some (st 0) then errclass CfgC (snd (g_fclose w 0)) else SUCCESS CfgC in
  let w1 := if is_some (st 0) then fst (fst (g_fclose w 0)) else w in
  (is_some (st 0) = true -> Bool.eqb (snd (fst (g_fclose w 0)) =? 0) (ec =? SUCCESS CfgC) = true) ->
  exists n s', cirun P n (Good s (Held 0)) (Good s' (Held 0))
    /\ (forall r, 0 <= r < P -> spr s' r = Kk r ec h_none)
    /\ (forall r, ~ 0 <= r < P -> spr s' r = spr s r)
    /\ sch s' = sch s
    /\ ssh s' = mkFS w1 (set_st st 0 None).
Proof.
  intros HP Hp Hsh Hf0 Hf ec w1 Hok.
  set (fin := fun (r eclass : Z) => bcast true 0 r eclass (fun e => Kk r e h_none)).
  assert (L : clrun 0 (spr s 0) (mkFS w st) (fin 0 ec) (mkFS w1 (set_st st 0 None))).
  { rewrite (Hp 0) by lia. unfold close_prog. cbn [is_mpi]. rewrite Hf0. unfold ec, w1 in *.
    destruct (st 0) as [s0|] eqn:Es; cbn [is_some] in *.
    - unfold io. eapply lrun_cons; [reflexivity|]. rewrite eff_fclose. destruct (g_fclose w 0) as [[wc ret] e]. cbn [fst snd] in *.
      unfold r0, r1. cbn [nth]. rewrite (Hok eq_refl). apply lrun_nil.
    - rewrite (set_st_id st 0 None Es). apply lrun_nil. }
  destruct (irun_lrun fsys P c12_local fs_eff c12_creply c12_gives c12_ctok 0 _ _ _ _ L s ltac:(lia) eq_refl Hsh) as [n1 R1].
  set (s1 := mkst (upd1 (spr s) 0 (fin 0 ec)) (sch s) (mkFS w1 (set_st st 0 None))) in *.
  destruct (bcast_step P s1 (Held 0) 0 (fun r => if r =? 0 then ec else SUCCESS CfgC) (fun r e => Kk r e h_none) HP ltac:(lia))
    as (s2 & R2 & Fp & Fo & Fc & Fs).
  { intros r Hr. unfold s1. cbn [spr]. destruct (Z.eqb_spec r 0) as [->|Hr0].
    - rewrite upd1_same. reflexivity.
    - rewrite upd1_other by exact Hr0. rewrite (Hp r Hr). unfold close_prog. rewrite (Hf r Hr Hr0). reflexivity. }
  exists (n1 + 1)%nat, s2. split; [eapply irun_app; [exact R1|exact R2]|]. split; [|split; [|split]].
  - intros r Hr. rewrite (Fp r Hr). reflexivity.
  - intros r Hr. rewrite (Fo r Hr). unfold s1. cbn [spr]. apply upd1_other. lia.
  - rewrite Fc. reflexivity.
  - rewrite Fs. reflexivity.
Qed.

(* sc_io_read_at / sc_io_write_at on rank 0: the stdio calls of the program are those of g_at *)
Lemma at_lrun wr size a k w st ctx s :
  st 0 = Some s ->
  clrun 0 (at_prog CfgC wr 0 (a_off a) size (a_count a) (a_data a) k) (mkFS w st)
        (k (r_cls (snd (g_at CfgC wr (mkG w (Some s) ctx) 0 size a))) (r_ocount (snd (g_at CfgC wr (mkG w (Some s) ctx) 0 size a)))
           (r_buf (snd (g_at CfgC wr (mkG w (Some s) ctx) 0 size a))))
        (mkFS (g_w (fst (g_at CfgC wr (mkG w (Some s) ctx) 0 size a)))
              (set_st st 0 (g_s0 (fst (g_at CfgC wr (mkG w (Some s) ctx) 0 size a))))).
Proof.
  intros Hs. unfold g_at, g_at_with, at_prog. cbn [g_w g_s0 g_ctx]. cbn [Z.ltb andb].
  destruct (a_count a =? 0).
  { cbn [fst snd g_w g_s0 r_cls r_ocount r_buf]. rewrite (set_st_id st 0 (Some s) Hs). apply lrun_nil. }
  unfold io. eapply lrun_cons; [reflexivity|]. rewrite (eff_ftell _ _ _ s) by exact Hs.
  destruct (g_ftell w 0 s) as [[w1 pos] e1]. cbn [fst snd]. unfold r0 at 1 2. unfold r1 at 1. cbn [nth].
  destruct (pos =? -1).
  { cbn [fst snd g_w g_s0 r_cls r_ocount r_buf]. rewrite (set_st_id st 0 (Some s) Hs). apply lrun_nil. }
  eapply lrun_cons; [reflexivity|]. rewrite (eff_fseek _ _ _ s) by exact Hs.
  destruct (g_fseek w1 0 s (a_off a)) as [[[w2 s2] r2] e2]. cbn [fst snd]. unfold r0 at 1. unfold r1 at 1. cbn [nth].
  destruct (negb (r2 =? 0)).
  { cbn [fst snd g_w g_s0 r_cls r_ocount r_buf]. apply lrun_nil. }
  destruct wr.
  - eapply lrun_cons; [reflexivity|]. rewrite (eff_fwrite _ _ _ s2) by apply set_st_same.
    destruct (g_fwrite w2 0 s2 size (a_count a) (a_data a)) as [[[w3 s3] oc] e3]. cbn [fst snd].
    unfold r0 at 1 2 3. unfold r1 at 1 2 3. unfold rdata. cbn [nth skipn]. rewrite set_st_twice.
    destruct (negb (e3 =? 0) && (oc =? 0)).
    { cbn [fst snd g_w g_s0 r_cls r_ocount r_buf]. apply lrun_nil. }
    eapply lrun_cons; [reflexivity|]. rewrite (eff_fseek _ _ _ s3) by apply set_st_same.
    destruct (g_fseek w3 0 s3 pos) as [[[w4 s4] r4] e4]. cbn [fst snd g_w g_s0 r_cls r_ocount r_buf]. unfold r1. cbn [nth].
    rewrite set_st_twice. apply lrun_nil.
  - eapply lrun_cons; [reflexivity|]. rewrite (eff_fread _ _ _ s2) by apply set_st_same.
    destruct (g_fread w2 0 s2 size (a_count a)) as [[[[w3 s3] oc] e3] buf]. cbn [fst snd].
    unfold r0 at 1 2 3. unfold r1 at 1 2 3. unfold rdata. cbn [nth skipn]. rewrite set_st_twice.
    destruct (negb (e3 =? 0) && (oc =? 0)).
    { cbn [fst snd g_w g_s0 r_cls r_ocount r_buf]. apply lrun_nil. }
    eapply lrun_cons; [reflexivity|]. rewrite (eff_fseek _ _ _ s3) by apply set_st_same.
    destruct (g_fseek w3 0 s3 pos) as [[[w4 s4] r4] e4]. cbn [fst snd g_w g_s0 r_cls r_ocount r_buf]. unfold r1. cbn [nth].
    rewrite set_st_twice. apply lrun_nil.
Qed.

(* ================================================================== EVERY SCHEDULE of a whole scenario (configuration C) *)
Lemma nth_ranks {A} (f : Z -> A) P d r : 0 <= r < P -> nth (Z.to_nat r) (map f (ranks P)) d = f r.
Proof.
  intros H. unfold ranks. rewrite map_map.
  rewrite (nth_indep _ d (f (Z.of_nat 0))) by (rewrite map_length, seq_length; lia).
  rewrite (map_nth (fun x => f (Z.of_nat x))). rewrite seq_nth by lia. f_equal. lia.
Qed.

Lemma at_ctx_s0 tail c wr g q size a :
  g_ctx (fst (g_at_with tail c wr g q size a)) = g_ctx g
  /\ (is_some (g_s0 g) = true -> is_some (g_s0 (fst (g_at_with tail c wr g q size a))) = true).
Proof.
  unfold g_at_with. destruct (a_count a =? 0); [cbn [fst]; auto|].
  destruct (g_s0 g) as [s|] eqn:Es; [|cbn [fst]; rewrite Es; auto].
  destruct (g_ftell (g_w g) q s) as [[w1 pos] e1]. destruct (pos =? -1); [cbn; auto|].
  destruct (g_fseek w1 q s (a_off a)) as [[[w2 s2] r2] e2]. destruct (negb (r2 =? 0)); [cbn; auto|].
  destruct wr.
  - destruct (g_fwrite w2 q s2 size (a_count a) (a_data a)) as [[[w3 s3] oc] e3].
    destruct (negb (e3 =? 0) && (oc =? 0)); [cbn; auto|].
    destruct (g_fseek w3 q s3 pos) as [[[w4 s4] r4] e4]. cbn; auto.
  - destruct (g_fread w2 q s2 size (a_count a)) as [[[[w3 s3] oc] e3] buf].
    destruct (negb (e3 =? 0) && (oc =? 0)); [cbn; auto|].
    destruct (g_fseek w3 q s3 pos) as [[[w4 s4] r4] e4]. cbn; auto.
Qed.

Lemma nth_single {A} (x d : A) r : 0 <= r -> nth (Z.to_nat r) [x] d = if r =? 0 then x else d.
Proof.
  intros H. destruct (Z.eqb_spec r 0) as [->|Hr]; [reflexivity|].
  destruct (Z.to_nat r) as [|n] eqn:E; [lia|]. destruct n; reflexivity.
Qed.

Definition ops_ok (P : Z) (ops : list op) : Prop :=
  Forall (fun o => match o with OColl _ _ args => len args = P | _ => True end) ops.
(* what rank r prints for a list of per-operation outputs of the global model *)
Definition outs_of (r : Z) (outs : list (list payload)) : payload := concat (map (fun o => nth (Z.to_nat r) o []) outs).

Record sinv (P : Z) (ops : list op) (g : gstate) (hs : Z -> hnd) (accs : Z -> payload) (s : cstate) : Prop := mkSI {
  si_pr : forall r, 0 <= r < P -> spr s r = scen_prog_C P r ops (hs r) (accs r);
  si_out : forall r, ~ 0 <= r < P -> spr s r = Ret [];
  si_ch : forall a b, sch s a b = [];
  si_w : fs_w (ssh s) = erase (g_w g);
  si_st0 : fs_st (ssh s) 0 = g_s0 g;
  si_st : forall r, r <> 0 -> fs_st (ssh s) r = None;
  si_ctx : forall r, 0 <= r < P -> h_ctx (hs r) = g_ctx g;
  si_hf0 : h_file (hs 0) = is_some (g_s0 g);
  si_hf : forall r, 0 <= r < P -> r <> 0 -> h_file (hs r) = false;
  si_some : g_ctx g = true -> is_some (g_s0 g) = true;
  si_plan : plan_ok (w_plan (g_w g)) }.

Lemma outs_of_cons r o outs : outs_of r (o :: outs) = nth (Z.to_nat r) o [] ++ outs_of r outs.
Proof. reflexivity. Qed.

Lemma scen_witness P : 0 < P -> forall ops g hs accs s g' outs,
  sinv P ops g hs accs s -> ops_ok P ops -> g_scen CfgC P g ops = Some (g', outs) ->
  exists n s', cirun P n (Good s (Held 0)) (Good s' (Held 0))
    /\ (forall r, 0 <= r < P -> spr s' r = Ret (accs r ++ outs_of r outs))
    /\ (forall r, ~ 0 <= r < P -> spr s' r = Ret [])
    /\ (forall a b, sch s' a b = [])
    /\ fs_w (ssh s') = erase (g_w g') /\ fs_st (ssh s') 0 = g_s0 g' /\ (forall r, r <> 0 -> fs_st (ssh s') r = None).
Proof.
  intros HP. induction ops as [|o rest IH]; intros g hs accs s g' outs SI Hok G.
  { cbn [g_scen] in G. inversion G; subst. exists 0%nat, s. split; [constructor|].
    destruct SI. split; [|split; [assumption|split; [assumption|split; [assumption|split; assumption]]]].
    intros r Hr. rewrite si_pr0 by exact Hr. cbn [scen_prog_C]. unfold outs_of. cbn [map concat]. rewrite app_nil_r. reflexivity. }
  inversion Hok as [|? ? Hok1 Hok2]; subst.
  (* the common end of every case: the rest of the scenario from the state s1 after this operation *)
  assert (GLUE : forall g1 out hs' accs' s1 n1,
             cirun P n1 (Good s (Held 0)) (Good s1 (Held 0)) -> sinv P rest g1 hs' accs' s1 ->
             (forall r, 0 <= r < P -> accs' r = accs r ++ nth (Z.to_nat r) out []) ->
             match g_scen CfgC P g1 rest with None => None | Some (g2, outs0) => Some (g2, out :: outs0) end = Some (g', outs) ->
             exists n s', cirun P n (Good s (Held 0)) (Good s' (Held 0))
               /\ (forall r, 0 <= r < P -> spr s' r = Ret (accs r ++ outs_of r outs))
               /\ (forall r, ~ 0 <= r < P -> spr s' r = Ret [])
               /\ (forall a b, sch s' a b = [])
               /\ fs_w (ssh s') = erase (g_w g') /\ fs_st (ssh s') 0 = g_s0 g' /\ (forall r, r <> 0 -> fs_st (ssh s') r = None)).
  { intros g1 out hs' accs' s1 n1 R1 SI1 Hacc Gc.
    destruct (g_scen CfgC P g1 rest) as [[g2 outs0]|] eqn:Gr; [|discriminate]. inversion Gc; subst g2 outs. clear Gc.
    destruct (IH g1 hs' accs' s1 g' outs0 SI1 Hok2 Gr) as (n2 & s2 & R2 & Fp & Fo & Fc & Fw & Fs0 & Fst).
    exists (n1 + n2)%nat, s2. split; [eapply irun_app; [exact R1|exact R2]|].
    split; [|split; [exact Fo|split; [exact Fc|split; [exact Fw|split; [exact Fs0|exact Fst]]]]].
    intros r Hr. rewrite (Fp r Hr), (Hacc r Hr), outs_of_cons, app_assoc. reflexivity. }
  destruct SI as [Spr Sout Sch Sw Sst0 Sst Sctx Shf0 Shf Ssome Splan].
  destruct (ssh s) as [wv st] eqn:Esh. cbn [fs_w fs_st] in Sw, Sst0, Sst. subst wv.
  destruct o as [am| |wr size args|wr size a]; cbn [g_scen nproc] in G.
  - (* ---- open *)
    unfold g_open, g_open_with in G.
    set (w0 := add_ledger (g_w g) P) in *.
    destruct (erase_fopen w0 0 (mode_of_amode am)) as [Ee Pe]. change (erase w0) with (erase (g_w g)) in Ee.
    destruct (g_fopen w0 0 (mode_of_amode am)) as [[w1 so] e] eqn:Eo. cbn [fst snd] in Ee, Pe.
    destruct (open_witness P s am (fun r cls h' => scen_prog_C P r rest h' (accs r ++ enc CfgC cls 0 (negb (h_ctx h')) []))
                           (erase (g_w g)) st HP) as (n1 & s1 & R1 & Fp & Fo & Fc & Fs).
    { intros r Hr. rewrite (Spr r Hr). reflexivity. }
    { exact Esh. }
    rewrite Ee in Fp, Fs. cbn [fst snd] in Fp, Fs.
    assert (Hplan0 : plan_ok (w_plan w0)) by exact Splan.
    destruct (acct_fopen _ _ _ _ _ _ Hplan0 Eo) as (_ & _ & Z0 & Z1).
    (* under plan_ok a stream comes with errno 0: the judgement of the repaired line is errno itself *)
    assert (Hj : open_judge (match so with Some _ => true | None => false end) e = e).
    { destruct so; [|reflexivity]. cbn. destruct (Z.eq_dec e 0) as [E|E]; [auto|]. destruct (Z1 E) as [H _]. discriminate. }
    assert (Hj2 : open_judge (is_some so) e = e) by exact Hj.
    rewrite Hj in G. rewrite Hj2 in Fp. clear Z1.
    destruct (errclass CfgC e =? SUCCESS CfgC) eqn:Ec.
    + assert (E0 : e = 0) by (apply (errclass_success_iff CfgC); apply Z.eqb_eq; exact Ec).
      destruct (Z0 E0) as (Hso & _ & _).
      eapply (GLUE _ _ (fun r => mkH true ((r =? 0) && is_some so))
                   (fun r => accs r ++ enc CfgC (errclass CfgC e) 0 false []) s1 n1 R1); [| |exact G].
      * constructor; cbn [g_w g_s0 g_ctx h_ctx h_file].
        -- intros r Hr. rewrite (Fp r Hr). reflexivity.
        -- intros r Hr. rewrite (Fo r Hr). apply Sout. exact Hr.
        -- intros a b. rewrite Fc. apply Sch.
        -- rewrite Fs. reflexivity.
        -- rewrite Fs. cbn [fs_st]. apply set_st_same.
        -- intros r Hr. rewrite Fs. cbn [fs_st]. rewrite set_st_other by exact Hr. apply Sst. exact Hr.
        -- reflexivity.
        -- reflexivity.
        -- intros r _ Hr. destruct (Z.eqb_spec r 0); [contradiction|reflexivity].
        -- intros _. destruct so; [reflexivity|congruence].
        -- rewrite Pe. exact Splan.
      * intros r Hr. cbn [g_ctx negb]. unfold bcast_all. rewrite !map_map. rewrite nth_ranks by exact Hr. reflexivity.
    + assert (E0 : e <> 0).
      { intros ->. rewrite (proj2 (errclass_success_iff CfgC 0) eq_refl), Z.eqb_refl in Ec. discriminate. }
      assert (so = None) as -> by (eapply fopen_err_none; [apply plan_ok_honest; exact Hplan0|exact Eo|exact E0]).
      eapply (GLUE _ _ (fun _ => h_none) (fun r => accs r ++ enc CfgC (errclass CfgC e) 0 true []) s1 n1 R1); [| |exact G].
      * constructor; cbn [g_w g_s0 g_ctx h_ctx h_file h_none].
        -- intros r Hr. rewrite (Fp r Hr). reflexivity.
        -- intros r Hr. rewrite (Fo r Hr). apply Sout. exact Hr.
        -- intros a b. rewrite Fc. apply Sch.
        -- rewrite Fs. reflexivity.
        -- rewrite Fs. cbn [fs_st]. apply set_st_same.
        -- intros r Hr. rewrite Fs. cbn [fs_st]. rewrite set_st_other by exact Hr. apply Sst. exact Hr.
        -- reflexivity.
        -- reflexivity.
        -- reflexivity.
        -- discriminate.
        -- cbn [add_ledger w_plan]. rewrite Pe. exact Splan.
      * intros r Hr. cbn [g_ctx negb]. unfold bcast_all. rewrite !map_map. rewrite nth_ranks by exact Hr. reflexivity.
  - (* ---- close *)
    destruct (g_ctx g) eqn:Ectx.
    + destruct (g_close CfgC P g) as [[g1 cls]|] eqn:Gc; [|discriminate].
      unfold g_close in Gc.
      destruct (erase_fclose (g_w g) 0) as [Ee Pe].
      assert (Hrun : exists ec n1 s1, cirun P n1 (Good s (Held 0)) (Good s1 (Held 0))
                 /\ (forall r, 0 <= r < P -> spr s1 r = scen_prog_C P r rest h_none (accs r ++ enc CfgC ec 0 true []))
                 /\ (forall r, ~ 0 <= r < P -> spr s1 r = spr s r) /\ sch s1 = sch s
                 /\ ssh s1 = mkFS (erase (g_w g1)) (set_st st 0 None)
                 /\ cls = bcast_all P ec /\ g_s0 g1 = None /\ g_ctx g1 = false /\ w_plan (g_w g1) = w_plan (g_w g)).
      { destruct (close_witness P s hs (fun r ec h' => scen_prog_C P r rest h' (accs r ++ enc CfgC ec 0 true []))
                                (erase (g_w g)) st HP) as (n1 & s1 & R1 & Fp & Fo & Fc & Fs).
        - intros r Hr. rewrite (Spr r Hr). cbn [scen_prog_C]. rewrite (Sctx r Hr). reflexivity.
        - exact Esh.
        - rewrite Shf0, Sst0. reflexivity.
        - exact Shf.
        - intros Hsome. rewrite Hsome. rewrite Ee. cbn [fst snd].
          rewrite Sst0 in Hsome. destruct (g_s0 g) as [s00|]; [|discriminate].
          destruct (g_fclose (g_w g) 0) as [[w1 ret] e]. cbn [fst snd].
          destruct (Bool.eqb (ret =? 0) (errclass CfgC e =? SUCCESS CfgC)); [reflexivity|discriminate].
        - rewrite Sst0 in *. destruct (g_s0 g) as [s00|]; cbn [is_some] in *.
          + rewrite Ee in Fp, Fs. cbn [fst snd] in Fp, Fs.
            destruct (g_fclose (g_w g) 0) as [[w1 ret] e]. cbn [fst snd] in *.
            destruct (Bool.eqb (ret =? 0) (errclass CfgC e =? SUCCESS CfgC)); [|discriminate].
            inversion Gc; subst g1 cls. exists (errclass CfgC e), n1, s1. cbn [g_w g_s0 g_ctx add_ledger w_plan].
            repeat (split; [assumption || reflexivity|]). exact Pe.
          + inversion Gc; subst g1 cls. exists (SUCCESS CfgC), n1, s1. cbn [g_w g_s0 g_ctx add_ledger w_plan].
            repeat (split; [assumption || reflexivity|]). reflexivity. }
      destruct Hrun as (ec & n1 & s1 & R1 & Fp & Fo & Fc & Fs & -> & Hs0 & Hctx & Hpl).
      eapply (GLUE g1 _ (fun _ => h_none) (fun r => accs r ++ enc CfgC ec 0 true []) s1 n1 R1); [| |exact G].
      * constructor; cbn [h_ctx h_file h_none].
        -- exact Fp.
        -- intros r Hr. rewrite (Fo r Hr). apply Sout. exact Hr.
        -- intros a b. rewrite Fc. apply Sch.
        -- rewrite Fs. reflexivity.
        -- rewrite Fs, Hs0. cbn [fs_st]. apply set_st_same.
        -- intros r Hr. rewrite Fs. cbn [fs_st]. rewrite set_st_other by exact Hr. apply Sst. exact Hr.
        -- intros r _. rewrite Hctx. reflexivity.
        -- rewrite Hs0. reflexivity.
        -- reflexivity.
        -- rewrite Hctx. discriminate.
        -- rewrite Hpl. exact Splan.
      * intros r Hr. unfold bcast_all. rewrite !map_map. rewrite nth_ranks by exact Hr. reflexivity.
    + eapply (GLUE g _ hs (fun r => accs r ++ SKIP) s 0%nat (irun_nil _ _ _ _ _ _ _ _)); [| |exact G].
      * constructor; try assumption.
        -- intros r Hr. rewrite (Spr r Hr). cbn [scen_prog_C]. rewrite (Sctx r Hr). reflexivity.
        -- rewrite Esh. reflexivity.
        -- rewrite Esh. exact Sst0.
        -- rewrite Esh. exact Sst.
        -- intros r Hr. rewrite Ectx. apply Sctx. exact Hr.
        -- rewrite Ectx. discriminate.
      * intros r Hr. rewrite nth_ranks by exact Hr. reflexivity.
  - (* ---- collective read / write *)
    destruct (g_ctx g) eqn:Ectx.
    + destruct (g_coll wr g size args) as [[g1 rs]|] eqn:Gc; [|discriminate].
      destruct (erase_coll wr g size args) as [Ee Pe]. rewrite Gc in Ee, Pe.
      destruct (coll_witness wr P size args
                  (fun r cls oc buf h' => scen_prog_C P r rest h' (accs r ++ enc CfgC cls oc false buf))
                  (g_s0 g) (fun _ => Ret []) HP s (erase (g_w g)) (g_ctx g) (gerase g1) rs Hok1)
        as (n1 & s1 & R1 & Fp & Fo & Fc & Fw & Fs0 & Fst & Fctx & Flen).
      { intros r Hr. rewrite (Spr r Hr). cbn [scen_prog_C]. rewrite (Sctx r Hr). reflexivity. }
      { exact Sout. }
      { exact Sch. }
      { rewrite Esh. reflexivity. }
      { rewrite Esh. exact Sst0. }
      { rewrite Esh. exact Sst. }
      { exact Ee. }
      cbn [gerase g_w g_s0 g_ctx] in Fp, Fw, Fs0, Fctx.
      assert (Hs1 : is_some (g_s0 g1) = true).
      { (* the re-open of rank 0 succeeded, so there is a stream *)
        clear - Gc Splan. unfold g_coll in Gc.
        destruct (erase_turns wr (g_s0 g) size args (g_w g) 0 (-1)) as [_ Pt].
        destruct (g_turns wr (g_w g) (g_s0 g) 0 (-1) size args) as [[w1 ts]|]; [|discriminate]. cbn [oplan] in Pt.
        destruct (g_fopen w1 0 (if wr then MAppend else MRead)) as [[w2 so] e] eqn:Eo.
        destruct so as [sr|]; [|discriminate]. inversion Gc; subst. reflexivity. }
      eapply (GLUE g1 _ (fun r => mkH true ((r =? 0) && is_some (g_s0 g1)))
                   (fun r => accs r ++ enc_r CfgC (nth (Z.to_nat r) rs (mkR 0 0 []))) s1 n1 R1); [| |exact G].
      * constructor; cbn [h_ctx h_file].
        -- intros r Hr. rewrite (Fp r Hr). reflexivity.
        -- exact Fo.
        -- exact Fc.
        -- exact Fw.
        -- exact Fs0.
        -- exact Fst.
        -- intros r _. congruence.
        -- rewrite Hs1. reflexivity.
        -- intros r _ Hr. destruct (Z.eqb_spec r 0); [contradiction|reflexivity].
        -- intros _. exact Hs1.
        -- rewrite Pe. exact Splan.
      * intros r Hr. f_equal.
        rewrite (nth_indep _ [] (enc_r CfgC (mkR 0 0 []))) by (rewrite map_length; unfold len in Flen; lia).
        rewrite map_nth. reflexivity.
    + eapply (GLUE g _ hs (fun r => accs r ++ SKIP) s 0%nat (irun_nil _ _ _ _ _ _ _ _)); [| |exact G].
      * constructor; try assumption.
        -- intros r Hr. rewrite (Spr r Hr). cbn [scen_prog_C]. rewrite (Sctx r Hr). reflexivity.
        -- rewrite Esh. reflexivity.
        -- rewrite Esh. exact Sst0.
        -- rewrite Esh. exact Sst.
        -- intros r Hr. rewrite Ectx. apply Sctx. exact Hr.
        -- rewrite Ectx. discriminate.
      * intros r Hr. rewrite nth_ranks by exact Hr. reflexivity.
  - (* ---- explicit-offset read / write by rank 0 *)
    destruct (g_ctx g) eqn:Ectx.
    + destruct (g_s0 g) as [s00|] eqn:Es0; [|specialize (Ssome eq_refl); discriminate].
      destruct (erase_at at_tail CfgC wr g 0 size a) as [Ee Pe].
      destruct (at_ctx_s0 at_tail CfgC wr g 0 size a) as [Hc1 Hs1].
      fold (g_at CfgC wr g 0 size a) in Ee, Pe, Hc1, Hs1.
      assert (Eg : gerase g = mkG (erase (g_w g)) (Some s00) (g_ctx g)) by (unfold gerase; rewrite Es0; reflexivity).
      rewrite Eg in Ee. fold (g_at CfgC wr (mkG (erase (g_w g)) (Some s00) (g_ctx g)) 0 size a) in Ee.
      destruct (g_at CfgC wr g 0 size a) as [g1 r1] eqn:Ga. cbn [fst snd] in *.
      assert (Hsome1 : is_some (g_s0 g1) = true) by (apply Hs1; rewrite Es0; reflexivity).
      pose proof (at_lrun wr size a (fun cls oc buf => scen_prog_C P 0 rest (hs 0) (accs 0 ++ enc CfgC cls oc false buf))
                          (erase (g_w g)) st (g_ctx g) s00 Sst0) as L.
      rewrite Ee in L. cbn [fst snd gerase g_w g_s0] in L.
      assert (E0 : spr s 0 = at_prog CfgC wr 0 (a_off a) size (a_count a) (a_data a)
                               (fun cls oc buf => scen_prog_C P 0 rest (hs 0) (accs 0 ++ enc CfgC cls oc false buf))).
      { rewrite (Spr 0) by lia. cbn [scen_prog_C Z.eqb negb]. rewrite (Sctx 0) by lia. reflexivity. }
      destruct (irun_lrun fsys P c12_local fs_eff c12_creply c12_gives c12_ctok 0 _ _ _ _ L s ltac:(lia) E0 Esh) as [n1 R1].
      eapply (GLUE g1 _ hs (fun r => if r =? 0 then accs 0 ++ enc_r CfgC r1 else accs r) _ n1 R1); [| |exact G].
      * constructor; cbn [spr sch ssh fs_w fs_st].
        -- intros r Hr. destruct (Z.eqb_spec r 0) as [->|Hr0].
           ++ rewrite upd1_same. reflexivity.
           ++ rewrite upd1_other by exact Hr0. rewrite (Spr r Hr). cbn [scen_prog_C].
              destruct (Z.eqb_spec r 0); [contradiction|]. reflexivity.
        -- intros r Hr. rewrite upd1_other by lia. apply Sout. exact Hr.
        -- exact Sch.
        -- reflexivity.
        -- apply set_st_same.
        -- intros r Hr. rewrite set_st_other by exact Hr. apply Sst. exact Hr.
        -- intros r Hr. rewrite Hc1, Ectx. apply Sctx. exact Hr.
        -- rewrite Shf0, Hsome1. reflexivity.
        -- exact Shf.
        -- intros _. exact Hsome1.
        -- rewrite Pe. exact Splan.
      * intros r Hr. rewrite nth_single by lia. destruct (r =? 0) eqn:Er; [|rewrite app_nil_r; reflexivity].
        assert (r = 0) as -> by lia. reflexivity.
    + eapply (GLUE g _ hs (fun r => if r =? 0 then accs 0 ++ SKIP else accs r) s 0%nat (irun_nil _ _ _ _ _ _ _ _)); [| |exact G].
      * constructor; try assumption.
        -- intros r Hr. rewrite (Spr r Hr). cbn [scen_prog_C]. destruct (Z.eqb_spec r 0) as [->|Hr0]; cbn [negb].
           ++ rewrite (Sctx 0) by lia. reflexivity.
           ++ reflexivity.
        -- rewrite Esh. reflexivity.
        -- rewrite Esh. exact Sst0.
        -- rewrite Esh. exact Sst.
        -- intros r Hr. rewrite Ectx. apply Sctx. exact Hr.
        -- rewrite Ectx. discriminate.
      * intros r Hr. rewrite nth_single by lia. destruct (r =? 0) eqn:Er; [|rewrite app_nil_r; reflexivity].
        assert (r = 0) as -> by lia. reflexivity.
Qed.

(* the scenario as the harness runs it: no file context, no stream, nothing allocated *)
Definition scen_state (P : Z) (ops : list op) (node : node) (pl : plan) : cstate :=
  mkst (fun r => if (0 <=? r) && (r <? P) then scen_prog_C P r ops h_none [] else Ret [])
       (fun _ _ => []) (mkFS (world0 node pl) (fun _ => None)).
(* rank r has returned what the global model prints for it; the world is the model's (without the ledger of contexts) *)
Definition scen_final (P : Z) (g' : gstate) (outs : list (list payload)) : cstate :=
  mkst (fun r => if (0 <=? r) && (r <? P) then Ret (outs_of r outs) else Ret [])
       (fun _ _ => []) (mkFS (erase (g_w g')) (fun q => if q =? 0 then g_s0 g' else None)).

Theorem scen_every_schedule P ops node pl g' outs : 0 < P -> plan_ok pl -> ops_ok P ops ->
  g_scen CfgC P (gstate0 node pl) ops = Some (g', outs) ->
  cfinal P (scen_final P g' outs)
  /\ exists n, csched P (scen_state P ops node pl) (scen_final P g' outs) n.
Proof.
  intros HP Hpl Hok G.
  assert (Hfin : cfinal P (scen_final P g' outs)).
  { intros r Hr. unfold scen_final. cbn [spr]. rewrite in_range_true by exact Hr. eauto. }
  split; [exact Hfin|].
  destruct (scen_witness P HP ops (gstate0 node pl) (fun _ => h_none) (fun _ => []) (scen_state P ops node pl) g' outs)
    as (n & s' & R & Fp & Fo & Fc & Fw & Fs0 & Fst).
  - constructor; cbn [gstate0 g_w g_s0 g_ctx h_none h_ctx h_file scen_state spr sch ssh fs_w fs_st is_some].
    + intros r Hr. rewrite in_range_true by exact Hr. reflexivity.
    + intros r Hr. rewrite in_range_false by exact Hr. reflexivity.
    + reflexivity.
    + reflexivity.
    + reflexivity.
    + reflexivity.
    + reflexivity.
    + reflexivity.
    + reflexivity.
    + discriminate.
    + exact Hpl.
  - exact Hok.
  - exact G.
  - exists n.
    assert (E : s' = scen_final P g' outs).
    { destruct s' as [pr' ch' [w' st']]. cbn [spr sch ssh fs_w fs_st] in *. unfold scen_final. f_equal.
      - extensionality r. destruct (Z.le_gt_cases 0 r); [destruct (Z.lt_ge_cases r P)|].
        + rewrite in_range_true by lia. rewrite Fp by lia. reflexivity.
        + rewrite in_range_false by lia. apply Fo. lia.
        + rewrite in_range_false by lia. apply Fo. lia.
      - extensionality a. extensionality b. apply Fc.
      - f_equal; [exact Fw|]. extensionality q. destruct (Z.eqb_spec q 0) as [->|Hq]; [exact Fs0|apply Fst; exact Hq]. }
    rewrite E in R.
    eapply one_schedule_independent; [exact R|exact Hfin].
Qed.

Definition test_scen (P : Z) (ops : list op) (node : node) (pl : plan) : bool * nat :=
  match g_scen CfgC P (gstate0 node pl) ops with
  | None => (false, O)
  | Some (g', outs) =>
    let res := explore 400 P (scen_state P ops node pl) in
    match obs P (scen_final P g' outs) with
    | None => (false, 1%nat)
    | Some e => (forallb (fun o => match o with Some l => leqb l e | None => false end) res, length res)
    end
  end.

(* ================================================================== the ABORT case of one collective operation
   g_coll = None: one of the SC_CHECK_ABORTs fires (read_at_all: seek failed; fflush / fclose failed; the re-open by rank 0
   failed).  The real code then calls MPI_Abort.  In the interleaving semantics the aborting rank ends as `abort` and the others
   wait for ever (at the barrier, at the broadcast, or for the token): a TERMINAL state.  Every schedule leads to this one state. *)
Definition tok_ok (v : Z) : Prop := v = -1 \/ 0 < v.

Lemma e_EBADF_pos : 0 < e_EBADF.
Proof. reflexivity. Qed.

Lemma fwrite_errno_nonneg w q s size count data : plan_ok (w_plan w) -> 0 <= snd (g_fwrite w q s size count data).
Proof.
  intros Hp. unfold g_fwrite, take. cbn [w_node w_plan w_cnt w_fail w_open w_ledger].
  pose proof e_EBADF_pos.
  destruct (st_mode s); cbn [snd]; try lia;
    destruct (w_plan w q FWRITE (w_cnt w q FWRITE)) as [[e sh]|] eqn:E; try lia; eapply plan_ok_nonneg; eauto.
Qed.
Lemma fread_errno_nonneg w q s size count : plan_ok (w_plan w) -> 0 <= snd (fst (g_fread w q s size count)).
Proof.
  intros Hp. unfold g_fread, take. cbn [w_node w_plan w_cnt w_fail w_open w_ledger].
  pose proof e_EBADF_pos.
  destruct (st_mode s); cbn [fst snd]; try lia;
    destruct (w_plan w q FREAD (w_cnt w q FREAD)) as [[e sh]|] eqn:E; try lia; eapply plan_ok_nonneg; eauto.
Qed.

Lemma turn_io_errval wr w q s size a w1 t : plan_ok (w_plan w) -> turn_io wr w q s size a = Some (w1, t) -> 0 <= t_errval t.
Proof.
  intros Hp. unfold turn_io. destruct wr.
  - pose proof (fwrite_errno_nonneg w q s size (a_count a) (a_data a) Hp) as N.
    destruct (g_fwrite w q s size (a_count a) (a_data a)) as [[[w3 s3] oc] e3]. cbn [snd] in N.
    destruct (g_fflush w3 q) as [[w4 r4] e4]. destruct (negb (r4 =? 0)); [discriminate|].
    destruct (g_fclose w4 q) as [[w5 r5] e5]. destruct (negb (r5 =? 0)); [discriminate|].
    intros E. inversion E; subst. exact N.
  - destruct (erase_fseek w q s (a_off a)) as [_ P2].
    destruct (g_fseek w q s (a_off a)) as [[[w2 s2] r2] e2]. cbn [fst] in P2. destruct (r2 =? 0); [|discriminate].
    assert (Hp2 : plan_ok (w_plan w2)) by (rewrite P2; exact Hp).
    pose proof (fread_errno_nonneg w2 q s2 size (a_count a) Hp2) as N.
    destruct (g_fread w2 q s2 size (a_count a)) as [[[[w3 s3] oc] e3] buf]. cbn [fst snd] in N.
    destruct (g_fflush w3 q) as [[w4 r4] e4]. destruct (negb (r4 =? 0)); [discriminate|].
    destruct (g_fclose w4 q) as [[w5 r5] e5]. destruct (negb (r5 =? 0)); [discriminate|].
    intros E. inversion E; subst. exact N.
Qed.

Lemma tok_out_ok_nonneg t : 0 <= t_errval t -> tok_ok (tok_out t).
Proof. intros H. unfold tok_out, tok_ok. destruct (Z.eqb_spec (t_errval t) 0); [left; reflexivity|right; lia]. Qed.

(* the token a turn passes on is the go-ahead or a positive errno *)
Lemma turn_token_ok wr w s0 q tokv size a w1 t : plan_ok (w_plan w) -> tok_ok tokv ->
  g_turn wr w s0 q tokv size a = Some (w1, t) -> tok_ok (tok_out t) /\ plan_ok (w_plan w1).
Proof.
  intros Hp Ht G. split.
  - rewrite g_turn_eq in G. destruct (tokv =? -1) eqn:Et.
    + destruct (q =? 0).
      * cbn [negb Z.eqb] in G. destruct s0 as [s|]; unfold open_judge in G; cbn [negb Z.eqb] in G; [|discriminate].
        apply tok_out_ok_nonneg. eapply turn_io_errval; eauto.
      * destruct (g_fopen w q (if wr then MAppend else MRead)) as [[wa so] e1] eqn:Eo.
        destruct (acct_fopen _ _ _ _ _ _ Hp Eo) as ([Pl _] & N & _ & _).
        cbv zeta in G. destruct so as [s|]; unfold open_judge in G; cbn [negb Z.eqb] in G.
        -- apply tok_out_ok_nonneg. eapply turn_io_errval; [|exact G]. rewrite Pl. exact Hp.
        -- destruct (negb (e1 =? 0)); [|discriminate]. inversion G; subst. apply tok_out_ok_nonneg. exact N.
    + destruct (0 <? tokv) eqn:E0; [|discriminate]. inversion G; subst. apply tok_out_ok_nonneg. cbn [t_errval]. lia.
  - destruct (erase_turn wr w s0 q tokv size a) as [_ Pt]. rewrite G in Pt. cbn [oplan] in Pt. rewrite Pt. exact Hp.
Qed.

Lemma transfer_lrun_abort wr P q size a k wa st s : st q = Some s ->
  turn_io wr wa q s size a = None ->
  exists sh', clrun q (transfer_prog wr P q (a_off a) size (a_count a) (a_data a) k) (mkFS wa st) abort sh'.
Proof.
  intros Hs. unfold turn_io, transfer_prog, xfer_prog. destruct wr.
  - destruct (g_fwrite wa q s size (a_count a) (a_data a)) as [[[w3 s3] oc] e3] eqn:E3.
    destruct (g_fflush w3 q) as [[w4 r4] e4] eqn:E4.
    destruct (r4 =? 0) eqn:B4; cbn [negb].
    + destruct (g_fclose w4 q) as [[w5 r5] e5] eqn:E5.
      destruct (r5 =? 0) eqn:B5; cbn [negb]; [discriminate|]. intros _. eexists.
      unfold io. eapply lrun_cons; [reflexivity|]. rewrite (eff_fwrite _ _ _ s) by exact Hs. rewrite E3. cbn [fst snd].
      unfold r0, r1, rdata. cbn [nth skipn].
      eapply lrun_cons; [reflexivity|]. rewrite eff_fflush, E4. cbn [fst snd nth]. rewrite B4. cbn [negb].
      eapply lrun_cons; [reflexivity|]. rewrite eff_fclose, E5. cbn [fst snd nth]. rewrite B5. cbn [negb]. apply lrun_nil.
    + intros _. eexists.
      unfold io. eapply lrun_cons; [reflexivity|]. rewrite (eff_fwrite _ _ _ s) by exact Hs. rewrite E3. cbn [fst snd].
      unfold r0, r1, rdata. cbn [nth skipn].
      eapply lrun_cons; [reflexivity|]. rewrite eff_fflush, E4. cbn [fst snd nth]. rewrite B4. cbn [negb]. apply lrun_nil.
  - destruct (g_fseek wa q s (a_off a)) as [[[w2 s2] r2] e2] eqn:E2.
    destruct (r2 =? 0) eqn:B2.
    + destruct (g_fread w2 q s2 size (a_count a)) as [[[[w3 s3] oc] e3] buf] eqn:E3.
      destruct (g_fflush w3 q) as [[w4 r4] e4] eqn:E4.
      destruct (r4 =? 0) eqn:B4; cbn [negb].
      * destruct (g_fclose w4 q) as [[w5 r5] e5] eqn:E5.
        destruct (r5 =? 0) eqn:B5; cbn [negb]; [discriminate|]. intros _. eexists.
        unfold io. eapply lrun_cons; [reflexivity|]. rewrite (eff_fseek _ _ _ s) by exact Hs. rewrite E2. cbn [fst snd].
        unfold r0 at 1. cbn [nth]. rewrite B2. cbn [negb].
        eapply lrun_cons; [reflexivity|]. rewrite (eff_fread _ _ _ s2) by apply set_st_same. rewrite E3. cbn [fst snd].
        unfold r0, r1, rdata. cbn [nth skipn].
        eapply lrun_cons; [reflexivity|]. rewrite eff_fflush, E4. cbn [fst snd nth]. rewrite B4. cbn [negb].
        eapply lrun_cons; [reflexivity|]. rewrite eff_fclose, E5. cbn [fst snd nth]. rewrite B5. cbn [negb]. apply lrun_nil.
      * intros _. eexists.
        unfold io. eapply lrun_cons; [reflexivity|]. rewrite (eff_fseek _ _ _ s) by exact Hs. rewrite E2. cbn [fst snd].
        unfold r0 at 1. cbn [nth]. rewrite B2. cbn [negb].
        eapply lrun_cons; [reflexivity|]. rewrite (eff_fread _ _ _ s2) by apply set_st_same. rewrite E3. cbn [fst snd].
        unfold r0, r1, rdata. cbn [nth skipn].
        eapply lrun_cons; [reflexivity|]. rewrite eff_fflush, E4. cbn [fst snd nth]. rewrite B4. cbn [negb]. apply lrun_nil.
    + intros _. eexists.
      unfold io. eapply lrun_cons; [reflexivity|]. rewrite (eff_fseek _ _ _ s) by exact Hs. rewrite E2. cbn [fst snd].
      unfold r0 at 1. cbn [nth]. rewrite B2. cbn [negb]. apply lrun_nil.
Qed.

Lemma turn_lrun_abort wr P q size a k w st s0 tokv :
  g_turn wr w s0 q tokv size a = None -> tok_ok tokv -> (q = 0 -> st 0 = s0 /\ is_some s0 = true) -> plan_ok (w_plan w) ->
  exists sh', clrun q (body_prog wr P q (a_off a) size (a_count a) (a_data a) k tokv) (mkFS w st) abort sh'.
Proof.
  rewrite g_turn_eq. unfold body_prog. intros G Ht H0 Hp.
  destruct (tokv =? -1) eqn:Et.
  - destruct (Z.eqb_spec q 0) as [->|Hq]; cbn [negb].
    + cbn [negb Z.eqb] in G. destruct (H0 eq_refl) as [E0 S0]. destruct s0 as [s|]; [|discriminate].
      unfold open_judge in G; cbn [negb Z.eqb] in G.
      apply transfer_lrun_abort with (s := s); [exact E0|exact G].
    + destruct (g_fopen w q (if wr then MAppend else MRead)) as [[wa so] e1] eqn:Eo.
      destruct (acct_fopen _ _ _ _ _ _ Hp Eo) as (_ & _ & Z0 & Z1).
      cbv zeta in G. destruct so as [s|]; unfold open_judge in G; cbn [negb Z.eqb] in G.
      2:{ (* no stream: errno is set (plan_ok), the turn does not abort *)
          destruct (Z.eq_dec e1 0) as [E|E]; [destruct (Z0 E) as (Hso & _); congruence|].
          rewrite (proj2 (Z.eqb_neq e1 0) E) in G. discriminate. }
      destruct (transfer_lrun_abort wr P q size a k wa (set_st st q (Some s)) s (set_st_same _ _ _) G) as [sh' L].
      exists sh'. unfold io. eapply lrun_cons; [reflexivity|]. unfold c_mode. rewrite eff_fopen, Eo. cbn [fst snd].
      unfold r0 at 1. unfold r1 at 1. unfold r0 at 1. unfold r1 at 1. cbn [nth is_some]. unfold open_judge. cbn [Z.eqb negb]. exact L.
  - destruct Ht as [->|Hpos]; [discriminate|].
    destruct (0 <? tokv) eqn:Ep; [discriminate|]. lia.
Qed.

Section AbortWitness.
Variables (wr : bool) (P size : Z) (args : list carg) (K : Z -> Z -> Z -> payload -> hnd -> prog)
          (s0 : option stream) (out : Z -> prog).
Hypothesis HP : 0 < P.
Hypothesis Hs0 : is_some s0 = true.
Notation cpA := (cp wr P size args K).
Notation bpA := (bp wr P size args K).
Notation fpA := (fp wr P K).
Notation lastpA := (lastp P K).
Notation midA := (mid wr P size args K s0 out).

(* rank qa has called SC_ABORT during its turn; the ranks before it wait at the barrier, the ranks after it for the token *)
Record aborted1 (qa : Z) (ts : list turn) (s : cstate) : Prop := mkAb1 {
  ab1_q : 0 <= qa < P;
  ab1_me : spr s qa = abort;
  ab1_done : forall r, 0 <= r < qa -> spr s r = fpA r (tn ts r);
  ab1_todo : forall r, qa < r < P -> spr s r = cpA r;
  ab1_ch : forall a b, sch s a b = [] }.
(* rank 0 could not re-open the file after the barrier; the others wait at the broadcast *)
Record aborted2 (ts : list turn) (s : cstate) : Prop := mkAb2 {
  ab2_me : spr s 0 = abort;
  ab2_others : forall r, 0 < r < P -> spr s r = lastpA r (tn ts r) false }.

Lemma aborted1_nostep qa ts s : aborted1 qa ts s -> nostep fsys P c12_local fs_eff c12_creply s.
Proof.
  intros [Hq Hme Hdone Htodo Hch] l s' Hs.
  assert (Hhead : forall r, 0 <= r < P ->
            spr s r = abort \/ (exists k, spr s r = Do (Coll K_BARRIER 0 []) k)
            \/ (exists k, spr s r = Do (Recv (r - 1) (-1)) k)).
  { intros r Hr. destruct (Z.lt_trichotomy r qa) as [H|[->|H]].
    - right. left. rewrite Hdone by lia. unfold fp, fin_prog. eauto.
    - left. exact Hme.
    - right. right. rewrite Htodo by lia. rewrite cp_rank_pos by lia. eauto. }
  inversion Hs; subst.
  - destruct (Hhead l ltac:(assumption)) as [E|[[k0 E]|[k0 E]]]; unfold abort in *; congruence.
  - destruct (Hhead l ltac:(assumption)) as [E|[[k0 E]|[k0 E]]]; unfold abort in *; try congruence.
    match goal with A : spr s l = Do (Recv ?src ?tr) _, B : pick ?tr (sch s ?src l) = Some _ |- _ => rewrite Hch in B; discriminate end.
  - destruct (Hhead l ltac:(assumption)) as [E|[[k0 E]|[k0 E]]]; unfold abort in *; try congruence.
    match goal with A : spr s l = Do (Coll ?kd _ _) _, B : c12_local ?kd = true |- _ =>
      rewrite E in A; injection A as <- _ _ _; discriminate end.
  - match goal with A : at_coll _ _ _ _ _ |- _ => destruct (A qa Hq) as (c0 & k0 & E0) end. unfold abort in *. congruence.
Qed.

Lemma aborted2_nostep ts s : aborted2 ts s -> nostep fsys P c12_local fs_eff c12_creply s.
Proof.
  intros [Hme Ho] l s' Hs.
  assert (Hhead : forall r, 0 <= r < P -> spr s r = abort \/ exists c k, spr s r = Do (Coll K_BCAST (P - 1) c) k).
  { intros r Hr. destruct (Z.eq_dec r 0) as [->|Hr0]; [left; exact Hme|]. right. rewrite Ho by lia. rewrite lastp_eq. eauto. }
  inversion Hs; subst.
  - destruct (Hhead l ltac:(assumption)) as [E|(c0 & k0 & E)]; unfold abort in *; congruence.
  - destruct (Hhead l ltac:(assumption)) as [E|(c0 & k0 & E)]; unfold abort in *; congruence.
  - destruct (Hhead l ltac:(assumption)) as [E|(c0 & k0 & E)]; unfold abort in *; try congruence.
    match goal with A : spr s l = Do (Coll ?kd _ _) _, B : c12_local ?kd = true |- _ =>
      rewrite E in A; injection A as <- _ _ _; discriminate end.
  - match goal with A : at_coll _ _ _ _ _ |- _ => destruct (A 0 ltac:(lia)) as (c0 & k0 & E0) end. unfold abort in *. congruence.
Qed.

Lemma turn_tail_abort q tokv w ts s1 : 0 <= q < P ->
  spr s1 q = bpA q tokv ->
  (forall r, 0 <= r < q -> spr s1 r = fpA r (tn ts r)) ->
  (forall r, q < r < P -> spr s1 r = cpA r) ->
  (forall a b, sch s1 a b = []) ->
  fs_w (ssh s1) = w -> fs_st (ssh s1) 0 = (if q =? 0 then s0 else None) ->
  tok_ok tokv -> plan_ok (w_plan w) ->
  g_turn wr w s0 q tokv size (arg_of args q) = None ->
  exists n s', cirun P n (Good s1 (Held q)) (Good s' (Held q)) /\ aborted1 q ts s'.
Proof.
  intros Hq Hbody Hdone Htodo Hch Hw Hst0 Ht Hp G.
  destruct (ssh s1) as [w0 st] eqn:Esh. cbn [fs_w fs_st] in *. subst w0.
  assert (H0' : q = 0 -> st 0 = s0 /\ is_some s0 = true) by (intros ->; split; [exact Hst0|exact Hs0]).
  destruct (turn_lrun_abort wr P q size (arg_of args q) (K q) w st s0 tokv G Ht H0' Hp) as [sh' L].
  destruct (irun_lrun fsys P c12_local fs_eff c12_creply c12_gives c12_ctok q _ _ _ _ L s1 Hq Hbody Esh) as [n1 R1].
  eexists n1, _. split; [exact R1|].
  constructor; cbn [spr sch].
  - exact Hq.
  - apply upd1_same.
  - intros r Hr. rewrite upd1_other by lia. apply Hdone. exact Hr.
  - intros r Hr. rewrite upd1_other by lia. apply Htodo. exact Hr.
  - exact Hch.
Qed.

Lemma mid_step_abort q tokv w ts s tk : 0 <= q < P -> midA q tokv w ts s tk -> (q = 0 -> tokv = -1) ->
  tok_ok tokv -> plan_ok (w_plan w) ->
  g_turn wr w s0 q tokv size (arg_of args q) = None ->
  exists n s' tk', cirun P n (Good s tk) (Good s' tk') /\ aborted1 q ts s'.
Proof.
  intros Hq M Htok0 Ht Hp G. destruct M as [Mlen Mdone Mtodo Mout Mch1 Mch0 Mw Mst0 Mst Mtk0 Mtk1 Mtk2].
  destruct (Z.eq_dec q 0) as [Eq|Nq].
  - rewrite (Mtk0 Eq). replace (Held 0) with (Held q) by (f_equal; exact Eq).
    destruct (turn_tail_abort q tokv w ts s Hq) as (n & s' & R & A); try assumption.
    + rewrite Mtodo by lia. rewrite (Htok0 Eq). rewrite Eq. apply cp_rank0.
    + intros r Hr. apply Mtodo. lia.
    + intros a b. apply Mch0. lia.
    + exists n, s', (Held q). auto.
  - assert (Hq' : 0 < q < P) by lia. rewrite (Mtk1 Hq').
    assert (E : spr s q = Do (Recv (q - 1) (-1)) (fun r => bpA q (hd 0 (tl r)))) by (rewrite Mtodo by lia; apply cp_rank_pos; exact Nq).
    assert (Pk : pick (-1) (sch s (q - 1) q) = Some (0%nat, [tokv], [])) by (rewrite (Mch1 Hq'); reflexivity).
    pose proof (irun_recv1 fsys P c12_local fs_eff c12_creply c12_gives c12_ctok s (Fly (q - 1) q 0) q (q - 1) (-1) _ _ _ _
                           Hq ltac:(lia) E Pk) as R1.
    assert (Tk : tok_recv (Fly (q - 1) q 0) (q - 1) q 0 = Held q) by (unfold tok_recv; rewrite !Z.eqb_refl; reflexivity).
    rewrite Tk in R1.
    set (s1 := mkst (upd1 (spr s) q (bpA q (hd 0 (tl (q - 1 :: [tokv]))))) (upd2 (sch s) (q - 1) q []) (ssh s)) in *.
    destruct (turn_tail_abort q tokv w ts s1 Hq) as (n2 & s' & R2 & A); try assumption.
    + unfold s1. cbn [spr]. apply upd1_same.
    + intros r Hr. unfold s1. cbn [spr]. rewrite upd1_other by lia. apply Mdone. exact Hr.
    + intros r Hr. unfold s1. cbn [spr]. rewrite upd1_other by lia. apply Mtodo. lia.
    + intros a b. unfold s1. cbn [sch]. unfold upd2.
      destruct (Z.eqb_spec a (q - 1)); destruct (Z.eqb_spec b q); cbn [andb]; try reflexivity; apply Mch0; lia.
    + exists (1 + n2)%nat, s', (Held q). split; [eapply irun_app; [exact R1|exact R2]|exact A].
Qed.

(* the turns up to the first one that aborts *)
Lemma mid_turns_abort : forall rest q tokv w ts s tk, 0 <= q -> q + len rest = P ->
  rest = skipn (Z.to_nat q) args -> midA q tokv w ts s tk -> (q = 0 -> tokv = -1) ->
  tok_ok tokv -> plan_ok (w_plan w) ->
  g_turns wr w s0 q tokv size rest = None ->
  exists n s' tk' qa ts', cirun P n (Good s tk) (Good s' tk') /\ aborted1 qa ts' s'.
Proof.
  induction rest as [|a rest IH]; intros q tokv w ts s tk Hq Hlen Hrest M Htok0 Ht Hp G.
  - cbn [g_turns] in G. discriminate.
  - cbn [g_turns] in G.
    assert (Hl : len (a :: rest) = len rest + 1) by (unfold len; cbn [length]; lia).
    pose proof (len_nonneg rest) as Hnn.
    symmetry in Hrest. destruct (skipn_cons_nth args (Z.to_nat q) a rest (mkA 0 0 []) Hrest) as [Ea Er].
    assert (Ha : arg_of args q = a) by exact Ea.
    destruct (g_turn wr w s0 q tokv size a) as [[w1 t]|] eqn:G1.
    + destruct (turn_token_ok _ _ _ _ _ _ _ _ _ Hp Ht G1) as [Ht1 Hp1].
      destruct (g_turns wr w1 s0 (q + 1) (tok_out t) size rest) as [[w2 ts2]|] eqn:G2; [discriminate|].
      rewrite <- Ha in G1.
      destruct (mid_step wr P size args K s0 out q tokv w ts s tk w1 t ltac:(lia) M Htok0 G1) as (n1 & s1 & tk1 & R1 & M1).
      destruct (IH (q + 1) (tok_out t) w1 (ts ++ [t]) s1 tk1 ltac:(lia) ltac:(lia)) as (n2 & s2 & tk2 & qa & ts' & R2 & A).
      * rewrite <- Er. f_equal. lia.
      * exact M1.
      * lia.
      * exact Ht1.
      * exact Hp1.
      * exact G2.
      * exists (n1 + n2)%nat, s2, tk2, qa, ts'. split; [eapply irun_app; eauto|exact A].
    + rewrite <- Ha in G1.
      destruct (mid_step_abort q tokv w ts s tk ltac:(lia) M Htok0 Ht Hp G1) as (n1 & s1 & tk1 & R1 & A).
      exists n1, s1, tk1, q, ts. auto.
Qed.

(* all turns fine, but the re-open by rank 0 fails *)
Lemma finale_abort tokv w ts s w2 so e :
  midA P tokv w ts s (Held (P - 1)) -> g_fopen w 0 (c_mode wr) = (w2, so, e) -> so = None ->
  exists n s', cirun P n (Good s (Held (P - 1))) (Good s' (Held 0)) /\ aborted2 ts s'.
Proof.
  intros M Go He. destruct M as [Mlen Mdone Mtodo Mout Mch1 Mch0 Mw Mst0 Mst Mtk0 Mtk1 Mtk2].
  assert (A1 : at_coll fsys P s K_BARRIER 0).
  { intros r Hr. rewrite (Mdone r Hr). unfold fp, fin_prog. eauto. }
  pose proof (irun_coll1 fsys P c12_local fs_eff c12_creply c12_gives c12_ctok s (Held (P - 1)) K_BARRIER 0 HP eq_refl A1) as R1.
  change (tok_coll c12_ctok (Held (P - 1)) K_BARRIER 0) with (Held 0) in R1.
  set (s4 := mkst (advance fsys P c12_creply s K_BARRIER 0) (sch s) (ssh s)) in *.
  assert (E4 : forall r, 0 <= r < P -> spr s4 r =
             if r =? 0 then io K_FOPEN [mode_code (c_mode wr)]
                               (fun x => if negb (r0 x =? 1) then abort else lastpA r (tn ts r) (r0 x =? 1))
             else lastpA r (tn ts r) false).
  { intros r Hr. unfold s4. cbn [spr]. unfold advance.
    replace ((0 <=? r) && (r <? P)) with true by lia. rewrite (Mdone r Hr). reflexivity. }
  destruct (ssh s) as [w0 st] eqn:Esh. cbn [fs_w fs_st] in *. subst w0.
  assert (L : clrun 0 (spr s4 0) (mkFS w st) abort (mkFS w2 (set_st st 0 so))).
  { rewrite E4 by lia. cbn [Z.eqb]. unfold io. eapply lrun_cons; [reflexivity|].
    rewrite eff_fopen, Go. cbn [fst snd]. unfold r0. cbn [nth]. rewrite He. cbn [is_some Z.eqb negb]. apply lrun_nil. }
  destruct (irun_lrun fsys P c12_local fs_eff c12_creply c12_gives c12_ctok 0 _ _ _ _ L s4 ltac:(lia) eq_refl eq_refl) as [n2 R2].
  eexists (1 + n2)%nat, _. split; [eapply irun_app; [exact R1|exact R2]|].
  constructor; cbn [spr].
  - apply upd1_same.
  - intros r Hr. rewrite upd1_other by lia. rewrite E4 by lia. destruct (Z.eqb_spec r 0); [lia|reflexivity].
Qed.

Lemma coll_abort_witness s w ctx : len args = P ->
  (forall r, 0 <= r < P -> spr s r = cpA r) -> (forall r, ~ 0 <= r < P -> spr s r = out r) ->
  (forall a b, sch s a b = []) ->
  fs_w (ssh s) = w -> fs_st (ssh s) 0 = s0 -> (forall r, r <> 0 -> fs_st (ssh s) r = None) ->
  plan_ok (w_plan w) ->
  g_coll wr (mkG w s0 ctx) size args = None ->
  exists n s' tk', cirun P n (Good s (Held 0)) (Good s' tk')
    /\ nostep fsys P c12_local fs_eff c12_creply s' /\ exists r, 0 <= r < P /\ spr s' r = abort.
Proof.
  intros Hlen Hp Ho Hc Hw Hst0 Hst Hpl G. unfold g_coll in G. cbn [g_w g_s0 g_ctx] in G.
  assert (M0 : midA 0 (-1) w [] s (Held 0)).
  { constructor.
    - reflexivity.
    - intros r Hr. lia.
    - intros r Hr. apply Hp. lia.
    - exact Ho.
    - intros Hx. lia.
    - intros a b _. apply Hc.
    - exact Hw.
    - exact Hst0.
    - exact Hst.
    - reflexivity.
    - intros Hx. lia.
    - intros Hx. lia. }
  destruct (g_turns wr w s0 0 (-1) size args) as [[w1 ts]|] eqn:Gt.
  - destruct (g_fopen w1 0 (if wr then MAppend else MRead)) as [[w2 so] e] eqn:Go.
    destruct so as [sr|] eqn:He; [discriminate|].
    destruct (mid_turns wr P size args K s0 out args 0 (-1) w [] s (Held 0) w1 ts ltac:(lia) ltac:(lia) eq_refl M0 ltac:(auto) Gt)
      as (n1 & s1 & tk1 & tv & R1 & M1).
    cbn [app] in M1. pose proof (mid_tk2 _ _ _ _ _ _ _ _ _ _ _ _ _ M1 eq_refl) as Etk. subst tk1.
    destruct (finale_abort tv w1 ts s1 w2 None e M1 Go eq_refl) as (n2 & s2 & R2 & A).
    exists (n1 + n2)%nat, s2, (Held 0). split; [eapply irun_app; eauto|]. split; [eapply aborted2_nostep; exact A|].
    exists 0. split; [lia|]. apply (ab2_me _ _ A).
  - destruct (mid_turns_abort args 0 (-1) w [] s (Held 0) ltac:(lia) ltac:(lia) eq_refl M0 ltac:(auto) ltac:(left; reflexivity) Hpl Gt)
      as (n & s' & tk' & qa & ts' & R & A).
    exists n, s', tk'. split; [exact R|]. split; [eapply aborted1_nostep; exact A|].
    exists qa. split; [apply (ab1_q _ _ _ A)|apply (ab1_me _ _ _ A)].
Qed.

End AbortWitness.

Definition cends (P : Z) := all_schedules_end_in fsys P c12_local fs_eff c12_creply.

(* g_coll = None: EVERY schedule leads to one and the same terminal state, in which a rank has called SC_ABORT *)
Theorem coll_abort_every_schedule wr size args g : 0 < len args ->
  plan_ok (w_plan (g_w g)) -> is_some (g_s0 g) = true ->
  g_coll wr g size args = None ->
  exists f n, (exists r, 0 <= r < len args /\ spr f r = abort)
    /\ nostep fsys (len args) c12_local fs_eff c12_creply f
    /\ cends (len args) (coll_state wr (len args) size args (g_w g) (g_s0 g)) f n.
Proof.
  intros HP Hpl Hs G. set (P := len args) in *.
  destruct g as [w s0 ctx]. cbn [g_w g_s0] in *.
  destruct (coll_abort_witness wr P size args (fun _ => k_ret) s0 (fun _ => Ret []) HP Hs
                               (coll_state wr P size args w s0) w ctx eq_refl) as (n & s' & tk' & R & Hns & Hab).
  - intros r Hr. unfold coll_state. cbn [spr]. rewrite in_range_true by exact Hr. reflexivity.
  - intros r Hr. unfold coll_state. cbn [spr]. rewrite in_range_false by exact Hr. reflexivity.
  - reflexivity.
  - reflexivity.
  - reflexivity.
  - intros r Hr. unfold coll_state. cbn [ssh fs_st]. destruct (Z.eqb_spec r 0); [contradiction|reflexivity].
  - exact Hpl.
  - exact G.
  - exists s', n. split; [exact Hab|]. split; [exact Hns|].
    eapply one_schedule_ends_in; [exact R|exact Hns].
Qed.

(* ------------------------------------------------------------------ the executable scheduler IS the step relation *)
Lemma in_ranks P r : In r (ranks P) <-> 0 <= r < P.
Proof.
  unfold ranks. rewrite in_map_iff. split.
  - intros (n & <- & Hn). apply in_seq in Hn. lia.
  - intros H. exists (Z.to_nat r). split; [lia|]. apply in_seq. lia.
Qed.

Lemma xstep_sound P s l s' : xstep P s l = Some s' -> cstep P s l s'.
Proof.
  unfold xstep. destruct (Z.eqb_spec l (-1)) as [->|Hl].
  - destruct (spr s 0) as [o|[d t m|src tr|kind root c] k] eqn:E0; try discriminate.
    destruct (negb (c12_local kind)) eqn:L; cbn [andb]; [|discriminate].
    destruct (0 <? P) eqn:HP; cbn [andb]; [|discriminate].
    destruct (forallb _ (ranks P)) eqn:F; [|discriminate].
    intros H. inversion H; subst. apply (step_coll fsys P c12_local fs_eff c12_creply s kind root).
    + lia.
    + destruct (c12_local kind); [discriminate|reflexivity].
    + intros r Hr. rewrite forallb_forall in F. specialize (F r (proj2 (in_ranks P r) Hr)).
      destruct (spr s r) as [o|[d t m|src tr|k' r' c'] k0]; try discriminate.
      assert (k' = kind /\ r' = root) as [-> ->] by lia. eauto.
  - destruct ((0 <=? l) && (l <? P)) eqn:Hr; [|discriminate]. assert (Hr' : 0 <= l < P) by lia.
    destruct (spr s l) as [o|[d t m|src tr|kind root c] k] eqn:E; try discriminate.
    + intros H. inversion H; subst. apply step_send; assumption.
    + destruct (0 <=? src) eqn:Hs; [|discriminate].
      destruct (pick tr (sch s src l)) as [[[i m] q]|] eqn:Pk; [|discriminate].
      intros H. inversion H; subst. eapply step_recv; try eassumption. lia.
    + destruct (c12_local kind) eqn:L; [|discriminate].
      intros H. inversion H; subst. apply step_local; assumption.
Qed.

Lemma xstep_complete P s l s' : cstep P s l s' -> xstep P s l = Some s'.
Proof.
  intros H. inversion H; subst; unfold xstep.
  - destruct (Z.eqb_spec l (-1)); [lia|]. rewrite in_range_true by assumption.
    match goal with A : spr s l = _ |- _ => rewrite A end. reflexivity.
  - destruct (Z.eqb_spec l (-1)); [lia|]. rewrite in_range_true by assumption.
    match goal with A : spr s l = _ |- _ => rewrite A end.
    replace (0 <=? src) with true by lia.
    match goal with A : pick _ _ = _ |- _ => rewrite A end. reflexivity.
  - destruct (Z.eqb_spec l (-1)); [lia|]. rewrite in_range_true by assumption.
    match goal with A : spr s l = _ |- _ => rewrite A end.
    match goal with A : c12_local _ = true |- _ => rewrite A end. reflexivity.
  - change (COLL =? -1) with true. cbv iota.
    match goal with A : at_coll _ _ _ _ _ |- _ => rename A into Hc end.
    destruct (Hc 0 ltac:(lia)) as (c0 & k0 & E0). rewrite E0.
    match goal with A : c12_local _ = false |- _ => rewrite A end. cbn [negb andb].
    replace (0 <? P) with true by lia. cbn [andb].
    replace (forallb _ (ranks P)) with true; [reflexivity|].
    symmetry. apply forallb_forall. intros r Hr. apply in_ranks in Hr. destruct (Hc r Hr) as (c & k & E). rewrite E.
    rewrite !Z.eqb_refl. reflexivity.
Qed.

(* ------------------------------------------------------------------ tests: all schedules of small instances, by computation *)
Definition targs : list carg := [mkA 0 2 [1;2;3;4]; mkA 4 1 [5;6]; mkA 6 2 [7;8;9;10]].
Definition tplan1 : plan := fun q f k => if (q =? 1) && (f =? FOPEN) && (k =? 0) then Some (13, 0) else None.
Definition tplan2 : plan := fun q f k => if (q =? 1) && (f =? FWRITE) && (k =? 0) then Some (28, 0) else
                                          if (q =? 0) && (f =? FREAD) && (k =? 0) then Some (5, 1) else None.
Example test_write_nf : fst (test_coll true 2 targs (world0 (File [100; 101]) (fun _ _ _ => None)) (Some (mkS MAppend 2))) = true.
Proof. vm_compute. reflexivity. Qed.
Example test_write_fopen_fails : fst (test_coll true 2 targs (world0 (File [100; 101]) tplan1) (Some (mkS MAppend 2))) = true.
Proof. vm_compute. reflexivity. Qed.
Example test_write_enospc : fst (test_coll true 2 targs (world0 (File [100; 101]) tplan2) (Some (mkS MAppend 2))) = true.
Proof. vm_compute. reflexivity. Qed.
Example test_read_nf : fst (test_coll false 2 targs (world0 (File [1;2;3;4;5;6;7;8;9]) (fun _ _ _ => None)) (Some (mkS MRead 0))) = true.
Proof. vm_compute. reflexivity. Qed.
Example test_read_short : fst (test_coll false 2 targs (world0 (File [1;2;3;4;5;6;7;8;9]) tplan2) (Some (mkS MRead 0))) = true.
Proof. vm_compute. reflexivity. Qed.
Example test_read_P1 : fst (test_coll false 2 [mkA 1 2 []] (world0 (File [1;2;3;4;5;6;7;8;9]) tplan2) (Some (mkS MRead 0))) = true.
Proof. vm_compute. reflexivity. Qed.
Definition tops : list op :=
  [OOpen c12_SC_IO_WRITE_CREATE; OAt true 1 (mkA 0 2 [50;51]); OColl true 2 targs; OAt true 1 (mkA 1 1 [60]); OClose;
   OOpen c12_SC_IO_READ; OColl false 2 targs; OAt false 1 (mkA 2 3 []); OClose].
Example test_scen_nf : fst (test_scen 3 tops Absent (fun _ _ _ => None)) = true.
Proof. vm_compute. reflexivity. Qed.
Example test_scen_fopen_fails : fst (test_scen 3 tops Absent tplan1) = true.
Proof. vm_compute. reflexivity. Qed.
Example test_scen_faults : fst (test_scen 3 tops Absent tplan2) = true.
Proof. vm_compute. reflexivity. Qed.
Example test_scen_nodir : fst (test_scen 3 tops NoDir tplan2) = true.
Proof. vm_compute. reflexivity. Qed.
(* an abort: rank 1's fflush fails; the model predicts the abort and the only maximal schedule ends in a terminal state that is not final *)
Definition tplan3 : plan := fun q f k => if (q =? 1) && (f =? FFLUSH) && (k =? 0) then Some (5, 0) else None.
Example test_abort :
  g_coll true (mkG (world0 (File [100; 101]) tplan3) (Some (mkS MAppend 2)) true) 2 targs = None
  /\ explore 200 3 (coll_state true 3 2 targs (world0 (File [100; 101]) tplan3) (Some (mkS MAppend 2))) = [None].
Proof. split; vm_compute; reflexivity. Qed.
