(* C12 - the parallel file wrapper of sc_io.c (sc_io_open / read_at / read_at_all / write_at / write_at_all / close)
   in the configurations without MPI I/O:  (A) without MPI,  (C) with MPI (token passing fallback).
   Executable definitions only.  Two views of the same code:
     1. per-rank programs (MPI/Prog.v): every MPI call AND every stdio call of the C code is an action; they are
        co-simulated against the per-rank traces of the real code (simulated MPI + interposed stdio);
     2. a global sequential model over one file (`world`) with injectable stdio outcomes; the theorems are about it,
        and its predictions are compared with the real code's outputs on every scenario.
   sc_io_error_class is not modelled by hand: Gen/ErrClassC12.v is generated from the C source on every run. *)
From Coq Require Import ZArith List Bool.
From ScV Require Import Base.CInt MPI.Prog Gen.ErrClassC12.
Import ListNotations.
Local Open Scope Z_scope.

Definition len {A} (l : list A) : Z := Z.of_nat (length l).

(* ------------------------------------------------------------------ configurations and error classes *)
Inductive config := CfgA | CfgC.
Definition is_mpi (c : config) : bool := match c with CfgA => false | CfgC => true end.
(* `retval = sc_io_error_class (e, &errcode)`: the pointer is a valid address (1), errcode's old value is irrelevant *)
Definition errclass (c : config) (e : Z) : Z :=
  snd (match c with CfgA => sc_io_error_class_A 1 e 0 | CfgC => sc_io_error_class_C 1 e 0 end).
Definition errclass_ret (c : config) (e : Z) : Z :=
  fst (match c with CfgA => sc_io_error_class_A 1 e 0 | CfgC => sc_io_error_class_C 1 e 0 end).
Definition SUCCESS (c : config) : Z := match c with CfgA => cA_SUCCESS | CfgC => cC_SUCCESS end.
Definition ERR_ARG (c : config) : Z := match c with CfgA => cA_ERR_ARG | CfgC => cC_ERR_ARG end.
Definition classes (c : config) : list Z := match c with CfgA => cA_classes | CfgC => cC_classes end.
(* position of a class value in the fixed list of names (what the drivers print); -1 = not a class of sc_mpi.h *)
Fixpoint index_of (x : Z) (l : list Z) (i : Z) : Z :=
  match l with [] => -1 | y :: t => if x =? y then i else index_of x t (i + 1) end.
Definition class_index (c : config) (cls : Z) : Z := index_of cls (classes c) 0.

(* fopen modes used by the wrapper: "rb" "wb" "ab" *)
Inductive fmode := MRead | MWrite | MAppend.
Definition mode_code (m : fmode) : Z := match m with MRead => 0 | MWrite => 1 | MAppend => 2 end.
(* sc_io_parse_access_mode (any other amode value aborts: precondition amode in {0,1,2}) *)
Definition mode_of_amode (a : Z) : fmode :=
  if a =? c12_SC_IO_READ then MRead else if a =? c12_SC_IO_WRITE_CREATE then MWrite else MAppend.

(* ================================================================== 1. per-rank programs *)
(* stdio calls are `Coll` actions with these kinds; contribution = arguments, reply = [return value; errno afterwards] ++ data *)
Definition K_BCAST : Z := 1.     Definition K_BARRIER : Z := 2.
Definition K_FOPEN : Z := 10.    Definition K_FWRITE : Z := 11.   Definition K_FREAD : Z := 12.
Definition K_FSEEK : Z := 13.    Definition K_FTELL : Z := 14.    Definition K_FFLUSH : Z := 15.   Definition K_FCLOSE : Z := 16.
Definition ABORT_MARK : Z := -77.
Definition abort : prog := Ret [ABORT_MARK].             (* SC_ABORT / SC_CHECK_ABORT *)

Definition io (kind : Z) (args : payload) (k : payload -> prog) : prog := Do (Coll kind 0 args) k.
Definition r0 (r : payload) : Z := nth 0 r 0.            (* return value *)
Definition r1 (r : payload) : Z := nth 1 r 0.            (* errno after the call *)
Definition rdata (r : payload) : payload := skipn 2 r.   (* bytes stored by fread *)

(* sc_MPI_Bcast of one int; without MPI it is libsc's no-op *)
Definition bcast (mpi : bool) (root me v : Z) (k : Z -> prog) : prog :=
  if mpi then Do (Coll K_BCAST root (if me =? root then [v] else [])) (fun out => k (if me =? root then v else hd 0 out))
  else k v.

(* what a rank knows about its file handle: context allocated, FILE* non-NULL *)
Record hnd := mkH { h_ctx : bool; h_file : bool }.
Definition h_none : hnd := mkH false false.

(* how sc_io_open judges the fopen of rank 0: `retval = (file == NULL) ? errno : 0` (repair of F-C12j: a successful fopen may
   leave errno set - glibc's fopen (.., "ab") on a pipe leaves ESPIPE).  `open_judge_old` is the line before the repair
   (`retval = errno`), used by no program and by no theorem except the refutation `open_old_judge_refuted`. *)
Definition open_judge (hasfile : bool) (e : Z) : Z := if hasfile then 0 else e.
Definition open_judge_old (hasfile : bool) (e : Z) : Z := e.

(* sc_io_open *)
Definition open_prog (c : config) (me amode : Z) (k : Z -> hnd -> prog) : prog :=
  let fin (retval : Z) (hasfile : bool) :=
    bcast (is_mpi c) 0 me retval (fun rv =>
      let cls := errclass c rv in
      if cls =? SUCCESS c then k cls (mkH true hasfile) else k cls h_none) in       (* SC_FREE of the context on error *)
  if me =? 0 then io K_FOPEN [mode_code (mode_of_amode amode)] (fun r => fin (open_judge (r0 r =? 1) (r1 r)) (r0 r =? 1))
  else fin 0 false.

(* sc_io_close *)
Definition close_prog (c : config) (me : Z) (h : hnd) (k : Z -> hnd -> prog) : prog :=
  let fin (eclass : Z) := bcast (is_mpi c) 0 me eclass (fun ec => k ec h_none) in
  if h_file h then
    io K_FCLOSE [] (fun r =>
      let ec := errclass c (r1 r) in
      if Bool.eqb (r0 r =? 0) (ec =? SUCCESS c) then fin ec else abort)           (* "fclose return value inconsistent" *)
  else fin (SUCCESS c).

(* the class sc_io_read_at / sc_io_write_at return after the position-restoring fseek: `errcode` holds the class of the
   transfer's errno; `if (errcode == sc_MPI_SUCCESS) sc_io_error_class (errno of the fseek, &errcode)`; return errcode
   (the error of a partial transfer is not replaced by the result of the fseek) *)
Definition at_tail (c : config) (e_xfer e_seek : Z) : Z :=
  if errclass c e_xfer =? SUCCESS c then errclass c e_seek else errclass c e_xfer.
(* the tail before repair 3510a9a (F-C12f): the class of the fseek's errno, whatever the transfer did.  Used by no program
   and by no theorem except the refutation `at_old_tail_refuted` (a revert of the repair is a return to this function). *)
Definition at_tail_old (c : config) (e_xfer e_seek : Z) : Z := errclass c e_seek.

(* sc_io_read_at / sc_io_write_at (same code in A and C): k class ocount buffer *)
Definition at_prog (c : config) (wr : bool) (me off size count : Z) (data : payload)
           (k : Z -> Z -> payload -> prog) : prog :=
  if (0 <? me) && negb (count =? 0) then k (ERR_ARG c) 0 []
  else if count =? 0 then k (SUCCESS c) 0 []
  else
    io K_FTELL [] (fun rt =>
      let pos := r0 rt in
      if pos =? -1 then k (errclass c (r1 rt)) 0 []
      else io K_FSEEK [off; 0] (fun rs =>
        if negb (r0 rs =? 0) then k (errclass c (r1 rs)) 0 []
        else (if wr then io K_FWRITE (size :: count :: data) else io K_FREAD [size; count]) (fun rx =>
          let oc := r0 rx in let e := r1 rx in
          if negb (e =? 0) && (oc =? 0) then k (errclass c e) oc (rdata rx)
          else io K_FSEEK [pos; 0] (fun rr => k (at_tail c e (r1 rr)) oc (rdata rx))))).

(* the token passing fallback of sc_io_read_at_all / sc_io_write_at_all (configuration C): k class ocount buffer handle *)
Definition send_next (P me v : Z) (k : prog) : prog := if me <? P - 1 then send (me + 1) 1 [v] k else k.

Definition coll_prog (wr : bool) (P me off size count : Z) (data : payload)
           (k : Z -> Z -> payload -> hnd -> prog) : prog :=
  let c := CfgC in
  let mode := if wr then MAppend else MRead in
  let finish (errval ocount : Z) (buf : payload) : prog :=           (* label `failure:` *)
    Do (Coll K_BARRIER 0 []) (fun _ =>
      let last (hf : bool) := bcast true (P - 1) me errval (fun ev => k (errclass c ev) ocount buf (mkH true hf)) in
      (* the re-open of rank 0 is judged by the returned stream (`if (mpifile->file == NULL) SC_ABORT`; before the repair: by errno) *)
      if me =? 0 then io K_FOPEN [mode_code mode] (fun r => if negb (r0 r =? 1) then abort else last (r0 r =? 1))
      else last false) in
  let xfer : prog :=
    (if wr then io K_FWRITE (size :: count :: data) else io K_FREAD [size; count]) (fun rx =>
      let oc := r0 rx in let errval := r1 rx in let buf := rdata rx in
      io K_FFLUSH [] (fun rf => if negb (r0 rf =? 0) then abort else
      io K_FCLOSE [] (fun rc => if negb (r0 rc =? 0) then abort else
        send_next P me (if negb (errval =? 0) then errval else -1) (finish errval oc buf)))) in
  let transfer : prog :=
    if wr then xfer else io K_FSEEK [off; 0] (fun rs => if negb (r0 rs =? 0) then abort else xfer) in
  let body (active : Z) : prog :=
    if active =? -1 then
      (if negb (me =? 0) then
         io K_FOPEN [mode_code mode] (fun r =>
           let errval := open_judge (r0 r =? 1) (r1 r) in          (* `errval = (file == NULL) ? errno : 0` *)
           if negb (errval =? 0) then send_next P me errval (finish errval 0 []) else transfer)
       else transfer)
    else if 0 <? active then send_next P me active (finish active 0 [])
    else abort in                                                                  (* SC_ABORT_NOT_REACHED *)
  if negb (me =? 0) then recv (me - 1) (-1) (fun m => body (hd 0 m)) else body (-1).

(* scenarios: what the harness executes *)
Record carg := mkA { a_off : Z; a_count : Z; a_data : payload }.
Inductive op :=
| OOpen (amode : Z)
| OClose
| OColl (wr : bool) (size : Z) (args : list carg)              (* one entry per rank *)
| OAt (wr : bool) (size : Z) (a : carg).                      (* rank 0 only *)

(* one result: [class index; ocount; flag; number of buffer bytes] ++ buffer;  [-1] = skipped (file not open), *)
Definition enc (c : config) (cls oc : Z) (flag : bool) (buf : payload) : payload :=
  class_index c cls :: oc :: (if flag then 1 else 0) :: len buf :: buf.
Definition SKIP : payload := [-1].
Definition arg_of (args : list carg) (q : Z) : carg := nth (Z.to_nat q) args (mkA 0 0 []).

(* configuration C: the program of rank `me` for a whole scenario *)
Fixpoint scen_prog_C (P me : Z) (ops : list op) (h : hnd) (acc : payload) : prog :=
  match ops with
  | [] => Ret acc
  | o :: rest =>
    match o with
    | OOpen am => open_prog CfgC me am (fun cls h' => scen_prog_C P me rest h' (acc ++ enc CfgC cls 0 (negb (h_ctx h')) []))
    | OClose =>
      if h_ctx h then close_prog CfgC me h (fun cls h' => scen_prog_C P me rest h' (acc ++ enc CfgC cls 0 true []))
      else scen_prog_C P me rest h (acc ++ SKIP)
    | OColl wr size args =>
      if h_ctx h then
        let a := arg_of args me in
        coll_prog wr P me (a_off a) size (a_count a) (a_data a)
                  (fun cls oc buf h' => scen_prog_C P me rest h' (acc ++ enc CfgC cls oc false buf))
      else scen_prog_C P me rest h (acc ++ SKIP)
    | OAt wr size a =>
      if negb (me =? 0) then scen_prog_C P me rest h acc
      else if h_ctx h then
        at_prog CfgC wr me (a_off a) size (a_count a) (a_data a)
                (fun cls oc buf => scen_prog_C P me rest h (acc ++ enc CfgC cls oc false buf))
      else scen_prog_C P me rest h (acc ++ SKIP)
    end
  end.

(* configuration A: one process; a collective operation of P logical ranks is P successive calls *)
Fixpoint at_all_A (wr : bool) (size : Z) (args : list carg) (acc : payload) (k : payload -> prog) : prog :=
  match args with
  | [] => k acc
  | a :: rest => at_prog CfgA wr 0 (a_off a) size (a_count a) (a_data a)
                         (fun cls oc buf => at_all_A wr size rest (acc ++ enc CfgA cls oc false buf) k)
  end.

Fixpoint scen_prog_A (ops : list op) (h : hnd) (acc : payload) : prog :=
  match ops with
  | [] => Ret acc
  | o :: rest =>
    match o with
    | OOpen am => open_prog CfgA 0 am (fun cls h' => scen_prog_A rest h' (acc ++ enc CfgA cls 0 (negb (h_ctx h')) []))
    | OClose =>
      if h_ctx h then close_prog CfgA 0 h (fun cls h' => scen_prog_A rest h' (acc ++ enc CfgA cls 0 true []))
      else scen_prog_A rest h (acc ++ SKIP)
    | OColl wr size args =>
      if h_ctx h then at_all_A wr size args acc (fun acc' => scen_prog_A rest h acc')
      else scen_prog_A rest h (acc ++ concat (map (fun _ => SKIP) args))
    | OAt wr size a =>
      if h_ctx h then at_all_A wr size [a] acc (fun acc' => scen_prog_A rest h acc')
      else scen_prog_A rest h (acc ++ SKIP)
    end
  end.

(* ================================================================== 2. global model *)
(* the one file the scenario works on *)
Inductive node := Absent | NoDir | IsDir | File (content : list Z).
Record stream := mkS { st_mode : fmode; st_pos : Z }.
(* fault plan: rank, stdio function, how many calls of it that rank has made -> (errno, items transferred first) *)
Definition plan := Z -> Z -> Z -> option (Z * Z).
(* an entry (e, NOISE) is "success with errno noise": the call behaves as if there were no entry, but leaves errno = e behind
   (a legal freedom of the C library); it is not a failed call *)
Definition NOISE : Z := -1.
Definition FOPEN : Z := 0.  Definition FWRITE : Z := 1.  Definition FREAD : Z := 2.  Definition FSEEK : Z := 3.
Definition FTELL : Z := 4.  Definition FFLUSH : Z := 5.  Definition FCLOSE : Z := 6.

Record world := mkW {
  w_node : node;
  w_plan : plan;
  w_cnt : Z -> Z -> Z;        (* calls made so far per (rank, function) *)
  w_fail : Z;                 (* stdio calls that ended with errno <> 0 *)
  w_open : Z;                 (* streams currently open *)
  w_ledger : Z }.             (* file contexts currently allocated (SC_ALLOC - SC_FREE) *)

Definition bump (cnt : Z -> Z -> Z) (q f : Z) : Z -> Z -> Z :=
  fun q' f' => if (q' =? q) && (f' =? f) then cnt q f + 1 else cnt q' f'.
Definition take (w : world) (q f : Z) : world * option (Z * Z) :=
  (mkW (w_node w) (w_plan w) (bump (w_cnt w) q f) (w_fail w) (w_open w) (w_ledger w), w_plan w q f (w_cnt w q f)).
Definition note_err (w : world) (e : Z) : world :=
  if e =? 0 then w else mkW (w_node w) (w_plan w) (w_cnt w) (w_fail w + 1) (w_open w) (w_ledger w).
Definition set_node (w : world) (n : node) : world := mkW n (w_plan w) (w_cnt w) (w_fail w) (w_open w) (w_ledger w).
Definition add_open (w : world) (d : Z) : world := mkW (w_node w) (w_plan w) (w_cnt w) (w_fail w) (w_open w + d) (w_ledger w).
Definition add_ledger (w : world) (d : Z) : world := mkW (w_node w) (w_plan w) (w_cnt w) (w_fail w) (w_open w) (w_ledger w + d).
Definition content (w : world) : list Z := match w_node w with File c => c | _ => [] end.

(* overwrite/extend c at byte position pos with d; a gap is filled with zero bytes *)
Definition put (c : list Z) (pos : Z) (d : list Z) : list Z :=
  firstn (Z.to_nat pos) c ++ repeat 0 (Z.to_nat (pos - len c)) ++ d ++ skipn (Z.to_nat pos + length d) c.

(* --- stdio with injected outcomes: result = (world, ..., return value, errno) *)
(* fopen without an injected failure; ne = errno it leaves behind when it succeeds *)
Definition fopen_nat (w1 : world) (m : fmode) (ne : Z) : world * option stream * Z :=
  let bad e := (note_err w1 e, None, e) in
  match w_node w1 with
  | NoDir => bad e_ENOENT
  | IsDir => match m with MRead => (add_open w1 1, Some (mkS MRead 0), ne) | _ => bad e_EISDIR end
  | Absent => match m with MRead => bad e_ENOENT | _ => (add_open (set_node w1 (File [])) 1, Some (mkS m 0), ne) end
  | File c =>
    match m with
    | MRead => (add_open w1 1, Some (mkS MRead 0), ne)
    | MWrite => (add_open (set_node w1 (File [])) 1, Some (mkS MWrite 0), ne)
    | MAppend => (add_open w1 1, Some (mkS MAppend (len c)), ne)
    end
  end.

Definition g_fopen (w : world) (q : Z) (m : fmode) : world * option stream * Z :=
  let '(w1, f) := take w q FOPEN in
  match f with
  | Some (e, sh) => if sh =? NOISE then fopen_nat w1 m e else (note_err w1 e, None, e)
  | None => fopen_nat w1 m 0
  end.

(* the errno that makes a transfer a failed call: not the noise of a complete one *)
Definition failed_errno (f : option (Z * Z)) : Z :=
  match f with Some (e, sh) => if sh =? NOISE then 0 else e | None => 0 end.

Definition g_fwrite (w : world) (q : Z) (s : stream) (size count : Z) (data : payload) : world * stream * Z * Z :=
  let '(w1, f) := take w q FWRITE in
  match st_mode s with
  | MRead => (note_err w1 e_EBADF, s, 0, e_EBADF)                       (* stream not open for writing *)
  | _ =>
    let m := match f with Some (_, sh) => if sh =? NOISE then count else Z.max 0 (Z.min sh count) | None => count end in
    let e := match f with Some (e, _) => e | None => 0 end in
    let d := firstn (Z.to_nat (size * m)) data in
    let c := content w1 in
    let pos := match st_mode s with MAppend => len c | _ => st_pos s end in
    (note_err (set_node w1 (File (put c pos d))) (failed_errno f), mkS (st_mode s) (pos + len d), m, e)
  end.

(* result additionally: the bytes stored into the buffer *)
Definition g_fread (w : world) (q : Z) (s : stream) (size count : Z) : world * stream * Z * Z * payload :=
  let '(w1, f) := take w q FREAD in
  match st_mode s with
  | MRead =>
    let m := match f with Some (_, sh) => if sh =? NOISE then count else Z.max 0 (Z.min sh count) | None => count end in
    let e := match f with Some (e, _) => e | None => 0 end in
    let avail := firstn (Z.to_nat (size * m)) (skipn (Z.to_nat (st_pos s)) (content w1)) in
    let n := len avail / size in                                       (* whole elements; a trailing partial one is not reported *)
    (note_err w1 (failed_errno f), mkS MRead (st_pos s + len avail), n, e, firstn (Z.to_nat (size * n)) avail)
  | _ => (note_err w1 e_EBADF, s, 0, e_EBADF, [])                        (* stream not open for reading *)
  end.

Definition g_fseek (w : world) (q : Z) (s : stream) (off : Z) : world * stream * Z * Z :=
  let '(w1, f) := take w q FSEEK in
  let nat (ne : Z) := if off <? 0 then (note_err w1 e_EINVAL, s, -1, e_EINVAL) else (w1, mkS (st_mode s) off, 0, ne) in
  match f with
  | Some (e, sh) => if sh =? NOISE then nat e else (note_err w1 e, s, -1, e)
  | None => nat 0
  end.

Definition g_ftell (w : world) (q : Z) (s : stream) : world * Z * Z :=
  let '(w1, f) := take w q FTELL in
  match f with Some (e, sh) => if sh =? NOISE then (w1, st_pos s, e) else (note_err w1 e, -1, e) | None => (w1, st_pos s, 0) end.

Definition g_fflush (w : world) (q : Z) : world * Z * Z :=
  let '(w1, f) := take w q FFLUSH in
  match f with Some (e, sh) => if sh =? NOISE then (w1, 0, e) else (note_err w1 e, -1, e) | None => (w1, 0, 0) end.

(* the stream is gone in either case *)
Definition g_fclose (w : world) (q : Z) : world * Z * Z :=
  let '(w1, f) := take w q FCLOSE in
  match f with
  | Some (e, sh) => if sh =? NOISE then (add_open w1 (-1), 0, e) else (note_err (add_open w1 (-1)) e, -1, e)
  | None => (add_open w1 (-1), 0, 0)
  end.

(* --- the wrapper functions on the global state; None = the process group aborts *)
Record gstate := mkG { g_w : world; g_s0 : option stream; g_ctx : bool }.
Definition ranks (P : Z) : list Z := map Z.of_nat (seq 0 (Z.to_nat P)).
(* MPI_Bcast: every rank obtains the root's value *)
Definition bcast_all (P v : Z) : list Z := map (fun _ => v) (ranks P).

(* sc_io_open: per rank the class it returns; `judge` = how the result of fopen becomes the broadcast value (`open_judge`) *)
Definition g_open_with (judge : bool -> Z -> Z) (c : config) (P : Z) (g : gstate) (amode : Z) : gstate * list Z :=
  let w0 := add_ledger (g_w g) P in
  let '(w1, so, e0) := g_fopen w0 0 (mode_of_amode amode) in
  let e := judge (match so with Some _ => true | None => false end) e0 in
  let cls := map (errclass c) (bcast_all P e) in
  if errclass c e =? SUCCESS c then (mkG w1 so true, cls)
  else (mkG (add_ledger w1 (- P)) None false, cls).
Definition g_open : config -> Z -> gstate -> Z -> gstate * list Z := g_open_with open_judge.

Definition g_close (c : config) (P : Z) (g : gstate) : option (gstate * list Z) :=
  match g_s0 g with
  | Some _ =>
    let '(w1, ret, e) := g_fclose (g_w g) 0 in
    let ec := errclass c e in
    if Bool.eqb (ret =? 0) (ec =? SUCCESS c) then Some (mkG (add_ledger w1 (- P)) None false, bcast_all P ec) else None
  | None => Some (mkG (add_ledger (g_w g) (- P)) None false, bcast_all P (SUCCESS c))
  end.

Record rres := mkR { r_cls : Z; r_ocount : Z; r_buf : payload }.

(* sc_io_read_at / sc_io_write_at by (logical) rank q on the stream of process 0; `tail` = the class returned after the
   position-restoring fseek as a function of the transfer's errno and the fseek's errno (`at_tail` in the code) *)
Definition g_at_with (tail : config -> Z -> Z -> Z)
           (c : config) (wr : bool) (g : gstate) (q size : Z) (a : carg) : gstate * rres :=
  let w := g_w g in
  if a_count a =? 0 then (g, mkR (SUCCESS c) 0 [])
  else
    match g_s0 g with
    | None => (g, mkR (SUCCESS c) 0 [])                     (* not reachable: process 0 always holds a stream *)
    | Some s =>
      let '(w1, pos, e1) := g_ftell w q s in
      if pos =? -1 then (mkG w1 (Some s) (g_ctx g), mkR (errclass c e1) 0 [])
      else
        let '(w2, s2, r2, e2) := g_fseek w1 q s (a_off a) in
        if negb (r2 =? 0) then (mkG w2 (Some s2) (g_ctx g), mkR (errclass c e2) 0 [])
        else
          let '(w3, s3, oc, e3, buf) :=
            if wr then let '(w', s', oc, e) := g_fwrite w2 q s2 size (a_count a) (a_data a) in (w', s', oc, e, [])
            else g_fread w2 q s2 size (a_count a) in
          if negb (e3 =? 0) && (oc =? 0) then (mkG w3 (Some s3) (g_ctx g), mkR (errclass c e3) oc buf)
          else
            let '(w4, s4, r4, e4) := g_fseek w3 q s3 pos in
            (mkG w4 (Some s4) (g_ctx g), mkR (tail c e3 e4) oc buf)
    end.

Definition g_at : config -> bool -> gstate -> Z -> Z -> carg -> gstate * rres := g_at_with at_tail.

(* one rank's turn in the token protocol: token in -> (world, stream of rank 0 afterwards, errval, ocount, buffer) *)
Record turn := mkT { t_errval : Z; t_ocount : Z; t_buf : payload }.
Definition tok_out (t : turn) : Z := if t_errval t =? 0 then -1 else t_errval t.

Definition g_turn (wr : bool) (w : world) (s0 : option stream) (q tok size : Z) (a : carg) : option (world * turn) :=
  let mode := if wr then MAppend else MRead in
  if tok =? -1 then
    let opened : world * option stream * Z :=
      if q =? 0 then (w, s0, 0) else g_fopen w q mode in
    let '(w1, so, e0) := opened in
    let e1 := open_judge (match so with Some _ => true | None => false end) e0 in     (* judged by the stream, not by errno *)
    if negb (e1 =? 0) then Some (w1, mkT e1 0 [])
    else
      match so with
      | None => None                                        (* not reachable: a NULL stream comes with errno <> 0 *)
      | Some s =>
        let seeked : option (world * stream) :=
          if wr then Some (w1, s)
          else let '(w2, s2, r2, _) := g_fseek w1 q s (a_off a) in if r2 =? 0 then Some (w2, s2) else None in
        match seeked with
        | None => None                                      (* "read_at_all: seek failed" *)
        | Some (w2, s2) =>
          let '(w3, s3, oc, e3, buf) :=
            if wr then let '(w', s', oc, e) := g_fwrite w2 q s2 size (a_count a) (a_data a) in (w', s', oc, e, [])
            else g_fread w2 q s2 size (a_count a) in
          let '(w4, r4, _) := g_fflush w3 q in
          if negb (r4 =? 0) then None
          else let '(w5, r5, _) := g_fclose w4 q in
               if negb (r5 =? 0) then None else Some (w5, mkT e3 oc buf)
        end
      end
  else if 0 <? tok then Some (w, mkT tok 0 [])
  else None.                                                (* SC_ABORT_NOT_REACHED *)

(* ranks 0, 1, ... in turn (the token serialises them) *)
Fixpoint g_turns (wr : bool) (w : world) (s0 : option stream) (q tok size : Z) (args : list carg)
  : option (world * list turn) :=
  match args with
  | [] => Some (w, [])
  | a :: rest =>
    match g_turn wr w s0 q tok size a with
    | None => None
    | Some (w1, t) =>
      match g_turns wr w1 s0 (q + 1) (tok_out t) size rest with
      | None => None
      | Some (w2, ts) => Some (w2, t :: ts)
      end
    end
  end.

(* sc_io_read_at_all / sc_io_write_at_all without MPI I/O; args has one entry per rank *)
Definition g_coll (wr : bool) (g : gstate) (size : Z) (args : list carg) : option (gstate * list rres) :=
  match g_turns wr (g_w g) (g_s0 g) 0 (-1) size args with
  | None => None
  | Some (w1, ts) =>
    (* barrier; rank 0 opens the file again; the last rank broadcasts its error value *)
    let '(w2, so, e) := g_fopen w1 0 (if wr then MAppend else MRead) in
    if (match so with Some _ => false | None => true end) then None          (* `if (mpifile->file == NULL) SC_ABORT` *)
    else
      let ev := t_errval (last ts (mkT 0 0 [])) in
      Some (mkG w2 so (g_ctx g), map (fun t => mkR (errclass CfgC ev) (t_ocount t) (t_buf t)) ts)
  end.

(* the fallback BEFORE the repair of its four fopen judgements (`errval = errno` after the fopen of a rank > 0, `if (errno != 0)
   SC_ABORT` at the re-open of rank 0): copies of g_turn / g_turns / g_coll with these two lines, used by no program and by no
   theorem except the refutation `coll_old_judge_refuted` *)
Definition g_turn_old (wr : bool) (w : world) (s0 : option stream) (q tok size : Z) (a : carg) : option (world * turn) :=
  let mode := if wr then MAppend else MRead in
  if tok =? -1 then
    let opened : world * option stream * Z := if q =? 0 then (w, s0, 0) else g_fopen w q mode in
    let '(w1, so, e1) := opened in
    if negb (e1 =? 0) then Some (w1, mkT e1 0 [])
    else
      match so with
      | None => None
      | Some s =>
        let seeked : option (world * stream) :=
          if wr then Some (w1, s)
          else let '(w2, s2, r2, _) := g_fseek w1 q s (a_off a) in if r2 =? 0 then Some (w2, s2) else None in
        match seeked with
        | None => None
        | Some (w2, s2) =>
          let '(w3, s3, oc, e3, buf) :=
            if wr then let '(w', s', oc, e) := g_fwrite w2 q s2 size (a_count a) (a_data a) in (w', s', oc, e, [])
            else g_fread w2 q s2 size (a_count a) in
          let '(w4, r4, _) := g_fflush w3 q in
          if negb (r4 =? 0) then None
          else let '(w5, r5, _) := g_fclose w4 q in
               if negb (r5 =? 0) then None else Some (w5, mkT e3 oc buf)
        end
      end
  else if 0 <? tok then Some (w, mkT tok 0 [])
  else None.
Fixpoint g_turns_old (wr : bool) (w : world) (s0 : option stream) (q tok size : Z) (args : list carg)
  : option (world * list turn) :=
  match args with
  | [] => Some (w, [])
  | a :: rest =>
    match g_turn_old wr w s0 q tok size a with
    | None => None
    | Some (w1, t) =>
      match g_turns_old wr w1 s0 (q + 1) (tok_out t) size rest with
      | None => None
      | Some (w2, ts) => Some (w2, t :: ts)
      end
    end
  end.
Definition g_coll_old (wr : bool) (g : gstate) (size : Z) (args : list carg) : option (gstate * list rres) :=
  match g_turns_old wr (g_w g) (g_s0 g) 0 (-1) size args with
  | None => None
  | Some (w1, ts) =>
    let '(w2, so, e) := g_fopen w1 0 (if wr then MAppend else MRead) in
    if negb (e =? 0) then None
    else
      let ev := t_errval (last ts (mkT 0 0 [])) in
      Some (mkG w2 so (g_ctx g), map (fun t => mkR (errclass CfgC ev) (t_ocount t) (t_buf t)) ts)
  end.

(* configuration A: the P logical ranks one after the other *)
Fixpoint g_at_all (c : config) (wr : bool) (g : gstate) (q size : Z) (args : list carg) : gstate * list rres :=
  match args with
  | [] => (g, [])
  | a :: rest => let '(g1, r) := g_at c wr g q size a in
                 let '(g2, rs) := g_at_all c wr g1 (q + 1) size rest in (g2, r :: rs)
  end.

(* --- scenarios on the global model: per operation the per-rank results as the drivers print them *)
Definition enc_r (c : config) (r : rres) : payload := enc c (r_cls r) (r_ocount r) false (r_buf r).

(* processes that really exist: the serial configuration has one, whatever the number of logical ranks *)
Definition nproc (c : config) (P : Z) : Z := match c with CfgA => 1 | CfgC => P end.

Fixpoint g_scen (c : config) (P : Z) (g : gstate) (ops : list op) : option (gstate * list (list payload)) :=
  match ops with
  | [] => Some (g, [])
  | o :: rest =>
    let continue (g1 : gstate) (out : list payload) :=
      match g_scen c P g1 rest with None => None | Some (g2, outs) => Some (g2, out :: outs) end in
    match o with
    | OOpen am =>
      let '(g1, cls) := g_open c (nproc c P) g am in
      continue g1 (map (fun cl => enc c cl 0 (negb (g_ctx g1)) []) cls)
    | OClose =>
      if g_ctx g then
        match g_close c (nproc c P) g with None => None | Some (g1, cls) => continue g1 (map (fun cl => enc c cl 0 true []) cls) end
      else continue g (map (fun _ => SKIP) (ranks (nproc c P)))
    | OColl wr size args =>
      if g_ctx g then
        match c with
        | CfgC => match g_coll wr g size args with None => None | Some (g1, rs) => continue g1 (map (enc_r c) rs) end
        | CfgA => let '(g1, rs) := g_at_all c wr g 0 size args in continue g1 (map (enc_r c) rs)
        end
      else continue g (map (fun _ => SKIP) (ranks P))
    | OAt wr size a =>
      if g_ctx g then let '(g1, r) := g_at c wr g 0 size a in continue g1 [enc_r c r]
      else continue g [SKIP]
    end
  end.

Definition world0 (n : node) (pl : plan) : world := mkW n pl (fun _ _ => 0) 0 0 0.
Definition gstate0 (n : node) (pl : plan) : gstate := mkG (world0 n pl) None false.
