(* C12 - configuration B (MPI with MPI I/O): theorems about the global model of MpiioModel.v, i.e. about the wrapper's calls
   on the abstract MPI I/O file semantics, for EVERY MPI_Error_class function `ecl` that maps exactly MPI_SUCCESS to
   MPI_SUCCESS (MPI-3.1 8.4), every P, sizes, contents and - where a plan occurs - every assignment of error codes to
   MPI I/O calls; and the cross-configuration statement: A, B and C write the same file on the common domain. *)
From Coq Require Import ZArith List Bool Lia.
From ScV Require Import Base.CInt MPI.Prog Gen.ErrClassC12 Gen.OpenC12 C12.FileModel C12.FileProofs C12.MpiioModel C12.OpenGen.
Import ListNotations.
Local Open Scope Z_scope.

(* ------------------------------------------------------------------ MPI_Get_count and the repair of MPI_UNDEFINED *)
Lemma get_count_exact n s : 0 < s -> n mod s = 0 -> get_count n s = n / s.
Proof. intros Hs Hm. unfold get_count. rewrite (proj2 (Z.eqb_neq s 0)) by lia. rewrite Hm. reflexivity. Qed.

Lemma get_count_mul s k : 0 < s -> get_count (s * k) s = k.
Proof.
  intros Hs. rewrite get_count_exact; auto.
  - rewrite Z.mul_comm. apply Z.div_mul. lia.
  - rewrite Z.mul_comm. apply Z.mod_mul. lia.
Qed.

(* sc_io_read_count: the number of WHOLE elements among n transferred bytes, also when the file ends inside an element *)
Lemma read_count_whole n s : 0 < s -> 0 <= n < 2147483648 -> read_count n s = n / s.
Proof.
  intros Hs Hn. unfold read_count, get_count. rewrite (proj2 (Z.eqb_neq s 0)) by lia.
  assert (Hq : 0 <= n / s <= n) by (split; [apply Z.div_pos; lia | apply Z.div_le_upper_bound; nia]).
  destruct (n mod s =? 0) eqn:Em.
  - destruct (n / s =? ocB_MPI_UNDEFINED) eqn:E; [|reflexivity].
    apply Z.eqb_eq in E. unfold ocB_MPI_UNDEFINED in E. lia.
  - rewrite Z.eqb_refl. unfold cdiv. rewrite Z.quot_div_nonneg by lia.
    apply s32_id. unfold in_s32. change (M32 / 2) with 2147483648. lia.
Qed.

(* the code before repair d6b0a0c returned MPI_Get_count's value as it is: a negative count for a legal read *)
Lemma get_count_undefined_witness : get_count 10 4 < 0 /\ read_count 10 4 = 2.
Proof. split; reflexivity. Qed.

Section WithErrorClass.
Variable ecl : Z -> Z.
Hypothesis ecl_ok : forall e, ecl e = SUCC <-> e = SUCC.

Lemma ecl0 : ecl 0 = 0.
Proof. apply (ecl_ok 0). reflexivity. Qed.
Lemma ecl_eqb e : (ecl e =? SUCC) = (e =? SUCC).
Proof.
  destruct (e =? SUCC) eqn:E.
  - apply Z.eqb_eq in E. apply Z.eqb_eq. apply ecl_ok. exact E.
  - apply Z.eqb_neq in E. apply Z.eqb_neq. intros H. apply E. apply ecl_ok. exact H.
Qed.

Lemma in_bcast_all P v x : In x (bcast_all P v) -> x = v.
Proof. unfold bcast_all. intros H. apply in_map_iff in H. destruct H as (_ & H & _). auto. Qed.

Lemma valid_bits am : valid_amode am -> amode_valid (amode_bits am) = true /\ (am = c12_SC_IO_READ \/ can_write (amode_bits am) = true).
Proof. intros [-> | [-> | ->]]; split; try reflexivity; auto. Qed.

(* take: the plan and the failure counter are untouched *)
Lemma take_fail w q f : w_fail (fst (take w q f)) = w_fail w /\ w_open (fst (take w q f)) = w_open w
                        /\ w_plan (fst (take w q f)) = w_plan w /\ w_node (fst (take w q f)) = w_node w.
Proof. unfold take. cbn. auto. Qed.

Lemma note_err_fail w e : w_fail (note_err w e) = w_fail w + (if e =? 0 then 0 else 1).
Proof. unfold note_err. destruct (e =? 0); cbn; lia. Qed.
Lemma note_err_open w e : w_open (note_err w e) = w_open w.
Proof. unfold note_err. destruct (e =? 0); reflexivity. Qed.
Lemma note_err_node w e : w_node (note_err w e) = w_node w.
Proof. unfold note_err. destruct (e =? 0); reflexivity. Qed.

(* ------------------------------------------------------------------ the MPI I/O calls: error code 0 iff nothing failed *)
Lemma m_open_spec w P bits w' e : plan_ok (w_plan w) -> m_open w P bits = (w', e) ->
  0 <= e /\ (e = 0 <-> w_fail w' = w_fail w) /\ w_open w' = w_open w + (if e =? 0 then P else 0).
Proof.
  intros Hp. unfold m_open, take.
  destruct (w_plan w 0 K_MOPEN (w_cnt w 0 K_MOPEN)) as [[e0 s0]|] eqn:Ef.
  - intros H. inversion H; subst. destruct (Hp _ _ _ _ _ Ef) as [[_ H1] _].
    assert (0 < e) by (apply H1; unfold K_MOPEN, FWRITE, FREAD; lia).
    rewrite note_err_fail, note_err_open. cbn. rewrite (proj2 (Z.eqb_neq e 0)) by lia. repeat split; try lia.
  - assert (Hbad : forall E w1, 0 < E -> w_fail w1 = w_fail w -> w_open w1 = w_open w -> (note_err w1 E, E) = (w', e) ->
                   0 <= e /\ (e = 0 <-> w_fail w' = w_fail w) /\ w_open w' = w_open w + (if e =? 0 then P else 0)).
    { intros E w1 HE Hf Ho H. inversion H; subst. rewrite note_err_fail, note_err_open.
      rewrite (proj2 (Z.eqb_neq e 0)) by lia. repeat split; lia. }
    destruct (amode_valid bits); cbn [negb].
    2: { apply Hbad; cbn; auto; reflexivity. }
    cbn [w_node].
    destruct (w_node w) eqn:En.
    + destruct (has bits ocB_MPI_MODE_CREATE).
      * intros H. inversion H; subst. cbn. repeat split; lia.
      * apply Hbad; cbn; auto; reflexivity.
    + apply Hbad; cbn; auto; reflexivity.
    + apply Hbad; cbn; auto; reflexivity.
    + destruct (has bits ocB_MPI_MODE_CREATE && has bits ocB_MPI_MODE_EXCL).
      * apply Hbad; cbn; auto; reflexivity.
      * intros H. inversion H; subst. cbn. repeat split; lia.
Qed.

Lemma m_set_size_spec w bits size w' e : plan_ok (w_plan w) -> m_set_size w bits size = (w', e) ->
  0 <= e /\ (e = 0 <-> w_fail w' = w_fail w) /\ w_open w' = w_open w
  /\ (w_plan w 0 K_MSETSIZE (w_cnt w 0 K_MSETSIZE) = None -> can_write bits = true -> e = 0).
Proof.
  intros Hp. unfold m_set_size, take.
  destruct (w_plan w 0 K_MSETSIZE (w_cnt w 0 K_MSETSIZE)) as [[e0 s0]|] eqn:Ef.
  - intros H. inversion H; subst. destruct (Hp _ _ _ _ _ Ef) as [[_ H1] _].
    assert (0 < e) by (apply H1; unfold K_MSETSIZE, FWRITE, FREAD; lia).
    rewrite note_err_fail, note_err_open. cbn. rewrite (proj2 (Z.eqb_neq e 0)) by lia. repeat split; try lia; try discriminate.
  - destruct (can_write bits); cbn [negb].
    + intros H. inversion H; subst. cbn. repeat split; lia.
    + intros H. inversion H; subst. rewrite note_err_fail, note_err_open. cbn. repeat split; try lia;
        unfold E_READ_ONLY, cB_sc_MPI_ERR_READ_ONLY; try lia; try discriminate.
Qed.

Lemma m_close_spec w P w' e : plan_ok (w_plan w) -> m_close w P = (w', e) ->
  0 <= e /\ (e = 0 <-> w_fail w' = w_fail w) /\ w_open w' = w_open w - P.
Proof.
  intros Hp. unfold m_close, take.
  destruct (w_plan w 0 K_MCLOSE (w_cnt w 0 K_MCLOSE)) as [[e0 s0]|] eqn:Ef.
  - intros H. inversion H; subst. destruct (Hp _ _ _ _ _ Ef) as [[_ H1] _].
    assert (0 < e) by (apply H1; unfold K_MCLOSE, FWRITE, FREAD; lia).
    rewrite note_err_fail, note_err_open. cbn. rewrite (proj2 (Z.eqb_neq e 0)) by lia. repeat split; lia.
  - intros H. inversion H; subst. cbn. repeat split; lia.
Qed.

Lemma m_open_plan w P bits w' e : m_open w P bits = (w', e) -> w_plan w' = w_plan w.
Proof.
  unfold m_open, take.
  destruct (w_plan w 0 K_MOPEN (w_cnt w 0 K_MOPEN)) as [[e0 s0]|];
    [intros H; inversion H; subst; unfold note_err; destruct (e =? 0); cbn; auto|].
  destruct (negb (amode_valid bits)); [intros H; inversion H; subst; unfold note_err; cbn; auto|].
  cbn [w_node]. destruct (w_node w).
  - destruct (has bits ocB_MPI_MODE_CREATE); intros H; inversion H; subst; unfold note_err; cbn; auto.
  - intros H; inversion H; subst; unfold note_err; cbn; auto.
  - intros H; inversion H; subst; unfold note_err; cbn; auto.
  - destruct (has bits ocB_MPI_MODE_CREATE && has bits ocB_MPI_MODE_EXCL);
      intros H; inversion H; subst; unfold note_err; cbn; auto.
Qed.

Lemma m_set_size_plan w bits size w' e : m_set_size w bits size = (w', e) -> w_plan w' = w_plan w.
Proof.
  unfold m_set_size, take.
  destruct (w_plan w 0 K_MSETSIZE (w_cnt w 0 K_MSETSIZE)) as [[e0 s0]|];
    [intros H; inversion H; subst; unfold note_err; destruct (e =? 0); cbn; auto|].
  destruct (negb (can_write bits)); intros H; inversion H; subst; unfold note_err; cbn; auto.
Qed.

(* ------------------------------------------------------------------ sc_io_open with MPI I/O *)
(* under EVERY plan of injected error codes: all ranks obtain one class; SUCCESS iff no MPI I/O call failed; then every rank
   holds a handle with the parsed amode; a failed open leaves NO handle behind - also when the failing call is the
   MPI_File_set_size of SC_IO_WRITE_CREATE (the handle is closed again; repair of F-C12h), and also when that MPI_File_close
   fails as well; the class is then the one of MPI_File_set_size *)
Theorem B_open P g am g' cls : valid_amode am -> plan_ok (w_plan (b_w g)) ->
  gB_open ecl P g am = (g', cls) ->
  exists x, cls = bcast_all P x
  /\ (x = SUCC <-> w_fail (b_w g') = w_fail (b_w g))
  /\ b_ok g' = (x =? SUCC)
  /\ (x = SUCC -> b_bits g' = Some (amode_bits am) /\ w_open (b_w g') = w_open (b_w g) + P)
  /\ (x <> SUCC -> b_bits g' = None /\ w_open (b_w g') = w_open (b_w g))
  /\ (forall w1 e, m_open (b_w g) P (amode_bits am) = (w1, e) ->
      x = if (e =? SUCC) && (am =? c12_SC_IO_WRITE_CREATE) then ecl (snd (m_set_size w1 (amode_bits am) 0)) else ecl e).
Proof.
  intros Hv Hp. unfold gB_open, gB_open_with.
  destruct (m_open (b_w g) P (amode_bits am)) as [w1 e] eqn:Eo.
  destruct (m_open_spec _ _ _ _ _ Hp Eo) as (He0 & Hef & Hop).
  pose proof (m_open_plan _ _ _ _ _ Eo) as Hpl.
  destruct ((e =? SUCC) && (am =? c12_SC_IO_WRITE_CREATE)) eqn:Ec.
  - apply andb_true_iff in Ec. destruct Ec as [Ee Ea]. apply Z.eqb_eq in Ee. apply Z.eqb_eq in Ea. subst am.
    destruct (m_set_size w1 (amode_bits c12_SC_IO_WRITE_CREATE) 0) as [w2 e2] eqn:Es.
    assert (Hp' : plan_ok (w_plan w1)) by (rewrite Hpl; exact Hp).
    destruct (m_set_size_spec _ _ _ _ _ Hp' Es) as (He2 & Hsf & Hso & Hsn).
    assert (Hw1 : w_fail w1 = w_fail (b_w g)) by (apply Hef; exact Ee).
    rewrite Ee in Hop. cbn in Hop.
    assert (Hx6 : forall w1' e', (w1, e) = (w1', e') ->
              ecl e2 = (if (e' =? SUCC) && (c12_SC_IO_WRITE_CREATE =? c12_SC_IO_WRITE_CREATE)
                        then ecl (snd (m_set_size w1' (amode_bits c12_SC_IO_WRITE_CREATE) 0)) else ecl e')).
    { intros w1' e' H. inversion H; subst w1' e'. rewrite Ee. cbn [Z.eqb andb]. rewrite Z.eqb_refl. cbn [andb]. rewrite Es. reflexivity. }
    cbn [andb]. destruct (ecl e2 =? SUCC) eqn:Ex; cbn [negb].
    + intros H. inversion H; subst g' cls. cbn [b_w b_bits b_ok].
      exists (ecl e2). split; [reflexivity|].
      apply Z.eqb_eq in Ex. pose proof (proj1 (ecl_ok e2) Ex) as He20. unfold SUCC, ocB_MPI_SUCCESS in He20.
      split; [|split; [rewrite Ex; reflexivity|split; [|split]]].
      * split; [intros _; rewrite <- Hw1; apply Hsf; exact He20 | intros _; exact Ex].
      * intros _. split; [reflexivity|]. lia.
      * intros Hx. contradiction.
      * exact Hx6.
    + destruct (m_close w2 P) as [w3 e3] eqn:Ecl.
      assert (Hp2 : plan_ok (w_plan w2)) by (rewrite (m_set_size_plan _ _ _ _ _ Es); exact Hp').
      destruct (m_close_spec _ _ _ _ Hp2 Ecl) as (He3 & Hcf & Hco).
      intros H. inversion H; subst g' cls. cbn [b_w b_bits b_ok].
      exists (ecl e2). split; [reflexivity|].
      apply Z.eqb_neq in Ex.
      assert (He2n : e2 <> 0) by (intros E; apply Ex; apply (proj2 (ecl_ok e2)); exact E).
      assert (Hf2 : w_fail w2 = w_fail w1 + 1).
      { revert Es. unfold m_set_size, take.
        destruct (w_plan w1 0 K_MSETSIZE (w_cnt w1 0 K_MSETSIZE)) as [[e0 s0]|].
        - intros E; inversion E; subst. rewrite note_err_fail. cbn. rewrite (proj2 (Z.eqb_neq e2 0)) by auto. lia.
        - destruct (negb (can_write (amode_bits c12_SC_IO_WRITE_CREATE))); intros E; inversion E; subst.
          + rewrite note_err_fail. cbn. lia.
          + contradiction. }
      assert (Hf3 : w_fail w2 <= w_fail w3).
      { revert Ecl. unfold m_close, take.
        destruct (w_plan w2 0 K_MCLOSE (w_cnt w2 0 K_MCLOSE)) as [[e0 s0]|]; intros E; inversion E; subst.
        - rewrite note_err_fail. cbn. destruct (e3 =? 0); lia.
        - cbn. lia. }
      split; [|split; [symmetry; apply Z.eqb_neq; exact Ex|split; [|split]]].
      * split; [intros Hx; contradiction | intros Hx; lia].
      * intros Hx. contradiction.
      * intros _. split; [reflexivity|]. lia.
      * exact Hx6.
  - intros H. inversion H; subst g' cls. cbn [b_w b_bits b_ok].
    exists (ecl e). split; [reflexivity|].
    split; [|split; [reflexivity|split; [|split]]].
    + rewrite ecl_ok. exact Hef.
    + intros Hx. apply (proj1 (ecl_ok e)) in Hx. subst e. cbn. split; [reflexivity|]. cbn in Hop. exact Hop.
    + intros Hx. assert (e <> SUCC) by (intros E; apply Hx; apply (proj2 (ecl_ok e)); exact E).
      rewrite (proj2 (Z.eqb_neq e SUCC)) by auto. split; [reflexivity|].
      rewrite Hop. unfold SUCC, ocB_MPI_SUCCESS in H0. rewrite (proj2 (Z.eqb_neq e 0)) by auto. lia.
    + intros w1' e' H'. inversion H'; subst w1' e'. rewrite Ec. reflexivity.
Qed.

(* ------------------------------------------------------------------ sc_io_close with MPI I/O *)
Theorem B_close P g g' cls : plan_ok (w_plan (b_w g)) -> gB_close ecl P g = (g', cls) ->
  exists x, cls = bcast_all P x
  /\ (x = SUCC <-> w_fail (b_w g') = w_fail (b_w g))
  /\ b_bits g' = None /\ b_ok g' = false /\ w_open (b_w g') = w_open (b_w g) - P.
Proof.
  intros Hp. unfold gB_close. destruct (m_close (b_w g) P) as [w1 e] eqn:Ec.
  destruct (m_close_spec _ _ _ _ Hp Ec) as (He & Hf & Ho).
  intros H. inversion H; subst. cbn. exists (ecl e). repeat split; auto.
  - intros Hx. apply Hf. apply (proj1 (ecl_ok e)) in Hx. exact Hx.
  - intros Hx. apply (proj2 (ecl_ok e)). apply Hf. exact Hx.
Qed.

Ltac fin := repeat split; intros; try lia; try reflexivity; try contradiction; try tauto; try (exfalso; congruence).

(* ------------------------------------------------------------------ one rank's transfer under every plan *)
(* class SUCCESS iff the MPI I/O call did not fail; 0 <= ocount <= count; on SUCCESS: a write stores exactly the count
   elements at the offset and nothing else changes, ocount = count; a read leaves the file alone, ocount is the number of whole
   elements found at the offset (also when the file ends inside an element) and the buffer holds them; on failure nothing was
   transferred and ocount = 0 *)
Theorem B_rw_success_iff coll wr w bits q size a w' r :
  plan_ok (w_plan w) -> 0 < size -> 0 <= a_count a -> size * a_count a < 2147483648 -> len (a_data a) = size * a_count a ->
  gB_rw ecl coll wr w bits q size a = (w', r) ->
  (r_cls r = SUCC <-> w_fail w' = w_fail w)
  /\ 0 <= r_ocount r <= a_count a /\ w_open w' = w_open w
  /\ (r_cls r = SUCC ->
      if wr then r_ocount r = a_count a
                /\ (0 < a_count a -> w_node w' = File (put (content w) (a_off a) (a_data a)))
                /\ (a_count a = 0 -> w_node w' = w_node w)
      else w_node w' = w_node w
           /\ r_ocount r = (if 0 <? a_count a then whole (content w) (a_off a) size (a_count a) else 0)
           /\ r_buf r = (if 0 <? a_count a
                         then firstn (Z.to_nat (size * r_ocount r)) (avail (content w) (a_off a) size (a_count a)) else []))
  /\ (r_cls r <> SUCC -> w_node w' = w_node w /\ r_ocount r = 0 /\ r_buf r = []).
Proof.
  intros Hp Hs Hc Hb Hl. unfold gB_rw.
  destruct wr.
  - unfold m_write_at, take.
    destruct (w_plan w q (rw_kind coll true) (w_cnt w q (rw_kind coll true))) as [[e0 s0]|] eqn:Ef.
    + destruct (Hp _ _ _ _ _ Ef) as [[_ H1] _].
      assert (0 < e0) by (apply H1; destruct coll; unfold rw_kind, K_MWRITEATALL, K_MWRITEAT, FWRITE, FREAD; lia).
      rewrite (proj2 (Z.eqb_neq e0 SUCC)) by (unfold SUCC, ocB_MPI_SUCCESS; lia). cbn [andb].
      intros H'. inversion H'; subst. cbn [r_cls r_ocount r_buf].
      rewrite note_err_fail, note_err_open, note_err_node. cbn. rewrite (proj2 (Z.eqb_neq e0 0)) by lia.
      assert (ecl e0 <> SUCC) by (intros E; apply (proj1 (ecl_ok _)) in E; unfold SUCC, ocB_MPI_SUCCESS in E; lia).
      fin.
    + destruct (can_write bits); cbn [negb].
      * destruct (a_count a <=? 0) eqn:Ec0.
        -- apply Z.leb_le in Ec0. assert (a_count a = 0) by lia.
           rewrite Z.eqb_refl. rewrite (proj2 (Z.ltb_ge 0 (a_count a))) by lia. cbn [andb].
           intros H'. inversion H'; subst. cbn. rewrite ecl0.
           fin.
        -- apply Z.leb_gt in Ec0. rewrite Z.eqb_refl. rewrite (proj2 (Z.ltb_lt 0 (a_count a))) by lia. cbn [andb].
           intros H'. inversion H'; subst. cbn [r_cls r_ocount r_buf w_fail w_open w_node set_node].
           rewrite <- Hl. rewrite firstn_len. rewrite Hl. rewrite get_count_mul by lia.
           fin.
      * rewrite (proj2 (Z.eqb_neq E_ACCESS SUCC)) by (unfold E_ACCESS, SUCC, cB_sc_MPI_ERR_ACCESS, ocB_MPI_SUCCESS; lia). cbn [andb].
        intros H'. inversion H'; subst. cbn [r_cls r_ocount r_buf].
        rewrite note_err_fail, note_err_open, note_err_node. cbn.
        assert (ecl E_ACCESS <> SUCC) by (intros E; apply (proj1 (ecl_ok _)) in E; unfold E_ACCESS, SUCC, cB_sc_MPI_ERR_ACCESS, ocB_MPI_SUCCESS in E; lia).
        fin.
  - unfold m_read_at, take.
    destruct (w_plan w q (rw_kind coll false) (w_cnt w q (rw_kind coll false))) as [[e0 s0]|] eqn:Ef.
    + destruct (Hp _ _ _ _ _ Ef) as [[_ H1] _].
      assert (0 < e0) by (apply H1; destruct coll; unfold rw_kind, K_MREADATALL, K_MREADAT, FWRITE, FREAD; lia).
      rewrite (proj2 (Z.eqb_neq e0 SUCC)) by (unfold SUCC, ocB_MPI_SUCCESS; lia). cbn [andb].
      intros H'. inversion H'; subst. cbn [r_cls r_ocount r_buf].
      rewrite note_err_fail, note_err_open, note_err_node. cbn. rewrite (proj2 (Z.eqb_neq e0 0)) by lia.
      assert (ecl e0 <> SUCC) by (intros E; apply (proj1 (ecl_ok _)) in E; unfold SUCC, ocB_MPI_SUCCESS in E; lia).
      fin.
    + destruct (can_read bits); cbn [negb].
      * rewrite Z.eqb_refl. cbn [andb].
        set (d := firstn (Z.to_nat (size * a_count a)) (skipn (Z.to_nat (a_off a)) (content (mkW (w_node w) (w_plan w) (bump (w_cnt w) q (rw_kind coll false)) (w_fail w) (w_open w) (w_ledger w))))).
        assert (Hd : d = avail (content w) (a_off a) size (a_count a)) by reflexivity.
        assert (Hld : 0 <= len d <= size * a_count a).
        { split; [apply len_nonneg|]. unfold d, len. rewrite firstn_length. lia. }
        destruct (0 <? a_count a) eqn:Ec0.
        -- intros H'. inversion H'; subst w' r. cbn [r_cls r_ocount r_buf w_fail w_open w_node].
           rewrite read_count_whole by lia.
           assert (0 <= len d / size <= a_count a).
           { split; [apply Z.div_pos; lia|]. apply Z.div_le_upper_bound; lia. }
           rewrite Hd in *. unfold whole.
           fin.
        -- intros H'. inversion H'; subst w' r. cbn. rewrite ecl0.
           fin.
      * rewrite (proj2 (Z.eqb_neq E_ACCESS SUCC)) by (unfold E_ACCESS, SUCC, cB_sc_MPI_ERR_ACCESS, ocB_MPI_SUCCESS; lia). cbn [andb].
        intros H'. inversion H'; subst. cbn [r_cls r_ocount r_buf].
        rewrite note_err_fail, note_err_open, note_err_node. cbn.
        assert (ecl E_ACCESS <> SUCC) by (intros E; apply (proj1 (ecl_ok _)) in E; unfold E_ACCESS, SUCC, cB_sc_MPI_ERR_ACCESS, ocB_MPI_SUCCESS in E; lia).
        fin.
Qed.


(* ------------------------------------------------------------------ collective transfers *)
(* if the MPI library injects no error into the collective transfers (whatever else fails), every rank obtains the same class:
   SUCCESS, or the class of MPI_ERR_ACCESS when the handle was opened for the other direction *)
Theorem B_coll_agree wr w bits size args q w' rs :
  (forall r k, w_plan w r (rw_kind true wr) k = None) ->
  gB_coll ecl wr w bits q size args = (w', rs) ->
  exists x, forall r, In r rs -> r_cls r = x.
Proof.
  intros Hnone H.
  exists (if (if wr then can_write bits else can_read bits) then SUCC else ecl E_ACCESS).
  revert w q w' rs Hnone H. induction args as [|a rest IH]; intros w q w' rs Hnone H.
  - cbn in H. inversion H; subst. intros r [].
  - cbn [gB_coll] in H.
    destruct (gB_rw ecl true wr w bits q size a) as [w1 r1] eqn:E1.
    destruct (gB_coll ecl wr w1 bits (q + 1) size rest) as [w2 rs2] eqn:E2.
    inversion H; subst w' rs.
    assert (Hr1 : r_cls r1 = (if (if wr then can_write bits else can_read bits) then SUCC else ecl E_ACCESS)
                  /\ w_plan w1 = w_plan w).
    { revert E1. unfold gB_rw, m_write_at, m_read_at, take. destruct wr.
      - rewrite Hnone. destruct (can_write bits); cbn [negb].
        + destruct (a_count a <=? 0) eqn:Ec.
          * apply Z.leb_le in Ec. rewrite Z.eqb_refl. rewrite (proj2 (Z.ltb_ge 0 (a_count a))) by lia. cbn [andb].
            intros E; inversion E; subst. cbn. rewrite ecl0. auto.
          * apply Z.leb_gt in Ec. rewrite Z.eqb_refl. rewrite (proj2 (Z.ltb_lt 0 (a_count a))) by lia. cbn [andb].
            intros E; inversion E; subst. cbn. auto.
        + rewrite (proj2 (Z.eqb_neq E_ACCESS SUCC)) by (unfold E_ACCESS, SUCC, cB_sc_MPI_ERR_ACCESS, ocB_MPI_SUCCESS; lia).
          cbn [andb]. intros E; inversion E; subst. cbn. auto.
      - rewrite Hnone. destruct (can_read bits); cbn [negb].
        + rewrite Z.eqb_refl. cbn [andb]. destruct (0 <? a_count a); intros E; inversion E; subst; cbn; rewrite ?ecl0; auto.
        + rewrite (proj2 (Z.eqb_neq E_ACCESS SUCC)) by (unfold E_ACCESS, SUCC, cB_sc_MPI_ERR_ACCESS, ocB_MPI_SUCCESS; lia).
          cbn [andb]. intros E; inversion E; subst. cbn. auto. }
    destruct Hr1 as [Hc Hpl].
    intros r [<- | Hin]; [exact Hc|].
    apply (IH w1 (q + 1) w2 rs2); auto. intros r0 k. rewrite Hpl. apply Hnone.
Qed.

(* fault-free collective write of blocks that are consecutive in rank order behind the content: SUCCESS and ocount = count on
   every rank, the file is the old content followed by the blocks in rank order *)
Theorem B_coll_write_nf size : 0 < size -> forall args w c fl op lg bits q,
  wst w c fl op lg -> can_write bits = true -> Forall (wf_arg size) args -> consec (len c) args ->
  exists w', gB_coll ecl true w bits q size args = (w', map (fun a => mkR SUCC (a_count a) []) args)
             /\ wst w' (c ++ concat (map a_data args)) fl op lg.
Proof.
  intros Hs. induction args as [|a rest IH]; intros w c fl op lg bits q W Hw Hf Hc.
  - exists w. cbn. rewrite app_nil_r. auto.
  - inversion Hf as [|? ? Ha Hf']; subst. destruct Ha as [Hcnt Hlen]. destruct Hc as [Hoff Hc'].
    cbn [gB_coll map concat].
    assert (E1 : exists w1, gB_rw ecl true true w bits q size a = (w1, mkR SUCC (a_count a) []) /\ wst w1 (c ++ a_data a) fl op lg).
    { unfold gB_rw, m_write_at. nf_take W. rewrite Hw. cbn [negb].
      destruct (a_count a <=? 0) eqn:Ec.
      - apply Z.leb_le in Ec. assert (Hz : a_count a = 0) by lia.
        rewrite Z.eqb_refl. rewrite (proj2 (Z.ltb_ge 0 (a_count a))) by lia. cbn [andb]. rewrite ecl0.
        assert (a_data a = []) by (destruct (a_data a); [reflexivity|unfold len in Hlen; cbn in Hlen; lia]).
        rewrite H, app_nil_r, Hz. eexists. split; [reflexivity|]. destruct W; constructor; auto.
      - apply Z.leb_gt in Ec. rewrite Z.eqb_refl. rewrite (proj2 (Z.ltb_lt 0 (a_count a))) by lia. cbn [andb].
        rewrite <- Hlen. rewrite firstn_len. rewrite Hlen. rewrite get_count_mul by lia.
        eexists. split; [reflexivity|].
        assert (Hcc : content (mkW (w_node w) (w_plan w) (bump (w_cnt w) q (rw_kind true true)) (w_fail w) (w_open w) (w_ledger w)) = c).
        { unfold content. cbn [w_node]. rewrite (wst_node _ _ _ _ _ W). reflexivity. }
        rewrite Hcc, Hoff, put_at_end. destruct W; constructor; cbn; auto. }
    destruct E1 as (w1 & E1 & W1). rewrite E1.
    destruct (IH w1 (c ++ a_data a) fl op lg bits (q + 1) W1 Hw Hf') as (w2 & E2 & W2).
    { rewrite len_app. exact Hc'. }
    rewrite E2. exists w2. split; [reflexivity|]. rewrite <- app_assoc in W2. exact W2.
Qed.

End WithErrorClass.

(* ------------------------------------------------------------------ the simulated MPI's MPI_Error_class is an instance *)
Lemma errclassB_ok : forall e, errclassB e = SUCC <-> e = SUCC.
Proof.
  intros e. unfold errclassB, sim_MPI_Error_class, SUCC, ocB_MPI_SUCCESS. cbn [snd Z.eqb].
  destruct ((0 <=? e) && (e <=? 55)) eqn:E; [tauto|].
  split; [discriminate|]. intros ->. discriminate.
Qed.

(* ------------------------------------------------------------------ the three configurations write the same file *)
(* blocks consecutive in rank order behind the content c of an open file (opened for writing in every configuration): A = P
   successive sc_io_write_at, C = the token-passing fallback, B = MPI_File_write_at_all on the abstract MPI I/O semantics *)
Theorem configs_agree_ABC ecl gA gC wB c flA opA lgA flC opC lgC flB opB lgB m p s bits size args :
  (forall e, ecl e = SUCC <-> e = SUCC) -> 0 < size ->
  wst (g_w gA) c flA opA lgA -> g_s0 gA = Some (mkS m p) -> m <> MRead -> 0 <= p ->
  wst (g_w gC) c flC opC lgC -> g_s0 gC = Some s -> at_end s c ->
  wst wB c flB opB lgB -> can_write bits = true ->
  args <> [] -> Forall (wf_arg size) args -> consec (len c) args ->
  exists gA' gC' wB' rsC,
    g_at_all CfgA true gA 0 size args = (gA', map (fun a => mkR (SUCCESS CfgA) (a_count a) []) args)
    /\ g_coll true gC size args = Some (gC', rsC)
    /\ gB_coll ecl true wB bits 0 size args = (wB', map (fun a => mkR SUCC (a_count a) []) args)
    /\ map r_ocount rsC = map a_count args
    /\ content (g_w gA') = c ++ concat (map a_data args)
    /\ content (g_w gC') = content (g_w gA')
    /\ content wB' = content (g_w gA').
Proof.
  intros Hecl Hs WA SA Hm Hp WC SC He WB Hw Hne Hf Hc.
  destruct (configs_agree_nf gA gC c flA opA lgA flC opC lgC m p s size args WA SA Hm Hp WC SC He Hne Hf Hc)
    as (gA' & gC' & rsC & EA & EC & Hoc & HcA & HcC).
  destruct (B_coll_write_nf ecl Hecl size Hs args wB c flB opB lgB bits 0 WB Hw Hf Hc) as (wB' & EB & WB').
  exists gA', gC', wB', rsC. repeat split; auto.
  rewrite HcA. apply (wst_content _ _ _ _ _ WB').
Qed.

(* ------------------------------------------------------------------ refutations (kernel-evaluated witnesses) *)
Definition planB (q f k e : Z) : plan := fun q' f' k' => if (q' =? q) && (f' =? f) && (k' =? k) then Some (e, 0) else None.

(* F-C12h (repaired): the code BEFORE the repair (`gB_open_with false`: no MPI_File_close after a failed MPI_File_set_size):
   the class is an error, but the rank keeps an open handle.  A revert of the repair is a return to this function. *)
Lemma B_open_setsize_old_witness :
  let '(g', cls) := gB_open_with errclassB false 1 (gstB0 (File [7; 8; 9]) (planB 0 K_MSETSIZE 0 32)) c12_SC_IO_WRITE_CREATE in
  cls = [32] /\ b_ok g' = false /\ b_bits g' <> None /\ w_open (b_w g') = 1 /\ w_fail (b_w g') = 1.
Proof. vm_compute. repeat split; discriminate. Qed.
(* the current code on the same input, and with a failing MPI_File_close on top: class of set_size, no handle, nothing open *)
Lemma B_open_setsize_now_witness :
  (let '(g', cls) := gB_open errclassB 1 (gstB0 (File [7; 8; 9]) (planB 0 K_MSETSIZE 0 32)) c12_SC_IO_WRITE_CREATE in
   cls = [32] /\ b_ok g' = false /\ b_bits g' = None /\ w_open (b_w g') = 0 /\ w_fail (b_w g') = 1)
  /\ (let pl := fun q f k => if (f =? K_MSETSIZE) then Some (32, 0) else if (f =? K_MCLOSE) then Some (36, 0) else None in
      let '(g', cls) := gB_open errclassB 2 (gstB0 (File [7; 8; 9]) pl) c12_SC_IO_WRITE_CREATE in
      cls = [32; 32] /\ b_bits g' = None /\ w_open (b_w g') = 0 /\ w_fail (b_w g') = 2).
Proof. vm_compute. repeat split; reflexivity. Qed.

(* F-C12i: an MPI library that reports the failure of a collective transfer to the failing rank only: different classes *)
Lemma B_coll_disagree_witness :
  let '(w', rs) := gB_coll errclassB true (world0 (File []) (planB 1 K_MWRITEATALL 0 36)) (amode_bits c12_SC_IO_WRITE_CREATE) 0 1
                           [mkA 0 2 [1; 2]; mkA 2 2 [3; 4]] in
  map r_cls rs = [0; 36] /\ map r_ocount rs = [2; 0] /\ w_fail w' = 1.
Proof. vm_compute. auto. Qed.

(* SC_IO_WRITE_APPEND on a missing file: created without MPI I/O, refused (NO_SUCH_FILE) with MPI I/O *)
Lemma append_missing_witness :
  (let '(g', cls) := g_open CfgA 1 (gstate0 Absent (fun _ _ _ => None)) c12_SC_IO_WRITE_APPEND in
   cls = [SUCCESS CfgA] /\ w_node (g_w g') = File [])
  /\ (let '(g', cls) := g_open CfgC 2 (gstate0 Absent (fun _ _ _ => None)) c12_SC_IO_WRITE_APPEND in
      cls = [SUCCESS CfgC; SUCCESS CfgC] /\ w_node (g_w g') = File [])
  /\ (let '(g', cls) := gB_open errclassB 2 (gstB0 Absent (fun _ _ _ => None)) c12_SC_IO_WRITE_APPEND in
      cls = [E_NO_SUCH_FILE; E_NO_SUCH_FILE] /\ w_node (b_w g') = Absent /\ b_bits g' = None).
Proof. vm_compute. repeat split; reflexivity. Qed.

(* SC_IO_WRITE_APPEND and an offset that is not the end of the file: MPI I/O honours the offset (A and C append: C12_append_ignores_offset) *)
Lemma B_append_honours_offset_witness :
  let '(g1, _) := gB_open errclassB 1 (gstB0 (File [1; 2; 3]) (fun _ _ _ => None)) c12_SC_IO_WRITE_APPEND in
  let '(w2, r) := gB_rw errclassB false true (b_w g1) (bits_of g1) 0 1 (mkA 0 2 [8; 9]) in
  r_cls r = SUCC /\ r_ocount r = 2 /\ w_node w2 = File [8; 9; 3].
Proof. vm_compute. auto. Qed.

(* the seeded change C12e (MPI_MODE_CREATE added to the append mode AND the truncation decided by `mode & MPI_MODE_CREATE`):
   on the abstract semantics an append-open of an existing file would call MPI_File_set_size (0) - the old content is lost *)
Lemma B_truncate_on_append_witness :
  let bits := Z.lor (amode_bits c12_SC_IO_WRITE_APPEND) ocB_MPI_MODE_CREATE in
  let '(w1, e) := m_open (world0 (File [1; 2; 3]) (fun _ _ _ => None)) 1 bits in
  e = 0 /\ has bits ocB_MPI_MODE_CREATE = true /\ content (fst (m_set_size w1 bits 0)) = []
  /\ has (amode_bits c12_SC_IO_WRITE_APPEND) ocB_MPI_MODE_CREATE = false.
Proof. vm_compute. auto. Qed.

(* hypotheses are satisfiable: a whole session on the abstract semantics (create, collective write of P = 3 blocks, close,
   open for reading, collective read with the file ending inside rank 2's second element, close) *)
Definition ex_ops_B : list op :=
  [OOpen 1; OColl true 4 [mkA 0 1 [1; 2; 3; 4]; mkA 4 0 []; mkA 4 1 [5; 6; 7; 8]]; OAt true 1 (mkA 8 2 [9; 10]); OClose;
   OOpen 0; OColl false 4 [mkA 0 1 []; mkA 4 1 []; mkA 4 2 []]; OClose].
Lemma ex_session_B :
  let '(g, outs) := gB_scen errclassB 3 (gstB0 Absent (fun _ _ _ => None)) ex_ops_B in
  w_node (b_w g) = File [1; 2; 3; 4; 5; 6; 7; 8; 9; 10] /\ w_open (b_w g) = 0 /\ w_fail (b_w g) = 0
  /\ nth 5 outs [] = [[0; 1; 0; 4; 1; 2; 3; 4]; [0; 1; 0; 4; 5; 6; 7; 8]; [0; 1; 0; 4; 5; 6; 7; 8]].
Proof. vm_compute. auto. Qed.
