(* C12 - proofs about the file wrapper model (C12/FileModel.v). *)
From Coq Require Import ZArith List Bool Lia.
From ScV Require Import Base.CInt MPI.Prog Gen.ErrClassC12 C12.FileModel.
Import ListNotations.
Local Open Scope Z_scope.

(* ------------------------------------------------------------------ sc_io_error_class (generated) *)
Lemma errclass_success_iff c e : errclass c e = SUCCESS c <-> e = 0.
Proof.
  destruct c; unfold errclass, SUCCESS, sc_io_error_class_A, sc_io_error_class_C; cbn [snd fst];
  repeat match goal with
         | |- context [if ?b then _ else _] => let E := fresh "E" in destruct b eqn:E; cbn [snd fst]
         end;
  try (split; intro H; try discriminate H; try reflexivity);
  repeat match goal with
         | E : (_ || _) = true |- _ => apply orb_true_iff in E; destruct E as [E | E]
         | E : (_ || _) = false |- _ => apply orb_false_iff in E; destruct E as [? E]
         | E : (_ =? _) = true |- _ => apply Z.eqb_eq in E
         | E : (_ =? _) = false |- _ => apply Z.eqb_neq in E
         end; try lia; try (vm_compute in H; discriminate H); try (subst; vm_compute in *; congruence).
Qed.

Lemma errclass_fail c e : e <> 0 -> errclass c e <> SUCCESS c.
Proof. intros H H1. apply errclass_success_iff in H1. contradiction. Qed.

Lemma errclass_0 c : errclass c 0 = SUCCESS c.
Proof. apply errclass_success_iff. reflexivity. Qed.

(* the conversion itself always succeeds (SC_CHECK_MPI (retval) never fires) *)
Lemma errclass_ret_ok c e : errclass_ret c e = SUCCESS c.
Proof.
  destruct c; unfold errclass_ret, SUCCESS, sc_io_error_class_A, sc_io_error_class_C;
  change (1 =? 0) with false; cbv iota; cbn [snd fst];
  repeat match goal with
         | |- context [if ?b then _ else _] => destruct b; cbn [snd fst]
         end; reflexivity.
Qed.

(* ------------------------------------------------------------------ lists *)
Lemma len_app {A} (a b : list A) : len (a ++ b) = len a + len b.
Proof. unfold len. rewrite app_length. lia. Qed.
Lemma len_nonneg {A} (a : list A) : 0 <= len a.
Proof. unfold len. lia. Qed.
Lemma len_nil {A} : len (@nil A) = 0.
Proof. reflexivity. Qed.

Lemma to_nat_len {A} (a : list A) : Z.to_nat (len a) = length a.
Proof. unfold len. lia. Qed.

Lemma firstn_len {A} (a : list A) : firstn (Z.to_nat (len a)) a = a.
Proof. rewrite to_nat_len. apply firstn_all. Qed.

Lemma firstn_exact {A} (d : list A) n : n = len d -> firstn (Z.to_nat n) d = d.
Proof. intros ->. apply firstn_len. Qed.

Lemma put_at_end c d : put c (len c) d = c ++ d.
Proof.
  unfold put. rewrite firstn_len. rewrite Z.sub_diag. cbn [Z.to_nat repeat app].
  rewrite to_nat_len. rewrite skipn_all2 by lia. rewrite app_nil_r. reflexivity.
Qed.

Lemma skipn_firstn_app_mid {A} (pre d post : list A) :
  firstn (length d) (skipn (length pre) (pre ++ d ++ post)) = d.
Proof.
  rewrite skipn_app. rewrite skipn_all. rewrite Nat.sub_diag. cbn [skipn app].
  rewrite firstn_app. rewrite firstn_all. rewrite Nat.sub_diag. cbn [firstn]. apply app_nil_r.
Qed.

(* what was put at an offset is what is found there *)
Lemma put_read c off d : 0 <= off ->
  firstn (length d) (skipn (Z.to_nat off) (put c off d)) = d.
Proof.
  intros Hoff. unfold put. rewrite app_assoc.
  set (pre := firstn (Z.to_nat off) c ++ repeat 0 (Z.to_nat (off - len c))).
  assert (Hpre : length pre = Z.to_nat off).
  { unfold pre. rewrite app_length, repeat_length, firstn_length. unfold len. lia. }
  rewrite <- Hpre. apply skipn_firstn_app_mid.
Qed.

(* ------------------------------------------------------------------ stdio of the model in a fault-free world *)
Definition no_faults (w : world) : Prop := forall q f k, w_plan w q f k = None.
(* errno is never negative, and a failing call other than a short fread/fwrite sets it (POSIX) *)
(* ... and no entry is "success with errno noise" (FileModel.NOISE): the statements under plan_ok are about C libraries that leave
   errno alone when a call succeeds; `plan_okn` below admits the noise *)
Definition plan_ok (pl : plan) : Prop :=
  forall q f k e s, pl q f k = Some (e, s) -> (0 <= e /\ (f <> FWRITE -> f <> FREAD -> 0 < e)) /\ s <> NOISE.
Definition plan_okn (pl : plan) : Prop :=
  forall q f k e s, pl q f k = Some (e, s) -> s = NOISE \/ (0 <= e /\ (f <> FWRITE -> f <> FREAD -> 0 < e)).

Record wst (w : world) (c : list Z) (fl op lg : Z) : Prop := mkWst {
  wst_node : w_node w = File c;
  wst_plan : no_faults w;
  wst_fail : w_fail w = fl;
  wst_open : w_open w = op;
  wst_ledger : w_ledger w = lg }.

Ltac nf_take H :=
  unfold take; cbn [w_node w_plan w_cnt w_fail w_open w_ledger];
  rewrite (wst_plan _ _ _ _ _ H).

Lemma wst_content w c fl op lg : wst w c fl op lg -> content w = c.
Proof. intros H. unfold content. rewrite (wst_node _ _ _ _ _ H). reflexivity. Qed.

Lemma nf_fopen_append w c fl op lg q : wst w c fl op lg ->
  exists w1, g_fopen w q MAppend = (w1, Some (mkS MAppend (len c)), 0) /\ wst w1 c fl (op + 1) lg.
Proof.
  intros H. unfold g_fopen. nf_take H. cbn [w_node]. rewrite (wst_node _ _ _ _ _ H).
  eexists. split; [reflexivity|].
  destruct H; constructor; cbn; auto; lia.
Qed.

Lemma nf_fopen_read w c fl op lg q : wst w c fl op lg ->
  exists w1, g_fopen w q MRead = (w1, Some (mkS MRead 0), 0) /\ wst w1 c fl (op + 1) lg.
Proof.
  intros H. unfold g_fopen. nf_take H. cbn [w_node]. rewrite (wst_node _ _ _ _ _ H).
  eexists. split; [reflexivity|].
  destruct H; constructor; cbn; auto; lia.
Qed.

Lemma nf_fopen_write w c fl op lg q : wst w c fl op lg ->
  exists w1, g_fopen w q MWrite = (w1, Some (mkS MWrite 0), 0) /\ wst w1 [] fl (op + 1) lg.
Proof.
  intros H. unfold g_fopen. nf_take H. cbn [w_node]. rewrite (wst_node _ _ _ _ _ H).
  eexists. split; [reflexivity|].
  destruct H; constructor; cbn; auto; lia.
Qed.

Definition wpos (s : stream) (c : list Z) : Z := match st_mode s with MAppend => len c | _ => st_pos s end.

Lemma nf_fwrite w c fl op lg q s size count data : wst w c fl op lg -> st_mode s <> MRead ->
  len data = size * count ->
  exists w1, g_fwrite w q s size count data = (w1, mkS (st_mode s) (wpos s c + len data), count, 0)
             /\ wst w1 (put c (wpos s c) data) fl op lg.
Proof.
  intros H Hm Hl. unfold g_fwrite. nf_take H.
  assert (Hc : content (mkW (w_node w) (w_plan w) (bump (w_cnt w) q FWRITE) (w_fail w) (w_open w) (w_ledger w)) = c).
  { unfold content. cbn [w_node]. rewrite (wst_node _ _ _ _ _ H). reflexivity. }
  destruct (st_mode s) eqn:Em; [congruence| |];
    rewrite Hc; rewrite <- Hl; rewrite firstn_len; unfold wpos; rewrite Em;
    (eexists; split; [reflexivity|]); destruct H; constructor; cbn; auto.
Qed.

Definition avail (c : list Z) (pos size count : Z) : list Z := firstn (Z.to_nat (size * count)) (skipn (Z.to_nat pos) c).
Definition whole (c : list Z) (pos size count : Z) : Z := len (avail c pos size count) / size.

Lemma nf_fread w c fl op lg q p size count : wst w c fl op lg ->
  exists w1, g_fread w q (mkS MRead p) size count =
             (w1, mkS MRead (p + len (avail c p size count)), whole c p size count, 0,
              firstn (Z.to_nat (size * whole c p size count)) (avail c p size count))
             /\ wst w1 c fl op lg.
Proof.
  intros H. unfold g_fread. nf_take H. cbn [st_mode st_pos].
  assert (Hc : content (mkW (w_node w) (w_plan w) (bump (w_cnt w) q FREAD) (w_fail w) (w_open w) (w_ledger w)) = c).
  { unfold content. cbn [w_node]. rewrite (wst_node _ _ _ _ _ H). reflexivity. }
  rewrite Hc. eexists. split; [reflexivity|].
  destruct H; constructor; cbn; auto.
Qed.

Lemma nf_fseek w c fl op lg q s off : wst w c fl op lg -> 0 <= off ->
  exists w1, g_fseek w q s off = (w1, mkS (st_mode s) off, 0, 0) /\ wst w1 c fl op lg.
Proof.
  intros H Ho. unfold g_fseek. nf_take H.
  destruct (off <? 0) eqn:E; [apply Z.ltb_lt in E; lia|].
  eexists. split; [reflexivity|]. destruct H; constructor; cbn; auto.
Qed.

Lemma nf_ftell w c fl op lg q s : wst w c fl op lg ->
  exists w1, g_ftell w q s = (w1, st_pos s, 0) /\ wst w1 c fl op lg.
Proof.
  intros H. unfold g_ftell. nf_take H.
  eexists. split; [reflexivity|]. destruct H; constructor; cbn; auto.
Qed.

Lemma nf_fflush w c fl op lg q : wst w c fl op lg ->
  exists w1, g_fflush w q = (w1, 0, 0) /\ wst w1 c fl op lg.
Proof.
  intros H. unfold g_fflush. nf_take H.
  eexists. split; [reflexivity|]. destruct H; constructor; cbn; auto.
Qed.

Lemma nf_fclose w c fl op lg q : wst w c fl op lg ->
  exists w1, g_fclose w q = (w1, 0, 0) /\ wst w1 c fl (op - 1) lg.
Proof.
  intros H. unfold g_fclose. nf_take H.
  eexists. split; [reflexivity|]. destruct H; constructor; cbn; auto; lia.
Qed.

(* ------------------------------------------------------------------ collective write, fault-free *)
Definition wf_arg (size : Z) (a : carg) : Prop := 0 <= a_count a /\ len (a_data a) = size * a_count a.
(* the next write through the stream lands at the end of the file *)
Definition at_end (s : stream) (c : list Z) : Prop :=
  st_mode s = MAppend \/ (st_mode s = MWrite /\ st_pos s = len c).

Lemma at_end_wpos s c : at_end s c -> wpos s c = len c /\ st_mode s <> MRead.
Proof. unfold at_end, wpos. intros [H | [H1 H2]]; rewrite ?H, ?H1; split; congruence. Qed.

Lemma nf_turn_write_0 w c fl op lg s size a :
  wst w c fl op lg -> at_end s c -> wf_arg size a ->
  exists w1, g_turn true w (Some s) 0 (-1) size a = Some (w1, mkT 0 (a_count a) [])
             /\ wst w1 (c ++ a_data a) fl (op - 1) lg.
Proof.
  intros H He [Hc Hl]. destruct (at_end_wpos _ _ He) as [Hp Hm].
  unfold g_turn. change (-1 =? -1) with true. change (0 =? 0) with true. cbv iota. cbn [negb].
  destruct (nf_fwrite _ _ _ _ _ 0 s size _ _ H Hm Hl) as (w3 & E3 & H3). rewrite E3.
  destruct (nf_fflush _ _ _ _ _ 0 H3) as (w4 & E4 & H4). rewrite E4.
  change (0 =? 0) with true. cbn [negb].
  destruct (nf_fclose _ _ _ _ _ 0 H4) as (w5 & E5 & H5). rewrite E5.
  change (0 =? 0) with true. cbn [negb].
  eexists. split; [reflexivity|]. rewrite Hp, put_at_end in H5. exact H5.
Qed.

Lemma nf_turn_write_pos w c fl op lg s0 q size a :
  1 <= q -> wst w c fl op lg -> wf_arg size a ->
  exists w1, g_turn true w s0 q (-1) size a = Some (w1, mkT 0 (a_count a) [])
             /\ wst w1 (c ++ a_data a) fl op lg.
Proof.
  intros Hq H [Hc Hl].
  unfold g_turn. change (-1 =? -1) with true. cbv iota.
  destruct (q =? 0) eqn:Eq; [apply Z.eqb_eq in Eq; lia|].
  destruct (nf_fopen_append _ _ _ _ _ q H) as (w1 & E1 & H1). rewrite E1.
  change (0 =? 0) with true. cbn [negb].
  assert (Hm : st_mode (mkS MAppend (len c)) <> MRead) by (cbn; congruence).
  destruct (nf_fwrite _ _ _ _ _ q _ size _ _ H1 Hm Hl) as (w3 & E3 & H3). rewrite E3.
  destruct (nf_fflush _ _ _ _ _ q H3) as (w4 & E4 & H4). rewrite E4.
  change (0 =? 0) with true. cbn [negb].
  destruct (nf_fclose _ _ _ _ _ q H4) as (w5 & E5 & H5). rewrite E5.
  change (0 =? 0) with true. cbn [negb].
  eexists. split; [reflexivity|].
  unfold wpos in H5. cbn [st_mode] in H5. rewrite put_at_end in H5.
  replace (op + 1 - 1) with op in H5 by lia. exact H5.
Qed.

Lemma tok_out_ok n b : tok_out (mkT 0 n b) = -1.
Proof. reflexivity. Qed.

Lemma nf_turns_write_pos : forall args w c fl op lg s0 q size,
  1 <= q -> wst w c fl op lg -> Forall (wf_arg size) args ->
  exists w1, g_turns true w s0 q (-1) size args = Some (w1, map (fun a => mkT 0 (a_count a) []) args)
             /\ wst w1 (c ++ concat (map a_data args)) fl op lg.
Proof.
  induction args as [|a rest IH]; intros w c fl op lg s0 q size Hq H Hf.
  - cbn. eexists. split; [reflexivity|]. rewrite app_nil_r. exact H.
  - inversion Hf as [|? ? Ha Hr]; subst.
    cbn [g_turns].
    destruct (nf_turn_write_pos _ _ _ _ _ s0 q size a Hq H Ha) as (w1 & E1 & H1). rewrite E1.
    rewrite tok_out_ok.
    destruct (IH w1 (c ++ a_data a) fl op lg s0 (q + 1) size ltac:(lia) H1 Hr) as (w2 & E2 & H2). rewrite E2.
    eexists. split; [reflexivity|].
    cbn [map concat]. rewrite app_assoc. exact H2.
Qed.

Lemma last_turns_ok (args : list carg) :
  t_errval (last (map (fun a => mkT 0 (a_count a) []) args) (mkT 0 0 [])) = 0.
Proof.
  induction args as [|a rest IH]; [reflexivity|].
  cbn [map]. destruct rest; [reflexivity|]. exact IH.
Qed.

(* one fault-free collective write appends the blocks in rank order, whatever the offsets passed *)
Lemma coll_write_nf g c fl op lg s size args :
  wst (g_w g) c fl op lg -> g_s0 g = Some s -> at_end s c -> args <> [] -> Forall (wf_arg size) args ->
  exists g', g_coll true g size args = Some (g', map (fun a => mkR (SUCCESS CfgC) (a_count a) []) args)
             /\ wst (g_w g') (c ++ concat (map a_data args)) fl op lg
             /\ g_s0 g' = Some (mkS MAppend (len (c ++ concat (map a_data args))))
             /\ g_ctx g' = g_ctx g.
Proof.
  intros H Hs He Hne Hf. destruct args as [|a rest]; [congruence|].
  inversion Hf as [|? ? Ha Hr]; subst.
  unfold g_coll. rewrite Hs. cbn [g_turns].
  destruct (nf_turn_write_0 _ _ _ _ _ s size a H He Ha) as (w1 & E1 & H1). rewrite E1.
  rewrite tok_out_ok.
  destruct (nf_turns_write_pos rest w1 (c ++ a_data a) fl (op - 1) lg (Some s) (0 + 1) size ltac:(lia) H1 Hr) as (w2 & E2 & H2).
  rewrite E2.
  destruct (nf_fopen_append _ _ _ _ _ 0 H2) as (w3 & E3 & H3). rewrite E3.
  change (0 =? 0) with true. cbn [negb].
  pose proof (last_turns_ok (a :: rest)) as Hl. cbn [map] in Hl. rewrite Hl. rewrite errclass_0.
  eexists. split.
  { f_equal. f_equal. cbn [map t_ocount t_buf]. rewrite map_map. reflexivity. }
  cbn [g_w g_s0 g_ctx map concat].
  rewrite <- app_assoc in H3 |- *. replace (op - 1 + 1) with op in H3 by lia.
  split; [exact H3 | split; reflexivity].
Qed.

(* ------------------------------------------------------------------ collective read, fault-free *)
Definition read_turn (c : list Z) (size : Z) (a : carg) : turn :=
  mkT 0 (whole c (a_off a) size (a_count a))
      (firstn (Z.to_nat (size * whole c (a_off a) size (a_count a))) (avail c (a_off a) size (a_count a))).

Lemma nf_turn_read_0 w c fl op lg s size a :
  wst w c fl op lg -> st_mode s = MRead -> 0 <= a_off a ->
  exists w1, g_turn false w (Some s) 0 (-1) size a = Some (w1, read_turn c size a) /\ wst w1 c fl (op - 1) lg.
Proof.
  intros H Hm Ho.
  unfold g_turn. change (-1 =? -1) with true. change (0 =? 0) with true. cbv iota. cbn [negb].
  destruct (nf_fseek _ _ _ _ _ 0 s _ H Ho) as (w2 & E2 & H2). rewrite E2. rewrite Hm.
  change (0 =? 0) with true. cbv iota.
  destruct (nf_fread _ _ _ _ _ 0 (a_off a) size (a_count a) H2) as (w3 & E3 & H3). rewrite E3.
  destruct (nf_fflush _ _ _ _ _ 0 H3) as (w4 & E4 & H4). rewrite E4.
  change (0 =? 0) with true. cbn [negb].
  destruct (nf_fclose _ _ _ _ _ 0 H4) as (w5 & E5 & H5). rewrite E5.
  change (0 =? 0) with true. cbn [negb].
  eexists. split; [reflexivity|]. exact H5.
Qed.

Lemma nf_turn_read_pos w c fl op lg s0 q size a :
  1 <= q -> wst w c fl op lg -> 0 <= a_off a ->
  exists w1, g_turn false w s0 q (-1) size a = Some (w1, read_turn c size a) /\ wst w1 c fl op lg.
Proof.
  intros Hq H Ho.
  unfold g_turn. change (-1 =? -1) with true. cbv iota.
  destruct (q =? 0) eqn:Eq; [apply Z.eqb_eq in Eq; lia|].
  destruct (nf_fopen_read _ _ _ _ _ q H) as (w1 & E1 & H1). rewrite E1.
  change (0 =? 0) with true. cbn [negb].
  destruct (nf_fseek _ _ _ _ _ q (mkS MRead 0) _ H1 Ho) as (w2 & E2 & H2). rewrite E2. cbn [st_mode].
  change (0 =? 0) with true. cbv iota.
  destruct (nf_fread _ _ _ _ _ q (a_off a) size (a_count a) H2) as (w3 & E3 & H3). rewrite E3.
  destruct (nf_fflush _ _ _ _ _ q H3) as (w4 & E4 & H4). rewrite E4.
  change (0 =? 0) with true. cbn [negb].
  destruct (nf_fclose _ _ _ _ _ q H4) as (w5 & E5 & H5). rewrite E5.
  change (0 =? 0) with true. cbn [negb].
  eexists. split; [reflexivity|].
  replace (op + 1 - 1) with op in H5 by lia. exact H5.
Qed.

Lemma tok_out_read c size a : tok_out (read_turn c size a) = -1.
Proof. reflexivity. Qed.

Lemma nf_turns_read_pos : forall args w c fl op lg s0 q size,
  1 <= q -> wst w c fl op lg -> Forall (fun a => 0 <= a_off a) args ->
  exists w1, g_turns false w s0 q (-1) size args = Some (w1, map (read_turn c size) args) /\ wst w1 c fl op lg.
Proof.
  induction args as [|a rest IH]; intros w c fl op lg s0 q size Hq H Hf.
  - cbn. eexists. split; [reflexivity|]. exact H.
  - inversion Hf as [|? ? Ha Hr]; subst.
    cbn [g_turns].
    destruct (nf_turn_read_pos _ _ _ _ _ s0 q size a Hq H Ha) as (w1 & E1 & H1). rewrite E1.
    rewrite tok_out_read.
    destruct (IH w1 c fl op lg s0 (q + 1) size ltac:(lia) H1 Hr) as (w2 & E2 & H2). rewrite E2.
    eexists. split; [reflexivity|]. exact H2.
Qed.

Lemma last_read_ok c size (args : list carg) :
  t_errval (last (map (read_turn c size) args) (mkT 0 0 [])) = 0.
Proof.
  induction args as [|a rest IH]; [reflexivity|].
  cbn [map]. destruct rest; [reflexivity|]. exact IH.
Qed.

Definition read_res (c : list Z) (size : Z) (a : carg) : rres :=
  mkR (SUCCESS CfgC) (whole c (a_off a) size (a_count a))
      (firstn (Z.to_nat (size * whole c (a_off a) size (a_count a))) (avail c (a_off a) size (a_count a))).

(* one fault-free collective read: every rank obtains the whole elements found at its offset; the file is unchanged *)
Lemma coll_read_nf g c fl op lg s size args :
  wst (g_w g) c fl op lg -> g_s0 g = Some s -> st_mode s = MRead -> args <> [] ->
  Forall (fun a => 0 <= a_off a) args ->
  exists g', g_coll false g size args = Some (g', map (read_res c size) args)
             /\ wst (g_w g') c fl op lg /\ g_s0 g' = Some (mkS MRead 0) /\ g_ctx g' = g_ctx g.
Proof.
  intros H Hs Hm Hne Hf. destruct args as [|a rest]; [congruence|].
  inversion Hf as [|? ? Ha Hr]; subst.
  unfold g_coll. rewrite Hs. cbn [g_turns].
  destruct (nf_turn_read_0 _ _ _ _ _ s size a H Hm Ha) as (w1 & E1 & H1). rewrite E1.
  rewrite tok_out_read.
  destruct (nf_turns_read_pos rest w1 c fl (op - 1) lg (Some s) (0 + 1) size ltac:(lia) H1 Hr) as (w2 & E2 & H2).
  rewrite E2.
  destruct (nf_fopen_read _ _ _ _ _ 0 H2) as (w3 & E3 & H3). rewrite E3.
  change (0 =? 0) with true. cbn [negb].
  pose proof (last_read_ok c size (a :: rest)) as Hl. cbn [map] in Hl. rewrite Hl. rewrite errclass_0.
  eexists. split.
  { f_equal. f_equal. cbn [map]. rewrite map_map. reflexivity. }
  cbn [g_w g_s0 g_ctx].
  replace (op - 1 + 1) with op in H3 by lia.
  split; [exact H3 | split; reflexivity].
Qed.

(* ------------------------------------------------------------------ reading back what was written at consecutive offsets *)
Fixpoint consec (base : Z) (args : list carg) : Prop :=
  match args with
  | [] => True
  | a :: rest => a_off a = base /\ consec (base + len (a_data a)) rest
  end.

Lemma avail_mid pre d post size count : len d = size * count ->
  avail (pre ++ d ++ post) (len pre) size count = d.
Proof.
  intros Hl. unfold avail. rewrite <- Hl. rewrite !to_nat_len. apply skipn_firstn_app_mid.
Qed.

Lemma avail_consec size : forall args pre post a,
  consec (len pre) args -> Forall (wf_arg size) args -> In a args ->
  avail (pre ++ concat (map a_data args) ++ post) (a_off a) size (a_count a) = a_data a.
Proof.
  induction args as [|b rest IH]; intros pre post a Hc Hf Hin; [destruct Hin|].
  inversion Hf as [|? ? Hb Hr]; subst. destruct Hc as [Ho Hc].
  destruct Hin as [-> | Hin].
  - rewrite Ho. cbn [map concat]. rewrite <- app_assoc. apply avail_mid. apply Hb.
  - cbn [map concat]. rewrite <- app_assoc. rewrite (app_assoc pre).
    apply IH; auto. rewrite len_app. exact Hc.
Qed.

Lemma whole_exact (d : list Z) size count : 0 < size -> len d = size * count -> len d / size = count.
Proof. intros Hs ->. rewrite Z.mul_comm. apply Z.div_mul. lia. Qed.

(* the result a rank obtains when it reads where its block was written *)
Lemma read_res_consec size args pre post a :
  0 < size -> consec (len pre) args -> Forall (wf_arg size) args -> In a args ->
  read_res (pre ++ concat (map a_data args) ++ post) size a = mkR (SUCCESS CfgC) (a_count a) (a_data a).
Proof.
  intros Hs Hc Hf Hin. unfold read_res, whole.
  rewrite (avail_consec size args pre post a Hc Hf Hin).
  assert (Ha : wf_arg size a) by (rewrite Forall_forall in Hf; auto).
  destruct Ha as [_ Hl]. rewrite (whole_exact _ _ _ Hs Hl). rewrite <- Hl. rewrite firstn_len. reflexivity.
Qed.

Lemma map_ext_in_list {A B} (f g : A -> B) l : (forall a, In a l -> f a = g a) -> map f l = map g l.
Proof. apply map_ext_in. Qed.

(* collective read-after-write: blocks written consecutively behind `pre` are read back at their offsets *)
Lemma coll_readback_nf g pre fl op lg s size args :
  0 < size ->
  wst (g_w g) (pre ++ concat (map a_data args)) fl op lg -> g_s0 g = Some s -> st_mode s = MRead -> args <> [] ->
  Forall (wf_arg size) args -> consec (len pre) args ->
  exists g', g_coll false g size args = Some (g', map (fun a => mkR (SUCCESS CfgC) (a_count a) (a_data a)) args)
             /\ wst (g_w g') (pre ++ concat (map a_data args)) fl op lg /\ g_s0 g' = Some (mkS MRead 0) /\ g_ctx g' = g_ctx g.
Proof.
  intros Hs H Hst Hm Hne Hf Hc.
  assert (Hoff : Forall (fun a => 0 <= a_off a) args).
  { clear - Hc. revert pre Hc. induction args as [|b rest IH]; intros pre Hc; constructor.
    - destruct Hc as [-> _]. apply len_nonneg.
    - destruct Hc as [_ Hc]. rewrite <- len_app in Hc. eapply IH; eauto. }
  destruct (coll_read_nf g _ fl op lg s size args H Hst Hm Hne Hoff) as (g' & E & H').
  exists g'. split; [|exact H'].
  rewrite E. f_equal. f_equal. apply map_ext_in. intros a Hin.
  pose proof (read_res_consec size args pre [] a Hs Hc Hf Hin) as R. rewrite app_nil_r in R. exact R.
Qed.

(* ------------------------------------------------------------------ open and close, fault-free *)
Definition all_success (c : config) (P : Z) : list Z := map (fun _ => SUCCESS c) (ranks P).

Lemma bcast_class c P e : map (errclass c) (bcast_all P e) = map (fun _ => errclass c e) (ranks P).
Proof. unfold bcast_all. rewrite map_map. reflexivity. Qed.

Definition open_content (m : fmode) (c0 : list Z) : list Z := match m with MWrite => [] | _ => c0 end.
Definition open_pos (m : fmode) (c0 : list Z) : Z := match m with MAppend => len c0 | _ => 0 end.

Lemma nf_open_file cfg P g c0 fl op lg am :
  wst (g_w g) c0 fl op lg ->
  exists g', g_open cfg P g am = (g', all_success cfg P)
    /\ wst (g_w g') (open_content (mode_of_amode am) c0) fl (op + 1) (lg + P)
    /\ g_s0 g' = Some (mkS (mode_of_amode am) (open_pos (mode_of_amode am) c0)) /\ g_ctx g' = true.
Proof.
  intros H. unfold g_open, g_open_with, open_judge.
  assert (H0 : wst (add_ledger (g_w g) P) c0 fl op (lg + P)).
  { destruct H; constructor; cbn; auto; lia. }
  destruct (mode_of_amode am) eqn:Em.
  - destruct (nf_fopen_read _ _ _ _ _ 0 H0) as (w1 & E1 & H1). rewrite E1.
    rewrite errclass_0, Z.eqb_refl, bcast_class, errclass_0.
    eexists. split; [reflexivity|]. cbn [g_w g_s0 g_ctx open_content open_pos]. auto.
  - destruct (nf_fopen_write _ _ _ _ _ 0 H0) as (w1 & E1 & H1). rewrite E1.
    rewrite errclass_0, Z.eqb_refl, bcast_class, errclass_0.
    eexists. split; [reflexivity|]. cbn [g_w g_s0 g_ctx open_content open_pos]. auto.
  - destruct (nf_fopen_append _ _ _ _ _ 0 H0) as (w1 & E1 & H1). rewrite E1.
    rewrite errclass_0, Z.eqb_refl, bcast_class, errclass_0.
    eexists. split; [reflexivity|]. cbn [g_w g_s0 g_ctx open_content open_pos]. auto.
Qed.

(* creating or appending to a file that does not exist yet *)
Lemma nf_open_absent cfg P g fl op lg am :
  w_node (g_w g) = Absent -> no_faults (g_w g) -> w_fail (g_w g) = fl -> w_open (g_w g) = op -> w_ledger (g_w g) = lg ->
  mode_of_amode am <> MRead ->
  exists g', g_open cfg P g am = (g', all_success cfg P)
    /\ wst (g_w g') [] fl (op + 1) (lg + P)
    /\ g_s0 g' = Some (mkS (mode_of_amode am) 0) /\ g_ctx g' = true.
Proof.
  intros Hn Hp Hf Ho Hl Hm. unfold g_open, g_open_with, open_judge, g_fopen, fopen_nat, take.
  cbn [add_ledger w_node w_plan w_cnt w_fail w_open w_ledger]. rewrite Hp, Hn.
  destruct (mode_of_amode am) eqn:Em; [congruence| |];
    rewrite errclass_0, Z.eqb_refl, bcast_class, errclass_0;
    (eexists; split; [reflexivity|]); cbn [g_w g_s0 g_ctx];
    (split; [constructor; cbn; auto; lia | auto]).
Qed.

Lemma nf_close cfg P g c fl op lg s :
  wst (g_w g) c fl op lg -> g_s0 g = Some s ->
  exists g', g_close cfg P g = Some (g', all_success cfg P)
    /\ wst (g_w g') c fl (op - 1) (lg - P) /\ g_s0 g' = None /\ g_ctx g' = false.
Proof.
  intros H Hs. unfold g_close. rewrite Hs.
  destruct (nf_fclose _ _ _ _ _ 0 H) as (w1 & E1 & H1). rewrite E1.
  rewrite errclass_0, !Z.eqb_refl. cbn [Bool.eqb].
  eexists. split; [reflexivity|]. cbn [g_w g_s0 g_ctx].
  split; [|auto]. destruct H1; constructor; cbn; auto; lia.
Qed.

(* ------------------------------------------------------------------ the round trip as a whole scenario (configuration C) *)
Definition out_all (c : config) (P : Z) (flag : bool) : list payload := map (fun _ => enc c (SUCCESS c) 0 flag []) (ranks P).

Lemma out_all_eq c P flag : map (fun cl => enc c cl 0 flag []) (all_success c P) = out_all c P flag.
Proof. unfold all_success, out_all. rewrite map_map. reflexivity. Qed.

Theorem roundtrip_scenario_C P size args node pl :
  0 < size -> args <> [] -> Forall (wf_arg size) args -> consec 0 args ->
  (forall q f k, pl q f k = None) -> (node = Absent \/ exists c0, node = File c0) ->
  exists g,
    g_scen CfgC P (gstate0 node pl)
      [OOpen c12_SC_IO_WRITE_CREATE; OColl true size args; OClose;
       OOpen c12_SC_IO_READ; OColl false size args; OClose]
    = Some (g, [out_all CfgC P false;
                map (fun a => enc CfgC (SUCCESS CfgC) (a_count a) false []) args;
                out_all CfgC P true;
                out_all CfgC P false;
                map (fun a => enc CfgC (SUCCESS CfgC) (a_count a) false (a_data a)) args;
                out_all CfgC P true])
    /\ wst (g_w g) (concat (map a_data args)) 0 0 0 /\ g_s0 g = None /\ g_ctx g = false.
Proof.
  intros Hs Hne Hf Hc Hpl Hnode.
  (* open for writing *)
  assert (H1 : exists g1, g_open CfgC P (gstate0 node pl) c12_SC_IO_WRITE_CREATE = (g1, all_success CfgC P)
                          /\ wst (g_w g1) [] 0 (0 + 1) (0 + P) /\ g_s0 g1 = Some (mkS MWrite 0) /\ g_ctx g1 = true).
  { destruct Hnode as [-> | [c0 ->]].
    - apply nf_open_absent; auto. cbv. congruence.
    - assert (W : wst (g_w (gstate0 (File c0) pl)) c0 0 0 0) by (constructor; cbn; auto).
      destruct (nf_open_file CfgC P _ _ _ _ _ c12_SC_IO_WRITE_CREATE W) as (g1 & E & Hw & Hs0 & Hc0).
      exists g1. auto. }
  destruct H1 as (g1 & E1 & W1 & S1 & C1).
  (* collective write *)
  assert (He : at_end (mkS MWrite 0) []) by (right; auto).
  destruct (coll_write_nf g1 [] 0 (0 + 1) (0 + P) _ size args W1 S1 He Hne Hf) as (g2 & E2 & W2 & S2 & C2).
  cbn [app] in W2, S2.
  (* close *)
  destruct (nf_close CfgC P g2 _ _ _ _ _ W2 S2) as (g3 & E3 & W3 & S3 & C3).
  (* open for reading *)
  destruct (nf_open_file CfgC P g3 _ _ _ _ c12_SC_IO_READ W3) as (g4 & E4 & W4 & S4 & C4).
  change (mode_of_amode c12_SC_IO_READ) with MRead in *. cbn [open_content open_pos] in *.
  (* collective read *)
  assert (W4' : wst (g_w g4) ([] ++ concat (map a_data args)) 0 (0 + 1 - 1 + 1) (0 + P - P + P)) by exact W4.
  destruct (coll_readback_nf g4 [] _ _ _ _ size args Hs W4' S4 eq_refl Hne Hf Hc) as (g5 & E5 & W5 & S5 & C5).
  cbn [app] in W5.
  (* close *)
  destruct (nf_close CfgC P g5 _ _ _ _ _ W5 S5) as (g6 & E6 & W6 & S6 & C6).
  exists g6.
  split.
  - cbn [g_scen nproc]. rewrite E1. rewrite C1. cbn [negb].
    rewrite E2. rewrite C2, C1. rewrite E3.
    rewrite E4. rewrite C4. cbn [negb]. rewrite E5. rewrite C5, C4. rewrite E6.
    rewrite !out_all_eq. unfold enc_r. rewrite !map_map. cbn [r_cls r_ocount r_buf]. reflexivity.
  - split; [|auto]. replace (0 + 1 - 1 + 1 - 1) with 0 in W6 by lia. replace (0 + P - P + P - P) with 0 in W6 by lia. exact W6.
Qed.

(* several collective writes in a row: the file grows by the blocks of every call in rank order *)
Fixpoint g_colls (g : gstate) (size : Z) (calls : list (list carg)) : option gstate :=
  match calls with
  | [] => Some g
  | args :: rest => match g_coll true g size args with None => None | Some (g1, _) => g_colls g1 size rest end
  end.

Lemma coll_writes_nf : forall calls g c fl op lg s size,
  wst (g_w g) c fl op lg -> g_s0 g = Some s -> at_end s c ->
  Forall (fun args => args <> [] /\ Forall (wf_arg size) args) calls ->
  exists g', g_colls g size calls = Some g'
             /\ wst (g_w g') (c ++ concat (map (fun args => concat (map a_data args)) calls)) fl op lg.
Proof.
  induction calls as [|args rest IH]; intros g c fl op lg s size H Hs He Hf.
  - exists g. split; [reflexivity|]. cbn. rewrite app_nil_r. exact H.
  - inversion Hf as [|? ? [Hne Ha] Hr]; subst.
    destruct (coll_write_nf g c fl op lg s size args H Hs He Hne Ha) as (g1 & E1 & W1 & S1 & C1).
    cbn [g_colls]. rewrite E1.
    destruct (IH g1 _ fl op lg _ size W1 S1 (or_introl eq_refl) Hr) as (g2 & E2 & W2).
    exists g2. split; [exact E2|]. cbn [map concat]. rewrite app_assoc. exact W2.
Qed.

(* ------------------------------------------------------------------ accounting of failed stdio calls (any fault plan) *)
Definition facct (w w' : world) (n : Z) : Prop := w_plan w' = w_plan w /\ w_fail w' = w_fail w + n.
Definition ind (e : Z) : Z := if e =? 0 then 0 else 1.

Lemma facct_refl w : facct w w 0.
Proof. split; [reflexivity|lia]. Qed.
Lemma facct_trans w1 w2 w3 a b : facct w1 w2 a -> facct w2 w3 b -> facct w1 w3 (a + b).
Proof. intros [P1 F1] [P2 F2]. split; [congruence|lia]. Qed.

Lemma facct_take w q f : facct w (fst (take w q f)) 0.
Proof. split; cbn; [reflexivity|lia]. Qed.

Lemma facct_note w e : facct w (note_err w e) (ind e).
Proof. unfold note_err, ind. destruct (e =? 0); split; cbn; try reflexivity; lia. Qed.

Lemma ind_pos e : 0 < e -> ind e = 1.
Proof. intros H. unfold ind. destruct (e =? 0) eqn:E; [apply Z.eqb_eq in E; lia|reflexivity]. Qed.

Lemma plan_ok_pos pl q f k e s : plan_ok pl -> pl q f k = Some (e, s) -> f <> FWRITE -> f <> FREAD -> 0 < e.
Proof. intros H E H1 H2. destruct (H q f k e s E) as [[_ H3] _]. auto. Qed.
Lemma plan_ok_nonneg pl q f k e s : plan_ok pl -> pl q f k = Some (e, s) -> 0 <= e.
Proof. intros H E. destruct (H q f k e s E) as [[H3 _] _]. auto. Qed.
Lemma plan_ok_not_noise pl q f k e s : plan_ok pl -> pl q f k = Some (e, s) -> (s =? NOISE) = false.
Proof. intros H E. destruct (H q f k e s E) as [_ H3]. apply Z.eqb_neq. exact H3. Qed.
Lemma plan_ok_okn pl : plan_ok pl -> plan_okn pl.
Proof. intros H q f k e s E. right. apply (H q f k e s E). Qed.
Ltac kill_noise Hp :=
  unfold failed_errno;
  match goal with Ef : _ = Some (_, ?sh) |- _ => rewrite ?(plan_ok_not_noise _ _ _ _ _ _ Hp Ef) end; cbv iota.

Lemma acct_fopen w q m w' so e : plan_ok (w_plan w) -> g_fopen w q m = (w', so, e) ->
  facct w w' (ind e) /\ 0 <= e
  /\ (e = 0 -> so <> None /\ w_open w' = w_open w + 1 /\ w_ledger w' = w_ledger w)
  /\ (e <> 0 -> so = None /\ w_open w' = w_open w /\ w_ledger w' = w_ledger w).
Proof.
  intros Hp. unfold g_fopen, fopen_nat, take. cbn [w_node w_plan w_cnt w_fail w_open w_ledger].
  destruct (w_plan w q FOPEN (w_cnt w q FOPEN)) as [[e0 s0]|] eqn:Ef.
  - kill_noise Hp. intros E. inversion E; subst.
    assert (0 < e) by (eapply plan_ok_pos; eauto; cbv; congruence).
    split; [|split; [lia|split; [lia|]]].
    + rewrite (ind_pos e) by lia. unfold note_err. destruct (e =? 0) eqn:E0; [apply Z.eqb_eq in E0; lia|]. split; cbn; auto.
    + intros _. unfold note_err. destruct (e =? 0); cbn; auto.
  - destruct (w_node w) eqn:En; destruct m; intros E; inversion E; subst; cbn;
      (split; [split; cbn; auto; lia | split; [cbv; congruence | split; intros H0; try (cbv in H0; congruence); try congruence; repeat split; cbn; auto; try congruence; try lia]]).
Qed.

Lemma note_err_open w e : w_open (note_err w e) = w_open w /\ w_ledger (note_err w e) = w_ledger w.
Proof. unfold note_err. destruct (e =? 0); cbn; auto. Qed.

Lemma acct_fwrite w q s size count data w' s' r e : plan_ok (w_plan w) -> 0 <= count ->
  g_fwrite w q s size count data = (w', s', r, e) ->
  facct w w' (ind e) /\ 0 <= e /\ 0 <= r /\ w_open w' = w_open w /\ w_ledger w' = w_ledger w.
Proof.
  intros Hp Hc. unfold g_fwrite, take. cbn [w_node w_plan w_cnt w_fail w_open w_ledger].
  set (w1 := mkW (w_node w) (w_plan w) (bump (w_cnt w) q FWRITE) (w_fail w) (w_open w) (w_ledger w)).
  assert (F1 : facct w w1 0) by (split; cbn; auto; lia).
  destruct (st_mode s) eqn:Em.
  - intros E. inversion E; subst.
    split; [apply (facct_trans _ _ _ 0 _ F1); apply facct_note|].
    destruct (note_err_open w1 e_EBADF) as [-> ->]. cbv. repeat split; congruence.
  - destruct (w_plan w q FWRITE (w_cnt w q FWRITE)) as [[e0 sh]|] eqn:Ef; try kill_noise Hp; intros E; inversion E; subst.
    + assert (0 <= e) by (eapply plan_ok_nonneg; eauto).
      split; [apply (facct_trans _ _ _ 0 _ F1)|].
      * match goal with |- facct _ (note_err ?x _) _ => apply (facct_trans _ x _ 0 _); [split; cbn; auto; lia | apply facct_note] end.
      * match goal with |- context [note_err ?x e] => destruct (note_err_open x e) as [-> ->] end. cbn. repeat split; auto; lia.
    + split; [apply (facct_trans _ _ _ 0 _ F1); split; cbn; auto; lia|]. cbn. repeat split; auto; lia.
  - destruct (w_plan w q FWRITE (w_cnt w q FWRITE)) as [[e0 sh]|] eqn:Ef; try kill_noise Hp; intros E; inversion E; subst.
    + assert (0 <= e) by (eapply plan_ok_nonneg; eauto).
      split; [apply (facct_trans _ _ _ 0 _ F1)|].
      * match goal with |- facct _ (note_err ?x _) _ => apply (facct_trans _ x _ 0 _); [split; cbn; auto; lia | apply facct_note] end.
      * match goal with |- context [note_err ?x e] => destruct (note_err_open x e) as [-> ->] end. cbn. repeat split; auto; lia.
    + split; [apply (facct_trans _ _ _ 0 _ F1); split; cbn; auto; lia|]. cbn. repeat split; auto; lia.
Qed.

Lemma acct_fread w q s size count w' s' r e buf : plan_ok (w_plan w) -> 0 < size ->
  g_fread w q s size count = (w', s', r, e, buf) ->
  facct w w' (ind e) /\ 0 <= e /\ 0 <= r /\ w_open w' = w_open w /\ w_ledger w' = w_ledger w.
Proof.
  intros Hp Hs. unfold g_fread, take. cbn [w_node w_plan w_cnt w_fail w_open w_ledger].
  set (w1 := mkW (w_node w) (w_plan w) (bump (w_cnt w) q FREAD) (w_fail w) (w_open w) (w_ledger w)).
  assert (F1 : facct w w1 0) by (split; cbn; auto; lia).
  destruct (st_mode s) eqn:Em.
  - destruct (w_plan w q FREAD (w_cnt w q FREAD)) as [[e0 sh]|] eqn:Ef; try kill_noise Hp; intros E; inversion E; subst.
    + assert (0 <= e) by (eapply plan_ok_nonneg; eauto).
      split; [apply (facct_trans _ _ _ 0 _ F1); apply facct_note|].
      destruct (note_err_open w1 e) as [-> ->]. cbn. repeat split; auto.
      apply Z.div_pos; [apply len_nonneg|lia].
    + split; [apply (facct_trans _ _ _ 0 _ F1); apply facct_note|].
      cbn. repeat split; auto; try lia. apply Z.div_pos; [apply len_nonneg|lia].
  - intros E. inversion E; subst.
    split; [apply (facct_trans _ _ _ 0 _ F1); apply facct_note|].
    destruct (note_err_open w1 e_EBADF) as [-> ->]. cbv. repeat split; congruence.
  - intros E. inversion E; subst.
    split; [apply (facct_trans _ _ _ 0 _ F1); apply facct_note|].
    destruct (note_err_open w1 e_EBADF) as [-> ->]. cbv. repeat split; congruence.
Qed.

(* calls whose return value tells success: 0 and errno 0, or -1 and errno > 0 *)
Definition ret_errno (r e : Z) : Prop := (r = 0 /\ e = 0) \/ (r = -1 /\ 0 < e).

Lemma acct_fseek w q s off w' s' r e : plan_ok (w_plan w) ->
  g_fseek w q s off = (w', s', r, e) ->
  facct w w' (ind e) /\ ret_errno r e /\ w_open w' = w_open w /\ w_ledger w' = w_ledger w.
Proof.
  intros Hp. unfold g_fseek, take. cbn [w_node w_plan w_cnt w_fail w_open w_ledger].
  set (w1 := mkW (w_node w) (w_plan w) (bump (w_cnt w) q FSEEK) (w_fail w) (w_open w) (w_ledger w)).
  assert (F1 : facct w w1 0) by (split; cbn; auto; lia).
  destruct (w_plan w q FSEEK (w_cnt w q FSEEK)) as [[e0 sh]|] eqn:Ef.
  - kill_noise Hp. intros E. inversion E; subst.
    assert (0 < e) by (eapply plan_ok_pos; eauto; cbv; congruence).
    split; [apply (facct_trans _ _ _ 0 _ F1); apply facct_note|].
    destruct (note_err_open w1 e) as [-> ->]. cbn. split; [right; auto|auto].
  - destruct (off <? 0); intros E; inversion E; subst.
    + split; [apply (facct_trans _ _ _ 0 _ F1); apply facct_note|].
      destruct (note_err_open w1 e_EINVAL) as [-> ->]. cbn. split; [right; cbv; auto|auto].
    + split; [apply (facct_trans _ _ _ 0 _ F1); apply facct_refl|]. cbn. split; [left; auto|auto].
Qed.

Lemma acct_ftell w q s w' r e : plan_ok (w_plan w) ->
  g_ftell w q s = (w', r, e) ->
  facct w w' (ind e) /\ ((r = st_pos s /\ e = 0) \/ (r = -1 /\ 0 < e)) /\ w_open w' = w_open w /\ w_ledger w' = w_ledger w.
Proof.
  intros Hp. unfold g_ftell, take. cbn [w_node w_plan w_cnt w_fail w_open w_ledger].
  set (w1 := mkW (w_node w) (w_plan w) (bump (w_cnt w) q FTELL) (w_fail w) (w_open w) (w_ledger w)).
  assert (F1 : facct w w1 0) by (split; cbn; auto; lia).
  destruct (w_plan w q FTELL (w_cnt w q FTELL)) as [[e0 sh]|] eqn:Ef; try kill_noise Hp; intros E; inversion E; subst.
  - assert (0 < e) by (eapply plan_ok_pos; eauto; cbv; congruence).
    split; [apply (facct_trans _ _ _ 0 _ F1); apply facct_note|].
    destruct (note_err_open w1 e) as [-> ->]. cbn. split; [right; auto|auto].
  - split; [apply (facct_trans _ _ _ 0 _ F1); apply facct_refl|]. cbn. split; [left; auto|auto].
Qed.

Lemma acct_fflush w q w' r e : plan_ok (w_plan w) ->
  g_fflush w q = (w', r, e) ->
  facct w w' (ind e) /\ ret_errno r e /\ w_open w' = w_open w /\ w_ledger w' = w_ledger w.
Proof.
  intros Hp. unfold g_fflush, take. cbn [w_node w_plan w_cnt w_fail w_open w_ledger].
  set (w1 := mkW (w_node w) (w_plan w) (bump (w_cnt w) q FFLUSH) (w_fail w) (w_open w) (w_ledger w)).
  assert (F1 : facct w w1 0) by (split; cbn; auto; lia).
  destruct (w_plan w q FFLUSH (w_cnt w q FFLUSH)) as [[e0 sh]|] eqn:Ef; try kill_noise Hp; intros E; inversion E; subst.
  - assert (0 < e) by (eapply plan_ok_pos; eauto; cbv; congruence).
    split; [apply (facct_trans _ _ _ 0 _ F1); apply facct_note|].
    destruct (note_err_open w1 e) as [-> ->]. cbn. split; [right; auto|auto].
  - split; [apply (facct_trans _ _ _ 0 _ F1); apply facct_refl|]. cbn. split; [left; auto|auto].
Qed.

Lemma acct_fclose w q w' r e : plan_ok (w_plan w) ->
  g_fclose w q = (w', r, e) ->
  facct w w' (ind e) /\ ret_errno r e /\ w_open w' = w_open w - 1 /\ w_ledger w' = w_ledger w.
Proof.
  intros Hp. unfold g_fclose, take. cbn [w_node w_plan w_cnt w_fail w_open w_ledger].
  set (w1 := mkW (w_node w) (w_plan w) (bump (w_cnt w) q FCLOSE) (w_fail w) (w_open w) (w_ledger w)).
  assert (F1 : facct w w1 0) by (split; cbn; auto; lia).
  destruct (w_plan w q FCLOSE (w_cnt w q FCLOSE)) as [[e0 sh]|] eqn:Ef; try kill_noise Hp; intros E; inversion E; subst.
  - assert (0 < e) by (eapply plan_ok_pos; eauto; cbv; congruence).
    split; [apply (facct_trans _ _ _ 0 _ F1)|].
    + match goal with |- facct _ (note_err ?x _) _ => apply (facct_trans _ x _ 0 _); [split; cbn; auto; lia | apply facct_note] end.
    + match goal with |- context [note_err ?x e] => destruct (note_err_open x e) as [-> ->] end. cbn. split; [right; auto|split; auto; lia].
  - split; [apply (facct_trans _ _ _ 0 _ F1); split; cbn; auto; lia|]. cbn. split; [left; auto|split; auto; lia].
Qed.

Lemma ind_0 : ind 0 = 0.
Proof. reflexivity. Qed.

Lemma ret_errno_ok r e : ret_errno r e -> (r =? 0) = true -> e = 0.
Proof. intros [[_ H]|[H _]] E; [auto|]. subst. discriminate. Qed.
Lemma ret_errno_fail r e : ret_errno r e -> (r =? 0) = false -> 0 < e.
Proof. intros [[H _]|[_ H]] E; [subst; discriminate|auto]. Qed.

(* one rank's turn with the go-ahead token: exactly its own error (if any) is counted *)
Lemma acct_turn wr w s0 q size a w1 t : plan_ok (w_plan w) -> 0 <= a_count a -> 0 < size ->
  g_turn wr w s0 q (-1) size a = Some (w1, t) ->
  facct w w1 (ind (t_errval t)) /\ 0 <= t_errval t /\ w_ledger w1 = w_ledger w.
Proof.
  intros Hp Hc Hs. unfold g_turn. change (-1 =? -1) with true. cbv iota.
  destruct (if q =? 0 then (w, s0, 0) else g_fopen w q (if wr then MAppend else MRead)) as [[wa so] e1] eqn:Eo.
  assert (A1 : (facct w wa (ind e1) /\ 0 <= e1 /\ w_ledger wa = w_ledger w)
               /\ open_judge (match so with Some _ => true | None => false end) e1 = e1).
  { destruct (q =? 0).
    - inversion Eo; subst. split; [split; [apply facct_refl|split; [lia|reflexivity]]|destruct so; reflexivity].
    - destruct (acct_fopen _ _ _ _ _ _ Hp Eo) as (F & N & Z0 & Z1).
      split; [split; [exact F|split; [exact N|]]|].
      + destruct (Z.eq_dec e1 0) as [E|E]; [apply Z0 in E|apply Z1 in E]; tauto.
      + (* without errno noise a stream comes with errno 0: the judgement by the stream is errno itself *)
        destruct so; [|reflexivity]. cbn. destruct (Z.eq_dec e1 0) as [E|E]; [auto|]. destruct (Z1 E) as [H _]. discriminate. }
  destruct A1 as ((F1 & N1 & L1) & Hj). rewrite Hj.
  assert (Hpa : plan_ok (w_plan wa)) by (destruct F1 as [-> _]; exact Hp).
  destruct (e1 =? 0) eqn:E1; cbn [negb].
  2:{ intros E. inversion E; subst. cbn [t_errval]. auto. }
  apply Z.eqb_eq in E1. subst e1. rewrite ind_0 in F1.
  destruct so as [s|]; [|discriminate].
  destruct wr.
  - destruct (g_fwrite wa q s size (a_count a) (a_data a)) as [[[w3 s3] oc] e3] eqn:E3.
    destruct (acct_fwrite _ _ _ _ _ _ _ _ _ _ Hpa Hc E3) as (F3 & N3 & _ & _ & L3).
    assert (Hp3 : plan_ok (w_plan w3)) by (destruct F3 as [-> _]; exact Hpa).
    destruct (g_fflush w3 q) as [[w4 r4] e4] eqn:E4.
    destruct (acct_fflush _ _ _ _ _ Hp3 E4) as (F4 & R4 & _ & L4).
    destruct (r4 =? 0) eqn:B4; cbn [negb]; [|discriminate].
    rewrite (ret_errno_ok _ _ R4 B4), ind_0 in F4.
    assert (Hp4 : plan_ok (w_plan w4)) by (destruct F4 as [-> _]; exact Hp3).
    destruct (g_fclose w4 q) as [[w5 r5] e5] eqn:E5.
    destruct (acct_fclose _ _ _ _ _ Hp4 E5) as (F5 & R5 & _ & L5).
    destruct (r5 =? 0) eqn:B5; cbn [negb]; [|discriminate].
    rewrite (ret_errno_ok _ _ R5 B5), ind_0 in F5.
    intros E. inversion E; subst. cbn [t_errval].
    split; [|split; [exact N3|congruence]].
    pose proof (facct_trans _ _ _ _ _ F1 (facct_trans _ _ _ _ _ F3 (facct_trans _ _ _ _ _ F4 F5))) as F.
    replace (0 + (ind e3 + (0 + 0))) with (ind e3) in F by lia. exact F.
  - destruct (g_fseek wa q s (a_off a)) as [[[w2 s2] r2] e2] eqn:E2.
    destruct (acct_fseek _ _ _ _ _ _ _ _ Hpa E2) as (F2 & R2 & _ & L2).
    destruct (r2 =? 0) eqn:B2; [|discriminate].
    rewrite (ret_errno_ok _ _ R2 B2), ind_0 in F2.
    assert (Hp2 : plan_ok (w_plan w2)) by (destruct F2 as [-> _]; exact Hpa).
    destruct (g_fread w2 q s2 size (a_count a)) as [[[[w3 s3] oc] e3] buf] eqn:E3.
    destruct (acct_fread _ _ _ _ _ _ _ _ _ _ Hp2 Hs E3) as (F3 & N3 & _ & _ & L3).
    assert (Hp3 : plan_ok (w_plan w3)) by (destruct F3 as [-> _]; exact Hp2).
    destruct (g_fflush w3 q) as [[w4 r4] e4] eqn:E4.
    destruct (acct_fflush _ _ _ _ _ Hp3 E4) as (F4 & R4 & _ & L4).
    destruct (r4 =? 0) eqn:B4; cbn [negb]; [|discriminate].
    rewrite (ret_errno_ok _ _ R4 B4), ind_0 in F4.
    assert (Hp4 : plan_ok (w_plan w4)) by (destruct F4 as [-> _]; exact Hp3).
    destruct (g_fclose w4 q) as [[w5 r5] e5] eqn:E5.
    destruct (acct_fclose _ _ _ _ _ Hp4 E5) as (F5 & R5 & _ & L5).
    destruct (r5 =? 0) eqn:B5; cbn [negb]; [|discriminate].
    rewrite (ret_errno_ok _ _ R5 B5), ind_0 in F5.
    intros E. inversion E; subst. cbn [t_errval].
    split; [|split; [exact N3|congruence]].
    pose proof (facct_trans _ _ _ _ _ F1 (facct_trans _ _ _ _ _ F2 (facct_trans _ _ _ _ _ F3 (facct_trans _ _ _ _ _ F4 F5)))) as F.
    replace (0 + (0 + (ind e3 + (0 + 0)))) with (ind e3) in F by lia. exact F.
Qed.

Lemma turn_error_token wr w s0 q tok size a : 0 < tok ->
  g_turn wr w s0 q tok size a = Some (w, mkT tok 0 []).
Proof.
  intros H. unfold g_turn.
  destruct (tok =? -1) eqn:E1; [apply Z.eqb_eq in E1; lia|].
  destruct (0 <? tok) eqn:E2; [reflexivity|apply Z.ltb_ge in E2; lia].
Qed.

Lemma tok_out_pos tok n b : 0 < tok -> tok_out (mkT tok n b) = tok.
Proof. intros H. unfold tok_out. cbn [t_errval]. destruct (tok =? 0) eqn:E; [apply Z.eqb_eq in E; lia|reflexivity]. Qed.

Lemma last_cons {A} (a : A) l d : l <> [] -> last (a :: l) d = last l d.
Proof. destruct l; [congruence|reflexivity]. Qed.

(* after an error token the remaining ranks do no I/O and all carry the error *)
Lemma turns_error_token wr size : forall args w s0 q tok w' ts, 0 < tok ->
  g_turns wr w s0 q tok size args = Some (w', ts) ->
  w' = w /\ ts = map (fun _ => mkT tok 0 []) args.
Proof.
  induction args as [|a rest IH]; intros w s0 q tok w' ts Ht; cbn [g_turns].
  - intros E. inversion E. auto.
  - rewrite (turn_error_token wr w s0 q tok size a Ht). rewrite tok_out_pos by exact Ht.
    destruct (g_turns wr w s0 (q + 1) tok size rest) as [[w2 ts2]|] eqn:E2; [|discriminate].
    intros E. inversion E; subst. destruct (IH _ _ _ _ _ _ Ht E2) as [-> ->]. auto.
Qed.

Lemma last_map_const {A B} (v : B) (l : list A) d : l <> [] -> last (map (fun _ => v) l) d = v.
Proof.
  induction l as [|x l IH]; [congruence|]. intros _.
  destruct l as [|y l]; [reflexivity|].
  change (last (map (fun _ => v) (x :: y :: l)) d) with (last (map (fun _ => v) (y :: l)) d).
  apply IH. congruence.
Qed.

Definition final_errval (ts : list turn) : Z := t_errval (last ts (mkT 0 0 [])).

(* the error value of the LAST rank is the first error that happened, and at most one stdio call failed *)
Lemma acct_turns wr size : 0 < size -> forall args w s0 q w' ts,
  plan_ok (w_plan w) -> Forall (fun a => 0 <= a_count a) args -> args <> [] ->
  g_turns wr w s0 q (-1) size args = Some (w', ts) ->
  facct w w' (ind (final_errval ts)) /\ 0 <= final_errval ts /\ w_ledger w' = w_ledger w /\ length ts = length args.
Proof.
  intros Hs. induction args as [|a rest IH]; intros w s0 q w' ts Hp Hf Hne; [congruence|].
  inversion Hf as [|? ? Ha Hr]; subst. cbn [g_turns].
  destruct (g_turn wr w s0 q (-1) size a) as [[w1 t]|] eqn:E1; [|discriminate].
  destruct (acct_turn _ _ _ _ _ _ _ _ Hp Ha Hs E1) as (F1 & N1 & L1).
  destruct (g_turns wr w1 s0 (q + 1) (tok_out t) size rest) as [[w2 ts2]|] eqn:E2; [|discriminate].
  intros E. inversion E; subst. clear E.
  assert (Hp1 : plan_ok (w_plan w1)) by (destruct F1 as [-> _]; exact Hp).
  destruct rest as [|b rest'].
  - cbn [g_turns] in E2. inversion E2; subst. unfold final_errval. cbn [last]. auto.
  - unfold tok_out in E2. destruct (t_errval t =? 0) eqn:E0.
    + apply Z.eqb_eq in E0.
      destruct (IH w1 s0 (q + 1) w' ts2 Hp1 Hr ltac:(congruence) E2) as (F2 & N2 & L2 & Len2).
      assert (ts2 <> []) by (destruct ts2; cbn in Len2; [discriminate|congruence]).
      unfold final_errval in *. rewrite last_cons by assumption.
      rewrite E0, ind_0 in F1.
      split; [|split; [exact N2|split; [congruence|cbn [length] in *; lia]]].
      pose proof (facct_trans _ _ _ _ _ F1 F2) as F. replace (0 + ind (t_errval (last ts2 (mkT 0 0 [])))) with (ind (t_errval (last ts2 (mkT 0 0 [])))) in F by lia. exact F.
    + apply Z.eqb_neq in E0. assert (Hpos : 0 < t_errval t) by lia.
      destruct (turns_error_token wr size _ _ _ _ _ _ _ Hpos E2) as [-> ->].
      unfold final_errval. rewrite last_cons by (cbn; congruence).
      rewrite last_map_const by congruence. cbn [t_errval].
      split; [exact F1|split; [exact N1|split; [exact L1|]]].
      cbn [length]. rewrite map_length. reflexivity.
Qed.

(* all ranks return the class of one and the same value *)
Lemma coll_agree wr g size args g' rs : g_coll wr g size args = Some (g', rs) ->
  exists ev, forall r, In r rs -> r_cls r = errclass CfgC ev.
Proof.
  unfold g_coll. destruct (g_turns wr (g_w g) (g_s0 g) 0 (-1) size args) as [[w1 ts]|]; [|discriminate].
  destruct (g_fopen w1 0 (if wr then MAppend else MRead)) as [[w2 so] e].
  destruct so; [|discriminate].
  intros E. inversion E; subst. eexists. intros r Hin. apply in_map_iff in Hin. destruct Hin as (t & <- & _). reflexivity.
Qed.

(* SUCCESS on every rank iff no stdio call of the whole collective operation failed (any P, any fault plan) *)
Lemma coll_success_iff wr g size args g' rs : 0 < size -> plan_ok (w_plan (g_w g)) ->
  Forall (fun a => 0 <= a_count a) args -> args <> [] ->
  g_coll wr g size args = Some (g', rs) ->
  rs <> [] /\ ((forall r, In r rs -> r_cls r = SUCCESS CfgC) <-> w_fail (g_w g') = w_fail (g_w g))
  /\ w_ledger (g_w g') = w_ledger (g_w g).
Proof.
  intros Hs Hp Hf Hne. unfold g_coll.
  destruct (g_turns wr (g_w g) (g_s0 g) 0 (-1) size args) as [[w1 ts]|] eqn:Et; [|discriminate].
  destruct (acct_turns wr size Hs _ _ _ _ _ _ Hp Hf Hne Et) as (F1 & N1 & L1 & Len).
  assert (Hp1 : plan_ok (w_plan w1)) by (destruct F1 as [-> _]; exact Hp).
  destruct (g_fopen w1 0 (if wr then MAppend else MRead)) as [[w2 so] e] eqn:Eo.
  destruct (acct_fopen _ _ _ _ _ _ Hp1 Eo) as (F2 & N2 & Z0 & Z1).
  destruct so as [sr|]; [|discriminate].
  assert (E0 : e = 0) by (destruct (Z.eq_dec e 0) as [E|E]; [exact E|destruct (Z1 E) as [H _]; discriminate]).
  subst e. rewrite ind_0 in F2.
  intros E. inversion E; subst. clear E. cbn [g_w].
  fold (final_errval ts).
  assert (Hts : ts <> []) by (destruct ts; destruct args; cbn in Len; congruence).
  split; [destruct ts; cbn; congruence|].
  destruct (Z0 eq_refl) as (_ & _ & L2).
  split; [|congruence].
  pose proof (facct_trans _ _ _ _ _ F1 F2) as [_ F].
  split.
  - intros H. destruct ts as [|t ts']; [congruence|].
    specialize (H _ (in_eq _ _)). cbn [r_cls] in H. apply errclass_success_iff in H. rewrite H, ind_0 in F. lia.
  - intros H r Hin. apply in_map_iff in Hin. destruct Hin as (t & <- & _). cbn [r_cls].
    apply errclass_success_iff. unfold ind in F. destruct (final_errval ts =? 0) eqn:E; [apply Z.eqb_eq in E; exact E|lia].
Qed.

(* ------------------------------------------------------------------ open and close under any fault plan *)
Definition agree (l : list Z) : Prop := forall x y, In x l -> In y l -> x = y.

Lemma ranks_nonempty P : 0 < P -> ranks P <> [].
Proof.
  intros H. unfold ranks. destruct (Z.to_nat P) eqn:E; [lia|]. cbn. congruence.
Qed.

(* fopen under a plan that may contain errno noise: the returned stream decides, not errno *)
Lemma acct_fopen_n w q m w' so e : plan_okn (w_plan w) -> g_fopen w q m = (w', so, e) ->
  w_plan w' = w_plan w
  /\ (so <> None -> w_fail w' = w_fail w /\ w_open w' = w_open w + 1 /\ w_ledger w' = w_ledger w)
  /\ (so = None -> 0 < e /\ w_fail w' = w_fail w + 1 /\ w_open w' = w_open w /\ w_ledger w' = w_ledger w).
Proof.
  intros Hp. unfold g_fopen, take. cbn [w_node w_plan w_cnt w_fail w_open w_ledger].
  assert (Hnat : forall ne, fopen_nat (mkW (w_node w) (w_plan w) (bump (w_cnt w) q FOPEN) (w_fail w) (w_open w) (w_ledger w)) m ne = (w', so, e) ->
    w_plan w' = w_plan w
    /\ (so <> None -> w_fail w' = w_fail w /\ w_open w' = w_open w + 1 /\ w_ledger w' = w_ledger w)
    /\ (so = None -> 0 < e /\ w_fail w' = w_fail w + 1 /\ w_open w' = w_open w /\ w_ledger w' = w_ledger w)).
  { intros ne. unfold fopen_nat. cbn [w_node].
    destruct (w_node w) eqn:En; destruct m; intros E; inversion E; subst; cbn;
      (split; [reflexivity|split; intros H0; try congruence; repeat split; cbn; auto; try lia; try (cbv; reflexivity)]). }
  destruct (w_plan w q FOPEN (w_cnt w q FOPEN)) as [[e0 sh]|] eqn:Ef; [|apply Hnat].
  destruct (sh =? NOISE) eqn:En; [apply Hnat|].
  intros E. inversion E; subst.
  destruct (Hp _ _ _ _ _ Ef) as [Hn | [_ H1]]; [apply Z.eqb_neq in En; contradiction|].
  assert (0 < e) by (apply H1; cbv; congruence).
  unfold note_err. rewrite (proj2 (Z.eqb_neq e 0)) by lia. cbn.
  split; [reflexivity|split; [congruence|intros _; repeat split; auto; lia]].
Qed.

(* also when the C library leaves errno set after a successful fopen (plan_okn): the class is decided by the stream *)
Lemma open_spec cfg P g am g' cls : 0 < P -> plan_okn (w_plan (g_w g)) ->
  g_open cfg P g am = (g', cls) ->
  agree cls /\ cls <> []
  /\ ((forall x, In x cls -> x = SUCCESS cfg) <-> w_fail (g_w g') = w_fail (g_w g))
  /\ ((forall x, In x cls -> x = SUCCESS cfg) ->
        g_ctx g' = true /\ g_s0 g' <> None /\ w_ledger (g_w g') = w_ledger (g_w g) + P /\ w_open (g_w g') = w_open (g_w g) + 1)
  /\ (~ (forall x, In x cls -> x = SUCCESS cfg) ->
        g_ctx g' = false /\ g_s0 g' = None /\ w_ledger (g_w g') = w_ledger (g_w g) /\ w_open (g_w g') = w_open (g_w g)).
Proof.
  intros HP Hp. unfold g_open, g_open_with.
  destruct (g_fopen (add_ledger (g_w g) P) 0 (mode_of_amode am)) as [[w1 so] e0] eqn:Eo.
  assert (Hp0 : plan_okn (w_plan (add_ledger (g_w g) P))) by exact Hp.
  destruct (acct_fopen_n _ _ _ _ _ _ Hp0 Eo) as (_ & Z0 & Z1). cbn [add_ledger w_open w_ledger w_fail w_plan] in *.
  pose proof (ranks_nonempty P HP) as Hr.
  set (e := open_judge (match so with Some _ => true | None => false end) e0).
  assert (Hall : forall cl, (forall x, In x (map (errclass cfg) (bcast_all P e)) -> x = cl) <-> errclass cfg e = cl).
  { intros cl. rewrite bcast_class. split.
    - intros H. destruct (ranks P) as [|r rs]; [congruence|]. apply H. left. reflexivity.
    - intros H x Hin. apply in_map_iff in Hin. destruct Hin as (? & <- & _). exact H. }
  assert (Hag : agree (map (errclass cfg) (bcast_all P e))).
  { rewrite bcast_class. intros x y Hx Hy. apply in_map_iff in Hx, Hy. destruct Hx as (? & <- & _), Hy as (? & <- & _). reflexivity. }
  assert (Hne : map (errclass cfg) (bcast_all P e) <> []).
  { rewrite bcast_class. destruct (ranks P); cbn; congruence. }
  destruct so as [st|].
  - (* a stream: SUCCESS whatever errno fopen left *)
    assert (He : e = 0) by reflexivity.
    destruct (Z0 ltac:(congruence)) as (Fl & Op & Le).
    assert (Ec : errclass cfg e = SUCCESS cfg) by (rewrite He; apply errclass_0).
    rewrite Ec, Z.eqb_refl. intros E; inversion E; subst g' cls; clear E; cbn [g_w g_s0 g_ctx].
    split; [exact Hag|split; [exact Hne|split; [|split]]].
    + rewrite Hall. split; intros; [lia|exact Ec].
    + intros _. repeat split; auto; try congruence; lia.
    + intros H. exfalso. apply H. apply (proj2 (Hall _)). exact Ec.
  - destruct (Z1 eq_refl) as (Pos & Fl & Op & Le).
    assert (He : e = e0) by reflexivity.
    assert (Ec : errclass cfg e <> SUCCESS cfg) by (rewrite He; intros H; apply errclass_success_iff in H; lia).
    rewrite (proj2 (Z.eqb_neq _ _) Ec). intros E; inversion E; subst g' cls; clear E; cbn [g_w g_s0 g_ctx].
    split; [exact Hag|split; [exact Hne|split; [|split]]].
    + rewrite Hall. cbn [add_ledger w_fail]. split; intros; [congruence|lia].
    + intros H1. exfalso. apply Ec. apply (proj1 (Hall _)). exact H1.
    + intros _. cbn [add_ledger w_ledger w_open]. repeat split; auto; lia.
Qed.

(* regression guard for F-C12j: the line before the repair (`retval = errno`) on a fopen that succeeds and leaves errno = ESPIPE
   (glibc, mode "ab" on a pipe): an error class on both ranks, no context, no handle - and one stream left open *)
Definition plan_noise_fopen : plan := fun q f k => if (q =? 0) && (f =? FOPEN) && (k =? 0) then Some (e_ESPIPE, NOISE) else None.
Lemma open_old_judge_refuted :
  let g := gstate0 (File [1; 2; 3]) plan_noise_fopen in
  (let '(g', cls) := g_open_with open_judge_old CfgC 2 g c12_SC_IO_WRITE_APPEND in
   cls = [errclass CfgC e_ESPIPE; errclass CfgC e_ESPIPE] /\ errclass CfgC e_ESPIPE <> SUCCESS CfgC
   /\ g_ctx g' = false /\ g_s0 g' = None /\ w_ledger (g_w g') = 0 /\ w_open (g_w g') = 1 /\ w_fail (g_w g') = 0)
  /\ (let '(g', cls) := g_open CfgC 2 g c12_SC_IO_WRITE_APPEND in
      cls = [SUCCESS CfgC; SUCCESS CfgC] /\ g_s0 g' = Some (mkS MAppend 3) /\ w_open (g_w g') = 1 /\ w_fail (g_w g') = 0).
Proof. vm_compute. repeat split; congruence. Qed.

Lemma close_spec cfg P g g' cls : 0 < P -> plan_ok (w_plan (g_w g)) ->
  g_close cfg P g = Some (g', cls) ->
  agree cls /\ cls <> []
  /\ ((forall x, In x cls -> x = SUCCESS cfg) <-> w_fail (g_w g') = w_fail (g_w g))
  /\ g_ctx g' = false /\ g_s0 g' = None /\ w_ledger (g_w g') = w_ledger (g_w g) - P
  /\ w_open (g_w g') = w_open (g_w g) - (match g_s0 g with Some _ => 1 | None => 0 end).
Proof.
  intros HP Hp. unfold g_close.
  pose proof (ranks_nonempty P HP) as Hr.
  assert (Hall : forall v cl, (forall x, In x (bcast_all P v) -> x = cl) <-> v = cl).
  { intros v cl. unfold bcast_all. split.
    - intros H. destruct (ranks P) as [|r rs]; [congruence|]. apply H. left. reflexivity.
    - intros H x Hin. apply in_map_iff in Hin. destruct Hin as (? & <- & _). exact H. }
  assert (Hag : forall v, agree (bcast_all P v)).
  { intros v x y Hx Hy. apply in_map_iff in Hx, Hy. destruct Hx as (? & <- & _), Hy as (? & <- & _). reflexivity. }
  assert (Hne : forall v, bcast_all P v <> []) by (intros v; unfold bcast_all; destruct (ranks P); cbn; congruence).
  destruct (g_s0 g) as [s|].
  - destruct (g_fclose (g_w g) 0) as [[w1 ret] e] eqn:Ec.
    destruct (acct_fclose _ _ _ _ _ Hp Ec) as ([_ F] & R & Op & Le).
    destruct (Bool.eqb (ret =? 0) (errclass cfg e =? SUCCESS cfg)) eqn:Eb; [|discriminate].
    intros E. inversion E; subst; clear E. cbn [g_w g_s0 g_ctx add_ledger w_fail w_ledger w_open].
    split; [apply Hag|split; [apply Hne|split; [|repeat split; auto; lia]]].
    rewrite Hall. rewrite errclass_success_iff. unfold ind in F.
    destruct (e =? 0) eqn:E0; [apply Z.eqb_eq in E0|apply Z.eqb_neq in E0]; split; intros; try lia; try congruence.
  - intros E. inversion E; subst; clear E. cbn [g_w g_s0 g_ctx add_ledger w_fail w_ledger w_open].
    split; [apply Hag|split; [apply Hne|split; [|repeat split; auto; lia]]].
    rewrite Hall. split; intros; [lia|reflexivity].
Qed.

(* ------------------------------------------------------------------ explicit-offset calls (serial configuration; rank 0 otherwise), fault-free *)
Definition at_pos (m : fmode) (c : list Z) (off : Z) : Z := match m with MAppend => len c | _ => off end.

Lemma at_count0 cfg wr g q size a : a_count a = 0 -> g_at cfg wr g q size a = (g, mkR (SUCCESS cfg) 0 []).
Proof. intros H. unfold g_at, g_at_with. rewrite H. reflexivity. Qed.

Lemma at_tail_00 c : at_tail c 0 0 = SUCCESS c.
Proof. unfold at_tail. rewrite errclass_0, Z.eqb_refl. reflexivity. Qed.

(* the repaired tail: SUCCESS needs both the transfer and the restoring fseek to be free of errors *)
Lemma at_tail_success c e3 e4 : at_tail c e3 e4 = SUCCESS c <-> e3 = 0 /\ e4 = 0.
Proof.
  unfold at_tail. destruct (errclass c e3 =? SUCCESS c) eqn:E.
  - apply Z.eqb_eq in E. rewrite errclass_success_iff in E. rewrite errclass_success_iff. tauto.
  - apply Z.eqb_neq in E. rewrite errclass_success_iff in E. rewrite errclass_success_iff. tauto.
Qed.

Lemma neqb_false x : x <> 0 -> (x =? 0) = false.
Proof. intros H. apply Z.eqb_neq. exact H. Qed.

Lemma at_write_nf cfg g c fl op lg m p q size a :
  wst (g_w g) c fl op lg -> g_s0 g = Some (mkS m p) -> m <> MRead -> 0 <= p -> 0 <= a_off a -> 0 < a_count a ->
  len (a_data a) = size * a_count a ->
  exists g', g_at cfg true g q size a = (g', mkR (SUCCESS cfg) (a_count a) [])
    /\ wst (g_w g') (put c (at_pos m c (a_off a)) (a_data a)) fl op lg
    /\ g_s0 g' = Some (mkS m p) /\ g_ctx g' = g_ctx g.
Proof.
  intros H Hs Hm Hp Ho Hc Hl. unfold g_at, g_at_with. rewrite (neqb_false (a_count a)) by lia. rewrite Hs.
  destruct (nf_ftell _ _ _ _ _ q (mkS m p) H) as (w1 & E1 & H1). rewrite E1. cbn [st_pos].
  destruct (p =? -1) eqn:Ep; [apply Z.eqb_eq in Ep; lia|].
  destruct (nf_fseek _ _ _ _ _ q (mkS m p) _ H1 Ho) as (w2 & E2 & H2). rewrite E2. cbn [st_mode].
  change (0 =? 0) with true. cbn [negb].
  assert (Hm' : st_mode (mkS m (a_off a)) <> MRead) by exact Hm.
  destruct (nf_fwrite _ _ _ _ _ q _ size _ _ H2 Hm' Hl) as (w3 & E3 & H3). rewrite E3.
  change (0 =? 0) with true. cbn [negb andb].
  destruct (nf_fseek _ _ _ _ _ q (mkS (st_mode (mkS m (a_off a))) (wpos (mkS m (a_off a)) c + len (a_data a))) p H3 Hp) as (w4 & E4 & H4).
  rewrite E4. rewrite at_tail_00. cbn [st_mode].
  eexists. split; [reflexivity|]. cbn [g_w g_s0 g_ctx].
  split; [|auto]. unfold wpos in H4. cbn [st_mode st_pos] in H4. unfold at_pos. destruct m; auto; congruence.
Qed.

Lemma at_read_nf cfg g c fl op lg p q size a :
  wst (g_w g) c fl op lg -> g_s0 g = Some (mkS MRead p) -> 0 <= p -> 0 <= a_off a -> a_count a <> 0 ->
  exists g', g_at cfg false g q size a =
               (g', mkR (SUCCESS cfg) (whole c (a_off a) size (a_count a))
                        (firstn (Z.to_nat (size * whole c (a_off a) size (a_count a))) (avail c (a_off a) size (a_count a))))
    /\ wst (g_w g') c fl op lg /\ g_s0 g' = Some (mkS MRead p) /\ g_ctx g' = g_ctx g.
Proof.
  intros H Hs Hp Ho Hc. unfold g_at, g_at_with. rewrite (neqb_false (a_count a)) by lia. rewrite Hs.
  destruct (nf_ftell _ _ _ _ _ q (mkS MRead p) H) as (w1 & E1 & H1). rewrite E1. cbn [st_pos].
  destruct (p =? -1) eqn:Ep; [apply Z.eqb_eq in Ep; lia|].
  destruct (nf_fseek _ _ _ _ _ q (mkS MRead p) _ H1 Ho) as (w2 & E2 & H2). rewrite E2. cbn [st_mode].
  change (0 =? 0) with true. cbn [negb].
  destruct (nf_fread _ _ _ _ _ q (a_off a) size (a_count a) H2) as (w3 & E3 & H3). rewrite E3.
  change (0 =? 0) with true. cbn [negb andb].
  destruct (nf_fseek _ _ _ _ _ q (mkS MRead (a_off a + len (avail c (a_off a) size (a_count a)))) p H3 Hp) as (w4 & E4 & H4).
  rewrite E4. rewrite at_tail_00. cbn [st_mode].
  eexists. split; [reflexivity|]. cbn [g_w g_s0 g_ctx]. auto.
Qed.

(* bytes written at an offset (file opened for writing, not appending) are the bytes found at that offset *)
Lemma avail_put c off d size count : 0 <= off -> len d = size * count -> avail (put c off d) off size count = d.
Proof.
  intros Ho Hl. unfold avail. rewrite <- Hl, to_nat_len. apply put_read. exact Ho.
Qed.

(* the logical ranks of the serial configuration write their blocks one after the other *)
Lemma at_all_write_nf cfg size : forall args g c fl op lg m p q,
  wst (g_w g) c fl op lg -> g_s0 g = Some (mkS m p) -> m <> MRead -> 0 <= p ->
  Forall (wf_arg size) args -> consec (len c) args ->
  exists g', g_at_all cfg true g q size args = (g', map (fun a => mkR (SUCCESS cfg) (a_count a) []) args)
    /\ wst (g_w g') (c ++ concat (map a_data args)) fl op lg /\ g_s0 g' = Some (mkS m p) /\ g_ctx g' = g_ctx g.
Proof.
  induction args as [|a rest IH]; intros g c fl op lg m p q H Hs Hm Hp Hf Hc.
  - exists g. cbn. rewrite app_nil_r. auto.
  - inversion Hf as [|? ? [Ha Hl] Hr]; subst. destruct Hc as [Ho Hc].
    cbn [g_at_all].
    destruct (Z.eq_dec (a_count a) 0) as [E0|E0].
    + rewrite (at_count0 cfg true g q size a E0).
      assert (Hd : a_data a = []).
      { rewrite E0, Z.mul_0_r in Hl. destruct (a_data a); [reflexivity|]. unfold len in Hl. cbn in Hl. lia. }
      rewrite Hd, len_nil, Z.add_0_r in Hc.
      destruct (IH g c fl op lg m p (q + 1) H Hs Hm Hp Hr Hc) as (g' & E & W & S & C). rewrite E.
      exists g'. cbn [map concat]. rewrite Hd, E0. cbn [app]. auto.
    + assert (Hoff : 0 <= a_off a) by (rewrite Ho; apply len_nonneg).
      destruct (at_write_nf cfg g c fl op lg m p q size a H Hs Hm Hp Hoff ltac:(lia) Hl) as (g1 & E1 & W1 & S1 & C1).
      rewrite E1.
      assert (Hput : put c (at_pos m c (a_off a)) (a_data a) = c ++ a_data a).
      { unfold at_pos. rewrite Ho. destruct m; apply put_at_end. }
      rewrite Hput in W1. rewrite <- len_app in Hc.
      destruct (IH g1 _ fl op lg m p (q + 1) W1 S1 Hm Hp Hr Hc) as (g' & E & W & S & C). rewrite E.
      exists g'. cbn [map concat]. rewrite app_assoc. split; [reflexivity|]. split; [exact W|split; [exact S|congruence]].
Qed.

(* limitation of the repaired append mode: in mode "ab" the offset of an explicit-offset write is ignored *)
Lemma at_write_append_ignores_offset cfg g c fl op lg p q size a :
  wst (g_w g) c fl op lg -> g_s0 g = Some (mkS MAppend p) -> 0 <= p -> 0 <= a_off a -> 0 < a_count a ->
  len (a_data a) = size * a_count a ->
  exists g', g_at cfg true g q size a = (g', mkR (SUCCESS cfg) (a_count a) [])
    /\ wst (g_w g') (c ++ a_data a) fl op lg.
Proof.
  intros H Hs Hp Ho Hc Hl.
  destruct (at_write_nf cfg g c fl op lg MAppend p q size a H Hs ltac:(congruence) Hp Ho Hc Hl) as (g' & E & W & _).
  exists g'. split; [exact E|]. unfold at_pos in W. rewrite put_at_end in W. exact W.
Qed.

(* ------------------------------------------------------------------ explicit-offset calls under any fault plan *)
Lemma ind_cases e : 0 <= e -> (e = 0 /\ ind e = 0) \/ (0 < e /\ ind e = 1).
Proof. intros H. unfold ind. destruct (e =? 0) eqn:E; [apply Z.eqb_eq in E; left; auto|apply Z.eqb_neq in E; right; split; [lia|reflexivity]]. Qed.

Lemma errclass_pos c e : 0 < e -> errclass c e <> SUCCESS c.
Proof. intros H. apply errclass_fail. lia. Qed.

(* what the stdio calls of the model do to the file, the stream and the buffer - under any fault plan *)
Lemma note_err_content w e : content (note_err w e) = content w.
Proof. unfold note_err. destruct (e =? 0); reflexivity. Qed.

Lemma ftell_content w q s w' r e : g_ftell w q s = (w', r, e) -> content w' = content w.
Proof.
  unfold g_ftell, take. cbn [w_node w_plan w_cnt w_fail w_open w_ledger].
  destruct (w_plan w q FTELL (w_cnt w q FTELL)) as [[e0 sh]|]; [destruct (sh =? NOISE)|]; intros E; inversion E; subst;
    rewrite ?note_err_content; reflexivity.
Qed.

Lemma fseek_eff w q s off w' s' r e : g_fseek w q s off = (w', s', r, e) ->
  content w' = content w /\ ((r = 0 /\ s' = mkS (st_mode s) off /\ 0 <= off) \/ (r = -1 /\ s' = s)).
Proof.
  unfold g_fseek, take. cbn [w_node w_plan w_cnt w_fail w_open w_ledger].
  assert (Hnat : forall ne w1, content w1 = content w ->
            (if off <? 0 then (note_err w1 e_EINVAL, s, -1, e_EINVAL) else (w1, mkS (st_mode s) off, 0, ne)) = (w', s', r, e) ->
            content w' = content w /\ ((r = 0 /\ s' = mkS (st_mode s) off /\ 0 <= off) \/ (r = -1 /\ s' = s))).
  { intros ne w1 Hw1. destruct (off <? 0) eqn:Eo; intros E; inversion E; subst.
    + rewrite note_err_content. split; [exact Hw1|right; auto].
    + split; [exact Hw1|left]. apply Z.ltb_ge in Eo. auto. }
  destruct (w_plan w q FSEEK (w_cnt w q FSEEK)) as [[e0 sh]|]; [destruct (sh =? NOISE)|]; try (apply Hnat; reflexivity).
  intros E; inversion E; subst. rewrite note_err_content. split; [reflexivity|right; auto].
Qed.

(* fwrite reports r elements: exactly the first r elements of the data are in the file, at the stream's write position *)
Lemma fwrite_eff w q s size count data w' s' r e : 0 <= count ->
  g_fwrite w q s size count data = (w', s', r, e) ->
  0 <= r <= count
  /\ ((st_mode s = MRead /\ r = 0 /\ content w' = content w)
      \/ (st_mode s <> MRead
          /\ content w' = put (content w) (wpos s (content w)) (firstn (Z.to_nat (size * r)) data))).
Proof.
  intros Hc. unfold g_fwrite, take. cbn [w_node w_plan w_cnt w_fail w_open w_ledger].
  destruct (st_mode s) eqn:Em.
  - intros E; inversion E; subst. rewrite note_err_content. split; [lia|left; auto].
  - destruct (w_plan w q FWRITE (w_cnt w q FWRITE)) as [[e0 sh]|]; [destruct (sh =? NOISE)|]; intros E; inversion E; subst;
      rewrite note_err_content; (split; [lia|right; split; [congruence|]]); unfold wpos; rewrite Em; reflexivity.
  - destruct (w_plan w q FWRITE (w_cnt w q FWRITE)) as [[e0 sh]|]; [destruct (sh =? NOISE)|]; intros E; inversion E; subst;
      rewrite note_err_content; (split; [lia|right; split; [congruence|]]); unfold wpos; rewrite Em; reflexivity.
Qed.

Lemma firstn_firstn_le {A} (l : list A) n k : (n <= length (firstn k l))%nat -> firstn n (firstn k l) = firstn n l.
Proof. intros H. rewrite firstn_firstn. rewrite firstn_length in H. f_equal. lia. Qed.

(* fread reports r elements: the buffer holds exactly the r whole elements found at the stream position; file unchanged *)
Lemma fread_eff w q s size count w' s' r e buf : 0 <= count -> 0 < size ->
  g_fread w q s size count = (w', s', r, e, buf) ->
  0 <= r <= count /\ content w' = content w
  /\ buf = firstn (Z.to_nat (size * r)) (skipn (Z.to_nat (st_pos s)) (content w)).
Proof.
  intros Hc Hs.
  assert (K : forall m, 0 <= m <= count ->
            let av := firstn (Z.to_nat (size * m)) (skipn (Z.to_nat (st_pos s)) (content w)) in
            0 <= len av / size <= count
            /\ firstn (Z.to_nat (size * (len av / size))) av
               = firstn (Z.to_nat (size * (len av / size))) (skipn (Z.to_nat (st_pos s)) (content w))).
  { intros m Hm av.
    assert (H0 : 0 <= size * m) by nia.
    assert (L : len av <= size * m).
    { unfold av, len. rewrite firstn_length. lia. }
    assert (L0 : 0 <= len av) by apply len_nonneg.
    assert (D : size * (len av / size) <= len av) by (apply Z.mul_div_le; lia).
    split.
    - split; [apply Z.div_pos; lia|]. apply Z.div_le_upper_bound; [lia|nia].
    - set (X := len av / size) in *. unfold av at 1. apply firstn_firstn_le. fold av. unfold len in D. lia. }
  unfold g_fread, take. cbn [w_node w_plan w_cnt w_fail w_open w_ledger].
  destruct (st_mode s) eqn:Em.
  - destruct (w_plan w q FREAD (w_cnt w q FREAD)) as [[e0 sh]|]; [destruct (sh =? NOISE)|]; intros E; inversion E; subst; clear E;
      rewrite note_err_content.
    + destruct (K count ltac:(lia)) as [K1 K2]. split; [exact K1|split; [reflexivity|exact K2]].
    + destruct (K (Z.max 0 (Z.min sh count)) ltac:(lia)) as [K1 K2]. split; [exact K1|split; [reflexivity|exact K2]].
    + destruct (K count ltac:(lia)) as [K1 K2]. split; [exact K1|split; [reflexivity|exact K2]].
  - intros E; inversion E; subst. rewrite note_err_content, Z.mul_0_r. split; [lia|split; reflexivity].
  - intros E; inversion E; subst. rewrite note_err_content, Z.mul_0_r. split; [lia|split; reflexivity].
Qed.

(* what sc_io_read_at / sc_io_write_at report as ocount is what was transferred:
   write: the first ocount elements of the data are in the file at the offset (at the end in mode "ab"), nothing else changed;
   read : the file is unchanged and the buffer holds the ocount whole elements found at the offset *)
Definition at_transferred (wr : bool) (g : gstate) (size : Z) (a : carg) (g' : gstate) (r : rres) : Prop :=
  if wr then
    r_buf r = []
    /\ ((r_ocount r = 0 /\ content (g_w g') = content (g_w g))
        \/ exists m p, g_s0 g = Some (mkS m p) /\ m <> MRead
             /\ content (g_w g') = put (content (g_w g)) (at_pos m (content (g_w g)) (a_off a))
                                       (firstn (Z.to_nat (size * r_ocount r)) (a_data a)))
  else
    content (g_w g') = content (g_w g)
    /\ r_buf r = firstn (Z.to_nat (size * r_ocount r)) (skipn (Z.to_nat (a_off a)) (content (g_w g))).

Lemma at_transferred_none wr g size a g' cls : content (g_w g') = content (g_w g) ->
  at_transferred wr g size a g' (mkR cls 0 []).
Proof.
  intros H. unfold at_transferred. cbn [r_buf r_ocount]. rewrite Z.mul_0_r. destruct wr; [split; [reflexivity|left; auto]|auto].
Qed.

(* the full statement (false before repair 3510a9a, F-C12f): under every fault plan the class is SUCCESS iff no stdio call of
   the operation (ftell, fseek, fread/fwrite, restoring fseek) ended with an error; ocount is what was transferred *)
Lemma at_success_iff cfg wr g q size a g' r : plan_ok (w_plan (g_w g)) -> 0 <= a_count a -> 0 < size ->
  g_at cfg wr g q size a = (g', r) ->
  (r_cls r = SUCCESS cfg <-> w_fail (g_w g') = w_fail (g_w g))
  /\ 0 <= r_ocount r <= a_count a
  /\ at_transferred wr g size a g' r
  /\ w_ledger (g_w g') = w_ledger (g_w g) /\ w_open (g_w g') = w_open (g_w g).
Proof.
  intros Hp Hc Hs. unfold g_at, g_at_with.
  destruct (a_count a =? 0).
  { intros E; inversion E; subst; cbn [r_cls r_ocount]. split; [tauto|]. split; [lia|]. split; [apply at_transferred_none; cbn [g_w]; reflexivity|auto]. }
  destruct (g_s0 g) as [s|] eqn:Es0.
  2:{ intros E; inversion E; subst; cbn [r_cls r_ocount]. split; [tauto|]. split; [lia|]. split; [apply at_transferred_none; cbn [g_w]; reflexivity|auto]. }
  destruct (g_ftell (g_w g) q s) as [[w1 pos] e1] eqn:E1.
  destruct (acct_ftell _ _ _ _ _ _ Hp E1) as ([P1 F1] & R1 & O1 & L1).
  pose proof (ftell_content _ _ _ _ _ _ E1) as C1.
  assert (Hp1 : plan_ok (w_plan w1)) by (rewrite P1; exact Hp).
  destruct (pos =? -1) eqn:Bp.
  { intros E. inversion E; subst; clear E. cbn [g_w r_cls r_ocount].
    split; [|split; [lia|split; [apply at_transferred_none; cbn [g_w]; exact C1|auto]]].
    apply Z.eqb_eq in Bp. destruct R1 as [[Hpos He]|[_ He]].
    - subst e1. rewrite ind_0 in F1. rewrite errclass_0. split; intros; [lia|reflexivity].
    - rewrite (ind_pos _ He) in F1. pose proof (errclass_pos cfg e1 He). split; intros; [congruence|lia]. }
  assert (He1 : e1 = 0).
  { destruct R1 as [[_ H]|[H _]]; [exact H|]. apply Z.eqb_neq in Bp. congruence. }
  subst e1. rewrite ind_0 in F1.
  destruct (g_fseek w1 q s (a_off a)) as [[[w2 s2] r2] e2] eqn:E2.
  destruct (acct_fseek _ _ _ _ _ _ _ _ Hp1 E2) as ([P2 F2] & R2 & O2 & L2).
  destruct (fseek_eff _ _ _ _ _ _ _ _ E2) as [C2 S2].
  assert (Hp2 : plan_ok (w_plan w2)) by (rewrite P2; exact Hp1).
  destruct (r2 =? 0) eqn:B2; cbn [negb].
  2:{ intros E. inversion E; subst; clear E. cbn [g_w r_cls r_ocount].
      split; [|split; [lia|split; [apply at_transferred_none; cbn [g_w]; congruence|split; congruence]]].
      pose proof (ret_errno_fail _ _ R2 B2) as He. rewrite (ind_pos _ He) in F2. pose proof (errclass_pos cfg e2 He).
      split; intros; [congruence|lia]. }
  rewrite (ret_errno_ok _ _ R2 B2), ind_0 in F2.
  assert (S2' : s2 = mkS (st_mode s) (a_off a) /\ 0 <= a_off a).
  { apply Z.eqb_eq in B2. destruct S2 as [[_ H]|[H _]]; [exact H|lia]. }
  destruct S2' as [S2' Hoff]. clear S2. subst s2.
  set (s2 := mkS (st_mode s) (a_off a)) in *.
  destruct (if wr then let '(w', s', oc, e) := g_fwrite w2 q s2 size (a_count a) (a_data a) in (w', s', oc, e, [])
            else g_fread w2 q s2 size (a_count a)) as [[[[w3 s3] oc] e3] buf] eqn:E3.
  assert (A3 : facct w2 w3 (ind e3) /\ 0 <= e3 /\ 0 <= oc /\ w_open w3 = w_open w2 /\ w_ledger w3 = w_ledger w2).
  { destruct wr.
    - destruct (g_fwrite w2 q s2 size (a_count a) (a_data a)) as [[[w' s'] oc'] e'] eqn:Ew. inversion E3; subst.
      exact (acct_fwrite _ _ _ _ _ _ _ _ _ _ Hp2 Hc Ew).
    - exact (acct_fread _ _ _ _ _ _ _ _ _ _ Hp2 Hs E3). }
  destruct A3 as ([P3 F3] & N3 & Noc & O3 & L3).
  assert (Hp3 : plan_ok (w_plan w3)) by (rewrite P3; exact Hp2).
  (* the transfer: bounds of the count, and the count describes what is in the file / in the buffer *)
  assert (T3 : oc <= a_count a /\ forall gx cls, content (g_w gx) = content w3 -> at_transferred wr g size a gx (mkR cls oc buf)).
  { destruct wr.
    - destruct (g_fwrite w2 q s2 size (a_count a) (a_data a)) as [[[w' s'] oc'] e'] eqn:Ew. inversion E3; subst; clear E3.
      destruct (fwrite_eff _ _ _ _ _ _ _ _ _ _ Hc Ew) as [Hb Hw]. split; [lia|].
      intros gx cls Hx. unfold at_transferred. cbn [r_buf r_ocount]. split; [reflexivity|].
      rewrite Hx. destruct Hw as [(_ & Hr & Hcw)|(Hm & Hcw)].
      + left. split; [exact Hr|congruence].
      + right. destruct s as [m p]. exists m, p. cbn [st_mode] in Hm. split; [exact Es0|split; [exact Hm|]].
        rewrite Hcw. rewrite C2, C1. unfold wpos, at_pos. cbn [st_mode st_pos]. reflexivity.
    - destruct (fread_eff _ _ _ _ _ _ _ _ _ _ Hc Hs E3) as (Hb & Hcr & Hbuf). split; [lia|].
      intros gx cls Hx. unfold at_transferred. cbn [r_buf r_ocount]. split; [congruence|].
      rewrite Hbuf. cbn [st_pos]. rewrite C2, C1. reflexivity. }
  destruct T3 as [Toc T3].
  destruct (negb (e3 =? 0) && (oc =? 0)) eqn:B3.
  { intros E. inversion E; subst; clear E. cbn [g_w r_cls r_ocount].
    split; [|split; [lia|split; [apply T3; cbn [g_w]; reflexivity|split; congruence]]].
    apply andb_true_iff in B3. destruct B3 as [B3 _]. apply negb_true_iff, Z.eqb_neq in B3.
    assert (He : 0 < e3) by lia. rewrite (ind_pos _ He) in F3. pose proof (errclass_pos cfg e3 He).
    split; intros; [congruence|lia]. }
  destruct (g_fseek w3 q s3 pos) as [[[w4 s4] r4] e4] eqn:E4.
  destruct (acct_fseek _ _ _ _ _ _ _ _ Hp3 E4) as ([P4 F4] & R4 & O4 & L4).
  destruct (fseek_eff _ _ _ _ _ _ _ _ E4) as [C4 _].
  intros E. inversion E; subst; clear E. cbn [g_w r_cls r_ocount].
  split; [|split; [lia|split; [apply T3; cbn [g_w]; exact C4|split; congruence]]].
  rewrite at_tail_success.
  assert (N4 : 0 <= e4) by (destruct R4 as [[_ H]|[_ H]]; lia).
  destruct (ind_cases e3 N3) as [[He3 I3]|[He3 I3]]; rewrite I3 in F3;
    (destruct (ind_cases e4 N4) as [[He4 I4]|[He4 I4]]; rewrite I4 in F4); split; intros; lia.
Qed.

(* ------------------------------------------------------------------ the configurations agree on consecutive blocks *)
Lemma configs_agree_nf gA gC c flA opA lgA flC opC lgC m p s size args :
  wst (g_w gA) c flA opA lgA -> g_s0 gA = Some (mkS m p) -> m <> MRead -> 0 <= p ->
  wst (g_w gC) c flC opC lgC -> g_s0 gC = Some s -> at_end s c ->
  args <> [] -> Forall (wf_arg size) args -> consec (len c) args ->
  exists gA' gC' rsC,
    g_at_all CfgA true gA 0 size args = (gA', map (fun a => mkR (SUCCESS CfgA) (a_count a) []) args)
    /\ g_coll true gC size args = Some (gC', rsC)
    /\ map r_ocount rsC = map a_count args
    /\ content (g_w gA') = c ++ concat (map a_data args)
    /\ content (g_w gC') = content (g_w gA').
Proof.
  intros WA SA Hm Hp WC SC He Hne Hf Hc.
  destruct (at_all_write_nf CfgA size args gA c flA opA lgA m p 0 WA SA Hm Hp Hf Hc) as (gA' & EA & WA' & _).
  destruct (coll_write_nf gC c flC opC lgC s size args WC SC He Hne Hf) as (gC' & EC & WC' & _).
  exists gA', gC'. eexists. split; [exact EA|split; [exact EC|]].
  rewrite map_map. cbn [r_ocount]. split; [reflexivity|].
  rewrite (wst_content _ _ _ _ _ WA'), (wst_content _ _ _ _ _ WC'). auto.
Qed.

(* ------------------------------------------------------------------ refutations (witnesses evaluated by the kernel) *)
(* F-C12f (repaired by 3510a9a): the OLD tail of sc_io_read_at / sc_io_write_at refutes the statement of at_success_iff *)
Definition plan_partial : plan :=
  fun q f k => if (q =? 0) && (f =? FWRITE) && (k =? 0) then Some (e_ENOSPC, 1) else None.

Lemma plan_partial_ok : plan_ok plan_partial.
Proof.
  intros q f k e s H. unfold plan_partial in H.
  destruct ((q =? 0) && (f =? FWRITE) && (k =? 0)) eqn:E; [|discriminate].
  inversion H; subst. apply andb_true_iff in E. destruct E as [E _]. apply andb_true_iff in E. destruct E as [_ E].
  apply Z.eqb_eq in E. split; [split; [cbv; congruence|]; intros H1; congruence|cbv; congruence].
Qed.

Definition g_partial : gstate := mkG (world0 (File []) plan_partial) (Some (mkS MWrite 0)) true.
Definition a_partial : carg := mkA 0 4 [1; 2; 3; 4].

Lemma at_old_tail_refuted :
  plan_ok (w_plan (g_w g_partial)) /\ 0 <= a_count a_partial
  /\ (exists g' r, g_at_with at_tail_old CfgA true g_partial 0 1 a_partial = (g', r)
                   /\ r_cls r = SUCCESS CfgA /\ r_ocount r = 1 /\ a_count a_partial = 4
                   /\ w_fail (g_w g') = w_fail (g_w g_partial) + 1)
  /\ (exists g' r, g_at CfgA true g_partial 0 1 a_partial = (g', r)
                   /\ r_cls r = errclass CfgA e_ENOSPC /\ r_cls r <> SUCCESS CfgA /\ r_ocount r = 1
                   /\ w_fail (g_w g') = w_fail (g_w g_partial) + 1).
Proof.
  split; [exact plan_partial_ok|]. split; [cbv; congruence|].
  split; eexists; eexists; (split; [vm_compute; reflexivity|]); vm_compute; repeat split; congruence.
Qed.

(* F-C12e: header by sc_io_write_at, then blocks behind it by sc_io_write_at_all *)
Definition ops_header : list op :=
  [OOpen c12_SC_IO_WRITE_CREATE; OAt true 1 (mkA 0 2 [10; 11]);
   OColl true 1 [mkA 2 1 [20]; mkA 3 1 [30]]; OClose].

Lemma coll_offset_refuted :
  (exists g outs, g_scen CfgC 2 (gstate0 Absent (fun _ _ _ => None)) ops_header = Some (g, outs)
                  /\ w_fail (g_w g) = 0 /\ content (g_w g) = [20; 11; 30])
  /\ (exists g outs, g_scen CfgA 2 (gstate0 Absent (fun _ _ _ => None)) ops_header = Some (g, outs)
                     /\ w_fail (g_w g) = 0 /\ content (g_w g) = [10; 11; 20; 30]).
Proof.
  split; eexists; eexists; (split; [vm_compute; reflexivity|]); vm_compute; auto.
Qed.

(* ------------------------------------------------------------------ the hypotheses are satisfiable *)
Definition ex_args : list carg := [mkA 0 2 [1; 2; 3; 4; 5; 6; 7; 8]; mkA 8 0 []; mkA 8 1 [9; 10; 11; 12]].

Lemma ex_args_ok : Forall (wf_arg 4) ex_args /\ consec 0 ex_args /\ ex_args <> [].
Proof.
  split; [|split; [|discriminate]].
  - repeat constructor; cbv; congruence.
  - cbv. auto.
Qed.

(* a collective write in which rank 1 of 3 cannot open the file: every rank reports the class of EACCES *)
Definition plan_rank1 : plan :=
  fun q f k => if (q =? 1) && (f =? FOPEN) && (k =? 0) then Some (e_EACCES, 0) else None.
Lemma plan_rank1_ok : plan_ok plan_rank1.
Proof.
  intros q f k e s H. unfold plan_rank1 in H.
  destruct ((q =? 1) && (f =? FOPEN) && (k =? 0)) eqn:E; [|discriminate].
  inversion H; subst. cbv. split; [split; [congruence|auto]|congruence].
Qed.

Lemma ex_fault_run :
  exists g' rs, g_coll true (mkG (world0 (File []) plan_rank1) (Some (mkS MWrite 0)) true) 4 ex_args = Some (g', rs)
                /\ map r_cls rs = [errclass CfgC e_EACCES; errclass CfgC e_EACCES; errclass CfgC e_EACCES]
                /\ map r_ocount rs = [2; 0; 0] /\ w_fail (g_w g') = 1.
Proof. eexists. eexists. split; [vm_compute; reflexivity|]. vm_compute. auto. Qed.

(* ------------------------------------------------------------------ the errno table by class NAME (index in the fixed list of names
   SUCCESS ARG COUNT UNKNOWN OTHER NO_MEM FILE NOT_SAME AMODE UNSUPPORTED_DATAREP UNSUPPORTED_OPERATION NO_SUCH_FILE FILE_EXISTS
   BAD_FILE ACCESS NO_SPACE QUOTA READ_ONLY FILE_IN_USE DUP_DATAREP CONVERSION IO), the same in both configurations *)
Definition IDX_NO_MEM : Z := 5.        Definition IDX_AMODE : Z := 8.      Definition IDX_NO_SUCH_FILE : Z := 11.
Definition IDX_FILE_EXISTS : Z := 12.  Definition IDX_BAD_FILE : Z := 13.  Definition IDX_ACCESS : Z := 14.
Definition IDX_NO_SPACE : Z := 15.     Definition IDX_IO : Z := 21.        Definition IDX_UNKNOWN : Z := 3.

Lemma errclass_table c :
  class_index c (errclass c e_ENOENT) = IDX_NO_SUCH_FILE /\ class_index c (errclass c e_EEXIST) = IDX_FILE_EXISTS
  /\ class_index c (errclass c e_EACCES) = IDX_ACCESS /\ class_index c (errclass c e_ENOSPC) = IDX_NO_SPACE
  /\ class_index c (errclass c e_ENOMEM) = IDX_NO_MEM /\ class_index c (errclass c e_EIO) = IDX_IO
  /\ class_index c (errclass c e_EISDIR) = IDX_BAD_FILE /\ class_index c (errclass c e_ENAMETOOLONG) = IDX_BAD_FILE
  /\ class_index c (errclass c e_EINVAL) = IDX_AMODE /\ class_index c (errclass c 0) = 0
  /\ class_index c (errclass c 100000) = IDX_UNKNOWN.
Proof. destruct c; vm_compute; repeat split; reflexivity. Qed.

(* ------------------------------------------------------------------ "success with errno noise" at the other call sites
   (findings errno-noise:<site>; the unchanged code reads errno where the return value decides).  Kernel-evaluated witnesses:
   one entry (errno, NOISE) in an otherwise empty plan, no call fails (w_fail = 0). *)
Definition plan_noise (q f k e : Z) : plan := fun q' f' k' => if (q' =? q) && (f' =? f) && (k' =? k) then Some (e, NOISE) else None.
Definition g_noise (pl : plan) (c : list Z) (m : fmode) (p : Z) : gstate := mkG (world0 (File c) pl) (Some (mkS m p)) true.

(* sc_io_write_at / sc_io_read_at: a COMPLETE transfer that leaves errno set is reported with the class of that errno
   (`retval = sc_io_error_class (errno, &errcode)` after fread / fwrite); a successful position-restoring fseek that leaves errno
   set likewise (`sc_io_error_class (errno, ..)` instead of the return value) *)
Lemma noise_at_witness :
  (let '(g', r) := g_at CfgC true (g_noise (plan_noise 0 FWRITE 0 e_EAGAIN) [] MWrite 0) 0 1 (mkA 0 2 [7; 8]) in
   r_cls r = errclass CfgC e_EAGAIN /\ r_cls r <> SUCCESS CfgC /\ r_ocount r = 2 /\ w_fail (g_w g') = 0 /\ content (g_w g') = [7; 8])
  /\ (let '(g', r) := g_at CfgA false (g_noise (plan_noise 0 FREAD 0 e_EINTR) [1; 2; 3] MRead 0) 0 1 (mkA 0 2 []) in
      r_cls r <> SUCCESS CfgA /\ r_ocount r = 2 /\ r_buf r = [1; 2] /\ w_fail (g_w g') = 0)
  /\ (let '(g', r) := g_at CfgC true (g_noise (plan_noise 0 FSEEK 1 e_ESPIPE) [] MWrite 0) 0 1 (mkA 0 2 [7; 8]) in
      r_cls r = errclass CfgC e_ESPIPE /\ r_cls r <> SUCCESS CfgC /\ r_ocount r = 2 /\ w_fail (g_w g') = 0 /\ g_s0 g' = Some (mkS MWrite 0)).
Proof. vm_compute. repeat split; congruence. Qed.

(* sc_io_close: a successful fclose that leaves errno set makes `!retval == (eclass == sc_MPI_SUCCESS)` false: SC_ABORT *)
Lemma noise_close_witness :
  g_close CfgC 2 (g_noise (plan_noise 0 FCLOSE 0 e_EINTR) [1] MWrite 0) = None
  /\ g_close CfgA 1 (g_noise (plan_noise 0 FCLOSE 0 e_EINTR) [1] MWrite 0) = None.
Proof. split; reflexivity. Qed.

(* the token-passing fallback: a complete fwrite that leaves errno set (`errval = errno` after fread / fwrite): every rank
   reports the class of the noise although all data is in the file (finding errno-noise:coll-transfer, stays) *)
Lemma noise_coll_witness :
  let args := [mkA 0 1 [1]; mkA 1 1 [2]; mkA 2 1 [3]] in
  let g pl := mkG (mkW (File []) pl (fun _ _ => 0) 0 1 0) (Some (mkS MWrite 0)) true in
  match g_coll true (g (plan_noise 2 FWRITE 0 e_EAGAIN)) 1 args with
  | Some (g', rs) => map r_cls rs = [errclass CfgC e_EAGAIN; errclass CfgC e_EAGAIN; errclass CfgC e_EAGAIN]
                     /\ errclass CfgC e_EAGAIN <> SUCCESS CfgC
                     /\ map r_ocount rs = [1; 1; 1] /\ w_fail (g_w g') = 0 /\ w_open (g_w g') = 1 /\ content (g_w g') = [1; 2; 3]
  | None => False end.
Proof. vm_compute. repeat split; congruence. Qed.

(* regression guard for the four fopen judgements of the fallback (repaired like F-C12j): the lines BEFORE the repair
   (`g_coll_old`: `errval = errno` after the fopen of a rank > 0, `if (errno != 0) SC_ABORT` at the re-open of rank 0) on a fopen
   that succeeds and leaves errno = ESPIPE (glibc, mode "ab" on a pipe): rank 1's noise makes every rank report its class, rank 1
   transfers nothing and its stream stays open (w_open 1 -> 2); rank 0's noise at the re-open aborts the group.  The current code
   (`g_coll`) on the same inputs: SUCCESS everywhere, all blocks written, one stream open *)
Lemma coll_old_judge_refuted :
  let args := [mkA 0 1 [1]; mkA 1 1 [2]; mkA 2 1 [3]] in
  let g pl := mkG (mkW (File []) pl (fun _ _ => 0) 0 1 0) (Some (mkS MWrite 0)) true in
  (match g_coll_old true (g (plan_noise 1 FOPEN 0 e_ESPIPE)) 1 args with
   | Some (g', rs) => map r_cls rs = [errclass CfgC e_ESPIPE; errclass CfgC e_ESPIPE; errclass CfgC e_ESPIPE]
                      /\ errclass CfgC e_ESPIPE <> SUCCESS CfgC
                      /\ map r_ocount rs = [1; 0; 0] /\ w_fail (g_w g') = 0 /\ w_open (g_w g') = 2 /\ content (g_w g') = [1]
   | None => False end)
  /\ g_coll_old true (g (plan_noise 0 FOPEN 0 e_ESPIPE)) 1 args = None
  /\ (forall q, q = 0 \/ q = 1 ->
      match g_coll true (g (plan_noise q FOPEN 0 e_ESPIPE)) 1 args with
      | Some (g', rs) => map r_cls rs = [SUCCESS CfgC; SUCCESS CfgC; SUCCESS CfgC] /\ map r_ocount rs = [1; 1; 1]
                         /\ w_fail (g_w g') = 0 /\ w_open (g_w g') = 1 /\ content (g_w g') = [1; 2; 3]
      | None => False end).
Proof. split; [|split]; [vm_compute; repeat split; congruence | reflexivity | intros q [-> | ->]; vm_compute; repeat split; reflexivity]. Qed.
