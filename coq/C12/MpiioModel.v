(* C12 - configuration B of the parallel file wrapper: MPI with MPI I/O.  sc_io.c issues MPI I/O calls
   (MPI_File_open / set_size / read_at / read_at_all / write_at / write_at_all / read / write / close, MPI_Get_count) and turns
   their return codes into classes.  Executable definitions only:
     1. an ABSTRACT MPI I/O FILE SEMANTICS (`m_open`, `m_set_size`, `m_close`, `m_write_at`, `m_read_at`): one file = a byte
        array (FileModel.node), one amode per open, injectable error codes (the fault plan of FileModel.world, indexed by rank,
        call kind, call number).  It is the executable specification of the mock MPI I/O library of tools/harness/c12_harness.c
        (-DC12_SIMIO), against which the real sc_io.c runs, and it is what the theorems assume about MPI I/O;
     2. the per-rank programs of the wrapper in this configuration: every MPI I/O call is an action (kinds 20..28, arguments as
        contribution, `[error code; bytes transferred] ++ data` as reply); they are co-simulated against the real code and proved
        equal to the definitions generated from sc_io.c (Gen/OpenC12.v, C12/OpenGen.v);
     3. a global sequential model (`gB_open gB_close gB_at gB_coll gB_scen`) like the one of FileModel.v for A and C.
   `ecl` is MPI_Error_class of the MPI library (sc_io_error_class in this configuration is exactly that call): a parameter;
   the instance used for extraction is the simulated MPI's. *)
From Coq Require Import ZArith List Bool.
From ScV Require Import Base.CInt MPI.Prog Gen.ErrClassC12 Gen.OpenC12 C12.FileModel.
Import ListNotations.
Local Open Scope Z_scope.

(* ------------------------------------------------------------------ access modes *)
(* sc_io_parse_access_mode with MPI I/O (any other amode value aborts: precondition amode in {0,1,2}) *)
Definition amode_bits (a : Z) : Z :=
  if a =? c12_SC_IO_READ then ocB_MPI_MODE_RDONLY
  else if a =? c12_SC_IO_WRITE_CREATE then Z.lor ocB_MPI_MODE_WRONLY ocB_MPI_MODE_CREATE
  else Z.lor ocB_MPI_MODE_WRONLY ocB_MPI_MODE_APPEND.
Definition has (bits flag : Z) : bool := negb (Z.land bits flag =? 0).
Definition can_read (bits : Z) : bool := has bits ocB_MPI_MODE_RDONLY || has bits ocB_MPI_MODE_RDWR.
Definition can_write (bits : Z) : bool := has bits ocB_MPI_MODE_WRONLY || has bits ocB_MPI_MODE_RDWR.
(* MPI-3.1 13.2.1: exactly one of RDONLY / WRONLY / RDWR; CREATE and EXCL not together with RDONLY *)
Definition amode_valid (bits : Z) : bool :=
  let n := (if has bits ocB_MPI_MODE_RDONLY then 1 else 0) + (if has bits ocB_MPI_MODE_WRONLY then 1 else 0)
           + (if has bits ocB_MPI_MODE_RDWR then 1 else 0) in
  (n =? 1) && negb (has bits ocB_MPI_MODE_RDONLY && (has bits ocB_MPI_MODE_CREATE || has bits ocB_MPI_MODE_EXCL)).

(* the fopen mode string (as the number Gen/OpenC12.v uses for a string literal) of an fmode of FileModel.v *)
Definition mode_str (m : fmode) : Z := match m with MRead => oc_str_rb | MWrite => oc_str_wb | MAppend => oc_str_ab end.
(* ... and back to the code the stdio actions of FileModel.v carry (what the check prints for an observed mode string) *)
Definition mode_code_of_str (s : Z) : Z :=
  if s =? oc_str_rb then 0 else if s =? oc_str_wb then 1 else if s =? oc_str_ab then 2 else 9.

(* ------------------------------------------------------------------ 1. abstract MPI I/O file semantics *)
(* call kinds = action kinds = function index of the fault plan *)
Definition K_MOPEN : Z := 20.     Definition K_MSETSIZE : Z := 21.   Definition K_MCLOSE : Z := 22.
Definition K_MREADAT : Z := 23.   Definition K_MWRITEAT : Z := 24.   Definition K_MREADATALL : Z := 25.
Definition K_MWRITEATALL : Z := 26.   Definition K_MREAD : Z := 27.   Definition K_MWRITE : Z := 28.

Definition E_NO_SUCH_FILE : Z := cB_sc_MPI_ERR_NO_SUCH_FILE.   Definition E_BAD_FILE : Z := cB_sc_MPI_ERR_BAD_FILE.
Definition E_FILE_EXISTS : Z := cB_sc_MPI_ERR_FILE_EXISTS.     Definition E_AMODE : Z := cB_sc_MPI_ERR_AMODE.
Definition E_ACCESS : Z := cB_sc_MPI_ERR_ACCESS.               Definition E_READ_ONLY : Z := cB_sc_MPI_ERR_READ_ONLY.

(* MPI_File_open: collective, one outcome for all ranks (decided for rank 0's call number); w_open counts open handles *)
Definition m_open (w : world) (P bits : Z) : world * Z :=
  let '(w1, f) := take w 0 K_MOPEN in
  let bad e := (note_err w1 e, e) in
  match f with
  | Some (e, _) => bad e
  | None =>
    if negb (amode_valid bits) then bad E_AMODE
    else
      match w_node w1 with
      | NoDir => bad E_NO_SUCH_FILE
      | IsDir => bad E_BAD_FILE
      | Absent => if has bits ocB_MPI_MODE_CREATE then (add_open (set_node w1 (File [])) P, 0) else bad E_NO_SUCH_FILE
      | File _ => if has bits ocB_MPI_MODE_CREATE && has bits ocB_MPI_MODE_EXCL then bad E_FILE_EXISTS else (add_open w1 P, 0)
      end
  end.

(* MPI_File_set_size: collective; truncates or extends with zero bytes *)
Definition m_set_size (w : world) (bits size : Z) : world * Z :=
  let '(w1, f) := take w 0 K_MSETSIZE in
  match f with
  | Some (e, _) => (note_err w1 e, e)
  | None =>
    if negb (can_write bits) then (note_err w1 E_READ_ONLY, E_READ_ONLY)
    else let c := content w1 in
         (set_node w1 (File (firstn (Z.to_nat size) c ++ repeat 0 (Z.to_nat (size - len c)))), 0)
  end.

(* MPI_File_close: collective; the handles are gone in either case *)
Definition m_close (w : world) (P : Z) : world * Z :=
  let '(w1, f) := take w 0 K_MCLOSE in
  match f with Some (e, _) => (note_err (add_open w1 (- P)) e, e) | None => (add_open w1 (- P), 0) end.

(* MPI_File_write_at / _at_all by rank q (default file view: offsets in bytes): all or nothing; result (error, bytes written) *)
Definition m_write_at (w : world) (kind q bits off size count : Z) (data : payload) : world * Z * Z :=
  let '(w1, f) := take w q kind in
  match f with
  | Some (e, _) => (note_err w1 e, e, 0)
  | None =>
    if negb (can_write bits) then (note_err w1 E_ACCESS, E_ACCESS, 0)
    else if count <=? 0 then (w1, 0, 0)
    else let d := firstn (Z.to_nat (size * count)) data in
         (set_node w1 (File (put (content w1) off d)), 0, len d)
  end.

(* MPI_File_read_at / _at_all by rank q: the bytes found at the offset, at most size * count; result (error, bytes) *)
Definition m_read_at (w : world) (kind q bits off size count : Z) : world * Z * payload :=
  let '(w1, f) := take w q kind in
  match f with
  | Some (e, _) => (note_err w1 e, e, [])
  | None =>
    if negb (can_read bits) then (note_err w1 E_ACCESS, E_ACCESS, [])
    else (w1, 0, firstn (Z.to_nat (size * count)) (skipn (Z.to_nat off) (content w1)))
  end.

(* MPI_Get_count on the status of a transfer of n bytes, element size s *)
Definition get_count (n s : Z) : Z :=
  if s =? 0 then 0 else if n mod s =? 0 then n / s else ocB_MPI_UNDEFINED.
(* sc_io_read_count (repair d6b0a0c): MPI_UNDEFINED -> bytes / type size *)
Definition read_count (n s : Z) : Z :=
  let c := get_count n s in if c =? ocB_MPI_UNDEFINED then s32 (cdiv n s) else c.

Section WithErrorClass.
Variable ecl : Z -> Z.             (* MPI_Error_class *)

(* ------------------------------------------------------------------ 2. per-rank programs *)
Definition mio (kind : Z) (args : payload) (k : payload -> prog) : prog := Do (Coll kind 0 args) k.
Definition SUCC : Z := ocB_MPI_SUCCESS.

(* sc_io_open: k class (handle is not MPI_FILE_NULL).  `closes` = the code after the repair of F-C12h: when the truncation
   fails the handle is closed again (the result of that MPI_File_close is dropped, the class is the one of MPI_File_set_size);
   `closes = false` is the code before the repair, used by no program and by no theorem except the refutation
   `B_open_setsize_old_witness` (a revert of the repair is a return to it) *)
Definition open_prog_B_with (closes : bool) (amode : Z) (k : Z -> bool -> prog) : prog :=
  mio K_MOPEN [amode_bits amode] (fun r =>
    let mpiret := r0 r in
    let hnd := mpiret =? SUCC in                   (* MPI_File_open leaves MPI_FILE_NULL behind when it fails *)
    if (mpiret =? SUCC) && (amode =? c12_SC_IO_WRITE_CREATE) then
      mio K_MSETSIZE [0] (fun r2 =>
        let cls := ecl (r0 r2) in
        if closes && negb (cls =? SUCC) then mio K_MCLOSE [] (fun _ => k cls false) else k cls hnd)
    else k (ecl mpiret) hnd).
Definition open_prog_B : Z -> (Z -> bool -> prog) -> prog := open_prog_B_with true.

(* sc_io_close *)
Definition close_prog_B (k : Z -> bool -> prog) : prog :=
  mio K_MCLOSE [] (fun r => k (ecl (r0 r)) false).

(* sc_io_read_at / sc_io_read_at_all / sc_io_write_at / sc_io_write_at_all: k class ocount buffer *)
Definition rw_kind (coll wr : bool) : Z :=
  if coll then (if wr then K_MWRITEATALL else K_MREADATALL) else (if wr then K_MWRITEAT else K_MREADAT).
Definition rw_prog_B (coll wr : bool) (off size count : Z) (data : payload) (k : Z -> Z -> payload -> prog) : prog :=
  mio (rw_kind coll wr) (off :: size :: count :: (if wr then data else [])) (fun r =>
    let mpiret := r0 r in let nbytes := r1 r in
    if (mpiret =? SUCC) && (0 <? count) then
      let oc := if wr then get_count nbytes size else read_count nbytes size in
      k SUCC oc (if wr then [] else firstn (Z.to_nat (size * oc)) (rdata r))
    else k (ecl mpiret) 0 []).

(* sc_io_read / sc_io_write (individual file pointer; SC_CHECK_ABORT on any error) *)
Definition seq_prog_B (wr : bool) (size count : Z) (data : payload) (k : payload -> prog) : prog :=
  mio (if wr then K_MWRITE else K_MREAD) (size :: s32 count :: (if wr then data else [])) (fun r =>
    if r0 r =? SUCC then k (rdata r) else abort).
(* the same functions without MPI I/O: SC_ABORT *)
Definition seq_prog_AC : prog := abort.

Definition encB (cls oc : Z) (flag : bool) (buf : payload) : payload :=
  index_of cls cB_classes 0 :: oc :: (if flag then 1 else 0) :: len buf :: buf.

(* state of a rank in a scenario: the harness performs operations only after an open that returned SUCCESS *)
Record hB := mkHB { hb_ok : bool; hb_hnd : bool }.
Definition hB_none : hB := mkHB false false.

Fixpoint scen_prog_B (me : Z) (ops : list op) (h : hB) (acc : payload) : prog :=
  match ops with
  | [] => Ret acc
  | o :: rest =>
    match o with
    | OOpen am => open_prog_B am (fun cls hnd => scen_prog_B me rest (mkHB (cls =? SUCC) hnd) (acc ++ encB cls 0 (negb hnd) []))
    | OClose =>
      if hb_ok h then close_prog_B (fun cls hnd => scen_prog_B me rest (mkHB false hnd) (acc ++ encB cls 0 (negb hnd) []))
      else scen_prog_B me rest h (acc ++ SKIP)
    | OColl wr size args =>
      if hb_ok h then
        let a := arg_of args me in
        rw_prog_B true wr (a_off a) size (a_count a) (a_data a)
                  (fun cls oc buf => scen_prog_B me rest h (acc ++ encB cls oc false buf))
      else scen_prog_B me rest h (acc ++ SKIP)
    | OAt wr size a =>
      if negb (me =? 0) then scen_prog_B me rest h acc
      else if hb_ok h then
        rw_prog_B false wr (a_off a) size (a_count a) (a_data a)
                  (fun cls oc buf => scen_prog_B me rest h (acc ++ encB cls oc false buf))
      else scen_prog_B me rest h (acc ++ SKIP)
    end
  end.

(* ------------------------------------------------------------------ 3. global model *)
(* b_bits: amode of the open handles (all ranks hold one or none); b_ok: the open returned SUCCESS *)
Record gstB := mkGB { b_w : world; b_bits : option Z; b_ok : bool }.

Definition gB_open_with (closes : bool) (P : Z) (g : gstB) (amode : Z) : gstB * list Z :=
  let bits := amode_bits amode in
  let '(w1, e) := m_open (b_w g) P bits in
  if (e =? SUCC) && (amode =? c12_SC_IO_WRITE_CREATE) then
    let '(w2, e2) := m_set_size w1 bits 0 in
    if closes && negb (ecl e2 =? SUCC) then
      let '(w3, _) := m_close w2 P in (mkGB w3 None false, bcast_all P (ecl e2))
    else (mkGB w2 (Some bits) (ecl e2 =? SUCC), bcast_all P (ecl e2))
  else (mkGB w1 (if e =? SUCC then Some bits else None) (ecl e =? SUCC), bcast_all P (ecl e)).
Definition gB_open : Z -> gstB -> Z -> gstB * list Z := gB_open_with true.

Definition gB_close (P : Z) (g : gstB) : gstB * list Z :=
  let '(w1, e) := m_close (b_w g) P in (mkGB w1 None false, bcast_all P (ecl e)).

(* one rank's explicit-offset call (collective or not) on the common file *)
Definition gB_rw (coll wr : bool) (w : world) (bits q size : Z) (a : carg) : world * rres :=
  if wr then
    let '(w1, e, n) := m_write_at w (rw_kind coll wr) q bits (a_off a) size (a_count a) (a_data a) in
    if (e =? SUCC) && (0 <? a_count a) then (w1, mkR SUCC (get_count n size) []) else (w1, mkR (ecl e) 0 [])
  else
    let '(w1, e, d) := m_read_at w (rw_kind coll wr) q bits (a_off a) size (a_count a) in
    if (e =? SUCC) && (0 <? a_count a) then
      let oc := read_count (len d) size in (w1, mkR SUCC oc (firstn (Z.to_nat (size * oc)) d))
    else (w1, mkR (ecl e) 0 []).

(* a collective call: the ranks' transfers take effect in rank order *)
Fixpoint gB_coll (wr : bool) (w : world) (bits q size : Z) (args : list carg) : world * list rres :=
  match args with
  | [] => (w, [])
  | a :: rest => let '(w1, r) := gB_rw true wr w bits q size a in
                 let '(w2, rs) := gB_coll wr w1 bits (q + 1) size rest in (w2, r :: rs)
  end.

Definition encB_r (r : rres) : payload := encB (r_cls r) (r_ocount r) false (r_buf r).
Definition bits_of (g : gstB) : Z := match b_bits g with Some b => b | None => 0 end.

Fixpoint gB_scen (P : Z) (g : gstB) (ops : list op) : gstB * list (list payload) :=
  match ops with
  | [] => (g, [])
  | o :: rest =>
    let continue (g1 : gstB) (out : list payload) := let '(g2, outs) := gB_scen P g1 rest in (g2, out :: outs) in
    match o with
    | OOpen am =>
      let '(g1, cls) := gB_open P g am in
      continue g1 (map (fun cl => encB cl 0 (match b_bits g1 with Some _ => false | None => true end) []) cls)
    | OClose =>
      if b_ok g then let '(g1, cls) := gB_close P g in continue g1 (map (fun cl => encB cl 0 true []) cls)
      else continue g (map (fun _ => SKIP) (ranks P))
    | OColl wr size args =>
      if b_ok g then let '(w1, rs) := gB_coll wr (b_w g) (bits_of g) 0 size args in
                     continue (mkGB w1 (b_bits g) (b_ok g)) (map encB_r rs)
      else continue g (map (fun _ => SKIP) (ranks P))
    | OAt wr size a =>
      if b_ok g then let '(w1, r) := gB_rw false wr (b_w g) (bits_of g) 0 size a in
                     continue (mkGB w1 (b_bits g) (b_ok g)) [encB_r r]
      else continue g [SKIP]
    end
  end.

Definition gstB0 (n : node) (pl : plan) : gstB := mkGB (world0 n pl) None false.

End WithErrorClass.

(* MPI_Error_class of the simulated MPI (tools/simmpi/simmpi.c): codes 0 .. MPI_ERR_RMA_RANGE are their own class *)
Definition errclassB (e : Z) : Z := snd (sim_MPI_Error_class 1 e 0).

(* ------------------------------------------------------------------ observation of a program *)
(* the actions a program performs when it is given these replies, and what it returns (None: replies exhausted) *)
Fixpoint obs (p : prog) (rs : list payload) : list act * option payload :=
  match p with
  | Ret o => ([], Some o)
  | Do a k => match rs with
              | [] => ([a], None)
              | r :: rs' => let '(l, o) := obs (k r) rs' in (a :: l, o)
              end
  end.
