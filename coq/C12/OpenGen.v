(* C12, tie T1: the per-rank programs of the models (FileModel.v for the configurations A and C, MpiioModel.v for B) perform
   exactly the calls, with exactly the arguments and on exactly the conditions, of the definitions that tools/c2g generates from
   the CURRENT src/sc_io.c (Gen/OpenC12.v): sc_io_parse_access_mode, sc_io_open, sc_io_close, sc_io_read, sc_io_write,
   sc_io_read_count and the MPI I/O branches of the four explicit-offset functions.
   Shape of the statements: the generated definition is applied to the values the environment delivers (what fopen / MPI_Bcast /
   MPI_File_open .. return or store, `sc_io_error_class` = the model's class function); `obs` runs the MODEL program on the
   corresponding replies; the list of actions and the result must be the ones read off the generated outputs
   (<callee>_called, <callee>_arg<i>, the returned value, the handle left behind, allocations minus frees). *)
From Coq Require Import ZArith List Bool Lia.
From ScV Require Import Base.CInt MPI.Prog Gen.ErrClassC12 Gen.OpenC12 C12.FileModel C12.MpiioModel.
Import ListNotations.
Local Open Scope Z_scope.

Definition valid_amode (a : Z) : Prop := a = c12_SC_IO_READ \/ a = c12_SC_IO_WRITE_CREATE \/ a = c12_SC_IO_WRITE_APPEND.

(* ------------------------------------------------------------------ sc_io_parse_access_mode *)
Lemma gen_parse_A : forall a m, valid_amode a -> sc_io_parse_access_mode_A a m = (1, mode_str (mode_of_amode a)).
Proof. intros a m [-> | [-> | ->]]; reflexivity. Qed.
Lemma gen_parse_C : forall a m, valid_amode a -> sc_io_parse_access_mode_C a m = (1, mode_str (mode_of_amode a)).
Proof. intros a m [-> | [-> | ->]]; reflexivity. Qed.
Lemma gen_parse_B : forall a m, valid_amode a -> sc_io_parse_access_mode_B a m = (1, amode_bits a).
Proof. intros a m [-> | [-> | ->]]; reflexivity. Qed.
(* every other value of the enumeration's range ends in SC_ABORT (ok = 0) in all three configurations *)
Lemma gen_parse_invalid : forall a m, ~ valid_amode a ->
  fst (sc_io_parse_access_mode_A a m) = 0 /\ fst (sc_io_parse_access_mode_C a m) = 0 /\ fst (sc_io_parse_access_mode_B a m) = 0.
Proof.
  intros a m H. unfold valid_amode in H.
  unfold sc_io_parse_access_mode_A, sc_io_parse_access_mode_C, sc_io_parse_access_mode_B.
  change (u32 ocA_SC_IO_READ) with 0. change (u32 ocA_SC_IO_WRITE_CREATE) with 1. change (u32 ocA_SC_IO_WRITE_APPEND) with 2.
  change (u32 ocC_SC_IO_READ) with 0. change (u32 ocC_SC_IO_WRITE_CREATE) with 1. change (u32 ocC_SC_IO_WRITE_APPEND) with 2.
  change (u32 ocB_SC_IO_READ) with 0. change (u32 ocB_SC_IO_WRITE_CREATE) with 1. change (u32 ocB_SC_IO_WRITE_APPEND) with 2.
  change c12_SC_IO_READ with 0 in H. change c12_SC_IO_WRITE_CREATE with 1 in H. change c12_SC_IO_WRITE_APPEND with 2 in H.
  destruct (a =? 0) eqn:E0; [apply Z.eqb_eq in E0; tauto|].
  destruct (a =? 1) eqn:E1; [apply Z.eqb_eq in E1; tauto|].
  destruct (a =? 2) eqn:E2; [apply Z.eqb_eq in E2; tauto|].
  cbn. auto.
Qed.
(* the string codes are pairwise different: the check's decoding of an observed mode string is injective on them *)
Lemma mode_code_of_str_ok : forall m, mode_code_of_str (mode_str m) = mode_code m.
Proof. destruct m; reflexivity. Qed.
(* the modes with which the token-passing fallback opens the file: in a rank's turn, and rank 0's re-open *)
Lemma gen_fallback_modes :
  oc_fallback_modes_read = [mode_str MRead; mode_str MRead] /\ oc_fallback_modes_write = [mode_str MAppend; mode_str MAppend].
Proof. split; reflexivity. Qed.

(* ------------------------------------------------------------------ sc_io_open without MPI I/O *)
(* what a caller sees of sc_io_open: class, allocations still held (1 = the context), FILE* of the context non-NULL *)
Definition kfin (cls : Z) (h : hnd) : prog := Ret [cls; b2z (h_ctx h); b2z (h_file h)].
Definition nz (x : Z) : bool := negb (x =? 0).

Lemma errclass_A_cases : forall e, errclass CfgA e =? SUCCESS CfgA = (errclass CfgA e =? ocA_SC3_MPI_SUCCESS).
Proof. reflexivity. Qed.

Lemma ok4 : forall a b c d : Z,
  b2z (z2b (b2z (z2b (b2z (z2b (b2z (a =? 0)) && (b =? 0))) && (c =? 0))) && (d =? 0)) = 1 <-> a = 0 /\ b = 0 /\ c = 0 /\ d = 0.
Proof.
  intros a b c d. destruct (a =? 0) eqn:Ea, (b =? 0) eqn:Eb, (c =? 0) eqn:Ec, (d =? 0) eqn:Ed; cbn;
    rewrite ?Z.eqb_eq, ?Z.eqb_neq in *; split; intros; try lia; try discriminate; intuition congruence.
Qed.
Ltac conj := repeat match goal with |- _ /\ _ => split end.

(* configuration C: rank `me` (the value MPI_Comm_rank stores), fopen returns fo_ret and leaves errno = fo_errno - ANY value,
   also when fopen succeeded -, the broadcast delivers bc_out (on the root: its own value = `open_judge`: errno only if the
   stream is NULL; repair of F-C12j), sc_io_error_class = errclass CfgC *)
Lemma gen_open_C : forall me amode comm fname info fileptr szof mret size_out size_ret rank_ret errno0 fo_errno fo_ret bc_out bc_ret ec_ret,
  valid_amode amode -> (me = 0 -> bc_out = open_judge (nz fo_ret) fo_errno) ->
  let '(pm_called, pm_arg0, malloc_called, malloc_arg1, csize_called, csize_arg0, crank_called, crank_arg0, fopen_called,
        fopen_arg0, fopen_arg1, bc_called, bc_in0, bc_arg1, bc_arg2, bc_root, bc_comm, ec_called, ec_arg0, free_called, free_arg1,
        ok, hdl, file, ret) :=
    sc_io_open_C comm fname amode info fileptr (snd (sc_io_parse_access_mode_C amode 0)) szof mret size_out size_ret me rank_ret
                 errno0 fo_errno fo_ret bc_out bc_ret (errclass CfgC bc_out) ec_ret in
  obs (open_prog CfgC me amode kfin) ((if me =? 0 then [[b2z (nz fo_ret); fo_errno]] else []) ++ [[bc_out]])
  = ((if fopen_called =? 1 then [Coll K_FOPEN 0 [mode_code_of_str fopen_arg1]] else [])
       ++ (if bc_called =? 1 then [Coll K_BCAST bc_root (if me =? bc_root then [bc_in0] else [])] else []),
     Some [ret; malloc_called - free_called; if free_called =? 1 then 0 else b2z (nz file)])
  /\ pm_called = 1 /\ pm_arg0 = amode /\ ec_called = 1 /\ ec_arg0 = bc_out /\ bc_arg1 = 1 /\ bc_comm = comm /\ fopen_arg0 = (if me =? 0 then fname else 0)
  /\ (free_called = 1 -> free_arg1 = mret /\ hdl = 0) /\ (free_called = 0 -> hdl = mret)
  /\ (ok = 1 <-> size_ret = 0 /\ rank_ret = 0 /\ bc_ret = 0 /\ ec_ret = 0).
Proof.
  intros me amode comm fname info fileptr szof mret size_out size_ret rank_ret errno0 fo_errno fo_ret bc_out bc_ret ec_ret Hv Hroot.
  rewrite (gen_parse_C amode 0 Hv). cbn [snd].
  unfold sc_io_open_C, open_prog, bcast, io, is_mpi.
  assert (Hs : SUCCESS CfgC = 0) by reflexivity. rewrite Hs.
  destruct (me =? 0) eqn:Eme.
  - apply Z.eqb_eq in Eme. specialize (Hroot Eme). subst bc_out. subst me.
    change (r1 [b2z (nz fo_ret); fo_errno]) with fo_errno.
    change (r0 [b2z (nz fo_ret); fo_errno]) with (b2z (nz fo_ret)).
    unfold nz, open_judge. destruct (fo_ret =? 0) eqn:Ef; cbn [negb b2z Z.eqb];
      [|change (errclass CfgC 0) with 0];
      try (destruct (errclass CfgC fo_errno =? 0) eqn:Ec);
      cbn -[errclass mode_code mode_code_of_str mode_str mode_of_amode]; rewrite ?Ec;
      cbn -[errclass mode_code mode_code_of_str mode_str mode_of_amode]; rewrite mode_code_of_str_ok;
      (conj; try reflexivity; try apply ok4; try discriminate; auto); rewrite ?Ef; reflexivity.
  - change (hd 0 [bc_out]) with bc_out.
    destruct (errclass CfgC bc_out =? 0) eqn:Ec;
      cbn -[errclass mode_code mode_code_of_str mode_str mode_of_amode]; rewrite ?Eme, ?Ec;
      cbn -[errclass mode_code mode_code_of_str mode_str mode_of_amode];
      (conj; try reflexivity; try apply ok4; try discriminate; auto).
Qed.

(* configuration A: one process; libsc's serial sc_MPI_Comm_rank stores 0 and its sc_MPI_Bcast leaves the buffer alone
   (bc_out = the value put in), so the model has no broadcast action *)
Lemma gen_open_A : forall amode comm fname info fileptr szof mret size_out size_ret rank_ret errno0 fo_errno fo_ret bc_ret ec_ret,
  valid_amode amode ->
  let '(pm_called, pm_arg0, malloc_called, malloc_arg1, csize_called, csize_arg0, crank_called, crank_arg0, fopen_called,
        fopen_arg0, fopen_arg1, bc_called, bc_in0, bc_arg1, bc_arg2, bc_root, bc_comm, ec_called, ec_arg0, free_called, free_arg1,
        ok, hdl, file, ret) :=
    sc_io_open_A comm fname amode info fileptr (snd (sc_io_parse_access_mode_A amode 0)) szof mret size_out size_ret 0 rank_ret
                 errno0 fo_errno fo_ret (open_judge (nz fo_ret) fo_errno) bc_ret (errclass CfgA (open_judge (nz fo_ret) fo_errno)) ec_ret in
  obs (open_prog CfgA 0 amode kfin) [[b2z (nz fo_ret); fo_errno]]
  = ((if fopen_called =? 1 then [Coll K_FOPEN 0 [mode_code_of_str fopen_arg1]] else []),
     Some [ret; malloc_called - free_called; if free_called =? 1 then 0 else b2z (nz file)])
  /\ bc_in0 = open_judge (nz fo_ret) fo_errno /\ pm_called = 1 /\ pm_arg0 = amode /\ ec_called = 1
  /\ ec_arg0 = open_judge (nz fo_ret) fo_errno /\ fopen_arg0 = fname
  /\ (free_called = 1 -> free_arg1 = mret /\ hdl = 0) /\ (free_called = 0 -> hdl = mret)
  /\ (ok = 1 <-> size_ret = 0 /\ rank_ret = 0 /\ bc_ret = 0 /\ ec_ret = 0).
Proof.
  intros amode comm fname info fileptr szof mret size_out size_ret rank_ret errno0 fo_errno fo_ret bc_ret ec_ret Hv.
  rewrite (gen_parse_A amode 0 Hv). cbn [snd].
  unfold sc_io_open_A, open_prog, bcast, io, is_mpi.
  assert (Hs : SUCCESS CfgA = 0) by reflexivity. rewrite Hs.
  change ocA_SC3_MPI_SUCCESS with 0.
  change (r1 [b2z (nz fo_ret); fo_errno]) with fo_errno.
  change (r0 [b2z (nz fo_ret); fo_errno]) with (b2z (nz fo_ret)).
  unfold nz, open_judge. destruct (fo_ret =? 0) eqn:Ef; cbn [negb b2z Z.eqb];
    [|change (errclass CfgA 0) with 0];
    try (destruct (errclass CfgA fo_errno =? 0) eqn:Ec);
    cbn -[errclass mode_code mode_code_of_str mode_str mode_of_amode]; rewrite ?Ec;
    cbn -[errclass mode_code mode_code_of_str mode_str mode_of_amode]; rewrite mode_code_of_str_ok;
    (conj; try reflexivity; try apply ok4; try discriminate; auto); rewrite ?Ef; reflexivity.
Qed.

(* ------------------------------------------------------------------ sc_io_close without MPI I/O *)
(* the context holds a FILE* (file <> 0) on rank 0 only; fclose returns fc_ret and leaves errno = fc_errno *)
Lemma ok3 : forall (x : bool) (a b : Z),
  b2z (z2b (b2z (z2b (b2z (a =? 0)) && x)) && (b =? 0)) = 1 <-> a = 0 /\ x = true /\ b = 0.
Proof.
  intros x a b. destruct (a =? 0) eqn:Ea, x, (b =? 0) eqn:Eb; cbn;
    rewrite ?Z.eqb_eq, ?Z.eqb_neq in *; split; intros; try lia; try discriminate; intuition congruence.
Qed.

Lemma gen_close_C : forall me fileptr file errno0 fc_errno fc_ret ec_ret comm bc_out bc_ret hdl0,
  (me = 0 -> bc_out = (if nz file then errclass CfgC fc_errno else 0)) -> (nz file = true -> me = 0) ->
  let '(fclose_called, fclose_arg0, ec_called, ec_arg0, bc_called, bc_in0, bc_arg1, bc_arg2, bc_root, bc_comm, free_called,
        free_arg1, ok, hdl, ret) :=
    sc_io_close_C fileptr file errno0 fc_errno fc_ret (errclass CfgC fc_errno) ec_ret comm bc_out bc_ret hdl0 in
  (ok = 1 ->
   obs (close_prog CfgC me (mkH true (nz file)) kfin) ((if nz file then [[fc_ret; fc_errno]] else []) ++ [[bc_out]])
   = ((if fclose_called =? 1 then [Coll K_FCLOSE 0 []] else [])
        ++ (if bc_called =? 1 then [Coll K_BCAST bc_root (if me =? bc_root then [bc_in0] else [])] else []),
      Some [ret; 1 - free_called; 0]))
  /\ (ok = 0 -> nz file = true ->
      obs (close_prog CfgC me (mkH true (nz file)) kfin) [[fc_ret; fc_errno]] = ([Coll K_FCLOSE 0 []], Some [ABORT_MARK])
      \/ ec_ret <> 0 \/ bc_ret <> 0)
  /\ free_called = 1 /\ free_arg1 = hdl0 /\ hdl = 0 /\ bc_comm = comm /\ fclose_arg0 = (if nz file then file else 0)
  /\ ec_arg0 = (if nz file then fc_errno else 0).
Proof.
  intros me fileptr file errno0 fc_errno fc_ret ec_ret comm bc_out bc_ret hdl0 Hroot Hfile.
  unfold sc_io_close_C, close_prog, bcast, io, is_mpi, nz in *.
  assert (Hs : SUCCESS CfgC = 0) by reflexivity. rewrite Hs.
  destruct (file =? 0) eqn:Ef; cbn [negb] in *.
  - (* no stream: eclass = SUCCESS *)
    cbn -[errclass]. conj; auto; try discriminate.
    intros _. destruct (me =? 0) eqn:Em; [apply Z.eqb_eq in Em; rewrite (Hroot Em)|]; reflexivity.
  - specialize (Hfile eq_refl). subst me. specialize (Hroot eq_refl). subst bc_out.
    change (r0 [fc_ret; fc_errno]) with fc_ret. change (r1 [fc_ret; fc_errno]) with fc_errno.
    cbn -[errclass Bool.eqb].
    assert (Heq : (b2z (negb (z2b fc_ret)) =? b2z (errclass CfgC fc_errno =? 0)) = Bool.eqb (fc_ret =? 0) (errclass CfgC fc_errno =? 0)).
    { unfold z2b. destruct (fc_ret =? 0), (errclass CfgC fc_errno =? 0); reflexivity. }
    rewrite Heq.
    destruct (Bool.eqb (fc_ret =? 0) (errclass CfgC fc_errno =? 0)) eqn:Eb; cbn -[errclass]; conj; auto.
    + intros H _. right. destruct (ec_ret =? 0) eqn:E1, (bc_ret =? 0) eqn:E2; cbn in H; try discriminate;
        rewrite ?Z.eqb_neq in *; auto.
    + intros H. exfalso. destruct (ec_ret =? 0), (bc_ret =? 0); cbn in H; discriminate.
Qed.

Lemma gen_close_A : forall fileptr file errno0 fc_errno fc_ret ec_ret comm bc_ret hdl0,
  let '(fclose_called, fclose_arg0, ec_called, ec_arg0, bc_called, bc_in0, bc_arg1, bc_arg2, bc_root, bc_comm, free_called,
        free_arg1, ok, hdl, ret) :=
    sc_io_close_A fileptr file errno0 fc_errno fc_ret (errclass CfgA fc_errno) ec_ret comm
                  (if nz file then errclass CfgA fc_errno else 0) bc_ret hdl0 in
  (ok = 1 ->
   obs (close_prog CfgA 0 (mkH true (nz file)) kfin) (if nz file then [[fc_ret; fc_errno]] else [])
   = ((if fclose_called =? 1 then [Coll K_FCLOSE 0 []] else []), Some [ret; 1 - free_called; 0]))
  /\ (ok = 0 -> nz file = true ->
      obs (close_prog CfgA 0 (mkH true (nz file)) kfin) [[fc_ret; fc_errno]] = ([Coll K_FCLOSE 0 []], Some [ABORT_MARK])
      \/ ec_ret <> 0 \/ bc_ret <> 0)
  /\ bc_in0 = (if nz file then errclass CfgA fc_errno else 0)
  /\ free_called = 1 /\ free_arg1 = hdl0 /\ hdl = 0 /\ fclose_arg0 = (if nz file then file else 0)
  /\ ec_arg0 = (if nz file then fc_errno else 0).
Proof.
  intros fileptr file errno0 fc_errno fc_ret ec_ret comm bc_ret hdl0.
  unfold sc_io_close_A, close_prog, bcast, io, is_mpi, nz in *.
  assert (Hs : SUCCESS CfgA = 0) by reflexivity. rewrite Hs. change ocA_SC3_MPI_SUCCESS with 0.
  destruct (file =? 0) eqn:Ef; cbn [negb] in *.
  - cbn -[errclass]. conj; auto; try discriminate.
  - change (r0 [fc_ret; fc_errno]) with fc_ret. change (r1 [fc_ret; fc_errno]) with fc_errno.
    cbn -[errclass Bool.eqb].
    assert (Heq : (b2z (negb (z2b fc_ret)) =? b2z (errclass CfgA fc_errno =? 0)) = Bool.eqb (fc_ret =? 0) (errclass CfgA fc_errno =? 0)).
    { unfold z2b. destruct (fc_ret =? 0), (errclass CfgA fc_errno =? 0); reflexivity. }
    rewrite Heq.
    destruct (Bool.eqb (fc_ret =? 0) (errclass CfgA fc_errno =? 0)) eqn:Eb; cbn -[errclass]; conj; auto.
    + intros H _. right. destruct (ec_ret =? 0) eqn:E1, (bc_ret =? 0) eqn:E2; cbn in H; try discriminate;
        rewrite ?Z.eqb_neq in *; auto.
    + intros H. exfalso. destruct (ec_ret =? 0), (bc_ret =? 0); cbn in H; discriminate.
Qed.

(* ------------------------------------------------------------------ sc_io_read / sc_io_write *)
(* without MPI I/O both are SC_ABORT; with MPI I/O one MPI_File_read / MPI_File_write and SC_CHECK_ABORT on its result *)
Lemma gen_seq_AC : forall f p z t m,
  sc_io_read_A f p z t m = 0 /\ sc_io_read_C f p z t m = 0 /\ sc_io_write_A f p z t m = 0 /\ sc_io_write_C f p z t m = 0
  /\ obs seq_prog_AC [] = ([], Some [ABORT_MARK]).
Proof. intros. repeat split; reflexivity. Qed.

Definition kdata (d : payload) : prog := Ret (0 :: d).
Lemma gen_seq_B : forall (wr : bool) f p z t m st mret size data rd,
  let '(called, a_file, a_buf, a_count, a_type, ok) :=
    if wr then sc_io_write_B f p z t m st mret else sc_io_read_B f p z t m st mret in
  obs (seq_prog_B wr size z data kdata) [mret :: 0 :: rd]
  = ((if called =? 1 then [Coll (if wr then K_MWRITE else K_MREAD) 0 (size :: a_count :: (if wr then data else []))] else []),
     Some (if ok =? 1 then 0 :: rd else [ABORT_MARK]))
  /\ a_file = f /\ a_buf = p /\ a_type = t.
Proof.
  intros wr f p z t m st mret size data rd.
  destruct wr; unfold sc_io_write_B, sc_io_read_B, seq_prog_B, mio, SUCC; cbn -[s32];
    change (r0 (mret :: 0 :: rd)) with mret; change ocB_MPI_SUCCESS with 0;
    destruct (mret =? 0); cbn -[s32]; repeat split; reflexivity.
Qed.

(* ------------------------------------------------------------------ configuration B: open, close *)
Definition kfinB (cls : Z) (h : bool) : prog := Ret [cls; b2z h].

(* MPI_File_open returns o_ret and stores the handle fh (contract: MPI_FILE_NULL exactly when it fails); MPI_File_set_size
   returns s_ret; the MPI_File_close of the failed-truncation branch returns c_ret (dropped by the code) and stores
   MPI_FILE_NULL (0); sc_io_error_class = MPI_Error_class = ecl *)
Lemma gen_open_B : forall ecl amode comm fname info fileptr fh o_ret ec_ret s_ret ec2_ret c_ret,
  valid_amode amode -> (nz fh = (o_ret =? 0)) ->
  let '(pm_called, pm_arg0, mo_called, mo_comm, mo_name, mo_amode, mo_info, ec_called, ec_arg0, ss_called, ss_file, ss_size,
        ec2_called, ec2_arg0, mc_called, ok, hdl, ret) :=
    sc_io_open_B comm fname amode info fileptr (snd (sc_io_parse_access_mode_B amode 0)) fh o_ret (ecl o_ret) ec_ret s_ret
                 (ecl s_ret) ec2_ret 0 in
  obs (open_prog_B ecl amode kfinB) [[o_ret]; [s_ret]; [c_ret]]
  = ((if mo_called =? 1 then [Coll K_MOPEN 0 [mo_amode]] else []) ++ (if ss_called =? 1 then [Coll K_MSETSIZE 0 [ss_size]] else [])
       ++ (if mc_called =? 1 then [Coll K_MCLOSE 0 []] else []),
     Some [ret; b2z (nz hdl)])
  /\ pm_called = 1 /\ pm_arg0 = amode /\ mo_comm = comm /\ mo_name = fname /\ mo_info = info /\ ec_called = 1 /\ ec_arg0 = o_ret
  /\ (ss_called = 1 -> ss_file = fh /\ ec2_called = 1 /\ ec2_arg0 = s_ret /\ ret = ecl s_ret)
  /\ (mc_called = 1 <-> ss_called = 1 /\ ecl s_ret <> 0) /\ hdl = (if mc_called =? 1 then 0 else fh)
  /\ (ok = 1 <-> ec_ret = 0 /\ (ss_called = 1 -> ec2_ret = 0)).
Proof.
  intros ecl amode comm fname info fileptr fh o_ret ec_ret s_ret ec2_ret c_ret Hv Hfh.
  rewrite (gen_parse_B amode 0 Hv). cbn [snd].
  unfold sc_io_open_B, open_prog_B, open_prog_B_with, mio, SUCC. change ocB_MPI_SUCCESS with 0.
  cbn [obs]. change (r0 [o_ret]) with o_ret.
  (* by cases on the three access modes, on the outcome of MPI_File_open and on the class of MPI_File_set_size;
     whatever syntactic form the tests have *)
  destruct Hv as [-> | [-> | ->]]; destruct (o_ret =? 0) eqn:Eo; cbn -[nz];
    change (r0 [s_ret]) with s_ret; destruct (ecl s_ret =? 0) eqn:Es; cbn -[nz]; rewrite ?Hfh; cbn;
    (conj; auto; try discriminate);
    try (split; [intros H; discriminate H | intros [H1 H2]; try discriminate H1; apply Z.eqb_eq in Es; contradiction]);
    try (split; [intros _; split; [reflexivity | apply Z.eqb_neq; exact Es] | reflexivity]);
    destruct (ec_ret =? 0) eqn:E1, (ec2_ret =? 0) eqn:E2; cbn; rewrite ?Z.eqb_eq, ?Z.eqb_neq in *;
      split; intros; try discriminate; intuition congruence.
Qed.

Lemma gen_close_B : forall ecl fileptr fh_after c_ret ec_ret,
  let '(mc_called, ec_called, ec_arg0, ok, hdl, ret) := sc_io_close_B fileptr fh_after c_ret (ecl c_ret) ec_ret in
  obs (close_prog_B ecl kfinB) [[c_ret]] = ((if mc_called =? 1 then [Coll K_MCLOSE 0 []] else []), Some [ret; 0])
  /\ ec_called = 1 /\ ec_arg0 = c_ret /\ hdl = fh_after /\ (ok = 1 <-> ec_ret = 0).
Proof.
  intros. unfold sc_io_close_B, close_prog_B, mio. cbn. change (r0 [c_ret]) with c_ret. conj; auto.
  destruct (ec_ret =? 0) eqn:E; cbn; rewrite ?Z.eqb_eq, ?Z.eqb_neq in *; split; intros; try discriminate; congruence.
Qed.

(* ------------------------------------------------------------------ configuration B: transfers *)
(* sc_io_read_count: MPI_Get_count in elements, and when that is MPI_UNDEFINED the byte count divided by the type size
   (n = bytes the status records, s = MPI_Type_size of the type) *)
Lemma gen_read_count_B : forall st t oc gc_ret gc2_ret ts_ret n s,
  let '(gc_called, gc_st, gc_t, gc2_called, gc2_st, gc2_t, ts_called, ts_t, ok, ocd) :=
    sc_io_read_count_B st t oc (get_count n s) gc_ret n gc2_ret s ts_ret in
  ocd = read_count n s /\ gc_called = 1 /\ gc_st = st /\ gc_t = t
  /\ (gc2_called = 1 <-> get_count n s = ocB_MPI_UNDEFINED) /\ (gc2_called = 1 -> gc2_st = st /\ ts_called = 1 /\ ts_t = t).
Proof.
  intros. unfold sc_io_read_count_B, read_count. change ocB_MPI_UNDEFINED with (-32766).
  destruct (get_count n s =? -32766) eqn:E; cbn -[get_count s32 cdiv]; conj; auto; try discriminate;
    rewrite ?Z.eqb_eq, ?Z.eqb_neq in *; split; intros; try discriminate; try reflexivity; congruence.
Qed.

Definition k3 (cls oc : Z) (buf : payload) : prog := Ret (cls :: oc :: buf).

(* the MPI I/O call returns mret and reports nbytes transferred bytes (reads: the bytes rd arrive in the buffer);
   `count_out` is what sc_io_read_count / MPI_Get_count stores into *ocount *)
Lemma gen_read_at_B : forall ecl f off p count t ocp st mret rc_st ec_ret size nbytes rd,
  let '(called, a_file, a_off, a_buf, a_count, a_type, rc_called, rc_t, ec_called, ec_arg0, ok, ocd, ret) :=
    sc_io_read_at_B f off p count t ocp st mret rc_st (read_count nbytes size) (ecl mret) ec_ret in
  obs (rw_prog_B ecl false false off size count [] k3) [mret :: nbytes :: rd]
  = ((if called =? 1 then [Coll K_MREADAT 0 [a_off; size; a_count]] else []),
     Some (ret :: ocd :: (if rc_called =? 1 then firstn (Z.to_nat (size * ocd)) rd else [])))
  /\ a_file = f /\ a_buf = p /\ a_type = t /\ (rc_called = 1 -> rc_t = t) /\ (rc_called = 0 -> ec_called = 1 /\ ec_arg0 = mret)
  /\ (ok = 1 <-> (rc_called = 0 -> ec_ret = 0)).
Proof.
  intros. unfold sc_io_read_at_B, rw_prog_B, mio, SUCC, rw_kind. change ocB_MPI_SUCCESS with 0.
  cbn [obs]. change (r0 (mret :: nbytes :: rd)) with mret. change (r1 (mret :: nbytes :: rd)) with nbytes.
  change (rdata (mret :: nbytes :: rd)) with rd.
  destruct ((mret =? 0) && (0 <? count)) eqn:E; cbn -[read_count firstn Z.mul Z.to_nat]; conj; auto; try discriminate.
  - split; auto. intros _ H; discriminate.
  - destruct (ec_ret =? 0) eqn:E1; cbn; rewrite ?Z.eqb_eq, ?Z.eqb_neq in *; split; intros; try discriminate; auto.
    exfalso; auto.
Qed.

Lemma gen_read_at_all_B : forall ecl f off p count t ocp st mret rc_st ec_ret size nbytes rd,
  let '(called, a_file, a_off, a_buf, a_count, a_type, rc_called, rc_t, ec_called, ec_arg0, ok, ocd, ret) :=
    sc_io_read_at_all_B f off p count t ocp st mret rc_st (read_count nbytes size) (ecl mret) ec_ret in
  obs (rw_prog_B ecl true false off size count [] k3) [mret :: nbytes :: rd]
  = ((if called =? 1 then [Coll K_MREADATALL 0 [a_off; size; a_count]] else []),
     Some (ret :: ocd :: (if rc_called =? 1 then firstn (Z.to_nat (size * ocd)) rd else [])))
  /\ a_file = f /\ a_buf = p /\ a_type = t /\ (rc_called = 1 -> rc_t = t) /\ (rc_called = 0 -> ec_called = 1 /\ ec_arg0 = mret)
  /\ (ok = 1 <-> (rc_called = 0 -> ec_ret = 0)).
Proof.
  intros. unfold sc_io_read_at_all_B, rw_prog_B, mio, SUCC, rw_kind. change ocB_MPI_SUCCESS with 0.
  cbn [obs]. change (r0 (mret :: nbytes :: rd)) with mret. change (r1 (mret :: nbytes :: rd)) with nbytes.
  change (rdata (mret :: nbytes :: rd)) with rd.
  destruct ((mret =? 0) && (0 <? count)) eqn:E; cbn -[read_count firstn Z.mul Z.to_nat]; conj; auto; try discriminate.
  - split; auto. intros _ H; discriminate.
  - destruct (ec_ret =? 0) eqn:E1; cbn; rewrite ?Z.eqb_eq, ?Z.eqb_neq in *; split; intros; try discriminate; auto.
    exfalso; auto.
Qed.

Lemma gen_write_at_B : forall ecl f off p count t ocp st mret gc_st gc_ret ec_ret size nbytes data,
  let '(called, a_file, a_off, a_buf, a_count, a_type, gc_called, gc_t, ec_called, ec_arg0, ok, ocd, ret) :=
    sc_io_write_at_B f off p count t ocp st mret gc_st (get_count nbytes size) gc_ret (ecl mret) ec_ret in
  obs (rw_prog_B ecl false true off size count data k3) [[mret; nbytes]]
  = ((if called =? 1 then [Coll K_MWRITEAT 0 (a_off :: size :: a_count :: data)] else []), Some [ret; ocd])
  /\ a_file = f /\ a_buf = p /\ a_type = t /\ (gc_called = 1 -> gc_t = t) /\ (gc_called = 0 -> ec_called = 1 /\ ec_arg0 = mret)
  /\ (ok = 1 <-> (if gc_called =? 1 then gc_ret = 0 else ec_ret = 0)).
Proof.
  intros. unfold sc_io_write_at_B, rw_prog_B, mio, SUCC, rw_kind. change ocB_MPI_SUCCESS with 0.
  cbn [obs]. change (r0 [mret; nbytes]) with mret. change (r1 [mret; nbytes]) with nbytes.
  destruct ((mret =? 0) && (0 <? count)) eqn:E; cbn -[get_count]; conj; auto; try discriminate.
  - destruct (gc_ret =? 0) eqn:E1; cbn; rewrite ?Z.eqb_eq, ?Z.eqb_neq in *; split; intros; try discriminate; auto; contradiction.
  - destruct (ec_ret =? 0) eqn:E1; cbn; rewrite ?Z.eqb_eq, ?Z.eqb_neq in *; split; intros; try discriminate; auto; contradiction.
Qed.

Lemma gen_write_at_all_B : forall ecl f off p count t ocp st mret gc_st gc_ret ec_ret size nbytes data,
  let '(called, a_file, a_off, a_buf, a_count, a_type, gc_called, gc_t, ec_called, ec_arg0, ok, ocd, ret) :=
    sc_io_write_at_all_B f off p count t ocp st mret gc_st (get_count nbytes size) gc_ret (ecl mret) ec_ret in
  obs (rw_prog_B ecl true true off size count data k3) [[mret; nbytes]]
  = ((if called =? 1 then [Coll K_MWRITEATALL 0 (a_off :: size :: a_count :: data)] else []), Some [ret; ocd])
  /\ a_file = f /\ a_buf = p /\ a_type = t /\ (gc_called = 1 -> gc_t = t) /\ (gc_called = 0 -> ec_called = 1 /\ ec_arg0 = mret)
  /\ (ok = 1 <-> (if gc_called =? 1 then gc_ret = 0 else ec_ret = 0)).
Proof.
  intros. unfold sc_io_write_at_all_B, rw_prog_B, mio, SUCC, rw_kind. change ocB_MPI_SUCCESS with 0.
  cbn [obs]. change (r0 [mret; nbytes]) with mret. change (r1 [mret; nbytes]) with nbytes.
  destruct ((mret =? 0) && (0 <? count)) eqn:E; cbn -[get_count]; conj; auto; try discriminate.
  - destruct (gc_ret =? 0) eqn:E1; cbn; rewrite ?Z.eqb_eq, ?Z.eqb_neq in *; split; intros; try discriminate; auto; contradiction.
  - destruct (ec_ret =? 0) eqn:E1; cbn; rewrite ?Z.eqb_eq, ?Z.eqb_neq in *; split; intros; try discriminate; auto; contradiction.
Qed.

(* ------------------------------------------------------------------ sc_io_read_at / sc_io_write_at without MPI I/O *)
(* ftell returns ft_ret (errno ft_errno), the fseek to the offset fs_ret (fs_errno), the transfer xf_ret elements (errno
   xf_errno; for a read the bytes rd arrive), the restoring fseek fs2_ret (fs2_errno); tsize = what MPI_Type_size stores;
   sc_io_error_class = errclass c.  Ranges: 0 <= count, xf_ret <= count < 2^31 (int), 0 <= tsize < 2^31. *)
Definition at_view (ft_called fs_called fs_a1 fs_a2 xf_called xf_a1 xf_a2 fs2_called fs2_a1 fs2_a2 : Z) (wr : bool)
           (data rd : payload) (ret ocd : Z) : list act * option payload :=
  ((if ft_called =? 1 then [Coll K_FTELL 0 []] else [])
     ++ (if fs_called =? 1 then [Coll K_FSEEK 0 [fs_a1; fs_a2]] else [])
     ++ (if xf_called =? 1 then [Coll (if wr then K_FWRITE else K_FREAD) 0 (xf_a1 :: xf_a2 :: (if wr then data else []))] else [])
     ++ (if fs2_called =? 1 then [Coll K_FSEEK 0 [fs2_a1; fs2_a2]] else []),
   Some (ret :: ocd :: (if xf_called =? 1 then rd else []))).

Ltac at_norm :=
  cbn [obs];
  repeat match goal with |- context [r0 (?a :: ?l)] => change (r0 (a :: l)) with a end;
  repeat match goal with |- context [r1 (?a :: ?b :: ?l)] => change (r1 (a :: b :: l)) with b end;
  repeat match goal with |- context [rdata (?a :: ?b :: ?l)] => change (rdata (a :: b :: l)) with l end.
Ltac at_fin := cbn -[errclass]; repeat split; intros; try discriminate; try reflexivity.

Lemma gen_read_at_C : forall me f off p count t ocp file ft_errno ft_ret e1 fs_errno fs_ret e2 tsize ts_ret xf_errno xf_ret e3
                             fs2_errno fs2_ret e4 rd,
  0 <= count < 2147483648 -> 0 <= xf_ret <= count -> 0 <= tsize < 2147483648 ->
  let '(ft_called, ft_file, ec1_called, ec1_arg, fs_called, fs_file, fs_a1, fs_a2, ec2_called, ec2_arg, ts_called, ts_t,
        xf_called, xf_buf, xf_a1, xf_a2, xf_file, ec3_called, ec3_arg, fs2_called, fs2_file, fs2_a1, fs2_a2, ec4_called, ec4_arg,
        ok, ocd, ret) :=
    sc_io_read_at_C f off p count t ocp me file ft_errno ft_ret (errclass CfgC ft_errno) e1 fs_errno fs_ret (errclass CfgC fs_errno) e2
                    tsize ts_ret xf_errno xf_ret (errclass CfgC xf_errno) e3 fs2_errno fs2_ret (errclass CfgC fs2_errno) e4 in
  obs (at_prog CfgC false me off tsize count [] k3)
      [[ft_ret; ft_errno]; [fs_ret; fs_errno]; xf_ret :: xf_errno :: rd; [fs2_ret; fs2_errno]]
  = at_view ft_called fs_called fs_a1 fs_a2 xf_called xf_a1 xf_a2 fs2_called fs2_a1 fs2_a2 false [] rd ret ocd
  /\ (xf_called = 1 -> xf_buf = p /\ xf_file = file /\ ts_t = t) /\ (fs2_called = 1 -> fs2_a1 = ft_ret).
Proof.
  intros me f off p count t ocp file ft_errno ft_ret e1 fs_errno fs_ret e2 tsize ts_ret xf_errno xf_ret e3
         fs2_errno fs2_ret e4 rd Hc Hx Ht.
  unfold sc_io_read_at_C.
  assert (Hs32 : s32 xf_ret = xf_ret) by (apply s32_id; unfold in_s32; change (M32 / 2) with 2147483648; lia).
  assert (Hu1 : u64 tsize = tsize) by (apply u64_id; change M64 with 18446744073709551616; lia).
  assert (Hu2 : u64 count = count) by (apply u64_id; change M64 with 18446744073709551616; lia).
  rewrite Hs32, Hu1, Hu2.
  unfold at_view, at_prog, io, at_tail. change (ERR_ARG CfgC) with 12. change (SUCCESS CfgC) with 0.
  destruct ((0 <? me) && negb (count =? 0)) eqn:E0; [at_fin|].
  destruct (count =? 0) eqn:E1; [at_fin|]. at_norm.
  destruct (ft_ret =? -1) eqn:E2; [at_fin|]. at_norm.
  destruct (negb (fs_ret =? 0)) eqn:E3; [at_fin|]. at_norm.
  destruct (negb (xf_errno =? 0) && (xf_ret =? 0)) eqn:E4; [at_fin|]. at_norm.
  destruct (errclass CfgC xf_errno =? 0) eqn:E5; at_fin.
Qed.


Lemma gen_read_at_A : forall me f off p count t ocp file ft_errno ft_ret e1 fs_errno fs_ret e2 tsize ts_ret xf_errno xf_ret e3
                             fs2_errno fs2_ret e4 rd,
  0 <= count < 2147483648 -> 0 <= xf_ret <= count -> 0 <= tsize < 2147483648 ->
  let '(ft_called, ft_file, ec1_called, ec1_arg, fs_called, fs_file, fs_a1, fs_a2, ec2_called, ec2_arg, ts_called, ts_t,
        xf_called, xf_buf, xf_a1, xf_a2, xf_file, ec3_called, ec3_arg, fs2_called, fs2_file, fs2_a1, fs2_a2, ec4_called, ec4_arg,
        ok, ocd, ret) :=
    sc_io_read_at_A f off p count t ocp me file ft_errno ft_ret (errclass CfgA ft_errno) e1 fs_errno fs_ret (errclass CfgA fs_errno) e2
                    tsize ts_ret xf_errno xf_ret (errclass CfgA xf_errno) e3 fs2_errno fs2_ret (errclass CfgA fs2_errno) e4 in
  obs (at_prog CfgA false me off tsize count [] k3)
      [[ft_ret; ft_errno]; [fs_ret; fs_errno]; xf_ret :: xf_errno :: rd; [fs2_ret; fs2_errno]]
  = at_view ft_called fs_called fs_a1 fs_a2 xf_called xf_a1 xf_a2 fs2_called fs2_a1 fs2_a2 false [] rd ret ocd
  /\ (xf_called = 1 -> xf_buf = p /\ xf_file = file /\ ts_t = t) /\ (fs2_called = 1 -> fs2_a1 = ft_ret).
Proof.
  intros me f off p count t ocp file ft_errno ft_ret e1 fs_errno fs_ret e2 tsize ts_ret xf_errno xf_ret e3
         fs2_errno fs2_ret e4 rd Hc Hx Ht.
  unfold sc_io_read_at_A.
  assert (Hs32 : s32 xf_ret = xf_ret) by (apply s32_id; unfold in_s32; change (M32 / 2) with 2147483648; lia).
  assert (Hu1 : u64 tsize = tsize) by (apply u64_id; change M64 with 18446744073709551616; lia).
  assert (Hu2 : u64 count = count) by (apply u64_id; change M64 with 18446744073709551616; lia).
  rewrite Hs32, Hu1, Hu2.
  unfold at_view, at_prog, io, at_tail. change ocA_SC3_MPI_ERR_ARG with (ERR_ARG CfgA). change ocA_SC3_MPI_SUCCESS with 0. change (SUCCESS CfgA) with 0.
  destruct ((0 <? me) && negb (count =? 0)) eqn:E0; [at_fin|].
  destruct (count =? 0) eqn:E1; [at_fin|]. at_norm.
  destruct (ft_ret =? -1) eqn:E2; [at_fin|]. at_norm.
  destruct (negb (fs_ret =? 0)) eqn:E3; [at_fin|]. at_norm.
  destruct (negb (xf_errno =? 0) && (xf_ret =? 0)) eqn:E4; [at_fin|]. at_norm.
  destruct (errclass CfgA xf_errno =? 0) eqn:E5; at_fin.
Qed.

Lemma gen_write_at_C : forall me f off p count t ocp file ft_errno ft_ret e1 fs_errno fs_ret e2 tsize ts_ret xf_errno xf_ret e3
                             fs2_errno fs2_ret e4 data,
  0 <= count < 2147483648 -> 0 <= xf_ret <= count -> 0 <= tsize < 2147483648 ->
  let '(ft_called, ft_file, ec1_called, ec1_arg, fs_called, fs_file, fs_a1, fs_a2, ec2_called, ec2_arg, ts_called, ts_t,
        xf_called, xf_buf, xf_a1, xf_a2, xf_file, ec3_called, ec3_arg, fs2_called, fs2_file, fs2_a1, fs2_a2, ec4_called, ec4_arg,
        ok, ocd, ret) :=
    sc_io_write_at_C f off p count t ocp me file ft_errno ft_ret (errclass CfgC ft_errno) e1 fs_errno fs_ret (errclass CfgC fs_errno) e2
                    tsize ts_ret xf_errno xf_ret (errclass CfgC xf_errno) e3 fs2_errno fs2_ret (errclass CfgC fs2_errno) e4 in
  obs (at_prog CfgC true me off tsize count data k3)
      [[ft_ret; ft_errno]; [fs_ret; fs_errno]; [xf_ret; xf_errno]; [fs2_ret; fs2_errno]]
  = at_view ft_called fs_called fs_a1 fs_a2 xf_called xf_a1 xf_a2 fs2_called fs2_a1 fs2_a2 true data [] ret ocd
  /\ (xf_called = 1 -> xf_buf = p /\ xf_file = file /\ ts_t = t) /\ (fs2_called = 1 -> fs2_a1 = ft_ret).
Proof.
  intros me f off p count t ocp file ft_errno ft_ret e1 fs_errno fs_ret e2 tsize ts_ret xf_errno xf_ret e3
         fs2_errno fs2_ret e4 data Hc Hx Ht.
  unfold sc_io_write_at_C.
  assert (Hs32 : s32 xf_ret = xf_ret) by (apply s32_id; unfold in_s32; change (M32 / 2) with 2147483648; lia).
  assert (Hu1 : u64 tsize = tsize) by (apply u64_id; change M64 with 18446744073709551616; lia).
  assert (Hu2 : u64 count = count) by (apply u64_id; change M64 with 18446744073709551616; lia).
  rewrite Hs32, Hu1, Hu2.
  unfold at_view, at_prog, io, at_tail. change (ERR_ARG CfgC) with 12. change (SUCCESS CfgC) with 0.
  destruct ((0 <? me) && negb (count =? 0)) eqn:E0; [at_fin|].
  destruct (count =? 0) eqn:E1; [at_fin|]. at_norm.
  destruct (ft_ret =? -1) eqn:E2; [at_fin|]. at_norm.
  destruct (negb (fs_ret =? 0)) eqn:E3; [at_fin|]. at_norm.
  destruct (negb (xf_errno =? 0) && (xf_ret =? 0)) eqn:E4; [at_fin|]. at_norm.
  destruct (errclass CfgC xf_errno =? 0) eqn:E5; at_fin.
Qed.

Lemma gen_write_at_A : forall me f off p count t ocp file ft_errno ft_ret e1 fs_errno fs_ret e2 tsize ts_ret xf_errno xf_ret e3
                             fs2_errno fs2_ret e4 data,
  0 <= count < 2147483648 -> 0 <= xf_ret <= count -> 0 <= tsize < 2147483648 ->
  let '(ft_called, ft_file, ec1_called, ec1_arg, fs_called, fs_file, fs_a1, fs_a2, ec2_called, ec2_arg, ts_called, ts_t,
        xf_called, xf_buf, xf_a1, xf_a2, xf_file, ec3_called, ec3_arg, fs2_called, fs2_file, fs2_a1, fs2_a2, ec4_called, ec4_arg,
        ok, ocd, ret) :=
    sc_io_write_at_A f off p count t ocp me file ft_errno ft_ret (errclass CfgA ft_errno) e1 fs_errno fs_ret (errclass CfgA fs_errno) e2
                    tsize ts_ret xf_errno xf_ret (errclass CfgA xf_errno) e3 fs2_errno fs2_ret (errclass CfgA fs2_errno) e4 in
  obs (at_prog CfgA true me off tsize count data k3)
      [[ft_ret; ft_errno]; [fs_ret; fs_errno]; [xf_ret; xf_errno]; [fs2_ret; fs2_errno]]
  = at_view ft_called fs_called fs_a1 fs_a2 xf_called xf_a1 xf_a2 fs2_called fs2_a1 fs2_a2 true data [] ret ocd
  /\ (xf_called = 1 -> xf_buf = p /\ xf_file = file /\ ts_t = t) /\ (fs2_called = 1 -> fs2_a1 = ft_ret).
Proof.
  intros me f off p count t ocp file ft_errno ft_ret e1 fs_errno fs_ret e2 tsize ts_ret xf_errno xf_ret e3
         fs2_errno fs2_ret e4 data Hc Hx Ht.
  unfold sc_io_write_at_A.
  assert (Hs32 : s32 xf_ret = xf_ret) by (apply s32_id; unfold in_s32; change (M32 / 2) with 2147483648; lia).
  assert (Hu1 : u64 tsize = tsize) by (apply u64_id; change M64 with 18446744073709551616; lia).
  assert (Hu2 : u64 count = count) by (apply u64_id; change M64 with 18446744073709551616; lia).
  rewrite Hs32, Hu1, Hu2.
  unfold at_view, at_prog, io, at_tail. change ocA_SC3_MPI_ERR_ARG with (ERR_ARG CfgA). change ocA_SC3_MPI_SUCCESS with 0. change (SUCCESS CfgA) with 0.
  destruct ((0 <? me) && negb (count =? 0)) eqn:E0; [at_fin|].
  destruct (count =? 0) eqn:E1; [at_fin|]. at_norm.
  destruct (ft_ret =? -1) eqn:E2; [at_fin|]. at_norm.
  destruct (negb (fs_ret =? 0)) eqn:E3; [at_fin|]. at_norm.
  destruct (negb (xf_errno =? 0) && (xf_ret =? 0)) eqn:E4; [at_fin|]. at_norm.
  destruct (errclass CfgA xf_errno =? 0) eqn:E5; at_fin.
Qed.

(* ------------------------------------------------------------------ the fopen judgements of the token-passing fallback *)
(* the statement behind each `mpifile->file = fopen (..)` of sc_io_read_at_all / sc_io_write_at_all (MPI without MPI I/O):
   `errval` of a rank > 0 is `open_judge` (errno only if the stream is NULL), and the re-open of rank 0 ends in SC_ABORT exactly
   when the stream is NULL - what `coll_prog` does with the reply [stream non-NULL; errno] of its K_FOPEN actions *)
Lemma gen_fallback_judgements : forall file e,
  oc_fallback_errval_read file e = open_judge (nz file) e /\ oc_fallback_errval_write file e = open_judge (nz file) e
  /\ oc_fallback_reopen_bad_read file e = negb (nz file) /\ oc_fallback_reopen_bad_write file e = negb (nz file).
Proof.
  intros file e. unfold oc_fallback_errval_read, oc_fallback_errval_write, oc_fallback_reopen_bad_read,
    oc_fallback_reopen_bad_write, open_judge, nz.
  destruct (file =? 0); repeat split; reflexivity.
Qed.
