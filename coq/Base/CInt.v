(* Fixed-width C integer arithmetic over Z, with every wrap written out.
   The translator (tools/c2g) emits terms over these operations only. *)
From Coq Require Import ZArith Lia List Bool ZifyBool.
Import ListNotations.
Local Open Scope Z_scope.

Ltac Zify.zify_post_hook ::= Z.div_mod_to_equations.

Definition M8  : Z := 256.
Definition M16 : Z := 65536.
Definition M32 : Z := 4294967296.
Definition M64 : Z := 18446744073709551616.
Definition M128 : Z := M64 * M64.

(* unsigned wrap to n bits, signed (two's complement) wrap to n bits *)
Definition wrapu (m : Z) (x : Z) : Z := x mod m.
Definition wraps (m : Z) (x : Z) : Z := (x + m / 2) mod m - m / 2.

Definition u8  := wrapu M8.   Definition s8  := wraps M8.
Definition u16 := wrapu M16.  Definition s16 := wraps M16.
Definition u32 := wrapu M32.  Definition s32 := wraps M32.
Definition u64 := wrapu M64.  Definition s64 := wraps M64.

Definition in_u8  x := 0 <= x < M8.
Definition in_u32 x := 0 <= x < M32.
Definition in_u64 x := 0 <= x < M64.
Definition in_s32 x := - (M32 / 2) <= x < M32 / 2.
Definition in_s64 x := - (M64 / 2) <= x < M64 / 2.

Definition b2z (b : bool) : Z := if b then 1 else 0.
Definition z2b (x : Z) : bool := negb (x =? 0).

(* C division truncates towards zero *)
Definition cdiv (a b : Z) : Z := Z.quot a b.
Definition cmod (a b : Z) : Z := Z.rem a b.

(* shifts: the count is taken as written (C leaves counts >= width undefined;
   theorems state the range) *)
Definition shl (a n : Z) : Z := a * 2 ^ n.
Definition shr (a n : Z) : Z := a / 2 ^ n.      (* floor: logical for a >= 0, arithmetic for a < 0 *)

Lemma M8_eq : M8 = 2 ^ 8.  Proof. reflexivity. Qed.
Lemma M32_eq : M32 = 2 ^ 32.  Proof. reflexivity. Qed.
Lemma M64_eq : M64 = 2 ^ 64.  Proof. reflexivity. Qed.
Lemma M128_eq : M128 = 2 ^ 128.  Proof. reflexivity. Qed.
Lemma M64_pos : 0 < M64.  Proof. reflexivity. Qed.
Lemma M32_pos : 0 < M32.  Proof. reflexivity. Qed.

Lemma wrapu_range m x : 0 < m -> 0 <= wrapu m x < m.
Proof. intros; unfold wrapu; apply Z.mod_pos_bound; lia. Qed.

Lemma wrapu_id m x : 0 <= x < m -> wrapu m x = x.
Proof. intros; unfold wrapu; apply Z.mod_small; lia. Qed.

Lemma wraps_id m x : 0 < m -> m mod 2 = 0 -> - (m / 2) <= x < m / 2 -> wraps m x = x.
Proof.
  intros Hm He Hx; unfold wraps.
  rewrite Z.mod_small; lia.
Qed.

Lemma wraps_range m x : 0 < m -> m mod 2 = 0 -> - (m / 2) <= wraps m x < m / 2.
Proof.
  intros Hm He; unfold wraps.
  pose proof (Z.mod_pos_bound (x + m / 2) m Hm). lia.
Qed.

Lemma u64_range x : 0 <= u64 x < M64.  Proof. apply wrapu_range; reflexivity. Qed.
Lemma u32_range x : 0 <= u32 x < M32.  Proof. apply wrapu_range; reflexivity. Qed.
Lemma u64_id x : 0 <= x < M64 -> u64 x = x.  Proof. apply wrapu_id. Qed.
Lemma u32_id x : 0 <= x < M32 -> u32 x = x.  Proof. apply wrapu_id. Qed.
Lemma s32_id x : in_s32 x -> s32 x = x.
Proof. intros; apply wraps_id; [reflexivity|reflexivity|exact H]. Qed.
Lemma s64_id x : in_s64 x -> s64 x = x.
Proof. intros; apply wraps_id; [reflexivity|reflexivity|exact H]. Qed.
Lemma s32_range x : in_s32 (s32 x).
Proof. apply wraps_range; reflexivity. Qed.
Lemma s64_range x : in_s64 (s64 x).
Proof. apply wraps_range; reflexivity. Qed.

(* carry / borrow characterisations used for multiword arithmetic *)
Lemma add_carry a b : 0 <= a < M64 -> 0 <= b < M64 ->
  ((a + b) mod M64 <? a) = (M64 <=? a + b).
Proof.
  intros Ha Hb. unfold M64 in *.
  destruct (Z.leb_spec 18446744073709551616 (a + b)); destruct (Z.ltb_spec ((a + b) mod 18446744073709551616) a); try reflexivity; exfalso; lia.
Qed.

Lemma sub_borrow a b : 0 <= a < M64 -> 0 <= b < M64 ->
  (a <? (a - b) mod M64) = (a <? b).
Proof.
  intros Ha Hb. unfold M64 in *.
  destruct (Z.ltb_spec a b); destruct (Z.ltb_spec a ((a - b) mod 18446744073709551616)); try reflexivity; exfalso; lia.
Qed.

Lemma pow2_pos n : 0 <= n -> 0 < 2 ^ n.
Proof. intros; apply Z.pow_pos_nonneg; lia. Qed.

Lemma pow2_split a b : 0 <= a -> 0 <= b -> 2 ^ (a + b) = 2 ^ a * 2 ^ b.
Proof. intros; apply Z.pow_add_r; lia. Qed.

(* lor of bit-disjoint numbers is addition *)
Lemma lor_disjoint_add a b k : 0 <= k -> 0 <= b < 2 ^ k -> a mod 2 ^ k = 0 -> Z.lor a b = a + b.
Proof.
  intros Hk Hb Ha.
  assert (Hl : Z.land a b = 0).
  { apply Z.bits_inj'; intros n Hn; rewrite Z.land_spec, Z.bits_0.
    destruct (Z.lt_ge_cases n k) as [Hlt|Hge].
    - replace (Z.testbit a n) with false; [reflexivity|].
      symmetry. rewrite <- (Z.mod_pow2_bits_low a k n) by lia. rewrite Ha. apply Z.bits_0.
    - replace (Z.testbit b n) with false; [apply andb_false_r|].
      symmetry. destruct (Z.eq_dec b 0) as [->|Hb0]; [apply Z.bits_0|].
      apply Z.bits_above_log2; [lia|]. apply Z.log2_lt_pow2; [lia|].
      apply Z.lt_le_trans with (2 ^ k); [lia|]. apply Z.pow_le_mono_r; lia. }
  rewrite (Z.add_nocarry_lxor a b Hl). symmetry. apply Z.lxor_lor. exact Hl.
Qed.

Lemma land_pow2_testbit a e : 0 <= e -> 0 <= a ->
  (Z.land a (2 ^ e) =? 0) = negb (Z.testbit a e).
Proof.
  intros He Ha.
  assert (H : Z.land a (2 ^ e) = if Z.testbit a e then 2 ^ e else 0).
  { apply Z.bits_inj'; intros n Hn. rewrite Z.land_spec, Z.pow2_bits_eqb by lia.
    destruct (Z.eqb_spec e n) as [->|Hne].
    - destruct (Z.testbit a n) eqn:E; [rewrite Z.pow2_bits_true by lia; reflexivity | rewrite Z.bits_0; reflexivity].
    - rewrite andb_false_r. destruct (Z.testbit a e); [rewrite Z.pow2_bits_false by lia; reflexivity | rewrite Z.bits_0; reflexivity]. }
  rewrite H. destruct (Z.testbit a e); simpl; [|reflexivity].
  pose proof (pow2_pos e He). destruct (Z.eqb_spec (2 ^ e) 0); [lia|reflexivity].
Qed.

Lemma land_ones_mod a n : 0 <= n -> Z.land a (2 ^ n - 1) = a mod 2 ^ n.
Proof. intros. replace (2 ^ n - 1) with (Z.ones n) by (rewrite Z.ones_equiv; lia). apply Z.land_ones; lia. Qed.
