(* C19 - model of libsc's log filter state (src/sc.c).
   The DECISION functions sc_log / sc_logv / sc_set_log_defaults and the SC_GEN_LOG* macros are
   GENERATED from the source (Gen/LogC19.v, tie T1); this file adds the state they read:
   the process-wide defaults, the identifier, the trace stream and the package table with its
   mutators sc_package_register / unregister / set_verbosity, sc_init, sc_finalize_noabort.
   Executable definitions only.

   event = (kind, handler, stream, package, category, priority, msg)   (see tools/c2g/groups_C19.py)
     kind 0  handler call      kind 1/2  sc_package_lock/unlock (package)
     kind 3/4  call of sc_log / sc_logf (only inside macro expansions; expanded by [expand])
     kind 5  return value of sc_package_register / sc_package_id after sc_init (in the package field) *)
From Coq Require Import ZArith List Bool.
From ScV Require Import Base.CInt Gen.LogC19.
Import ListNotations.
Local Open Scope Z_scope.
Local Open Scope bool_scope.

Definition event := (Z * Z * Z * Z * Z * Z * Z)%type.

(* handler values: 0 = NULL, BUILTIN = the library's own sc_log_handler, anything else = a handler
   installed through the public API.  Streams: 0 = NULL, STDOUT = libc's stdout. *)
Definition BUILTIN : Z := 99.
Definition STDOUT : Z := 1.

Record pkg := mkpkg { p_reg : bool; p_handler : Z; p_thr : Z }.

Record lstate := mkst {
  s_dthr : Z;          (* sc_default_log_threshold *)
  s_dhandler : Z;      (* sc_default_log_handler *)
  s_stream : Z;        (* sc_log_stream *)
  s_ident : Z;         (* sc_identifier *)
  s_tfile : Z;         (* sc_trace_file *)
  s_tprio : Z;         (* sc_trace_prio *)
  s_pkgid : Z;         (* sc_package_id *)
  s_table : list pkg   (* sc_packages[0 .. sc_num_packages_alloc) *)
}.

Definition fresh_pkg : pkg := mkpkg false 0 c19_const_lp_silent.

(* dbg = the SC_ENABLE_DEBUG configuration (SC_LP_THRESHOLD is TRACE instead of INFO, SC_ASSERT live) *)
Definition init_state (dbg : bool) : lstate :=
  mkst (if dbg then c19_const_lp_threshold_dbg else c19_const_lp_threshold) BUILTIN 0 (-1) 0 c19_const_lp_statistics (-1) [].

Definition tnth (t : list pkg) (i : Z) : pkg := nth (Z.to_nat i) t fresh_pkg.

(* sc_package_is_registered (without its error message for negative ids, see [isreg_side]) *)
Definition table_reg (t : list pkg) (i : Z) : bool :=
  (0 <=? i) && (i <? Z.of_nat (length t)) && p_reg (tnth t i).
Definition is_reg (st : lstate) (i : Z) : Z := b2z (table_reg (s_table st) i).
Definition pk_thr (st : lstate) (i : Z) : Z := p_thr (tnth (s_table st) i).
Definition pk_h (st : lstate) (i : Z) : Z := p_handler (tnth (s_table st) i).

(* the generated functions applied to the state *)
Definition log_st (st : lstate) (package category priority msg : Z) : list event :=
  sc_log (is_reg st) (pk_thr st) (pk_h st) (s_dthr st) (s_dhandler st) (s_stream st) STDOUT
         (s_ident st) (s_tfile st) (s_tprio st) package category priority msg.
Definition logv_st (st : lstate) (package category priority msg : Z) : list event :=
  sc_logv (is_reg st) (pk_thr st) (pk_h st) (s_dthr st) (s_dhandler st) (s_stream st) STDOUT
          (s_ident st) (s_tfile st) (s_tprio st) package category priority msg.

(* message numbers of texts produced by the library itself *)
Definition MSG_INVALID_ID : Z := -8.
Definition MSG_INIT : list Z := [-2; -3; -4; -5; -6; -7].   (* the six PRODUCTION lines of sc_init *)
Definition MSG_THIS_IS : Z := -1.

(* the mutexes that exist in the pinned configuration (SC_ENABLE_PTHREAD): the default one (-1) and
   those of registered packages.  Locking any other id is undefined (destroyed, never initialised
   or out-of-bounds mutex); sc_log and - since repair 622fcc2 - sc_logv map the id first. *)
Definition lock_legal (st : lstate) (package : Z) : bool := (package =? -1) || z2b (is_reg st package).

(* expansion of the sc_log / sc_logf calls recorded by the macro wrappers, for a package id
   that is -1 or registered (sc_package_id) *)
Definition expand_own (st : lstate) (e : event) : list event :=
  let '(k, h, s, p, c, q, m) := e in
  if k =? 3 then log_st st p c q m
  else if k =? 4 then logv_st st p c q m
  else [e].

(* sc_package_is_registered (id) logs "Invalid package id" through SC_LERRORF when id < 0
   (package sc_package_id, category NORMAL, priority ERROR), before it answers *)
Definition isreg_side (dbg : bool) (st : lstate) (id : Z) : list event :=
  if id <? 0 then flat_map (expand_own st) ((if dbg then w_c19_lerror_dbg else w_c19_lerror) (s_pkgid st) MSG_INVALID_ID) else [].

(* events of evaluating `package != -1 && !sc_package_is_registered (package)`, the first statement
   of sc_log and of sc_logv: the query (and its message) happens only when package != -1 *)
Definition isreg_query (dbg : bool) (st : lstate) (package : Z) : list event :=
  if package =? -1 then [] else isreg_side dbg st package.

(* sc_log as called from outside *)
Definition log_full (dbg : bool) (st : lstate) (package category priority msg : Z) : list event :=
  isreg_query dbg st package ++ log_st st package category priority msg.

(* sc_logf / sc_logv as called from outside.  The id is mapped to the effective package by the first
   statement, so the sc_log called at the end receives -1 or a registered id and asks nothing more
   that has an effect: the "Invalid package id" message appears once. *)
Definition logv_full (dbg : bool) (st : lstate) (package category priority msg : Z) : list event :=
  isreg_query dbg st package ++ logv_st st package category priority msg.

(* --- the package table ------------------------------------------------------------------- *)
Fixpoint first_free (t : list pkg) (i : nat) : option nat :=
  match t with
  | [] => None
  | p :: r => if p_reg p then first_free r (S i) else Some i
  end.

Definition set_nth (i : nat) (p : pkg) (t : list pkg) : list pkg := firstn i t ++ p :: skipn (S i) t.

(* realloc to 2 * alloc + 1 entries, new ones unregistered with threshold SILENT *)
Definition grow (t : list pkg) : list pkg := t ++ repeat fresh_pkg (length t + 1).

Definition register (t : list pkg) (h thr : Z) : nat * list pkg :=
  match first_free t 0 with
  | Some i => (i, set_nth i (mkpkg true h thr) t)
  | None => (length t, set_nth (length t) (mkpkg true h thr) (grow t))
  end.

Definition valid_thr (thr : Z) : bool :=
  (thr =? c19_const_lp_default) || ((c19_const_lp_always <=? thr) && (thr <=? c19_const_lp_silent)).

Definition with_table (st : lstate) (t : list pkg) : lstate :=
  mkst (s_dthr st) (s_dhandler st) (s_stream st) (s_ident st) (s_tfile st) (s_tprio st) (s_pkgid st) t.

(* --- operations ---------------------------------------------------------------------------- *)
Inductive op :=
| OSetDefaults (stream handler thr : Z)     (* sc_set_log_defaults *)
| ORegister (handler thr : Z)               (* sc_package_register *)
| OUnregister (id : Z)                      (* sc_package_unregister *)
| OSetVerbosity (id thr : Z)                (* sc_package_set_verbosity *)
| OInit (ident handler thr : Z)             (* sc_init: ident = -1 without communicator, else the rank *)
| OFinalize                                 (* sc_finalize_noabort *)
| OTrace (file prio : Z)                    (* assignment to the public globals sc_trace_file, sc_trace_prio *)
| OLog (package category priority msg : Z)  (* sc_log *)
| OLogv (package category priority msg : Z) (* sc_logf / sc_logv *)
| OGenLog (package category priority msg : Z)    (* SC_GEN_LOG macro *)
| OGenLogf (package category priority msg : Z).  (* SC_GEN_LOGF macro *)

(* expansion of the sc_log / sc_logf calls recorded by the macro wrappers, for ANY package id *)
Definition expand_full (dbg : bool) (st : lstate) (e : event) : list event :=
  let '(k, h, s, p, c, q, m) := e in
  if k =? 3 then log_full dbg st p c q m
  else if k =? 4 then logv_full dbg st p c q m
  else [e].

(* None: the library aborts the process (violated precondition); logging never does *)
Definition step (dbg : bool) (st : lstate) (o : op) : option (lstate * list event) :=
  match o with
  | OSetDefaults stream handler thr =>
      let '(dh, dt, ds, evs) := (if dbg then sc_set_log_defaults_dbg else sc_set_log_defaults) (s_dthr st) BUILTIN stream handler thr in
      match evs with
      | [] => Some (mkst dt dh ds (s_ident st) (s_tfile st) (s_tprio st) (s_pkgid st) (s_table st), [])
      | _ => None      (* a live assertion failed *)
      end
  | ORegister handler thr =>
      if valid_thr thr then
        let '(i, t) := register (s_table st) handler thr in
        Some (with_table st t, [(5, 0, 0, Z.of_nat i, 0, 0, 0)])
      else None
  | OUnregister id =>
      if table_reg (s_table st) id then
        Some (with_table st (set_nth (Z.to_nat id) (mkpkg false 0 c19_const_lp_default) (s_table st)), [])
      else None
  | OSetVerbosity id thr =>
      if table_reg (s_table st) id && valid_thr thr then
        Some (with_table st (set_nth (Z.to_nat id) (mkpkg true (pk_h st id) thr) (s_table st)), [])
      else None
  | OInit ident handler thr =>
      if valid_thr thr && (s_pkgid st =? -1) then
        let '(i, t) := register (s_table st) handler thr in
        let id := Z.of_nat i in
        let st' := mkst (s_dthr st) (s_dhandler st) (s_stream st) ident (s_tfile st) (s_tprio st) id t in
        let macro := if dbg then w_c19_global_essential_dbg else w_c19_global_essential in
        let macrop := if dbg then w_c19_global_production_dbg else w_c19_global_production in
        Some (st', flat_map (expand_own st') (macro id MSG_THIS_IS ++ flat_map (macrop id) MSG_INIT)
                   ++ [(5, 0, 0, id, 0, 0, 0)])     (* the value of sc_package_id afterwards *)
      else None
  | OFinalize =>
      Some (mkst (s_dthr st) (s_dhandler st) (s_stream st) (-1) 0 (s_tprio st) (-1) [], [])
  | OTrace file prio =>
      Some (mkst (s_dthr st) (s_dhandler st) (s_stream st) (s_ident st) file prio (s_pkgid st) (s_table st), [])
  | OLog p c q m => Some (st, log_full dbg st p c q m)
  | OLogv p c q m => Some (st, logv_full dbg st p c q m)
  | OGenLog p c q m => Some (st, flat_map (expand_full dbg st) ((if dbg then w_c19_gen_log_dbg else w_c19_gen_log) p c q m))
  | OGenLogf p c q m => Some (st, flat_map (expand_full dbg st) ((if dbg then w_c19_gen_logf_dbg else w_c19_gen_logf) p c q m))
  end.

Fixpoint run (dbg : bool) (st : lstate) (ops : list op) : option (lstate * list event) :=
  match ops with
  | [] => Some (st, [])
  | o :: r =>
    match step dbg st o with
    | None => None
    | Some (st1, e1) =>
      match run dbg st1 r with
      | None => None
      | Some (st2, e2) => Some (st2, e1 ++ e2)
      end
    end
  end.

(* What a recording harness can see of an event.  A custom handler sees all its arguments.  The
   built-in handler only prints: "[name ident] " prefix parts and "file:line " for TRACE messages;
   the observation is (0, BUILTIN, stream, wp, wi, tr, msg). *)
Definition observe (st : lstate) (e : event) : event :=
  let '(k, h, s, p, c, q, m) := e in
  if (k =? 0) && (h =? BUILTIN) then
    (0, BUILTIN, s, b2z (negb (p =? -1)), b2z ((c =? c19_const_lc_normal) && (0 <=? s_ident st)), b2z (q =? c19_const_lp_trace), m)
  else e.

Definition visible (e : event) : bool :=
  let '(k, h, s, p, c, q, m) := e in (k =? 0) || (k =? 5).
