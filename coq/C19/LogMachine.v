(* C19 - the package table and the mutators of the log state: what each operation does to the
   ABSTRACT view (a partial map id -> (handler, threshold) plus the process-wide settings), and that
   nothing else about the table (allocation size, slot reuse, doubling) is observable. *)
From Coq Require Import ZArith List Bool Lia.
From ScV Require Import Base.CInt Gen.LogC19 C19.LogModel C19.LogProofs.
Import ListNotations.
Local Open Scope Z_scope.
Local Open Scope bool_scope.

(* the abstract view of the table *)
Definition tlookup (t : list pkg) (id : Z) : option (Z * Z) :=
  if table_reg t id then Some (p_handler (tnth t id), p_thr (tnth t id)) else None.
Definition lookup (st : lstate) : Z -> option (Z * Z) := tlookup (s_table st).

Definition same_globals (a b : lstate) : Prop :=
  s_dthr a = s_dthr b /\ s_dhandler a = s_dhandler b /\ s_stream a = s_stream b /\ s_ident a = s_ident b
  /\ s_tfile a = s_tfile b /\ s_tprio a = s_tprio b /\ s_pkgid a = s_pkgid b.

Definition view_eq (a b : lstate) : Prop := same_globals a b /\ forall id, lookup a id = lookup b id.

(* --- list facts ------------------------------------------------------------------------------ *)
Lemma nth_set_nth (t : list pkg) : forall i p j d, (i < length t)%nat ->
  nth j (set_nth i p t) d = if Nat.eqb j i then p else nth j t d.
Proof.
  induction t as [|a r IH]; intros i p j d Hi; [cbn in Hi; lia|].
  destruct i as [|i].
  - destruct j; reflexivity.
  - change (set_nth (S i) p (a :: r)) with (a :: set_nth i p r).
    destruct j; [reflexivity|]. cbn [nth Nat.eqb]. apply IH. cbn in Hi; lia.
Qed.

Lemma length_set_nth (t : list pkg) : forall i p, (i < length t)%nat -> length (set_nth i p t) = length t.
Proof.
  induction t as [|a r IH]; intros i p Hi; [cbn in Hi; lia|].
  destruct i as [|i]; [reflexivity|].
  change (set_nth (S i) p (a :: r)) with (a :: set_nth i p r). cbn [length]. rewrite IH; [reflexivity|cbn in Hi; lia].
Qed.

Lemma table_reg_range t id : table_reg t id = true -> 0 <= id < Z.of_nat (length t).
Proof. unfold table_reg. rewrite !andb_true_iff, Z.leb_le, Z.ltb_lt. tauto. Qed.

Lemma table_reg_lookup t id : table_reg t id = match tlookup t id with Some _ => true | None => false end.
Proof. unfold tlookup. destruct (table_reg t id); reflexivity. Qed.

Lemma tlookup_set_same t i p : (i < length t)%nat ->
  tlookup (set_nth i p t) (Z.of_nat i) = if p_reg p then Some (p_handler p, p_thr p) else None.
Proof.
  intros Hi. unfold tlookup, table_reg, tnth.
  rewrite length_set_nth, nth_set_nth, Nat2Z.id, Nat.eqb_refl by assumption.
  replace (0 <=? Z.of_nat i) with true by (symmetry; apply Z.leb_le; lia).
  replace (Z.of_nat i <? Z.of_nat (length t)) with true by (symmetry; apply Z.ltb_lt; lia).
  reflexivity.
Qed.

Lemma tlookup_set_other t i p j : (i < length t)%nat -> j <> Z.of_nat i ->
  tlookup (set_nth i p t) j = tlookup t j.
Proof.
  intros Hi Hj. unfold tlookup, table_reg, tnth.
  rewrite length_set_nth, nth_set_nth by assumption.
  destruct (0 <=? j) eqn:E; [|reflexivity]. apply Z.leb_le in E.
  replace (Nat.eqb (Z.to_nat j) i) with false; [reflexivity|].
  symmetry; apply Nat.eqb_neq. lia.
Qed.

Lemma tlookup_set_same_z t id p : 0 <= id < Z.of_nat (length t) ->
  tlookup (set_nth (Z.to_nat id) p t) id = if p_reg p then Some (p_handler p, p_thr p) else None.
Proof.
  intros H. pose proof (tlookup_set_same t (Z.to_nat id) p) as H1.
  rewrite Z2Nat.id in H1 by lia. apply H1. lia.
Qed.

Lemma tlookup_set_other_z t id p j : 0 <= id < Z.of_nat (length t) -> j <> id ->
  tlookup (set_nth (Z.to_nat id) p t) j = tlookup t j.
Proof. intros H N. apply tlookup_set_other; lia. Qed.

Lemma tlookup_grow t j : tlookup (grow t) j = tlookup t j.
Proof.
  unfold tlookup, table_reg, tnth, grow.
  destruct (0 <=? j) eqn:E; [|reflexivity]. apply Z.leb_le in E. cbn [andb].
  rewrite app_length, repeat_length.
  destruct (j <? Z.of_nat (length t)) eqn:L.
  - apply Z.ltb_lt in L.
    replace (j <? Z.of_nat (length t + (length t + 1))) with true by (symmetry; apply Z.ltb_lt; lia).
    rewrite app_nth1 by lia. reflexivity.
  - apply Z.ltb_ge in L. rewrite app_nth2 by lia. rewrite nth_repeat.
    cbn [fresh_pkg p_reg]. rewrite andb_false_r. reflexivity.
Qed.

Lemma first_free_some t : forall k i, first_free t k = Some i ->
  (k <= i)%nat /\ (i - k < length t)%nat /\ p_reg (nth (i - k) t fresh_pkg) = false
  /\ forall j, (j < i - k)%nat -> p_reg (nth j t fresh_pkg) = true.
Proof.
  induction t as [|a r IH]; intros k i H; [discriminate|].
  cbn [first_free] in H. destruct (p_reg a) eqn:Ra.
  - apply IH in H. destruct H as (H1 & H2 & H3 & H4).
    replace (i - k)%nat with (S (i - S k)) by lia. cbn [length nth].
    split; [lia|]. split; [lia|]. split; [exact H3|].
    intros j Hj. destruct j; [exact Ra|]. apply H4. lia.
  - injection H as <-. rewrite Nat.sub_diag. cbn [length nth].
    split; [lia|]. split; [lia|]. split; [exact Ra|]. intros j Hj; lia.
Qed.

Lemma first_free_none t : forall k, first_free t k = None ->
  forall j, (j < length t)%nat -> p_reg (nth j t fresh_pkg) = true.
Proof.
  induction t as [|a r IH]; intros k H j Hj; [cbn in Hj; lia|].
  cbn [first_free] in H. destruct (p_reg a) eqn:Ra; [|discriminate].
  destruct j; [exact Ra|]. cbn [nth]. eapply IH; [exact H|cbn in Hj; lia].
Qed.

Lemma tlookup_registered t j : (j < length t)%nat -> p_reg (nth j t fresh_pkg) = true ->
  tlookup t (Z.of_nat j) <> None.
Proof.
  intros Hj Hr. unfold tlookup, table_reg, tnth. rewrite Nat2Z.id, Hr.
  replace (0 <=? Z.of_nat j) with true by (symmetry; apply Z.leb_le; lia).
  replace (Z.of_nat j <? Z.of_nat (length t)) with true by (symmetry; apply Z.ltb_lt; lia).
  discriminate.
Qed.

(* sc_package_register: the new id is the LEAST id that is not registered *)
Lemma register_spec t h thr i t' : register t h thr = (i, t') ->
  tlookup t (Z.of_nat i) = None
  /\ (forall j, 0 <= j < Z.of_nat i -> tlookup t j <> None)
  /\ tlookup t' (Z.of_nat i) = Some (h, thr)
  /\ (forall j, j <> Z.of_nat i -> tlookup t' j = tlookup t j).
Proof.
  unfold register. destruct (first_free t 0) as [i0|] eqn:F; intros H; injection H as <- <-.
  - apply first_free_some in F. rewrite Nat.sub_0_r in F. destruct F as (_ & F2 & F3 & F4).
    repeat split.
    + unfold tlookup, table_reg, tnth. rewrite Nat2Z.id, F3, andb_false_r. reflexivity.
    + intros j Hj. replace j with (Z.of_nat (Z.to_nat j)) by lia.
      apply tlookup_registered; [lia|apply F4; lia].
    + rewrite tlookup_set_same by assumption. reflexivity.
    + intros j Hj. apply tlookup_set_other; assumption.
  - pose proof (first_free_none t 0 F) as N.
    assert (L : (length t < length (grow t))%nat) by (unfold grow; rewrite app_length, repeat_length; lia).
    repeat split.
    + unfold tlookup, table_reg. rewrite Z.ltb_irrefl, andb_false_r. reflexivity.
    + intros j Hj. replace j with (Z.of_nat (Z.to_nat j)) by lia.
      apply tlookup_registered; [lia|apply N; lia].
    + rewrite tlookup_set_same by assumption. reflexivity.
    + intros j Hj. rewrite tlookup_set_other by assumption. apply tlookup_grow.
Qed.

(* --- what the filter reads is the view -------------------------------------------------------- *)
Lemma is_reg_lookup st id : z2b (is_reg st id) = match lookup st id with Some _ => true | None => false end.
Proof. unfold is_reg, lookup. rewrite <- table_reg_lookup. destruct (table_reg (s_table st) id); reflexivity. Qed.

Lemma eff_pkg_lookup st id : eff_pkg st id = match lookup st id with Some _ => id | None => -1 end.
Proof.
  unfold eff_pkg, g_eff_pkg. rewrite is_reg_lookup. unfold lookup, tlookup.
  destruct (table_reg (s_table st) id) eqn:R; cbn [negb].
  - apply table_reg_range in R. replace (id =? -1) with false by (symmetry; apply Z.eqb_neq; lia). reflexivity.
  - rewrite orb_true_r. reflexivity.
Qed.

Lemma eff_threshold_lookup st id :
  eff_threshold st id = match lookup st id with
                        | Some (_, t) => if t =? c19_const_lp_default then s_dthr st else t
                        | None => s_dthr st end.
Proof.
  unfold eff_threshold, g_eff_thr. fold (eff_pkg st id). rewrite eff_pkg_lookup.
  unfold lookup, tlookup. destruct (table_reg (s_table st) id) eqn:R; [|reflexivity].
  apply table_reg_range in R. replace (id =? -1) with false by (symmetry; apply Z.eqb_neq; lia). reflexivity.
Qed.

Lemma eff_handler_lookup st id :
  eff_handler st id = match lookup st id with
                      | Some (h, _) => if h =? 0 then s_dhandler st else h
                      | None => s_dhandler st end.
Proof.
  unfold eff_handler, g_eff_handler. fold (eff_pkg st id). rewrite eff_pkg_lookup.
  unfold lookup, tlookup. destruct (table_reg (s_table st) id) eqn:R; [|reflexivity].
  apply table_reg_range in R. replace (id =? -1) with false by (symmetry; apply Z.eqb_neq; lia). reflexivity.
Qed.

Lemma log_st_view a b : view_eq a b -> forall p c q m, log_st a p c q m = log_st b p c q m.
Proof.
  intros [(G1 & G2 & G3 & G4 & G5 & G6 & G7) L] p c q m.
  rewrite !log_st_events. unfold trace_delivery, log_delivery.
  rewrite !eff_pkg_lookup, !eff_threshold_lookup, !eff_handler_lookup, L.
  unfold passes, trace_on, eff_stream. rewrite G1, G2, G3, G4, G5, G6. reflexivity.
Qed.

Lemma logv_st_view a b : view_eq a b -> forall p c q m, logv_st a p c q m = logv_st b p c q m.
Proof.
  intros V p c q m. rewrite !logv_events, (log_st_view a b V), !eff_pkg_lookup.
  destruct V as [_ L]. rewrite L. reflexivity.
Qed.

Lemma lock_legal_view a b : view_eq a b -> forall p, lock_legal a p = lock_legal b p.
Proof. intros [_ L] p. unfold lock_legal. rewrite !is_reg_lookup, L. reflexivity. Qed.

Lemma expand_own_view a b : view_eq a b -> forall e, expand_own a e = expand_own b e.
Proof.
  intros V [[[[[[k h] s] p] c] q] m]. unfold expand_own.
  rewrite (log_st_view a b V), (logv_st_view a b V). reflexivity.
Qed.

Lemma isreg_query_view dbg a b : view_eq a b -> forall p, isreg_query dbg a p = isreg_query dbg b p.
Proof.
  intros V p. unfold isreg_query, isreg_side.
  rewrite (flat_map_ext _ _ (expand_own_view a b V)).
  destruct V as [(_ & _ & _ & _ & _ & _ & G7) _]. rewrite G7. reflexivity.
Qed.

Lemma log_full_view dbg a b : view_eq a b -> forall p c q m, log_full dbg a p c q m = log_full dbg b p c q m.
Proof.
  intros V p c q m. unfold log_full. rewrite (log_st_view a b V), (isreg_query_view dbg a b V). reflexivity.
Qed.

Lemma logv_full_view dbg a b : view_eq a b -> forall p c q m, logv_full dbg a p c q m = logv_full dbg b p c q m.
Proof. intros V p c q m. unfold logv_full. rewrite (logv_st_view a b V), (isreg_query_view dbg a b V). reflexivity. Qed.

Lemma expand_full_view dbg a b : view_eq a b -> forall e, expand_full dbg a e = expand_full dbg b e.
Proof.
  intros V [[[[[[k h] s] p] c] q] m]. unfold expand_full.
  rewrite (log_full_view dbg a b V), (logv_full_view dbg a b V). reflexivity.
Qed.

(* --- effect of every operation on the view ----------------------------------------------------- *)
Lemma with_table_globals st t : same_globals st (with_table st t).
Proof. repeat split. Qed.

Theorem step_register dbg st h thr st' evs :
  step dbg st (ORegister h thr) = Some (st', evs) ->
  exists id, evs = [(5, 0, 0, id, 0, 0, 0)] /\ 0 <= id
    /\ lookup st id = None /\ (forall j, 0 <= j < id -> lookup st j <> None)
    /\ lookup st' id = Some (h, thr) /\ (forall j, j <> id -> lookup st' j = lookup st j)
    /\ same_globals st st' /\ valid_thr thr = true.
Proof.
  cbn [step]. destruct (valid_thr thr) eqn:V; [|discriminate].
  destruct (register (s_table st) h thr) as [i t] eqn:R. intros H; injection H as <- <-.
  apply register_spec in R. destruct R as (R1 & R2 & R3 & R4).
  exists (Z.of_nat i). repeat split; try assumption; lia.
Qed.

Theorem step_unregister dbg st id st' evs :
  step dbg st (OUnregister id) = Some (st', evs) ->
  evs = [] /\ lookup st id <> None /\ lookup st' id = None
  /\ (forall j, j <> id -> lookup st' j = lookup st j) /\ same_globals st st'.
Proof.
  cbn [step]. destruct (table_reg (s_table st) id) eqn:R; [|discriminate].
  intros H; injection H as <- <-.
  pose proof (table_reg_range _ _ R) as Rg.
  assert (Hi : (Z.to_nat id < length (s_table st))%nat) by lia.
  repeat split.
  - unfold lookup. rewrite table_reg_lookup in R. destruct (tlookup (s_table st) id); [discriminate|discriminate].
  - unfold lookup, with_table; cbn [s_table]. rewrite tlookup_set_same_z by assumption. reflexivity.
  - intros j Hj. unfold lookup, with_table; cbn [s_table]. apply tlookup_set_other_z; assumption.
Qed.

Theorem step_set_verbosity dbg st id thr st' evs :
  step dbg st (OSetVerbosity id thr) = Some (st', evs) ->
  evs = [] /\ (exists h t0, lookup st id = Some (h, t0) /\ lookup st' id = Some (h, thr))
  /\ (forall j, j <> id -> lookup st' j = lookup st j) /\ same_globals st st' /\ valid_thr thr = true.
Proof.
  cbn [step]. destruct (table_reg (s_table st) id) eqn:R; [|discriminate].
  destruct (valid_thr thr) eqn:V; [|discriminate]. cbn [andb].
  intros H; injection H as <- <-.
  pose proof (table_reg_range _ _ R) as Rg.
  assert (Hi : (Z.to_nat id < length (s_table st))%nat) by lia.
  repeat split.
  - exists (pk_h st id), (pk_thr st id). split.
    + unfold lookup, tlookup. rewrite R. reflexivity.
    + unfold lookup, with_table; cbn [s_table]. rewrite tlookup_set_same_z by assumption. reflexivity.
  - intros j Hj. unfold lookup, with_table; cbn [s_table]. apply tlookup_set_other_z; assumption.
Qed.

Theorem step_set_defaults dbg st stream h thr st' evs :
  step dbg st (OSetDefaults stream h thr) = Some (st', evs) ->
  evs = []
  /\ s_dhandler st' = (if h =? 0 then BUILTIN else h)
  /\ s_dthr st' = (if thr =? c19_const_lp_default then lp_threshold dbg else thr)
  /\ s_stream st' = stream
  /\ s_table st' = s_table st /\ s_ident st' = s_ident st /\ s_tfile st' = s_tfile st
  /\ s_tprio st' = s_tprio st /\ s_pkgid st' = s_pkgid st.
Proof.
  cbn [step]. destruct dbg.
  - unfold sc_set_log_defaults_dbg.
    destruct (h =? 0) eqn:Eh; destruct (thr =? -1) eqn:Et; cbn [negb];
      change c19_const_lp_default with (-1); rewrite ?Et;
      try (destruct ((0 <=? thr) && (thr <=? 9))); cbn; intros H; try discriminate;
      injection H as <- <-; repeat split.
  - unfold sc_set_log_defaults.
    destruct (h =? 0) eqn:Eh; destruct (thr =? -1) eqn:Et; cbn [negb];
      change c19_const_lp_default with (-1); rewrite ?Et; cbn; intros H;
      injection H as <- <-; repeat split.
Qed.

Theorem step_log_keeps_state dbg st o st' evs :
  (match o with OLog _ _ _ _ | OLogv _ _ _ _ | OGenLog _ _ _ _ | OGenLogf _ _ _ _ => True | _ => False end) ->
  step dbg st o = Some (st', evs) -> st' = st.
Proof.
  destruct o; intros T; try contradiction; cbn [step]; intros H.
  - injection H as <- _; reflexivity.
  - injection H as <- _; reflexivity.
  - injection H as <- _; reflexivity.
  - injection H as <- _; reflexivity.
Qed.

(* logging never ends the process and never changes the state, whatever the package id *)
Theorem step_log_total dbg st o :
  (match o with OLog _ _ _ _ | OLogv _ _ _ _ | OGenLog _ _ _ _ | OGenLogf _ _ _ _ => True | _ => False end) ->
  exists evs, step dbg st o = Some (st, evs).
Proof. destruct o; intros T; try contradiction; cbn [step]; eexists; reflexivity. Qed.

Theorem step_finalize dbg st st' evs :
  step dbg st OFinalize = Some (st', evs) ->
  evs = [] /\ (forall id, lookup st' id = None) /\ s_ident st' = -1 /\ s_tfile st' = 0 /\ s_pkgid st' = -1
  /\ s_dthr st' = s_dthr st /\ s_dhandler st' = s_dhandler st /\ s_stream st' = s_stream st /\ s_tprio st' = s_tprio st.
Proof.
  cbn [step]. intros H; injection H as <- <-. repeat split.
  intros id. unfold lookup, tlookup. cbn [s_table].
  destruct (table_reg [] id) eqn:R; [|reflexivity]. apply table_reg_range in R. cbn in R. lia.
Qed.

Theorem step_init dbg st ident h thr st' evs :
  step dbg st (OInit ident h thr) = Some (st', evs) ->
  exists id, 0 <= id /\ s_pkgid st = -1 /\ s_pkgid st' = id /\ s_ident st' = ident
    /\ lookup st id = None /\ (forall j, 0 <= j < id -> lookup st j <> None)
    /\ lookup st' id = Some (h, thr) /\ (forall j, j <> id -> lookup st' j = lookup st j)
    /\ s_dthr st' = s_dthr st /\ s_dhandler st' = s_dhandler st /\ s_stream st' = s_stream st
    /\ s_tfile st' = s_tfile st /\ s_tprio st' = s_tprio st
    /\ evs = flat_map (fun m => logv_st st' id c19_const_lc_global (if m =? MSG_THIS_IS then c19_const_lp_essential else c19_const_lp_production) m)
                      (MSG_THIS_IS :: MSG_INIT) ++ [(5, 0, 0, id, 0, 0, 0)].
Proof.
  cbn [step]. destruct (valid_thr thr) eqn:V; [|discriminate].
  destruct (s_pkgid st =? -1) eqn:P; [|discriminate]. cbn [andb]. apply Z.eqb_eq in P.
  destruct (register (s_table st) h thr) as [i t] eqn:R. intros H; injection H as <- <-.
  apply register_spec in R. destruct R as (R1 & R2 & R3 & R4).
  exists (Z.of_nat i). repeat split; try assumption; try lia.
  destruct dbg; cbn; rewrite ?app_nil_r; reflexivity.
Qed.

(* --- the table layout is unobservable: equal views give equal behaviour for every history ------ *)
Lemma register_view t1 t2 h thr i1 i2 t1' t2' :
  (forall j, tlookup t1 j = tlookup t2 j) ->
  register t1 h thr = (i1, t1') -> register t2 h thr = (i2, t2') ->
  i1 = i2 /\ forall j, tlookup t1' j = tlookup t2' j.
Proof.
  intros L R1 R2. apply register_spec in R1, R2.
  destruct R1 as (A1 & A2 & A3 & A4), R2 as (B1 & B2 & B3 & B4).
  assert (E : i1 = i2).
  { destruct (Nat.lt_trichotomy i1 i2) as [H|[H|H]]; [|exact H|].
    - exfalso. apply (B2 (Z.of_nat i1)); [lia|]. rewrite <- L. exact A1.
    - exfalso. apply (A2 (Z.of_nat i2)); [lia|]. rewrite L. exact B1. }
  subst i2. split; [reflexivity|]. intros j.
  destruct (Z.eq_dec j (Z.of_nat i1)) as [->|N]; [rewrite A3, B3; reflexivity|].
  rewrite A4, B4 by assumption. apply L.
Qed.

Lemma view_eq_refl a : view_eq a a.
Proof. repeat split. Qed.

Theorem step_view dbg a b o : view_eq a b ->
  match step dbg a o, step dbg b o with
  | Some (a', e1), Some (b', e2) => e1 = e2 /\ view_eq a' b'
  | None, None => True
  | _, _ => False
  end.
Proof.
  intros V. pose proof V as [(G1 & G2 & G3 & G4 & G5 & G6 & G7) L].
  assert (TR : forall id, table_reg (s_table a) id = table_reg (s_table b) id).
  { intros id. rewrite !table_reg_lookup. fold (lookup a id) (lookup b id). rewrite L. reflexivity. }
  destruct o; cbn [step].
  - (* set defaults *)
    rewrite G1.
    destruct ((if dbg then sc_set_log_defaults_dbg else sc_set_log_defaults) (s_dthr b) BUILTIN stream handler thr) as [[[dh dt] ds] evs].
    destruct evs; [|exact I]. split; [reflexivity|]. repeat split; cbn; assumption.
  - (* register *)
    destruct (valid_thr thr); [|exact I].
    destruct (register (s_table a) handler thr) as [i1 t1] eqn:R1.
    destruct (register (s_table b) handler thr) as [i2 t2] eqn:R2.
    destruct (register_view _ _ _ _ _ _ _ _ L R1 R2) as [-> L'].
    split; [reflexivity|]. repeat split; cbn; assumption.
  - (* unregister *)
    rewrite TR. destruct (table_reg (s_table b) id) eqn:R; [|exact I].
    split; [reflexivity|]. split; [repeat split; assumption|].
    assert (Ra : table_reg (s_table a) id = true) by (rewrite TR; exact R).
    apply table_reg_range in R, Ra.
    intros j. unfold lookup, with_table; cbn [s_table].
    destruct (Z.eq_dec j id) as [->|N].
    + rewrite !tlookup_set_same_z by lia. reflexivity.
    + rewrite !tlookup_set_other_z by lia. apply L.
  - (* set verbosity *)
    rewrite TR. destruct (table_reg (s_table b) id) eqn:R; [|exact I].
    destruct (valid_thr thr); [|exact I]. cbn [andb].
    split; [reflexivity|]. split; [repeat split; assumption|].
    assert (Ra : table_reg (s_table a) id = true) by (rewrite TR; exact R).
    assert (Hh : pk_h a id = pk_h b id).
    { specialize (L id). unfold lookup, tlookup in L. rewrite R, Ra in L. injection L as L1 _. exact L1. }
    apply table_reg_range in R, Ra.
    intros j. unfold lookup, with_table; cbn [s_table].
    destruct (Z.eq_dec j id) as [->|N].
    + rewrite !tlookup_set_same_z by lia. cbn. rewrite Hh. reflexivity.
    + rewrite !tlookup_set_other_z by lia. apply L.
  - (* init *)
    rewrite G7. destruct (valid_thr thr && (s_pkgid b =? -1)); [|exact I].
    destruct (register (s_table a) handler thr) as [i1 t1] eqn:R1.
    destruct (register (s_table b) handler thr) as [i2 t2] eqn:R2.
    destruct (register_view _ _ _ _ _ _ _ _ L R1 R2) as [-> L'].
    match goal with |- flat_map (expand_own ?x) _ ++ _ = flat_map (expand_own ?y) _ ++ _ /\ _ =>
      assert (V' : view_eq x y) by (repeat split; cbn; assumption) end.
    split; [|exact V']. f_equal. apply flat_map_ext. apply expand_own_view. exact V'.
  - (* finalize *)
    split; [reflexivity|]. repeat split; cbn; assumption.
  - (* trace *)
    split; [reflexivity|]. repeat split; cbn; assumption.
  - split; [apply log_full_view; exact V|exact V].
  - split; [apply logv_full_view; exact V|exact V].
  - split; [apply flat_map_ext; apply expand_full_view; exact V|exact V].
  - split; [apply flat_map_ext; apply expand_full_view; exact V|exact V].
Qed.

Theorem run_view dbg ops : forall a b, view_eq a b ->
  match run dbg a ops, run dbg b ops with
  | Some (a', e1), Some (b', e2) => e1 = e2 /\ view_eq a' b'
  | None, None => True
  | _, _ => False
  end.
Proof.
  induction ops as [|o r IH]; intros a b V; cbn [run]; [split; [reflexivity|exact V]|].
  pose proof (step_view dbg a b o V) as S.
  destruct (step dbg a o) as [[a1 e1]|], (step dbg b o) as [[b1 f1]|]; try contradiction; [|exact I].
  destruct S as [-> V1]. specialize (IH a1 b1 V1).
  destruct (run dbg a1 r) as [[a2 e2]|], (run dbg b1 r) as [[b2 f2]|]; try contradiction; [|exact I].
  destruct IH as [-> V2]. split; [reflexivity|exact V2].
Qed.

(* --- reachable states: the handler that sc_log calls is never NULL ------------------------------ *)
Lemma step_dhandler dbg st o st' evs : step dbg st o = Some (st', evs) -> s_dhandler st <> 0 -> s_dhandler st' <> 0.
Proof.
  destruct o; cbn [step]; intros H N.
  - apply step_set_defaults in H. destruct H as (_ & H & _). rewrite H.
    destruct (handler =? 0) eqn:E; [discriminate|apply Z.eqb_neq in E; exact E].
  - destruct (valid_thr thr); [|discriminate]. destruct (register _ _ _). injection H as <- _. exact N.
  - destruct (table_reg _ _); [|discriminate]. injection H as <- _. exact N.
  - destruct (table_reg _ _ && valid_thr _); [|discriminate]. injection H as <- _. exact N.
  - destruct (valid_thr thr && _); [|discriminate]. destruct (register _ _ _). injection H as <- _. exact N.
  - injection H as <- _. exact N.
  - injection H as <- _. exact N.
  - injection H as <- _. exact N.
  - injection H as <- _. exact N.
  - injection H as <- _. exact N.
  - injection H as <- _. exact N.
Qed.

Lemma run_dhandler dbg ops : forall st st' evs, run dbg st ops = Some (st', evs) -> s_dhandler st <> 0 -> s_dhandler st' <> 0.
Proof.
  induction ops as [|o r IH]; intros st st' evs H N; cbn [run] in H.
  - injection H as <- _. exact N.
  - destruct (step dbg st o) as [[s1 e1]|] eqn:S; [|discriminate].
    destruct (run dbg s1 r) as [[s2 e2]|] eqn:R; [|discriminate]. injection H as <- _.
    eapply IH; [exact R|]. eapply step_dhandler; [exact S|exact N].
Qed.

Theorem handler_never_null dbg ops st evs :
  run dbg (init_state dbg) ops = Some (st, evs) -> forall package, eff_handler st package <> 0.
Proof.
  intros H package.
  assert (N : s_dhandler st <> 0) by (eapply run_dhandler; [exact H|destruct dbg; discriminate]).
  rewrite eff_handler_lookup. destruct (lookup st package) as [[h t]|]; [|exact N].
  destruct (h =? 0) eqn:E; [exact N|apply Z.eqb_neq in E; exact E].
Qed.

(* thresholds take effect immediately: the very next message is judged by the new value *)
Theorem set_verbosity_immediate dbg st id thr st' evs :
  step dbg st (OSetVerbosity id thr) = Some (st', evs) ->
  eff_threshold st' id = (if thr =? c19_const_lp_default then s_dthr st else thr)
  /\ eff_handler st' id = eff_handler st id
  /\ forall j, j <> id -> eff_threshold st' j = eff_threshold st j /\ eff_handler st' j = eff_handler st j.
Proof.
  intros H. apply step_set_verbosity in H.
  destruct H as (_ & (h & t0 & L0 & L1) & Lo & (G1 & G2 & _) & _).
  rewrite !eff_threshold_lookup, !eff_handler_lookup, L0, L1, <- G1, <- G2.
  repeat split; try reflexivity;
    rewrite ?eff_threshold_lookup, ?eff_handler_lookup, Lo, <- ?G1, <- ?G2 by assumption; reflexivity.
Qed.

Theorem set_defaults_immediate dbg st stream h thr st' evs :
  step dbg st (OSetDefaults stream h thr) = Some (st', evs) ->
  forall id, eff_threshold st' id =
             match lookup st id with
             | Some (_, t) => if t =? c19_const_lp_default then (if thr =? c19_const_lp_default then lp_threshold dbg else thr) else t
             | None => if thr =? c19_const_lp_default then lp_threshold dbg else thr end.
Proof.
  intros H id. apply step_set_defaults in H. destruct H as (_ & _ & H2 & _ & H4 & _).
  rewrite eff_threshold_lookup. unfold lookup. rewrite H4, H2. reflexivity.
Qed.
