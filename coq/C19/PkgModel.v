(* C19 - the CONCRETE package registry: the table sc_packages[0 .. sc_num_packages_alloc) with the fields the log
   filter depends on, the counter sc_num_packages, and the meaning of the events of the GENERATED registry
   functions (Gen/PkgC19.v, see tools/c2g/groups_C19.py for the conventions):
     (6, f, 0, slot, 0, 0, v)   store of v into field f of a slot   (1 is_registered, 2 log_handler, 3 log_threshold,
                                                                      4 log_indent, 5 abort_mismatch)
     (7, 0, 0, 0, 0, 0, n)      sc_packages = realloc (sc_packages, n * sizeof (sc_package_t))
     (7, 1, ..)                 free (sc_packages)
     (8, c, 0, x, ..)           call: 1 sc_package_unregister_noabort (x), 2 sc_memory_check_noerr (x),
                                      4 pthread_mutex_init (slot x), 5 pthread_mutex_destroy (slot x)
     (9, ..)                    the process aborts (failed SC_CHECK_ABORT / live SC_ASSERT)
   The machine [kstep] EXECUTES the generated functions on this table; C19/PkgProofs.v proves that it refines the
   hand-written model of LogModel.v for every history.  Executable definitions only. *)
From Coq Require Import ZArith List Bool.
From ScV Require Import Base.CInt Gen.LogC19 Gen.PkgC19 C19.LogModel.
Import ListNotations.
Local Open Scope Z_scope.
Local Open Scope bool_scope.

Record slot := mkslot { k_reg : Z; k_handler : Z; k_thr : Z; k_indent : Z; k_abort : Z }.

(* what realloc leaves in new memory is arbitrary: [junk] is a parameter of everything below *)
Definition slot0 : slot := mkslot 0 0 0 0 0.
Definition snth (t : list slot) (i : Z) : slot := nth (Z.to_nat i) t slot0.

(* the table as the memory-read functions of the generated code *)
Definition m_reg (t : list slot) (i : Z) : Z := k_reg (snth t i).
Definition m_handler (t : list slot) (i : Z) : Z := k_handler (snth t i).
Definition m_thr (t : list slot) (i : Z) : Z := k_thr (snth t i).
Definition m_indent (t : list slot) (i : Z) : Z := k_indent (snth t i).
Definition m_abort (t : list slot) (i : Z) : Z := k_abort (snth t i).

Definition setf (f v : Z) (s : slot) : slot :=
  if f =? 1 then mkslot v (k_handler s) (k_thr s) (k_indent s) (k_abort s)
  else if f =? 2 then mkslot (k_reg s) v (k_thr s) (k_indent s) (k_abort s)
  else if f =? 3 then mkslot (k_reg s) (k_handler s) v (k_indent s) (k_abort s)
  else if f =? 4 then mkslot (k_reg s) (k_handler s) (k_thr s) v (k_abort s)
  else if f =? 5 then mkslot (k_reg s) (k_handler s) (k_thr s) (k_indent s) v
  else s.

Fixpoint upd_nth (n : nat) (g : slot -> slot) (t : list slot) : list slot :=
  match t, n with
  | [], _ => []
  | x :: r, O => g x :: r
  | x :: r, S n' => x :: upd_nth n' g r
  end.

(* a store outside the table is undefined behaviour in C; here it changes nothing (the theorems show it never happens) *)
Definition upd (t : list slot) (i : Z) (g : slot -> slot) : list slot :=
  if 0 <=? i then upd_nth (Z.to_nat i) g t else t.

Definition apply_ev (junk : slot) (t : list slot) (e : event) : list slot :=
  let '(k, f, _, i, _, _, v) := e in
  if k =? 6 then upd t i (setf f v)
  else if k =? 7 then (if f =? 0 then t ++ repeat junk (Z.to_nat v - length t) else [])
  else t.

Definition apply_evs (junk : slot) (t : list slot) (evs : list event) : list slot := fold_left (apply_ev junk) evs t.

Definition is_abort (e : event) : bool := let '(k, _, _, _, _, _, _) := e in k =? 9.
Definition aborts (evs : list event) : bool := existsb is_abort evs.

(* the abstraction to the table of LogModel *)
Definition abs_slot (s : slot) : pkg := mkpkg (z2b (k_reg s)) (k_handler s) (k_thr s).
Definition abs (t : list slot) : list pkg := map abs_slot t.

(* ------------------------------------------------------------------------------------------------------------- *)
(* the registry state and the generated functions executed on it                                               *)
(* ------------------------------------------------------------------------------------------------------------- *)
Record creg := mkcreg { c_slots : list slot; c_num : Z }.        (* sc_packages[0 .. alloc), sc_num_packages *)
Definition c_alloc (c : creg) : Z := Z.of_nat (length (c_slots c)).

(* sc_package_is_registered (value only; its message for negative ids is in LogModel.isreg_side) *)
Definition k_is_reg (c : creg) (pkgid id : Z) : Z :=
  snd (sc_package_is_registered (m_reg (c_slots c)) (c_num c) (c_alloc c) pkgid id).

(* the table does not grow beyond 2^30 slots in this model: realloc of 2^31 * sizeof (sc_package_t) bytes fails *)
Definition MAXSLOTS : Z := 1073741824.

(* sc_package_register: names are unique and legal (pk_name_cmp = 1, name_cmp_default = 1, no space), realloc and
   pthread_mutex_init succeed.  Result: new state and new id; None = abort *)
Definition k_register (junk : slot) (c : creg) (h thr : Z) : option (creg * Z) :=
  let t := c_slots c in
  if MAXSLOTS <=? c_alloc c then None else
  match sc_package_register (S (S (2 * length t))) (m_reg t) (fun _ => 1) 1 (c_num c) (c_alloc c) 1 0 1 0 h thr with
  | Some (evs, num, alloc, _, id) =>
      if aborts evs then None else Some (mkcreg (apply_evs junk t evs) num, id)
  | None => None
  end.

(* sc_package_unregister: the call event (8, 1, id) is executed by the generated sc_package_unregister_noabort
   (no allocations through libsc: sc_memory_check_noerr returns 0; pthread_mutex_destroy succeeds) *)
Definition k_unregister (junk : slot) (c : creg) (pkgid dam id : Z) : option (creg * list event) :=
  let t := c_slots c in
  let isr := k_is_reg c pkgid in
  let '(evs1, num, nerr) := sc_package_unregister_noabort isr (c_num c) (c_alloc c) pkgid 0 0 id in
  let evs0 := sc_package_unregister isr (m_abort t) dam nerr id in
  if aborts evs0 then None else Some (mkcreg (apply_evs junk t evs1) num, evs1).

Definition k_set_verbosity (junk : slot) (c : creg) (pkgid id thr : Z) : option creg :=
  let evs := sc_package_set_verbosity (k_is_reg c pkgid) id thr in
  if aborts evs then None else Some (mkcreg (apply_evs junk (c_slots c) evs) (c_num c)).

(* sc_finalize_noabort: every call event (8, 1, i) of the generated loop is executed by the generated
   sc_package_unregister_noabort on the table as it is at that moment *)
Fixpoint k_run_calls (junk : slot) (c : creg) (pkgid : Z) (evs : list event) : creg :=
  match evs with
  | [] => c
  | e :: r =>
    let '(k, f, _, i, _, _, _) := e in
    let c1 :=
      if (k =? 8) && (f =? 1) then
        let '(evs1, num, _) := sc_package_unregister_noabort (k_is_reg c pkgid) (c_num c) (c_alloc c) pkgid 0 0 i in
        mkcreg (apply_evs junk (c_slots c) evs1) num
      else mkcreg (apply_ev junk (c_slots c) e) (c_num c) in
    k_run_calls junk c1 pkgid r
  end.

(* result: the registry afterwards, (sc_identifier, sc_trace_file, sc_package_id) afterwards, the events *)
Definition k_finalize (junk : slot) (c : creg) (tfile pkgid : Z) : option (creg * (Z * Z * Z) * list event) :=
  match sc_finalize_noabort (S (length (c_slots c))) (m_reg (c_slots c)) (c_num c) (c_alloc c) tfile pkgid 0 0 0 with
  | Some (evs, alloc, _, ident, tf, pid, _) => Some (k_run_calls junk c pkgid evs, (ident, tf, pid), evs)
  | None => None
  end.

(* the log indentation (configurations without SC_ENABLE_PTHREAD; compiled out in the pinned one) *)
Definition k_indent_push (junk : slot) (c : creg) (id count : Z) : creg :=
  mkcreg (apply_evs junk (c_slots c) (sc_log_indent_push_count_np (m_indent (c_slots c)) id count)) (c_num c).
Definition k_indent_pop (junk : slot) (c : creg) (id count : Z) : creg :=
  mkcreg (apply_evs junk (c_slots c) (sc_log_indent_pop_count_np (m_indent (c_slots c)) id count)) (c_num c).

(* ------------------------------------------------------------------------------------------------------------- *)
(* the machine: LogModel.step with the registry operations replaced by the generated functions                   *)
(* ------------------------------------------------------------------------------------------------------------- *)
Record kstate := mkk { kg : lstate; kc : creg }.     (* kg: the globals (its s_table is not used); kc: the registry *)

Definition k_view (k : kstate) : lstate := with_table (kg k) (abs (c_slots (kc k))).

Definition kstep (junk : slot) (dbg : bool) (k : kstate) (o : op) : option (kstate * list event) :=
  let g := kg k in
  let c := kc k in
  match o with
  | ORegister h thr =>
      match k_register junk c h thr with
      | Some (c', id) => Some (mkk g c', [(5, 0, 0, id, 0, 0, 0)])
      | None => None
      end
  | OUnregister id =>
      match k_unregister junk c (s_pkgid g) 1 id with
      | Some (c', _) => Some (mkk g c', [])
      | None => None
      end
  | OSetVerbosity id thr =>
      match k_set_verbosity junk c (s_pkgid g) id thr with
      | Some c' => Some (mkk g c', [])
      | None => None
      end
  | OInit ident handler thr =>
      if s_pkgid g =? -1 then
        match k_register junk c handler thr with
        | Some (c', id) =>
            let g' := mkst (s_dthr g) (s_dhandler g) (s_stream g) ident (s_tfile g) (s_tprio g) id [] in
            let v := with_table g' (abs (c_slots c')) in
            let macro := if dbg then w_c19_global_essential_dbg else w_c19_global_essential in
            let macrop := if dbg then w_c19_global_production_dbg else w_c19_global_production in
            Some (mkk g' c', flat_map (expand_own v) (macro id MSG_THIS_IS ++ flat_map (macrop id) MSG_INIT) ++ [(5, 0, 0, id, 0, 0, 0)])
        | None => None
        end
      else None
  | OFinalize =>
      match k_finalize junk c (s_tfile g) (s_pkgid g) with
      | Some (c', (ident, tf, pid), _) =>
          Some (mkk (mkst (s_dthr g) (s_dhandler g) (s_stream g) ident tf (s_tprio g) pid []) c', [])
      | None => None
      end
  | _ =>
      (* everything else reads the table only: LogModel.step on the view *)
      match step dbg (k_view k) o with
      | Some (v', evs) => Some (mkk (with_table v' []) c, evs)
      | None => None
      end
  end.

Fixpoint krun (junk : slot) (dbg : bool) (k : kstate) (ops : list op) : option (kstate * list event) :=
  match ops with
  | [] => Some (k, [])
  | o :: r =>
    match kstep junk dbg k o with
    | None => None
    | Some (k1, e1) =>
      match krun junk dbg k1 r with
      | None => None
      | Some (k2, e2) => Some (k2, e1 ++ e2)
      end
    end
  end.

Definition k_init (dbg : bool) : kstate := mkk (init_state dbg) (mkcreg [] 0).
