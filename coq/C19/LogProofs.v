(* C19 - proofs about the GENERATED log filter (Gen/LogC19.v) and the state machine of LogModel.v *)
From Coq Require Import ZArith List Bool Lia.
From ScV Require Import Base.CInt Gen.LogC19 C19.LogModel.
Import ListNotations.
Local Open Scope Z_scope.
Local Open Scope bool_scope.

(* ------------------------------------------------------------------------------------------ *)
(* 1. The decision of sc_log, for every representation of the state                          *)
(* ------------------------------------------------------------------------------------------ *)
Section Filter.
  Variables (isr pkt pkh : Z -> Z) (dthr dh stream stdout ident tfile tprio : Z).

  (* the package the message is attributed to: unregistered ids are the default package -1 *)
  Definition g_eff_pkg (package : Z) : Z :=
    if (package =? -1) || negb (z2b (isr package)) then -1 else package.
  Definition g_eff_thr (package : Z) : Z :=
    let p := g_eff_pkg package in
    if p =? -1 then dthr else if pkt p =? c19_const_lp_default then dthr else pkt p.
  Definition g_eff_handler (package : Z) : Z :=
    let p := g_eff_pkg package in
    if p =? -1 then dh else if pkh p =? 0 then dh else pkh p.
  Definition g_eff_stream : Z := if stream =? 0 then stdout else stream.

  (* category valid, priority strictly between ALWAYS and SILENT, global messages only on rank <= 0 *)
  Definition g_passes (category priority : Z) : bool :=
    ((category =? c19_const_lc_normal) || (category =? c19_const_lc_global))
    && ((c19_const_lp_always <? priority) && (priority <? c19_const_lp_silent))
    && negb ((category =? c19_const_lc_global) && (0 <? ident)).

  Definition g_trace_on (priority : Z) : bool := negb (tfile =? 0) && (tprio <=? priority).

  Lemma sc_log_events package category priority msg :
    sc_log isr pkt pkh dthr dh stream stdout ident tfile tprio package category priority msg =
    if g_passes category priority then
      [(1, 0, 0, g_eff_pkg package, 0, 0, 0)]
      ++ (if g_trace_on priority
          then [(0, g_eff_handler package, tfile, g_eff_pkg package, category, priority, msg)] else [])
      ++ (if g_eff_thr package <=? priority
          then [(0, g_eff_handler package, g_eff_stream, g_eff_pkg package, category, priority, msg)] else [])
      ++ [(2, 0, 0, g_eff_pkg package, 0, 0, 0)]
    else [].
  Proof.
    unfold sc_log, g_passes, g_trace_on, g_eff_thr, g_eff_handler, g_eff_stream, g_eff_pkg,
      c19_const_lc_normal, c19_const_lc_global, c19_const_lp_always, c19_const_lp_silent, c19_const_lp_default.
    destruct (package =? -1) eqn:Hp; cbn [negb andb orb].
    - rewrite Hp. apply Z.eqb_eq in Hp; subst package.
      change (-1 =? -1) with true; cbn iota.
      destruct (category =? 2), (category =? 1), (0 <? priority), (priority <? 9), (0 <? ident);
        cbn [negb andb orb]; try reflexivity;
        destruct (negb (tfile =? 0) && (tprio <=? priority)), (dthr <=? priority), (stream =? 0); reflexivity.
    - destruct (z2b (isr package)) eqn:Hr; cbn [negb andb orb].
      + rewrite Hp.
        destruct (category =? 2), (category =? 1), (0 <? priority), (priority <? 9), (0 <? ident);
          cbn [negb andb orb]; try reflexivity;
          destruct (pkt package =? -1), (pkh package =? 0);
          destruct (negb (tfile =? 0) && (tprio <=? priority)), (stream =? 0);
          try destruct (dthr <=? priority); try destruct (pkt package <=? priority); reflexivity.
      + change (-1 =? -1) with true; cbn iota.
        destruct (category =? 2), (category =? 1), (0 <? priority), (priority <? 9), (0 <? ident);
          cbn [negb andb orb]; try reflexivity;
          destruct (negb (tfile =? 0) && (tprio <=? priority)), (dthr <=? priority), (stream =? 0); reflexivity.
  Qed.

  (* mapping the id twice is mapping it once; sc_log sees its argument only through the mapping *)
  Lemma g_eff_pkg_idem package : g_eff_pkg (g_eff_pkg package) = g_eff_pkg package.
  Proof.
    unfold g_eff_pkg. destruct (package =? -1) eqn:Hp; cbn [orb]; [reflexivity|].
    destruct (z2b (isr package)) eqn:Hr; cbn [negb]; [rewrite Hp, Hr|]; reflexivity.
  Qed.

  Lemma sc_log_eff package category priority msg :
    sc_log isr pkt pkh dthr dh stream stdout ident tfile tprio (g_eff_pkg package) category priority msg =
    sc_log isr pkt pkh dthr dh stream stdout ident tfile tprio package category priority msg.
  Proof.
    rewrite !sc_log_events. unfold g_eff_thr, g_eff_handler. rewrite !g_eff_pkg_idem. reflexivity.
  Qed.

  (* sc_logf / sc_logv (after repair 622fcc2): the id is mapped to the effective package FIRST, that
     package's mutex is taken and released around the formatting, then sc_log *)
  Lemma sc_logv_events package category priority fmt :
    sc_logv isr pkt pkh dthr dh stream stdout ident tfile tprio package category priority fmt =
    [(1, 0, 0, g_eff_pkg package, 0, 0, 0); (2, 0, 0, g_eff_pkg package, 0, 0, 0)]
    ++ sc_log isr pkt pkh dthr dh stream stdout ident tfile tprio package category priority fmt.
  Proof.
    assert (E : (if negb (package =? -1) && negb (z2b (isr package)) then -1 else package) = g_eff_pkg package).
    { unfold g_eff_pkg. destruct (package =? -1) eqn:Hp; cbn [negb andb orb]; [apply Z.eqb_eq in Hp; exact Hp|].
      destruct (z2b (isr package)); reflexivity. }
    unfold sc_logv. cbv zeta. rewrite E, <- (sc_log_eff package). reflexivity.
  Qed.

  (* the sc_logv of the pinned commit BEFORE repair 622fcc2 (kept to show what a revert would do):
     lock and unlock of the id AS GIVEN, then sc_log *)
  Definition sc_logv_old (package category priority fmt : Z) : list (Z * Z * Z * Z * Z * Z * Z) :=
    [(1, 0, 0, package, 0, 0, 0); (2, 0, 0, package, 0, 0, 0)]
    ++ sc_log isr pkt pkh dthr dh stream stdout ident tfile tprio package category priority fmt.
End Filter.

(* ------------------------------------------------------------------------------------------ *)
(* 2. The same statement about the state of LogModel                                          *)
(* ------------------------------------------------------------------------------------------ *)
Definition eff_pkg (st : lstate) : Z -> Z := g_eff_pkg (is_reg st).
Definition eff_threshold (st : lstate) : Z -> Z := g_eff_thr (is_reg st) (pk_thr st) (s_dthr st).
Definition eff_handler (st : lstate) : Z -> Z := g_eff_handler (is_reg st) (pk_h st) (s_dhandler st).
Definition eff_stream (st : lstate) : Z := g_eff_stream (s_stream st) STDOUT.
Definition passes (st : lstate) : Z -> Z -> bool := g_passes (s_ident st).
Definition trace_on (st : lstate) : Z -> bool := g_trace_on (s_tfile st) (s_tprio st).

Definition kind (e : event) : Z := let '(k, _, _, _, _, _, _) := e in k.
Definition deliveries (evs : list event) : list event := filter (fun e => kind e =? 0) evs.
Definition locks (evs : list event) : list event := filter (fun e => (kind e =? 1) || (kind e =? 2)) evs.

(* the delivery through the log stream and the one through the trace stream *)
Definition log_delivery (st : lstate) (package category priority msg : Z) : event :=
  (0, eff_handler st package, eff_stream st, eff_pkg st package, category, priority, msg).
Definition trace_delivery (st : lstate) (package category priority msg : Z) : event :=
  (0, eff_handler st package, s_tfile st, eff_pkg st package, category, priority, msg).

Lemma log_st_events st package category priority msg :
  log_st st package category priority msg =
  if passes st category priority then
    [(1, 0, 0, eff_pkg st package, 0, 0, 0)]
    ++ (if trace_on st priority then [trace_delivery st package category priority msg] else [])
    ++ (if eff_threshold st package <=? priority then [log_delivery st package category priority msg] else [])
    ++ [(2, 0, 0, eff_pkg st package, 0, 0, 0)]
  else [].
Proof. unfold log_st; rewrite sc_log_events; reflexivity. Qed.

Theorem log_filter st package category priority msg :
  deliveries (log_st st package category priority msg) =
  (if passes st category priority && trace_on st priority
   then [trace_delivery st package category priority msg] else [])
  ++ (if passes st category priority && (eff_threshold st package <=? priority)
      then [log_delivery st package category priority msg] else []).
Proof.
  rewrite log_st_events.
  destruct (passes st category priority); cbn [andb]; [|reflexivity].
  destruct (trace_on st priority), (eff_threshold st package <=? priority); reflexivity.
Qed.

(* Prop form of the conditions *)
Definition category_valid (c : Z) : Prop := c = c19_const_lc_global \/ c = c19_const_lc_normal.
Definition priority_valid (q : Z) : Prop := c19_const_lp_always < q < c19_const_lp_silent.
Definition global_nonroot (st : lstate) (c : Z) : Prop := c = c19_const_lc_global /\ 0 < s_ident st.
Definition admitted (st : lstate) (c q : Z) : Prop :=
  category_valid c /\ priority_valid q /\ ~ global_nonroot st c.
Definition deliverable (st : lstate) (package c q : Z) : Prop :=
  admitted st c q /\ eff_threshold st package <= q.
Definition traceable (st : lstate) (c q : Z) : Prop :=
  admitted st c q /\ s_tfile st <> 0 /\ s_tprio st <= q.

Lemma passes_spec st c q : passes st c q = true <-> admitted st c q.
Proof.
  unfold passes, g_passes, admitted, category_valid, priority_valid, global_nonroot.
  rewrite !andb_true_iff, orb_true_iff, negb_true_iff, andb_false_iff, !Z.eqb_eq, !Z.ltb_lt, Z.eqb_neq, Z.ltb_ge.
  intuition lia.
Qed.

Lemma trace_on_spec st q : trace_on st q = true <-> (s_tfile st <> 0 /\ s_tprio st <= q).
Proof.
  unfold trace_on, g_trace_on. rewrite andb_true_iff, negb_true_iff, Z.eqb_neq, Z.leb_le. tauto.
Qed.

Theorem log_exactly_once st package c q msg :
  exists tr lg,
    deliveries (log_st st package c q msg) = tr ++ lg
    /\ (deliverable st package c q -> lg = [log_delivery st package c q msg])
    /\ (~ deliverable st package c q -> lg = [])
    /\ (traceable st c q -> tr = [trace_delivery st package c q msg])
    /\ (~ traceable st c q -> tr = []).
Proof.
  rewrite log_filter.
  eexists; eexists; split; [reflexivity|].
  unfold deliverable, traceable.
  pose proof (passes_spec st c q) as Hp. pose proof (trace_on_spec st q) as Ht.
  destruct (passes st c q); cbn [andb].
  - assert (Ha : admitted st c q) by (apply Hp; reflexivity).
    destruct (eff_threshold st package <=? q) eqn:E; [apply Z.leb_le in E | apply Z.leb_gt in E];
      (destruct (trace_on st q);
       [assert (Hq : s_tfile st <> 0 /\ s_tprio st <= q) by (apply Ht; reflexivity)
       |assert (Hq : ~ (s_tfile st <> 0 /\ s_tprio st <= q)) by (intro X; apply Ht in X; discriminate)]);
      repeat split; intros; try reflexivity; try tauto; exfalso; try tauto; lia.
  - assert (Ha : ~ admitted st c q) by (intro X; apply Hp in X; discriminate).
    repeat split; intros; try reflexivity; tauto.
Qed.

(* an id that is not registered is the default package *)
Theorem log_unregistered_is_default st package c q msg :
  is_reg st package = 0 -> log_st st package c q msg = log_st st (-1) c q msg.
Proof.
  intros H. rewrite !log_st_events.
  assert (Ep : eff_pkg st package = eff_pkg st (-1)).
  { unfold eff_pkg, g_eff_pkg. rewrite H. change (z2b 0) with false. rewrite orb_true_r. reflexivity. }
  unfold trace_delivery, log_delivery, eff_threshold, eff_handler, g_eff_thr, g_eff_handler, eff_pkg in *.
  rewrite !Ep. reflexivity.
Qed.

(* lock discipline of sc_log: the mutex taken is the one of the EFFECTIVE package, which is -1 or registered *)
Lemma eff_pkg_legal st package : lock_legal st (eff_pkg st package) = true.
Proof.
  unfold lock_legal, eff_pkg, g_eff_pkg.
  destruct (package =? -1) eqn:E; cbn [orb]; [reflexivity|].
  destruct (z2b (is_reg st package)) eqn:R; cbn [negb]; [|reflexivity].
  rewrite E, R. reflexivity.
Qed.

Theorem log_locks st package c q msg :
  locks (log_st st package c q msg) =
  if passes st c q then [(1, 0, 0, eff_pkg st package, 0, 0, 0); (2, 0, 0, eff_pkg st package, 0, 0, 0)] else [].
Proof.
  rewrite log_st_events. destruct (passes st c q); [|reflexivity].
  destruct (trace_on st q), (eff_threshold st package <=? q); reflexivity.
Qed.

(* sc_logf / sc_logv: lock and unlock of the EFFECTIVE package (the one sc_log uses), then sc_log *)
Theorem logv_events st package c q msg :
  logv_st st package c q msg =
  [(1, 0, 0, eff_pkg st package, 0, 0, 0); (2, 0, 0, eff_pkg st package, 0, 0, 0)] ++ log_st st package c q msg.
Proof. unfold logv_st, log_st, eff_pkg. apply sc_logv_events. Qed.

Theorem logv_deliveries st package c q msg :
  deliveries (logv_st st package c q msg) = deliveries (log_st st package c q msg).
Proof. rewrite logv_events. reflexivity. Qed.

Theorem logv_locks st package c q msg :
  locks (logv_st st package c q msg) =
  [(1, 0, 0, eff_pkg st package, 0, 0, 0); (2, 0, 0, eff_pkg st package, 0, 0, 0)]
  ++ (if passes st c q then [(1, 0, 0, eff_pkg st package, 0, 0, 0); (2, 0, 0, eff_pkg st package, 0, 0, 0)] else []).
Proof.
  transitivity ([(1, 0, 0, eff_pkg st package, 0, 0, 0); (2, 0, 0, eff_pkg st package, 0, 0, 0)] ++ locks (log_st st package c q msg)).
  - rewrite logv_events. reflexivity.
  - rewrite log_locks. reflexivity.
Qed.

(* every mutex sc_logv touches exists *)
Theorem logv_locks_legal st package c q msg e :
  In e (locks (logv_st st package c q msg)) ->
  (e = (1, 0, 0, eff_pkg st package, 0, 0, 0) \/ e = (2, 0, 0, eff_pkg st package, 0, 0, 0))
  /\ lock_legal st (eff_pkg st package) = true.
Proof.
  rewrite logv_locks. intros H. split; [|apply eff_pkg_legal].
  destruct (passes st c q); cbn in H; intuition congruence.
Qed.

(* the "Invalid package id" message of sc_package_is_registered: for ids below -1, ONE sc_logf of
   the library itself (package sc_package_id, NORMAL, ERROR); nothing for every other id *)
Theorem isreg_query_once dbg st package :
  isreg_query dbg st package =
  if package <? -1 then logv_st st (s_pkgid st) c19_const_lc_normal c19_const_lp_error MSG_INVALID_ID else [].
Proof.
  unfold isreg_query, isreg_side.
  destruct (package =? -1) eqn:E1.
  - apply Z.eqb_eq in E1; subst package. reflexivity.
  - apply Z.eqb_neq in E1. destruct (package <? 0) eqn:E2.
    + apply Z.ltb_lt in E2. replace (package <? -1) with true by (symmetry; apply Z.ltb_lt; lia).
      destruct dbg; cbn [w_c19_lerror w_c19_lerror_dbg flat_map expand_own]; apply app_nil_r.
    + apply Z.ltb_ge in E2. replace (package <? -1) with false by (symmetry; apply Z.ltb_ge; lia). reflexivity.
Qed.

(* sc_logf never ends the process, whatever the id; it is sc_log plus one lock/unlock of the effective package *)
Theorem logv_step dbg st package c q msg :
  step dbg st (OLogv package c q msg) =
    Some (st, isreg_query dbg st package
              ++ [(1, 0, 0, eff_pkg st package, 0, 0, 0); (2, 0, 0, eff_pkg st package, 0, 0, 0)]
              ++ log_st st package c q msg)
  /\ step dbg st (OLog package c q msg) = Some (st, isreg_query dbg st package ++ log_st st package c q msg).
Proof. cbn [step]. unfold logv_full, log_full. rewrite logv_events. split; reflexivity. Qed.

(* what repair 622fcc2 removed: the OLD sc_logv takes the mutex of an id that is not registered (and is
   not -1) - a mutex that does not exist - while the generated one never does.  A revert makes the
   generated sc_logv equal to sc_logv_old and these two statements contradict logv_locks_legal. *)
Definition logv_old_st (st : lstate) (package category priority msg : Z) : list event :=
  sc_logv_old (is_reg st) (pk_thr st) (pk_h st) (s_dthr st) (s_dhandler st) (s_stream st) STDOUT
              (s_ident st) (s_tfile st) (s_tprio st) package category priority msg.

Theorem logv_old_locks_unregistered st package c q msg :
  package <> -1 -> is_reg st package = 0 ->
  In (1, 0, 0, package, 0, 0, 0) (logv_old_st st package c q msg)
  /\ lock_legal st package = false
  /\ ~ In (1, 0, 0, package, 0, 0, 0) (logv_st st package c q msg)
  /\ deliveries (logv_old_st st package c q msg) = deliveries (logv_st st package c q msg).
Proof.
  intros Hn Hr.
  assert (Ee : eff_pkg st package = -1).
  { unfold eff_pkg, g_eff_pkg. rewrite Hr. change (z2b 0) with false. rewrite orb_true_r. reflexivity. }
  split; [left; reflexivity|]. split.
  - unfold lock_legal. rewrite Hr. apply Z.eqb_neq in Hn. rewrite Hn. reflexivity.
  - split.
    + intros H.
      assert (Hl : In (1, 0, 0, package, 0, 0, 0) (locks (logv_st st package c q msg))).
      { unfold locks. apply filter_In. split; [exact H|reflexivity]. }
      apply logv_locks_legal in Hl. destruct Hl as [[Hl|Hl] _]; rewrite Ee in Hl; congruence.
    + rewrite logv_deliveries. reflexivity.
Qed.

Theorem logv_old_example :
  exists st package c q msg,
    package <> -1 /\ is_reg st package = 0
    /\ logv_old_st st package c q msg <> logv_st st package c q msg.
Proof. exists (init_state false), 0, 2, 5, 7. vm_compute. repeat split; discriminate. Qed.

(* ------------------------------------------------------------------------------------------ *)
(* 3. The macros in front of sc_log                                                           *)
(* ------------------------------------------------------------------------------------------ *)
Definition lp_threshold (dbg : bool) : Z := if dbg then c19_const_lp_threshold_dbg else c19_const_lp_threshold.

Theorem gen_log_macro (dbg : bool) package c q s :
  (if dbg then w_c19_gen_log_dbg else w_c19_gen_log) package c q s =
  if q <? lp_threshold dbg then [] else [(3, 0, 0, package, c, q, s)].
Proof. destruct dbg; reflexivity. Qed.

Theorem gen_logf_macro (dbg : bool) package c q s :
  (if dbg then w_c19_gen_logf_dbg else w_c19_gen_logf) package c q s =
  if q <? lp_threshold dbg then [] else [(4, 0, 0, package, c, q, s)].
Proof. destruct dbg; reflexivity. Qed.

(* SC_GEN_LOG drops exactly the priorities below SC_LP_THRESHOLD and otherwise is sc_log *)
Theorem gen_log_step dbg st package c q msg :
  step dbg st (OGenLog package c q msg) =
  if q <? lp_threshold dbg then Some (st, []) else step dbg st (OLog package c q msg).
Proof.
  cbn [step]. rewrite gen_log_macro. destruct (q <? lp_threshold dbg); cbn; [reflexivity|].
  rewrite app_nil_r. reflexivity.
Qed.

Theorem gen_logf_step dbg st package c q msg :
  step dbg st (OGenLogf package c q msg) =
  if q <? lp_threshold dbg then Some (st, []) else step dbg st (OLogv package c q msg).
Proof.
  cbn [step]. rewrite gen_logf_macro. destruct (q <? lp_threshold dbg); cbn; [reflexivity|].
  rewrite app_nil_r. reflexivity.
Qed.

(* the convenience macros: fixed category and priority, package sc_package_id; never dropped for ERROR,
   ESSENTIAL and PRODUCTION in either configuration *)
Theorem convenience_macros (dbg : bool) id s :
  (if dbg then w_c19_lerror_dbg else w_c19_lerror) id s = [(4, 0, 0, id, c19_const_lc_normal, c19_const_lp_error, s)]
  /\ (if dbg then w_c19_global_essential_dbg else w_c19_global_essential) id s = [(4, 0, 0, id, c19_const_lc_global, c19_const_lp_essential, s)]
  /\ (if dbg then w_c19_global_production_dbg else w_c19_global_production) id s = [(4, 0, 0, id, c19_const_lc_global, c19_const_lp_production, s)]
  /\ (if dbg then w_c19_trace_dbg else w_c19_trace) id s = (if dbg then [(4, 0, 0, id, c19_const_lc_normal, c19_const_lp_trace, s)] else [])
  /\ (if dbg then w_c19_global_info_dbg else w_c19_global_info) id s = [(4, 0, 0, id, c19_const_lc_global, 4, s)].
Proof. destruct dbg; repeat split; reflexivity. Qed.
