(* C19 - histories: packages unregistered with messages in between, ids reused, sc_set_log_defaults after
   registration, every sequence of threshold changes interleaved with messages. *)
From Coq Require Import ZArith List Bool Lia.
From ScV Require Import Base.CInt Gen.LogC19 C19.LogModel C19.LogProofs C19.LogMachine.
Import ListNotations.
Local Open Scope Z_scope.
Local Open Scope bool_scope.

Lemma eff_same st st' j : lookup st' j = lookup st j -> s_dthr st' = s_dthr st -> s_dhandler st' = s_dhandler st ->
  eff_pkg st' j = eff_pkg st j /\ eff_threshold st' j = eff_threshold st j /\ eff_handler st' j = eff_handler st j.
Proof. intros L A B. rewrite !eff_pkg_lookup, !eff_threshold_lookup, !eff_handler_lookup, L, A, B. repeat split. Qed.

(* after sc_package_unregister (id) every message for id is a message of the default package, at once; the other
   packages are not touched *)
Theorem unregister_then_default dbg st id st' evs :
  step dbg st (OUnregister id) = Some (st', evs) ->
  (forall c q m, log_st st' id c q m = log_st st' (-1) c q m)
  /\ (forall c q m, logv_st st' id c q m = logv_st st' (-1) c q m)
  /\ eff_pkg st' id = -1 /\ eff_threshold st' id = s_dthr st /\ eff_handler st' id = s_dhandler st
  /\ forall j, j <> id -> eff_pkg st' j = eff_pkg st j /\ eff_threshold st' j = eff_threshold st j /\ eff_handler st' j = eff_handler st j.
Proof.
  intros H. apply step_unregister in H. destruct H as (_ & _ & L0 & Lo & (G1 & G2 & _)).
  assert (R : is_reg st' id = 0).
  { pose proof (is_reg_lookup st' id) as E. rewrite L0 in E. unfold is_reg in *. destruct (table_reg (s_table st') id); [discriminate|reflexivity]. }
  split; [intros; apply log_unregistered_is_default; exact R|].
  split.
  { intros c q m. rewrite !logv_events, (log_unregistered_is_default st' id c q m R), !eff_pkg_lookup, L0.
    destruct (lookup st' (-1)) eqn:E; [|reflexivity].
    exfalso. unfold lookup, tlookup in E. destruct (table_reg (s_table st') (-1)) eqn:T; [|discriminate].
    apply table_reg_range in T. lia. }
  rewrite eff_pkg_lookup, eff_threshold_lookup, eff_handler_lookup, L0, <- G1, <- G2.
  repeat split; try reflexivity; apply eff_same; auto.
Qed.

(* ids are reused: if every smaller id is in use, the next registration returns the id just given up, and
   nothing of the old registration (handler, threshold) survives *)
Theorem reregister_fresh dbg st id st1 e1 h thr st2 e2 :
  step dbg st (OUnregister id) = Some (st1, e1) ->
  (forall j, 0 <= j < id -> lookup st j <> None) ->
  step dbg st1 (ORegister h thr) = Some (st2, e2) ->
  e2 = [(5, 0, 0, id, 0, 0, 0)] /\ lookup st2 id = Some (h, thr)
  /\ eff_threshold st2 id = (if thr =? c19_const_lp_default then s_dthr st else thr)
  /\ eff_handler st2 id = (if h =? 0 then s_dhandler st else h)
  /\ forall j, j <> id -> lookup st2 j = lookup st j.
Proof.
  intros U A R.
  apply step_unregister in U. destruct U as (_ & U0 & U1 & U2 & (G1 & G2 & _)).
  apply step_register in R. destruct R as (i & -> & Hi & R0 & R1 & R2 & R3 & (H1 & H2 & _) & _).
  assert (E : i = id).
  { destruct (Z.lt_trichotomy i id) as [L|[L|L]]; [|exact L|].
    - exfalso. apply (A i); [lia|]. rewrite <- U2 by lia. exact R0.
    - exfalso. apply (R1 id); [|exact U1].
      assert (0 <= id); [|lia].
      destruct (lookup st id) eqn:E; [|contradiction]. unfold lookup, tlookup in E.
      destruct (table_reg (s_table st) id) eqn:T; [|discriminate]. apply table_reg_range in T. lia. }
  subst i. split; [reflexivity|]. split; [exact R2|].
  rewrite eff_threshold_lookup, eff_handler_lookup, R2, <- H1, <- H2, <- G1, <- G2.
  repeat split. intros j Nj. rewrite R3, U2 by exact Nj. reflexivity.
Qed.

(* sc_set_log_defaults AFTER packages were registered: a package's own handler and threshold win, NULL and
   SC_LP_DEFAULT follow the new defaults at once *)
Theorem set_defaults_after_registration dbg st stream h thr st' evs :
  step dbg st (OSetDefaults stream h thr) = Some (st', evs) ->
  let dh := if h =? 0 then BUILTIN else h in
  let dt := if thr =? c19_const_lp_default then lp_threshold dbg else thr in
  forall id,
    lookup st' id = lookup st id
    /\ eff_handler st' id = match lookup st id with Some (h0, _) => if h0 =? 0 then dh else h0 | None => dh end
    /\ eff_threshold st' id = match lookup st id with Some (_, t0) => if t0 =? c19_const_lp_default then dt else t0 | None => dt end
    /\ eff_stream st' = (if stream =? 0 then STDOUT else stream).
Proof.
  intros H. cbv zeta. intros id. apply step_set_defaults in H. destruct H as (_ & H1 & H2 & H3 & H4 & _).
  assert (L : lookup st' id = lookup st id) by (unfold lookup; rewrite H4; reflexivity).
  rewrite eff_handler_lookup, eff_threshold_lookup, L, H1, H2. unfold eff_stream, g_eff_stream. rewrite H3.
  repeat split.
Qed.

(* EVERY sequence of threshold changes of one package interleaved with messages: message k is judged by the k-th
   threshold (or by the default threshold where that one is SC_LP_DEFAULT), the trace delivery does not depend on it *)
Lemma deliveries_app a b : deliveries (a ++ b) = deliveries a ++ deliveries b.
Proof. apply filter_app. Qed.

Lemma last_nonempty (l : list Z) : forall a d d', last (a :: l) d = last (a :: l) d'.
Proof. induction l as [|b r IH]; intros a d d'; [reflexivity|]. change (last (a :: b :: r) d) with (last (b :: r) d). change (last (a :: b :: r) d') with (last (b :: r) d'). apply IH. Qed.

Definition judged (st : lstate) (h id c q m t : Z) : list event :=
  (if passes st c q && trace_on st q then [(0, (if h =? 0 then s_dhandler st else h), s_tfile st, id, c, q, m)] else [])
  ++ (if passes st c q && ((if t =? c19_const_lp_default then s_dthr st else t) <=? q)
      then [(0, (if h =? 0 then s_dhandler st else h), eff_stream st, id, c, q, m)] else []).

Theorem threshold_sequence dbg id c q m : forall ts st h t0,
  lookup st id = Some (h, t0) -> forallb valid_thr ts = true ->
  exists st' evs,
    run dbg st (flat_map (fun t => [OSetVerbosity id t; OLog id c q m]) ts) = Some (st', evs)
    /\ deliveries evs = flat_map (judged st h id c q m) ts
    /\ same_globals st st' /\ lookup st' id = Some (h, last ts t0).
Proof.
  induction ts as [|t r IH]; intros st h t0 L V.
  - exists st, []. repeat split; assumption.
  - cbn [forallb] in V. apply andb_true_iff in V. destruct V as [Vt Vr].
    cbn [flat_map app run].
    assert (T : table_reg (s_table st) id = true).
    { rewrite table_reg_lookup. fold (lookup st id). rewrite L. reflexivity. }
    destruct (step dbg st (OSetVerbosity id t)) as [[s1 e1]|] eqn:S1; [|cbn [step] in S1; rewrite T, Vt in S1; discriminate].
    pose proof (step_set_verbosity _ _ _ _ _ _ S1) as (-> & (h' & t' & L0 & L1) & Lo & G & _).
    rewrite L in L0. injection L0 as <- <-.
    cbn [step]. destruct (IH s1 h t L1 Vr) as (s2 & e2 & R & D & G2 & L2). rewrite R.
    exists s2, ([] ++ log_full dbg s1 id c q m ++ e2). split; [reflexivity|].
    destruct G as (G1 & G2' & G3 & G4 & G5 & G6 & G7).
    assert (Rg : 0 <= id) by (apply table_reg_range in T; lia).
    split.
    + cbn [app]. rewrite deliveries_app, D. unfold log_full, isreg_query.
      replace (id =? -1) with false by (symmetry; apply Z.eqb_neq; lia).
      unfold isreg_side. replace (id <? 0) with false by (symmetry; apply Z.ltb_ge; lia). cbn [app].
      rewrite log_filter. unfold trace_delivery, log_delivery.
      rewrite eff_pkg_lookup, eff_threshold_lookup, eff_handler_lookup, L1.
      unfold judged, passes, trace_on, eff_stream. rewrite <- G1, <- G2', <- G3, <- G4, <- G5, <- G6.
      reflexivity.
    + split.
      * destruct G2 as (A1 & A2 & A3 & A4 & A5 & A6 & A7). repeat split; congruence.
      * rewrite L2. destruct r as [|z r]; [reflexivity|]. change (last (t :: z :: r) t0) with (last (z :: r) t0). rewrite (last_nonempty r z t t0). reflexivity.
Qed.
