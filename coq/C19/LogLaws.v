(* C19 - monotonicity of the log filter in the priority, from the characterising lemmas passes_spec / log_filter:
   whatever reaches the log stream (the trace stream) at priority q1 also reaches it at every valid priority q2 >= q1,
   in the same state, for the same package and category. *)
From Coq Require Import ZArith Lia List Bool.
From ScV Require Import Base.CInt Gen.LogC19 C19.LogModel C19.LogProofs.
Local Open Scope Z_scope.

Lemma deliverable_mono st package c q1 q2 :
  deliverable st package c q1 -> priority_valid q2 -> q1 <= q2 -> deliverable st package c q2.
Proof.
  intros [[Hc [_ Hg]] Ht] Hv Hq. split; [split; [exact Hc | split; [exact Hv | exact Hg]] | lia].
Qed.

Lemma traceable_mono st c q1 q2 :
  traceable st c q1 -> priority_valid q2 -> q1 <= q2 -> traceable st c q2.
Proof.
  intros [[Hc [_ Hg]] [Hf Ht]] Hv Hq. split; [split; [exact Hc | split; [exact Hv | exact Hg]] | split; [exact Hf | lia]].
Qed.

(* the same on the boolean conditions that C19_filter states the deliveries with *)
Lemma log_part_mono st package c q1 q2 :
  passes st c q1 && (eff_threshold st package <=? q1) = true -> priority_valid q2 -> q1 <= q2 ->
  passes st c q2 && (eff_threshold st package <=? q2) = true.
Proof.
  rewrite !andb_true_iff, !Z.leb_le, !passes_spec. intros [Ha Ht] Hv Hq.
  destruct (deliverable_mono st package c q1 q2 (conj Ha Ht) Hv Hq) as [Ha2 Ht2]. split; assumption.
Qed.

Lemma log_delivery_mono st package c q1 q2 m2 :
  priority_valid q2 -> q1 <= q2 -> deliverable st package c q1 ->
  In (log_delivery st package c q2 m2) (deliveries (log_st st package c q2 m2)).
Proof.
  intros Hv Hq Hd. pose proof (deliverable_mono st package c q1 q2 Hd Hv Hq) as [Ha Ht].
  rewrite log_filter. apply in_or_app. right.
  apply passes_spec in Ha. rewrite Ha. apply Z.leb_le in Ht. rewrite Ht. simpl. left. reflexivity.
Qed.
