(* C19 - the generated registry functions (Gen/PkgC19.v) against the hand-written model (LogModel.v):
   every function that reads or writes sc_packages / sc_num_packages / sc_num_packages_alloc, and the refinement of
   the machine that executes them (PkgModel.kstep) to LogModel.step for every history. *)
From Coq Require Import ZArith List Bool Lia.
From ScV Require Import Base.CInt Gen.LogC19 Gen.PkgC19 C19.LogModel C19.LogProofs C19.LogMachine C19.PkgModel.
Import ListNotations.
Local Open Scope Z_scope.
Local Open Scope bool_scope.

(* ---------- lists ------------------------------------------------------------------------------------------- *)
Lemma upd_nth_length g : forall t n, length (upd_nth n g t) = length t.
Proof. induction t as [|x r IH]; intros [|n]; cbn; try reflexivity. now rewrite IH. Qed.

Lemma upd_nth_app g pre x post : upd_nth (length pre) g (pre ++ x :: post) = pre ++ g x :: post.
Proof. induction pre as [|a r IH]; cbn; [reflexivity|]. now rewrite IH. Qed.

Lemma nth_upd_nth g d : forall t n j, (n < length t)%nat ->
  nth j (upd_nth n g t) d = if Nat.eqb j n then g (nth n t d) else nth j t d.
Proof.
  induction t as [|x r IH]; intros n j Hn; [cbn in Hn; lia|].
  destruct n as [|n]; destruct j as [|j]; cbn; try reflexivity.
  apply IH. cbn in Hn; lia.
Qed.

Lemma abs_length t : length (abs t) = length t.
Proof. apply map_length. Qed.

Lemma tnth_abs t i : (Z.to_nat i < length t)%nat -> tnth (abs t) i = abs_slot (snth t i).
Proof.
  intros H. unfold tnth, snth, abs.
  rewrite (nth_indep _ fresh_pkg (abs_slot slot0)) by (rewrite map_length; lia).
  apply map_nth.
Qed.

Lemma table_reg_abs t i :
  table_reg (abs t) i = (0 <=? i) && (i <? Z.of_nat (length t)) && z2b (m_reg t i).
Proof.
  unfold table_reg. rewrite abs_length.
  destruct (0 <=? i) eqn:A; [|reflexivity]. destruct (i <? Z.of_nat (length t)) eqn:B; [|reflexivity].
  apply Z.leb_le in A. apply Z.ltb_lt in B. cbn [andb].
  rewrite tnth_abs by lia. reflexivity.
Qed.

(* ---------- sc_package_is_registered ------------------------------------------------------------------------ *)
(* the generated function computes the model's answer on EVERY table, and its only effect is the
   Invalid-package-id message of negative ids: un-expanded, the event the model's isreg_side expands *)
Theorem gen_is_registered (dbg : bool) t num pkgid id :
  (if dbg then sc_package_is_registered_dbg else sc_package_is_registered) (m_reg t) num (Z.of_nat (length t)) pkgid id =
  ((if id <? 0 then [(4, id, 0, pkgid, c19_const_lc_normal, c19_const_lp_error, MSG_INVALID_ID)] else []),
   b2z (table_reg (abs t) id)).
Proof.
  rewrite table_reg_abs.
  destruct dbg; unfold sc_package_is_registered_dbg, sc_package_is_registered; cbv zeta;
    change (8 <? 1) with false; change (8 <? 4) with false; cbv iota;
    destruct (id <? 0); reflexivity.
Qed.

Lemma k_is_reg_spec c pkgid id : k_is_reg c pkgid id = b2z (table_reg (abs (c_slots c)) id).
Proof. unfold k_is_reg, c_alloc. rewrite (gen_is_registered false). reflexivity. Qed.

(* the message of the generated function is the one the model expands (same package, category, priority, text) *)
Lemma gen_is_registered_message (dbg : bool) st id :
  flat_map (expand_own st)
    (fst ((if dbg then sc_package_is_registered_dbg else sc_package_is_registered) (m_reg []) 0 0 (s_pkgid st) id)) =
  isreg_side dbg st id.
Proof.
  pose proof (gen_is_registered dbg [] 0 (s_pkgid st) id) as H. cbn [length Z.of_nat] in H. rewrite H. cbn [fst].
  unfold isreg_side. destruct (id <? 0); [|reflexivity].
  destruct dbg; cbn [flat_map expand_own w_c19_lerror w_c19_lerror_dbg];
    change (8 <? 1) with false; change (8 <? 4) with false; cbv iota; reflexivity.
Qed.

(* ---------- stores ------------------------------------------------------------------------------------------ *)
Lemma apply_store junk t f i v : apply_ev junk t (6, f, 0, i, 0, 0, v) = upd t i (setf f v).
Proof. reflexivity. Qed.

Lemma apply_evs_app junk t a b : apply_evs junk t (a ++ b) = apply_evs junk (apply_evs junk t a) b.
Proof. unfold apply_evs. apply fold_left_app. Qed.

Lemma upd_length t i g : length (upd t i g) = length t.
Proof. unfold upd. destruct (0 <=? i); [apply upd_nth_length|reflexivity]. Qed.

Lemma snth_upd t i g j : 0 <= i < Z.of_nat (length t) -> 0 <= j ->
  snth (upd t i g) j = if j =? i then g (snth t i) else snth t j.
Proof.
  intros Hi Hj. unfold snth, upd. replace (0 <=? i) with true by (symmetry; apply Z.leb_le; lia).
  rewrite nth_upd_nth by lia.
  destruct (j =? i) eqn:E.
  - apply Z.eqb_eq in E. subst j. rewrite Nat.eqb_refl. reflexivity.
  - apply Z.eqb_neq in E. replace (Nat.eqb (Z.to_nat j) (Z.to_nat i)) with false; [reflexivity|].
    symmetry. apply Nat.eqb_neq. lia.
Qed.

Lemma map_upd_nth {B} (f : slot -> B) g d : forall t n, (n < length t)%nat ->
  map f (upd_nth n g t) = firstn n (map f t) ++ f (g (nth n t d)) :: skipn (S n) (map f t).
Proof.
  induction t as [|x r IH]; intros n Hn; [cbn in Hn; lia|].
  destruct n as [|n]; [reflexivity|]. cbn [upd_nth map firstn skipn nth app].
  rewrite IH by (cbn in Hn; lia). reflexivity.
Qed.

Lemma abs_upd t i g : 0 <= i < Z.of_nat (length t) ->
  abs (upd t i g) = set_nth (Z.to_nat i) (abs_slot (g (snth t i))) (abs t).
Proof.
  intros Hi. unfold upd, abs, set_nth, snth. replace (0 <=? i) with true by (symmetry; apply Z.leb_le; lia).
  apply map_upd_nth. lia.
Qed.

Lemma table_reg_true t id : table_reg (abs t) id = true ->
  0 <= id < Z.of_nat (length t) /\ z2b (k_reg (snth t id)) = true.
Proof.
  rewrite table_reg_abs, !andb_true_iff, Z.leb_le, Z.ltb_lt. unfold m_reg. tauto.
Qed.

Definition count_reg (t : list slot) : Z := Z.of_nat (length (filter (fun s => z2b (k_reg s)) t)).

(* ---------- sc_package_set_verbosity ------------------------------------------------------------------------ *)
Theorem gen_set_verbosity junk c pkgid id thr :
  k_set_verbosity junk c pkgid id thr =
  if table_reg (abs (c_slots c)) id && valid_thr thr
  then Some (mkcreg (upd (c_slots c) id (setf 3 thr)) (c_num c)) else None.
Proof.
  unfold k_set_verbosity, sc_package_set_verbosity. cbv zeta. rewrite k_is_reg_spec.
  unfold valid_thr, c19_const_lp_default, c19_const_lp_always, c19_const_lp_silent.
  destruct (table_reg (abs (c_slots c)) id); cbn [b2z z2b andb];
    destruct ((thr =? -1) || (0 <=? thr) && (thr <=? 9)); reflexivity.
Qed.

Lemma abs_set_verbosity t id thr : table_reg (abs t) id = true ->
  abs (upd t id (setf 3 thr)) = set_nth (Z.to_nat id) (mkpkg true (p_handler (tnth (abs t) id)) thr) (abs t).
Proof.
  intros R. apply table_reg_true in R. destruct R as [Rg Rr].
  rewrite abs_upd by exact Rg. rewrite tnth_abs by lia.
  unfold abs_slot, setf. cbn. rewrite Rr. reflexivity.
Qed.

(* ---------- sc_package_unregister_noabort / sc_package_unregister ------------------------------------------- *)
Definition unreg_slot (s : slot) : slot := mkslot 0 0 c19_const_lp_default (k_indent s) (k_abort s).

Lemma upd_nth_unreg : forall t n,
  upd_nth n (setf 3 (-1)) (upd_nth n (setf 2 0) (upd_nth n (setf 1 0) t)) = upd_nth n unreg_slot t.
Proof. induction t as [|x r IH]; intros [|n]; cbn [upd_nth]; try reflexivity. now rewrite IH. Qed.

Theorem gen_unregister junk c pkgid id :
  k_unregister junk c pkgid 1 id =
  if table_reg (abs (c_slots c)) id
  then Some (mkcreg (upd (c_slots c) id unreg_slot) (s32 (c_num c - 1)),
             [(8, 2, 0, id, 0, 0, 0); (6, 1, 0, id, 0, 0, 0); (6, 2, 0, id, 0, 0, 0); (6, 3, 0, id, 0, 0, -1); (8, 5, 0, id, 0, 0, 0)])
  else None.
Proof.
  unfold k_unregister, sc_package_unregister_noabort, sc_package_unregister, sc_query_doabort. cbv zeta.
  rewrite !k_is_reg_spec.
  destruct (table_reg (abs (c_slots c)) id) eqn:R; cbn [b2z]; change (z2b 1) with true; change (z2b 0) with false;
    change (8 <? 4) with false; cbn [negb]; cbv iota beta.
  - change (s32 (0 + 0)) with 0. change (z2b 0) with false. cbv iota beta.
    change (z2b 0) with false. cbv iota beta. cbn [app].
    change (aborts [(8, 1, 0, id, 0, 0, 0)]) with false. cbv iota.
    apply table_reg_true in R. destruct R as [Rg _].
    unfold apply_evs. cbn [fold_left app]. rewrite !apply_store.
    change (apply_ev junk (c_slots c) (8, 2, 0, id, 0, 0, 0)) with (c_slots c).
    match goal with |- context [apply_ev junk ?t (8, 5, 0, id, 0, 0, 0)] => change (apply_ev junk t (8, 5, 0, id, 0, 0, 0)) with t end.
    f_equal. f_equal. f_equal.
    unfold upd. replace (0 <=? id) with true by (symmetry; apply Z.leb_le; lia).
    apply upd_nth_unreg.
  - change (s32 (0 + 1)) with 1. change (z2b 1) with true. cbv iota beta.
    destruct (id =? -1); reflexivity.
Qed.

Lemma abs_unregister t id : 0 <= id < Z.of_nat (length t) ->
  abs (upd t id unreg_slot) = set_nth (Z.to_nat id) (mkpkg false 0 c19_const_lp_default) (abs t).
Proof. intros Rg. rewrite abs_upd by exact Rg. reflexivity. Qed.

(* ---------- sc_package_register ----------------------------------------------------------------------------- *)
Lemma s32_sm x : -2147483648 <= x < 2147483648 -> s32 x = x.
Proof. intros H. apply s32_id. unfold in_s32. change (M32 / 2) with 2147483648. lia. Qed.

(* loop 1: the search for a package of the same name finds none (names are unique): no event, i = alloc *)
Lemma reg_loop1_spec isr n evs : n < 2147483648 -> forall (m i : nat) fuel p,
  (m < fuel)%nat -> Z.of_nat i + Z.of_nat m = n ->
  exists p', sc_package_register_loop1 fuel isr (fun _ => 1) n evs (Z.of_nat i) p = Some (evs, n, p').
Proof.
  intros Hn. induction m as [|m IH]; intros i fuel p Hf Hi; (destruct fuel as [|fuel]; [lia|]); cbn [sc_package_register_loop1].
  - replace (Z.of_nat i) with n by lia. rewrite Z.ltb_irrefl. eexists; reflexivity.
  - replace (Z.of_nat i <? n) with true by (symmetry; apply Z.ltb_lt; lia).
    change (z2b 1) with true. rewrite orb_true_r. cbv iota zeta.
    rewrite s32_sm by lia. replace (Z.of_nat i + 1) with (Z.of_nat (S i)) by lia.
    apply IH; lia.
Qed.

(* loop 2: the first slot that is not registered *)
Lemma reg_loop2_spec isr n : n < 2147483648 -> forall (l : list slot) (i : nat) fuel np nid p,
  (length l < fuel)%nat -> Z.of_nat i + Z.of_nat (length l) = n ->
  (forall k, (k < length l)%nat -> isr (Z.of_nat (i + k)) = k_reg (nth k l slot0)) ->
  exists p',
  sc_package_register_loop2 fuel isr (fun _ => 1) n (Z.of_nat i) np nid p =
  Some (match first_free (abs l) i with
        | Some k => (Z.of_nat k, Z.of_nat k, Z.of_nat k, p')
        | None => (n, np, nid, p')
        end).
Proof.
  intros Hn. induction l as [|q r IH]; intros i fuel np nid p Hf Hi Hr;
    (destruct fuel as [|fuel]; [cbn in Hf; lia|]); cbn [sc_package_register_loop2 first_free abs map].
  - cbn in Hi. replace (Z.of_nat i) with n by lia. rewrite Z.ltb_irrefl. eexists; reflexivity.
  - cbn [length] in Hi, Hf.
    replace (Z.of_nat i <? n) with true by (symmetry; apply Z.ltb_lt; lia).
    assert (Hq : isr (Z.of_nat i) = k_reg q).
    { specialize (Hr O ltac:(cbn [length]; lia)). rewrite Nat.add_0_r in Hr. exact Hr. }
    rewrite Hq. cbv zeta. cbn [abs_slot p_reg]. destruct (z2b (k_reg q)); cbn [negb]; cbv iota.
    + rewrite s32_sm by lia. replace (Z.of_nat i + 1) with (Z.of_nat (S i)) by lia.
      apply IH; [lia|lia|].
      intros k Hk. specialize (Hr (S k) ltac:(cbn [length]; lia)).
      replace (S i + k)%nat with (i + S k)%nat by lia. exact Hr.
    + eexists; reflexivity.
Qed.

(* loop 3: the new slots are initialised one after the other *)
Definition init_evs (i : Z) : list event :=
  [(6, 1, 0, i, 0, 0, 0); (6, 2, 0, i, 0, 0, 0); (6, 3, 0, i, 0, 0, c19_const_lp_silent); (6, 4, 0, i, 0, 0, 0)].

Lemma reg_loop3_spec isr n : n < 2147483648 -> forall (m i : nat) fuel evs p,
  (m < fuel)%nat -> Z.of_nat i + Z.of_nat m = n ->
  exists p', sc_package_register_loop3 fuel isr (fun _ => 1) n evs (Z.of_nat i) p =
             Some (evs ++ flat_map init_evs (map Z.of_nat (seq i m)), n, p').
Proof.
  intros Hn. induction m as [|m IH]; intros i fuel evs p Hf Hi; (destruct fuel as [|fuel]; [lia|]); cbn [sc_package_register_loop3].
  - replace (Z.of_nat i) with n by lia. rewrite Z.ltb_irrefl. cbn. rewrite app_nil_r. eexists; reflexivity.
  - replace (Z.of_nat i <? n) with true by (symmetry; apply Z.ltb_lt; lia). cbv iota zeta.
    rewrite s32_sm by lia. replace (Z.of_nat i + 1) with (Z.of_nat (S i)) by lia.
    destruct (IH (S i) fuel ((((evs ++ [(6, 1, 0, Z.of_nat i, 0, 0, 0)]) ++ [(6, 2, 0, Z.of_nat i, 0, 0, 0)]) ++
                               [(6, 3, 0, Z.of_nat i, 0, 0, 9)]) ++ [(6, 4, 0, Z.of_nat i, 0, 0, 0)]) (Z.of_nat i)) as [p' E]; [lia|lia|].
    exists p'. rewrite E. f_equal. f_equal. f_equal.
    cbn [seq map flat_map init_evs]. rewrite <- !app_assoc. reflexivity.
Qed.

(* what the initialisation stores do to freshly reallocated (arbitrary) memory; abort_mismatch is NOT initialised *)
Definition init_slot (s : slot) : slot := mkslot 0 0 c19_const_lp_silent 0 (k_abort s).

Lemma apply_init junk : forall m pre,
  apply_evs junk (pre ++ repeat junk m) (flat_map init_evs (map Z.of_nat (seq (length pre) m))) = pre ++ repeat (init_slot junk) m.
Proof.
  induction m as [|m IH]; intros pre; [reflexivity|].
  cbn [seq map flat_map]. rewrite apply_evs_app.
  assert (E : apply_evs junk (pre ++ repeat junk (S m)) (init_evs (Z.of_nat (length pre))) = (pre ++ [init_slot junk]) ++ repeat junk m).
  { unfold apply_evs, init_evs. cbn [fold_left repeat]. rewrite !apply_store. unfold upd.
    replace (0 <=? Z.of_nat (length pre)) with true by (symmetry; apply Z.leb_le; lia).
    rewrite Nat2Z.id, !upd_nth_app, <- app_assoc. reflexivity. }
  rewrite E. replace (S (length pre)) with (length (pre ++ [init_slot junk])) by (rewrite app_length; cbn; lia).
  rewrite IH, <- app_assoc. reflexivity.
Qed.

Lemma aborts_app a b : aborts (a ++ b) = aborts a || aborts b.
Proof. apply existsb_app. Qed.

Lemma first_free_bound t : forall k i, first_free t k = Some i -> (k <= i < k + length t)%nat.
Proof.
  induction t as [|a r IH]; intros k i H; [discriminate|]. cbn [first_free] in H.
  destruct (p_reg a); [apply IH in H; cbn [length]; lia|]. injection H as <-. cbn [length]. lia.
Qed.

Definition new_slot (h thr : Z) : slot -> slot := fun _ => mkslot 1 h thr 0 1.

Lemma upd_nth_new h thr : forall t n,
  upd_nth n (setf 5 1) (upd_nth n (setf 4 0) (upd_nth n (setf 3 thr) (upd_nth n (setf 2 h) (upd_nth n (setf 1 1) t)))) =
  upd_nth n (new_slot h thr) t.
Proof. induction t as [|x r IH]; intros [|n]; cbn [upd_nth]; try reflexivity. now rewrite IH. Qed.

(* sc_package_register on EVERY table below 2^30 slots: the id is the first slot that is not registered, else the
   table is reallocated to 2 n + 1 slots, the new ones are initialised (unregistered, NULL, SILENT, indent 0) and
   slot n is taken; all five modelled fields of the new slot are set; sc_num_packages is incremented; an
   invalid threshold aborts *)
Theorem gen_register junk c h thr :
  c_alloc c < MAXSLOTS ->
  k_register junk c h thr =
  if valid_thr thr then
    match first_free (abs (c_slots c)) 0 with
    | Some i => Some (mkcreg (upd (c_slots c) (Z.of_nat i) (new_slot h thr)) (s32 (c_num c + 1)), Z.of_nat i)
    | None => Some (mkcreg (c_slots c ++ new_slot h thr junk :: repeat (init_slot junk) (length (c_slots c))) (s32 (c_num c + 1)),
                    Z.of_nat (length (c_slots c)))
    end
  else None.
Proof.
  unfold c_alloc, MAXSLOTS. intros Hn. unfold k_register, c_alloc, MAXSLOTS.
  replace (1073741824 <=? Z.of_nat (length (c_slots c))) with false by (symmetry; apply Z.leb_gt; lia).
  set (t := c_slots c) in *. set (n := Z.of_nat (length t)) in *.
  unfold sc_package_register. cbv zeta.
  change (z2b 1) with true. change (0 =? 0) with true. cbv iota.
  assert (V : (thr =? -1) || (0 <=? thr) && (thr <=? 9) = valid_thr thr) by reflexivity.
  rewrite V. clear V.
  remember (if valid_thr thr then [] else [] ++ [(9, 0, 0, 0, 0, 0, 0)]) as evs0 eqn:E0.
  assert (A0 : aborts evs0 = negb (valid_thr thr)) by (subst evs0; destruct (valid_thr thr); reflexivity).
  destruct (reg_loop1_spec (m_reg t) n evs0 ltac:(lia) (length t) O (S (S (2 * length t))) 0 ltac:(lia) ltac:(subst n; lia)) as [p1 L1].
  change (Z.of_nat 0) with 0 in L1. rewrite L1. clear L1.
  destruct (reg_loop2_spec (m_reg t) n ltac:(lia) t O (S (S (2 * length t))) 0 (-1) p1 ltac:(lia) ltac:(subst n; lia)) as [p2 L2].
  { intros k Hk. unfold m_reg, snth. cbn [Nat.add]. rewrite Nat2Z.id. reflexivity. }
  change (Z.of_nat 0) with 0 in L2. rewrite L2. clear L2.
  destruct (first_free (abs t) 0) as [k|] eqn:F.
  - pose proof (first_free_bound _ _ _ F) as Hk. rewrite abs_length in Hk. fold t in Hk.
    replace (Z.of_nat k =? n) with false by (symmetry; apply Z.eqb_neq; subst n; lia).
    cbv iota beta. change (0 =? 0) with true. cbv iota.
    rewrite !aborts_app, A0. cbn [aborts existsb is_abort orb]. change (6 =? 9) with false. change (8 =? 9) with false. cbn [orb].
    rewrite orb_false_r.
    destruct (valid_thr thr); cbn [negb orb]; cbv iota; [|reflexivity]. subst evs0.
    cbn [app]. unfold apply_evs. cbn [fold_left]. rewrite !apply_store.
    match goal with |- context [apply_ev junk ?x (8, 4, 0, Z.of_nat k, 0, 0, 0)] => change (apply_ev junk x (8, 4, 0, Z.of_nat k, 0, 0, 0)) with x end.
    f_equal. f_equal. f_equal.
    unfold upd. replace (0 <=? Z.of_nat k) with true by (symmetry; apply Z.leb_le; lia).
    apply upd_nth_new.
  - rewrite Z.eqb_refl. cbv iota beta.
    assert (Hn0 : 0 <= n) by (subst n; lia).
    rewrite (s32_sm (2 * n)) by lia. rewrite (s32_sm (2 * n + 1)) by lia.
    destruct (reg_loop3_spec (m_reg t) (2 * n + 1) ltac:(lia) (S (length t)) (length t) (S (S (2 * length t)))
                (evs0 ++ [(7, 0, 0, 0, 0, 0, 2 * n + 1)]) p2 ltac:(lia) ltac:(subst n; lia)) as [p3 L3].
    fold n in L3. rewrite L3. clear L3. cbv iota beta. change (0 =? 0) with true. cbv iota.
    rewrite !aborts_app, A0.
    assert (AI : forall l, aborts (flat_map init_evs l) = false).
    { induction l as [|x r IH]; [reflexivity|]. cbn [flat_map]. rewrite aborts_app, IH. reflexivity. }
    rewrite AI. cbn [aborts existsb is_abort orb]. change (6 =? 9) with false. change (7 =? 9) with false. change (8 =? 9) with false.
    destruct (valid_thr thr); cbn [negb orb]; cbv iota; [|reflexivity]. subst evs0.
    f_equal. f_equal. f_equal.
    rewrite !apply_evs_app. change (apply_evs junk t []) with t.
    assert (E1 : apply_evs junk t [(7, 0, 0, 0, 0, 0, 2 * n + 1)] = t ++ repeat junk (S (length t))).
    { unfold apply_evs. cbn [fold_left apply_ev]. change (7 =? 6) with false. change (7 =? 7) with true. change (0 =? 0) with true. cbv iota.
      do 2 f_equal. subst n. lia. }
    rewrite E1, apply_init.
    unfold apply_evs. cbn [fold_left]. rewrite !apply_store.
    match goal with |- context [apply_ev junk ?x (8, 4, 0, n, 0, 0, 0)] => change (apply_ev junk x (8, 4, 0, n, 0, 0, 0)) with x end.
    unfold upd. replace (0 <=? n) with true by (symmetry; apply Z.leb_le; lia).
    rewrite upd_nth_new. subst n. rewrite Nat2Z.id. cbn [repeat]. rewrite upd_nth_app. reflexivity.
Qed.

(* ---------- sc_finalize_noabort ----------------------------------------------------------------------------- *)
(* the slots m-1, m-2, .., 0 *)
Definition down (m : nat) : list Z := map Z.of_nat (rev (seq 0 m)).
Definition call_evs (isr : Z -> Z) (l : list Z) : list event :=
  flat_map (fun i => if z2b (isr i) then [(8, 1, 0, i, 0, 0, 0)] else []) l.

(* the loop calls sc_package_unregister_noabort for exactly the registered slots, from the top of the TABLE down *)
Lemma fin_loop_spec isr : forall (m : nat) fuel evs, (m < fuel)%nat -> Z.of_nat m < 2147483648 ->
  sc_finalize_noabort_loop1 fuel isr 0 evs (Z.of_nat m - 1) 0 = Some (evs ++ call_evs isr (down m), -1, 0).
Proof.
  induction m as [|m IH]; intros fuel evs Hf Hm; (destruct fuel as [|fuel]; [lia|]); cbn [sc_finalize_noabort_loop1].
  - cbn. rewrite app_nil_r. reflexivity.
  - replace (0 <=? Z.of_nat (S m) - 1) with true by (symmetry; apply Z.leb_le; lia).
    replace (Z.of_nat (S m) - 1) with (Z.of_nat m) by lia. cbv zeta.
    rewrite s32_sm by lia. change (s32 (0 + 0)) with 0.
    unfold down. rewrite seq_S, rev_app_distr. cbn [rev app map Nat.add call_evs flat_map].
    fold (down m). fold (call_evs isr (down m)).
    destruct (z2b (isr (Z.of_nat m))); rewrite IH by lia; rewrite <- ?app_assoc; reflexivity.
Qed.

Lemma k_run_calls_app junk pkgid : forall a c b,
  k_run_calls junk c pkgid (a ++ b) = k_run_calls junk (k_run_calls junk c pkgid a) pkgid b.
Proof.
  induction a as [|e r IH]; intros c b; [reflexivity|].
  cbn [app k_run_calls]. destruct e as [[[[[[k f] x] i] y] z] w]. apply IH.
Qed.

Theorem gen_finalize junk c tfile pkgid : c_alloc c < 2147483648 ->
  exists c', k_finalize junk c tfile pkgid =
    Some (c', (-1, 0, -1),
          call_evs (m_reg (c_slots c)) (down (length (c_slots c))) ++ [(8, 2, 0, -1, 0, 0, 0); (7, 1, 0, 0, 0, 0, 0)])
  /\ c_slots c' = [].
Proof.
  unfold c_alloc. intros Hn. unfold k_finalize, sc_finalize_noabort, c_alloc. cbv zeta.
  rewrite s32_sm by lia.
  rewrite fin_loop_spec by lia. cbv iota beta.
  change (s32 (0 + 0)) with 0. change (z2b 0) with false. cbv iota.
  set (E := (([] ++ call_evs (m_reg (c_slots c)) (down (length (c_slots c)))) ++ [(8, 2, 0, -1, 0, 0, 0)]) ++ [(7, 1, 0, 0, 0, 0, 0)]).
  assert (EE : E = call_evs (m_reg (c_slots c)) (down (length (c_slots c))) ++ [(8, 2, 0, -1, 0, 0, 0); (7, 1, 0, 0, 0, 0, 0)]).
  { subst E. cbn [app]. rewrite <- app_assoc. reflexivity. }
  assert (S0 : c_slots (k_run_calls junk c pkgid E) = []).
  { subst E. rewrite k_run_calls_app. reflexivity. }
  destruct (tfile =? 0) eqn:T; cbn [negb]; cbv iota beta; [apply Z.eqb_eq in T; subst tfile|];
    (eexists; split; [rewrite <- EE; reflexivity|exact S0]).
Qed.

(* ---------- the machine of generated functions refines LogModel.step ---------------------------------------- *)
Definition kbound (k : kstate) : Prop := c_alloc (kc k) < 2147483648.

Lemma abs_app a b : abs (a ++ b) = abs a ++ abs b.
Proof. apply map_app. Qed.

Lemma abs_repeat s m : abs (repeat s m) = repeat (abs_slot s) m.
Proof. induction m as [|m IH]; [reflexivity|]. cbn [repeat abs map]. f_equal. exact IH. Qed.

Lemma set_nth_grow (A : list pkg) p : set_nth (length A) p (grow A) = A ++ p :: repeat fresh_pkg (length A).
Proof.
  unfold set_nth, grow. rewrite firstn_app, firstn_all, Nat.sub_diag. cbn [firstn]. rewrite app_nil_r.
  f_equal. replace (length A + 1)%nat with (S (length A)) by lia.
  replace (S (length A)) with (length A + 1)%nat at 1 by lia.
  rewrite skipn_app, skipn_all2 by lia. cbn [app].
  replace (length A + 1 - length A)%nat with 1%nat by lia. reflexivity.
Qed.

Lemma k_register_model junk c h thr c' id : k_register junk c h thr = Some (c', id) ->
  valid_thr thr = true /\ c_alloc c < MAXSLOTS
  /\ register (abs (c_slots c)) h thr = (Z.to_nat id, abs (c_slots c')) /\ 0 <= id
  /\ c_alloc c' < 2147483648.
Proof.
  intros H.
  assert (B : c_alloc c < MAXSLOTS).
  { unfold k_register in H. destruct (MAXSLOTS <=? c_alloc c) eqn:E; [discriminate|]. apply Z.leb_gt in E. exact E. }
  rewrite gen_register in H by exact B.
  destruct (valid_thr thr); [|discriminate]. split; [reflexivity|]. split; [exact B|].
  unfold register. unfold c_alloc, MAXSLOTS in *.
  destruct (first_free (abs (c_slots c)) 0) as [i|] eqn:F; injection H as <- <-; cbn [c_slots].
  - pose proof (first_free_bound _ _ _ F) as Hi. rewrite abs_length in Hi.
    rewrite Nat2Z.id, abs_upd by lia. rewrite Nat2Z.id, upd_length. repeat split; try lia. 
  - rewrite Nat2Z.id. rewrite <- (abs_length (c_slots c)) at 1. rewrite set_nth_grow, abs_length.
    rewrite abs_app. cbn [abs map]. fold (abs (repeat (init_slot junk) (length (c_slots c)))). rewrite abs_repeat.
    rewrite app_length. cbn [length]. rewrite repeat_length. repeat split; try lia.
Qed.

Theorem kstep_refines junk dbg k o k' evs : kbound k ->
  kstep junk dbg k o = Some (k', evs) ->
  step dbg (k_view k) o = Some (k_view k', evs) /\ kbound k'.
Proof.
  unfold kbound. intros B H. destruct k as [g c]. unfold k_view in *. cbn [kg kc] in *.
  destruct o; cbn [kstep kg kc] in H; unfold k_view in H; cbn [kg kc] in H.
  - (* set defaults *)
    cbn [step] in *. cbn [s_dthr s_table with_table s_ident s_tfile s_tprio s_pkgid] in *.
    destruct ((if dbg then sc_set_log_defaults_dbg else sc_set_log_defaults) (s_dthr g) BUILTIN stream handler thr) as [[[dh dt] ds] e].
    destruct e; [|discriminate]. injection H as <- <-. split; [reflexivity|exact B].
  - (* register *)
    destruct (k_register junk c handler thr) as [[c' id]|] eqn:R; [|discriminate]. injection H as <- <-.
    apply k_register_model in R. destruct R as (V & _ & R & Hid & B').
    cbn [step with_table s_table]. rewrite V, R. rewrite Z2Nat.id by lia. split; [reflexivity|exact B'].
  - (* unregister *)
    destruct (k_unregister junk c (s_pkgid g) 1 id) as [[c' e]|] eqn:R; [|discriminate]. injection H as <- <-.
    rewrite gen_unregister in R. cbn [step with_table s_table].
    destruct (table_reg (abs (c_slots c)) id) eqn:T; [|discriminate]. injection R as <- _.
    pose proof (table_reg_true _ _ T) as [Rg _]. cbn [c_slots kc c_alloc]. unfold c_alloc. cbn [c_slots].
    rewrite abs_unregister by exact Rg. rewrite upd_length. split; [reflexivity|exact B].
  - (* set verbosity *)
    destruct (k_set_verbosity junk c (s_pkgid g) id thr) as [c'|] eqn:R; [|discriminate]. injection H as <- <-.
    rewrite gen_set_verbosity in R. cbn [step with_table s_table].
    destruct (table_reg (abs (c_slots c)) id) eqn:T; [|discriminate].
    destruct (valid_thr thr); [|discriminate]. cbn [andb] in *. injection R as <-.
    unfold c_alloc. cbn [c_slots kc]. rewrite abs_set_verbosity by exact T. rewrite upd_length.
    split; [reflexivity|exact B].
  - (* init *)
    destruct (s_pkgid g =? -1) eqn:P; [|discriminate].
    destruct (k_register junk c handler thr) as [[c' id]|] eqn:R; [|discriminate]. injection H as <- <-.
    apply k_register_model in R. destruct R as (V & _ & R & Hid & B').
    cbn [step with_table s_table s_pkgid]. rewrite V, P, R. cbn [andb]. rewrite Z2Nat.id by lia.
    split; [reflexivity|exact B'].
  - (* finalize *)
    destruct (gen_finalize junk c (s_tfile g) (s_pkgid g)) as (c' & E & S0); [unfold c_alloc in *; lia|].
    rewrite E in H. injection H as <- <-. cbn [step with_table kc kg]. rewrite S0. split; [reflexivity|].
    unfold c_alloc. rewrite S0. cbn. lia.
  - cbn [step] in *. injection H as <- <-. split; [reflexivity|exact B].
  - cbn [step] in *. injection H as <- <-. split; [reflexivity|exact B].
  - cbn [step] in *. injection H as <- <-. split; [reflexivity|exact B].
  - cbn [step] in *. injection H as <- <-. split; [reflexivity|exact B].
  - cbn [step] in *. injection H as <- <-. split; [reflexivity|exact B].
Qed.

Theorem krun_refines junk dbg ops : forall k k' evs, kbound k ->
  krun junk dbg k ops = Some (k', evs) -> run dbg (k_view k) ops = Some (k_view k', evs) /\ kbound k'.
Proof.
  induction ops as [|o r IH]; intros k k' evs B H; cbn [krun run] in *.
  - injection H as <- <-. split; [reflexivity|exact B].
  - destruct (kstep junk dbg k o) as [[k1 e1]|] eqn:S; [|discriminate].
    destruct (krun junk dbg k1 r) as [[k2 e2]|] eqn:R; [|discriminate]. injection H as <- <-.
    apply kstep_refines in S; [|exact B]. destruct S as [S B1]. rewrite S.
    apply IH in R; [|exact B1]. destruct R as [R B2]. rewrite R. split; [reflexivity|exact B2].
Qed.

(* the other direction: below 2^30 slots the machine of generated functions does whatever the model does *)
Theorem kstep_complete junk dbg k o v' evs : c_alloc (kc k) < MAXSLOTS ->
  step dbg (k_view k) o = Some (v', evs) ->
  exists k', kstep junk dbg k o = Some (k', evs) /\ k_view k' = v'.
Proof.
  intros B H.
  assert (RG : forall h thr, valid_thr thr = true -> exists c' id, k_register junk (kc k) h thr = Some (c', id)).
  { intros h thr V. rewrite gen_register by exact B. rewrite V. destruct (first_free _ _); eexists; eexists; reflexivity. }
  assert (KB : kbound k) by (unfold kbound, MAXSLOTS in *; lia).
  cut (exists k' e', kstep junk dbg k o = Some (k', e')).
  { intros (k' & e' & S). pose proof S as S2. apply kstep_refines in S2; [|exact KB]. destruct S2 as [S2 _].
    rewrite H in S2. injection S2 as -> ->. exists k'. split; [exact S|reflexivity]. }
  destruct k as [g c]. cbn [kg kc] in *.
  destruct o; cbn [kstep kg kc]; try (rewrite H; eexists; eexists; reflexivity);
    unfold k_view in H; cbn [kg kc step with_table s_table s_pkgid] in H.
  - destruct (valid_thr thr) eqn:V; [|discriminate]. destruct (RG handler thr V) as (c' & id & R). rewrite R.
    eexists; eexists; reflexivity.
  - destruct (table_reg (abs (c_slots c)) id) eqn:T; [|discriminate]. rewrite gen_unregister, T. eexists; eexists; reflexivity.
  - destruct (table_reg (abs (c_slots c)) id) eqn:T; [|discriminate]. destruct (valid_thr thr) eqn:V; [|discriminate].
    rewrite gen_set_verbosity, T, V. eexists; eexists; reflexivity.
  - destruct (valid_thr thr) eqn:V; [|discriminate]. destruct (s_pkgid g =? -1) eqn:P; [|discriminate].
    destruct (RG handler thr V) as (c' & id & R). rewrite R. eexists; eexists; reflexivity.
  - destruct (gen_finalize junk c (s_tfile g) (s_pkgid g)) as (c' & E & S0); [unfold c_alloc, MAXSLOTS in *; lia|].
    rewrite E. eexists; eexists; reflexivity.
Qed.

(* ---------- log indentation --------------------------------------------------------------------------------- *)
(* pinned configuration (SC_ENABLE_PTHREAD): both functions are empty; without it: one store into the indent of the
   given package, nothing for negative ids *)
Theorem gen_indent t id count :
  sc_log_indent_push_count = [] /\ sc_log_indent_pop_count = []
  /\ sc_log_indent_push_count_np (m_indent t) id count =
     (if 0 <=? id then [(6, 4, 0, id, 0, 0, s32 (m_indent t id + Z.max 0 count))] else [])
  /\ sc_log_indent_pop_count_np (m_indent t) id count =
     (if 0 <=? id then [(6, 4, 0, id, 0, 0, Z.max 0 (s32 (m_indent t id - Z.max 0 count)))] else []).
Proof.
  split; [reflexivity|]. split; [reflexivity|].
  unfold sc_log_indent_push_count_np, sc_log_indent_pop_count_np. cbv zeta.
  assert (M : (if count <? 0 then 0 else count) = Z.max 0 count) by (destruct (Z.ltb_spec count 0); lia).
  rewrite M. split; [destruct (0 <=? id); reflexivity|].
  destruct (0 <=? id); [|reflexivity].
  set (x := s32 (m_indent t id - Z.max 0 count)).
  replace (if x <? 0 then 0 else x) with (Z.max 0 x) by (destruct (Z.ltb_spec x 0); lia). reflexivity.
Qed.

Lemma k_indent_setf4 v s : k_indent (setf 4 v s) = v.
Proof. reflexivity. Qed.

Lemma abs_upd_indent v : forall t n, map abs_slot (upd_nth n (setf 4 v) t) = map abs_slot t.
Proof. induction t as [|x r IH]; intros [|n]; cbn [upd_nth map]; try reflexivity. now rewrite IH. Qed.

(* the indentation is per package and invisible to the filter: only the indent of that slot changes *)
Theorem indent_effect junk c id count : 0 <= id < c_alloc c ->
  let c1 := k_indent_push junk c id count in
  let c2 := k_indent_pop junk c id count in
  abs (c_slots c1) = abs (c_slots c) /\ abs (c_slots c2) = abs (c_slots c)
  /\ m_indent (c_slots c1) id = s32 (m_indent (c_slots c) id + Z.max 0 count)
  /\ m_indent (c_slots c2) id = Z.max 0 (s32 (m_indent (c_slots c) id - Z.max 0 count))
  /\ (forall j, 0 <= j -> j <> id -> snth (c_slots c1) j = snth (c_slots c) j /\ snth (c_slots c2) j = snth (c_slots c) j)
  /\ 0 <= m_indent (c_slots c2) id.
Proof.
  unfold c_alloc. intros Hi. cbv zeta. unfold k_indent_push, k_indent_pop. cbn [c_slots].
  destruct (gen_indent (c_slots c) id count) as (_ & _ & E1 & E2). rewrite E1, E2.
  replace (0 <=? id) with true by (symmetry; apply Z.leb_le; lia).
  unfold apply_evs. cbn [fold_left]. rewrite !apply_store.
  assert (A : forall v, abs (upd (c_slots c) id (setf 4 v)) = abs (c_slots c)).
  { intros v. unfold upd, abs. replace (0 <=? id) with true by (symmetry; apply Z.leb_le; lia).
    apply abs_upd_indent. }
  split; [apply A|]. split; [apply A|].
  unfold m_indent. rewrite !snth_upd by lia. rewrite !Z.eqb_refl. rewrite !k_indent_setf4.
  split; [reflexivity|]. split; [reflexivity|]. split; [|lia].
  intros j Hj Nj. rewrite !snth_upd by lia. replace (j =? id) with false by (symmetry; apply Z.eqb_neq; exact Nj). split; reflexivity.
Qed.

(* ---------- the built-in handler ---------------------------------------------------------------------------- *)
(* what sc_log_handler decides to print for a delivery made by sc_log (the package is effective: -1 or registered)
   is what LogModel.observe shows of it; the indentation printed is the package's *)
Theorem gen_log_handler_decide st t x c :
  let p := eff_pkg st x in
  sc_log_handler_decide (is_reg st) (m_indent t) (s_ident st) p c =
  ([], p, b2z (negb (p =? -1)), b2z ((c =? c19_const_lc_normal) && (0 <=? s_ident st)), if p =? -1 then 0 else m_indent t p).
Proof.
  cbv zeta. pose proof (eff_pkg_legal st x) as L. unfold lock_legal in L.
  unfold sc_log_handler_decide. cbv zeta.
  destruct (eff_pkg st x =? -1) eqn:E; cbn [negb orb] in *; cbv iota; [reflexivity|].
  rewrite L. cbn [negb]. cbv iota. reflexivity.
Qed.

Theorem observe_is_handler_decision st t x s c q m :
  let p := eff_pkg st x in
  let '(_, _, wp, wi, _) := sc_log_handler_decide (is_reg st) (m_indent t) (s_ident st) p c in
  observe st (0, BUILTIN, s, p, c, q, m) = (0, BUILTIN, s, wp, wi, b2z (sc_log_handler_trace_cond q), m).
Proof. cbv zeta. rewrite gen_log_handler_decide. reflexivity. Qed.

(* the finite map id -> (handler, threshold) read off the concrete table *)
Lemma lookup_k_view k id :
  lookup (k_view k) id =
  if (0 <=? id) && (id <? c_alloc (kc k)) && z2b (m_reg (c_slots (kc k)) id)
  then Some (m_handler (c_slots (kc k)) id, m_thr (c_slots (kc k)) id) else None.
Proof.
  unfold lookup, tlookup, k_view, c_alloc. cbn [with_table s_table]. rewrite table_reg_abs.
  destruct ((0 <=? id) && (id <? Z.of_nat (length (c_slots (kc k)))) && z2b (m_reg (c_slots (kc k)) id)) eqn:E; [|reflexivity].
  rewrite !andb_true_iff, Z.leb_le, Z.ltb_lt in E. rewrite tnth_abs by lia. reflexivity.
Qed.

Theorem krun_from_init junk dbg ops k evs :
  krun junk dbg (k_init dbg) ops = Some (k, evs) ->
  run dbg (init_state dbg) ops = Some (k_view k, evs)
  /\ forall id, lookup (k_view k) id =
       if (0 <=? id) && (id <? c_alloc (kc k)) && z2b (m_reg (c_slots (kc k)) id)
       then Some (m_handler (c_slots (kc k)) id, m_thr (c_slots (kc k)) id) else None.
Proof.
  intros H. apply krun_refines in H; [|unfold kbound, k_init, c_alloc; cbn; lia]. destruct H as [H _].
  split; [|intros; apply lookup_k_view].
  assert (E : k_view (k_init dbg) = init_state dbg) by (destruct dbg; reflexivity).
  rewrite E in H. exact H.
Qed.
