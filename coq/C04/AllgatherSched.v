(* C04 - from the per-rank programs to the global result under EVERY schedule.
   The system of P per-rank programs `allgather_prog` (C04/AllgatherModel.v) in the interleaving semantics of
   MPI/Sem.v has a schedule (subgroups first, then in each exchange window all sends and then all receives) that
   ends with every rank returning the blocks 0 .. P-1 in rank order and all channels empty.  By the confluence
   theorem of Sem.v every schedule then ends in that state and no reachable state is stuck. *)
From Coq Require Import ZArith Lia List Bool ZifyBool FinFun.
From ScV Require Import Base.CInt MPI.Prog MPI.Sem MPI.SemFrame C04.AllgatherModel C04.AllgatherProofs.
Import ListNotations.
Local Open Scope Z_scope.
Ltac Zify.zify_post_hook ::= Z.div_mod_to_equations.

(* ---- buffers ------------------------------------------------------------------------------------------- *)
Lemma firstn_len_app {A} (a b : list A) : firstn (length a) (a ++ b) = a.
Proof. induction a; cbn; [reflexivity|f_equal; assumption]. Qed.
Lemma skipn_len_app {A} (a b : list A) : skipn (length a) (a ++ b) = b.
Proof. induction a; cbn; [reflexivity|assumption]. Qed.

Lemma slots_ext (c1 c2 : buffer) : forall n lo, (forall j, lo <= j < lo + Z.of_nat n -> c1 j = c2 j) ->
  slots c1 lo n = slots c2 lo n.
Proof.
  induction n as [|n IH]; intros lo H; cbn [slots]; [reflexivity|].
  rewrite H by lia. f_equal. apply IH. intros j Hj. apply H. lia.
Qed.

Lemma store_slots (sz : nat) (c : buffer) : forall n buf lo,
  (forall j, lo <= j < lo + Z.of_nat n -> length (c j) = sz) ->
  forall i, store buf lo n sz (slots c lo n) i = if (lo <=? i) && (i <? lo + Z.of_nat n) then c i else buf i.
Proof.
  induction n as [|n IH]; intros buf lo Hlen i; cbn [store slots].
  - destruct ((lo <=? i) && (i <? lo + Z.of_nat 0)) eqn:E; [lia|reflexivity].
  - assert (F : firstn sz (c lo ++ slots c (lo + 1) n) = c lo) by (rewrite <- (Hlen lo) by lia; apply firstn_len_app).
    assert (G : skipn sz (c lo ++ slots c (lo + 1) n) = slots c (lo + 1) n) by (rewrite <- (Hlen lo) by lia; apply skipn_len_app).
    rewrite F, G.
    rewrite IH by (intros j Hj; apply Hlen; lia).
    unfold upd.
    destruct ((lo + 1 <=? i) && (i <? lo + 1 + Z.of_nat n)) eqn:E1;
      destruct ((lo <=? i) && (i <? lo + Z.of_nat (S n))) eqn:E2;
      destruct (i =? lo) eqn:E3; try lia; try reflexivity.
    assert (i = lo) as -> by lia. reflexivity.
Qed.

Section Sched.
  Variable amax : Z.
  Hypothesis amax_pos : 1 <= amax.
  Variable sz : nat.
  Variable P : Z.
  Variable b : buffer.                                       (* b r = the block contributed by rank r *)
  Hypothesis b_len : forall r, 0 <= r < P -> length (b r) = sz.

  Definition covers (i : Z) (m : msg) : bool := inb (lo m) (cnt m) i.

  (* storing the received messages of a window, when every transmitted slot i carries the value v i *)
  Lemma store_all_spec (B : Z -> buffer) (v : buffer) : forall rl buf,
    (forall m, In m rl -> 0 <= cnt m /\ forall i, lo m <= i < lo m + cnt m -> B (peer m) i = v i /\ length (v i) = sz) ->
    forall i, store_all sz buf rl (map (fun m => slots (B (peer m)) (lo m) (Z.to_nat (cnt m))) rl) i =
              if existsb (covers i) rl then v i else buf i.
  Proof.
    induction rl as [|m rl IH]; intros buf H i; cbn [store_all map existsb]; [reflexivity|].
    destruct (H m (or_introl eq_refl)) as [Hc Hm].
    rewrite IH by (intros m' Hm'; apply H; right; exact Hm').
    rewrite (slots_ext (B (peer m)) v) by (intros j Hj; apply Hm; lia).
    rewrite store_slots by (intros j Hj; apply Hm; lia).
    unfold covers at 2. unfold inb. rewrite Z2Nat.id by exact Hc.
    destruct (existsb (covers i) rl); [rewrite orb_true_r; reflexivity|]. rewrite orb_false_r. reflexivity.
  Qed.

  (* ---- one window of a group, on the level of the model's message lists -------------------------------- *)
  Definition mkey (m : msg) : Z * Z := (peer m, mtag m).

  Lemma window_msgs (sl rl : Z -> list msg) (buf : Z -> buffer) (k : Z -> buffer -> prog) rs s :
    NoDup rs ->
    (forall r, In r rs -> pr s r = window sz (sl r) (rl r) (buf r) (k r)) ->
    (forall a d t, In a rs -> In d rs -> ch s a d t = []) ->
    (forall r, In r rs -> NoDup (map mkey (sl r))) ->
    (forall r, In r rs -> NoDup (map mkey (rl r))) ->
    (forall r m, In r rs -> In m (sl r) -> In (peer m) rs) ->
    (forall r m, In r rs -> In m (rl r) -> In (peer m) rs /\ 0 <= peer m) ->
    (forall r d t l n, In r rs -> In d rs -> (In (mkmsg d t l n) (sl r) <-> In (mkmsg r t l n) (rl d))) ->
    exists n s', run n s s' /\
      (forall r, In r rs -> pr s' r = k r (store_all sz (buf r) (rl r)
                                  (map (fun m => slots (buf (peer m)) (lo m) (Z.to_nat (cnt m))) (rl r)))) /\
      (forall r, ~ In r rs -> pr s' r = pr s r) /\
      (forall a d t, ch s' a d t = ch s a d t).
  Proof.
    intros Hnd Hp Hemp Hsk Hrk Hsin Hrin Hmatch.
    destruct (window_run (fun r => map (send_of (buf r)) (sl r)) (fun r => map recv_of (rl r))
                         (fun r ps => k r (store_all sz (buf r) (rl r) ps)) rs s Hnd)
      as [nn [s' [Hrun [Hp' [Hpo Hc]]]]].
    - intros r Hr. rewrite Hp by exact Hr. reflexivity.
    - exact Hemp.
    - intros r Hr. rewrite map_map. exact (Hsk r Hr).
    - intros r Hr. exact (Hrk r Hr).
    - intros r d t m Hr Hin. apply in_map_iff in Hin. destruct Hin as [x [E Hx]].
      unfold send_of in E. injection E as <- _ _. eapply Hsin; eauto.
    - intros d src t Hd Hin. apply in_map_iff in Hin. destruct Hin as [x [E Hx]].
      unfold recv_of in E. injection E as <- _. eapply Hrin; eauto.
    - intros r d t Hr Hd. split.
      + intros [m Hin]. apply in_map_iff in Hin. destruct Hin as [[p tg l n] [E Hx]].
        unfold send_of in E. cbn in E. injection E as -> -> _.
        apply in_map_iff. exists (mkmsg r t l n). split; [reflexivity|]. apply (Hmatch r d t l n Hr Hd). exact Hx.
      + intros Hin. apply in_map_iff in Hin. destruct Hin as [[p tg l n] [E Hx]].
        unfold recv_of in E. cbn in E. injection E as -> ->.
        exists (slots (buf r) l (Z.to_nat n)). apply in_map_iff. exists (mkmsg d t l n).
        split; [reflexivity|]. apply (Hmatch r d t l n Hr Hd). exact Hx.
    - exists nn, s'. split; [exact Hrun|]. split; [|split; assumption].
      intros r Hr. rewrite Hp' by exact Hr. f_equal. f_equal. rewrite map_map. apply map_ext_in.
      intros [p tg l n] Hin. cbn [recv_of fst snd peer mtag lo cnt].
      destruct (Hrin r _ Hr Hin) as [Hpin _]. cbn [peer] in Hpin.
      assert (Hs : In (mkmsg r tg l n) (sl p)) by (apply (Hmatch p r tg l n Hpin Hr); exact Hin).
      unfold lookup. erewrite sent_one; [reflexivity| |].
      + rewrite map_map. exact (Hsk p Hpin).
      + apply in_map_iff. exists (mkmsg r tg l n). split; [reflexivity|exact Hs].
  Qed.

  (* ---- facts about the message lists of the two kinds of window ---------------------------------------- *)
  Lemma sends_level_distinct g base r : NoDup (map mkey (sends_level g base r)).
  Proof.
    unfold sends_level, mkey, TAG_A, TAG_C. cbv zeta.
    destruct (r - base <? g / 2).
    - destruct ((r - base =? g / 2 - 1) && negb (g / 2 =? g - g / 2)); repeat constructor; cbn; try tauto.
      intros [E|[]]. discriminate E.
    - destruct ((r - base =? g - 1) && negb (g / 2 =? g - g / 2)); repeat constructor; cbn; tauto.
  Qed.
  Lemma sends_a2a_distinct g base r : NoDup (map mkey (sends_a2a g base r)).
  Proof.
    unfold sends_a2a. rewrite map_map. unfold mkey. cbn [peer mtag].
    apply FinFun.Injective_map_NoDup.
    - intros x y H. injection H as H. lia.
    - apply NoDup_filter. apply seq_NoDup.
  Qed.

  Lemma level_msgs g base r m : amax < g -> base <= r < base + g ->
    In m (sends_level g base r) \/ In m (recvs_level g base r) -> base <= peer m < base + g.
  Proof.
    intros Hg Hr. unfold sends_level, recvs_level. cbv zeta.
    set (g2 := g / 2). assert (Hg2 : 2 * g2 <= g <= 2 * g2 + 1 /\ 1 <= g2) by (unfold g2; lia).
    destruct (r - base <? g2) eqn:E1;
      destruct ((r - base =? g2 - 1) && negb (g2 =? g - g2)) eqn:E2;
      destruct ((r - base =? g - 1) && negb (g2 =? g - g2)) eqn:E3; cbn [In];
      intros H; repeat (destruct H as [H|H]); try contradiction; subst m; cbn [peer]; lia.
  Qed.
  Lemma a2a_msgs g base r m : In m (sends_a2a g base r) \/ In m (recvs_a2a g base r) -> base <= peer m < base + g.
  Proof.
    unfold sends_a2a, recvs_a2a. intros [H|H]; apply in_map_iff in H; destruct H as [j [<- Hj]];
      apply filter_In in Hj; destruct Hj as [Hj _]; apply in_seq in Hj; cbn [peer]; lia.
  Qed.

  Lemma existsb_a2a g base r i : 0 <= g ->
    existsb (covers i) (recvs_a2a g base r) = inb base g i && negb (i =? r).
  Proof.
    intros Hg. unfold recvs_a2a.
    destruct (existsb (covers i) _) eqn:E.
    - apply existsb_exists in E. destruct E as [m [Hin Hc]]. apply in_map_iff in Hin. destruct Hin as [j [<- Hj]].
      apply filter_In in Hj. destruct Hj as [Hj Hne]. apply in_seq in Hj. unfold covers, inb in *. cbn [lo cnt] in Hc.
      symmetry. lia.
    - symmetry. apply not_true_is_false. intros Ht. apply not_true_iff_false in E. apply E.
      apply existsb_exists. exists (mkmsg (base + Z.of_nat (Z.to_nat (i - base))) TAG_ALLTOALL (base + Z.of_nat (Z.to_nat (i - base))) 1).
      unfold inb in Ht. split.
      + apply in_map_iff. exists (Z.to_nat (i - base)). split; [reflexivity|]. apply filter_In. split; [apply in_seq; lia|lia].
      + unfold covers, inb. cbn [lo cnt]. lia.
  Qed.

  (* ---- the recursion ------------------------------------------------------------------------------------
     A group (g, base) whose members are at `ag_prog fuel g base r (buf r) (k r)`, each holding its own block,
     with empty channels inside the group, can be run - nobody else moving, every channel as before - to the
     point where each member continues with k r (buf' r), buf' r = buf r with the slots of the group filled
     with the blocks of the group in rank order. *)
  Definition filled (g base : Z) (old new : buffer) : Prop :=
    forall i, new i = if inb base g i then b i else old i.

  Theorem ag_sched : forall fuel g base (buf : Z -> buffer) (k : Z -> buffer -> prog) s,
    0 < g -> 0 <= base -> base + g <= P -> (Z.to_nat g <= fuel)%nat ->
    (forall r, base <= r < base + g -> pr s r = ag_prog amax sz fuel g base r (buf r) (k r)) ->
    (forall r, base <= r < base + g -> buf r r = b r) ->
    (forall a d t, base <= a < base + g -> base <= d < base + g -> ch s a d t = []) ->
    exists n s' (buf' : Z -> buffer), run n s s' /\
      (forall r, base <= r < base + g -> pr s' r = k r (buf' r) /\ filled g base (buf r) (buf' r)) /\
      (forall r, ~ (base <= r < base + g) -> pr s' r = pr s r) /\
      (forall a d t, ch s' a d t = ch s a d t).
  Proof.
    induction fuel as [|f IH]; intros g base buf k s Hg Hbase HP Hf Hp Hown Hemp; [lia|].
    destruct (amax <? g) eqn:Ea.
    - (* recursive bisection *)
      set (g2 := g / 2). assert (Hg2 : 2 * g2 <= g <= 2 * g2 + 1 /\ 1 <= g2) by (unfold g2; lia).
      set (kw := fun r buf1 => window sz (sends_level g base r) (recvs_level g base r) buf1 (k r)).
      (* lower half *)
      destruct (IH g2 base buf kw s) as [n1 [s1 [buf1 [Hrun1 [Hp1 [Hpo1 Hc1]]]]]]; try lia.
      { intros r Hr. rewrite Hp by lia. cbn [ag_prog]. rewrite Ea. cbv zeta. fold g2.
        replace (r - base <? g2) with true by lia. reflexivity. }
      { intros r Hr. apply Hown. lia. }
      { intros a d t Ha Hd. apply Hemp; lia. }
      (* upper half *)
      destruct (IH (g - g2) (base + g2) buf kw s1) as [n2 [s2 [buf2 [Hrun2 [Hp2 [Hpo2 Hc2]]]]]]; try lia.
      { intros r Hr. rewrite Hpo1 by lia. rewrite Hp by lia. cbn [ag_prog]. rewrite Ea. cbv zeta. fold g2.
        replace (r - base <? g2) with false by lia. reflexivity. }
      { intros r Hr. apply Hown. lia. }
      { intros a d t Ha Hd. rewrite Hc1. apply Hemp; lia. }
      (* the exchange window *)
      set (bufW := fun r => if r - base <? g2 then buf1 r else buf2 r).
      destruct (window_msgs (sends_level g base) (recvs_level g base) bufW k (zrange base g) s2)
        as [n3 [s3 [Hrun3 [Hp3 [Hpo3 Hc3]]]]].
      { apply NoDup_zrange. }
      { intros r Hr. apply In_zrange in Hr. unfold bufW. destruct (r - base <? g2) eqn:E.
        - rewrite Hpo2 by lia. apply (Hp1 r). lia.
        - apply (Hp2 r). lia. }
      { intros a d t Ha Hd. apply In_zrange in Ha, Hd. rewrite Hc2, Hc1. apply Hemp; assumption. }
      { intros r _. apply sends_level_distinct. }
      { intros r _. apply (recvs_level_distinct g base r). }
      { intros r m Hr Hm. apply In_zrange in Hr. apply In_zrange. apply (level_msgs g base r m); [lia|exact Hr|left; exact Hm]. }
      { intros r m Hr Hm. apply In_zrange in Hr. rewrite In_zrange.
        pose proof (level_msgs g base r m ltac:(lia) Hr (or_intror Hm)). lia. }
      { intros r d t l n Hr Hd. apply In_zrange in Hr, Hd. apply (matching_level amax amax_pos); [lia|exact Hr|exact Hd]. }
      exists (n1 + n2 + n3)%nat, s3.
      exists (fun r => store_all sz (bufW r) (recvs_level g base r)
                         (map (fun m => slots (bufW (peer m)) (lo m) (Z.to_nat (cnt m))) (recvs_level g base r))).
      split; [eapply run_app; [eapply run_app; eauto|eauto]|]. split; [|split].
      + intros r Hr. split; [apply Hp3; apply In_zrange; exact Hr|].
        assert (HW : forall q i, base <= q < base + g ->
                     bufW q i = if (if q - base <? g2 then inb base g2 i else inb (base + g2) (g - g2) i) then b i else buf q i).
        { intros q i Hq. unfold bufW. destruct (q - base <? g2) eqn:E.
          - apply (Hp1 q). lia.
          - apply (Hp2 q). lia. }
        intros i. rewrite (store_all_spec bufW b).
        * rewrite (HW r i Hr). unfold recvs_level. cbv zeta. fold g2. unfold covers, inb.
          destruct (r - base <? g2) eqn:E1; [|destruct ((r - base =? g - 1) && negb (g2 =? g - g2))];
            cbn [existsb lo cnt];
            repeat match goal with |- context [if ?c then _ else _] => destruct c eqn:? end; try reflexivity; lia.
        * intros m Hm.
          pose proof (level_msgs g base r m ltac:(lia) Hr (or_intror Hm)) as Hpeer.
          revert Hm Hpeer. unfold recvs_level. cbv zeta. fold g2.
          destruct (r - base <? g2) eqn:E1; [|destruct ((r - base =? g - 1) && negb (g2 =? g - g2)) eqn:E2];
            cbn [In]; intros [<-|[]]; cbn [peer lo cnt]; intros Hpeer; (split; [lia|]); intros i' Hi';
            (split; [|apply b_len; lia]); rewrite HW by lia; unfold inb;
            repeat match goal with
                   | |- context [if (if ?c then _ else _) then _ else _] => destruct c eqn:?
                   | |- context [if ?c then _ else _] => destruct c eqn:? end; try reflexivity; lia.
      + intros r Hr. rewrite Hpo3 by (rewrite In_zrange; exact Hr). rewrite Hpo2 by lia. apply Hpo1. lia.
      + intros a d t. rewrite Hc3, Hc2, Hc1. reflexivity.
    - (* direct all-to-all *)
      destruct (window_msgs (sends_a2a g base) (recvs_a2a g base) buf k (zrange base g) s)
        as [n3 [s3 [Hrun3 [Hp3 [Hpo3 Hc3]]]]].
      { apply NoDup_zrange. }
      { intros r Hr. apply In_zrange in Hr. rewrite Hp by exact Hr. cbn [ag_prog]. rewrite Ea. reflexivity. }
      { intros a d t Ha Hd. apply In_zrange in Ha, Hd. apply Hemp; assumption. }
      { intros r _. apply sends_a2a_distinct. }
      { intros r _. apply (recvs_a2a_distinct g base r). }
      { intros r m Hr Hm. apply In_zrange. apply (a2a_msgs g base r m). left. exact Hm. }
      { intros r m Hr Hm. rewrite In_zrange. pose proof (a2a_msgs g base r m (or_intror Hm)). lia. }
      { intros r d t l n Hr Hd. apply In_zrange in Hr, Hd. apply matching_a2a; [lia|exact Hr|exact Hd]. }
      exists n3, s3.
      exists (fun r => store_all sz (buf r) (recvs_a2a g base r)
                         (map (fun m => slots (buf (peer m)) (lo m) (Z.to_nat (cnt m))) (recvs_a2a g base r))).
      split; [exact Hrun3|]. split; [|split; [|exact Hc3]].
      + intros r Hr. split; [apply Hp3; apply In_zrange; exact Hr|].
        intros i. rewrite (store_all_spec buf b).
        * rewrite existsb_a2a by lia. unfold inb.
          destruct ((base <=? i) && (i <? base + g)) eqn:E1; destruct (i =? r) eqn:E2; cbn [andb negb]; try reflexivity.
          assert (i = r) as -> by lia. apply Hown. exact Hr.
        * intros m Hm. unfold recvs_a2a in Hm. apply in_map_iff in Hm. destruct Hm as [j [<- Hj]].
          apply filter_In in Hj. destruct Hj as [Hj _]. apply in_seq in Hj. cbn [peer lo cnt]. split; [lia|].
          intros i' Hi'. assert (i' = base + Z.of_nat j) as -> by lia. split; [apply Hown; lia|apply b_len; lia].
      + intros r Hr. apply Hpo3. rewrite In_zrange. exact Hr.
  Qed.

  (* ---- the whole system ---------------------------------------------------------------------------------- *)
  Definition ag_start : gs :=
    mkgs (fun r => if (0 <=? r) && (r <? P) then allgather_prog amax sz P r (b r) else Ret [])
         (fun _ _ _ => []).
  Definition ag_end : gs :=
    mkgs (fun r => if (0 <=? r) && (r <? P) then Ret (slots b 0 (Z.to_nat P)) else Ret [])
         (fun _ _ _ => []).

  Lemma ag_end_final : final ag_end.
  Proof. intros r. unfold ag_end. cbn. destruct ((0 <=? r) && (r <? P)); eauto. Qed.

  Theorem allgather_one_schedule : 0 < P -> exists n, run n ag_start ag_end.
  Proof.
    intros HP.
    destruct (ag_sched (S (Z.to_nat P)) P 0 (fun r => upd (fun _ => []) r (b r))
                       (fun _ buf => Ret (slots buf 0 (Z.to_nat P))) ag_start)
      as [n [s' [buf' [Hrun [Hp [Hpo Hc]]]]]]; try lia.
    - intros r Hr. unfold ag_start. cbn [pr]. replace ((0 <=? r) && (r <? P)) with true by lia. reflexivity.
    - intros r Hr. unfold upd. rewrite Z.eqb_refl. reflexivity.
    - intros. reflexivity.
    - exists n. replace ag_end with s'; [exact Hrun|].
      apply gs_eq.
      + intros r. unfold ag_end. cbn [pr]. destruct ((0 <=? r) && (r <? P)) eqn:E.
        * destruct (Hp r ltac:(lia)) as [Hpr Hfill]. rewrite Hpr. f_equal. apply slots_ext.
          intros j Hj. rewrite Hfill. unfold inb. replace ((0 <=? j) && (j <? 0 + P)) with true by lia. reflexivity.
        * rewrite Hpo by lia. unfold ag_start. cbn [pr]. rewrite E. reflexivity.
      + intros a d t. rewrite Hc. reflexivity.
  Qed.

  (* EVERY schedule: any run of the system of m steps has m <= n, can be completed to ag_end in n - m steps,
     if it is complete (final) it IS ag_end, and it is never stuck *)
  Theorem allgather_all_schedules : 0 < P -> exists n, run n ag_start ag_end /\ terminal_for ag_start ag_end n.
  Proof.
    intros HP. destruct (allgather_one_schedule HP) as [n Hn]. exists n. split; [exact Hn|].
    apply one_schedule_all_schedules; [exact Hn|apply ag_end_final].
  Qed.
End Sched.

(* ---- the link to the global dataflow model: the row of rank r in `allgather` IS what the program returns ---- *)
Definition model_row (amax P : Z) (b : buffer) (r : Z) : payload :=
  slots (fun i => match allgather payload amax P b r i with Some x => x | None => [] end) 0 (Z.to_nat P).

Lemma model_row_eq amax P b r : 1 <= amax -> 0 < P -> 0 <= r < P -> model_row amax P b r = slots b 0 (Z.to_nat P).
Proof.
  intros Ha HP Hr. unfold model_row. apply slots_ext. intros j Hj.
  rewrite (allgather_correct payload amax Ha b P HP r j Hr) by lia. reflexivity.
Qed.

(* the final state in terms of the global model *)
Lemma ag_end_model amax P b : 1 <= amax -> 0 < P ->
  forall r, 0 <= r < P -> pr (ag_end P b) r = Ret (model_row amax P b r).
Proof.
  intros Ha HP r Hr. unfold ag_end. cbn [pr]. replace ((0 <=? r) && (r <? P)) with true by lia.
  rewrite model_row_eq by assumption. reflexivity.
Qed.

Lemma ag_end_is_model amax P (b : buffer) : 1 <= amax -> 0 < P ->
  (forall a d t, ch (ag_end P b) a d t = []) /\
  forall r, 0 <= r < P ->
    pr (ag_end P b) r = Ret (model_row amax P b r) /\ model_row amax P b r = slots b 0 (Z.to_nat P).
Proof.
  intros Ha HP. split; [reflexivity|]. intros r Hr.
  split; [exact (ag_end_model amax P b Ha HP r Hr) | exact (model_row_eq amax P b r Ha HP Hr)].
Qed.
