(* C04 - tie T1: the message lists of the hand-written model (AllgatherModel.v: recvs_level, sends_level, recvs_a2a, sends_a2a)
   are exactly the Irecv / Isend calls of the definitions GENERATED from /repo/src/sc_allgather.c (Gen/AllgatherC04.v, regenerated
   on every run): g2 / g2B, the three branches with their tests, peers, tags, buffer offsets and byte counts; the recursion
   arguments; the all-to-all peers, tags, slots; sc_allgather's datasize, own-block copy and top-level call.
   A model message m of group (g, base) with block size sz corresponds to the C call with buffer `data + (lo m - base) * sz`
   (data = recvbuf + base * sz), cnt m * sz bytes, peer m and the enumerator of its tag id.  Ranks, counts and byte counts are
   C ints (below 2^31).  An edit of that arithmetic changes a generated definition and one of these lemmas stops checking. *)
From Coq Require Import ZArith Lia List Bool.
From ScV Require Import Base.CInt Gen.Consts Gen.AllgatherC04 C04.AllgatherModel.
Import ListNotations.
Local Open Scope Z_scope.

Definition B31 : Z := 2 ^ 31.
Lemma s32_sm x : - B31 <= x < B31 -> s32 x = x.
Proof. intros H. apply s32_id. unfold in_s32, M32. unfold B31 in H. change (2 ^ 31) with 2147483648 in H. lia. Qed.
Lemma u64_sm x : 0 <= x < 2 ^ 62 -> u64 x = x.
Proof. intros H. apply u64_id. unfold M64. change (2 ^ 62) with 4611686018427387904 in H. lia. Qed.

(* the enumerator a model tag id stands for *)
Definition tagv (ta tb tc tall t : Z) : Z :=
  if t =? TAG_A then ta else if t =? TAG_B then tb else if t =? TAG_C then tc else tall.
(* the C call of a model message: (byte offset from `data`, bytes, peer, tag) *)
Definition as_call (sz base ta tb tc tall : Z) (m : msg) : Z * Z * Z * Z :=
  ((lo m - base) * sz, cnt m * sz, peer m, tagv ta tb tc tall (mtag m)).

Lemma tagv_A ta tb tc tall : tagv ta tb tc tall TAG_A = ta.  Proof. reflexivity. Qed.
Lemma tagv_B ta tb tc tall : tagv ta tb tc tall TAG_B = tb.  Proof. reflexivity. Qed.
Lemma tagv_C ta tb tc tall : tagv ta tb tc tall TAG_C = tc.  Proof. reflexivity. Qed.
Lemma tagv_all ta tb tc tall : tagv ta tb tc tall TAG_ALLTOALL = tall.  Proof. reflexivity. Qed.
Ltac s32s tac := repeat match goal with |- context [s32 ?x] => rewrite (s32_sm x) by tac end.
Ltac tup := repeat match goal with |- (_, _) = (_, _) => apply f_equal2 end.
Ltac one_call := rewrite ?tagv_A, ?tagv_B, ?tagv_C, ?tagv_all; apply (f_equal (fun x => [x])); tup; try reflexivity; lia.

(* ---------- sc_allgather_recursive ------------------------------------------------------------------------------------------ *)
Lemma gen_halves g : 0 <= g < B31 -> ag_halves g = (g / 2, g - g / 2).
Proof.
  intros H. unfold ag_halves. cbv zeta. unfold cdiv. rewrite Z.quot_div_nonneg by lia.
  assert (0 <= g / 2 <= g) by (split; [apply Z.div_pos; lia | apply Z.div_le_upper_bound; lia]).
  rewrite !s32_sm by (unfold B31 in *; lia). reflexivity.
Qed.

Lemma gen_is_recursive g : ag_is_recursive g = (c_SC_ALLGATHER_ALLTOALL_MAX <? g).
Proof. reflexivity. Qed.

Section Level.
  Variables g base r sz ta tb tc tall : Z.
  Hypothesis Hg : 2 <= g.
  Hypothesis Hb : 0 <= base.
  Hypothesis Hr : base <= r < base + g.
  Hypothesis Hsz : 0 <= sz.
  Hypothesis Hbytes : g * sz < B31.
  Hypothesis Hranks : base + 2 * g < B31.
  Let g2 := g / 2.
  Let g2B := g - g2.
  Let o := r - base.
  Let call (k : Z -> Z -> Z -> Z -> Z -> Z -> Z -> Z) (b : Z -> Z -> Z -> Z -> Z -> Z -> Z -> Z)
           (p : Z -> Z -> Z -> Z -> Z -> Z -> Z -> Z) (t : Z -> Z -> Z -> Z -> Z -> Z -> Z -> Z) : Z * Z * Z * Z :=
    (k sz g2 g2B r ta tb tc, b sz g2 g2B r ta tb tc, p sz g2 g2B r ta tb tc, t sz g2 g2B r ta tb tc).

  Lemma halves_range : 1 <= g2 /\ g2 <= g2B /\ g2B <= g2 + 1 /\ g2 + g2B = g.
  Proof. subst g2B g2. pose proof (Z.div_mod g 2 ltac:(lia)). pose proof (Z.mod_pos_bound g 2 ltac:(lia)). lia. Qed.

  (* the receives the model lists for rank r in the exchange step of group (g, base) are the Irecv calls of the branch the
     generated tests select: call 1 in the lower half, call 4 for the unpaired last rank of an odd group, call 5 otherwise *)
  Lemma gen_recvs_level :
    map (as_call sz base ta tb tc tall) (recvs_level g base r) =
    if ag_in_lower o g2 then [call ag_msg1_offset ag_msg1_bytes ag_msg1_peer ag_msg1_tag]
    else if ag_upper_odd o g g2 g2B then [call ag_msg4_offset ag_msg4_bytes ag_msg4_peer ag_msg4_tag]
    else [call ag_msg5_offset ag_msg5_bytes ag_msg5_peer ag_msg5_tag].
  Proof.
    pose proof halves_range as Hh. unfold recvs_level, ag_in_lower, ag_upper_odd, call. fold g2. fold g2B. fold o.
    rewrite (s32_sm (g - 1)) by (unfold B31 in *; lia).
    assert (Hm : forall a b, 0 <= a <= g -> 0 <= b <= sz -> - B31 <= a * b < B31) by (intros; unfold B31 in *; nia).
    destruct (o <? g2).
    - cbn [map]. unfold as_call, ag_msg1_offset, ag_msg1_bytes, ag_msg1_peer, ag_msg1_tag. cbn [lo cnt peer mtag].
      rewrite !s32_sm by (try (apply Hm; lia); unfold B31 in *; subst o; lia).
      one_call.
    - destruct ((o =? g - 1) && negb (g2 =? g2B)).
      + cbn [map]. unfold as_call, ag_msg4_offset, ag_msg4_bytes, ag_msg4_peer, ag_msg4_tag. cbn [lo cnt peer mtag].
        rewrite !s32_sm by (try (apply Hm; lia); unfold B31 in *; subst o; lia).
        one_call.
      + cbn [map]. unfold as_call, ag_msg5_offset, ag_msg5_bytes, ag_msg5_peer, ag_msg5_tag. cbn [lo cnt peer mtag].
        rewrite !s32_sm by (try (apply Hm; lia); unfold B31 in *; subst o; lia).
        one_call.
  Qed.

  (* ... and the sends: call 2 (plus call 3 for the last rank of the lower half of an odd group) in the lower half, nothing
     for the unpaired rank, call 6 otherwise *)
  Lemma gen_sends_level :
    map (as_call sz base ta tb tc tall) (sends_level g base r) =
    if ag_in_lower o g2 then
      call ag_msg2_offset ag_msg2_bytes ag_msg2_peer ag_msg2_tag ::
      (if ag_lower_odd o g2 g2B then [call ag_msg3_offset ag_msg3_bytes ag_msg3_peer ag_msg3_tag] else [])
    else if ag_upper_odd o g g2 g2B then []
    else [call ag_msg6_offset ag_msg6_bytes ag_msg6_peer ag_msg6_tag].
  Proof.
    pose proof halves_range as Hh. unfold sends_level, ag_in_lower, ag_lower_odd, ag_upper_odd, call. fold g2. fold g2B. fold o.
    rewrite (s32_sm (g - 1)), (s32_sm (g2 - 1)) by (unfold B31 in *; lia).
    assert (Hm : forall a b, 0 <= a <= g -> 0 <= b <= sz -> - B31 <= a * b < B31) by (intros; unfold B31 in *; nia).
    destruct (o <? g2).
    - cbn [map]. unfold as_call at 1, ag_msg2_offset, ag_msg2_bytes, ag_msg2_peer, ag_msg2_tag. cbn [lo cnt peer mtag].
      rewrite !s32_sm by (try (apply Hm; lia); unfold B31 in *; subst o; lia).
      rewrite tagv_A. f_equal; [tup; try reflexivity; lia|].
      destruct ((o =? g2 - 1) && negb (g2 =? g2B)); [|reflexivity].
      cbn [map]. unfold as_call, ag_msg3_offset, ag_msg3_bytes, ag_msg3_peer, ag_msg3_tag. cbn [lo cnt peer mtag].
      rewrite !s32_sm by (try (apply Hm; lia); unfold B31 in *; subst o; lia).
      one_call.
    - destruct ((o =? g - 1) && negb (g2 =? g2B)); [reflexivity|].
      cbn [map]. unfold as_call, ag_msg6_offset, ag_msg6_bytes, ag_msg6_peer, ag_msg6_tag. cbn [lo cnt peer mtag].
      rewrite !s32_sm by (try (apply Hm; lia); unfold B31 in *; subst o; lia).
      one_call.
  Qed.

  (* the recursion: the lower half works on (g2, base) with the same data pointer and offset, the upper half on
     (g2B, base + g2) with data + g2 * sz and offset myoffset - g2 (model: ag f g2 base / ag f g2B (base + g2)) *)
  Lemma gen_recurse :
    ag_recurse_lower_offset sz g2 g2B o r = 0 /\ ag_recurse_lower sz g2 g2B o r = (sz, g2, r - base, r) /\
    ag_recurse_upper_offset sz g2 g2B o r = ((base + g2) - base) * sz /\ ag_recurse_upper sz g2 g2B o r = (sz, g2B, r - (base + g2), r) /\
    ag_wait_count = 3.
  Proof.
    pose proof halves_range as Hh. unfold ag_recurse_lower_offset, ag_recurse_lower, ag_recurse_upper_offset, ag_recurse_upper, ag_wait_count.
    cbv zeta. rewrite !s32_sm by (unfold B31 in *; subst o; nia). subst o. repeat split; tup; try reflexivity; lia.
  Qed.
End Level.

Lemma gen_a2a_args sz g o r : ag_a2a_args sz g o r = (sz, g, o, r).
Proof. reflexivity. Qed.

(* ---------- sc_allgather_alltoall ------------------------------------------------------------------------------------------------ *)
Section A2A.
  Variables g base r sz tall : Z.
  Hypothesis Hb : 0 <= base.
  Hypothesis Hr : base <= r < base + g.
  Hypothesis Hsz : 0 <= sz.
  Hypothesis Hbytes : g * sz < B31.
  Hypothesis Hranks : base + 2 * g < B31.
  Let o := r - base.

  Definition a2a_calls (off byt per tg : Z -> Z -> Z -> Z -> Z -> Z) : list (Z * Z * Z * Z) :=
    map (fun j => let jz := Z.of_nat j in let p := AllgatherC04.a2a_peer r o jz in
                  (off sz jz o p tall, byt sz jz o p tall, per sz jz o p tall, tg sz jz o p tall))
        (filter (fun j => negb (a2a_skip (Z.of_nat j) o)) (seq 0 (Z.to_nat g))).

  Lemma a2a_filter : filter (fun j => negb (base + Z.of_nat j =? r)) (seq 0 (Z.to_nat g)) =
                     filter (fun j => negb (a2a_skip (Z.of_nat j) o)) (seq 0 (Z.to_nat g)).
  Proof.
    apply filter_ext. intros j. unfold a2a_skip. subst o. f_equal.
    destruct (Z.eqb_spec (base + Z.of_nat j) r); destruct (Z.eqb_spec (Z.of_nat j) (r - base)); try reflexivity; lia.
  Qed.

  (* every member j of the group except the rank itself: receive slot base + j from rank base + j, send the own slot to it *)
  Lemma gen_recvs_a2a :
    map (as_call sz base 0 0 0 tall) (recvs_a2a g base r) = a2a_calls a2a_recv_offset a2a_recv_bytes a2a_recv_peer a2a_recv_tag.
  Proof.
    unfold recvs_a2a, a2a_calls. rewrite a2a_filter, map_map. apply map_ext_in. intros j Hj.
    apply filter_In in Hj. destruct Hj as [Hj _]. apply in_seq in Hj.
    unfold as_call, a2a_recv_offset, a2a_recv_bytes, a2a_recv_peer, a2a_recv_tag, AllgatherC04.a2a_peer. cbn [lo cnt peer mtag]. cbv zeta.
    assert (0 <= Z.of_nat j < g) by lia.
    s32s ltac:(unfold B31 in *; subst o; nia). rewrite tagv_all. subst o. tup; try reflexivity; lia.
  Qed.

  Lemma gen_sends_a2a :
    map (as_call sz base 0 0 0 tall) (sends_a2a g base r) = a2a_calls a2a_send_offset a2a_send_bytes a2a_send_peer a2a_send_tag.
  Proof.
    unfold sends_a2a, a2a_calls. rewrite a2a_filter, map_map. apply map_ext_in. intros j Hj.
    apply filter_In in Hj. destruct Hj as [Hj _]. apply in_seq in Hj.
    unfold as_call, a2a_send_offset, a2a_send_bytes, a2a_send_peer, a2a_send_tag, AllgatherC04.a2a_peer. cbn [lo cnt peer mtag]. cbv zeta.
    assert (0 <= Z.of_nat j < g) by lia.
    s32s ltac:(unfold B31 in *; subst o; nia). rewrite tagv_all. subst o. tup; try reflexivity; lia.
  Qed.

  Lemma gen_a2a_counts j : a2a_loop_cond j g = (j <? g) /\ a2a_wait_count g = 2 * g.
  Proof. unfold a2a_loop_cond, a2a_wait_count. rewrite s32_sm by (unfold B31 in *; lia). split; reflexivity. Qed.
End A2A.

(* ---------- the statements above without section variables (these are the ones the properties file quotes) ------------------ *)
Definition call7 (k b p t : Z -> Z -> Z -> Z -> Z -> Z -> Z -> Z) (sz g2 g2B r ta tb tc : Z) : Z * Z * Z * Z :=
  (k sz g2 g2B r ta tb tc, b sz g2 g2B r ta tb tc, p sz g2 g2B r ta tb tc, t sz g2 g2B r ta tb tc).

Lemma gen_recvs_level_c g base r sz ta tb tc tall :
  2 <= g -> 0 <= base -> base <= r < base + g -> 0 <= sz -> g * sz < B31 -> base + 2 * g < B31 ->
  map (as_call sz base ta tb tc tall) (recvs_level g base r) =
  if ag_in_lower (r - base) (g / 2) then [call7 ag_msg1_offset ag_msg1_bytes ag_msg1_peer ag_msg1_tag sz (g / 2) (g - g / 2) r ta tb tc]
  else if ag_upper_odd (r - base) g (g / 2) (g - g / 2) then [call7 ag_msg4_offset ag_msg4_bytes ag_msg4_peer ag_msg4_tag sz (g / 2) (g - g / 2) r ta tb tc]
  else [call7 ag_msg5_offset ag_msg5_bytes ag_msg5_peer ag_msg5_tag sz (g / 2) (g - g / 2) r ta tb tc].
Proof. intros. unfold call7. apply gen_recvs_level; assumption. Qed.

Lemma gen_sends_level_c g base r sz ta tb tc tall :
  2 <= g -> 0 <= base -> base <= r < base + g -> 0 <= sz -> g * sz < B31 -> base + 2 * g < B31 ->
  map (as_call sz base ta tb tc tall) (sends_level g base r) =
  if ag_in_lower (r - base) (g / 2) then
    call7 ag_msg2_offset ag_msg2_bytes ag_msg2_peer ag_msg2_tag sz (g / 2) (g - g / 2) r ta tb tc ::
    (if ag_lower_odd (r - base) (g / 2) (g - g / 2) then [call7 ag_msg3_offset ag_msg3_bytes ag_msg3_peer ag_msg3_tag sz (g / 2) (g - g / 2) r ta tb tc] else [])
  else if ag_upper_odd (r - base) g (g / 2) (g - g / 2) then []
  else [call7 ag_msg6_offset ag_msg6_bytes ag_msg6_peer ag_msg6_tag sz (g / 2) (g - g / 2) r ta tb tc].
Proof. intros. unfold call7. apply gen_sends_level; assumption. Qed.

Lemma gen_recurse_c g base r sz : 2 <= g -> 0 <= base -> base <= r < base + g -> 0 <= sz -> g * sz < B31 -> base + 2 * g < B31 ->
  ag_recurse_lower_offset sz (g / 2) (g - g / 2) (r - base) r = 0 /\
  ag_recurse_lower sz (g / 2) (g - g / 2) (r - base) r = (sz, g / 2, r - base, r) /\
  ag_recurse_upper_offset sz (g / 2) (g - g / 2) (r - base) r = ((base + g / 2) - base) * sz /\
  ag_recurse_upper sz (g / 2) (g - g / 2) (r - base) r = (sz, g - g / 2, r - (base + g / 2), r) /\
  ag_wait_count = 3.
Proof. intros. apply gen_recurse; assumption. Qed.

Lemma gen_recvs_a2a_c g base r sz tall : 0 <= base -> base <= r < base + g -> 0 <= sz -> g * sz < B31 -> base + 2 * g < B31 ->
  map (as_call sz base 0 0 0 tall) (recvs_a2a g base r) = a2a_calls g base r sz tall a2a_recv_offset a2a_recv_bytes a2a_recv_peer a2a_recv_tag.
Proof. intros. apply gen_recvs_a2a; assumption. Qed.

Lemma gen_sends_a2a_c g base r sz tall : 0 <= base -> base <= r < base + g -> 0 <= sz -> g * sz < B31 -> base + 2 * g < B31 ->
  map (as_call sz base 0 0 0 tall) (sends_a2a g base r) = a2a_calls g base r sz tall a2a_send_offset a2a_send_bytes a2a_send_peer a2a_send_tag.
Proof. intros. apply gen_sends_a2a; assumption. Qed.

Lemma gen_a2a_counts_c g base j : 0 <= base -> base + 2 * g < B31 -> 0 <= g -> a2a_loop_cond j g = (j <? g) /\ a2a_wait_count g = 2 * g.
Proof. intros. unfold a2a_loop_cond, a2a_wait_count. rewrite s32_sm by (unfold B31 in *; lia). split; reflexivity. Qed.

(* ---------- sc_allgather ------------------------------------------------------------------------------------------------------------ *)
(* datasize = sendcount * sizeof (SENDTYPE); the own block goes to slot mpirank (model: init b r r = Some (b r)) and has datasize
   bytes; the recursion starts with the whole communicator: group (P, 0), offset = rank *)
Lemma gen_top n ts P r sendtype recvtype : 0 <= n < B31 -> 0 <= ts -> n * ts < B31 -> 0 <= r < P -> P < B31 ->
  top_datasize n ts = n * ts /\ top_sized_type sendtype recvtype = sendtype /\
  top_copy_offset r (n * ts) = r * (n * ts) /\ top_copy_bytes r (n * ts) = n * ts /\
  top_args (n * ts) P r = (n * ts, P, r - 0, r).
Proof.
  intros Hn Ht Hb Hr Hp. assert (Hq : r * (n * ts) < 2 ^ 62) by (unfold B31 in *; nia). unfold top_datasize, top_sized_type, top_copy_offset, top_copy_bytes, top_args. cbv zeta.
  assert (B31 < 2 ^ 62) by (unfold B31; reflexivity).
  rewrite (u64_sm n) by lia.
  rewrite (u64_sm (n * ts)) by nia. rewrite (u64_sm r) by lia. rewrite (u64_sm (r * (n * ts))) by nia.
  rewrite s32_sm by (unfold B31 in *; nia). rewrite Z.sub_0_r. repeat split; reflexivity.
Qed.

(* ---------- the LOOP of sc_allgather_alltoall, iteration by iteration -------------------------------------------------------------
   a2a_iter is ONE ITERATION of the loop body translated as a block: (Irecv called?, its 7 arguments, Isend called?, its 7 arguments,
   stop); a2a_loop_init / a2a_loop_cond / a2a_loop_step are the loop header; a2a_null_recv_slot / a2a_null_send_slot the two request
   slots that the skip branch sets to sc_MPI_REQUEST_NULL.  The loop is re-assembled here from these generated pieces (loop_js: the
   values j takes; iter_recv_call / iter_send_call: the calls of iteration j as (byte offset from data, bytes, peer, tag);
   iter_recv_slot / iter_send_slot: the request slots iteration j fills) and proved equal to the model's message lists. *)
Lemma map_filter_flat {A B} (F : A -> B) (p : A -> bool) l :
  map F (filter p l) = flat_map (fun x => if p x then [F x] else []) l.
Proof. induction l as [|a l IH]; cbn; [reflexivity|]. destruct (p a); cbn; rewrite IH; reflexivity. Qed.
Lemma flat_map_map {A B C} (h : B -> list C) (k : A -> B) l : flat_map h (map k l) = flat_map (fun x => h (k x)) l.
Proof. induction l as [|a l IH]; cbn; [reflexivity|]. rewrite IH. reflexivity. Qed.
Lemma flat_map_ext_in {A B} (f g : A -> list B) l : (forall x, In x l -> f x = g x) -> flat_map f l = flat_map g l.
Proof.
  induction l as [|a l IH]; intros H; cbn; [reflexivity|]. rewrite (H a) by (left; reflexivity).
  rewrite IH by (intros x Hx; apply H; right; exact Hx). reflexivity.
Qed.

Section A2ALoop.
  Variables g base r sz tall data request comm byte ret1 ret2 : Z.
  Hypothesis Hb : 0 <= base.
  Hypothesis Hr : base <= r < base + g.
  Hypothesis Hsz : 0 <= sz.
  Hypothesis Hbytes : g * sz < B31.
  Hypothesis Hranks : base + 2 * g < B31.
  Let o := r - base.

  Definition a2a_iter_at (j : Z) := a2a_iter j o r sz g data request comm byte tall ret1 ret2.

  (* what one iteration does, for EVERY value of j the loop takes: nothing for the own offset; otherwise one Irecv into slot j from
     rank base + j and one Isend of the own slot to the same rank, sz bytes of sc_MPI_BYTE with the all-to-all tag on the communicator,
     requests j and groupsize + j; the body never leaves the loop (stop = 0) *)
  Lemma gen_a2a_iter j : 0 <= j < g ->
    a2a_iter_at j =
    if j =? o then (0, 0, 0, 0, 0, 0, 0, 0, 0, 0, 0, 0, 0, 0, 0, 0, 0)
    else (1, data + j * sz, sz, u32 byte, base + j, tall, comm, request + j,
          1, data + o * sz, sz, u32 byte, base + j, tall, comm, request + g + j, 0).
  Proof.
    intros Hj. unfold a2a_iter_at, a2a_iter. cbv zeta. destruct (j =? o); [reflexivity|].
    s32s ltac:(unfold B31 in *; subst o; nia). subst o. tup; try reflexivity; lia.
  Qed.

  Definition iter_recv_call (j : Z) : list (Z * Z * Z * Z) :=
    let '(rc, r0, r1, _, r3, r4, _, _, _, _, _, _, _, _, _, _, _) := a2a_iter_at j in
    if rc =? 1 then [(r0 - data, r1, r3, r4)] else [].
  Definition iter_send_call (j : Z) : list (Z * Z * Z * Z) :=
    let '(_, _, _, _, _, _, _, _, sc, s0, s1, _, s3, s4, _, _, _) := a2a_iter_at j in
    if sc =? 1 then [(s0 - data, s1, s3, s4)] else [].
  (* the request slot filled in iteration j: by the call, or with sc_MPI_REQUEST_NULL in the skip branch *)
  Definition iter_recv_slot (j : Z) : Z :=
    let '(rc, _, _, _, _, _, _, r6, _, _, _, _, _, _, _, _, _) := a2a_iter_at j in
    if rc =? 1 then r6 - request else a2a_null_recv_slot j g.
  Definition iter_send_slot (j : Z) : Z :=
    let '(_, _, _, _, _, _, _, _, sc, _, _, _, _, _, _, s6, _) := a2a_iter_at j in
    if sc =? 1 then s6 - request else a2a_null_send_slot j g.
  Definition iter_stop (j : Z) : Z :=
    let '(_, _, _, _, _, _, _, _, _, _, _, _, _, _, _, _, st) := a2a_iter_at j in st.
  Definition iter_types (j : Z) : Z * Z * Z * Z :=
    let '(_, _, _, r2, _, _, r5, _, _, _, _, s2, _, _, s5, _, _) := a2a_iter_at j in (r2, r5, s2, s5).

  (* the values of j: the generated header run with fuel *)
  Fixpoint loop_js (fuel : nat) (j : Z) : list Z :=
    match fuel with
    | O => []
    | S f => if a2a_loop_cond j g then j :: loop_js f (a2a_loop_step j) else []
    end.

  Lemma loop_js_from : forall fuel j, 0 <= j <= g -> (Z.to_nat (g - j) < fuel)%nat ->
    loop_js fuel j = map Z.of_nat (seq (Z.to_nat j) (Z.to_nat (g - j))).
  Proof.
    induction fuel as [|f IH]; intros j Hj Hf; [lia|]. cbn [loop_js]. unfold a2a_loop_cond.
    destruct (Z.ltb_spec j g) as [Hlt|Hge].
    - unfold a2a_loop_step. cbv zeta. rewrite s32_sm by (unfold B31 in *; lia).
      rewrite IH by lia. replace (Z.to_nat (g - j)) with (S (Z.to_nat (g - (j + 1)))) by lia.
      cbn [seq map]. rewrite Z2Nat.id by lia. f_equal. f_equal. f_equal. lia.
    - replace (g - j) with 0 by lia. reflexivity.
  Qed.

  Lemma gen_loop_js : loop_js (S (Z.to_nat g)) a2a_loop_init = map Z.of_nat (seq 0 (Z.to_nat g)).
  Proof.
    unfold a2a_loop_init. rewrite loop_js_from by lia. rewrite Z.sub_0_r. reflexivity.
  Qed.

  Lemma iter_recv_call_eq j : 0 <= j < g ->
    iter_recv_call j = if negb (j =? o) then [(j * sz, sz, base + j, tall)] else [].
  Proof.
    intros Hj. unfold iter_recv_call. rewrite gen_a2a_iter by exact Hj. destruct (j =? o); cbn; [reflexivity|].
    f_equal. tup; try reflexivity; lia.
  Qed.
  Lemma iter_send_call_eq j : 0 <= j < g ->
    iter_send_call j = if negb (j =? o) then [(o * sz, sz, base + j, tall)] else [].
  Proof.
    intros Hj. unfold iter_send_call. rewrite gen_a2a_iter by exact Hj. destruct (j =? o); cbn; [reflexivity|].
    f_equal. tup; try reflexivity; lia.
  Qed.

  (* MODEL = GENERATED LOOP: the receives (sends) of the model's all-to-all window are the Irecv (Isend) calls of the generated
     iterations over the generated sequence of j, in posting order *)
  Lemma gen_loop_recvs :
    map (as_call sz base 0 0 0 tall) (recvs_a2a g base r) = flat_map iter_recv_call (loop_js (S (Z.to_nat g)) a2a_loop_init).
  Proof.
    rewrite gen_loop_js. unfold recvs_a2a. rewrite map_map, map_filter_flat, flat_map_map.
    apply flat_map_ext_in. intros j Hj. apply in_seq in Hj. rewrite iter_recv_call_eq by lia.
    replace (Z.of_nat j =? o) with (base + Z.of_nat j =? r) by (subst o; lia).
    destruct (base + Z.of_nat j =? r); cbn [negb]; [reflexivity|].
    unfold as_call. cbn [lo cnt peer mtag]. rewrite tagv_all. f_equal. tup; try reflexivity; lia.
  Qed.
  Lemma gen_loop_sends :
    map (as_call sz base 0 0 0 tall) (sends_a2a g base r) = flat_map iter_send_call (loop_js (S (Z.to_nat g)) a2a_loop_init).
  Proof.
    rewrite gen_loop_js. unfold sends_a2a. rewrite map_map, map_filter_flat, flat_map_map.
    apply flat_map_ext_in. intros j Hj. apply in_seq in Hj. rewrite iter_send_call_eq by lia.
    replace (Z.of_nat j =? o) with (base + Z.of_nat j =? r) by (subst o; lia).
    destruct (base + Z.of_nat j =? r); cbn [negb]; [reflexivity|].
    unfold as_call. cbn [lo cnt peer mtag]. rewrite tagv_all. f_equal. subst o. tup; try reflexivity; lia.
  Qed.

  (* REQUEST SLOTS: iteration j fills slot j (Irecv, or NULL for the own offset) and slot groupsize + j (Isend, or NULL); over the
     loop these are the slots 0 .. g-1 and g .. 2g-1, each once, and 2g requests are waited for.  Both calls of an iteration use
     the same datatype and communicator, and no iteration leaves the loop *)
  Lemma gen_loop_slots :
    let js := loop_js (S (Z.to_nat g)) a2a_loop_init in
    map iter_recv_slot js = map Z.of_nat (seq 0 (Z.to_nat g)) /\
    map iter_send_slot js = map (fun j => g + Z.of_nat j) (seq 0 (Z.to_nat g)) /\
    a2a_wait_count g = 2 * g /\
    (forall j, In j js -> iter_stop j = 0 /\ (j <> o -> iter_types j = (u32 byte, comm, u32 byte, comm))).
  Proof.
    cbv zeta. rewrite gen_loop_js. split; [|split; [|split]].
    - rewrite map_map. apply map_ext_in. intros j Hj. apply in_seq in Hj. unfold iter_recv_slot.
      rewrite gen_a2a_iter by lia. destruct (Z.of_nat j =? o); cbn; [reflexivity|lia].
    - rewrite map_map. apply map_ext_in. intros j Hj. apply in_seq in Hj. unfold iter_send_slot.
      rewrite gen_a2a_iter by lia. destruct (Z.of_nat j =? o); cbn.
      + unfold a2a_null_send_slot. rewrite s32_sm by (unfold B31 in *; lia). reflexivity.
      + lia.
    - unfold a2a_wait_count. apply s32_sm. unfold B31 in *. lia.
    - intros j Hj. apply in_map_iff in Hj. destruct Hj as [n [<- Hn]]. apply in_seq in Hn.
      unfold iter_stop, iter_types. rewrite gen_a2a_iter by lia.
      destruct (Z.eqb_spec (Z.of_nat n) o); cbn; split; try reflexivity; intros; try contradiction; reflexivity.
  Qed.
End A2ALoop.

(* ---------- the WHOLE BODY of sc_allgather -------------------------------------------------------------------------------------------
   top_body = (Comm_size called, its communicator, Comm_rank called, its communicator, memcpy called, destination, source, bytes,
   sc_allgather_recursive called, its six arguments, return value).  With datasize = n * ts, P = what Comm_size stored, r = what
   Comm_rank stored: both queries go to the communicator of the call; the own block (sendbuf, 1 * datasize bytes) is copied to slot r
   of the group (P, 0): byte offset (r - 0) * datasize (model: upd _ me mine); then the recursion runs ONCE on the same communicator and
   receive buffer for the group (P, 0) with offset r - 0 (model: ag_prog .. P 0 me); the function returns sc_MPI_SUCCESS.  Nothing
   else is called. *)
Lemma gen_top_body sendbuf recvbuf comm n n' ts P r sendtype recvtype ret1 ret2 succ :
  0 <= n < B31 -> 0 <= ts -> n * ts < B31 -> 0 <= r < P -> P < B31 ->
  top_body sendbuf n sendtype recvbuf n' recvtype comm ts ret1 ret2 P r succ =
  (1, comm, 1, comm, 1, recvbuf + (r - 0) * (n * ts), sendbuf, 1 * (n * ts), 1, comm, recvbuf, n * ts, P, r - 0, r, succ).
Proof.
  intros Hn Ht Hb Hr Hp. assert (Hq : r * (n * ts) < 2 ^ 62) by (unfold B31 in *; nia). unfold top_body. cbv zeta.
  assert (B31 < 2 ^ 62) by (unfold B31; reflexivity).
  rewrite (u64_sm n) by lia. rewrite (u64_sm (n * ts)) by nia. rewrite (u64_sm r) by lia. rewrite (u64_sm (r * (n * ts))) by nia.
  rewrite s32_sm by (unfold B31 in *; nia). tup; try reflexivity; lia.
Qed.

(* ---------- request slots of sc_allgather_recursive, allocation of sc_allgather_alltoall ---------------------------------------------
   ag_req_slots lists, for the four paths through the exchange step (lower half with / without the extra send, unpaired rank of the
   upper half, paired rank of the upper half), the literal slot numbers K of `request + K` (Irecv / Isend) and `request[K] = NULL`
   in source order.  On every path exactly ag_wait_count slots are written and each of 0 .. ag_wait_count - 1 is among them: every
   request that MPI_Waitall (3, request, ..) looks at has been set, none twice.  Stated so that a reordering inside a path is harmless. *)
Definition slots_ok (n : Z) (p : list Z) : bool :=
  (Z.of_nat (length p) =? n) && forallb (fun i => existsb (Z.eqb (Z.of_nat i)) p) (seq 0 (Z.to_nat n)).
Lemma slots_ok_spec n p : slots_ok n p = true -> Z.of_nat (length p) = n /\ forall i, 0 <= i < n -> In i p.
Proof.
  unfold slots_ok. intros H. apply andb_prop in H. destruct H as [H1 H2]. split; [apply Z.eqb_eq; exact H1|].
  intros i Hi. rewrite forallb_forall in H2. specialize (H2 (Z.to_nat i)). rewrite in_seq in H2.
  specialize (H2 ltac:(lia)). apply existsb_exists in H2. destruct H2 as [x [Hx E]]. apply Z.eqb_eq in E.
  rewrite Z2Nat.id in E by lia. subst x. exact Hx.
Qed.
Lemma gen_req_slots :
  length ag_req_slots = 4%nat /\
  Forall (fun p => Z.of_nat (length p) = ag_wait_count /\ forall i, 0 <= i < ag_wait_count -> In i p) ag_req_slots.
Proof.
  split; [reflexivity|]. apply Forall_forall. intros p Hp. apply slots_ok_spec.
  assert (H : forallb (slots_ok ag_wait_count) ag_req_slots = true) by (vm_compute; reflexivity).
  rewrite forallb_forall in H. apply H. exact Hp.
Qed.

(* sc_allgather_alltoall allocates exactly the requests it waits for (4 = sizeof (sc_MPI_Request) in the translated configuration) *)
Lemma gen_a2a_alloc g : 0 <= g -> 2 * g < B31 -> a2a_alloc_bytes g = a2a_wait_count g * 4.
Proof.
  intros H0 H1. unfold a2a_alloc_bytes, a2a_wait_count. rewrite s32_sm by (unfold B31 in *; lia).
  assert (4 * B31 < 2 ^ 62) by (unfold B31; reflexivity). rewrite (u64_sm (2 * g)) by lia. rewrite u64_sm by lia. reflexivity.
Qed.
